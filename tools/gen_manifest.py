#!/usr/bin/env python3
"""Assemble /verif/MANIFEST.json from manifest.d/*.json (one fragment per claimed property)."""
import json, glob, os
V = os.path.dirname(os.path.dirname(os.path.abspath(__file__)))
checks = [json.load(open(p)) for p in sorted(glob.glob(os.path.join(V, "manifest.d", "C*.json")))]
claimed = {c["property_id"] for c in checks}
na_path = os.path.join(V, "manifest.d", "not_applicable.json")
na = json.load(open(na_path)) if os.path.exists(na_path) else []
props = [json.loads(l)["id"] for l in open(os.path.join(V, "properties.jsonl"))]
not_applicable = [e for e in na if e["property_id"] not in claimed]
listed = claimed | {e["property_id"] for e in not_applicable}
for p in props:
    if p not in listed:
        not_applicable.append({"property_id": p, "reason": "not claimed yet: the check for this property is still being built (see DESIGN.md section 9); no technical obstacle"})
m = {
 "version": 1,
 "setup_cmd": "./setup.sh",
 "hooks": {
  "guard": "GEMSEO_VERIF",
  "enable": "none needed: the harness drives the public API in-process; no hook was added to /repo",
  "baseline_off_cmd": "cd /repo && /venv/bin/python -m pytest -ra -q -p no:cacheprovider --timeout=900 --continue-on-collection-errors",
  "source_commits": [],
  "add_only": True
 },
 "engines": [
  {"name": "lean4-proof+correspondence", "path": "lean/ + harness/ + check",
   "serves_properties": sorted(claimed),
   "kind_free_text": "Lean 4 theorems about hand-written executable models (lean/GemseoVerif/Model, Props), tied to /repo's working tree on every run by a differential correspondence check (harness/*.py drive the real code in-process and the Lean driver on the same operation lines) plus an independent property oracle; translator-generated Lean files where the code is a table or formula"}
 ],
 "checks": checks,
 "not_applicable": sorted(not_applicable, key=lambda e: e["property_id"]),
 "notes": "See DESIGN.md. Exit codes: 0 held, 1 VIOLATION line printed, 2 timeout/internal error. VERIF_SEED and VERIF_TIER are honoured."
}
json.dump(m, open(os.path.join(V, "MANIFEST.json"), "w"), indent=1)
findings = []
for p in sorted(glob.glob(os.path.join(V, "known_findings.d", "C*.json"))):
    findings += json.load(open(p))
json.dump({"_comment": "Merged from known_findings.d/*.json by tools/gen_manifest.py (never written at check run time). status=known: genuine defect recorded, not repaired: the check prints KNOWN-FINDING for exactly this key and still reports any other violation. status=fixed: repaired by the named fix: commit in /repo; suppresses nothing.",
           "findings": findings}, open(os.path.join(V, "known_findings.json"), "w"), indent=1)
print("MANIFEST.json:", len(checks), "checks,", len(m["not_applicable"]), "not_applicable")
