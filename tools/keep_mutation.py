#!/usr/bin/env python3
"""keep_mutation.py <PID> <srcdir> <name> <caught_by|MISSED> [note]  -> /verif/seeded/<name>/"""
import json, os, shutil, subprocess, sys
pid, src, name, caught = sys.argv[1:5]
note = sys.argv[5] if len(sys.argv) > 5 else ""
dst = f"/verif/seeded/{name}"
os.makedirs(dst, exist_ok=True)
for f in ("patch.diff", "demo.py"):
    shutil.copy(os.path.join(src, f), dst)
meta = {}
mp = os.path.join(src, "meta.json")
if os.path.exists(mp):
    try:
        meta = json.load(open(mp))
    except Exception:
        meta = {"raw_meta": open(mp).read()[:2000]}
head = subprocess.run(["git", "-C", "/repo", "rev-parse", "--short", "HEAD"], capture_output=True, text=True).stdout.strip()
meta.update({
    "property": pid,
    "origin": "written by a fresh sub-agent that saw only the property text and a scratch worktree",
    "confirmed_by_coordinator": f"tools/try_mutation.sh {pid} <dir>: patch applies to /repo HEAD {head} in a scratch worktree; demo.py exits 0 on HEAD and 1 on the mutant; existing tests as reported in tests_run",
    "check_result": caught,
    "note": note,
})
json.dump(meta, open(os.path.join(dst, "meta.json"), "w"), indent=1)
print("kept", dst)
