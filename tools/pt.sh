#!/bin/bash
# run part of /repo's test-suite in parallel and print only the summary + failures
cd /repo && /venv/bin/python -m pytest -p no:cacheprovider --timeout=900 -n ${PT_N:-8} -rf "$@" 2>&1 | grep -v mplstyle | grep -E "^(FAILED|ERROR)|passed|failed|error" | tail -${PT_TAIL:-15}
