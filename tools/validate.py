#!/venv/bin/python
"""Validate MANIFEST.json and every evidence file against the task schemas."""
import sys, json, glob
sys.path.append('/verif/.pydeps')
import jsonschema
ok = True
jsonschema.validate(json.load(open('/verif/MANIFEST.json')), json.load(open('/root/.vp/MANIFEST.schema.json')))
es = json.load(open('/root/.vp/EVIDENCE.schema.json'))
for p in sorted(glob.glob('/verif/evidence/*.json')):
    try:
        jsonschema.validate(json.load(open(p)), es)
    except Exception as e:
        ok = False; print("INVALID", p, str(e)[:300])
print("valid" if ok else "INVALID")
sys.exit(0 if ok else 1)
