#!/bin/bash
# lake under the shared lock used by the harness: tools/lk.sh build GemseoVerif.Props.C04
cd /verif/lean && exec flock .lake.lock lake "$@"
