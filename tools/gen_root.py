#!/usr/bin/env python3
"""Regenerate lean/GemseoVerif.lean (the library root) so that `lake build` builds every module."""
import glob, os
V = os.path.dirname(os.path.dirname(os.path.abspath(__file__)))
L = os.path.join(V, "lean")
mods = []
for sub in ("Model", "Lemmas", "Analysis", "Gen", "Props"):
    for p in sorted(glob.glob(os.path.join(L, "GemseoVerif", sub, "*.lean"))):
        mods.append(f"GemseoVerif.{sub}.{os.path.basename(p)[:-5]}")
open(os.path.join(L, "GemseoVerif.lean"), "w").write("".join(f"import {m}\n" for m in mods))
print("root imports", len(mods), "modules")
