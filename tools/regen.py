#!/venv/bin/python
"""Run every translator (harness.<pid>.pre_lean) so that lean/GemseoVerif/Gen/*.lean reflects /repo's current sources."""
import importlib
import os
import sys
from pathlib import Path

V = Path(__file__).resolve().parent.parent
sys.path.insert(0, str(V))
if (V / ".pydeps").is_dir():
    sys.path.append(str(V / ".pydeps"))
os.environ.setdefault("MPLBACKEND", "Agg")


class Ctx:
    pass


for f in sorted((V / "harness").glob("c[0-9][0-9].py")):
    src = f.read_text()
    if "def pre_lean" not in src:
        continue
    try:
        mod = importlib.import_module(f"harness.{f.stem}")
        ctx = Ctx()
        ctx.pid = f.stem.upper()
        mod.pre_lean(ctx)
        print("regenerated Gen files of", f.stem.upper())
    except Exception as e:  # noqa: BLE001
        print("warning: translator of", f.stem.upper(), "failed:", repr(e))
