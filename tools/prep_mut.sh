#!/bin/bash
# prep_mut.sh <PID>: scratch worktree /tmp/mut-<PID> at /repo HEAD + property file /tmp/mut-<PID>.property.json
p=$1
git -C /repo worktree add -q /tmp/mut-$p HEAD
/venv/bin/python - <<PY
import json
for l in open('/verif/properties.jsonl'):
    q=json.loads(l)
    if q['id']=='$p':
        open('/tmp/mut-$p.property.json','w').write(json.dumps(q, indent=1))
PY
mkdir -p /tmp/mutwork-$p
echo prepared $p
