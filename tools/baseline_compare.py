#!/venv/bin/python
"""Run (part of) /repo's suite and list the tests of BASELINE.json's stable_pass that did not pass.

usage: baseline_compare.py [pytest paths...]   (default: whole suite)
exit 0 iff every stable_pass test under the given paths passed.
"""
import json, subprocess, sys, tempfile, os
import xml.etree.ElementTree as ET

paths = sys.argv[1:] or ["tests"]
base = json.load(open("/root/.vp/BASELINE.json"))
stable = set(base["stable_pass"])
with tempfile.TemporaryDirectory() as d:
    xml = os.path.join(d, "j.xml")
    subprocess.run(
        ["/venv/bin/python", "-m", "pytest", "-q", "-p", "no:cacheprovider", "--timeout=900",
         "--continue-on-collection-errors", "-n", os.environ.get("PT_N", "12"), f"--junitxml={xml}", *paths],
        cwd="/repo", stdout=subprocess.DEVNULL, stderr=subprocess.DEVNULL)
    root = ET.parse(xml).getroot()
passed, notpassed = set(), set()
for tc in root.iter("testcase"):
    name = f"{tc.get('classname')}::{tc.get('name')}"
    bad = any(ch.tag in ("failure", "error", "skipped") for ch in tc)
    (notpassed if bad else passed).add(name)
prefixes = tuple(p.rstrip("/").replace("/", ".").removesuffix(".py") for p in paths)
scope = {t for t in stable if t.startswith(prefixes)}
missing = sorted(t for t in scope if t not in passed)
if missing:
    # xdist changes test order; confirm serially (whole files, original order) before reporting
    files = sorted({t.split("::")[0].replace(".", "/") + ".py" for t in missing})
    with tempfile.TemporaryDirectory() as d:
        xml = os.path.join(d, "j.xml")
        subprocess.run(["/venv/bin/python", "-m", "pytest", "-q", "-p", "no:cacheprovider", "--timeout=900",
                        f"--junitxml={xml}", *files], cwd="/repo", stdout=subprocess.DEVNULL, stderr=subprocess.DEVNULL)
        for tc in ET.parse(xml).getroot().iter("testcase"):
            name = f"{tc.get('classname')}::{tc.get('name')}"
            if not any(ch.tag in ("failure", "error", "skipped") for ch in tc):
                passed.add(name)
    missing = sorted(t for t in scope if t not in passed)
print(f"stable_pass in scope: {len(scope)}; passed now: {len(scope) - len(missing)}; not passing: {len(missing)}")
for t in missing[:40]:
    print("  NOT PASSING:", t, "(ran and failed)" if t in notpassed else "(not run)")
sys.exit(1 if missing else 0)
