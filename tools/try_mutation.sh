#!/bin/bash
# usage: tools/try_mutation.sh <PID> <dir with patch.diff demo.py> [extra check args]
# Applies the patch in a scratch worktree of /repo's HEAD, confirms the demo fails there and passes
# on HEAD, runs the /verif check against the worktree (PYTHONPATH), reports, removes the worktree.
PID=$1; DIR=$(realpath $2); shift 2
WT=/tmp/wtm-$PID-$$
git -C /repo worktree add -q $WT HEAD || exit 3
cd $WT
if ! git apply --whitespace=nowarn $DIR/patch.diff; then echo "PATCH DOES NOT APPLY"; git -C /repo worktree remove --force $WT; exit 3; fi
echo "== demo on HEAD:";  (cd /tmp && PYTHONPATH=/repo/src timeout 600 /venv/bin/python $DIR/demo.py 2>&1 | grep -v mplstyle | tail -2; echo "exit=${PIPESTATUS[0]}")
echo "== demo on mutant:"; (cd /tmp && PYTHONPATH=$WT/src timeout 600 /venv/bin/python $DIR/demo.py 2>&1 | grep -v mplstyle | tail -2; echo "exit=${PIPESTATUS[0]}")
echo "== check $PID on mutant:"
cd /verif && PYTHONPATH=$WT/src ./check $PID --no-lean "$@" 2>&1 | grep -v mplstyle | grep -E "VIOLATION|^\[$PID\]|^  \(" | cut -c1-260 | head -12
git -C /repo worktree remove --force $WT
