#!/bin/bash
# Run the quick (or $1=thorough) check of every property registered in manifest.d, sequentially; summary at the end.
cd /verif
TIER=${1:-quick}
for f in manifest.d/C*.json; do
  p=$(basename $f .json)
  s=$(date +%s)
  out=$(./check $p --tier $TIER 2>&1 | grep -v mplstyle)
  rc=$?
  echo "$out" | grep -E "VIOLATION|KNOWN-FINDING|INTERNAL|TIMEOUT" | cut -c1-200
  echo "$out" | tail -1 | cut -c1-220
  echo "   -> $p exit=${PIPESTATUS[0]} $(( $(date +%s) - s ))s"
done
