#!/bin/bash
# Offline set-up after a fresh restore: install the harness-only Python dependency (jsonschema) from the
# offline wheelhouse, regenerate the translator outputs (lean/GemseoVerif/Gen/*.lean) from /repo's current
# sources, and build every Lean module (models, lemmas, property theorems) so that the checks only have to
# do incremental builds. A Lean build failure here is not a verdict: the check of the property concerned
# rebuilds its own modules and reports it.
cd "$(dirname "$0")"
if [ ! -d .pydeps/jsonschema ]; then
  /venv/bin/pip install --quiet --no-index --find-links /opt/veriftools/wheels --target .pydeps jsonschema >/dev/null 2>&1 || echo "warning: jsonschema not installed (C15 reference validator unavailable)"
fi
/venv/bin/python tools/regen.py 2>&1 | grep -v mplstyle
python3 tools/gen_root.py
cd lean && lake build 2>&1 | tail -5
exit 0
