#!/bin/bash
# Offline set-up after a fresh restore: build every Lean module (models, lemmas, property theorems)
# and install the harness-only Python dependency (jsonschema) from the offline wheelhouse.
set -e
cd "$(dirname "$0")"
if [ ! -d .pydeps/jsonschema ]; then
  /venv/bin/pip install --quiet --no-index --find-links /opt/veriftools/wheels --target .pydeps jsonschema >/dev/null 2>&1 || echo "warning: jsonschema not installed (C15 reference validator unavailable)"
fi
python3 tools/gen_root.py
cd lean && lake build 2>&1 | tail -5
