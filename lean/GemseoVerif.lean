import GemseoVerif.Model.C04
import GemseoVerif.Model.Common
import GemseoVerif.Lemmas.FirstMin
import GemseoVerif.Props.C04
