import GemseoVerif.Model.C04
open GV GV.C04

/-
Line protocol (one case per line):
  hist <obj> <tolEq> <tolIneq> <c1:e,c2:i|[]> | x=<rats> n1=<rats|nan> ... | x=... 
answer:
  opt=<idx|_|E> feas=<0|1> last=<0|1> fp=<bits> chk=<bits> viol=<v;v;..>  (viol `inf` for +inf)
  pareto <objs rows separated by ;> <feas bits>   -> mask bits
-/

def parseVal (s : String) : Option Val :=
  if s = "nan" then some .nan else (parseRatList? s).map .num

def parseCstrs (s : String) : Option (List Cstr) :=
  if s = "[]" then some [] else
  (s.splitOn ",").mapM (fun t =>
    match t.splitOn ":" with
    | [n, "e"] => some ⟨n, .eq⟩
    | [n, "i"] => some ⟨n, .ineq⟩
    | _ => none)

def parseEntry (toks : List String) : Option Entry := do
  let kvs ← toks.mapM (fun t => match t.splitOn "=" with
    | [k, v] => some (k, v) | _ => none)
  match kvs with
  | ("x", xv) :: rest =>
    let x ← parseRatList? xv
    let outs ← rest.mapM (fun (k, v) => (parseVal v).map (fun w => (k, w)))
    some ⟨x, outs⟩
  | _ => none

def splitBar (toks : List String) : List (List String) :=
  let rec go (ts : List String) (cur : List String) (acc : List (List String)) : List (List String) :=
    match ts with
    | [] => (cur.reverse :: acc).reverse
    | "|" :: r => go r [] (cur.reverse :: acc)
    | t :: r => go r (t :: cur) acc
  go toks [] []

def bits (l : List Bool) : String :=
  if l.isEmpty then "[]" else String.join (l.map (fun b => if b then "1" else "0"))

def showViol : Option Rat → String
  | none => "inf"
  | some r => showRat r

def answer (line : String) : String :=
  match tokens line with
  | "hist" :: obj :: te :: ti :: cs :: rest =>
    match parseRat? te, parseRat? ti, parseCstrs cs with
    | some te, some ti, some cs =>
      let cfg : Cfg := ⟨obj, cs, te, ti⟩
      let groups := (splitBar rest).filter (fun g => !g.isEmpty)
      match groups.mapM parseEntry with
      | none => "bad-entry"
      | some h =>
        match optimum cfg h with
        | none => "opt=E"
        | some s =>
          let last := match lastPoint cfg h with | some l => l.feasible | none => false
          let o := match s.idx with | some i => toString i | none => "_"
          s!"opt={o} feas={if s.feasible then 1 else 0} last={if last then 1 else 0} fp={bits (h.map (isFeasible cfg))} chk={bits (h.map (checkFlag cfg))} viol={";".intercalate (h.map (fun e => showViol (violation cfg e)))}"
    | _, _, _ => "bad-cfg"
  | ["pareto", objs, feas] =>
    let rows := (objs.splitOn ";").mapM parseRatList?
    match rows with
    | none => "bad-op"
    | some rows =>
      let f := feas.toList.map (fun c => c == '1')
      bits (paretoMask rows f)
  | ["sign", mn, st, f] =>
    match parseRat? f with
    | some f => showRat (reportedObjective (mn == "1") (st == "1") f)
    | none => "bad-op"
  | _ => "bad-op"

def main : IO Unit := driverLoop (fun (_ : Unit) l => ((), answer l)) ()
