import GemseoVerif.Model.C17
open GV GV.C02 GV.C17

/-
Line protocol for C17 (see harness/c17.py).  The driver holds one system (design space + disciplines).

  reset                                              -> ok
  ds <name:size:lb:ub> ...                           -> ok        (lb/ub: comma lists of rats)
  disc <D> <in:size,...|[]> <linear outs|[]> [def.<in>=<rats>] ...   -> ok
  out <D> <o> const=<rats> [lin.<in>=<rows>] [quad.<in>=<rows>] ...   -> ok   (rows: r;r;..)
  names mdf|idf|dopt                                 -> variable names | E:value
  eval idf <0|1 normalize> f <o1,o2,..> x=<rats> [a=<rat>] [pos=1]     -> v=<rats> j=<rows>
  eval idf <0|1 normalize> c <D> x=<rats>                             -> v=<rats> j=<rows>
  eval mdf|dopt <o1,o2,..> x=<rats> y.<k>=<rats>.. w.<k>.<n>=<rows>.. [a=] [pos=]
                                                     -> v=.. j=.. | E:certificate
  mask <all names> <masking names>                   -> indices | E:value
  unmask <all> <masking> <x> <rows> <0|1 full>       -> rows of unmask(mask(x) * (r+1), default -(r+1))
-/

def parseMat? (s : String) : Option Mat :=
  if s = "[]" then some [] else (s.splitOn ";").mapM parseRatList?

def showMat (m : Mat) : String :=
  if m.isEmpty then "[]" else ";".intercalate (m.map showRatList)

def parseSizes? (s : String) : Option Sizes :=
  if s = "[]" then some [] else
  (s.splitOn ",").mapM (fun t => match t.splitOn ":" with
    | [n, k] => k.toNat?.map (fun k => (n, k))
    | _ => none)

def parseDsVar? (s : String) : Option Var :=
  match s.splitOn ":" with
  | [n, _, lb, ub] => do
    let lb ← parseRatList? lb
    let ub ← parseRatList? ub
    some ⟨n, false, lb.map some, ub.map some, none⟩
  | _ => none

/-- key=value tokens with a given prefix: `pre.<name>=<value>` -> (name, value). -/
def kvWith (pre : String) (toks : List String) : List (String × String) :=
  toks.filterMap (fun t =>
    match t.splitOn "=" with
    | [k, v] => if k.startsWith pre then some ((k.drop pre.length).toString, v) else none
    | _ => none)

def kv (key : String) (toks : List String) : Option String :=
  (toks.filterMap (fun t => match t.splitOn "=" with
    | [k, v] => if k == key then some v else none
    | _ => none)).head?

def updDisc (s : Sys) (name : String) (f : Disc → Disc) : Sys :=
  { s with discs := s.discs.map (fun d => if d.name == name then f d else d) }

def showEval (v : Option Vec) (j : Option Mat) (a : Rat) (pos : Bool) (fmt : Bool) : String :=
  match v, j with
  | some v, some j =>
    let v := if fmt then formatValue a pos v else v
    let j := if fmt then formatJac pos j else j
    s!"v={showRatList v} j={showMat j}"
  | _, _ => "E:index"

def fmtArgs (toks : List String) : Rat × Bool × Bool :=
  let a := (kv "a" toks).bind parseRat?
  let p := kv "pos" toks
  (a.getD 0, p == some "1", a.isSome || p.isSome)

def step (s : Sys) (line : String) : Sys × String :=
  match tokens line with
  | ["reset"] => (⟨DS.empty, []⟩, "ok")
  | "ds" :: vs =>
    match vs.mapM parseDsVar? with
    | some vars => ({ s with ds := { vars := vars } }, "ok")
    | none => (s, "bad-op")
  | "disc" :: name :: ins :: lin :: rest =>
    match parseSizes? ins, (kvWith "def." rest).mapM (fun p => (parseRatList? p.2).map (fun v => (p.1, v))) with
    | some ins, some defs =>
      ({ s with discs := s.discs ++ [⟨name, ins, defs, [], parseStrList lin⟩] }, "ok")
    | _, _ => (s, "bad-op")
  | "out" :: dn :: o :: rest =>
    let const := (kv "const" rest).bind parseRatList?
    let lin := (kvWith "lin." rest).mapM (fun p => (parseMat? p.2).map (fun m => (p.1, m)))
    let quad := (kvWith "quad." rest).mapM (fun p => (parseMat? p.2).map (fun m => (p.1, m)))
    match const, lin, quad with
    | some c, some l, some q => (updDisc s dn (fun d => { d with outs := d.outs ++ [⟨o, c, l, q⟩] }), "ok")
    | _, _, _ => (s, "bad-op")
  | ["names", "mdf"] => (s, showStrList s.mdfDS.names)
  | ["names", "idf"] =>
    match s.idfDS with
    | some d => (s, showStrList d.names)
    | none => (s, "E:value")
  | ["names", "dopt"] => (s, showStrList s.doptDS.names)
  | "eval" :: "idf" :: norm :: "f" :: outs :: rest =>
    match (kv "x" rest).bind parseRatList? with
    | none => (s, "bad-op")
    | some x =>
      let outs := parseStrList outs
      match outs.head?.bind s.producer? with
      | none => (s, "E:value")
      | some d =>
        let (a, pos, fmt) := fmtArgs rest
        let _ := norm
        (s, showEval (funEval s.sizes s.ds.names d outs x) (funJac s.sizes s.ds.names d outs x) a pos fmt)
  | "eval" :: "idf" :: norm :: "c" :: dn :: rest =>
    match (kv "x" rest).bind parseRatList?, s.discs.find? (fun d => d.name == dn) with
    | some x, some d => (s, showEval (consEval s (norm == "1") d x) (consJac s (norm == "1") d x) 0 false false)
    | _, _ => (s, "bad-op")
  | "eval" :: form :: outs :: rest =>
    if form != "mdf" && form != "dopt" then (s, "bad-op") else
    match (kv "x" rest).bind parseRatList? with
    | none => (s, "bad-op")
    | some x =>
      let names := if form == "mdf" then s.mdfDS.names else s.doptDS.names
      let ys := (kvWith "y." rest).mapM (fun p => (parseRatList? p.2).map (fun v => (p.1, v)))
      let ws := (kvWith "w." rest).mapM (fun p => (parseMat? p.2).map (fun m => (p.1, m)))
      match ys, ws with
      | some ys, some ws =>
        let w : String → String → Mat := fun k n =>
          match ws.find? (fun p => p.1 == k ++ "." ++ n) with
          | some p => p.2
          | none => []
        let (a, pos, fmt) := fmtArgs rest
        match mdfView s names (parseStrList outs) x ys w with
        | some (v, j) => (s, showEval (some v) (some j) a pos fmt)
        | none => (s, "E:certificate")
      | _, _ => (s, "bad-op")
  | ["mask", all, masking] =>
    match getMask s.sizes (parseStrList masking) (parseStrList all) with
    | some m => (s, showNatList m)
    | none => (s, "E:value")
  | ["unmask", all, masking, x, rows, full] =>
    match parseRatList? x, rows.toNat? with
    | some x, some rows =>
      let all := parseStrList all
      let masking := parseStrList masking
      match maskX s.sizes masking all x with
      | none => (s, "E:value")
      | some xm =>
        let tot := totalSize s.sizes all
        let mk (r : Nat) (single : Bool) : Option Vec :=
          let mult : Rat := if single then 1 else ((r : Nat) : Rat) + 1
          let dflt : Rat := if single then -1 else -(((r : Nat) : Rat) + 1)
          unmask s.sizes masking all (xm.map (fun a => a * mult))
            (if full == "1" then some (List.replicate tot dflt) else none)
        let res := if rows == 0 then [mk 0 true] else (List.range rows).map (fun r => mk r false)
        match res.mapM id with
        | some rs => (s, showMat rs)
        | none => (s, "E:value")
    | _, _ => (s, "bad-op")
  | _ => (s, "bad-op")

def main : IO Unit := driverLoop step ⟨DS.empty, []⟩
