import GemseoVerif.Model.C17
open GV GV.C02 GV.C17

/-
Line protocol for C17 (see harness/c17.py).  The driver holds one system (design space + disciplines).

  reset                                              -> ok
  ds <name:size:lb:ub[:i]> ...                       -> ok        (lb/ub: comma lists of rats; `:i` = integer variable)
  disc <D> <in:size,...|[]> <linear outs|[]> [def.<in>=<rats>] [sto=d|s|m] ...   -> ok
        (sto: the discipline hands its Jacobian blocks over dense / sparse built from the values / some of each;
         an `opt=<in,...>` token names the inputs the grammar does not require: informational, the model's inputs are
         the grammar names, required or not, and no answer depends on it)
  out <D> <o> const=<rats> [lin.<in>=<rows>] [quad.<in>=<rows>] ...   -> ok   (rows: r;r;..)
  names mdf|idf|dopt                                 -> variable names | E:value
  eval idf <0|1 normalize> f <o1,o2,..> x=<rats> [a=<rat>] [pos=1]     -> v=<rats> j=<rows>
  eval idf <0|1 normalize> c <D> x=<rats>                             -> v=<rats> j=<rows>
  eval mdf|dopt <o1,o2,..> x=<rats> y.<k>=<rats>.. w.<k>.<n>=<rows>.. [a=] [pos=]
                                                     -> v=.. j=.. | E:certificate
  eval idfp <0|1 normalize> f|c ... (as `eval idf`)   -> the same over the MDOParallelChain (n_processes > 1)
  equil cur=<rats> y.<k>=<rats>..                    -> current value after start_at_equilibrium | E:certificate
  mask <all names> <masking names>                   -> indices | E:value
  unmask <all> <masking> <x> <rows> <0|1 full>       -> rows of unmask(mask(x) * (r+1), default -(r+1))

Any `eval` line may carry `dt=i|f` (dtype of the array in which the caller passes the design point) and
`typed=1` (the array carries the declared variable types: DOE samples on a mixed integer/float design space):
the functions are evaluated at `typedVector` of the point.

History of `jac` calls on the function objects of one formulation (heap of returned arrays, `JHeap`; every
`FunctionFromDiscipline` adapter of IDF keeps its own array, filled block by block by `convertJac`):
  hreset <number of function objects>                -> ok
  eval ... hold=<f>                                  -> (same answer) and the call is executed on the heap by
                                                        function object <f>; the caller keeps the returned array
  held                                               -> the arrays the caller holds, as they are NOW: m|m|...
-/

def parseMat? (s : String) : Option Mat :=
  if s = "[]" then some [] else (s.splitOn ";").mapM parseRatList?

def showMat (m : Mat) : String :=
  if m.isEmpty then "[]" else ";".intercalate (m.map showRatList)

def parseSizes? (s : String) : Option Sizes :=
  if s = "[]" then some [] else
  (s.splitOn ",").mapM (fun t => match t.splitOn ":" with
    | [n, k] => k.toNat?.map (fun k => (n, k))
    | _ => none)

def parseDsVar? (s : String) : Option Var :=
  match s.splitOn ":" with
  | [n, _, lb, ub] => do
    let lb ← parseRatList? lb
    let ub ← parseRatList? ub
    some ⟨n, false, lb.map some, ub.map some, none⟩
  | [n, _, lb, ub, ty] => do
    let lb ← parseRatList? lb
    let ub ← parseRatList? ub
    some ⟨n, ty == "i", lb.map some, ub.map some, none⟩
  | _ => none

/-- key=value tokens with a given prefix: `pre.<name>=<value>` -> (name, value). -/
def kvWith (pre : String) (toks : List String) : List (String × String) :=
  toks.filterMap (fun t =>
    match t.splitOn "=" with
    | [k, v] => if k.startsWith pre then some ((k.drop pre.length).toString, v) else none
    | _ => none)

def kv (key : String) (toks : List String) : Option String :=
  (toks.filterMap (fun t => match t.splitOn "=" with
    | [k, v] => if k == key then some v else none
    | _ => none)).head?

def updDisc (s : Sys) (name : String) (f : Disc → Disc) : Sys :=
  { s with discs := s.discs.map (fun d => if d.name == name then f d else d) }

def showEval (v : Option Vec) (j : Option Mat) (a : Rat) (pos : Bool) (fmt : Bool) : String :=
  match v, j with
  | some v, some j =>
    let v := if fmt then formatValue a pos v else v
    let j := if fmt then formatJac pos j else j
    s!"v={showRatList v} j={showMat j}"
  | _, _ => "E:index"

def fmtArgs (toks : List String) : Rat × Bool × Bool :=
  let a := (kv "a" toks).bind parseRat?
  let p := kv "pos" toks
  (a.getD 0, p == some "1", a.isSome || p.isSome)

def stepSys (s : Sys) (line : String) : Sys × String :=
  match tokens line with
  | ["reset"] => (⟨DS.empty, []⟩, "ok")
  | "ds" :: vs =>
    match vs.mapM parseDsVar? with
    | some vars => ({ s with ds := { vars := vars } }, "ok")
    | none => (s, "bad-op")
  | "disc" :: name :: ins :: lin :: rest =>
    match parseSizes? ins, (kvWith "def." rest).mapM (fun p => (parseRatList? p.2).map (fun v => (p.1, v))) with
    | some ins, some defs =>
      ({ s with discs := s.discs ++ [⟨name, ins, defs, [], parseStrList lin⟩] }, "ok")
    | _, _ => (s, "bad-op")
  | "out" :: dn :: o :: rest =>
    let const := (kv "const" rest).bind parseRatList?
    let lin := (kvWith "lin." rest).mapM (fun p => (parseMat? p.2).map (fun m => (p.1, m)))
    let quad := (kvWith "quad." rest).mapM (fun p => (parseMat? p.2).map (fun m => (p.1, m)))
    match const, lin, quad with
    | some c, some l, some q => (updDisc s dn (fun d => { d with outs := d.outs ++ [⟨o, c, l, q⟩] }), "ok")
    | _, _, _ => (s, "bad-op")
  | ["names", "mdf"] => (s, showStrList s.mdfDS.names)
  | ["names", "idf"] =>
    match s.idfDS with
    | some d => (s, showStrList d.names)
    | none => (s, "E:value")
  | ["names", "dopt"] => (s, showStrList s.doptDS.names)
  | "eval" :: "idf" :: norm :: "f" :: outs :: rest =>
    match (kv "x" rest).bind parseRatList? with
    | none => (s, "bad-op")
    | some x =>
      let outs := parseStrList outs
      match outs.head?.bind s.producer? with
      | none => (s, "E:value")
      | some d =>
        let (a, pos, fmt) := fmtArgs rest
        let _ := norm
        (s, showEval (funEval s.sizes s.ds.names d outs x) (funJac s.sizes s.ds.names d outs x) a pos fmt)
  | "eval" :: "idf" :: norm :: "c" :: dn :: rest =>
    match (kv "x" rest).bind parseRatList?, s.discs.find? (fun d => d.name == dn) with
    | some x, some d => (s, showEval (consEval s (norm == "1") d x) (consJac s (norm == "1") d x) 0 false false)
    | _, _ => (s, "bad-op")
  | "eval" :: "idfp" :: _norm :: "f" :: outs :: rest =>
    match (kv "x" rest).bind parseRatList? with
    | none => (s, "bad-op")
    | some x =>
      let outs := parseStrList outs
      let (a, pos, fmt) := fmtArgs rest
      (s, showEval (parEval s s.sizes s.ds.names outs x) (parJacF s s.sizes s.ds.names outs x) a pos fmt)
  | "eval" :: "idfp" :: norm :: "c" :: dn :: rest =>
    match (kv "x" rest).bind parseRatList?, s.discs.find? (fun d => d.name == dn) with
    | some x, some d =>
      (s, showEval (consEvalPar s (norm == "1") d x) (consJacPar s (norm == "1") d x) 0 false false)
    | _, _ => (s, "bad-op")
  | "equil" :: rest =>
    match (kv "cur" rest).bind parseRatList?,
      (kvWith "y." rest).mapM (fun p => (parseRatList? p.2).map (fun v => (p.1, v))) with
    | some cur, some ys =>
      match idfEquilibrium s cur ys with
      | some c => (s, showRatList c)
      | none => (s, "E:certificate")
    | _, _ => (s, "bad-op")
  | "eval" :: form :: outs :: rest =>
    if form != "mdf" && form != "dopt" then (s, "bad-op") else
    match (kv "x" rest).bind parseRatList? with
    | none => (s, "bad-op")
    | some x =>
      let names := if form == "mdf" then s.mdfDS.names else s.doptDS.names
      let ys := (kvWith "y." rest).mapM (fun p => (parseRatList? p.2).map (fun v => (p.1, v)))
      let ws := (kvWith "w." rest).mapM (fun p => (parseMat? p.2).map (fun m => (p.1, m)))
      match ys, ws with
      | some ys, some ws =>
        let w : String → String → Mat := fun k n =>
          match ws.find? (fun p => p.1 == k ++ "." ++ n) with
          | some p => p.2
          | none => []
        let (a, pos, fmt) := fmtArgs rest
        match mdfView s names (parseStrList outs) x ys w with
        | some (v, j) => (s, showEval (some v) (some j) a pos fmt)
        | none => (s, "E:certificate")
      | _, _ => (s, "bad-op")
  | ["mask", all, masking] =>
    match getMask s.sizes (parseStrList masking) (parseStrList all) with
    | some m => (s, showNatList m)
    | none => (s, "E:value")
  | ["unmask", all, masking, x, rows, full] =>
    match parseRatList? x, rows.toNat? with
    | some x, some rows =>
      let all := parseStrList all
      let masking := parseStrList masking
      match maskX s.sizes masking all x with
      | none => (s, "E:value")
      | some xm =>
        let tot := totalSize s.sizes all
        let mk (r : Nat) (single : Bool) : Option Vec :=
          let mult : Rat := if single then 1 else ((r : Nat) : Rat) + 1
          let dflt : Rat := if single then -1 else -(((r : Nat) : Rat) + 1)
          unmask s.sizes masking all (xm.map (fun a => a * mult))
            (if full == "1" then some (List.replicate tot dflt) else none)
        let res := if rows == 0 then [mk 0 true] else (List.range rows).map (fun r => mk r false)
        match res.mapM id with
        | some rs => (s, showMat rs)
        | none => (s, "E:value")
    | _, _ => (s, "bad-op")
  | _ => (s, "bad-op")

/-- Driver state: the system, the storage of each discipline's Jacobian blocks, the heap of arrays, the array
    each adapter keeps (cell table), the cells the caller holds (in call order). -/
structure DSt where
  sys : Sys
  sto : List (String × String)
  heap : JHeap
  bufs : List (Nat × BlockTable)
  callerHeld : List Nat

def keep (st : DSt) (h : JHeap) : DSt :=
  { st with heap := h, callerHeld := st.callerHeld ++ [h.ret.getLastD 0] }

/-- A function whose `jac` allocates its result (or returns a constant array never written). -/
def holdFresh (st : DSt) (m : Option Mat) : DSt :=
  match m with
  | none => st
  | some m => keep st (st.heap.freshCall m)

/-- One `jac` call of an adapter, as `gJacParts` cuts it: input names, blocks at the masked point, unmasking. -/
structure AdCall where
  inputNames : List String
  jac : String → String → Mat
  rowsOf : String → Nat
  outs : List String
  un : Mat → Option Mat
  /-- the storage chosen by the discipline for each block -/
  sp : String → String → Bool

def adCall (sizes : Sizes) (names : List String) (hasInput : String → Bool)
    (jac : Data → String → String → Mat) (rowsOf : String → Nat) (outs : List String) (x : Vec)
    (sp : String → String → Bool) : Option AdCall :=
  let inputNames := names.filter hasInput
  match maskX sizes inputNames names x with
  | none => none
  | some xm =>
    some ⟨inputNames, jac (adapterInputData sizes inputNames xm), rowsOf, outs,
          fun m => unmaskRows sizes inputNames names m none, sp⟩

/-- The storage of block `(o, i)`: the producer of `o` decides (`m`: alternately, by position). -/
def storageOf (st : DSt) (o i : String) : Bool :=
  match st.sys.producer? o with
  | none => false
  | some d =>
    match st.sto.find? (fun p => p.1 == d.name) with
    | some p =>
      if p.2 == "s" then true
      else if p.2 == "m" then
        ((d.outs.map (·.name)).idxOf o + (d.ins.map (·.1)).idxOf i) % 2 == 1
      else false
    | none => false

def bufOf (st : DSt) (f : Nat) : BlockTable :=
  match st.bufs.find? (fun p => p.1 == f) with
  | some p => p.2
  | none => []

/-- The adapter of function object `f` fills its own array block by block (`convertJac` on the array it kept
    from its previous call), the array is unmasked into a new array for the caller. -/
def adapterCall (st : DSt) (f : Nat) (c : AdCall) : Option DSt :=
  let t := convertJac (bufOf st f) c.outs c.inputNames (fun o i => JBlock.ofMat (c.sp o i) (c.jac o i))
  match st.heap.ffdJacCall f (t.toArray c.inputNames c.rowsOf c.outs) c.un with
  | none => none
  | some h1 => some { st with heap := h1, bufs := (f, t) :: st.bufs.filter (fun p => p.1 != f) }

/-- A `FunctionFromDiscipline` (`neg`: wrapped by `-f` for a positive inequality, a new array). -/
def holdFfd (st : DSt) (f : Nat) (c : Option AdCall) (neg : Bool) : DSt :=
  match c with
  | none => st
  | some c =>
    match adapterCall st f c with
    | none => st
    | some st1 =>
      let h1 := st1.heap
      if neg then keep st1 (h1.freshCall (formatJac true (h1.read (h1.ret.getLastD 0)))) else keep st1 h1

/-- A `FunctionFromDiscipline` whose adapter's array is given at once (MDF / DisciplinaryOpt: the blocks come
    from the coupled-derivative assembly of the MDA, not from the disciplines). -/
def holdWhole (st : DSt) (f : Nat) (parts : Option (Mat × (Mat → Option Mat))) (neg : Bool) : DSt :=
  match parts with
  | none => st
  | some p =>
    match st.heap.ffdJacCall f p.1 p.2 with
    | none => st
    | some h1 =>
      if neg then keep st (h1.freshCall (formatJac true (h1.read (h1.ret.getLastD 0)))) else keep st h1

/-- A `ConsistencyConstraint`: `jac` of its coupling function (function object `f`), then `coupl_jac - x_jac`
    (optionally scaled) in a new array. -/
def holdCons (st : DSt) (f : Nat) (c : Option AdCall) (final : Option Mat) : DSt :=
  match c with
  | none => st
  | some c =>
    match adapterCall st f c with
    | none => st
    | some st1 => holdFresh st1 final

def holdStep (st : DSt) (f : Nat) (toks : List String) : DSt :=
  let s := st.sys
  match toks with
  | "eval" :: "idf" :: _ :: "f" :: outs :: rest =>
    match (kv "x" rest).bind parseRatList?, (parseStrList outs).head?.bind s.producer? with
    | some x, some d =>
      let outs := parseStrList outs
      let (_, pos, fmt) := fmtArgs rest
      if d.isLinear outs then
        holdFresh st ((funJac s.sizes s.ds.names d outs x).map (fun j => if fmt then formatJac pos j else j))
      else
        holdFfd st f (adCall s.sizes s.ds.names d.hasInput (d.jac s.sizes) d.rowsOf outs x (storageOf st)) (fmt && pos)
    | _, _ => st
  | "eval" :: "idfp" :: _ :: "f" :: outs :: rest =>
    match (kv "x" rest).bind parseRatList? with
    | some x =>
      let (_, pos, fmt) := fmtArgs rest
      holdFfd st f (adCall s.sizes s.ds.names s.parHasInput (s.parJac s.sizes) s.parRowsOf (parseStrList outs) x
        (storageOf st)) (fmt && pos)
    | none => st
  | "eval" :: "idf" :: norm :: "c" :: dn :: rest =>
    match (kv "x" rest).bind parseRatList?, s.discs.find? (fun d => d.name == dn) with
    | some x, some d =>
      let oc := s.outputCouplings d
      if d.isLinear oc then holdFresh st (consJac s (norm == "1") d x)
      else holdCons st f (adCall s.sizes s.ds.names d.hasInput (d.jac s.sizes) d.rowsOf oc x (storageOf st))
        (consJacRaw s (norm == "1") d x)
    | _, _ => st
  | "eval" :: "idfp" :: norm :: "c" :: dn :: rest =>
    match (kv "x" rest).bind parseRatList?, s.discs.find? (fun d => d.name == dn) with
    | some x, some d =>
      holdCons st f (adCall s.sizes s.ds.names s.parHasInput (s.parJac s.sizes) s.parRowsOf (s.outputCouplings d) x
        (storageOf st)) (consJacPar s (norm == "1") d x)
    | _, _ => st
  | "eval" :: form :: outs :: rest =>
    if form != "mdf" && form != "dopt" then st else
    match (kv "x" rest).bind parseRatList?,
      (kvWith "y." rest).mapM (fun p => (parseRatList? p.2).map (fun v => (p.1, v))),
      (kvWith "w." rest).mapM (fun p => (parseMat? p.2).map (fun m => (p.1, m))) with
    | some x, some ys, some ws =>
      let names := if form == "mdf" then s.mdfDS.names else s.doptDS.names
      let w : String → String → Mat := fun k n =>
        match ws.find? (fun p => p.1 == k ++ "." ++ n) with
        | some p => p.2
        | none => []
      let (_, pos, fmt) := fmtArgs rest
      match mdfView s names (parseStrList outs) x ys w with
      | some _ =>
        let point := namedPoint s.sizes names x ++ ys
        holdWhole st f (some (mdaJacRows s names (parseStrList outs) point w,
          fun m => unmaskRows s.sizes names names m none)) (fmt && pos)
      | none => st
    | _, _, _ => st
  | _ => st

/-- `dt=` / `typed=` tokens: the `x=` token is replaced by the numbers the disciplines read (`typedVector`). -/
def applyDtype (s : Sys) (toks : List String) : List String :=
  let dt := kv "dt" toks
  let typed := kv "typed" toks == some "1"
  let rest := toks.filter (fun t => !t.startsWith "dt=" && !t.startsWith "typed=")
  if dt.isNone && !typed then rest else
  let dsOf : DS := match toks with
    | "eval" :: "mdf" :: _ => s.mdfDS
    | "eval" :: "dopt" :: _ => s.doptDS
    | _ => s.ds
  rest.map (fun t =>
    if t.startsWith "x=" then
      match parseRatList? (t.drop 2).toString with
      | some x => "x=" ++ showRatList (typedVector dsOf.intMask (if dt == some "i" then DType.int else DType.float) typed x)
      | none => t
    else t)

def step (st : DSt) (line : String) : DSt × String :=
  match tokens line with
  | ["hreset", n] => ({ st with heap := JHeap.empty (n.toNat?.getD 0), bufs := [], callerHeld := [] }, "ok")
  | ["held"] =>
    (st, if st.callerHeld.isEmpty then "[]" else "|".intercalate (st.callerHeld.map (fun c => showMat (st.heap.read c))))
  | toks =>
    let toks := applyDtype st.sys toks
    let hold := (kv "hold" toks).bind (·.toNat?)
    let plain := toks.filter (fun t => !t.startsWith "hold=" && !t.startsWith "sto=")
    let (s', ans) := stepSys st.sys (" ".intercalate plain)
    let st' := { st with sys := s' }
    let st' := match toks with
      | ["reset"] => { st' with sto := [] }
      | "disc" :: name :: _ => (match kv "sto" toks with
          | some v => { st' with sto := st'.sto ++ [(name, v)] }
          | none => st')
      | _ => st'
    match hold with
    | some f => if ans.startsWith "v=" then (holdStep st' f plain, ans) else (st', ans)
    | none => (st', ans)

def main : IO Unit := driverLoop step ⟨⟨DS.empty, []⟩, [], JHeap.empty 0, [], []⟩
