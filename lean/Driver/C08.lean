import GemseoVerif.Model.C08
open GV GV.C08

/-
Line protocol (one case per line):

  seq <disc> <disc> ...             disc = name:in1,in2>out1,out2[~state1,state2]   (`-` for an empty list)
    -> seq=<stages `|` groups `;` members `,`> strong= weak= all= scd= wcd= scd0= grp= self= ic= oc= ica= oca=
  chain <mode> <ldisc> ... | x=1/2 ...
       ldisc = name:in1,in2>out1=c;in1=a;in2=b,out2=c   mode = mdo | seqchain | mda | mdapar | mdags
    -> in=<names> out=<names> mdas=<groups of the inner MDAs | -> flow=<data flow edges | -> val=<name=value,...>
  init <disc/defaults> ... | avail1,avail2     disc/defaults = name:ins>outs/def1,def2
    -> order=<indices> | E:value
  nest <0|1 parallel tasks> <item/item/...> <ldisc> ... | x=1/2 ...
       item = P<i> | C<i,j,..> (MDOChain) | M<i,j,..> (MDAJacobi built beforehand) | G<i,j,..> (MDAGaussSeidel)
    -> in= out= mdas=<groups of items with an inner MDA> flow=- val=
-/

def parseNames (s : String) : List String :=
  if s = "-" || s = "" then [] else s.splitOn ","

def parseDisc (t : String) : Option Disc :=
  match t.splitOn ":" with
  | [n, io] =>
    match io.splitOn ">" with
    | [i, os] =>
      match os.splitOn "~" with
      | [o] => some ⟨n, parseNames i, parseNames o, []⟩
      | [o, st] => some ⟨n, parseNames i, parseNames o, parseNames st⟩
      | _ => none
    | _ => none
  | _ => none

def showNames (l : List String) : String := if l.isEmpty then "[]" else ",".intercalate l
def showIdx (l : List Nat) : String := if l.isEmpty then "[]" else ",".intercalate (l.map toString)

def insNat (x : Nat) : List Nat → List Nat
  | [] => [x]
  | y :: ys => if x ≤ y then x :: y :: ys else y :: insNat x ys
def sortNat (l : List Nat) : List Nat := l.foldr insNat []

def insGrp (x : List Nat) : List (List Nat) → List (List Nat)
  | [] => [x]
  | y :: ys => if x.headD 0 ≤ y.headD 0 then x :: y :: ys else y :: insGrp x ys
def sortGrp (l : List (List Nat)) : List (List Nat) := l.foldr insGrp []

def showGroups (gs : List (List Nat)) : String :=
  if gs.isEmpty then "[]" else ";".intercalate ((sortGrp gs).map (fun g => ",".intercalate (g.map toString)))

def showSeq (seq : List (List (List Nat))) : String :=
  if seq.isEmpty then "[]" else "|".intercalate (seq.map showGroups)

def perDisc (ds : List Disc) (f : Nat → List String) : String :=
  if ds.isEmpty then "[]" else "/".intercalate ((List.range ds.length).map (fun i => showNames (f i)))

def showEdges (es : List (Nat × Nat × List String)) : String :=
  if es.isEmpty then "[]" else ";".intercalate (es.map (fun e => s!"{e.1}>{e.2.1}:{",".intercalate e.2.2}"))

def graphAnswer (ds : List Disc) : String :=
  let n := ds.length
  let seq := sequence ds
  let strong := strongCouplings ds seq
  let all := allCouplings ds
  s!"seq={showSeq seq} strong={showNames strong} weak={showNames (weakCouplings ds seq)} all={showNames all} scd={showIdx (sortNat (stronglyCoupled ds seq true))} wcd={showIdx (sortNat (weaklyCoupled ds seq))} scd0={showIdx (sortNat (stronglyCoupled ds seq false))} grp={showGroups (stronglyCoupledGroups ds seq true)} grp0={showGroups (stronglyCoupledGroups ds seq false)} self={showIdx ((List.range n).filter (selfCoupledAt ds))} ic={perDisc ds (fun i => inputCouplings ds i strong)} oc={perDisc ds (fun i => outputCouplings ds i strong)} ica={perDisc ds (fun i => inputCouplings ds i all)} oca={perDisc ds (fun i => outputCouplings ds i all)} edges={showEdges (disciplinesCouplings ds)} find={showIdx ((sortDedup (ds.flatMap (·.outputs))).filterMap (findDiscipline ds))} unstable=[]"

def parseKV (t : String) : Option (String × Rat) :=
  match t.splitOn "=" with
  | [k, v] => (parseRat? v).map (fun r => (k, r))
  | _ => none

def parseLinOut (t : String) : Option LinOut :=
  match t.splitOn ";" with
  | [] => none
  | h :: rest => do
    let (n, c) ← parseKV h
    let cs ← rest.mapM parseKV
    some ⟨n, c, cs⟩

def parseLinDisc (t : String) : Option LinDisc :=
  match t.splitOn ":" with
  | [n, io] =>
    match io.splitOn ">" with
    | [i, o] => do
      let outs ← (if o = "-" then some [] else (o.splitOn ",").mapM parseLinOut)
      some ⟨⟨n, parseNames i, outs.map (·.name), []⟩, outs⟩
    | _ => none
  | _ => none

def splitBar (toks : List String) : List String × List String :=
  (toks.takeWhile (· ≠ "|"), (toks.dropWhile (· ≠ "|")).drop 1)

def showVals (e : Env) (names : List String) : String :=
  let kv := names.filterMap (fun k => (e.val k).map (fun v => k ++ "=" ++ showRat v))
  if kv.isEmpty then "[]" else ",".intercalate kv

def chainAnswer (mode : String) (lds : List LinDisc) (ext : List (String × Rat)) : String :=
  let ds := lds.map (·.disc)
  let run : Nat → Block := fun i => match lds[i]? with | some d => d.run | none => id
  let seq := sequence ds
  let flatSeq := seq.flatten.flatten
  let gr : List String × List String :=
    if mode = "mdo" then chainGrammar ds
    else if mode = "seqchain" then chainGrammar (flatSeq.filterMap (fun i => ds[i]?))
    else mdaChainGrammar ds seq (mode = "mdapar") (mode = "mdags")
  let ins := sortDedup gr.1
  let outs := sortDedup gr.2
  let e0 : Env := ins.map (fun k =>
      (match ext.find? (fun p => p.1 = k) with | some p => (k, p.2) | none => (k, 0)))
  let e1 : Env :=
    if mode = "mdo" then chainEval ((List.range lds.length).map run) e0
    else if mode = "seqchain" then chainEval (flatSeq.map run) e0
    else mdaChainEval seq run (requiresMda ds) (solveGroupBlock lds)
      (fun g => g.flatMap (outputsAt ds)) (mode = "mdapar") e0
  let mdas := if mode = "mdo" || mode = "seqchain" then "-" else showGroups (stronglyCoupledGroups ds seq true)
  let flow := if mode = "mdo" || mode = "seqchain" then showEdges (disciplinesCouplings ds) else "-"
  s!"in={showNames ins} out={showNames outs} mdas={mdas} flow={flow} val={showVals e1 (sortDedup (gr.1 ++ gr.2))}"

def parseIdx (s : String) : Option (List Nat) :=
  if s = "" then some [] else (s.splitOn ",").mapM String.toNat?

/-- `P3` plain discipline 3, `C0,1` MDOChain of 0 then 1, `M0,1` MDAJacobi built beforehand,
    `G0,1` MDAGaussSeidel built beforehand. -/
def parseItem (t : String) : Option Item :=
  match t.toList with
  | 'P' :: r => (String.ofList r).toNat?.map Item.plain
  | 'C' :: r => (parseIdx (String.ofList r)).map Item.chain
  | 'M' :: r => (parseIdx (String.ofList r)).map (fun ms => Item.mda ms false)
  | 'G' :: r => (parseIdx (String.ofList r)).map (fun ms => Item.mda ms true)
  | _ => none

def nestAnswer (par : Bool) (items : List Item) (lds : List LinDisc) (ext : List (String × Rat)) :
    String :=
  let ds := lds.map (·.disc)
  let tds := items.map (Item.disc ds)
  let gr := mdaChainGrammarWith tds (sequence tds) par false (requiresMdaK tds (kindAt items))
  let ins := sortDedup gr.1
  let outs := sortDedup gr.2
  let e0 : Env := ins.map (fun k =>
      (match ext.find? (fun p => p.1 = k) with | some p => (k, p.2) | none => (k, 0)))
  let e1 := nestedEval lds items par e0
  s!"in={showNames ins} out={showNames outs} mdas={showGroups (nestedInnerMdas ds items)} flow=- val={showVals e1 (sortDedup (gr.1 ++ gr.2))}"

def parseInitDisc (t : String) : Option (Disc × List String) :=
  match t.splitOn "/" with
  | [d, defs] => (parseDisc d).map (fun x => (x, parseNames defs))
  | _ => none

def answer (line : String) : String :=
  match tokens line with
  | "seq" :: rest =>
    match rest.mapM parseDisc with
    | some ds => graphAnswer ds
    | none => "bad-disc"
  | "chain" :: mode :: rest =>
    let (dt, et) := splitBar rest
    match dt.mapM parseLinDisc, et.mapM parseKV with
    | some lds, some ext => chainAnswer mode lds ext
    | _, _ => "bad-chain"
  | "nest" :: par :: its :: rest =>
    let (dt, et) := splitBar rest
    match (its.splitOn "/").mapM parseItem, dt.mapM parseLinDisc, et.mapM parseKV with
    | some items, some lds, some ext => nestAnswer (par = "1") items lds ext
    | _, _, _ => "bad-nest"
  | "init" :: rest =>
    let (dt, avt) := splitBar rest
    match dt.mapM parseInitDisc with
    | some dd =>
      let ds := dd.map (·.1)
      let defs : Nat → List String := fun i => match dd[i]? with | some p => p.2 | none => []
      let avail := match avt with | [a] => parseNames a | _ => []
      match initOrder ds defs ds.length (List.range ds.length) avail with
      | some o => s!"order={showIdx o}"
      | none => "E:value"
    | none => "bad-init"
  | _ => "bad-op"

def main : IO Unit := driverLoop (fun (_ : Unit) l => ((), answer l)) ()
