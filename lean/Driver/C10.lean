import GemseoVerif.Model.C10
open GV GV.C10

/-
Line protocol (one tree and one point per line, prefix notation, numbers `p/q`):
  eval <n> <x1,..,xn> <tree>
tree :=
  P <m> <poly>*m          poly = `0` | mono;mono..   mono = c:e1.e2...en
  L <m> <row>*m <b>       Q <row>*n <b|_> <c>
  add|sub|mul|div <tree> (<tree> | N <c> | A <list>)
  neg <tree> | offn <c> <tree> | offa <list> <tree>
  res <N> <frozen idx> <values> <tree over N inputs>
  lres <frozen idx> <values> <linear tree over n+k inputs>
  lc <K> <row>*K <tree over K inputs>
  cat <k> <tree>*k
  nrm <lb> <ub> <mask bits> <linear tree>
  t1 <x̂> <tree> | t2 <x̂> <row>*n <tree> | cl <x̂> <mask bits|_> <tree>
  agg sumsq|possumsq|max <idx|_> n<c>|a<list> <tree>
answer:  v=<values> J=<row;row;...>     (or `bad-line`)

Sessions (stateful; the state is `Sess Rat` of the model, printed after every op):
  sess                                  forget every object, empty point buffer
  newL <id> <m> <row>*m <b> | newQ <id> <n> <row>*n <b|_> <c> | newP <id> <n> <m> <poly>*m
  setQ <id> <n> <row>*n | setQb <id> <b> | setLA <id> <m> <row>*m | setLb <id> <b> | setLbn <id> <c>
  setP <id> <n> <m> <poly>*m
  edQ <id> <i> <j> <v> | edQb <id> <j> <v> | edLA <id> <i> <j> <v> | edLb <id> <i> <v>
  x <list>                              the caller writes its point buffer
  call <n> <tree>                       tree leaves `U <id>` refer to the objects
answers: `obj <id> L A=<rows> b=<b>` | `obj <id> Q Q=<rows> b=<b> c=<c>` | `obj <id> P <polys>` |
         `x=<list>` | `v=.. J=..`

Storage histories (stateful; `Hist Rat` of the model: storage + the arrays returned so far):
  hs <list>                             the caller's buffer (cell 0) with this content, nothing kept
  hw <list>                             the caller rewrites its buffer
  hc <n> <stree>                        evaluate on the buffer, keep the returned array
stree := W <positions> | P <m> <poly>*m | res <N> <frozen> <values> <stree> | lc <K> <row>*K <stree>
       | add|sub|mul|div <stree> <stree> | neg <stree> | cat <k> <stree>*k
answer to hc: `v=<values> buf=<0|1> shares=<calls whose kept array lives in the same cell | -> kept=<what every
         kept array outside the buffer shows now, `;`-separated>`
-/

def parseMono (n : Nat) (s : String) : Option (Mono Rat) :=
  match s.splitOn ":" with
  | [c, e] =>
    match parseRat? c, (e.splitOn ".").mapM (fun t => t.toNat?) with
    | some c, some es => if es.length = n then some (c, es) else none
    | _, _ => none
  | _ => none

def parsePoly (n : Nat) (s : String) : Option (List (Mono Rat)) :=
  if s = "0" then some [] else (s.splitOn ";").mapM (parseMono n)

def takeN (k : Nat) (ts : List String) : Option (List String × List String) :=
  if ts.length < k then none else some (ts.take k, ts.drop k)

def parseBits (s : String) : List Bool := s.toList.map (fun c => c == '1')

partial def parseE (n : Nat) (ts : List String) : Option (Expr Rat × List String) :=
  match ts with
  | "P" :: m :: r => do
    let m ← m.toNat?
    let (ps, r) ← takeN m r
    let ps ← ps.mapM (parsePoly n)
    pure (.poly ps, r)
  | "L" :: m :: r => do
    let m ← m.toNat?
    let (rows, r) ← takeN m r
    let rows ← rows.mapM parseRatList?
    match r with
    | b :: r => do
      let b ← parseRatList? b
      pure (.lin m rows b, r)
    | _ => none
  | "U" :: id :: r => do
    let id ← id.toNat?
    pure (.user id, r)
  | "Q" :: r => do
    let (rows, r) ← takeN n r
    let rows ← rows.mapM parseRatList?
    match r with
    | b :: c :: r => do
      let b ← if b = "_" then some [] else parseRatList? b
      let c ← parseRat? c
      pure (.quad rows b c, r)
    | _ => none
  | op :: r =>
    if op = "add" ∨ op = "sub" ∨ op = "mul" ∨ op = "div" then do
      let (a, r) ← parseE n r
      let bop := match op with
        | "add" => BinOp.add | "sub" => .sub | "mul" => .mul | _ => .div
      match r with
      | "N" :: c :: r => do
        let c ← parseRat? c
        pure (.binC bop a [c], r)
      | "A" :: c :: r => do
        let c ← parseRatList? c
        pure (.binC bop a c, r)
      | _ => do
        let (b, r) ← parseE n r
        pure (.bin bop a b, r)
    else match op, r with
    | "neg", r => do
      let (a, r) ← parseE n r
      pure (.neg a, r)
    | "offn", c :: r => do
      let c ← parseRat? c
      let (a, r) ← parseE n r
      pure (.offset a [c], r)
    | "offa", c :: r => do
      let c ← parseRatList? c
      let (a, r) ← parseE n r
      pure (.offset a c, r)
    | "res", nn :: fz :: vs :: r => do
      let nn ← nn.toNat?
      let fz ← parseNatList? fz
      let vs ← parseRatList? vs
      let (a, r) ← parseE nn r
      pure (.restrict nn fz vs a, r)
    | "lres", fz :: vs :: r => do
      let fz ← parseNatList? fz
      let vs ← parseRatList? vs
      let (a, r) ← parseE (n + fz.length) r
      pure (.lrestrict fz vs a, r)
    | "lc", k :: r => do
      let k ← k.toNat?
      let (rows, r) ← takeN k r
      let rows ← rows.mapM parseRatList?
      let (a, r) ← parseE k r
      pure (.lincomp k rows a, r)
    | "cat", k :: r => do
      let k ← k.toNat?
      if k = 0 then none else
      let (a, r) ← parseE n r
      let mut acc := a
      let mut rest := r
      for _ in [1:k] do
        let (b, r') ← parseE n rest
        acc := .concat acc b
        rest := r'
      pure (acc, rest)
    | "nrm", lb :: ub :: mk :: r => do
      let lb ← parseRatList? lb
      let ub ← parseRatList? ub
      let (a, r) ← parseE n r
      pure (.normalize lb ub (parseBits mk) a, r)
    | "t1", xh :: r => do
      let xh ← parseRatList? xh
      let (a, r) ← parseE n r
      pure (.taylor1 xh a, r)
    | "t2", xh :: r => do
      let xh ← parseRatList? xh
      let (rows, r) ← takeN n r
      let rows ← rows.mapM parseRatList?
      let (a, r) ← parseE n r
      pure (.taylor2 xh rows a, r)
    | "cl", xh :: mk :: r => do
      let xh ← parseRatList? xh
      let (a, r) ← parseE n r
      pure (.convexLin xh (if mk = "_" then none else some (parseBits mk)) a, r)
    | "agg", kind :: idx :: sc :: r => do
      let kind ← match kind with
        | "sumsq" => some AggKind.sumsq | "possumsq" => some .possumsq | "max" => some .max | _ => none
      let idx ← if idx = "_" then some none else (parseNatList? idx).map some
      let sc ← if sc.startsWith "n" then (parseRat? (sc.drop 1).toString).map (fun c => [c])
               else if sc.startsWith "a" then parseRatList? (sc.drop 1).toString else none
      let (a, r) ← parseE n r
      pure (.agg kind idx sc a, r)
    | _, _ => none
  | [] => none

/-- Sign threshold of `ConvexLinearApprox` (default `1e-9`). -/
def thr : Rat := 1 / 1000000000

def noEnv : Nat → Nat → (Nat → Rat) → DV Rat := fun _ _ _ => { m := 0, val := fun _ => 0, jac := fun _ _ => 0 }

def answer (line : String) : String :=
  match tokens line with
  | "eval" :: n :: x :: r =>
    match n.toNat?, parseRatList? x with
    | some n, some x =>
      match parseE n r with
      | some (e, []) =>
        let d := evalTree noEnv thr n e (vec x)
        let vals := (List.range d.m).map d.val
        let rows := (List.range d.m).map (fun i => showRatList ((List.range n).map (d.jac i)))
        s!"v={showRatList vals} J={if rows.isEmpty then "[]" else ";".intercalate rows}"
      | _ => "bad-line"
    | _, _ => "bad-line"
  | _ => "bad-line"

/-! ### Sessions -/

def showRows (rows : List (List Rat)) : String :=
  if rows.isEmpty then "[]" else ";".intercalate (rows.map showRatList)

def showPoly (p : List (Mono Rat)) : String :=
  if p.isEmpty then "0" else ";".intercalate (p.map (fun (c, e) => s!"{showRat c}:{".".intercalate (e.map toString)}"))

def showObj (s : Sess Rat) (id : Nat) : String :=
  match s.objs id with
  | some (.linear A b) => s!"obj {id} L A={showRows A} b={showRatList b}"
  | some (.quadratic Q b c) => s!"obj {id} Q Q={showRows Q} b={showRatList b} c={showRat c}"
  | some (.callable ps) => s!"obj {id} P {" ".intercalate (ps.map showPoly)}"
  | none => s!"obj {id} none"

def parseRows (k : Nat) (ts : List String) : Option (List (List Rat) × List String) := do
  let (rows, r) ← takeN k ts
  let rows ← rows.mapM parseRatList?
  pure (rows, r)

/-- Parse one session line into an operation of the model and the id whose state is printed. -/
def parseOp (ts : List String) : Option (SOp Rat × Option Nat) :=
  match ts with
  | "newL" :: id :: m :: r => do
    let id ← id.toNat?
    let m ← m.toNat?
    let (rows, r) ← parseRows m r
    match r with
    | [b] => do
      let b ← parseRatList? b
      pure (.newLin id rows b, some id)
    | _ => none
  | "newQ" :: id :: n :: r => do
    let id ← id.toNat?
    let n ← n.toNat?
    let (rows, r) ← parseRows n r
    match r with
    | [b, c] => do
      let b ← if b = "_" then some [] else parseRatList? b
      let c ← parseRat? c
      pure (.newQuad id rows b c, some id)
    | _ => none
  | "newP" :: id :: n :: m :: r => do
    let id ← id.toNat?
    let n ← n.toNat?
    let m ← m.toNat?
    if r.length ≠ m then none else
    let ps ← r.mapM (parsePoly n)
    pure (.newCallable id ps, some id)
  | "setP" :: id :: n :: m :: r => do
    let id ← id.toNat?
    let n ← n.toNat?
    let m ← m.toNat?
    if r.length ≠ m then none else
    let ps ← r.mapM (parsePoly n)
    pure (.setCallables id ps, some id)
  | "setQ" :: id :: n :: r => do
    let id ← id.toNat?
    let n ← n.toNat?
    let (rows, r) ← parseRows n r
    if r.isEmpty then pure (.setQuadCoeffs id rows, some id) else none
  | ["setQb", id, b] => do
    let id ← id.toNat?
    let b ← parseRatList? b
    pure (.setQuadLinCoeffs id b, some id)
  | "setLA" :: id :: m :: r => do
    let id ← id.toNat?
    let m ← m.toNat?
    let (rows, r) ← parseRows m r
    if r.isEmpty then pure (.setLinCoeffs id rows, some id) else none
  | ["setLb", id, b] => do
    let id ← id.toNat?
    let b ← parseRatList? b
    pure (.setLinValueAtZero id b, some id)
  | ["setLbn", id, c] => do
    let id ← id.toNat?
    let c ← parseRat? c
    pure (.setLinValueAtZeroNum id c, some id)
  | ["edQ", id, i, j, v] => do
    pure (.editQuadCoeff (← id.toNat?) (← i.toNat?) (← j.toNat?) (← parseRat? v), some (← id.toNat?))
  | ["edQb", id, j, v] => do
    pure (.editQuadLinCoeff (← id.toNat?) (← j.toNat?) (← parseRat? v), some (← id.toNat?))
  | ["edLA", id, i, j, v] => do
    pure (.editLinCoeff (← id.toNat?) (← i.toNat?) (← j.toNat?) (← parseRat? v), some (← id.toNat?))
  | ["edLb", id, i, v] => do
    pure (.editLinValueAtZero (← id.toNat?) (← i.toNat?) (← parseRat? v), some (← id.toNat?))
  | ["x", xs] => do
    let xs ← parseRatList? xs
    pure (.writeX xs, none)
  | "call" :: n :: r => do
    let n ← n.toNat?
    match parseE n r with
    | some (e, []) => pure (.call n e, none)
    | _ => none
  | _ => none

def showDV (n : Nat) (d : DV Rat) : String :=
  let vals := (List.range d.m).map d.val
  let rows := (List.range d.m).map (fun i => showRatList ((List.range n).map (d.jac i)))
  s!"v={showRatList vals} J={if rows.isEmpty then "[]" else ";".intercalate rows}"

def sessionStep (s : Sess Rat) (line : String) : Sess Rat × String :=
  match tokens line with
  | ["sess"] => (Sess.empty, "ok")
  | "eval" :: _ => (s, answer line)
  | ts =>
    match parseOp ts with
    | none => (s, "bad-line")
    | some (op, shown) =>
      let (s', out) := step noEnv thr s op
      match op, out, shown with
      | .call n _, some d, _ => (s', showDV n d)
      | .writeX _, _, _ => (s', s!"x={showRatList s'.x}")
      | _, _, some id => (s', showObj s' id)
      | _, _, _ => (s', "ok")

/-! ### Storage histories -/

partial def parseS (n : Nat) (ts : List String) : Option (SExpr Rat × List String) :=
  match ts with
  | "W" :: sel :: r => do
    let sel ← parseNatList? sel
    pure (.view sel, r)
  | "P" :: m :: r => do
    let m ← m.toNat?
    let (ps, r) ← takeN m r
    let ps ← ps.mapM (parsePoly n)
    pure (.fresh (fun x => ps.map (fun p => polyEval p (vec x))), r)
  | "res" :: nn :: fz :: vs :: r => do
    let nn ← nn.toNat?
    let fz ← parseNatList? fz
    let vs ← parseRatList? vs
    let (a, r) ← parseS nn r
    pure (.restrict nn fz vs a, r)
  | "lc" :: k :: r => do
    let k ← k.toNat?
    let (rows, r) ← takeN k r
    let rows ← rows.mapM parseRatList?
    let (a, r) ← parseS k r
    pure (.lincomp rows a, r)
  | "neg" :: r => do
    let (a, r) ← parseS n r
    pure (.neg a, r)
  | "cat" :: k :: r => do
    let k ← k.toNat?
    if k = 0 then none else
    let (a, r) ← parseS n r
    -- `Concatenate` builds a new array also for a single function
    let mut acc := if k = 1 then SExpr.concat a (.fresh (fun _ => [])) else a
    let mut rest := r
    for _ in [1:k] do
      let (b, r') ← parseS n rest
      acc := .concat acc b
      rest := r'
    pure (acc, rest)
  | op :: r =>
    if op = "add" ∨ op = "sub" ∨ op = "mul" ∨ op = "div" then do
      let (a, r) ← parseS n r
      let (b, r) ← parseS n r
      let bop := match op with
        | "add" => BinOp.add | "sub" => .sub | "mul" => .mul | _ => .div
      pure (.bin bop a b, r)
    else none
  | [] => none

def showCalls (l : List Nat) : String :=
  if l.isEmpty then "-" else ",".intercalate (l.map toString)

def histStep (s : Hist Rat) (ts : List String) : Hist Rat × String :=
  match ts with
  | ["hs", p] =>
    match parseRatList? p with
    | some p => ({ store := [p], kept := [] }, "ok")
    | none => (s, "bad-line")
  | ["hw", p] =>
    match parseRatList? p with
    | some p => (s.step (.write p), "ok")
    | none => (s, "bad-line")
  | "hc" :: n :: r =>
    match n.toNat? with
    | none => (s, "bad-line")
    | some n =>
      match parseS n r with
      | some (e, []) =>
        let s' := s.step (.call e)
        match s'.kept.getLast? with
        | none => (s', "bad-line")
        | some (a, v) =>
          let earlier := (List.range s.kept.length).filter
            (fun k => match s.kept[k]? with | some (b, _) => b.cell == a.cell && a.cell != 0 | none => false)
          let now := (s'.kept.filter (fun q => q.1.cell != 0)).map (fun q => showRatList (s'.store.read q.1))
          (s', s!"v={showRatList v} buf={if a.cell == 0 then 1 else 0} shares={showCalls earlier} kept={if now.isEmpty then "-" else ";".intercalate now}")
      | _ => (s, "bad-line")
  | _ => (s, "bad-line")

def allStep (st : Sess Rat × Hist Rat) (line : String) : (Sess Rat × Hist Rat) × String :=
  match tokens line with
  | t :: r =>
    if t = "hs" ∨ t = "hw" ∨ t = "hc" then
      let (h', o) := histStep st.2 (t :: r)
      ((st.1, h'), o)
    else
      let (s', o) := sessionStep st.1 line
      ((s', st.2), o)
  | [] =>
    let (s', o) := sessionStep st.1 line
    ((s', st.2), o)

def main : IO Unit := driverLoop allStep (Sess.empty, { store := [[]], kept := [] })
