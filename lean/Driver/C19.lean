import GemseoVerif.Model.C19
open GV GV.C02 GV.C19

/-
Line protocol of C19 (state machine over a parameter space; see harness/c19.py).

  new
  env <key> <lb|_> <ub|_> <mean>            register support/mean of a marginal specification
  addv <varspec>                             add_variable (deterministic)         -> ok|E <view>
  addr <name> <cls> <fam> <size> k=v,v ...   add_random_vector                    -> ok|E <view>
  rm <name> | mv <cur> <new>                                                      -> ok|E <view>
  nrm|unr <minus_lb> <use_dist> <x> [T...]   (un)normalize_vect, 1-D              -> rats | E
  nrm2|unr2 <minus_lb> <use_dist> <rows ;> [T...]                                 -> rows | E
  nrm|unr|nrm2|unr2 new|alias <minus_lb> <use_dist> <x> [T...]   the same call with `out` = another
        array / the input array itself, run on the store of arrays       -> ret=.. out=.. x=.. | E
        (content after the call of the returned array, of `out` and of the input array)
  ecdf <inverse> name=vals ... [T...]        evaluate_cdf                          -> dict | E
  sdict <row>                                compute_samples(as_dict) splitting    -> dict
  ssup                                       supports of the sample columns        -> lb:ub,...
  exu | exd | tods                           derived spaces                        -> view
where a table entry T is `<key>@<c|i>@<x>@<y>`: cdf (c) or inverse cdf (i) of the marginal `key`
at `x` is `y`, and key = cls|k=v|k=v.  A missing table entry evaluates to -12345 (never matches).
-/

def tol : Rat := 25 / 1125899906842624   -- 100 * 2^-52

def keyOf (m : MargSpec) : String :=
  "|".intercalate (m.cls :: m.params.map (fun kv => kv.1 ++ "=" ++ showRat kv.2))

structure DSt where
  ps : PS := {}
  sup : List (String × (Option Rat × Option Rat × Rat)) := []

def sentinel : Rat := -12345

def mkEnv (sup : List (String × (Option Rat × Option Rat × Rat)))
    (tbl : List (String × Bool × Rat × Rat)) : Env where
  cdf m x := ((tbl.find? (fun e => e.1 == keyOf m && e.2.1 == false && e.2.2.1 == x)).map (·.2.2.2)).getD sentinel
  icdf m x := ((tbl.find? (fun e => e.1 == keyOf m && e.2.1 == true && e.2.2.1 == x)).map (·.2.2.2)).getD sentinel
  lb m := ((dget sup (keyOf m)).map (·.1)).getD none
  ub m := ((dget sup (keyOf m)).map (·.2.1)).getD none
  mean m := ((dget sup (keyOf m)).map (·.2.2)).getD sentinel

def parseEntry (t : String) : Option (String × Bool × Rat × Rat) :=
  match t.splitOn "@" with
  | [k, f, x, y] => do
    let x ← parseRat? x
    let y ← parseRat? y
    some (k, f == "i", x, y)
  | _ => none

def parseDict? (toks : List String) : Option (List (String × List Rat)) :=
  toks.mapM (fun t => match t.splitOn "=" with
    | [k, v] => (parseRatList? v).map (fun l => (k, l))
    | _ => none)

def showDict (m : List (String × List Rat)) : String :=
  if m.isEmpty then "[]" else ";".intercalate (m.map (fun p => p.1 ++ "=" ++ showRatList p.2))

def parseRows? (s : String) : Option (List (List Rat)) :=
  if s = "[]" then some [] else (s.splitOn ";").mapM parseRatList?

def showRows (r : List (List Rat)) : String :=
  if r.isEmpty then "[]" else ";".intercalate (r.map showRatList)

def showMarg (env : Env) (m : MargSpec) : String :=
  showORat (env.lb m) ++ ":" ++ showORat (env.ub m) ++ ":" ++ showRat (env.mean m)

def dsView (d : DS) : String :=
  let cur := if d.vars.isEmpty then "[]" else
    ";".intercalate (d.vars.map (fun v => v.name ++ "=" ++ (match v.value with
      | some x => showRatList x | none => "_")))
  s!"names={showStrList d.names} sizes={showNatList d.sizes} types={showStrList (d.vars.map (fun v => if v.isInt then "i" else "f"))} lb={showOList d.flatLb} ub={showOList d.flatUb} cur={cur}"

def viewOf (env : Env) (p : PS) : String :=
  let marg := if p.unc.isEmpty then "[]" else
    ";".intercalate (p.unc.map (fun n => n ++ "=" ++ ",".intercalate ((p.margsOf n).map (showMarg env))))
  let joint := if p.joint.isEmpty then "[]" else ",".intercalate (p.joint.map (showMarg env))
  s!"{dsView p.ds} unc={showStrList p.unc} det={showStrList p.deterministic} marg={marg} joint={joint}"

def upd (s : DSt) (env : Env) (r : PS × Bool) : DSt × String :=
  ({ s with ps := r.1 }, (if r.2 then "ok " else "E ") ++ viewOf env r.1)

def splitTables (toks : List String) : List String × List String :=
  (toks.filter (fun t => !(t.splitOn "@").length == 4), toks.filter (fun t => (t.splitOn "@").length == 4))

def parseParams? (toks : List String) : Option (List (String × List Rat)) :=
  toks.mapM (fun t => match t.splitOn "=" with
    | [k, v] => (parseRatList? v).map (fun l => (k, l))
    | _ => none)

def step (s : DSt) (line : String) : DSt × String :=
  let (toks, tts) := splitTables (tokens line)
  match tts.mapM parseEntry with
  | none => (s, "bad-table")
  | some tbl =>
  let env := mkEnv s.sup tbl
  let p := s.ps
  match toks with
  | ["new"] => ({}, "ok " ++ viewOf env {})
  | ["env", k, lb, ub, mean] =>
    match parseORat? lb, parseORat? ub, parseRat? mean with
    | some lb, some ub, some mean => ({ s with sup := dset s.sup k (lb, ub, mean) }, "ok")
    | _, _, _ => (s, "bad-op")
  | ["addv", vs] =>
    match parseVar? vs with
    | some v => upd s env (p.addVariable tol v)
    | none => (s, "bad-op")
  | "addr" :: name :: cls :: fam :: size :: ps =>
    match size.toNat?, parseParams? ps with
    | some size, some params => upd s env (p.addRandomVector env tol name cls fam size params)
    | _, _ => (s, "bad-op")
  | ["rm", n] => upd s env (p.removeVariable n)
  | ["mv", a, b] => upd s env (p.renameVariable a b)
  | ["view"] => (s, viewOf env p)
  | "ecdf" :: inv :: kvs =>
    match parseDict? kvs with
    | some value =>
      let inverse := inv == "1"
      if inverse && !p.checkUnit value then (s, "E")
      else (s, match p.evaluateCdf env inverse value with | some d => showDict d | none => "E")
    | none => (s, "bad-op")
  | [op, m, u, x] =>
    if op == "nrm" || op == "unr" then
      match parseRatList? x with
      | some x =>
        let r := if op == "nrm" then p.normalizeVect env (m == "1") (u == "1") x
                 else p.unnormalizeVect env (m == "1") (u == "1") x
        (s, match r with | some y => showRatList y | none => "E")
      | none => (s, "bad-op")
    else if op == "nrm2" || op == "unr2" then
      match parseRows? x with
      | some x =>
        let r := if op == "nrm2" then p.normalizeVect2 env (m == "1") (u == "1") x
                 else p.unnormalizeVect2 env (m == "1") (u == "1") x
        (s, match r with | some y => showRows y | none => "E")
      | none => (s, "bad-op")
    else (s, "bad-op")
  | [op, md, m, u, x] =>
    if md != "new" && md != "alias" then (s, "bad-op") else
    let out : Option Nat := some (if md == "alias" then 0 else 1)
    if op == "nrm" || op == "unr" then
      match parseRatList? x with
      | some x =>
        let h : Heap (List Rat) := if md == "alias" then [x] else [x, x.map (fun _ => -7)]
        let r := if op == "nrm" then p.normalizeVectOut env (m == "1") (u == "1") h 0 out
                 else p.unnormalizeVectOut env (m == "1") (u == "1") h 0 out
        (s, match r with
          | some (h', a) => s!"ret={showRatList (h'.read a)} out={showRatList (h'.read (out.getD 0))} x={showRatList (h'.read 0)}"
          | none => "E")
      | none => (s, "bad-op")
    else if op == "nrm2" || op == "unr2" then
      match parseRows? x with
      | some x =>
        let h : Heap (List (List Rat)) := if md == "alias" then [x] else [x, x.map (·.map (fun _ => -7))]
        let r := if op == "nrm2" then p.normalizeVect2Out env (m == "1") (u == "1") h 0 out
                 else p.unnormalizeVect2Out env (m == "1") (u == "1") h 0 out
        (s, match r with
          | some (h', a) => s!"ret={showRows (h'.read a)} out={showRows (h'.read (out.getD 0))} x={showRows (h'.read 0)}"
          | none => "E")
      | none => (s, "bad-op")
    else (s, "bad-op")
  | ["sdict", row] =>
    match parseRatList? row with
    | some row => (s, showDict (p.sampleDict row))
    | none => (s, "bad-op")
  | ["ssup"] =>
    (s, if p.joint.isEmpty then "[]" else
      ",".intercalate ((p.sampleSupport env).map (fun b => showORat b.1 ++ ":" ++ showORat b.2)))
  | ["exu"] => (s, viewOf env p.extractUncertain)
  | ["exd"] => (s, dsView p.extractDeterministic)
  | ["tods"] => (s, dsView p.toDesignSpace)
  | _ => (s, "bad-op")

def main : IO Unit := driverLoop step {}
