import GemseoVerif.Model.C16
open GV GV.C16

/-
Line protocol (one case per line, `key=value` tokens):

  grad <fd|cd|cs> <ser|par> x=<rats> idx=<nats|[]> step=<s:rat|v:rats> ds=<none|lbs;ubs;0|1> poly=<P;P;..>
     P = mono+mono+..   mono = coef:e.e.e      (`_` = infinite bound)
  answer:  J=<col;col;..> calls=<pt;pt;..>      (cs call points: `re,..|im,..`)
           E:index when numpy's fancy indexing would reject the arguments

  new <s:rat|v:rats> / setstep <s:rat|v:rats>   -> ok   (constructor / `step` setter: the default step)
  grad … step=default …                         uses the default step of the session
  gen <fd|cd|cs> x=.. idx=.. step=.. ds=..      -> P=<col;col;..> S=<signed steps (fd) | ->   (generate_perturbations)

  place m=<m> n=<n> idx=<nats|[]> cols=<col;col;..>           -> full=<col;col;..>   (n columns)
  gidx sizes=<nats> sel=<S;S;..>   S = `*` | nats              -> <nats>
  block rows=<row;row;..> ro=<n> rs=<n> co=<n> cs=<n>          -> <row;row;..>
  close t=<rat> a=<rats> b=<rats>                             -> <bits>
  chk t=<rat> a=<row;row> b=<row;row> rows=<nats> cols=<nats>  -> 0|1   (check_jacobian(indices))

  req <fd|cd|cs> <ser|par> isz=<nats> osz=<nats> x=<rats> ins=<nats> outs=<nats> xidx=<nats|[]> step=<default|s:|v:> poly=<P;..>
     one request to the DisciplineJacApprox of the session (`new`/`setstep` = its `step` attribute): the discipline has
     inputs / outputs of sizes isz / osz, polynomial outputs of the flat vector of all its inputs, local data x;
     ins / outs = positions of the requested names, in the order of the request
  answer:  B=<blk>|<blk>|..   one block per (output name, input name), outputs first; blk = row;row;..
           E:step (inconsistent step size) / E:index

  dreq <fd|cd|cs> <ser|par> isz= osz= d=<rats> given=<nats|[]> v=<rats> auto=<0|1> last=<rats> ins= outs= xidx= step= poly=
     a request to a discipline with default inputs d made with input data for the names `given` only (values read
     from v): linearize (auto=0) or check_jacobian(auto_set_step=True) (auto=1: auto_set_step leaves the data at `last`)
  answer:  <answer of req> D=<default inputs after the request>
-/

def kv (toks : List String) (k : String) : Option String :=
  (toks.find? (fun t => t.startsWith (k ++ "="))).map (fun t => (t.drop (k.length + 1)).toString)

def parseORatList? (s : String) : Option (List (Option Rat)) :=
  if s = "[]" then some [] else (s.splitOn ",").mapM parseORat?

def parseStep? (s : String) : Option Step :=
  if s.startsWith "s:" then (parseRat? (s.drop 2).toString).map Step.scalar
  else if s.startsWith "v:" then (parseRatList? (s.drop 2).toString).map Step.vec
  else none

def parseSpace? (s : String) : Option (Option Space) :=
  if s = "none" then some none else
  match s.splitOn ";" with
  | [l, u, nrm] =>
    match parseORatList? l, parseORatList? u with
    | some l, some u => some (some ⟨l, u, nrm == "1"⟩)
    | _, _ => none
  | _ => none

def parseMono? (s : String) : Option Mono :=
  match s.splitOn ":" with
  | [c, e] =>
    match parseRat? c, (e.splitOn ".").mapM (fun t => t.toNat?) with
    | some c, some e => some ⟨c, e⟩
    | _, _ => none
  | _ => none

def parsePoly? (s : String) : Option Poly := (s.splitOn "+").mapM parseMono?

def parsePolys? (s : String) : Option (List Poly) := (s.splitOn ";").mapM parsePoly?

def parseVecs? (s : String) : Option (List Vec) :=
  if s = "-" then some [] else (s.splitOn ";").mapM parseRatList?

def showVecs (l : List Vec) : String :=
  if l.isEmpty then "-" else ";".intercalate (l.map showRatList)

def showCVec (z : CVec) : String :=
  showRatList (z.map (·.re)) ++ "|" ++ showRatList (z.map (·.im))

def showCVecs (l : List CVec) : String :=
  if l.isEmpty then "-" else ";".intercalate (l.map showCVec)

def parseSel? (s : String) : Option Sel :=
  if s = "*" then some none else (parseNatList? s).map some

def bits (l : List Bool) : String :=
  if l.isEmpty then "[]" else String.join (l.map (fun b => if b then "1" else "0"))

def parseStepArg? (s : String) : Option (Option Step) :=
  if s = "default" then some none else (parseStep? s).map some

def answerGen (st : Approx) (scheme : String) (toks : List String) : String :=
  match kv toks "x" >>= parseRatList?, kv toks "idx" >>= parseNatList?,
        kv toks "step" >>= parseStepArg?, kv toks "ds" >>= parseSpace? with
  | some x, some idx, some sa, some sp =>
    let s := st.resolve sa
    if !validArgs x.length idx s then "E:index" else
    match scheme with
    | "fd" => s!"P={showVecs (fdPerts sp x s idx)} S={showRatList (fdSteps sp x s idx)}"
    | "cd" => s!"P={showVecs (cdPerts sp x s idx)} S=-"
    | "cs" => s!"P={showVecs (csPerts x s idx)} S=-"
    | _ => "bad-scheme"
  | _, _, _, _ => "bad-args"

def answerGrad (st : Approx) (scheme mode : String) (toks : List String) : String :=
  match kv toks "x" >>= parseRatList?, kv toks "idx" >>= parseNatList?,
        kv toks "step" >>= parseStepArg?, kv toks "ds" >>= parseSpace?,
        kv toks "poly" >>= parsePolys? with
  | some x, some idx, some sa, some sp, some ps =>
    let s := st.resolve sa
    if !validArgs x.length idx s then "E:index" else
    let par := mode == "par"
    match scheme with
    | "fd" =>
      let g := if par then fdGradPar (polyFun ps) sp x s idx else fdGrad (polyFun ps) sp x s idx
      s!"J={showVecs g} calls={showVecs (fdCalls sp x s idx)}"
    | "cd" =>
      let g := if par then cdGradPar (polyFun ps) sp x s idx else cdGrad (polyFun ps) sp x s idx
      s!"J={showVecs g} calls={showVecs (cdCalls sp x s idx)}"
    | "cs" =>
      let g := if par then csGradPar (polyFunG ps) x s idx else csGrad (polyFunG ps) x s idx
      s!"J={showVecs g} calls={showCVecs (csCalls x s idx)}"
    | _ => "bad-scheme"
  | _, _, _, _, _ => "bad-args"

def parseScheme? : String → Option Scheme
  | "fd" => some .fd
  | "cd" => some .cd
  | "cs" => some .cs
  | _ => none

def showBlocks (bs : List (List Vec)) : String :=
  "B=" ++ "|".intercalate (bs.map showVecs)

def answerReq (st : Approx) (scheme mode : String) (toks : List String) : String :=
  match parseScheme? scheme, kv toks "isz" >>= parseNatList?, kv toks "osz" >>= parseNatList?,
        kv toks "x" >>= parseRatList?, kv toks "ins" >>= parseNatList?, kv toks "outs" >>= parseNatList?,
        kv toks "xidx" >>= parseNatList?, kv toks "step" >>= parseStepArg?, kv toks "poly" >>= parsePolys? with
  | some sch, some isz, some osz, some x, some ins, some outs, some xidx, some sa, some ps =>
    let D : Disc := ⟨isz, osz, polyFun ps, polyFunG ps⟩
    let r : Request := ⟨outs, ins, xidx⟩
    -- the object of the session: its `step` attribute, whatever it served before
    let ja : JacApprox := ⟨st.resolve sa, none⟩
    match (ja.op sch (mode == "par") D (.request x r)).2 with
    | some bs => showBlocks bs
    | none =>
      match ja.step with
      | .vec hs => if hs.length != (compsOf isz ins).length then "E:step" else "E:index"
      | _ => "E:index"
  | _, _, _, _, _, _, _, _, _ => "bad-args"

/-- `dreq`: a request to a discipline whose default inputs are `d`, made with input data for the names `given`
    only (values read from `v`), through `linearize` (`auto=0`) or `check_jacobian(auto_set_step=True)` (`auto=1`,
    the executions of `auto_set_step` leave the local data at `last`): blocks, then the default inputs afterwards. -/
def answerDReq (st : Approx) (scheme mode : String) (toks : List String) : String :=
  match parseScheme? scheme, kv toks "isz" >>= parseNatList?, kv toks "osz" >>= parseNatList?,
        kv toks "d" >>= parseRatList?, kv toks "given" >>= parseNatList?, kv toks "v" >>= parseRatList?,
        kv toks "last" >>= parseRatList?, kv toks "ins" >>= parseNatList?, kv toks "outs" >>= parseNatList?,
        kv toks "xidx" >>= parseNatList?, kv toks "step" >>= parseStepArg?, kv toks "poly" >>= parsePolys? with
  | some sch, some isz, some osz, some d, some given, some v, some last, some ins, some outs, some xidx, some sa, some ps =>
    let D : Disc := ⟨isz, osz, polyFun ps, polyFunG ps⟩
    let r : Request := ⟨outs, ins, xidx⟩
    let s := st.resolve sa
    let auto := (kv toks "auto").getD "0" == "1"
    let res := DState.run sch (mode == "par") D s ⟨d, d⟩ (checkOps auto last (compsOf isz given) v r)
    let blocks :=
      match res.2.getLast? with
      | some (some bs) => showBlocks bs
      | _ =>
        match s with
        | .vec hs => if hs.length != (compsOf isz ins).length then "E:step" else "E:index"
        | _ => "E:index"
    s!"{blocks} D={showRatList res.1.defaults}"
  | _, _, _, _, _, _, _, _, _, _, _, _ => "bad-args"

def answer (st : Approx) (line : String) : String :=
  match tokens line with
  | "req" :: scheme :: mode :: rest => answerReq st scheme mode rest
  | "dreq" :: scheme :: mode :: rest => answerDReq st scheme mode rest
  | "grad" :: scheme :: mode :: rest => answerGrad st scheme mode rest
  | "gen" :: scheme :: rest => answerGen st scheme rest
  | "place" :: rest =>
    match kv rest "m" >>= String.toNat?, kv rest "n" >>= String.toNat?,
          kv rest "idx" >>= parseNatList?, kv rest "cols" >>= parseVecs? with
    | some m, some n, some idx, some cols =>
      if !(idx.all (· < n)) then "E:index"
      else if !idx.isEmpty && idx.length != cols.length then "E:value"
      else s!"full={showVecs (placeCols m n idx cols)}"
    | _, _, _, _ => "bad-args"
  | "gidx" :: rest =>
    match kv rest "sizes" >>= parseNatList?, (kv rest "sel").bind (fun s => (s.splitOn ";").mapM parseSel?) with
    | some sizes, some sels => showNatList (globalIndices sizes sels 0)
    | _, _ => "bad-args"
  | "block" :: rest =>
    match kv rest "rows" >>= parseVecs?, kv rest "ro" >>= String.toNat?, kv rest "rs" >>= String.toNat?,
          kv rest "co" >>= String.toNat?, kv rest "cs" >>= String.toNat? with
    | some rows, some ro, some rs, some co, some cs => showVecs (block rows ro rs co cs)
    | _, _, _, _, _ => "bad-args"
  | "chk" :: rest =>
    match kv rest "t" >>= parseRat?, kv rest "a" >>= parseVecs?, kv rest "b" >>= parseVecs?,
          kv rest "rows" >>= parseNatList?, kv rest "cols" >>= parseNatList? with
    | some t, some a, some b, some rows, some cols => if checkJac t a b rows cols then "1" else "0"
    | _, _, _, _, _ => "bad-args"
  | "close" :: rest =>
    match kv rest "t" >>= parseRat?, kv rest "a" >>= parseRatList?, kv rest "b" >>= parseRatList? with
    | some t, some a, some b => bits (List.zipWith (closeEntry t) a b)
    | _, _, _ => "bad-args"
  | _ => "bad-op"

/-- State of the driver: the approximator of the current session (`new`/`setstep` lines). -/
def stepLine (st : Approx) (line : String) : Approx × String :=
  match tokens line with
  | ["new", s] | ["setstep", s] =>
    match parseStep? s with
    | some s => (st.setStep s, "ok")
    | none => (st, "bad-args")
  | _ => (st, answer st line)

def main : IO Unit := driverLoop stepLine (⟨.scalar 0⟩ : Approx)
