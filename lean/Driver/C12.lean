import GemseoVerif.Model.C12
open GV GV.C11 GV.C12

/-
Line protocol (one world — scenario process + backup file — is threaded through the lines):
  new <eachCall 0|1> <eachIter 0|1>        -> state      fresh problem, no backup file
  start <maximum> <reset 0|1>              -> state      `execute` begins (budget, counter)
  req <name> <pt> <vals> <ncalls>          -> <served|computed|maxiter> ni=<0|1> ex=<#exports> ev=<#events> | state
                                              (the state is printed as `=` when the request did not change it)
  reqq <name> <pt> <vals> <ncalls>         -> same, with the digest `n=<len db> cur=<n> calls=<n>` instead of the state
  finish                                   -> state      end of `execute` (last export)
  crashload                                -> state      the process dies; a new one loads the file
  crashstale                               -> state      (outside the property) a new process keeps the file, loads nothing
  trunc <k>                                -> read=<db>  replay of the event trace of the current process
                                                         truncated inside its k-th Call, file read back
  opt <obj> <c:eq|ineq,..|-> <tolEq> <tolIneq> -> idx=<i|_> feas=<0|1>   optimum reported on the database
pt, vals: comma separated rationals.  Values are flattened arrays.
state: db=<pt{n=vals&..};..|-> read=<db|E> snap=<db> cur=<n> max=<n> calls=<n> ok=<0|1>
-/

def sortByName (o : Outs) : Outs := o.mergeSort (fun a b => decide (a.1 ≤ b.1))

def valData : Val → List Rat
  | .scalar r => [r]
  | .arr a => a.data

def showOuts (o : Outs) : String :=
  "&".intercalate ((sortByName o).map (fun nv => nv.1 ++ "=" ++ showRatList (valData nv.2)))

def showDb (db : Db) : String :=
  if db.isEmpty then "-" else
  ";".intercalate (db.map (fun po => showRatList po.1.xs ++ "{" ++ showOuts po.2 ++ "}"))

def showRead (F : File) : String :=
  match readFile F with
  | some d => showDb d
  | none => "E"

def showSt (s : St Pt) : String :=
  s!"db={showDb s.h.db} read={showRead s.h.file} snap={showDb s.snap} cur={s.counter} max={s.maximum} calls={s.calls.length} ok={if s.ok then 1 else 0}"

structure World where
  cfg : Cfg
  s : St Pt
  n0 : Nat            -- database length when `execute` started
  h0 : State Pt       -- C11 state when the current process started (for `trunc`)
  trace : List Ev     -- events of the current process

def World.init : World := { cfg := ⟨true, false⟩, s := St.init, n0 := 0, h0 := State.init, trace := [] }

def parseCstr (t : String) : Option C04.Cstr :=
  match t.splitOn ":" with
  | [n, "eq"] => some ⟨n, .eq⟩
  | [n, "ineq"] => some ⟨n, .ineq⟩
  | _ => none

def isExport : Ev → Bool
  | .export => true
  | _ => false

def isNewIter : Ev → Bool
  | .newIter _ => true
  | _ => false

def doReq (w : World) (quiet : Bool) (n pt vals nc : String) : World × String :=
  match parseRatList? pt, parseRatList? vals, nc.toNat? with
  | some xs, some vs, some nc =>
    let v : Val := .arr ⟨[vs.length], vs⟩
    let (s', out, evs) := step id w.cfg (fun _ _ => v) w.s ⟨n, ⟨false, xs⟩, nc⟩
    let o := match out with
      | .served _ => "served"
      | .computed _ => "computed"
      | .maxIter => "maxiter"
    let ni := if evs.any isNewIter then 1 else 0
    let ex := (evs.filter isExport).length
    let st := if quiet then s!"n={s'.h.db.length} cur={s'.counter} calls={s'.calls.length}"
              else if evs.isEmpty then "=" else showSt s'
    ({ w with s := s', trace := w.trace ++ evs }, s!"{o} ni={ni} ex={ex} ev={evs.length} | {st}")
  | _, _, _ => (w, "bad-op")

def stepLine (w : World) (line : String) : World × String :=
  match tokens line with
  | ["new", a, b] =>
    let w' : World := { cfg := ⟨a == "1", b == "1"⟩, s := St.init, n0 := 0, h0 := State.init, trace := [] }
    (w', showSt w'.s)
  | ["start", m, r] =>
    match m.toNat? with
    | some m =>
      let s' := start w.s m (r == "1")
      ({ w with s := s', n0 := s'.h.db.length }, showSt s')
    | none => (w, "bad-op")
  | ["req", n, pt, vals, nc] => doReq w false n pt vals nc
  | ["reqq", n, pt, vals, nc] => doReq w true n pt vals nc
  | ["finish"] =>
    let s' := finish w.s w.n0
    let ex : List Ev := if 0 < w.n0 && decide (w.n0 < w.s.h.db.length) then [Ev.export] else []
    ({ w with s := s', trace := w.trace ++ ex }, showSt s')
  | ["crashload"] =>
    match restart id w.s.h with
    | some s' => ({ w with s := s', n0 := 0, h0 := s'.h, trace := [] }, showSt s')
    | none => (w, "E")
  | ["crashstale"] =>
    let s' := restartStale w.s.h
    ({ w with s := s', n0 := 0, h0 := s'.h, trace := [] }, showSt s')
  | ["trunc", k] =>
    match k.toNat? with
    | some k => (w, "read=" ++ showRead (replay id w.h0 (truncateAtCall k w.trace)).file)
    | none => (w, "bad-op")
  | ["opt", obj, cs, te, ti] =>
    let cstrs := if cs == "-" then some [] else (cs.splitOn ",").mapM parseCstr
    match cstrs, parseRat? te, parseRat? ti with
    | some cstrs, some te, some ti =>
      match reportedOptimum ⟨obj, cstrs, te, ti⟩ w.s.h.db with
      | none => (w, "none")
      | some sol =>
        let i := match sol.idx with
          | some i => toString i
          | none => "_"
        (w, s!"idx={i} feas={if sol.feasible then 1 else 0}")
    | _, _, _ => (w, "bad-op")
  | _ => (w, "bad-op")

def main : IO Unit := driverLoop stepLine World.init
