import GemseoVerif.Model.C02
open GV GV.C02

/-
Line protocol for C02 (state machine over a design space; see harness/c02.py).
Mutating ops answer `ok <view>` or `E` (rejected, state unchanged); queries answer their value.
varspec = name:f|i:lb:ub:val   (lb/ub: comma lists of `_`|rat; val: `_` or comma list of rats)
-/

def tol : Rat := 25 / 1125899906842624   -- 100 * 2^-52

def parseDict? (toks : List String) : Option (List (String × List Rat)) :=
  toks.mapM (fun t => match t.splitOn "=" with
    | [k, v] => (parseRatList? v).map (fun l => (k, l))
    | _ => none)

def bits (l : List Bool) : String :=
  if l.isEmpty then "[]" else ",".intercalate (l.map (fun b => if b then "1" else "0"))

def showDict (m : List (String × List Rat)) : String :=
  if m.isEmpty then "[]" else ";".intercalate (m.map (fun p => p.1 ++ "=" ++ showRatList p.2))

def viewOf (d : DS) : String :=
  let cur := if d.vars.isEmpty then "[]" else
    ";".intercalate (d.vars.map (fun v => v.name ++ "=" ++ (match v.value with
      | some x => showRatList x | none => "_")))
  let arr := match d.currentValue with | some x => showRatList x | none => "_"
  let narr := match d.currentValue with
    | some x => showRatList (d.normalizeVect true x) | none => "_"
  let idx := if d.vars.isEmpty then "[]" else
    ",".intercalate (d.ranges.map (fun r => s!"{r.1}:{r.2.1}:{r.2.2}"))
  s!"names={showStrList d.names} sizes={showNatList d.sizes} types={showStrList (d.vars.map (fun v => if v.isInt then "i" else "f"))} idx={idx} dim={d.dimension} lb={showOList d.flatLb} ub={showOList d.flatUb} norm={bits d.normMask} has={if d.hasCurrentValue then 1 else 0} cur={cur} arr={arr} narr={narr} intnorm={if d.intNorm then 1 else 0}"

def upd (d : DS) (r : Option DS) : DS × String :=
  match r with
  | some d' => (d', "ok " ++ viewOf d')
  | none => (d, "E")

def step (d : DS) (line : String) : DS × String :=
  match tokens line with
  | ["reset"] => (DS.empty, "ok " ++ viewOf DS.empty)
  | ["add", vs] =>
    match parseVar? vs with
    | some v => upd d (d.addVariable tol v)
    | none => (d, "bad-op")
  | ["remove", n] => upd d (d.removeVariable n)
  | ["filter", ns] => upd d (d.filter (parseStrList ns))
  | ["filterdim", n, dims] =>
    match parseNatList? dims with
    | some dims => upd d (d.filterDimensions n dims)
    | none => (d, "bad-op")
  | ["rename", o, n] => upd d (d.renameVariable o n)
  | "extend" :: vss =>
    match vss.mapM parseVar? with
    | some vs => upd d (d.extend tol vs)
    | none => (d, "bad-op")
  | ["setlb", n, b] =>
    match parseOList? b with
    | some b => upd d (d.setLowerBound n b)
    | none => (d, "bad-op")
  | ["setub", n, b] =>
    match parseOList? b with
    | some b => upd d (d.setUpperBound n b)
    | none => (d, "bad-op")
  | ["setarr", x] =>
    match parseRatList? x with
    | some x => upd d (d.setCurrentArray tol x)
    | none => (d, "bad-op")
  | "setdict" :: kvs =>
    match parseDict? kvs with
    | some m => upd d (d.setCurrentDict tol m)
    | none => (d, "bad-op")
  | ["setvar", n, x] =>
    match parseRatList? x with
    | some x => upd d (d.setCurrentVariable n x)
    | none => (d, "bad-op")
  | ["initmissing"] => upd d (some d.initMissing)
  | ["intnorm", b] => upd d (some (d.setIntNorm (b == "1")))
  | ["view"] => (d, viewOf d)
  | ["toscalar"] => (d, viewOf d.toScalar)
  | ["probe", x, u, g] =>
    match parseRatList? x, parseRatList? u, parseRatList? g with
    | some x, some u, some g =>
      (d, s!"nv={showRatList (d.normalizeVect true x)} uv={showRatList (d.unnormalizeVect true u)} ng={showRatList (d.normalizeGrad g)} ug={showRatList (d.unnormalizeGrad g)} rv={showRatList (d.roundVect x)}")
    | _, _, _ => (d, "bad-op")
  | ["sub", ns] =>
    let ns := parseStrList ns
    let cur := match d.subCur ns with | some x => showRatList x | none => "_"
    (d, s!"lb={showOList (d.subLb ns)} ub={showOList (d.subUb ns)} cur={cur} idxds={showNatList (d.subIdx ns true)} idxreq={showNatList (d.subIdx ns false)}")
  | ["member", x] =>
    match parseRatList? x with
    | some x => (d, if d.isMember tol x then "1" else "0")
    | none => (d, "bad-op")
  | ["project", x] =>
    match parseRatList? x with
    | some x => (d, showRatList (d.project x))
    | none => (d, "bad-op")
  | ["a2d", x] =>
    match parseRatList? x with
    | some x => (d, showDict (d.arrayToDict x))
    | none => (d, "bad-op")
  | "d2a" :: kvs =>
    match parseDict? kvs with
    | some m => (d, showRatList (d.dictToArray m))
    | none => (d, "bad-op")
  | _ => (d, "bad-op")

def main : IO Unit := driverLoop step DS.empty
