import GemseoVerif.Model.C14
open GV GV.C02 GV.C14

/-
Line protocol for C14 (stateless: one case per line; see harness/c14.py).

  view <var;var;...|[]>
      -> names=.. sizes=.. idx=.. dim=.. int=<bits> lb=.. ub=.. bounded=<0|1> unbounded=<idx list>
  doe mode=<compute|unit|exec> int0=<0|1> hyper=<0|1> custom=<0|1> ok=<0|1> uses=<0|1> lseed=<int>
      seed=<_|int> vars=<var;var;...> | <row> | <row> ...      (rows = what the sampler returned,
      a single group `fail` = the sampler raised, no group = empty matrix)
      -> res=<ok|E:unbounded|E:settings|E:sampler|E:dim> int=<0|1> lseed=<int> n=<rows> X=<matrix>
         U=<matrix> S=<matrix> db=<matrix>     (U/S: lib.unit_samples / lib.samples, exec mode only)
  seeder <s0> <req,req,...|[]>           -> final=<int> seeds=<ints>
  count <algo> <n> <d> [<flag>]          -> <count> | E
  levels <n> <d>                         -> <levels per direction>
  diag <n> <revbits>                     -> matrix
  oat <step> <x0>                        -> matrix
  morris <step> | <row> | <row> ...      -> matrix
  ffgrid <levels>                        -> matrix
  scale | rows                           -> matrix          ((x+1)/2)
  strat <centers> | rows                 -> matrix
  stratlevels <L>                        -> list
  lhsc <n> | rows                        -> matrix
  otff <levels> | rows                   -> matrix
  untr <vars> | rows                     -> matrix  (per-variable form `untransformByVar`, flattened)
  firstocc | rows                        -> matrix  (database keys of the given samples)
  sess int0=<0|1> vars=<vars> || <op> || <op> ...      one design-space object + one library object
      ops: add <var> | rm <name> | lb <name> <olist> | ub <name> <olist> | ren <old> <new> |
           keep <names> | fdim <name> <dims> | setint <0|1> | setval <ratlist> | q <ratlist> | newlib |
           doe mode=.. hyper=.. custom=.. ok=.. uses=.. seed=.. | <row> | <row> ...   (as above)
      -> one answer per op joined by ` || `: the observable state after an edit
         (names=.. idx=.. int=<bits> lb=.. ub=.. intn=<0|1>), `x=<vector> intn=..` for q, `lseed=0` for
         newlib, the `doe` answer for a DOE.  The session is run with the cache of normalisation data as
         it exists in the code (`Session.run`), proved equal to the cache-free specification.
  custom mode=<compute|exec> int0=<0|1> lseed=<int> form=<array|dict|dicts> vars=<vars> | <group> | <group> ...
      CustomDOE with its `samples` setting as the user wrote it (key orders included):
      form=array: one group per sample `v,v,...`;  form=dicts: one group per sample `name=v,v;name=v`;
      form=dict: one group per key `name=v,v;v,v;...` (rows of its 2-D array)        -> as `doe`
      (also a session op: `cdoe mode=.. form=.. | <group> ...`)
  proc || src=<seq|glob|eng|closed> algo=<id> dim=<d> n=<n> seed=<k> | <row> | ... || ...
      a history of generations in one process; the rows of a call are what the third-party object
      returns for its key (seq: points of the sequence of that class and dimension, the longest
      list given for the key is the sequence; glob: (algo, dim, n, seed); eng: (algo, dim, n, seed);
      closed: (algo, dim, n))                                    -> U=<matrix> per call joined by ` || `
var = name:f|i:lb:ub:val (C02 syntax). Matrices are printed `r1;r2;...` (`[]` when empty).
-/

def showMatrix (m : Matrix) : String :=
  if m.isEmpty then "[]" else ";".intercalate (m.map showRatList)

def splitBar (toks : List String) : List (List String) :=
  let rec go (ts : List String) (cur : List String) (acc : List (List String)) : List (List String) :=
    match ts with
    | [] => (cur.reverse :: acc).reverse
    | "|" :: r => go r [] (cur.reverse :: acc)
    | t :: r => go r (t :: cur) acc
  go toks [] []

/-- rows after the first `|` : `none` = malformed, `some none` = `fail`, `some (some m)`. -/
def parseRows (groups : List (List String)) : Option (Option Matrix) :=
  match groups with
  | [["fail"]] => some none
  | gs =>
    let gs := gs.filter (fun g => !g.isEmpty)
    (gs.mapM (fun g => match g with
      | [r] => parseRatList? r
      | _ => none)).map some

def parseVars? (s : String) : Option (List Var) :=
  if s = "[]" then some [] else (s.splitOn ";").mapM parseVar?

def kv (toks : List String) (k : String) : Option String :=
  (toks.find? (fun t => t.startsWith (k ++ "="))).map (fun t => (t.drop (k.length + 1)).toString)

def bitsStr (l : List Bool) : String :=
  if l.isEmpty then "[]" else String.join (l.map (fun b => if b then "1" else "0"))

def failStr : Fail → String
  | .unbounded => "E:unbounded"
  | .settings => "E:settings"
  | .sampler => "E:sampler"
  | .dimension => "E:dim"

def showOptNat : Option Nat → String
  | some n => toString n
  | none => "E"

def viewOf (d : DS) : String :=
  let idx := if d.vars.isEmpty then "[]" else
    ",".intercalate (d.ranges.map (fun r => s!"{r.1}:{r.2.1}:{r.2.2}"))
  s!"names={showStrList d.names} sizes={showNatList d.sizes} idx={idx} dim={d.dimension} int={bitsStr d.intMask} lb={showOList d.flatLb} ub={showOList d.flatUb} bounded={if boundedOk d then 1 else 0} unbounded={showNatList (unboundedComponents d)}"

def outcomeStr (o : Outcome) : String :=
  let (res, x) := match o.result with
    | .ok m => ("ok", m)
    | .error e => (failStr e, [])
  s!"res={res} int={if o.ds.intNorm then 1 else 0} lseed={o.lib.seeder.defaultSeed} n={x.length} X={showMatrix x} U={showMatrix o.lib.unitSamples} S={showMatrix o.lib.samples} db={showMatrix (firstOcc o.lib.samples)}"

def doeAnswer (head : List String) (rows : Option Matrix) : String :=
  match kv head "mode", kv head "int0", kv head "hyper", kv head "custom", kv head "ok",
        kv head "uses", kv head "lseed", kv head "seed", kv head "vars" with
  | some mode, some int0, some hyper, some custom, some ok, some uses, some lseed, some seed, some vars =>
    match parseVars? vars, parseInt? lseed, (if seed = "_" then some none else (parseInt? seed).map some) with
    | some vs, some ls, some sd =>
      let d : DS := { vars := vs, intNorm := int0 == "1" }
      let lib : Lib := { seeder := { defaultSeed := ls } }
      let r : Req := {
        unitSampling := mode == "unit", useUnitHypercube := hyper == "1", custom := custom == "1",
        settingsOk := ok == "1", usesSeed := uses == "1", seed := sd, sampler := fun _ => rows }
      outcomeStr (if mode == "exec" then preRun d lib r else computeDoe d lib r)
    | _, _, _ => "bad-op"
  | _, _, _, _, _, _, _, _, _ => "bad-op"

def parseEntry? (s : String) : Option (String × List Rat) :=
  match s.splitOn "=" with
  | [n, v] => (parseRatList? v).map (fun l => (n, l))
  | _ => none

/-- The `samples` setting of CustomDOE as written by the user. -/
def parseCol? (t : String) : Option (String × Matrix) :=
  match t.splitOn "=" with
  | [n, v] => ((v.splitOn ";").mapM parseRatList?).map (fun m => (n, m))
  | _ => none

def one? {β : Type} (f : String → Option β) (g : List String) : Option β :=
  match g with
  | [t] => f t
  | _ => none

def parseCustom? (form : String) (groups : List (List String)) : Option CustomSamples :=
  let gs := groups.filter (fun g => !g.isEmpty)
  match form with
  | "array" => (gs.mapM (one? parseRatList?)).map .array
  | "dicts" => (gs.mapM (one? (fun t => (t.splitOn ";").mapM parseEntry?))).map .dicts
  | "dict" => (gs.mapM (one? parseCol?)).map .dict
  | _ => none

def customAnswer (head : List String) (groups : List (List String)) : String :=
  match kv head "mode", kv head "int0", kv head "lseed", kv head "form", kv head "vars" with
  | some mode, some int0, some lseed, some form, some vars =>
    match parseVars? vars, parseInt? lseed, parseCustom? form groups with
    | some vs, some ls, some cs =>
      let d : DS := { vars := vs, intNorm := int0 == "1" }
      let lib : Lib := { seeder := { defaultSeed := ls } }
      outcomeStr (if mode == "exec" then preRun d lib (customReq d cs) else computeDoe d lib (customReq d cs))
    | _, _, _ => "bad-op"
  | _, _, _, _, _ => "bad-op"

/-! the process -/

structure PEntry where
  c : PCall
  seed : Int
  rows : Matrix

def parseSource? : String → Option Source
  | "seq" => some .otSequence
  | "glob" => some .otGlobal
  | "eng" => some .engine
  | "closed" => some .closedForm
  | _ => none

def parsePEntry (toks : List String) : Option PEntry :=
  match toks with
  | [] => none
  | _ =>
    match splitBar toks with
    | [] => none
    | head :: rest =>
      match (kv head "src").bind parseSource?, (kv head "algo").bind (·.toNat?), (kv head "dim").bind (·.toNat?),
            (kv head "n").bind (·.toNat?), (kv head "seed").bind parseInt?,
            rest.mapM (fun g => match g with
              | [r] => parseRatList? r
              | _ => none) with
      | some s, some a, some d, some n, some k, some rows => some ⟨⟨s, a, d, n⟩, k, rows⟩
      | _, _, _, _, _, _ => none

/-- The third-party tables given on the line. -/
def worldOf (es : List PEntry) : ThirdParty :=
  { sequence := fun cls dim i =>
      let cands := es.filter (fun e => e.c.source == .otSequence && e.c.algo == cls && e.c.dim == dim)
      let best := cands.foldl (fun (acc : Matrix) e => if e.rows.length > acc.length then e.rows else acc) []
      best.getD i [],
    experiment := fun a d n rng =>
      match es.find? (fun e => e.c.source == .otGlobal && e.c.algo == a && e.c.dim == d && e.c.n == n && e.seed == rng.1) with
      | some e => if rng.2 == 0 then (e.rows, (rng.1, e.rows.length * d)) else ([], rng)
      | none => ([], rng),
    seeded := fun a d n k =>
      match es.find? (fun e => e.c.source == .engine && e.c.algo == a && e.c.dim == d && e.c.n == n && e.seed == k) with
      | some e => e.rows
      | none => [],
    design := fun a d n =>
      match es.find? (fun e => e.c.source == .closedForm && e.c.algo == a && e.c.dim == d && e.c.n == n) with
      | some e => e.rows
      | none => [] }

def procAnswer (groups : List (List String)) : String :=
  match groups.mapM parsePEntry with
  | some es =>
    let w := worldOf es
    let outs := (Proc.run w {} (es.map (fun e => (e.c, e.seed)))).2
    " || ".intercalate (outs.map (fun m => s!"U={showMatrix m}"))
  | none => "bad-op"

/-- Split at the tokens `||`. -/
def splitBarBar (toks : List String) : List (List String) :=
  let rec go (ts : List String) (cur : List String) (acc : List (List String)) : List (List String) :=
    match ts with
    | [] => (cur.reverse :: acc).reverse
    | "||" :: r => go r [] (cur.reverse :: acc)
    | t :: r => go r (t :: cur) acc
  go toks [] []

def stateStr (d : DS) : String :=
  let idx := if d.vars.isEmpty then "[]" else
    ",".intercalate (d.ranges.map (fun r => s!"{r.1}:{r.2.1}:{r.2.2}"))
  s!"names={showStrList d.names} idx={idx} int={bitsStr d.intMask} lb={showOList d.flatLb} ub={showOList d.flatUb} intn={if d.intNorm then 1 else 0}"

def parseSessOp (toks : List String) : Option SOp :=
  match splitBar toks with
  | [] => none
  | head :: rest =>
    match head with
    | ["add", v] => (parseVar? v).map (fun v => .edit (.add v))
    | ["rm", n] => some (.edit (.remove n))
    | ["lb", n, b] => (parseOList? b).map (fun b => .edit (.setLb n b))
    | ["ub", n, b] => (parseOList? b).map (fun b => .edit (.setUb n b))
    | ["ren", o, n] => some (.edit (.rename o n))
    | ["keep", ns] => some (.edit (.filter (parseStrList ns)))
    | ["fdim", n, dims] => (parseNatList? dims).map (fun ds => .edit (.filterDim n ds))
    | ["setint", b] => some (.edit (.intNorm (b == "1")))
    | ["setval", x] => (parseRatList? x).map (fun x => .edit (.setArr x))
    | ["q", u] => (parseRatList? u).map .query
    | ["newlib"] => some .newLib
    | "cdoe" :: kvs =>
      match kv kvs "mode", kv kvs "form" with
      | some mode, some form => (parseCustom? form rest).map (fun cs => .custom (mode == "exec") cs)
      | _, _ => none
    | "doe" :: kvs =>
      match parseRows rest, kv kvs "mode", kv kvs "hyper", kv kvs "custom", kv kvs "ok", kv kvs "uses", kv kvs "seed" with
      | some rows, some mode, some hyper, some custom, some ok, some uses, some seed =>
        match (if seed = "_" then some none else (parseInt? seed).map some) with
        | some sd =>
          some (.doe (mode == "exec") {
            unitSampling := mode == "unit", useUnitHypercube := hyper == "1", custom := custom == "1",
            settingsOk := ok == "1", usesSeed := uses == "1", seed := sd, sampler := fun _ => rows })
        | none => none
      | _, _, _, _, _, _, _ => none
    | _ => none

def sessOut (s : Session) (op : SOp) (o : SOut) : String :=
  match op, o with
  | .edit _, _ => stateStr s.cds.ds
  | .query _, .vec x => s!"x={showRatList x} intn={if s.cds.ds.intNorm then 1 else 0}"
  | .newLib, _ => s!"lseed={s.lib.seeder.defaultSeed}"
  | .custom _ _, .doe res | .doe _ _, .doe res =>
    let (r, x) := match res with
      | .ok m => ("ok", m)
      | .error e => (failStr e, [])
    s!"res={r} int={if s.cds.ds.intNorm then 1 else 0} lseed={s.lib.seeder.defaultSeed} n={x.length} X={showMatrix x} U={showMatrix s.lib.unitSamples} S={showMatrix s.lib.samples}"
  | _, _ => "bad-out"

def sessAnswer (head : List String) (opGroups : List (List String)) : String :=
  match kv head "int0", kv head "vars" with
  | some int0, some vars =>
    match parseVars? vars, opGroups.mapM parseSessOp with
    | some vs, some ops =>
      let s0 : Session := { cds := { ds := { vars := vs, intNorm := int0 == "1" } } }
      let rec go (s : Session) (ops : List SOp) (acc : List String) : List String :=
        match ops with
        | [] => acc.reverse
        | op :: r =>
          let (s1, o) := s.step 0 op
          go s1 r (sessOut s1 op o :: acc)
      " || ".intercalate (go s0 ops [])
    | _, _ => "bad-op"
  | _, _ => "bad-op"

def parseSeedReqs (s : String) : Option (List (Option Int)) :=
  if s = "[]" then some [] else
  (s.splitOn ",").mapM (fun t => if t = "_" then some none else (parseInt? t).map some)

def countAnswer (algo : String) (n d : Nat) (flag : String) : String :=
  match algo with
  | "fullfact" => toString (fullfactCount n d)
  | "diagonal" => showOptNat (diagonalCount n)
  | "oat" => toString (oatCount d)
  | "morris" => showOptNat (morrisCount n d)
  | "axial" => showOptNat (axialCount n d)
  | "factorial" => showOptNat (factorialCount n d)
  | "composite" => showOptNat (compositeCount n d)
  | "sobolidx" => showOptNat (sobolIndicesCount n d (flag == "1"))
  | _ => "bad-op"

def answer (line : String) : String :=
  let toks := tokens line
  if toks.head? == some "sess" then
    match splitBarBar toks with
    | ("sess" :: head) :: ops => sessAnswer head ops
    | _ => "bad-op"
  else if toks.head? == some "proc" then
    match splitBarBar toks with
    | ["proc"] :: calls => procAnswer calls
    | _ => "bad-op"
  else
  let groups := splitBar toks
  match groups with
  | [] => "bad-op"
  | head :: rest =>
    match head with
    | ["view", vars] =>
      match parseVars? vars with
      | some vs => viewOf { vars := vs }
      | none => "bad-op"
    | "doe" :: kvs =>
      match parseRows rest with
      | some rows => doeAnswer kvs rows
      | none => "bad-op"
    | "custom" :: kvs => customAnswer kvs rest
    | ["seeder", s0, reqs] =>
      match parseInt? s0, parseSeedReqs reqs with
      | some s0, some reqs =>
        let (s, ks) := Seeder.run { defaultSeed := s0 } reqs
        s!"final={s.defaultSeed} seeds={if ks.isEmpty then "[]" else ",".intercalate (ks.map toString)}"
      | _, _ => "bad-op"
    | ["count", algo, n, d] =>
      match n.toNat?, d.toNat? with
      | some n, some d => countAnswer algo n d "0"
      | _, _ => "bad-op"
    | ["count", algo, n, d, flag] =>
      match n.toNat?, d.toNat? with
      | some n, some d => countAnswer algo n d flag
      | _, _ => "bad-op"
    | ["levels", n, d] =>
      match n.toNat?, d.toNat? with
      | some n, some d => toString (fullfactLevels n d)
      | _, _ => "bad-op"
    | ["diag", n, rev] =>
      match n.toNat? with
      | some n => showMatrix (diagonal n (rev.toList.map (fun c => c == '1')))
      | none => "bad-op"
    | ["oat", step, x0] =>
      match parseRat? step, parseRatList? x0 with
      | some s, some x => showMatrix (oat s x)
      | _, _ => "bad-op"
    | ["morris", step] =>
      match parseRat? step, parseRows rest with
      | some s, some (some m) => showMatrix (morris s m)
      | _, _ => "bad-op"
    | ["ffgrid", levels] =>
      match parseNatList? levels with
      | some ls => showMatrix (pydoeFullfact ls)
      | none => "bad-op"
    | ["scale"] =>
      match parseRows rest with
      | some (some m) => showMatrix (m.map (fun r => r.map pydoeScale))
      | _ => "bad-op"
    | ["strat", centers] =>
      match parseRatList? centers, parseRows rest with
      | some cs, some (some m) => showMatrix (m.map (fun r => List.zipWith stratMap cs r))
      | _, _ => "bad-op"
    | ["stratlevels", l] =>
      match l.toNat? with
      | some l => showRatList (stratLevels l)
      | none => "bad-op"
    | ["lhsc", n] =>
      match n.toNat?, parseRows rest with
      | some n, some (some m) => showMatrix (m.map (fun r => r.map (lhsCentered n)))
      | _, _ => "bad-op"
    | ["otff", levels] =>
      match parseNatList? levels, parseRows rest with
      | some ls, some (some m) => showMatrix (m.map (otFullfactFill ls))
      | _, _ => "bad-op"
    | ["firstocc"] =>
      match parseRows rest with
      | some (some m) => showMatrix (firstOcc m)
      | _ => "bad-op"
    | ["untr", vars] =>
      match parseVars? vars, parseRows rest with
      | some vs, some (some m) =>
        let d : DS := { vars := vs }
        showMatrix (m.map (fun u => (untransformByVar d u).flatMap (·.2)))
      | _, _ => "bad-op"
    | _ => "bad-op"

def main : IO Unit := driverLoop (fun (_ : Unit) l => ((), answer l)) ()
