import GemseoVerif.Model.C18
import GemseoVerif.Gen.C18Kernels
open GV GV.C18

/-
Line protocol of C18 (one request per line, `key=value` tokens after the operation name).
Rationals are `p/q`, vectors `a,b,c`, matrices rows separated by `;`, IEEE doubles are given and
returned as the decimal value of their 64 bits.

  der k=<kernel> v=<bits x,r,eps,tol>        Float value of the translated formula Gen.der_<kernel>
  dphi k=<kernel> v=<bits t,c,s,eps>         Float value of the *verified derivative* of the slice of φ_k
  phi k=<kernel> v=<bits r,eps>              Float value of φ_k (SciPy kernel of the model)
  derq k=<kernel> v=<rats x,r,eps,tol>       exact value of Gen.der_<kernel> or `_`
  tr pipe=<spec> D=<rows|_> x=<vec>          fit (if needed) and apply a pipeline:
                                             z=<vec> xb=<vec> J=<rows> Ji=<rows>
  lin tin=<spec> tout=<spec> W=<rows> b=<vec> x=<vec>               p=<vec> J=<rows>
  poly tin=<spec> tout=<spec> P=<nat rows> C=<rows> b=<vec> x=<vec> p=<vec> J=<rows>
  rbf k=<kernel> eps=<bits> tol=<bits> C=<bit rows> W=<bit rows> avg=<bits> x=<bits>  p=<bits> J=<bit rows>
  split out=<sizes> in=<sizes> J=<rows>      blocks `o,i=<rows>` separated by `|`
  sur out=<sizes> in=<sizes> so=<idx> si=<idx> p=<vec> J=<rows|_>
                                             surrogate discipline with requested names (positions in the model's
                                             name lists): `y=<vec>` (outputs in requested order) then the blocks
                                             `n,m=<rows>` of the requested outputs/inputs, separated by `|`
  sess d=<n> dout=<n> ops=<op>|<op>|…        one model object trained several times; operations
                                               L!<fit_transformers 0/1>!<tin|_>!<tout|_>!lin!<W rows>!<b>
                                               L!<0/1>!<tin|_>!<tout|_>!poly!<nat rows P>!<C rows>!<b>
                                               Q!<x>
                                             answers joined by `|`: `trained` after a training, `p=<vec>~J=<rows>`
                                             after a query (`untrained` before the first training)
  moe d=<n> dout=<n> tin=<spec> tout=<spec> K=<n> hard=<0/1> ops=<op>|<op>|…
                                             a trained mixture of experts whose public attribute `hard` is assigned
                                             between queries; `hard` = the value given to the constructor; operations
                                               H!<0/1>                                    assignment of `hard`
                                               Q!<x>!<class>!<probabilities>!<E>!<EJ>     query; the values of the
                                                 (unmodelled) classifier and local models at the transformed point:
                                                 predicted class, class probabilities, E = rows of the K local
                                                 predictions, EJ = the K local Jacobians separated by `&`
                                             answers joined by `|`: `set` after an assignment, `p=<vec>~J=<rows|_>`
                                             after a query (`_`: no Jacobian offered with the soft formula)
Pipeline spec: `E` (empty) or steps joined by `+`:
  A:<coef>:<off>   fitted scaler          L:<mean>:<rows of W>   fitted linear reduction
  C:<coef>:<off>   Scaler to fit (one value is broadcast)        M   MinMaxScaler to fit
  S                StandardScaler to fit (answer `irrational` if a variance is not a perfect square)
-/

def kv (toks : List String) (key : String) : Option String :=
  toks.findSome? (fun t =>
    if t.startsWith (key ++ "=") then some ((t.drop (key.length + 1)).toString) else none)

def parseMat? (s : String) : Option (List (List Rat)) :=
  if s = "[]" then some [] else (s.splitOn ";").mapM parseRatList?

def parseNatMat? (s : String) : Option (List (List Nat)) :=
  if s = "[]" then some [] else (s.splitOn ";").mapM parseNatList?

def bitsToFloat? (s : String) : Option Float := s.toNat?.map (fun n => Float.ofBits n.toUInt64)
def parseBits? (s : String) : Option (List Float) :=
  if s = "[]" then some [] else (s.splitOn ",").mapM bitsToFloat?
def parseBitMat? (s : String) : Option (List (List Float)) :=
  if s = "[]" then some [] else (s.splitOn ";").mapM parseBits?
def showBits (l : List Float) : String :=
  if l.isEmpty then "[]" else ",".intercalate (l.map (fun f => toString f.toBits.toNat))
def showBitMat (m : List (List Float)) : String :=
  if m.isEmpty then "[]" else ";".intercalate (m.map showBits)

def vecOf (l : List Rat) : Vec Rat := fun i => l.getD i 0
def matOf (m : List (List Rat)) : Mat Rat := fun i j => (m.getD i []).getD j 0
def listOf (n : Nat) (v : Vec Rat) : List Rat := (List.range n).map v
def rowsOf (r c : Nat) (m : Mat Rat) : List (List Rat) := (List.range r).map (fun i => (List.range c).map (m i))
def showMat (m : List (List Rat)) : String :=
  if m.isEmpty then "[]" else ";".intercalate (m.map showRatList)
def fvecOf (l : List Float) : Nat → Float := fun i => l.getD i 0.0
def fmatOf (m : List (List Float)) : Nat → Nat → Float := fun i j => (m.getD i []).getD j 0.0

/-- A step of a pipeline spec, possibly still to be fitted. -/
inductive StepSpec where
  | fitted (s : Step Rat)
  | scaler (coef off : List Rat)
  | minmax
  | standard

def parseStep? (s : String) : Option StepSpec :=
  match s.splitOn ":" with
  | ["M"] => some .minmax
  | ["S"] => some .standard
  | ["A", c, o] => do
      let c ← parseRatList? c; let o ← parseRatList? o
      if c.length = o.length then some (.fitted (Step.affine c.length (vecOf c) (vecOf o))) else none
  | ["C", c, o] => do
      let c ← parseRatList? c; let o ← parseRatList? o
      some (.scaler c o)
  | ["L", mu, w] => do
      let mu ← parseRatList? mu; let w ← parseMat? w
      some (.fitted (Step.linear mu.length w.length (vecOf mu) (matOf w)))
  | _ => none

def parsePipe? (s : String) : Option (List StepSpec) :=
  if s = "E" then some [] else (s.splitOn "+").mapM parseStep?

def broadcast (l : List Rat) (d : Nat) : Option (List Rat) :=
  if l.length = d then some l else if l.length = 1 then some (List.replicate d (l.getD 0 0)) else none

/-- Fit the steps one after the other, each on the data transformed by the previous ones. -/
def fitPipe (specs : List StepSpec) (n d : Nat) (data : Nat → Nat → Rat) : Except String (List (Step Rat)) :=
  let rec go (specs : List StepSpec) (d : Nat) (data : Nat → Nat → Rat) (acc : List (Step Rat)) :
      Except String (List (Step Rat)) :=
    match specs with
    | [] => .ok acc.reverse
    | sp :: rest =>
      let fitted : Except String (Step Rat) :=
        match sp with
        | .fitted s => if s.inDim = d then .ok s else .error "dimension"
        | .scaler c o =>
          match broadcast c d, broadcast o d with
          | some c, some o => .ok (Step.affine d (vecOf c) (vecOf o))
          | _, _ => .error "dimension"
        | .minmax => if n = 0 then .error "nodata" else .ok (fitMinMax n d data)
        | .standard =>
          if n = 0 then .error "nodata" else
          let stds := (List.range d).map (fun j => Expr.ratSqrt? (varOf n (fun s => data s j)))
          if stds.all Option.isSome then
            .ok (fitStandard n d data (vecOf (stds.map (fun o => o.getD 0))))
          else .error "irrational"
      match fitted with
      | .error e => .error e
      | .ok s =>
        let data' : Nat → Nat → Rat := fun r => s.transform (data r)
        -- materialise the transformed data (avoids re-evaluating the closures exponentially)
        let rows := (List.range n).map (fun r => (List.range s.outDim).map (data' r))
        go rest s.outDim (matOf rows) (s :: acc)
  go specs d data []

def answerTr (toks : List String) : String :=
  match (kv toks "pipe").bind parsePipe?, kv toks "D", (kv toks "x").bind parseRatList? with
  | some specs, some ds, some x =>
    let dataRows : Option (List (List Rat)) := if ds = "_" then some [] else parseMat? ds
    match dataRows with
    | none => "bad-data"
    | some rows =>
      let d := x.length
      match fitPipe specs rows.length d (matOf rows) with
      | .error e => e
      | .ok steps =>
        let k := pipeOutDim steps d
        let z := pipeTransform steps (vecOf x)
        let zl := listOf k z
        let xb := pipeInverse steps (vecOf zl)
        let J := pipeJac steps
        let Ji := pipeJacInv steps
        s!"z={showRatList zl} xb={showRatList (listOf d xb)} J={showMat (rowsOf k d J)} Ji={showMat (rowsOf d k Ji)}"
  | _, _, _ => "bad-line"

def fittedPipe? (s : String) : Option (List (Step Rat)) := do
  let specs ← parsePipe? s
  specs.mapM (fun sp => match sp with | .fitted st => some st | _ => none)

def answerReg (toks : List String) (poly : Bool) : String :=
  match (kv toks "tin").bind fittedPipe?, (kv toks "tout").bind fittedPipe?,
        (kv toks "b").bind parseRatList?, (kv toks "x").bind parseRatList? with
  | some tin, some tout, some b, some x =>
    let d := x.length
    let k := pipeOutDim tin d
    let m := b.length
    let dout := tout.reverse.foldl (fun _ s => s.inDim) m
    if poly then
      match (kv toks "P").bind parseNatMat?, (kv toks "C").bind parseMat? with
      | some pw, some c =>
        let P := pw.length
        let pwf : Nat → Nat → Nat := fun p j => (pw.getD p []).getD j 0
        let g := polyPredict P k pwf (matOf c) (vecOf b)
        let p := regPredict tin tout g (vecOf x)
        let J := regJac tin tout k m (fun z => polyJac P k pwf (matOf c) z) (vecOf x)
        s!"p={showRatList (listOf dout p)} J={showMat (rowsOf dout d J)}"
      | _, _ => "bad-poly"
    else
      match (kv toks "W").bind parseMat? with
      | some w =>
        let g := linPredict k (matOf w) (vecOf b)
        let p := regPredict tin tout g (vecOf x)
        let J := regJac tin tout k m (linJac (matOf w)) (vecOf x)
        s!"p={showRatList (listOf dout p)} J={showMat (rowsOf dout d J)}"
      | none => "bad-lin"
  | _, _, _, _ => "bad-line"

def answerRbf (toks : List String) : String :=
  match kv toks "k", (kv toks "eps").bind bitsToFloat?, (kv toks "tol").bind bitsToFloat?,
        (kv toks "C").bind parseBitMat?, (kv toks "W").bind parseBitMat?,
        (kv toks "avg").bind parseBits?, (kv toks "x").bind parseBits? with
  | some k, some eps, some tol, some c, some w, some avg, some x =>
    match phiExpr k, Gen.table.lookup k with
    | some phi, some der =>
      let n := c.length
      let d := x.length
      let m := avg.length
      let p := (List.range m).map (rbfPredictF phi eps n d (fmatOf c) (fmatOf w) (fvecOf avg) (fvecOf x))
      let J := (List.range m).map (fun i => (List.range d).map (rbfJacF der eps tol n d (fmatOf c) (fmatOf w) (fvecOf x) i))
      s!"p={showBits p} J={showBitMat J}"
    | _, _ => "unknown-kernel"
  | _, _, _, _, _, _, _ => "bad-line"

def answerSplit (toks : List String) : String :=
  match (kv toks "out").bind parseNatList?, (kv toks "in").bind parseNatList?, (kv toks "J").bind parseMat? with
  | some os, some is, some j =>
    let J := matOf j
    let blocks := (List.range os.length).flatMap (fun o => (List.range is.length).map (fun i =>
      s!"{o},{i}={showMat (rowsOf (os.getD o 0) (is.getD i 0) (splitBlock os is J o i))}"))
    if blocks.isEmpty then "[]" else "|".intercalate blocks
  | _, _, _ => "bad-line"

def answerSur (toks : List String) : String :=
  match (kv toks "out").bind parseNatList?, (kv toks "in").bind parseNatList?,
        (kv toks "so").bind parseNatList?, (kv toks "si").bind parseNatList?,
        (kv toks "p").bind parseRatList?, kv toks "J" with
  | some os, some is, some so, some si, some p, some js =>
    if so.any (fun o => os.length ≤ o) || si.any (fun i => is.length ≤ i) then "bad-selection" else
    let tot := (selSizes os so).foldl (· + ·) 0
    let y := listOf tot (concatSel os (vecOf p) so)
    let blocks : List String :=
      if js = "_" then [] else
      match parseMat? js with
      | none => ["bad-J"]
      | some j =>
        (List.range so.length).flatMap (fun n => (List.range si.length).map (fun m =>
          s!"{n},{m}={showMat (rowsOf (os.getD (so.getD n 0) 0) (is.getD (si.getD m 0) 0) (surBlock os is (matOf j) so si n m))}"))
    "|".intercalate (s!"y={showRatList y}" :: blocks)
  | _, _, _, _, _, _ => "bad-line"

def parseCore? (fields : List String) : Option (Core Rat) :=
  match fields with
  | ["lin", w, b] => do
      let w ← parseMat? w; let b ← parseRatList? b
      some (Core.lin (matOf w) (vecOf b))
  | ["poly", pw, c, b] => do
      let pw ← parseNatMat? pw; let c ← parseMat? c; let b ← parseRatList? b
      some (Core.poly pw.length (fun p j => (pw.getD p []).getD j 0) (matOf c) (vecOf b))
  | _ => none

def parseSOp? (s : String) : Option (SOp Rat) :=
  match s.splitOn "!" with
  | ["Q", x] => (parseRatList? x).map (fun x => SOp.query (vecOf x))
  | "L" :: ft :: tin :: tout :: core => do
      let ft ← (if ft = "1" then some true else if ft = "0" then some false else none)
      let tin ← (if tin = "_" then some [] else fittedPipe? tin)
      let tout ← (if tout = "_" then some [] else fittedPipe? tout)
      let core ← parseCore? core
      some (SOp.learn ft tin tout core)
  | _ => none

def answerSess (toks : List String) : String :=
  match (kv toks "d").bind String.toNat?, (kv toks "dout").bind String.toNat?, kv toks "ops" with
  | some d, some dout, some ops =>
    match (ops.splitOn "|").mapM parseSOp? with
    | none => "bad-ops"
    | some ops =>
      let s0 : Sess Rat := { trained := false, tin := [], tout := [], core := Core.lin (fun _ _ => 0) (fun _ => 0) }
      let rec go (s : Sess Rat) (ops : List (SOp Rat)) (acc : List String) : List String :=
        match ops with
        | [] => acc.reverse
        | op :: rest =>
          let (s', out) := Sess.step d dout s op
          let txt := match out with
            | none => "trained"
            | some (p, J) =>
              if s.trained then s!"p={showRatList (listOf dout p)}~J={showMat (rowsOf dout d J)}" else "untrained"
          go s' rest (txt :: acc)
      "|".intercalate (go s0 ops [])
  | _, _, _ => "bad-line"

/-- One operation of a `moe` line: an assignment, or a query with the observed values of the classifier
    and of the local models at the transformed query point. -/
inductive MoeTok where
  | set (b : Bool)
  | query (x : List Rat) (cls : Nat) (proba : List Rat) (e : List (List Rat)) (ej : List (List (List Rat)))

def parseMoeTok? (s : String) : Option MoeTok :=
  match s.splitOn "!" with
  | ["H", b] => if b = "1" then some (MoeTok.set true) else if b = "0" then some (MoeTok.set false) else none
  | ["Q", x, c, pr, e, ej] => do
      let x ← parseRatList? x; let c ← c.toNat?; let pr ← parseRatList? pr
      let e ← parseMat? e; let ej ← (ej.splitOn "&").mapM parseMat?
      some (MoeTok.query x c pr e ej)
  | _ => none

def blankMoe (tin tout : List (Step Rat)) (K : Nat) (hard : Bool) : Moe Rat :=
  ⟨tin, tout, K, fun _ _ _ => 0, fun _ _ _ _ => 0, fun _ => 0, fun _ _ => 0, hard⟩

/-- The state `m` (transformers, number of clusters, current `hard`) with the observed values of the
    classifier and of the local models at the query point. -/
def observedMoe (m : Moe Rat) (c : Nat) (pr : List Rat) (e : List (List Rat))
    (ej : List (List (List Rat))) : Moe Rat :=
  ⟨m.tin, m.tout, m.K, fun k _ => vecOf (e.getD k []), fun k _ => matOf (ej.getD k []),
    fun _ => c, fun _ k => pr.getD k 0, m.hard⟩

def answerMoe (toks : List String) : String :=
  match (kv toks "d").bind String.toNat?, (kv toks "dout").bind String.toNat?,
        (kv toks "tin").bind fittedPipe?, (kv toks "tout").bind fittedPipe?,
        (kv toks "K").bind String.toNat?, kv toks "hard", kv toks "ops" with
  | some d, some dout, some tin, some tout, some K, some h0, some ops =>
    match (ops.splitOn "|").mapM parseMoeTok? with
    | none => "bad-ops"
    | some ops =>
      -- the state carried from one operation to the next is the model's: only `hard` can change
      let blank : Moe Rat := blankMoe tin tout K (h0 = "1")
      let rec go (m : Moe Rat) (ops : List MoeTok) (acc : List String) : List String :=
        match ops with
        | [] => acc.reverse
        | MoeTok.set b :: rest => go (Moe.step d dout m (MOp.setHard b)).1 rest ("set" :: acc)
        | MoeTok.query x c pr e ej :: rest =>
          let mq : Moe Rat := observedMoe m c pr e ej
          let (m', out) := Moe.step d dout mq (MOp.query (vecOf x))
          let txt := match out with
            | some (p, some J) => s!"p={showRatList (listOf dout p)}~J={showMat (rowsOf dout d J)}"
            | some (p, none) => s!"p={showRatList (listOf dout p)}~J=_"
            | none => "bad-step"
          go m' rest (txt :: acc)
      "|".intercalate (go blank ops [])
  | _, _, _, _, _, _, _ => "bad-line"

def answer (line : String) : String :=
  match tokens line with
  | "der" :: rest =>
    match kv rest "k", (kv rest "v").bind parseBits? with
    | some k, some [x, r, e, t] =>
      match Gen.table.lookup k with
      | some der => showBits [der.evF (fun v => match v with | 0 => x | 1 => r | 2 => e | _ => t)]
      | none => "untranslated"
    | _, _ => "bad-line"
  | "dphi" :: rest =>
    match kv rest "k", (kv rest "v").bind parseBits? with
    | some k, some [t, c, s, e] =>
      match sliceExpr k with
      | some sl => showBits [sl.diff.evF (fun v => match v with | 0 => t | 1 => c | 2 => s | _ => e)]
      | none => "unknown-kernel"
    | _, _ => "bad-line"
  | "phi" :: rest =>
    match kv rest "k", (kv rest "v").bind parseBits? with
    | some k, some [r, e] =>
      match phiExpr k with
      | some ph => showBits [ph.evF (fun v => match v with | 1 => r | 2 => e | _ => 0.0)]
      | none => "unknown-kernel"
    | _, _ => "bad-line"
  | "derq" :: rest =>
    match kv rest "k", (kv rest "v").bind parseRatList? with
    | some k, some [x, r, e, t] =>
      match Gen.table.lookup k with
      | some der => showORat (der.evQ (fun v => match v with | 0 => x | 1 => r | 2 => e | _ => t))
      | none => "untranslated"
    | _, _ => "bad-line"
  | "tr" :: rest => answerTr rest
  | "lin" :: rest => answerReg rest false
  | "poly" :: rest => answerReg rest true
  | "rbf" :: rest => answerRbf rest
  | "split" :: rest => answerSplit rest
  | "sur" :: rest => answerSur rest
  | "sess" :: rest => answerSess rest
  | "moe" :: rest => answerMoe rest
  | _ => "bad-op"

def main : IO Unit := driverLoop (fun (_ : Unit) line => ((), answer line)) ()
