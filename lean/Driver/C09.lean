import GemseoVerif.Model.C09
open GV GV.C09

/-
Line protocol of C09 (one whole case = process + request history per line):

  case <new|old> V <v:size,...(sorted)> P <proc> R <addIn> <addOut> <all:0|1> [S <v:size,...>] {T <leaf> <out> <in> <mat>}* R ...

  `S`: the sizes of the variables at THIS request (size-agnostic disciplines: the sizes are data of the input
  point, the same process is linearized at vectors of other lengths); without `S` the sizes of `V` hold.

  proc (prefix form):  L <id> <ins> <outs> | C <n> proc*n | P <n> proc*n | A <sums> <n> proc*n
  name lists: comma separated, `-` when empty;  mat: rows `;`, entries `,`

answer: for every request `<o>/<x>=<mat> ... # <leaf>:<ins>:<outs> ...`, requests separated by ` | `;
  an error of the modelled code is `E:<kind>` in place of the blocks.

The recursion over nested processes and the per-node state live here (glue, trusted); every node
calls the verified functions of Model/C09: `chainJac`, `parJac`, `addJac`, `ChainState.request`
(→ `traverseSelect`), `DJac.restrict`.
-/

abbrev B : String → String → Type := fun _ _ => Mat

inductive Proc where
  | leaf (id : Nat) (ins outs : List String)
  | chain (ps : List Proc)
  | par (ps : List Proc)
  | add (sums : List String) (ps : List Proc)
  deriving Inhabited

/-- State of a node: own cumulative differentiated inputs/outputs, chain cache, children. -/
inductive St where
  | mk (dIn dOut : List String) (cs : ChainState String) (kids : List St)

instance : Inhabited St := ⟨.mk [] [] default []⟩

def names (s : String) : List String := if s = "-" then [] else s.splitOn ","
def showNames (l : List String) : String := if l.isEmpty then "-" else ",".intercalate l

def parseMat (s : String) : Option Mat := (s.splitOn ";").mapM (fun r => (r.splitOn ",").mapM parseRat?)
def showMat (m : Mat) : String := ";".intercalate (m.map (fun r => ",".intercalate (r.map showRat)))

partial def parseProc : List String → Option (Proc × List String)
  | "L" :: id :: i :: o :: rest => id.toNat?.map (fun n => (Proc.leaf n (names i) (names o), rest))
  | "C" :: n :: rest => do
    let (ps, rest) ← parseMany (← n.toNat?) rest
    pure (Proc.chain ps, rest)
  | "P" :: n :: rest => do
    let (ps, rest) ← parseMany (← n.toNat?) rest
    pure (Proc.par ps, rest)
  | "A" :: s :: n :: rest => do
    let (ps, rest) ← parseMany (← n.toNat?) rest
    pure (Proc.add (names s) ps, rest)
  | _ => none
where
  parseMany : Nat → List String → Option (List Proc × List String)
    | 0, rest => some ([], rest)
    | k + 1, rest => do
      let (p, rest) ← parseProc rest
      let (ps, rest) ← parseMany k rest
      pure (p :: ps, rest)

partial def Proc.outs : Proc → List String
  | .leaf _ _ o => o
  | .chain ps | .par ps | .add _ ps => ps.foldl (fun acc p => union acc p.outs) []

partial def Proc.ins : Proc → List String
  | .leaf _ i _ => i
  | .chain ps =>
    (ps.foldl (fun (acc : List String × List String) p =>
      (union acc.1 (p.ins.filter (fun v => !decide (v ∈ acc.2))), union acc.2 p.outs)) ([], [])).1
  | .par ps | .add _ ps => ps.foldl (fun acc p => union acc p.ins) []

partial def initSt : Proc → St
  | .leaf _ _ _ => .mk [] [] (ChainState.init 0) []
  | .chain ps => .mk [] [] (ChainState.init ps.length) (ps.map initSt)
  | .par ps | .add _ ps => .mk [] [] (ChainState.init 0) (ps.map initSt)

/-- `add_differentiated_inputs(xs)` / `add_differentiated_outputs(os)` (non-empty lists only). -/
partial def addDiff (p : Proc) (st : St) (xs os : List String) : St :=
  match st with
  | .mk dIn dOut cs kids =>
    let dIn := union dIn xs
    let dOut := union dOut os
    match p with
    | .par ps | .add _ ps =>
      let kids := (ps.zip kids).map (fun (q, k) => addDiff q k (inter xs q.ins) (inter os q.outs))
      .mk dIn dOut cs kids
    | _ => .mk dIn dOut cs kids

structure Ctx where
  old : Bool
  vars : List String
  sizes : List (String × Nat)
  tables : List ((Nat × String × String) × Mat)

/-- `_init_jacobian(fill_missing_keys=True)`: zero blocks from the sizes of the current request
    (`zeroFillOf` of Model/C09, section Sizes). -/
def Ctx.fill (c : Ctx) (o x : String) : Mat := zeroFillOf c.sizes c.sizes o x

/-- Build a `DJac` whose blocks are given by an association list. -/
def tableJac (c : Ctx) (rows : List String) (cols : List String)
    (tab : List ((String × String) × Mat)) : DJac B :=
  { rows := rows, cols := fun _ => cols,
    val := fun w v => match tab.find? (fun e => e.1 == (w, v)) with
      | some e => e.2
      | none => c.fill w v }

def emptyJac (c : Ctx) : DJac B := { rows := [], cols := fun _ => [], val := fun w v => c.fill w v }

/-- PINNED additive chain: raises when a child has no row for a summed output (`KeyError`) or when
    no child has the requested input (`assert`). -/
def additiveOldError (sums xs : List String) (ds : List (Disc B)) : Option String :=
  sums.foldl (fun acc s =>
    match acc with
    | some e => some e
    | none =>
      if ds.any (fun d => !decide (s ∈ d.jac.rows)) then some "E:key"
      else if xs.any (fun x => ds.all (fun d => ((d.jac.row s).get x).isNone)) then some "E:assert"
      else none) none

mutual
/-- `node._compute_jacobian(xs, os)`: the Jacobian dictionary (all requested pairs filled). -/
partial def linNode (c : Ctx) (p : Proc) (st : St) (xs os : List String) :
    Except String (DJac B × St) :=
  match p, st with
  | .leaf id ins outs, st =>
    let tab := c.tables.filterMap (fun e => if e.1.1 == id then some ((e.1.2.1, e.1.2.2), e.2) else none)
    .ok (tableJac c outs ins tab, st)
  | .chain ps, .mk dIn dOut cs kids => do
    let ios := ps.map (fun q => (q.ins, q.outs))
    let (cs, added) := cs.request ios xs os
    let kids := (ps.zip (kids.zip added)).map (fun (q, k, a) =>
      let k := if a.1.isEmpty then k else addDiff q k a.1 []
      if a.2.isEmpty then k else addDiff q k [] a.2)
    let (ds, kids) ← linKids c ps kids
    let tab := os.flatMap (fun o =>
      let row := if c.old then chainRowOld c.vars ds o else chainRow c.vars ds o
      xs.map (fun x => ((o, x), finishRow c.fill row x)))
    .ok (tableJac c os xs tab, .mk dIn dOut cs kids)
  | .par ps, .mk dIn dOut cs kids => do
    let kids := (ps.zip kids).map (fun (q, k) =>
      let o' := inter os q.outs
      let x' := inter xs q.ins
      let k := if o'.isEmpty then k else addDiff q k [] o'
      if x'.isEmpty then k else addDiff q k x' [])
    let (ds, kids) ← linKids c ps kids
    let tab := os.flatMap (fun o => xs.map (fun x =>
      ((o, x), if c.old then parJacOld c.fill ds o x else parJac c.fill ds o x)))
    .ok (tableJac c os xs tab, .mk dIn dOut cs kids)
  | .add sums ps, .mk dIn dOut cs kids => do
    let kids := (ps.zip kids).map (fun (q, k) =>
      let o' := inter os q.outs
      let x' := inter xs q.ins
      let k := if o'.isEmpty then k else addDiff q k [] o'
      if x'.isEmpty then k else addDiff q k x' [])
    let (ds, kids) ← linKids c ps kids
    if c.old then
      match additiveOldError sums xs ds with
      | some e => .error e
      | none =>
        let tab := os.flatMap (fun o => xs.map (fun x =>
          ((o, x), if o ∈ sums then (match addBlock ds o x with | some b => b | none => c.fill o x)
                   else parJacOld c.fill ds o x)))
        .ok (tableJac c os xs tab, .mk dIn dOut cs kids)
    else
      let tab := os.flatMap (fun o => xs.map (fun x => ((o, x), addJac c.fill sums ds o x)))
      .ok (tableJac c os xs tab, .mk dIn dOut cs kids)

/-- `child.linearize(compute_all_jacobians=False)` as called by the parent: the child's own
    cumulative differentiated inputs/outputs are used and the result is restricted to them. -/
partial def linChild (c : Ctx) (p : Proc) (st : St) : Except String (Disc B × St) :=
  match st with
  | .mk dIn dOut _ _ =>
    if dIn.isEmpty || dOut.isEmpty then .ok (⟨p.ins, p.outs, emptyJac c⟩, st)
    else do
      let (j, st) ← linNode c p st dIn dOut
      .ok (⟨p.ins, p.outs, j.restrict dIn dOut⟩, st)

partial def linKids (c : Ctx) : List Proc → List St → Except String (List (Disc B) × List St)
  | p :: ps, k :: ks => do
    let (d, k) ← linChild c p k
    let (ds, ks) ← linKids c ps ks
    .ok (d :: ds, k :: ks)
  | _, _ => .ok ([], [])
end

partial def leafSel : Proc → St → List String
  | .leaf id _ _, .mk dIn dOut _ _ => [s!"{id}:{showNames (sortS dIn)}:{showNames (sortS dOut)}"]
  | .chain ps, .mk _ _ _ kids | .par ps, .mk _ _ _ kids | .add _ ps, .mk _ _ _ kids =>
    (ps.zip kids).flatMap (fun (q, k) => leafSel q k)
where
  sortS (l : List String) : List String := l.mergeSort (fun a b => a ≤ b)

def sortS (l : List String) : List String := l.mergeSort (fun a b => a ≤ b)

structure Req where
  addIn : List String
  addOut : List String
  all : Bool
  sizes : Option (List (String × Nat))
  tables : List ((Nat × String × String) × Mat)

partial def parseTables : List String → Option (List ((Nat × String × String) × Mat) × List String)
  | "T" :: id :: o :: i :: m :: rest => do
    let n ← id.toNat?
    let mat ← parseMat m
    let (ts, rest) ← parseTables rest
    pure (((n, o, i), mat) :: ts, rest)
  | rest => some ([], rest)

def parseSizes (s : String) : Option (List (String × Nat)) :=
  (names s).mapM (fun t => match t.splitOn ":" with
    | [v, n] => n.toNat?.map (fun k => (v, k))
    | _ => none)

partial def parseReqs : List String → Option (List Req)
  | [] => some []
  | "R" :: i :: o :: a :: "S" :: sz :: rest => do
    let sizes ← parseSizes sz
    let (ts, rest) ← parseTables rest
    let rs ← parseReqs rest
    pure (⟨names i, names o, a == "1", some sizes, ts⟩ :: rs)
  | "R" :: i :: o :: a :: rest => do
    let (ts, rest) ← parseTables rest
    let rs ← parseReqs rest
    pure (⟨names i, names o, a == "1", none, ts⟩ :: rs)
  | _ => none

def runCase (old : Bool) (sizes : List (String × Nat)) (p : Proc) (reqs : List Req) : String :=
  let vars := sizes.map (·.1)
  let rec go (st : St) (rs : List Req) (acc : List String) : List String :=
    match rs with
    | [] => acc.reverse
    | r :: rs =>
      -- the zero blocks are formed from the sizes of the CURRENT request (`sizesAtRequest` of Model/C09)
      let c : Ctx := ⟨old, vars, r.sizes.getD sizes, r.tables⟩
      let st := if r.addIn.isEmpty && r.addOut.isEmpty then st else
        (let st := if r.addIn.isEmpty then st else addDiff p st r.addIn []
         if r.addOut.isEmpty then st else addDiff p st [] r.addOut)
      let (xs, os) := match st with
        | .mk dIn dOut _ _ => if r.all then (p.ins, p.outs) else (dIn, dOut)
      if xs.isEmpty || os.isEmpty then go st rs ("E:empty" :: acc)
      else
        match linNode c p st xs os with
        | .error e => go st rs (e :: acc)
        | .ok (j, st) =>
          let blocks := (sortS os).flatMap (fun o => (sortS xs).map (fun x => s!"{o}/{x}={showMat (j.val o x)}"))
          let out := " ".intercalate blocks ++ " # " ++ " ".intercalate (leafSel p st)
          go st rs (out :: acc)
  " | ".intercalate (go (initSt p) reqs [])

/-! ### `eval` lines: histories of executions/linearizations on a flat chain (verified functions only)

  eval <chain cache n|s|f> <MDAChain wrapper cache -|n|s|f> K <n> {L <id> <ins> <outs> <cache>}*n
       {F <id> <input data> <output data>}*  {O <x|l1|l0> <point>}*

  data: `name=values;name=values` (`-` when empty); the values of a variable are an opaque string.
  `F`: the table of the function of a leaf (input data -> output data), `O x` = execute(point),
  `O l1` = linearize(point), `O l0` = linearize(point, execute=False).
answer, per operation (separated by ` | `): `X <output data of the process>` or
  `L <id>@<data of the inputs of the leaf when it computes its Jacobian> ...`.
Runs `EChain.exec/lin` (or `mdaExec/mdaLin`) of Model/C09 at `V = D = String`. -/

def parseData (s : String) : List (String × String) :=
  if s = "-" then [] else (s.splitOn ";").filterMap (fun t => match t.splitOn "=" with
    | [n, v] => some (n, v)
    | _ => none)

def envOf (l : List (String × String)) : Env String String :=
  fun v => match l.find? (fun e => e.1 == v) with | some e => e.2 | none => "?"

def showData (names : List String) (e : Env String String) : String :=
  if names.isEmpty then "-" else ";".intercalate ((sortS names).eraseDups.map (fun n => s!"{n}={e n}"))

def cacheKind (s : String) : CacheKind :=
  if s = "n" then .none else if s = "f" then .full else .simple

partial def parseEvalLeaves : Nat → List String → Option (List (Nat × List String × List String × CacheKind) × List String)
  | 0, rest => some ([], rest)
  | k + 1, "L" :: id :: i :: o :: c :: rest => do
    let (ls, rest) ← parseEvalLeaves k rest
    pure ((← id.toNat?, names i, names o, cacheKind c) :: ls, rest)
  | _, _ => none

partial def parseEvalTables : List String → List (Nat × List (String × String) × List (String × String)) × List String
  | "F" :: id :: i :: o :: rest =>
    let (ts, rest) := parseEvalTables rest
    ((id.toNat!, parseData i, parseData o) :: ts, rest)
  | rest => ([], rest)

partial def parseEvalOps : List String → Option (List (String × Env String String))
  | [] => some []
  | "O" :: k :: pt :: rest => do
    let ops ← parseEvalOps rest
    pure ((k, envOf (parseData pt)) :: ops)
  | _ => none

def evalAnswer (ccache wcache : String) (leaves : List (Nat × List String × List String × CacheKind))
    (tabs : List (Nat × List (String × String) × List (String × String)))
    (ops : List (String × Env String String)) : String :=
  let mkF := fun (id : Nat) (ins : List String) (e : Env String String) =>
    match tabs.find? (fun t => t.1 == id && ins.all (fun v => envOf t.2.1 v == e v)) with
    | some t => envOf t.2.2
    | none => fun _ => "?"
  let kids : List (EDisc String String) := leaves.map (fun l => ⟨l.2.1, l.2.2.1, mkF l.1 l.2.1, l.2.2.2⟩)
  let c : EChain String String := ⟨kids, cacheKind ccache⟩
  let showPts := fun (pts : List (Env String String)) =>
    "L " ++ " ".intercalate ((leaves.zip pts).map (fun (l, p) => s!"{l.1}@{showData l.2.1 p}"))
  let d0 : Env String String := fun _ => "?"
  if wcache = "-" then
    let rec go (st : ChState String String) (ops : List (String × Env String String)) (acc : List String) :=
      match ops with
      | [] => acc.reverse
      | (k, x) :: ops =>
        if k = "x" then
          let st := c.exec st x
          go st ops (("X " ++ showData (chainOuts kids) st.own.data) :: acc)
        else
          let r := c.lin st x (k = "l1")
          go r.1 ops (showPts r.2 :: acc)
    " | ".intercalate (go (ChState.fresh kids.length d0) ops [])
  else
    let w := cacheKind wcache
    let rec goM (st : MState String String) (ops : List (String × Env String String)) (acc : List String) :=
      match ops with
      | [] => acc.reverse
      | (k, x) :: ops =>
        if k = "x" then
          let st := mdaExec c w st x
          goM st ops (("X " ++ showData (chainOuts kids) st.own.data) :: acc)
        else
          let r := mdaLin c w st x (k = "l1") true
          goM r.1 ops (showPts r.2 :: acc)
    " | ".intercalate (goM (MState.fresh kids.length d0) ops [])

def answer (line : String) : String :=
  match tokens line with
  | "eval" :: cc :: wc :: "K" :: n :: rest =>
    match n.toNat? with
    | some k =>
      match parseEvalLeaves k rest with
      | some (leaves, rest) =>
        let (tabs, rest) := parseEvalTables rest
        match parseEvalOps rest with
        | some ops => evalAnswer cc wc leaves tabs ops
        | none => "bad-ops"
      | none => "bad-leaves"
    | none => "bad-op"
  | "case" :: alg :: "V" :: sz :: "P" :: rest =>
    match parseSizes sz, parseProc rest with
    | some sizes, some (p, rest) =>
      match parseReqs rest with
      | some reqs => runCase (alg == "old") sizes p reqs
      | none => "bad-req"
    | _, _ => "bad-proc"
  | _ => "bad-op"

def main : IO Unit := driverLoop (fun (_ : Unit) l => ((), answer l)) ()
