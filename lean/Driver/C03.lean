import GemseoVerif.Model.C03
open GV GV.C03

/-
Line protocol for C03 (see harness/c03.py):
  cleardb
  start <maxIter> <previous> <reset 0|1> <storeJac 0|1> <stopIfNan 0|1>   (database kept)
  req <name> <v|j> <key> <nan 0|1> <timeUp 0|1> <tol _|ftol|xtol|kkt>
      -> <served|computed|stop:<term>> cur=<n> len=<n> nonempty=<n> vcalls=<n> jcalls=<n>
-/

structure D where
  st : St := ⟨[], 0, 0, []⟩
  cfg : Cfg := {}

def showTerm : Term → String
  | .maxIter => "maxIter" | .functionIsNan => "functionIsNan" | .desvarIsNan => "desvarIsNan"
  | .maxTime => "maxTime" | .ftol => "ftol" | .xtol => "xtol" | .kkt => "kkt"

def showOutcome : Outcome → String
  | .served => "served" | .computed => "computed" | .raised => "raised" | .stop t => "stop:" ++ showTerm t

def summary (st : St) : String :=
  s!"cur={st.current} len={st.db.length} nonempty={nonEmptyCount st.db} vcalls={(st.calls.filter (fun c => c.kind == .value)).length} jcalls={(st.calls.filter (fun c => c.kind == .jacobian)).length}"

def step' (d : D) (line : String) : D × String :=
  match tokens line with
  | ["cleardb"] => ({ d with st := { d.st with db := [] } }, "ok")
  | ["start", m, p, r, sj, sn] =>
    match m.toNat?, p.toNat? with
    | some m, some p =>
      let st := start d.st.db m p (r == "1")
      ({ st := st, cfg := { storeJac := sj == "1", stopIfNan := sn == "1" } }, "ok " ++ summary st)
    | _, _ => (d, "bad-op")
  | ["req", n, k, key, nan, tu, tol] =>
    match parseRatList? key with
    | some key =>
      let kind := if k == "j" then Kind.jacobian else Kind.value
      let tolStop := if tol == "ftol" then some Term.ftol else if tol == "xtol" then some Term.xtol
        else if tol == "kkt" then some Term.kkt else none
      let r : Req := { name := n, kind := kind, key := key, isNan := nan == "1", raises := nan == "2", timeUp := tu == "1", tolStop := tolStop }
      let (st', o) := step d.cfg d.st r
      ({ d with st := st' }, showOutcome o ++ " " ++ summary st')
    | none => (d, "bad-op")
  | _ => (d, "bad-op")

def main : IO Unit := driverLoop step' {}
