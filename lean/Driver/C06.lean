import GemseoVerif.Model.C06
open GV GV.C06

/-
Line protocol for C06 (see harness/c06.py). The driver is stateful:
  sys <rows: coefs;coefs;...> <discs: i,i|i,...>                                 -> ok
  cfg <j|g|n> <res idx> <groups i,i|i> <warm idx> <tol> <maxit> <scal 0..5> <omega> <none|aitken|secant|adsq> <warm 0|1>
                                                                                  -> ok   (fresh MDA object)
  run <fuel> <consts> <start>   -> <converged|maxIter|nan|capped> it=<n> hist=<squared normed residuals> raw=<squared residual norms> out=<data>
`run` executes the current MDA object once more (scaling data and last outputs are kept).
  io <nvars> <vars: comps i,i|i,..> <reads: v,v|v,..> <writes: v,v|v,..>
        -> sc=<strong coupling variables> res=<their components> groups=<positions>   (remembered: `auto` in cfg / grp)
  inner <chain k=v,..> <given k=v,..|[]>   -> tolerance=<r|none> max_mda_iter=<r|none> warm_start=<r|none>
  grp <discs i,i|i> <self 0|1> <ismda 0|1> <j|g|n> <res|auto> <groups|auto> <scal> <omega> <accel> <chain k=v,..> <given k=v,..|[]>
        -> ok mda=<0|1> tol=<r> maxit=<n> warm=<0|1>       (appends a component to the chain; `sys` clears them)
  chain <fuel> <consts> <start>  -> out=<data> then, per inner MDA, ` ; <outcome> it=<n> hist=<..> raw=<..>`
-/

structure D where
  sys : Sys := ⟨[], []⟩
  cfg : Option Cfg := none
  st : MState := {}
  /-- a capped replay leaves no meaningful MDA state: later runs of the same object are not replayed -/
  poisoned : Bool := false
  /-- resolved components / positions computed by the last `io` line -/
  auto : List Nat × List (List Nat) := ([], [])
  chainGroups : List Group := []

def parseGroups (s : String) : Option (List (List Nat)) :=
  if s = "[]" then some [] else (s.splitOn "|").mapM parseNatList?

def parseRows (s : String) : Option (List Vec) := (s.splitOn ";").mapM parseRatList?

def parseScaling : String → Option Scaling
  | "0" => some .noScaling | "1" => some .initialResidualNorm | "2" => some .initialSubresidualNorm
  | "3" => some .nCouplingVariables | "4" => some .initialResidualComponent
  | "5" => some .scaledInitialResidualComponent | _ => none

def parseAccel : String → Option Accel
  | "none" => some .none | "aitken" => some .aitken | "secant" => some .secant | "adsq" => some .adsq
  | _ => none

def parseAlgo : String → Option Algo
  | "j" => some .jacobi | "g" => some .gaussSeidel | "n" => some .newton | _ => none

def parseSettings (s : String) : Option Settings :=
  if s = "[]" then some [] else
  (s.splitOn ",").mapM (fun kv => match kv.splitOn "=" with
    | [k, v] => (parseRat? v).map (fun r => (k, r))
    | _ => none)

def showGroups (g : List (List Nat)) : String :=
  if g.isEmpty then "[]" else "|".intercalate (g.map showNatList)

def showOpt : Option Rat → String
  | some r => showRat r | none => "none"

def showOutcome : Outcome → String
  | .converged => "converged" | .maxIter => "maxIter" | .nan => "nan" | .capped => "capped"

def step' (d : D) (line : String) : D × String :=
  match tokens line with
  | ["sys", rows, discs] =>
    match parseRows rows, parseGroups discs with
    | some rows, some discs =>
      ({ d with sys := ⟨rows.map (fun c => ⟨0, c⟩), discs⟩, cfg := none, st := {}, chainGroups := [] }, "ok")
    | _, _ => (d, "bad-sys")
  | ["io", nvars, vars, reads, writes] =>
    match nvars.toNat?, parseGroups vars, parseGroups reads, parseGroups writes with
    | some nvars, some vars, some reads, some writes =>
      let sc := strongCouplingVars nvars reads writes
      let res := componentsOf vars sc
      let pos := positionsOf vars 0 sc
      ({ d with auto := (res, pos) }, s!"sc={showNatList sc} res={showNatList res} groups={showGroups pos}")
    | _, _, _, _ => (d, "bad-io")
  | ["inner", chain, given] =>
    match parseSettings chain, parseSettings given with
    | some chain, some given =>
      let r := innerSettings chain given
      (d, s!"tolerance={showOpt (r.get? "tolerance")} max_mda_iter={showOpt (r.get? "max_mda_iter")} warm_start={showOpt (r.get? "warm_start")}")
    | _, _ => (d, "bad-inner")
  | ["grp", discs, self, ismda, algo, res, groups, scal, omega, acc, chain, given] =>
    let res? := if res = "auto" then some d.auto.1 else parseNatList? res
    let groups? := if groups = "auto" then some d.auto.2 else parseGroups groups
    match parseGroups discs, parseAlgo algo, res?, groups?, parseScaling scal, parseRat? omega, parseAccel acc,
          parseSettings chain, parseSettings given with
    | some discs, some algo, some res, some groups, some scal, some omega, some acc, some chain, some given =>
      let r := innerSettings chain given
      match r.get? "tolerance", r.get? "max_mda_iter", r.get? "warm_start" with
      | some tol, some maxit, some warm =>
        let c : Cfg := { algo := algo, res := res, groups := groups, warmIdx := res, tol := tol,
                         maxIter := maxit.floor.toNat, scaling := scal, omega := omega, accel := acc,
                         warmStart := warm != 0 }
        let g : Group := { discs := discs, selfCoupled := self == "1", isMda := ismda == "1", cfg := c }
        ({ d with chainGroups := d.chainGroups ++ [g] },
          s!"ok mda={if requiresMda g then 1 else 0} tol={showRat tol} maxit={maxit.floor.toNat} warm={if warm != 0 then 1 else 0}")
      | _, _, _ => (d, "bad-grp-settings")
    | _, _, _, _, _, _, _, _, _ => (d, "bad-grp")
  | ["chain", fuel, consts, start] =>
    match fuel.toNat?, parseRatList? consts, parseRatList? start with
    | some fuel, some consts, some start =>
      let sys : Sys := ⟨List.zipWith (fun (r : Row) k => { r with const := k }) d.sys.rows consts, d.sys.discs⟩
      let (out, runs) := chainExecute sys d.chainGroups fuel start
      let segs := runs.map (fun r =>
        s!" ; {showOutcome r.outcome} it={r.hist.length} hist={showRatList r.hist} raw={showRatList r.raw}")
      (d, s!"out={showRatList out}{String.join segs}")
    | _, _, _ => (d, "bad-chain")
  | ["cfg", algo, res, groups, widx, tol, maxit, scal, omega, acc, warm] =>
    let res? := if res = "auto" then some d.auto.1 else parseNatList? res
    let groups? := if groups = "auto" then some d.auto.2 else parseGroups groups
    let widx? := if widx = "auto" then some d.auto.1 else parseNatList? widx
    match parseAlgo algo, res?, groups?, widx?, parseRat? tol,
          maxit.toNat?, parseScaling scal, parseRat? omega, parseAccel acc with
    | some algo, some res, some groups, some widx, some tol, some maxit, some scal, some omega, some acc =>
      let c : Cfg := { algo := algo, res := res, groups := groups, warmIdx := widx, tol := tol, maxIter := maxit,
                       scaling := scal, omega := omega, accel := acc, warmStart := warm == "1" }
      ({ d with cfg := some c, st := {}, poisoned := false }, "ok")
    | _, _, _, _, _, _, _, _, _ => (d, "bad-cfg")
  | ["run", fuel, consts, start] =>
    match d.cfg, fuel.toNat?, parseRatList? consts, parseRatList? start with
    | some c, some fuel, some consts, some start =>
      if d.poisoned then (d, "capped it=0 hist=[] raw=[] out=[]") else
      let sys : Sys := ⟨List.zipWith (fun (r : Row) k => { r with const := k }) d.sys.rows consts, d.sys.discs⟩
      let r := execute sys c fuel d.st start
      let st' : MState := { sd := r.sd, lastOut := some r.data }
      if r.outcome == .capped then
        ({ d with poisoned := true },
          s!"capped it={r.hist.length} hist={showRatList r.hist} raw={showRatList r.raw} out=[]")
      else
      ({ d with st := st' },
        s!"{showOutcome r.outcome} it={r.hist.length} hist={showRatList r.hist} raw={showRatList r.raw} out={showRatList r.data}")
    | _, _, _, _ => (d, "bad-run")
  | _ => (d, "bad-op")

def main : IO Unit := driverLoop step' {}
