import GemseoVerif.Model.C06
open GV GV.C06

/-
Line protocol for C06 (see harness/c06.py). The driver is stateful:
  sys <rows: coefs;coefs;...> <discs: i,i|i,...>                                 -> ok
  cfg <j|g|n> <res idx> <groups i,i|i> <warm idx> <tol> <maxit> <scal 0..5> <omega> <none|aitken|secant|adsq> <warm 0|1>
                                                                                  -> ok   (fresh MDA object)
  run <fuel> <consts> <start>   -> <converged|maxIter|nan|capped> it=<n> hist=<squared normed residuals> raw=<squared residual norms> out=<data>
`run` executes the current MDA object once more (scaling data and last outputs are kept).
-/

structure D where
  sys : Sys := ⟨[], []⟩
  cfg : Option Cfg := none
  st : MState := {}
  /-- a capped replay leaves no meaningful MDA state: later runs of the same object are not replayed -/
  poisoned : Bool := false

def parseGroups (s : String) : Option (List (List Nat)) :=
  if s = "[]" then some [] else (s.splitOn "|").mapM parseNatList?

def parseRows (s : String) : Option (List Vec) := (s.splitOn ";").mapM parseRatList?

def parseScaling : String → Option Scaling
  | "0" => some .noScaling | "1" => some .initialResidualNorm | "2" => some .initialSubresidualNorm
  | "3" => some .nCouplingVariables | "4" => some .initialResidualComponent
  | "5" => some .scaledInitialResidualComponent | _ => none

def parseAccel : String → Option Accel
  | "none" => some .none | "aitken" => some .aitken | "secant" => some .secant | "adsq" => some .adsq
  | _ => none

def parseAlgo : String → Option Algo
  | "j" => some .jacobi | "g" => some .gaussSeidel | "n" => some .newton | _ => none

def showOutcome : Outcome → String
  | .converged => "converged" | .maxIter => "maxIter" | .nan => "nan" | .capped => "capped"

def step' (d : D) (line : String) : D × String :=
  match tokens line with
  | ["sys", rows, discs] =>
    match parseRows rows, parseGroups discs with
    | some rows, some discs =>
      ({ d with sys := ⟨rows.map (fun c => ⟨0, c⟩), discs⟩, cfg := none, st := {} }, "ok")
    | _, _ => (d, "bad-sys")
  | ["cfg", algo, res, groups, widx, tol, maxit, scal, omega, acc, warm] =>
    match parseAlgo algo, parseNatList? res, parseGroups groups, parseNatList? widx, parseRat? tol,
          maxit.toNat?, parseScaling scal, parseRat? omega, parseAccel acc with
    | some algo, some res, some groups, some widx, some tol, some maxit, some scal, some omega, some acc =>
      let c : Cfg := { algo := algo, res := res, groups := groups, warmIdx := widx, tol := tol, maxIter := maxit,
                       scaling := scal, omega := omega, accel := acc, warmStart := warm == "1" }
      ({ d with cfg := some c, st := {}, poisoned := false }, "ok")
    | _, _, _, _, _, _, _, _, _ => (d, "bad-cfg")
  | ["run", fuel, consts, start] =>
    match d.cfg, fuel.toNat?, parseRatList? consts, parseRatList? start with
    | some c, some fuel, some consts, some start =>
      if d.poisoned then (d, "capped it=0 hist=[] raw=[] out=[]") else
      let sys : Sys := ⟨List.zipWith (fun (r : Row) k => { r with const := k }) d.sys.rows consts, d.sys.discs⟩
      let r := execute sys c fuel d.st start
      let st' : MState := { sd := r.sd, lastOut := some r.data }
      if r.outcome == .capped then
        ({ d with poisoned := true },
          s!"capped it={r.hist.length} hist={showRatList r.hist} raw={showRatList r.raw} out=[]")
      else
      ({ d with st := st' },
        s!"{showOutcome r.outcome} it={r.hist.length} hist={showRatList r.hist} raw={showRatList r.raw} out={showRatList r.data}")
    | _, _, _, _ => (d, "bad-run")
  | _ => (d, "bad-op")

def main : IO Unit := driverLoop step' {}
