import GemseoVerif.Model.C06
open GV GV.C06

/-
Line protocol for C06 (see harness/c06.py). The driver is stateful:
  sys <rows: coefs;coefs;...> <discs: i,i|i,...>                                 -> ok
  cfg <j|g|n> <res idx> <groups i,i|i> <warm idx> <tol> <maxit> <scal 0..5> <omega> <none|aitken|secant|adsq> <warm 0|1>
                                                                                  -> ok   (fresh MDA object)
  run <fuel> <consts> <start>   -> <converged|maxIter|nan|capped> it=<n> hist=<squared normed residuals> raw=<squared residual norms> out=<data> ref=<c:min|cᵢ| / g:min‖r₀ⁱ‖² / ->
`run` executes the current MDA object once more (scaling data and last outputs are kept).
  io <nvars> <vars: comps i,i|i,..> <reads: v,v|v,..> <writes: v,v|v,..>
        -> sc=<strong coupling variables> res=<their components> groups=<positions>   (remembered: `auto` in cfg / grp)
  inner <chain k=v,..> <given k=v,..|[]>   -> tolerance=<r|none> max_mda_iter=<r|none> warm_start=<r|none>
  grp <discs i,i|i> <self 0|1> <ismda 0|1> <j|g|n> <res|auto> <groups|auto> <scal> <omega> <accel> <chain k=v,..> <given k=v,..|[]>
        -> ok mda=<0|1> tol=<r> maxit=<n> warm=<0|1>       (appends a component to the chain; `sys` clears them)
  chain <fuel> <consts> <start>  -> out=<data> then, per inner MDA, ` ; <outcome> it=<n> hist=<..> raw=<..>`
  stage <j|g|n> <res|auto> <groups|auto> <warm idx|auto> <tol> <maxit> <scal> <omega> <accel> <warm 0|1>
        -> ok      (appends a sub-MDA object, with ITS settings, to the sequence; `sys` clears it)
  seq <tolerance of the sequence> <fuel> <consts> <start>
        -> out=<data> then, per EXECUTED sub-MDA, ` ; <outcome> it=<n> hist=<..> raw=<..>`   (first execution)
Sessions of several MDA objects (settings only, `GV.C06.World`); every answer is the whole world
`<id>:<tolerance>,<max_mda_iter>[<sub tolerance>,<sub max_mda_iter>|...] ...` (`empty` when nothing is built):
  sreset | sshow
  snew <id> <c|g|s|e> <own k=v,..> <given k=v,..|[];...|none>   (one `given` per inner MDA / stage; `none`: no sub-MDA)
  sset <id> <field> <value>            mda.settings.<field> = value
  ssub <id> <j> <field> <value>        mda.<inner_mdas|mda_sequence>[j].settings.<field> = value
-/

structure D where
  sys : Sys := ⟨[], []⟩
  cfg : Option Cfg := none
  st : MState := {}
  /-- a capped replay leaves no meaningful MDA state: later runs of the same object are not replayed -/
  poisoned : Bool := false
  /-- resolved components / positions computed by the last `io` line -/
  auto : List Nat × List (List Nat) := ([], [])
  chainGroups : List Group := []
  stages : List (Cfg × MState) := []
  world : World := fun _ => none
  ids : List Nat := []

def parseGroups (s : String) : Option (List (List Nat)) :=
  if s = "[]" then some [] else (s.splitOn "|").mapM parseNatList?

def parseRows (s : String) : Option (List Vec) := (s.splitOn ";").mapM parseRatList?

def parseScaling : String → Option Scaling
  | "0" => some .noScaling | "1" => some .initialResidualNorm | "2" => some .initialSubresidualNorm
  | "3" => some .nCouplingVariables | "4" => some .initialResidualComponent
  | "5" => some .scaledInitialResidualComponent | _ => none

def parseAccel : String → Option Accel
  | "none" => some .none | "aitken" => some .aitken | "secant" => some .secant | "adsq" => some .adsq
  | _ => none

def parseAlgo : String → Option Algo
  | "j" => some .jacobi | "g" => some .gaussSeidel | "n" => some .newton | _ => none

def parseSettings (s : String) : Option Settings :=
  if s = "[]" then some [] else
  (s.splitOn ",").mapM (fun kv => match kv.splitOn "=" with
    | [k, v] => (parseRat? v).map (fun r => (k, r))
    | _ => none)

def showGroups (g : List (List Nat)) : String :=
  if g.isEmpty then "[]" else "|".intercalate (g.map showNatList)

def showOpt : Option Rat → String
  | some r => showRat r | none => "none"

def showOutcome : Outcome → String
  | .converged => "converged" | .maxIter => "maxIter" | .nan => "nan" | .capped => "capped"

def rabs (t : Rat) : Rat := if t < 0 then -t else t

def minAbs : List Rat → Rat
  | [] => 1
  | [t] => rabs t
  | t :: ts => if rabs t ≤ minAbs ts then rabs t else minAbs ts

/-- The smallest reference of a component-wise / variable-wise scaling (`c:` min |cᵢ|, `g:` min ‖r₀ⁱ‖²): the harness
    sizes the float noise of a normed residual with it (information only, no verdict depends on its exact value). -/
def showRef : Option ScalData → String
  | some (.comps c) => s!"c:{showRat (minAbs c)}"
  | some (.groups g) => s!"g:{showRat (minAbs g)}"
  | _ => "-"

def parseKind : String → Option Kind
  | "c" => some .chain | "g" => some .gsNewton | "s" => some .sequential | "e" => some .elementary | _ => none

def parseGiven (s : String) : Option (List Settings) :=
  if s = "none" then some [] else (s.splitOn ";").mapM parseSettings

def showSettingsPair (s : Settings) : String :=
  s!"{showOpt (s.get? "tolerance")},{showOpt (s.get? "max_mda_iter")}"

def showWorld (w : World) (ids : List Nat) : String :=
  if ids.isEmpty then "empty" else
  " ".intercalate (ids.filterMap (fun i => (w i).map (fun o =>
    s!"{i}:{showSettingsPair o.own}[{"|".intercalate (o.subs.map showSettingsPair)}]")))

def applyOp (d : D) (op : WOp) : D × String :=
  let w := wstep d.world op
  let ids := if d.ids.contains op.target then d.ids else d.ids ++ [op.target]
  ({ d with world := w, ids := ids }, showWorld w ids)

def step' (d : D) (line : String) : D × String :=
  match tokens line with
  | ["sreset"] => ({ d with world := fun _ => none, ids := [] }, "empty")
  | ["sshow"] => (d, showWorld d.world d.ids)
  | ["snew", id, kind, own, given] =>
    match id.toNat?, parseKind kind, parseSettings own, parseGiven given with
    | some id, some kind, some own, some given => applyOp d (.create id kind own given)
    | _, _, _, _ => (d, "bad-snew")
  | ["sset", id, field, v] =>
    match id.toNat?, parseRat? v with
    | some id, some v => applyOp d (.assign id field v)
    | _, _ => (d, "bad-sset")
  | ["ssub", id, j, field, v] =>
    match id.toNat?, j.toNat?, parseRat? v with
    | some id, some j, some v => applyOp d (.assignSub id j field v)
    | _, _, _ => (d, "bad-ssub")
  | ["stage", algo, res, groups, widx, tol, maxit, scal, omega, acc, warm] =>
    let res? := if res = "auto" then some d.auto.1 else parseNatList? res
    let groups? := if groups = "auto" then some d.auto.2 else parseGroups groups
    let widx? := if widx = "auto" then some d.auto.1 else parseNatList? widx
    match parseAlgo algo, res?, groups?, widx?, parseRat? tol,
          maxit.toNat?, parseScaling scal, parseRat? omega, parseAccel acc with
    | some algo, some res, some groups, some widx, some tol, some maxit, some scal, some omega, some acc =>
      let c : Cfg := { algo := algo, res := res, groups := groups, warmIdx := widx, tol := tol, maxIter := maxit,
                       scaling := scal, omega := omega, accel := acc, warmStart := warm == "1" }
      ({ d with stages := d.stages ++ [(c, {})] }, "ok")
    | _, _, _, _, _, _, _, _, _ => (d, "bad-stage")
  | ["seq", otol, fuel, consts, start] =>
    match parseRat? otol, fuel.toNat?, parseRatList? consts, parseRatList? start with
    | some otol, some fuel, some consts, some start =>
      let sys : Sys := ⟨List.zipWith (fun (r : Row) k => { r with const := k }) d.sys.rows consts, d.sys.discs⟩
      let (out, runs) := seqExecute sys otol fuel d.stages start []
      let segs := runs.map (fun r =>
        s!" ; {showOutcome r.outcome} it={r.hist.length} hist={showRatList r.hist} raw={showRatList r.raw} ref={showRef r.sd}")
      (d, s!"out={showRatList out}{String.join segs}")
    | _, _, _, _ => (d, "bad-seq")
  | ["sys", rows, discs] =>
    match parseRows rows, parseGroups discs with
    | some rows, some discs =>
      ({ d with sys := ⟨rows.map (fun c => ⟨0, c⟩), discs⟩, cfg := none, st := {}, chainGroups := [], stages := [] }, "ok")
    | _, _ => (d, "bad-sys")
  | ["io", nvars, vars, reads, writes] =>
    match nvars.toNat?, parseGroups vars, parseGroups reads, parseGroups writes with
    | some nvars, some vars, some reads, some writes =>
      let sc := strongCouplingVars nvars reads writes
      let res := componentsOf vars sc
      let pos := positionsOf vars 0 sc
      ({ d with auto := (res, pos) }, s!"sc={showNatList sc} res={showNatList res} groups={showGroups pos}")
    | _, _, _, _ => (d, "bad-io")
  | ["inner", chain, given] =>
    match parseSettings chain, parseSettings given with
    | some chain, some given =>
      let r := innerSettings chain given
      (d, s!"tolerance={showOpt (r.get? "tolerance")} max_mda_iter={showOpt (r.get? "max_mda_iter")} warm_start={showOpt (r.get? "warm_start")}")
    | _, _ => (d, "bad-inner")
  | ["grp", discs, self, ismda, algo, res, groups, scal, omega, acc, chain, given] =>
    let res? := if res = "auto" then some d.auto.1 else parseNatList? res
    let groups? := if groups = "auto" then some d.auto.2 else parseGroups groups
    match parseGroups discs, parseAlgo algo, res?, groups?, parseScaling scal, parseRat? omega, parseAccel acc,
          parseSettings chain, parseSettings given with
    | some discs, some algo, some res, some groups, some scal, some omega, some acc, some chain, some given =>
      let r := innerSettings chain given
      match r.get? "tolerance", r.get? "max_mda_iter", r.get? "warm_start" with
      | some tol, some maxit, some warm =>
        let c : Cfg := { algo := algo, res := res, groups := groups, warmIdx := res, tol := tol,
                         maxIter := maxit.floor.toNat, scaling := scal, omega := omega, accel := acc,
                         warmStart := warm != 0 }
        let g : Group := { discs := discs, selfCoupled := self == "1", isMda := ismda == "1", cfg := c }
        ({ d with chainGroups := d.chainGroups ++ [g] },
          s!"ok mda={if requiresMda g then 1 else 0} tol={showRat tol} maxit={maxit.floor.toNat} warm={if warm != 0 then 1 else 0}")
      | _, _, _ => (d, "bad-grp-settings")
    | _, _, _, _, _, _, _, _, _ => (d, "bad-grp")
  | ["chain", fuel, consts, start] =>
    match fuel.toNat?, parseRatList? consts, parseRatList? start with
    | some fuel, some consts, some start =>
      let sys : Sys := ⟨List.zipWith (fun (r : Row) k => { r with const := k }) d.sys.rows consts, d.sys.discs⟩
      let (out, runs) := chainExecute sys d.chainGroups fuel start
      let segs := runs.map (fun r =>
        s!" ; {showOutcome r.outcome} it={r.hist.length} hist={showRatList r.hist} raw={showRatList r.raw} ref={showRef r.sd}")
      (d, s!"out={showRatList out}{String.join segs}")
    | _, _, _ => (d, "bad-chain")
  | ["cfg", algo, res, groups, widx, tol, maxit, scal, omega, acc, warm] =>
    let res? := if res = "auto" then some d.auto.1 else parseNatList? res
    let groups? := if groups = "auto" then some d.auto.2 else parseGroups groups
    let widx? := if widx = "auto" then some d.auto.1 else parseNatList? widx
    match parseAlgo algo, res?, groups?, widx?, parseRat? tol,
          maxit.toNat?, parseScaling scal, parseRat? omega, parseAccel acc with
    | some algo, some res, some groups, some widx, some tol, some maxit, some scal, some omega, some acc =>
      let c : Cfg := { algo := algo, res := res, groups := groups, warmIdx := widx, tol := tol, maxIter := maxit,
                       scaling := scal, omega := omega, accel := acc, warmStart := warm == "1" }
      ({ d with cfg := some c, st := {}, poisoned := false }, "ok")
    | _, _, _, _, _, _, _, _, _ => (d, "bad-cfg")
  | ["run", fuel, consts, start] =>
    match d.cfg, fuel.toNat?, parseRatList? consts, parseRatList? start with
    | some c, some fuel, some consts, some start =>
      if d.poisoned then (d, "capped it=0 hist=[] raw=[] out=[] ref=-") else
      let sys : Sys := ⟨List.zipWith (fun (r : Row) k => { r with const := k }) d.sys.rows consts, d.sys.discs⟩
      let r := execute sys c fuel d.st start
      let st' : MState := { sd := r.sd, lastOut := some r.data }
      if r.outcome == .capped then
        ({ d with poisoned := true },
          s!"capped it={r.hist.length} hist={showRatList r.hist} raw={showRatList r.raw} out=[] ref=-")
      else
      ({ d with st := st' },
        s!"{showOutcome r.outcome} it={r.hist.length} hist={showRatList r.hist} raw={showRatList r.raw} out={showRatList r.data} ref={showRef r.sd}")
    | _, _, _, _ => (d, "bad-run")
  | _ => (d, "bad-op")

def main : IO Unit := driverLoop step' {}
