import GemseoVerif.Model.C15
open GV GV.C15

/-
Line protocol (one operation per line, the world has 4 grammar slots 0..3; `-` = empty list):
  reset
  new <s> <S|J>
  upd <dst> <src> <excluded> <0|1>
  names <s> <names> <0|1>
  types <s> <n=pytype,..> <0|1>        pytype: any nd list tuple str int float complex bool dict none
  data <s> <n=value,..> <0|1>          value: z b i f s d c | nd:<leaves> | l:<leaves> | t:<leaves>   leaves: z b i f s d D L   (D: a dict with nested values)
  schema <s> <n=jtype,..> <required|-> <0|1>   jtype: * or `+`-joined Z B I N S O A A[<`/`-joined Z B I N S O A>]
  restrict <s> <names> | rename <s> <cur> <new> | del <s> <n> | addns <s> <n> <ns> | clear <s>
  copy <src> <dst> | pickle <src> <dst>
  setdef <s> <n> <tok> | deldef <s> <n> | defaults <s> <n=tok,..> | reqadd <s> <n> | reqdisc <s> <n>
  defupd <s> <n=tok,..> | defupdfrom <dst> <src> | defassignfrom <dst> <src> | defclear <s> | defsnap <s> <k> | defrestore <s> <k> <u|a>
  reqremove <s> <n> | reqclear <s> | requpd <s> <names> | reqsub <s> <names> | reqand <s> <names> | reqassign <s> <names>
  val <s> <n=value,..> | qschema <s> | qjson <s> | qsimple <s> | qmisc <s> <names>
answer: <status>|<slot0>|<slot1>|<slot2>|<slot3>
  slot: `_` or <S|J>{n=type,..}r{sorted required}d{sorted defaults}t{to_namespaced}f{from_namespaced}
-/

def parseList (s : String) : List String := if s = "-" then [] else s.splitOn ","

def parseKV (s : String) : Option (String × String) :=
  match s.splitOn "=" with
  | [k, v] => some (k, v)
  | _ => none

def parseKVs (s : String) : Option (List (String × String)) :=
  if s = "-" then some [] else (s.splitOn ",").mapM parseKV

def parsePyT : String → Option PyT
  | "any" => some .any | "nd" => some .ndarray | "list" => some .list | "tuple" => some .tuple
  | "str" => some .str | "int" => some .int | "float" => some .float | "complex" => some .complex
  | "bool" => some .bool | "dict" => some .mapping | "none" => some .nonetype
  | _ => none

def showPyT : PyT → String
  | .any => "any" | .ndarray => "nd" | .list => "list" | .tuple => "tuple" | .str => "str"
  | .int => "int" | .float => "float" | .complex => "complex" | .bool => "bool"
  | .mapping => "dict" | .nonetype => "none"

def parseLeaf : Char → Option Leaf
  | 'z' => some .null | 'b' => some .bool | 'i' => some .int | 'f' => some .flt
  | 's' => some .str | 'd' => some .map | 'D' => some .map | 'L' => some .arr
  | _ => none

def parseVal (s : String) : Option Val :=
  match s.splitOn ":" with
  | [one] =>
    if one = "c" then some .cpx
    else match one.toList with
      | [ch] => (parseLeaf ch).map .leaf
      | _ => none
  | [k, items] =>
    match items.toList.mapM parseLeaf with
    | none => none
    | some ls =>
      if k = "nd" then some (.nd ls) else if k = "l" then some (.list ls)
      else if k = "t" then some (.tuple ls) else none
  | _ => none

def flatAdd (f : Flat) : String → Option Flat
  | "Z" => some { f with null := true } | "B" => some { f with bool := true }
  | "S" => some { f with str := true } | "O" => some { f with obj := true }
  | "A" => some { f with arr := true }
  | "I" => some { f with num := f.num.merge .int } | "N" => some { f with num := .num }
  | _ => none

def parseFlat (s : String) : Option Flat :=
  if s = "*" then some Flat.any
  else (s.splitOn "/").foldlM flatAdd Flat.any

def nodeAdd (n : Node) (t : String) : Option Node :=
  match t with
  | "Z" => some { n with null := true } | "B" => some { n with bool := true }
  | "S" => some { n with str := true } | "O" => some { n with obj := true }
  | "I" => some { n with num := n.num.merge .int } | "N" => some { n with num := .num }
  | "A" => some { n with arr := n.arr.merge .untyped }
  | _ =>
    if t.startsWith "A[" && t.endsWith "]" then
      match parseFlat ((t.drop 2).dropEnd 1).toString with
      | some f => some { n with arr := n.arr.merge (ArrK.items f).norm }
      | none => none
    else none

def parseNode (s : String) : Option Node :=
  if s = "*" then some Node.any else (s.splitOn "+").foldlM nodeAdd Node.any

def showFlat (f : Flat) : String :=
  if f.isAny then "*" else
  "/".intercalate (
    (if f.null then ["Z"] else []) ++ (if f.bool then ["B"] else []) ++
    (match f.num with | .no => [] | .int => ["I"] | .num => ["N"]) ++
    (if f.str then ["S"] else []) ++ (if f.obj then ["O"] else []) ++ (if f.arr then ["A"] else []))

def showNode (n : Node) : String :=
  if n.isAny then "*" else
  "+".intercalate (
    (if n.null then ["Z"] else []) ++ (if n.bool then ["B"] else []) ++
    (match n.num with | .no => [] | .int => ["I"] | .num => ["N"]) ++
    (if n.str then ["S"] else []) ++ (if n.obj then ["O"] else []) ++
    (match n.arr.norm with | .no => [] | .untyped => ["A"] | .items f => ["A[" ++ showFlat f ++ "]"]))

def showTS : TS → String
  | .py t => showPyT t
  | .js n => showNode n

def showElems (l : List (Name × TS)) : String :=
  ",".intercalate (l.map (fun p => p.1 ++ "=" ++ showTS p.2))

def sortedBy {α : Type} (l : List (Name × α)) : List (Name × α) :=
  (sortNames (akeys l)).filterMap (fun k => (alookup l k).map (fun v => (k, v)))

def showNsV : NsV → String
  | .one s => s
  | .many l => "[" ++ "|".intercalate l ++ "]"

def showGrammar (g : Grammar) : String :=
  (if g.kind = .simple then "S" else "J") ++ "{" ++ showElems g.elems ++ "}r{" ++
  ",".intercalate (sortNames g.required) ++ "}d{" ++
  ",".intercalate ((sortedBy g.defaults).map (fun p => p.1 ++ "=" ++ p.2)) ++ "}t{" ++
  ",".intercalate ((sortedBy g.toNs).map (fun p => p.1 ++ "=" ++ showNsV p.2)) ++ "}f{" ++
  ",".intercalate ((sortedBy g.fromNs).map (fun p => p.1 ++ "=" ++ showNsV p.2)) ++ "}"

def showWorld (w : World) : String :=
  "|".intercalate (w.map (fun s => match s with | none => "_" | some g => showGrammar g))

def showOut : Out → String
  | .ok => "ok"
  | .err e => e.show
  | .badSlot => "bad-slot"
  | .verdict b => if b then "v=1" else "v=0"
  | .snap s => "snap{" ++ showElems s.props ++ "}r{" ++ ",".intercalate s.req ++ "}"
  | .simple g => "simple" ++ showGrammar g
  | .misc h l n => "misc=" ++ (if h then "1" else "0") ++ ";" ++ ",".intercalate l ++ ";" ++ toString n

def parseBool : String → Option Bool
  | "0" => some false | "1" => some true | _ => none

def parseKind : String → Option Kind
  | "S" => some .simple | "J" => some .json | _ => none

def parseOp (toks : List String) : Option Op :=
  match toks with
  | ["new", s, k] => do some (.new (← s.toNat?) (← parseKind k))
  | ["upd", d, s, ex, m] => do some (.upd (← d.toNat?) (← s.toNat?) (parseList ex) (← parseBool m))
  | ["names", s, l, m] => do some (.names (← s.toNat?) (parseList l) (← parseBool m))
  | ["types", s, l, m] => do
    let kvs ← parseKVs l
    let l' ← kvs.mapM (fun p => (parsePyT p.2).map (fun t => (p.1, t)))
    some (.types (← s.toNat?) l' (← parseBool m))
  | ["data", s, l, m] => do
    let kvs ← parseKVs l
    let l' ← kvs.mapM (fun p => (parseVal p.2).map (fun t => (p.1, t)))
    some (.data (← s.toNat?) l' (← parseBool m))
  | ["schema", s, l, r, m] => do
    let kvs ← parseKVs l
    let l' ← kvs.mapM (fun p => (parseNode p.2).map (fun t => (p.1, t)))
    some (.schema (← s.toNat?) l' (if r = "-" then none else some (r.splitOn ",")) (← parseBool m))
  | ["restrict", s, l] => do some (.restrict (← s.toNat?) (parseList l))
  | ["rename", s, c, n] => do some (.rename (← s.toNat?) c n)
  | ["del", s, n] => do some (.del (← s.toNat?) n)
  | ["addns", s, n, ns] => do some (.addns (← s.toNat?) n ns)
  | ["clear", s] => do some (.clear (← s.toNat?))
  | ["copy", s, d] => do some (.copy (← s.toNat?) (← d.toNat?))
  | ["pickle", s, d] => do some (.pickle (← s.toNat?) (← d.toNat?))
  -- `copy.deepcopy` goes through `__getstate__`/`__setstate__` like pickling
  | ["dcopy", s, d] => do some (.pickle (← s.toNat?) (← d.toNat?))
  | ["setdef", s, n, v] => do some (.setdef (← s.toNat?) n v)
  | ["deldef", s, n] => do some (.deldef (← s.toNat?) n)
  | ["defaults", s, l] => do some (.defaults (← s.toNat?) (← parseKVs l))
  | ["reqadd", s, n] => do some (.reqadd (← s.toNat?) n)
  | ["reqdisc", s, n] => do some (.reqdisc (← s.toNat?) n)
  | ["defupd", s, l] => do some (.defupd (← s.toNat?) (← parseKVs l))
  | ["defupdfrom", d, s] => do some (.defupdfrom (← d.toNat?) (← s.toNat?))
  | ["defassignfrom", d, s] => do some (.defassignfrom (← d.toNat?) (← s.toNat?))
  | ["defclear", s] => do some (.defclear (← s.toNat?))
  | ["reqremove", s, n] => do some (.reqremove (← s.toNat?) n)
  | ["reqclear", s] => do some (.reqclear (← s.toNat?))
  | ["requpd", s, l] => do some (.requpd (← s.toNat?) (parseList l))
  | ["reqsub", s, l] => do some (.reqsub (← s.toNat?) (parseList l))
  | ["reqand", s, l] => do some (.reqand (← s.toNat?) (parseList l))
  | ["reqassign", s, l] => do some (.reqassign (← s.toNat?) (parseList l))
  | ["val", s, l] => do
    let kvs ← parseKVs l
    let l' ← kvs.mapM (fun p => (parseVal p.2).map (fun t => (p.1, t)))
    some (.val (← s.toNat?) l')
  | ["qschema", s] => do some (.qschema (← s.toNat?))
  | ["qjson", s] => do some (.qjson (← s.toNat?))
  | ["qsimple", s] => do some (.qsimple (← s.toNat?))
  | ["qmisc", s, l] => do some (.qmisc (← s.toNat?) (parseList l))
  | _ => none

def emptyWorld : World := [none, none, none, none]

/-- Driver state: the world and two registers holding snapshots `g.defaults.copy()` (a copy of the
    dict). `defsnap <s> <k>` fills register k; `defrestore <s> <k> u|a` is `g.defaults.update(snapshot)` /
    `g.defaults = snapshot`, i.e. the model operations `defupd` / `defaults` with the snapshot's items. -/
structure DState where
  w : World
  snaps : List (Option (List (Name × String)))

def DState.init : DState := ⟨emptyWorld, [none, none]⟩

def answer (st : DState) (line : String) : DState × String :=
  match tokens line with
  | ["reset"] => (DState.init, "ok|" ++ showWorld emptyWorld)
  | ["defsnap", s, k] =>
    (match s.toNat?, k.toNat? with
     | some s, some k =>
       (match st.w.get s with
        | some g => ({ st with snaps := st.snaps.set k (some g.defaults) }, "ok|" ++ showWorld st.w)
        | none => (st, "bad-slot|" ++ showWorld st.w))
     | _, _ => (st, "bad-op"))
  | ["defrestore", s, k, mode] =>
    (match s.toNat?, k.toNat? with
     | some s, some k =>
       (match (st.snaps[k]?).join with
        | some l =>
          let op := if mode = "u" then Op.defupd s l else Op.defaults s l
          let (w', out) := step st.w op
          ({ st with w := w' }, showOut out ++ "|" ++ showWorld w')
        | none => (st, "bad-slot|" ++ showWorld st.w))
     | _, _ => (st, "bad-op"))
  | toks =>
    match parseOp toks with
    | none => (st, "bad-op")
    | some op =>
      let (w', out) := step st.w op
      ({ st with w := w' }, showOut out ++ "|" ++ showWorld w')

def main : IO Unit := driverLoop answer DState.init
