import GemseoVerif.Model.C01
open GV GV.C02 GV.C01

/-
Line protocol for C01 (see harness/c01.py):
  ds <varspec> <varspec> ...        design space (resets everything)
  cfg <normalized> <useDb> <storeJac> <roundInts>   (bits; resets the database and the call log)
  fn <name> <c:a:q>|<c:a:q>...      polynomial function rows c + a.x + q.x^2 (a, q comma lists)
  val <name> <x>   /  jac <name> <x>     a request; answer: out=<..> db=<..> calls=<..>
-/

structure D where
  ds : DS := DS.empty
  cfg : Cfg := ⟨false, true, true, true⟩
  fns : List Fn := []
  st : St := St.init

def parseRow? (s : String) : Option Row :=
  match s.splitOn ":" with
  | [c, a, q] => do
    let c ← parseRat? c
    let a ← parseRatList? a
    let q ← parseRatList? q
    some ⟨c, a, q⟩
  | _ => none

def showMat (m : Mat) : String := if m.isEmpty then "[]" else "|".intercalate (m.map showRatList)

def showDb (db : List Entry) : String :=
  if db.isEmpty then "[]" else
  ";".intercalate (db.map (fun e => showRatList e.key ++ ">" ++
    (if e.outs.isEmpty then "[]" else "&".intercalate (e.outs.map (fun p =>
      (match p.1.2 with | .value => "" | .jacobian => "@") ++ p.1.1 ++ "=" ++ showMat p.2)))))

def showCalls (cs : List Call) : String :=
  if cs.isEmpty then "[]" else
  ";".intercalate (cs.map (fun c => c.name ++ ":" ++ (match c.kind with | .value => "v" | .jacobian => "j") ++ ":" ++ showRatList c.point))

def step (d : D) (line : String) : D × String :=
  match tokens line with
  | "ds" :: vss =>
    match vss.mapM parseVar? with
    | some vs => ({ ds := { vars := vs }, cfg := d.cfg }, "ok")
    | none => (d, "bad-op")
  | ["cfg", a, b, c, e] =>
    ({ d with cfg := ⟨a == "1", b == "1", c == "1", e == "1"⟩, st := St.init }, "ok")
  | ["fn", n, rows] =>
    match (rows.splitOn "|").mapM parseRow? with
    | some rs => ({ d with fns := d.fns.filter (fun f => !(f.name == n)) ++ [⟨n, rs⟩] }, "ok")
    | none => (d, "bad-op")
  | ["val", n, x] =>
    match parseRatList? x with
    | some x =>
      let (st', v) := evalValue d.ds d.cfg (fnVal d.fns) d.st n x
      ({ d with st := st' }, s!"out={showRatList v} db={showDb st'.db} calls={showCalls st'.calls}")
    | none => (d, "bad-op")
  | ["jac", n, x] =>
    match parseRatList? x with
    | some x =>
      let (st', j) := evalJac d.ds d.cfg (fnJac d.fns) d.st n x
      ({ d with st := st' }, s!"out={showMat j} db={showDb st'.db} calls={showCalls st'.calls}")
    | none => (d, "bad-op")
  | ["linnorm", n] =>
    match d.fns.find? (·.name == n) with
    | some f =>
      let rs := f.rows.map (linNormalize d.ds)
      (d, "|".intercalate (rs.map (fun r => showRat r.c ++ ":" ++ showRatList r.a)))
    | none => (d, "bad-op")
  | _ => (d, "bad-op")

def main : IO Unit := driverLoop step {}
