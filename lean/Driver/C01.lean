import GemseoVerif.Model.C01
open GV GV.C02 GV.C01

/-
Line protocol for C01 (see harness/c01.py):
  ds <varspec> <varspec> ...        design space (resets everything; no varspec: the empty space)
  dsop <edit>                       one public edit of the design space (C02 protocol: add, remove,
                                    filter, filterdim, rename, extend, setlb, setub, setarr, setdict,
                                    setvar, initmissing, intnorm), `DS.apply`; answers ok / E
  cfg <normalized> <useDb> <storeJac> <roundInts> [<supportSparse>]   (bits; resets the database and the call log)
  fn <name> <c:a:q>|<c:a:q>... [dense|csr|csc|coo [obj|cstr|obs]]   polynomial function rows c + a.x + q.x^2,
                                    the container of its Jacobian and the role it is attached in
  val <name> <x> [nio]  /  jac <name> <x> [nio]   a request through the accessor of the role of the function
                                    (`nio`: through the new-iteration list, x in physical coordinates),
                                    evaluated with `roleCfg`; answer: out=<..> db=<..> calls=<..>
-/

def tol : Rat := 25 / 1125899906842624   -- 100 * 2^-52 (bound tolerance of add_variable / set_current_value)

structure D where
  ds : DS := DS.empty
  cfg : Cfg := ⟨false, true, true, true⟩
  ssj : Bool := false
  fns : List Fn := []
  fmts : List (String × Option SpFmt) := []
  roles : List (String × Role) := []
  st : St := St.init

def parseDict? (toks : List String) : Option (List (String × List Rat)) :=
  toks.mapM (fun t => match t.splitOn "=" with
    | [k, v] => (parseRatList? v).map (fun l => (k, l))
    | _ => none)

/-- One edit line of the C02 protocol as an `Op`. -/
def parseOp? (toks : List String) : Option Op :=
  match toks with
  | ["add", vs] => (parseVar? vs).map Op.add
  | ["remove", n] => some (.remove n)
  | ["filter", ns] => some (.filter (parseStrList ns))
  | ["filterdim", n, dims] => (parseNatList? dims).map (Op.filterDim n)
  | ["rename", o, n] => some (.rename o n)
  | "extend" :: vss => (vss.mapM parseVar?).map Op.extend
  | ["setlb", n, b] => (parseOList? b).map (Op.setLb n)
  | ["setub", n, b] => (parseOList? b).map (Op.setUb n)
  | ["setarr", x] => (parseRatList? x).map Op.setArr
  | "setdict" :: kvs => (parseDict? kvs).map Op.setDict
  | ["setvar", n, x] => (parseRatList? x).map (Op.setVar n)
  | ["initmissing"] => some .initMissing
  | ["intnorm", b] => some (.intNorm (b == "1"))
  | _ => none

def parseFmt (s : String) : Option SpFmt :=
  if s == "csr" then some .csr else if s == "csc" then some .csc else if s == "coo" then some .coo else none

def parseRole (s : String) : Role :=
  if s == "cstr" then .constraint else if s == "obs" then .observable
  else if s == "nio" then .newIterObservable else .objective

/-- The switches the function `n` was preprocessed with: those of its role (`roleCfg`); a request
    flagged `nio` goes through the copy of the observable held by the new-iteration list. -/
def cfgFor (d : D) (n : String) (via : Option String) : Cfg :=
  match via with
  | some "nio" => roleCfg d.cfg .newIterObservable
  | _ => roleCfg d.cfg (((d.roles.find? (·.1 == n)).map (·.2)).getD .objective)

def parseRow? (s : String) : Option Row :=
  match s.splitOn ":" with
  | [c, a, q] => do
    let c ← parseRat? c
    let a ← parseRatList? a
    let q ← parseRatList? q
    some ⟨c, a, q⟩
  | _ => none

def showMat (m : Mat) : String := if m.isEmpty then "[]" else "|".intercalate (m.map showRatList)

def showDb (db : List Entry) : String :=
  if db.isEmpty then "[]" else
  ";".intercalate (db.map (fun e => showRatList e.key ++ ">" ++
    (if e.outs.isEmpty then "[]" else "&".intercalate (e.outs.map (fun p =>
      (match p.1.2 with | .value => "" | .jacobian => "@") ++ p.1.1 ++ "=" ++ showMat p.2)))))

def showCalls (cs : List Call) : String :=
  if cs.isEmpty then "[]" else
  ";".intercalate (cs.map (fun c => c.name ++ ":" ++ (match c.kind with | .value => "v" | .jacobian => "j") ++ ":" ++ showRatList c.point))

def step (d : D) (line : String) : D × String :=
  match tokens line with
  | "ds" :: vss =>
    match vss.mapM parseVar? with
    | some vs => ({ ds := { vars := vs }, cfg := d.cfg, ssj := d.ssj }, "ok")
    | none => (d, "bad-op")
  | "dsop" :: toks =>
    match parseOp? toks with
    | some op =>
      let ds' := d.ds.apply tol op
      ({ d with ds := ds', st := St.init }, if ds' == d.ds then "E" else "ok")
    | none => (d, "bad-op")
  | ["cfg", a, b, c, e] =>
    ({ d with cfg := ⟨a == "1", b == "1", c == "1", e == "1"⟩, ssj := false, st := St.init }, "ok")
  | ["cfg", a, b, c, e, s] =>
    ({ d with cfg := ⟨a == "1", b == "1", c == "1", e == "1"⟩, ssj := s == "1", st := St.init }, "ok")
  | ["fn", n, rows] =>
    match (rows.splitOn "|").mapM parseRow? with
    | some rs => ({ d with fns := d.fns.filter (fun f => !(f.name == n)) ++ [⟨n, rs⟩],
                           fmts := d.fmts.filter (fun f => !(f.1 == n)) ++ [(n, none)] }, "ok")
    | none => (d, "bad-op")
  | ["fn", n, rows, fmt] =>
    match (rows.splitOn "|").mapM parseRow? with
    | some rs => ({ d with fns := d.fns.filter (fun f => !(f.name == n)) ++ [⟨n, rs⟩],
                           fmts := d.fmts.filter (fun f => !(f.1 == n)) ++ [(n, parseFmt fmt)] }, "ok")
    | none => (d, "bad-op")
  | ["fn", n, rows, fmt, role] =>
    match (rows.splitOn "|").mapM parseRow? with
    | some rs => ({ d with fns := d.fns.filter (fun f => !(f.name == n)) ++ [⟨n, rs⟩],
                           fmts := d.fmts.filter (fun f => !(f.1 == n)) ++ [(n, parseFmt fmt)],
                           roles := d.roles.filter (fun f => !(f.1 == n)) ++ [(n, parseRole role)] }, "ok")
    | none => (d, "bad-op")
  | "val" :: n :: x :: via =>
    match parseRatList? x with
    | some x =>
      let (st', v) := evalValue d.ds (cfgFor d n via.head?) (fnVal d.fns) d.st n x
      ({ d with st := st' }, s!"out={showRatList v} db={showDb st'.db} calls={showCalls st'.calls}")
    | none => (d, "bad-op")
  | "jac" :: n :: x :: via =>
    match parseRatList? x with
    | some x =>
      let (st', j) := evalJacC d.ds (cfgFor d n via.head?) d.ssj (fnJacC d.fns d.fmts d.ds.dimension) d.st n x
      ({ d with st := st' }, s!"out={showMat j} db={showDb st'.db} calls={showCalls st'.calls}")
    | none => (d, "bad-op")
  | ["linnorm", n] =>
    match d.fns.find? (·.name == n) with
    | some f =>
      let rs := f.rows.map (linNormalize d.ds)
      (d, "|".intercalate (rs.map (fun r => showRat r.c ++ ":" ++ showRatList r.a)))
    | none => (d, "bad-op")
  | _ => (d, "bad-op")

def main : IO Unit := driverLoop step {}
