import GemseoVerif.Model.C07
open GV GV.C07

/-
Line protocol for C07 (see harness/c07.py).  Every line is self-contained:

  asm <0|1> F=<names> V=<names> S=<name:size,...> [B=<out>:<in>:<row;row;...> ...]
      assembled Jacobian (is_residual flag) as a matrix
      answer: `<row;row;...>`  (rows are comma lists, `[]` for an empty matrix)
  opv <0|1> F= V= S= X=<rats> [B=...]      one AssembledJacobianOperator matvec  -> comma list
  opr <0|1> F= V= S= X=<rats> [B=...]      one rmatvec                          -> comma list
  td <direct|adjoint|auto> F= V= Y=<couplings|[]|auto> R=<res:state,...|[]> S= [E=<name:exp,...>] [D=...] [B=...]
      (Y=auto: the minimal couplings of the request computed from D=, as `mc`;
       E=: the variables are rescaled by 2^exp, the model rescales the blocks B= itself: `scaledJac`)
      total derivatives; answer `f:x=<rows> f:x2=<rows> ...` (request order) or `E:singular`
  mc F= V= R=<res:state,...|[]> D=<name:in,in:out,out>|... minimal couplings of the request (sorted)
  sz V=<names> X=<name:length,...|[]> [B=...]
      `compute_sizes` of the variables V: B= the blocks the disciplines hold (discipline order),
      X= the lengths of the current input values; answer: comma list of sizes (`?` when undetermined)
-/

def parseSizes (s : String) : Option (List (String × Nat)) :=
  if s = "[]" then some [] else
  (s.splitOn ",").mapM (fun t => match t.splitOn ":" with
    | [n, k] => k.toNat?.map (fun k => (n, k))
    | _ => none)

def parseRows (s : String) : Option Mat :=
  if s = "[]" then some [] else (s.splitOn ";").mapM parseRatList?

def parseBlock (s : String) : Option ((String × String) × Mat) :=
  match s.splitOn ":" with
  | [o, i, rows] => (parseRows rows).map (fun m => ((o, i), m))
  | _ => none

def parseExps (s : String) : Option (List (String × Int)) :=
  if s = "[]" then some [] else
  (s.splitOn ",").mapM (fun t => match t.splitOn ":" with
    | [n, k] => (parseInt? k).map (fun k => (n, k))
    | _ => none)

def parsePairs (s : String) : Option (List (String × String)) :=
  if s = "[]" then some [] else
  (s.splitOn ",").mapM (fun t => match t.splitOn ":" with
    | [a, b] => some (a, b)
    | _ => none)

def field (toks : List String) (key : String) : Option String :=
  (toks.find? (fun t => t.startsWith (key ++ "="))).map (fun t => (t.drop (key.length + 1)).toString)

def blocksOf (toks : List String) : Option (List ((String × String) × Mat)) :=
  (toks.filter (fun t => t.startsWith "B=")).mapM (fun t => parseBlock (t.drop 2).toString)

def mkJac (bs : List ((String × String) × Mat)) : String → String → Option Mat :=
  fun f v => (bs.find? (fun p => p.1.1 == f && p.1.2 == v)).map (·.2)

def mkSz (ss : List (String × Nat)) : String → Nat :=
  fun n => match ss.find? (fun p => p.1 == n) with | some p => p.2 | none => 0

def showMat (m : Mat) : String :=
  if m.isEmpty then "[]" else ";".intercalate (m.map showRatList)

def parseMode : String → Option Mode
  | "direct" => some .direct
  | "adjoint" => some .adjoint
  | "auto" => some .auto
  | _ => none

def parseDisc (s : String) : Option Disc :=
  match s.splitOn ":" with
  | [n, i, o] => some ⟨n, parseStrList i, parseStrList o⟩
  | _ => none

def answer (line : String) : String :=
  let toks := tokens line
  match toks with
  | "mc" :: rest =>
    match field rest "F", field rest "V", (field rest "R").bind parsePairs, field rest "D" with
    | some f, some v, some r, some d =>
      match (d.splitOn "|").mapM parseDisc with
      | some ds => showStrList (minimalCouplings ds r (parseStrList v) (parseStrList f))
      | none => "bad-op"
    | _, _, _, _ => "bad-op"
  | "sz" :: rest =>
    match field rest "V", (field rest "X").bind parseSizes, blocksOf rest with
    | some v, some xs, some bs =>
      let values := xs.map (fun (n, k) => (n, List.replicate k (0 : Rat)))
      ",".intercalate ((parseStrList v).map (fun x =>
        match variableSize bs values x with
        | some k => toString k
        | none => "?"))
    | _, _, _ => "bad-op"
  | op :: a :: rest =>
    match field rest "F", field rest "V", (field rest "S").bind parseSizes, blocksOf rest with
    | some f, some v, some ss, some bs =>
      let fs := parseStrList f
      let vs := parseStrList v
      let jac0 := mkJac bs
      let jac := match (field rest "E").bind parseExps with
        | some es => scaledJac (weightOf es) jac0
        | none => jac0
      let sz := mkSz ss
      if op = "asm" then showMat (assemble jac sz (a == "1") fs vs)
      else if op = "opv" || op = "opr" then
        match (field rest "X").bind parseRatList? with
        | some x =>
          showRatList (if op = "opv" then opMatvec jac sz (a == "1") fs vs x
                       else opRmatvec jac sz (a == "1") fs vs x)
        | none => "bad-op"
      else if op = "td" then
        match parseMode a, field rest "Y", (field rest "R").bind parsePairs with
        | some mode, some y, some r =>
          let cpl :=
            if y = "auto" then
              match (field rest "D").bind (fun d => (d.splitOn "|").mapM parseDisc) with
              | some ds => minimalCouplings ds r vs fs
              | none => []
            else parseStrList y
          match totalDerivatives jac sz mode fs vs cpl r with
          | none => "E:singular"
          | some out =>
            " ".intercalate (out.flatMap (fun (fn, l) => l.map (fun (vn, m) => s!"{fn}:{vn}={showMat m}")))
        | _, _, _ => "bad-op"
      else "bad-op"
    | _, _, _, _ => "bad-op"
  | _ => "bad-op"

def main : IO Unit := driverLoop (fun (_ : Unit) l => ((), answer l)) ()
