import GemseoVerif.Model.C11
open GV GV.C11

/-
Line protocol (state is threaded through the lines of one run):
  new                                   -> ok                       (fresh database, no file)
  store <pt> <name>=<val> ...           -> state line
  reload                                -> state line   (new Database filled from the file)
  update                                -> state line   (update_from_hdf on the current database)
  export a|w                            -> state line   (or `E` when the model raises; the state is then frozen)
  ds <var>;<var>;...                    -> hdf=<ds|E> csv=<ds|E>    (design-space round trips)
  pbd <min> <lin> <method> <step> <ineq> <eq> obj=<func> c=<func>.. o=<func>.. [sol=<item>;<item>..]
                                        -> file=<raw groups> back=<the same tokens after to_hdf + from_hdf> | E
  jac <nrows> <ncols> <rats, row major> -> file=<data>|<indices>|<indptr>|<r>x<c> read=<rats, row major>
func : <name>:<f_type>:<expr>:<input names>:<dim>:<special_repr>:<output names>   (strings in hex, `-` = empty;
       name lists `+`-joined, `[]` = empty)
item : <field>~<N | s:<hex> | t:0|1 | i:<int> | f:<rat> | n:<shape>:<rats>>        (field name in hex)
raw group: {<dataset>=<b:<hex> scalar string | A:<hex+hex> string array | t: | i: | f: | n:>&..} sorted by dataset name
pt   : i:<rats> | f:<rats>              (dtype, values)
val  : s:<rat> | a:<d1xd2..|_>:<rats>   (python scalar | array with shape)
var  : <name>:<size>:<i|f>:<lb list, _ = inf>:<ub list>:<N | value list>
state line: in=<0|1: is the op inside the property's quantifier> db=<pt{n=v&..};..> file=<idx@pt[k&k|s,s|j:shape:data+..];..> read=<as db|E>
  (`-` for an empty collection; outputs sorted by name; file entries by index; arrays by sub-index)
-/

def parsePt (s : String) : Option Pt :=
  match s.splitOn ":" with
  | ["i", v] => (parseRatList? v).map (fun l => ⟨true, l⟩)
  | ["f", v] => (parseRatList? v).map (fun l => ⟨false, l⟩)
  | _ => none

def parseShape (s : String) : Option (List Nat) :=
  if s = "_" then some [] else (s.splitOn "x").mapM (fun t => t.toNat?)

def parseVal (s : String) : Option Val :=
  match s.splitOn ":" with
  | ["s", r] => (parseRat? r).map .scalar
  | ["a", sh, d] =>
    match parseShape sh, parseRatList? d with
    | some sh, some d => some (.arr ⟨sh, d⟩)
    | _, _ => none
  | _ => none

def parseOut (t : String) : Option (String × Val) :=
  match t.splitOn "=" with
  | [n, v] => (parseVal v).map (fun w => (n, w))
  | _ => none

def showShape (l : List Nat) : String :=
  if l.isEmpty then "_" else "x".intercalate (l.map toString)

def showPt (p : Pt) : String := (if p.isInt then "i:" else "f:") ++ showRatList p.xs

def showArr (a : Arr) : String := showShape a.shape ++ ":" ++ showRatList a.data

def showVal : Val → String
  | .scalar r => "s:" ++ showRat r
  | .arr a => "a:" ++ showArr a

def dash (l : List String) (sep : String) : String :=
  if l.isEmpty then "-" else sep.intercalate l

def sortByName (o : Outs) : Outs := o.mergeSort (fun a b => decide (a.1 ≤ b.1))

def showOuts (o : Outs) : String :=
  "&".intercalate ((sortByName o).map (fun nv => nv.1 ++ "=" ++ showVal nv.2))

def showDb (db : Db) : String :=
  dash (db.map (fun po => showPt po.1 ++ "{" ++ showOuts po.2 ++ "}")) ";"

def showEntry (ie : Nat × FEntry) : String :=
  let e := ie.2
  let arrs := e.arrs.mergeSort (fun a b => decide (a.1 ≤ b.1))
  toString ie.1 ++ "@" ++ showPt e.x ++ "[" ++ "&".intercalate e.keys ++ "|" ++
    (if e.scal.isEmpty then "" else showRatList e.scal) ++ "|" ++
    "+".intercalate (arrs.map (fun ja => toString ja.1 ++ ":" ++ showArr ja.2)) ++ "]"

def showFile (F : File) : String :=
  dash ((F.mergeSort (fun a b => decide (a.1 ≤ b.1))).map showEntry) ";"

def showState (s : State Pt) : String :=
  let rd := match readFile s.file with
    | some db => showDb db
    | none => "E"
  s!"db={showDb s.db} file={showFile s.file} read={rd}"

/-! design spaces -/

def parseOList (s : String) : Option (List (Option Rat)) :=
  if s = "[]" then some [] else (s.splitOn ",").mapM parseORat?

def showOList (l : List (Option Rat)) : String :=
  if l.isEmpty then "[]" else ",".intercalate (l.map showORat)

def parseVar (s : String) : Option DVar :=
  match s.splitOn ":" with
  | [n, sz, t, lb, ub, v] =>
    match sz.toNat?, parseOList lb, parseOList ub with
    | some sz, some lb, some ub =>
      if v = "N" then some ⟨n, sz, t == "i", lb, ub, none⟩
      else (parseRatList? v).map (fun l => ⟨n, sz, t == "i", lb, ub, some l⟩)
    | _, _, _ => none
  | _ => none

def showVar (v : DVar) : String :=
  ":".intercalate [v.name, toString v.size, (if v.isInt then "i" else "f"), showOList v.lb,
    showOList v.ub, (match v.value with | none => "N" | some l => showRatList l)]

def showDs : Option DSpace → String
  | none => "E"
  | some ds => dash (ds.map showVar) ";"

def dsAnswer (arg : String) : String :=
  match (arg.splitOn ";").mapM parseVar with
  | none => "bad-ds"
  | some ds =>
    let h := match dsToHdf ds with
      | none => none
      | some f => dsFromHdf f
    let c := dsFromRows (dsToRows ds)
    s!"hdf={showDs h} csv={showDs c}"


/-! problem descriptions and sparse blocks -/

def hexDigit (n : Nat) : Char := if n < 10 then Char.ofNat (48 + n) else Char.ofNat (87 + n)

def hexVal (c : Char) : Nat :=
  let n := c.toNat
  if 48 ≤ n ∧ n ≤ 57 then n - 48 else if 97 ≤ n ∧ n ≤ 102 then n - 87 else 0

def encodeHex (s : String) : String :=
  if s = "" then "-" else
  String.ofList (s.toList.flatMap (fun c => [hexDigit (c.toNat / 16), hexDigit (c.toNat % 16)]))

def decodeHexChars : List Char → List Char
  | a :: b :: t => Char.ofNat (hexVal a * 16 + hexVal b) :: decodeHexChars t
  | _ => []

def decodeHex (s : String) : String := if s = "-" then "" else String.ofList (decodeHexChars s.toList)

def parseNames (s : String) : List String := if s = "[]" then [] else (s.splitOn "+").map decodeHex

def showNames (l : List String) : String := if l.isEmpty then "[]" else "+".intercalate (l.map encodeHex)

def parseFunc (s : String) : Option FuncDesc :=
  match s.splitOn ":" with
  | [n, ft, ex, inn, dim, sr, outn] =>
    dim.toNat?.map (fun d => ⟨decodeHex n, decodeHex ft, decodeHex ex, parseNames inn, d, decodeHex sr, parseNames outn⟩)
  | _ => none

def showFunc (f : FuncDesc) : String :=
  ":".intercalate [encodeHex f.name, encodeHex f.fType, encodeHex f.expr, showNames f.inputNames,
    toString f.dim, encodeHex f.specialRepr, showNames f.outputNames]

def parsePyV (s : String) : Option PyV :=
  match s.splitOn ":" with
  | ["N"] => some .none
  | ["s", h] => some (.str (decodeHex h))
  | ["t", b] => some (.bool (b == "1"))
  | ["i", n] => (parseInt? n).map .int
  | ["f", r] => (parseRat? r).map .flt
  | ["n", sh, d] =>
    match parseShape sh, parseRatList? d with
    | some sh, some d => some (.nums ⟨sh, d⟩)
    | _, _ => none
  | _ => none

def showPyV : PyV → String
  | .none => "N"
  | .str s => "s:" ++ encodeHex s
  | .strs l => "S:" ++ showNames l
  | .bool b => if b then "t:1" else "t:0"
  | .int n => "i:" ++ toString n
  | .flt r => "f:" ++ showRat r
  | .nums a => "n:" ++ showArr a

def showDSet : DSet → String
  | .sbytes s => "b:" ++ encodeHex s
  | .sarr l => "A:" ++ showNames l
  | .bool b => if b then "t:1" else "t:0"
  | .int n => "i:" ++ toString n
  | .flt r => "f:" ++ showRat r
  | .nums a => "n:" ++ showArr a

def parseItem (s : String) : Option (String × PyV) :=
  match s.splitOn "~" with
  | [n, v] => (parsePyV v).map (fun w => (decodeHex n, w))
  | _ => none

def showItems (l : List (String × PyV)) : String :=
  dash ((l.mergeSort (fun a b => decide (a.1 ≤ b.1))).map (fun nv => encodeHex nv.1 ++ "~" ++ showPyV nv.2)) ";"

def showGroup (g : Group) : String :=
  "{" ++ "&".intercalate ((g.mergeSort (fun a b => decide (a.1 ≤ b.1))).map (fun nd => nd.1 ++ "=" ++ showDSet nd.2)) ++ "}"

def showFuncGroups (gs : List (String × Group)) : String :=
  "[" ++ "".intercalate (gs.map (fun ng => encodeHex ng.1 ++ showGroup ng.2)) ++ "]"

def showPbFile (f : PbFile) : String :=
  "desc" ++ showGroup f.optDescr ++ "obj" ++ showGroup f.objective ++ "cstr" ++ showFuncGroups f.constraints
    ++ "obs" ++ showFuncGroups f.observables ++ "sol" ++ (match f.solution with | none => "-" | some g => showGroup g)

def showBool (b : Bool) : String := if b then "1" else "0"

def showPb (p : PbDesc) : String :=
  " ".intercalate ([showBool p.minimize, showBool p.isLinear, encodeHex p.diffMethod, showRat p.diffStep,
      showRat p.ineqTol, showRat p.eqTol, "obj=" ++ showFunc p.objective]
    ++ p.constraints.map (fun f => "c=" ++ showFunc f) ++ p.observables.map (fun f => "o=" ++ showFunc f)
    ++ (match p.solution with | none => [] | some l => ["sol=" ++ showItems l]))

def tagged (tag : String) (toks : List String) : List String :=
  toks.filterMap (fun t => if t.startsWith (tag ++ "=") then some (t.drop (tag.length + 1)).toString else none)

def pbdAnswer (toks : List String) : String :=
  match toks with
  | mn :: ln :: dm :: st :: it :: et :: rest =>
    match parseRat? st, parseRat? it, parseRat? et, (tagged "obj" rest).mapM parseFunc,
        (tagged "c" rest).mapM parseFunc, (tagged "o" rest).mapM parseFunc with
    | some st, some it, some et, some [obj], some cs, some os =>
      let sol : Option (Option (List (String × PyV))) :=
        match tagged "sol" rest with
        | [] => some none
        | [s] => if s = "-" then some (some []) else ((s.splitOn ";").mapM parseItem).map some
        | _ => none
      match sol with
      | none => "bad-pbd"
      | some sol =>
        let p : PbDesc := { minimize := mn == "1", isLinear := ln == "1", diffMethod := decodeHex dm, diffStep := st,
                            ineqTol := it, eqTol := et, objective := obj, constraints := cs, observables := os,
                            solution := sol }
        match pbToHdf p with
        | none => "E"
        | some f =>
          match pbFromHdf f with
          | none => "file=" ++ showPbFile f ++ " back=E"
          | some q => "file=" ++ showPbFile f ++ " back=" ++ showPb q
    | _, _, _, _, _, _ => "bad-pbd"
  | _ => "bad-pbd"

def chunks (n : Nat) (l : List Rat) : Nat → List (List Rat)
  | 0 => []
  | k + 1 => l.take n :: chunks n (l.drop n) k

def jacAnswer (r c d : String) : String :=
  match r.toNat?, c.toNat?, parseRatList? d with
  | some r, some c, some d =>
    let m := chunks c d r
    let f := writeSparse r c m
    s!"file={showRatList f.data}|{showNatList f.indices}|{showNatList f.indptr}|{f.shape.1}x{f.shape.2} read={showRatList (readSparse f).flatten}"
  | _, _, _ => "bad-jac"

/-! representation layer: `rnew`, `rstore <rep>`, `rexport a|w`, `rreload`, `rupdate`
    rep: <f|i|j>|<rats>|<positions of the negative zeros, `-` = none>   (f = float64, i = int64, j = int32)
    answer: keys=<rep;rep..> x=<idx@rep;..>  (file datasets by index), `E` once the model raised -/

def parseRep (s : String) : Option Rep :=
  match s.splitOn "|" with
  | [d, v, z] =>
    let dt := if d = "f" then some 0 else if d = "i" then some 1 else if d = "j" then some 2 else none
    match dt, parseRatList? v, (if z = "-" then some [] else parseNatList? z) with
    | some dt, some xs, some nz => some ⟨dt, xs, nz⟩
    | _, _, _ => none
  | _ => none

def showRep (r : Rep) : String :=
  (if r.dt = 0 then "f" else if r.dt = 1 then "i" else "j") ++ "|" ++ showRatList r.xs ++ "|" ++
    (if r.negz.isEmpty then "-" else showNatList r.negz)

/-- The hash of the driver: the values (`array + 0.0` forgets dtype and sign of zero). -/
def repHash (r : Rep) : List Rat := r.xs

def showRState (s : RState (List Rat)) : String :=
  "keys=" ++ dash (s.keys.map showRep) ";" ++ " x=" ++
    dash ((s.fx.mergeSort (fun a b => decide (a.1 ≤ b.1))).map (fun ir => toString ir.1 ++ "@" ++ showRep ir.2)) ";"

/-- Driver state: `none` after the model raised (frozen until `new` / `rnew`). -/
structure DState where
  db : Option (State Pt)
  rep : Option (RState (List Rat))

def rLine (st : DState) (r : Option (RState (List Rat))) : DState × String :=
  match r with
  | some s => ({ st with rep := some s }, showRState s)
  | none => ({ st with rep := none }, "E")

def stepRep (st : DState) (toks : List String) : DState × String :=
  match toks with
  | ["rnew"] => ({ st with rep := some RState.init }, "ok")
  | _ =>
    match st.rep with
    | none => (st, "E")
    | some s =>
      match toks with
      | ["rstore", r] =>
        match parseRep r with
        | some r => rLine st (some (rstore repHash s r))
        | none => (st, "bad-op")
      | ["rexport", m] => rLine st (rexport s (m == "a"))
      | ["rreload"] => rLine st (rreload repHash s)
      | ["rupdate"] => rLine st (rupdate repHash s)
      | _ => (st, "bad-op")

def stepDb (st : Option (State Pt)) (line : String) : Option (State Pt) × String :=
  match tokens line with
  | ["new"] => (some State.init, "ok")
  | ["ds", arg] => (st, dsAnswer arg)
  | "pbd" :: toks => (st, pbdAnswer toks)
  | ["jac", r, c, d] => (st, jacAnswer r c d)
  | "store" :: pt :: outs =>
    match st with
    | none => (none, "E")
    | some s =>
      match parsePt pt, outs.mapM parseOut with
      | some p, some o =>
        let s' := doStore id s p o
        (some s', (if inScopeB s (.store p o) then "in=1 " else "in=0 ") ++ showState s')
      | _, _ => (st, "bad-op")
  | ["export", m] =>
    match st with
    | none => (none, "E")
    | some s =>
      match doExport s (m == "a") with
      | some s' => (some s', "in=1 " ++ showState s')
      | none => (none, "E")
  | ["update"] =>
    match st with
    | none => (none, "E")
    | some s =>
      match doUpdate id s with
      | some s' => (some s', "in=1 " ++ showState s')
      | none => (none, "E")
  | ["reload"] =>
    match st with
    | none => (none, "E")
    | some s =>
      match doReload id s with
      | some s' => (some s', "in=1 " ++ showState s')
      | none => (none, "E")
  | _ => (st, "bad-op")

def stepLine (st : DState) (line : String) : DState × String :=
  match tokens line with
  | t :: rest =>
    if t.startsWith "r" && t != "reload" then stepRep st (t :: rest)
    else
      let (d, a) := stepDb st.db line
      ({ st with db := d }, a)
  | [] =>
    let (d, a) := stepDb st.db line
    ({ st with db := d }, a)

def main : IO Unit := driverLoop stepLine { db := some State.init, rep := some RState.init }
