import GemseoVerif.Model.C11
open GV GV.C11

/-
Line protocol (state is threaded through the lines of one run):
  new                                   -> ok                       (fresh database, no file)
  store <pt> <name>=<val> ...           -> state line
  reload                                -> state line   (new Database filled from the file)
  update                                -> state line   (update_from_hdf on the current database)
  export a|w                            -> state line   (or `E` when the model raises; the state is then frozen)
  ds <var>;<var>;...                    -> hdf=<ds|E> csv=<ds|E>    (design-space round trips)
pt   : i:<rats> | f:<rats>              (dtype, values)
val  : s:<rat> | a:<d1xd2..|_>:<rats>   (python scalar | array with shape)
var  : <name>:<size>:<i|f>:<lb list, _ = inf>:<ub list>:<N | value list>
state line: in=<0|1: is the op inside the property's quantifier> db=<pt{n=v&..};..> file=<idx@pt[k&k|s,s|j:shape:data+..];..> read=<as db|E>
  (`-` for an empty collection; outputs sorted by name; file entries by index; arrays by sub-index)
-/

def parsePt (s : String) : Option Pt :=
  match s.splitOn ":" with
  | ["i", v] => (parseRatList? v).map (fun l => ⟨true, l⟩)
  | ["f", v] => (parseRatList? v).map (fun l => ⟨false, l⟩)
  | _ => none

def parseShape (s : String) : Option (List Nat) :=
  if s = "_" then some [] else (s.splitOn "x").mapM (fun t => t.toNat?)

def parseVal (s : String) : Option Val :=
  match s.splitOn ":" with
  | ["s", r] => (parseRat? r).map .scalar
  | ["a", sh, d] =>
    match parseShape sh, parseRatList? d with
    | some sh, some d => some (.arr ⟨sh, d⟩)
    | _, _ => none
  | _ => none

def parseOut (t : String) : Option (String × Val) :=
  match t.splitOn "=" with
  | [n, v] => (parseVal v).map (fun w => (n, w))
  | _ => none

def showShape (l : List Nat) : String :=
  if l.isEmpty then "_" else "x".intercalate (l.map toString)

def showPt (p : Pt) : String := (if p.isInt then "i:" else "f:") ++ showRatList p.xs

def showArr (a : Arr) : String := showShape a.shape ++ ":" ++ showRatList a.data

def showVal : Val → String
  | .scalar r => "s:" ++ showRat r
  | .arr a => "a:" ++ showArr a

def dash (l : List String) (sep : String) : String :=
  if l.isEmpty then "-" else sep.intercalate l

def sortByName (o : Outs) : Outs := o.mergeSort (fun a b => decide (a.1 ≤ b.1))

def showOuts (o : Outs) : String :=
  "&".intercalate ((sortByName o).map (fun nv => nv.1 ++ "=" ++ showVal nv.2))

def showDb (db : Db) : String :=
  dash (db.map (fun po => showPt po.1 ++ "{" ++ showOuts po.2 ++ "}")) ";"

def showEntry (ie : Nat × FEntry) : String :=
  let e := ie.2
  let arrs := e.arrs.mergeSort (fun a b => decide (a.1 ≤ b.1))
  toString ie.1 ++ "@" ++ showPt e.x ++ "[" ++ "&".intercalate e.keys ++ "|" ++
    (if e.scal.isEmpty then "" else showRatList e.scal) ++ "|" ++
    "+".intercalate (arrs.map (fun ja => toString ja.1 ++ ":" ++ showArr ja.2)) ++ "]"

def showFile (F : File) : String :=
  dash ((F.mergeSort (fun a b => decide (a.1 ≤ b.1))).map showEntry) ";"

def showState (s : State Pt) : String :=
  let rd := match readFile s.file with
    | some db => showDb db
    | none => "E"
  s!"db={showDb s.db} file={showFile s.file} read={rd}"

/-! design spaces -/

def parseOList (s : String) : Option (List (Option Rat)) :=
  if s = "[]" then some [] else (s.splitOn ",").mapM parseORat?

def showOList (l : List (Option Rat)) : String :=
  if l.isEmpty then "[]" else ",".intercalate (l.map showORat)

def parseVar (s : String) : Option DVar :=
  match s.splitOn ":" with
  | [n, sz, t, lb, ub, v] =>
    match sz.toNat?, parseOList lb, parseOList ub with
    | some sz, some lb, some ub =>
      if v = "N" then some ⟨n, sz, t == "i", lb, ub, none⟩
      else (parseRatList? v).map (fun l => ⟨n, sz, t == "i", lb, ub, some l⟩)
    | _, _, _ => none
  | _ => none

def showVar (v : DVar) : String :=
  ":".intercalate [v.name, toString v.size, (if v.isInt then "i" else "f"), showOList v.lb,
    showOList v.ub, (match v.value with | none => "N" | some l => showRatList l)]

def showDs : Option DSpace → String
  | none => "E"
  | some ds => dash (ds.map showVar) ";"

def dsAnswer (arg : String) : String :=
  match (arg.splitOn ";").mapM parseVar with
  | none => "bad-ds"
  | some ds =>
    let h := match dsToHdf ds with
      | none => none
      | some f => dsFromHdf f
    let c := dsFromRows (dsToRows ds)
    s!"hdf={showDs h} csv={showDs c}"

/-- Driver state: `none` after the model raised (frozen until `new`). -/
abbrev DState := Option (State Pt)

def stepLine (st : DState) (line : String) : DState × String :=
  match tokens line with
  | ["new"] => (some State.init, "ok")
  | ["ds", arg] => (st, dsAnswer arg)
  | "store" :: pt :: outs =>
    match st with
    | none => (none, "E")
    | some s =>
      match parsePt pt, outs.mapM parseOut with
      | some p, some o =>
        let s' := doStore id s p o
        (some s', (if inScopeB s (.store p o) then "in=1 " else "in=0 ") ++ showState s')
      | _, _ => (st, "bad-op")
  | ["export", m] =>
    match st with
    | none => (none, "E")
    | some s =>
      match doExport s (m == "a") with
      | some s' => (some s', "in=1 " ++ showState s')
      | none => (none, "E")
  | ["update"] =>
    match st with
    | none => (none, "E")
    | some s =>
      match doUpdate id s with
      | some s' => (some s', "in=1 " ++ showState s')
      | none => (none, "E")
  | ["reload"] =>
    match st with
    | none => (none, "E")
    | some s =>
      match doReload id s with
      | some s' => (some s', "in=1 " ++ showState s')
      | none => (none, "E")
  | _ => (st, "bad-op")

def main : IO Unit := driverLoop stepLine (some State.init)
