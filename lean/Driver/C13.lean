import GemseoVerif.Model.C13
open GV GV.C13

/-
Line protocol (stateful; one answer per line):
  init <nProcs> <inputs: rats|[]> <callables: spec;spec;...|[]>
        spec = a:b:<fail inputs x|y|.. or ->:<stop inputs or ->   (x ↦ a*x+b, failing on the listed inputs)
             | F (always raises) | S (always raises an exception of a re-raised class)
        -> state
  S | T <w> | F <w> | C | X      submit / take / finish / collect / shutdown  -> state, or `disabled`
  result                          -> final=<0|1> raised | returned <orats>
  seq                             -> seq=<orats> cbs=<i:v;...>
  doe <a> <b> <samples rats> <failing rats|-> <callback order nats|[]>   -> par=<k:v;..> seq=<k:v;..>  (value a*k+b)
  cache <keys rats>               -> cache keys in order (value = key)
  lin <orats>                     -> positional jacobian list (jacobian = 2*value)
  call <inputs: rats|[]>          next execute() on the same executor (callables, nProcs kept) -> state, or
                                  `disabled` while the current call has not joined its workers
  ncalls                          -> number of finished calls of the session
  kinit | ko <x> <v> | kj <x> <j> | kget <x>    shared full cache with Jacobians: reset / cache_outputs /
                                  cache_jacobian -> `last=<i> e=<x:out:jac;...>` ; look-up -> `x:out:jac` or `_`
        spec may also be Q:a:b:c:<fail inputs>:<stop inputs>   (x ↦ a*x^2+b*x+c)
  einit <threaded 0|1> <nProcs> <objects v:f:w;...|[]> <tasks spec;...|[]>
        executor of discipline tasks (`_Functor.__call__` on discipline objects, Model §6); object = value of the
        array it holds : failed 0|1 : writable 0|1; task spec = j:own:kind:c:a:b:fault with j the object of the main
        process the task runs on, own = its own input | _ (the array the object holds), kind E|L|X (execute /
        linearize / linearize with execute=False), c = in-place factor | _, output a*x+b (Jacobian a),
        fault o|r|j|R|J (none / `_run` raises / `_compute_jacobian` raises; capital: a re-raised class)
        -> state mem=<v:f:w;...>     (the S/T/F/C/X/result lines then drive this executor)
  ecall <tasks>                   next execute() on the same executor: threads keep the objects as the previous call
                                  left them, forked workers start again from the objects of the main process
  ainit <F|C> <nProcs> <h> <coef rows r,r|r,r> <c0 rats> <q rats>
        ONE parallel gradient approximator (Model §7: FirstOrderFD / CenteredDifferences on `vecF`), default step h,
        `_function_kwargs` = defaults -> ok
  agrad <x rats> <x_indices nats|[]> <step|_> <scale> <shift>     f_gradient(x, step=, x_indices=, scale=, shift=)
  aopt <x rats> <scale> <shift>                                  compute_optimal_step(x, scale=, shift=)
        -> evals=<values of task 0|task 1|...> res=<row|row|...>   (the values the pool evaluates with the keyword
        arguments the OBJECT holds; Jacobian rows, or f(x) then the second differences per component)
  cmerge <all outputs nats> <requested outputs nats> <requested inputs nats> <disc;disc;...>
        disc = <output names nats>@<values rats>@<slot>, slot = F (failed) | - (empty dict) | o>i=c,i=c/o>i=c (an output with no block: `o>-`)
        assembly of the data and of the Jacobian of a parallel chain (Model §8)
        -> data=<o:v;...> blocks=<o/i:c;...>
state = p=.. qi=.. w=.. qo=.. ord=.. cb=.. n=.. stop=.. last=.. sent=.. col=..
-/

structure DSt where
  sess : Option (Sess Rat Rat)
  jc : JCache Rat Rat Rat
  /-- The executor of discipline tasks (Model §6), when the last `init`-like line was `einit`. -/
  eff : Option (ECfg ObjSt Rat × EState ObjSt Rat) := none
  effMode : Bool := false
  ethr : Bool := true
  enp : Nat := 1
  /-- The objects of the main process. -/
  emain : List ObjSt := []
  /-- The gradient approximator object (Model §7). -/
  acfg : Option (ACfg (Rat × Rat) APoint (List Rat) (List (List Rat))) := none
  anp : Nat := 2
  ast : AState (Rat × Rat) (List (List Rat)) := { kwargs := (1, 0), step := [[0]] }

abbrev St := DSt

def parseBarRats (s : String) : Option (List Rat) :=
  if s = "-" then some [] else (s.splitOn "|").mapM parseRat?

def parseCallable (s : String) : Option (Rat → Outcome Rat) :=
  if s = "F" then some (fun _ => .fail)
  else if s = "S" then some (fun _ => .failStop)
  else match s.splitOn ":" with
    | ["Q", a, b, c, f, st] =>
      match parseRat? a, parseRat? b, parseRat? c, parseBarRats f, parseBarRats st with
      | some a, some b, some c, some f, some st =>
        some (fun x => if st.contains x then .failStop else if f.contains x then .fail else .ok (a * x * x + b * x + c))
      | _, _, _, _, _ => none
    | [a, b, f, st] =>
      match parseRat? a, parseRat? b, parseBarRats f, parseBarRats st with
      | some a, some b, some f, some st =>
        some (fun x => if st.contains x then .failStop else if f.contains x then .fail else .ok (a * x + b))
      | _, _, _, _ => none
    | _ => none

def parseCallables (s : String) : Option (List (Rat → Outcome Rat)) :=
  if s = "[]" then some [] else (s.splitOn ";").mapM parseCallable

def showOut : Outcome Rat → String
  | .ok v => "ok:" ++ showRat v
  | .fail => "F"
  | .failStop => "S"

def showW : WState → String
  | .idle => "I"
  | .busy i => "B" ++ toString i
  | .exited => "E"

def showList (l : List String) (sep : String := ",") : String :=
  if l.isEmpty then "[]" else sep.intercalate l

def showORats (l : List (Option Rat)) : String := showList (l.map showORat)

def showCbs (l : List (Nat × Rat)) : String :=
  showList (l.map (fun p => toString p.1 ++ ":" ++ showRat p.2)) ";"

def showState (s : State Rat) : String :=
  let qi := showList (s.queueIn.map (fun o => match o with | some i => toString i | none => "_"))
  let qo := showList (s.queueOut.map (fun p => toString p.1 ++ ":" ++ showOut p.2)) ";"
  let last := match s.last with | none => "_" | some o => showOut o
  s!"p={showNatList s.pending} qi={qi} w={showList (s.workers.map showW)} qo={qo} ord={showORats s.ordered} cb={showCbs s.cbLog} n={s.nOutputs} stop={if s.stop then 1 else 0} last={last} sent={if s.sent then 1 else 0} col={showNatList s.collected}"

def doSOp (st : St) (op : SOp Rat) : St × String :=
  match st.sess with
  | none => (st, "no-init")
  | some se =>
    match sstep? se op with
    | some se' => ({ st with sess := some se' }, showState se'.st)
    | none => (st, "disabled")

def showObj (o : ObjSt) : String :=
  s!"{showRat o.val}:{if o.failed then 1 else 0}:{if o.writable then 1 else 0}"

def showEState (s : EState ObjSt Rat) : String :=
  showState s.pool ++ " mem=" ++ showList (s.mem.map showObj) ";"

def parseBit (s : String) : Option Bool :=
  if s = "1" then some true else if s = "0" then some false else none

def parseObj (s : String) : Option ObjSt :=
  match s.splitOn ":" with
  | [v, f, w] =>
    match parseRat? v, parseBit f, parseBit w with
    | some v, some f, some w => some ⟨v, f, w⟩
    | _, _, _ => none
  | _ => none

def parseObjs (s : String) : Option (List ObjSt) :=
  if s = "[]" then some [] else (s.splitOn ";").mapM parseObj

def parseORatU (s : String) : Option (Option Rat) :=
  if s = "_" then some none else (parseRat? s).map some

def parseTask (s : String) : Option (Nat × DiscCall) :=
  match s.splitOn ":" with
  | [j, own, kind, c, a, b, fault] =>
    let kind? : Option CallKind :=
      if kind = "E" then some .exec else if kind = "L" then some .lin else if kind = "X" then some .linNoExec else none
    let fault? : Option (Fault × Bool) :=
      if fault = "o" then some (.none, false) else if fault = "r" then some (.run, false)
      else if fault = "j" then some (.jac, false) else if fault = "R" then some (.run, true)
      else if fault = "J" then some (.jac, true) else none
    match j.toNat?, parseORatU own, kind?, parseORatU c, parseRat? a, parseRat? b, fault? with
    | some j, some own, some kind, some c, some a, some b, some (fl, rr) =>
      some (j, { kind := kind, own := own, scale := c, a := a, b := b, fault := fl, reraised := rr })
    | _, _, _, _, _, _, _ => none
  | _ => none

def parseTasks (s : String) : Option (List (Nat × DiscCall)) :=
  if s = "[]" then some [] else (s.splitOn ";").mapM parseTask

def startEff (st : St) (thr : Bool) (np : Nat) (main : List ObjSt) (tasks : List (Nat × DiscCall)) : St × String :=
  let ec := discECfg thr main.length np tasks
  let s0 := einit ec (discMem thr main tasks.length np)
  ({ st with eff := some (ec, s0), effMode := true, ethr := thr, enp := np, emain := main }, showEState s0)

def doEOp (st : St) (op : Op) : St × String :=
  match st.eff with
  | none => (st, "no-init")
  | some (ec, s) =>
    match estep? ec s op with
    | some s' => ({ st with eff := some (ec, s') }, showEState s')
    | none => (st, "disabled")

def doOp (st : St) (op : Op) : St × String :=
  if st.effMode then doEOp st op else doSOp st (.op op)

def showJEntry (e : JEntry Rat Rat Rat) : String :=
  showRat e.key ++ ":" ++ showORat e.out ++ ":" ++ showORat e.jac

def showJCache (c : JCache Rat Rat Rat) : String :=
  s!"last={c.last} e={showList (c.entries.map showJEntry) ";"}"

def showDb (db : Db Rat Rat) : String :=
  showList (db.map (fun e => showRat e.1 ++ ":" ++ showORat e.2)) ";"

def parseRows (s : String) : Option (List (List Rat)) := (s.splitOn "|").mapM parseRatList?

def showRows (m : List (List Rat)) : String := "|".intercalate (m.map showRatList)

def doAOp (st : St) (op : AOp (Rat × Rat) APoint) : St × String :=
  match st.acfg with
  | none => (st, "no-init")
  | some c =>
    let evals := parEvals c st.anp st.ast op
    let (s', r) := parStep c st.anp st.ast op
    ({ st with ast := s' }, s!"evals={showRows (evals.map (fun v => v.getD []))} res={showRows r}")

def parsePair (t : String) : Option (Nat × Rat) :=
  match t.splitOn "=" with
  | [i, c] => match i.toNat?, parseRat? c with
    | some i, some c => some (i, c)
    | _, _ => none
  | _ => none

def assocGet {V : Type} (l : List (Nat × V)) (k : Nat) : Option V :=
  (List.find? (fun e => e.1 == k) l).map (fun e => e.2)

/-- `i=c,i=c` or `-`. -/
def parseBlocks (s : String) : Option (Dict Rat) :=
  if s = "-" then some (fun _ => none) else
  ((s.splitOn ",").mapM parsePair).map (fun l => assocGet l)

def parseEntry (t : String) : Option (Nat × Dict Rat) :=
  match t.splitOn ">" with
  | [o, b] => match o.toNat?, parseBlocks b with
    | some o, some b => some (o, b)
    | _, _ => none
  | _ => none

/-- `F` | `-` | `o>blocks/o>blocks`. -/
def parseSlot (s : String) : Option (Option (Dict (Dict Rat))) :=
  if s = "F" then some none
  else if s = "-" then some (some (fun _ => none))
  else ((s.splitOn "/").mapM parseEntry).map (fun l => some (assocGet l))

def parseDiscLin (s : String) : Option (DiscLin Rat Rat) :=
  match s.splitOn "@" with
  | [outs, vals, slot] =>
    match parseNatList? outs, parseRatList? vals, parseSlot slot with
    | some outs, some vals, some slot =>
      some { outputs := outs, val := fun o => vals.getD (outs.idxOf o) 0, jac := slot }
    | _, _, _ => none
  | _ => none

def answer (st : St) (line : String) : St × String :=
  match tokens line with
  | ["init", np, ins, cs] =>
    match np.toNat?, parseRatList? ins, parseCallables cs with
    | some np, some ins, some cs =>
      let c : Cfg Rat Rat := ⟨ins, cs, np⟩
      ({ st with sess := some (sinit c), effMode := false }, showState (init c))
    | _, _, _ => (st, "bad-init")
  | ["einit", thr, np, objs, tasks] =>
    match parseBit thr, np.toNat?, parseObjs objs, parseTasks tasks with
    | some thr, some np, some objs, some tasks => startEff st thr np objs tasks
    | _, _, _, _ => (st, "bad-init")
  | ["ecall", tasks] =>
    match st.eff, parseTasks tasks with
    | some (_, s), some tasks =>
      if st.effMode && s.pool.final then
        -- threads: the objects are those of the main process, left as the call left them
        startEff st st.ethr st.enp (if st.ethr then s.mem else st.emain) tasks
      else (st, "disabled")
    | _, _ => (st, "bad-op")
  | ["ainit", m, np, h, coef, c0, q] =>
    match np.toNat?, parseRat? h, parseRows coef, parseRatList? c0, parseRatList? q with
    | some np, some h, some coef, some c0, some q =>
      ({ st with acfg := some (fdCfg (m == "C") coef c0 q), anp := np, ast := { kwargs := (1, 0), step := [[h]] } }, "ok")
    | _, _, _, _, _ => (st, "bad-init")
  | ["agrad", x, idx, step, sc, sh] =>
    match parseRatList? x, parseNatList? idx, parseORat? step, parseRat? sc, parseRat? sh with
    | some x, some idx, some step, some sc, some sh => doAOp st (.grad { x := x, idx := idx, step := step } (sc, sh))
    | _, _, _, _, _ => (st, "bad-op")
  | ["aopt", x, sc, sh] =>
    match parseRatList? x, parseRat? sc, parseRat? sh with
    | some x, some sc, some sh => doAOp st (.optStep { x := x } (sc, sh))
    | _, _, _ => (st, "bad-op")
  | ["cmerge", allOuts, reqOuts, reqIns, discs] =>
    match parseNatList? allOuts, parseNatList? reqOuts, parseNatList? reqIns, (discs.splitOn ";").mapM parseDiscLin with
    | some allOuts, some reqOuts, some reqIns, some ds =>
      let data := mergeData ds
      let jac := mergeJac ds
      let d := allOuts.map (fun o => s!"{o}:{showORat (data o)}")
      let b := reqOuts.flatMap (fun o => reqIns.map (fun i => s!"{o}/{i}:{showRat (chainBlock jac o i)}"))
      (st, s!"data={showList d ";"} blocks={showList b ";"}")
    | _, _, _, _ => (st, "bad-op")
  | ["S"] => doOp st .submit
  | ["T", w] => match w.toNat? with | some w => doOp st (.take w) | none => (st, "bad-op")
  | ["F", w] => match w.toNat? with | some w => doOp st (.finish w) | none => (st, "bad-op")
  | ["C"] => doOp st .collect
  | ["X"] => doOp st .shutdown
  | ["call", ins] =>
    match parseRatList? ins with
    | some ins => doSOp st (.call ins)
    | none => (st, "bad-op")
  | ["ncalls"] =>
    match st.sess with
    | none => (st, "no-init")
    | some se => (st, toString se.past.length)
  | ["kinit"] => ({ st with jc := JCache.empty }, showJCache JCache.empty)
  | ["ko", x, v] =>
    match parseRat? x, parseRat? v with
    | some x, some v => let c := jCacheOutputs st.jc x v; ({ st with jc := c }, showJCache c)
    | _, _ => (st, "bad-op")
  | ["kj", x, j] =>
    match parseRat? x, parseRat? j with
    | some x, some j => let c := jCacheJacobian st.jc x j; ({ st with jc := c }, showJCache c)
    | _, _ => (st, "bad-op")
  | ["kget", x] =>
    match parseRat? x with
    | some x => (st, match jLookup st.jc.entries x with | some e => showJEntry e | none => "_")
    | none => (st, "bad-op")
  | ["result"] =>
    let pool? : Option (State Rat) :=
      if st.effMode then st.eff.map (fun p => p.2.pool) else st.sess.map (fun se => se.st)
    match pool? with
    | none => (st, "no-init")
    | some s =>
      let r := match s.result with
        | .raised => "raised"
        | .returned o => "returned " ++ showORats o
      (st, s!"final={if s.final then 1 else 0} {r}")
  | ["seq"] =>
    match st.sess with
    | none => (st, "no-init")
    | some se =>
      let c := se.cfg
      (st, s!"seq={showORats (seqMap c)} cbs={showCbs (seqCallbacks c)}")
  | ["doe", a, b, samples, failing, cbs] =>
    match parseRat? a, parseRat? b, parseRatList? samples, parseBarRats failing, parseNatList? cbs with
    | some a, some b, some xs, some fl, some cbs =>
      let eval : Rat → Option Rat := fun x => if fl.contains x then none else some (a * x + b)
      (st, s!"par={showDb (doeParallel eval xs cbs)} seq={showDb (doeSequential eval [] xs)}")
    | _, _, _, _, _ => (st, "bad-op")
  | ["cache", keys] =>
    match parseRatList? keys with
    | some ks => (st, showList ((cacheWrites (fun x => x) [] ks).map (fun e => showRat e.1)))
    | none => (st, "bad-op")
  | ["lin", os] =>
    let toks := if os = "[]" then [] else os.splitOn ","
    match toks.mapM parseORat? with
    | some l => (st, showORats (linearizationReturn (fun v => 2 * v) l))
    | none => (st, "bad-op")
  | _ => (st, "bad-op")

def main : IO Unit := driverLoop answer ({ sess := none, jc := JCache.empty } : St)
