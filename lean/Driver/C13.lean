import GemseoVerif.Model.C13
open GV GV.C13

/-
Line protocol (stateful; one answer per line):
  init <nProcs> <inputs: rats|[]> <callables: spec;spec;...|[]>
        spec = a:b:<fail inputs x|y|.. or ->:<stop inputs or ->   (x ↦ a*x+b, failing on the listed inputs)
             | F (always raises) | S (always raises an exception of a re-raised class)
        -> state
  S | T <w> | F <w> | C | X      submit / take / finish / collect / shutdown  -> state, or `disabled`
  result                          -> final=<0|1> raised | returned <orats>
  seq                             -> seq=<orats> cbs=<i:v;...>
  doe <a> <b> <samples rats> <failing rats|-> <callback order nats|[]>   -> par=<k:v;..> seq=<k:v;..>  (value a*k+b)
  cache <keys rats>               -> cache keys in order (value = key)
  lin <orats>                     -> positional jacobian list (jacobian = 2*value)
state = p=.. qi=.. w=.. qo=.. ord=.. cb=.. n=.. stop=.. last=.. sent=.. col=..
-/

abbrev St := Option (Cfg Rat Rat × State Rat)

def parseBarRats (s : String) : Option (List Rat) :=
  if s = "-" then some [] else (s.splitOn "|").mapM parseRat?

def parseCallable (s : String) : Option (Rat → Outcome Rat) :=
  if s = "F" then some (fun _ => .fail)
  else if s = "S" then some (fun _ => .failStop)
  else match s.splitOn ":" with
    | [a, b, f, st] =>
      match parseRat? a, parseRat? b, parseBarRats f, parseBarRats st with
      | some a, some b, some f, some st =>
        some (fun x => if st.contains x then .failStop else if f.contains x then .fail else .ok (a * x + b))
      | _, _, _, _ => none
    | _ => none

def parseCallables (s : String) : Option (List (Rat → Outcome Rat)) :=
  if s = "[]" then some [] else (s.splitOn ";").mapM parseCallable

def showOut : Outcome Rat → String
  | .ok v => "ok:" ++ showRat v
  | .fail => "F"
  | .failStop => "S"

def showW : WState → String
  | .idle => "I"
  | .busy i => "B" ++ toString i
  | .exited => "E"

def showList (l : List String) (sep : String := ",") : String :=
  if l.isEmpty then "[]" else sep.intercalate l

def showORats (l : List (Option Rat)) : String := showList (l.map showORat)

def showCbs (l : List (Nat × Rat)) : String :=
  showList (l.map (fun p => toString p.1 ++ ":" ++ showRat p.2)) ";"

def showState (s : State Rat) : String :=
  let qi := showList (s.queueIn.map (fun o => match o with | some i => toString i | none => "_"))
  let qo := showList (s.queueOut.map (fun p => toString p.1 ++ ":" ++ showOut p.2)) ";"
  let last := match s.last with | none => "_" | some o => showOut o
  s!"p={showNatList s.pending} qi={qi} w={showList (s.workers.map showW)} qo={qo} ord={showORats s.ordered} cb={showCbs s.cbLog} n={s.nOutputs} stop={if s.stop then 1 else 0} last={last} sent={if s.sent then 1 else 0} col={showNatList s.collected}"

def doOp (st : St) (op : Op) : St × String :=
  match st with
  | none => (st, "no-init")
  | some (c, s) =>
    match step? c s op with
    | some s' => (some (c, s'), showState s')
    | none => (st, "disabled")

def showDb (db : Db Rat Rat) : String :=
  showList (db.map (fun e => showRat e.1 ++ ":" ++ showORat e.2)) ";"

def answer (st : St) (line : String) : St × String :=
  match tokens line with
  | ["init", np, ins, cs] =>
    match np.toNat?, parseRatList? ins, parseCallables cs with
    | some np, some ins, some cs =>
      let c : Cfg Rat Rat := ⟨ins, cs, np⟩
      (some (c, init c), showState (init c))
    | _, _, _ => (st, "bad-init")
  | ["S"] => doOp st .submit
  | ["T", w] => match w.toNat? with | some w => doOp st (.take w) | none => (st, "bad-op")
  | ["F", w] => match w.toNat? with | some w => doOp st (.finish w) | none => (st, "bad-op")
  | ["C"] => doOp st .collect
  | ["X"] => doOp st .shutdown
  | ["result"] =>
    match st with
    | none => (st, "no-init")
    | some (_, s) =>
      let r := match s.result with
        | .raised => "raised"
        | .returned o => "returned " ++ showORats o
      (st, s!"final={if s.final then 1 else 0} {r}")
  | ["seq"] =>
    match st with
    | none => (st, "no-init")
    | some (c, _) => (st, s!"seq={showORats (seqMap c)} cbs={showCbs (seqCallbacks c)}")
  | ["doe", a, b, samples, failing, cbs] =>
    match parseRat? a, parseRat? b, parseRatList? samples, parseBarRats failing, parseNatList? cbs with
    | some a, some b, some xs, some fl, some cbs =>
      let eval : Rat → Option Rat := fun x => if fl.contains x then none else some (a * x + b)
      (st, s!"par={showDb (doeParallel eval xs cbs)} seq={showDb (doeSequential eval [] xs)}")
    | _, _, _, _, _ => (st, "bad-op")
  | ["cache", keys] =>
    match parseRatList? keys with
    | some ks => (st, showList ((cacheWrites (fun x => x) [] ks).map (fun e => showRat e.1)))
    | none => (st, "bad-op")
  | ["lin", os] =>
    let toks := if os = "[]" then [] else os.splitOn ","
    match toks.mapM parseORat? with
    | some l => (st, showORats (linearizationReturn (fun v => 2 * v) l))
    | none => (st, "bad-op")
  | _ => (st, "bad-op")

def main : IO Unit := driverLoop answer (none : St)
