import GemseoVerif.Model.C13
open GV GV.C13

/-
Line protocol (stateful; one answer per line):
  init <nProcs> <inputs: rats|[]> <callables: spec;spec;...|[]>
        spec = a:b:<fail inputs x|y|.. or ->:<stop inputs or ->   (x ↦ a*x+b, failing on the listed inputs)
             | F (always raises) | S (always raises an exception of a re-raised class)
        -> state
  S | T <w> | F <w> | C | X      submit / take / finish / collect / shutdown  -> state, or `disabled`
  result                          -> final=<0|1> raised | returned <orats>
  seq                             -> seq=<orats> cbs=<i:v;...>
  doe <a> <b> <samples rats> <failing rats|-> <callback order nats|[]>   -> par=<k:v;..> seq=<k:v;..>  (value a*k+b)
  cache <keys rats>               -> cache keys in order (value = key)
  lin <orats>                     -> positional jacobian list (jacobian = 2*value)
  call <inputs: rats|[]>          next execute() on the same executor (callables, nProcs kept) -> state, or
                                  `disabled` while the current call has not joined its workers
  ncalls                          -> number of finished calls of the session
  kinit | ko <x> <v> | kj <x> <j> | kget <x>    shared full cache with Jacobians: reset / cache_outputs /
                                  cache_jacobian -> `last=<i> e=<x:out:jac;...>` ; look-up -> `x:out:jac` or `_`
        spec may also be Q:a:b:c:<fail inputs>:<stop inputs>   (x ↦ a*x^2+b*x+c)
state = p=.. qi=.. w=.. qo=.. ord=.. cb=.. n=.. stop=.. last=.. sent=.. col=..
-/

structure DSt where
  sess : Option (Sess Rat Rat)
  jc : JCache Rat Rat Rat

abbrev St := DSt

def parseBarRats (s : String) : Option (List Rat) :=
  if s = "-" then some [] else (s.splitOn "|").mapM parseRat?

def parseCallable (s : String) : Option (Rat → Outcome Rat) :=
  if s = "F" then some (fun _ => .fail)
  else if s = "S" then some (fun _ => .failStop)
  else match s.splitOn ":" with
    | ["Q", a, b, c, f, st] =>
      match parseRat? a, parseRat? b, parseRat? c, parseBarRats f, parseBarRats st with
      | some a, some b, some c, some f, some st =>
        some (fun x => if st.contains x then .failStop else if f.contains x then .fail else .ok (a * x * x + b * x + c))
      | _, _, _, _, _ => none
    | [a, b, f, st] =>
      match parseRat? a, parseRat? b, parseBarRats f, parseBarRats st with
      | some a, some b, some f, some st =>
        some (fun x => if st.contains x then .failStop else if f.contains x then .fail else .ok (a * x + b))
      | _, _, _, _ => none
    | _ => none

def parseCallables (s : String) : Option (List (Rat → Outcome Rat)) :=
  if s = "[]" then some [] else (s.splitOn ";").mapM parseCallable

def showOut : Outcome Rat → String
  | .ok v => "ok:" ++ showRat v
  | .fail => "F"
  | .failStop => "S"

def showW : WState → String
  | .idle => "I"
  | .busy i => "B" ++ toString i
  | .exited => "E"

def showList (l : List String) (sep : String := ",") : String :=
  if l.isEmpty then "[]" else sep.intercalate l

def showORats (l : List (Option Rat)) : String := showList (l.map showORat)

def showCbs (l : List (Nat × Rat)) : String :=
  showList (l.map (fun p => toString p.1 ++ ":" ++ showRat p.2)) ";"

def showState (s : State Rat) : String :=
  let qi := showList (s.queueIn.map (fun o => match o with | some i => toString i | none => "_"))
  let qo := showList (s.queueOut.map (fun p => toString p.1 ++ ":" ++ showOut p.2)) ";"
  let last := match s.last with | none => "_" | some o => showOut o
  s!"p={showNatList s.pending} qi={qi} w={showList (s.workers.map showW)} qo={qo} ord={showORats s.ordered} cb={showCbs s.cbLog} n={s.nOutputs} stop={if s.stop then 1 else 0} last={last} sent={if s.sent then 1 else 0} col={showNatList s.collected}"

def doSOp (st : St) (op : SOp Rat) : St × String :=
  match st.sess with
  | none => (st, "no-init")
  | some se =>
    match sstep? se op with
    | some se' => ({ st with sess := some se' }, showState se'.st)
    | none => (st, "disabled")

def doOp (st : St) (op : Op) : St × String := doSOp st (.op op)

def showJEntry (e : JEntry Rat Rat Rat) : String :=
  showRat e.key ++ ":" ++ showORat e.out ++ ":" ++ showORat e.jac

def showJCache (c : JCache Rat Rat Rat) : String :=
  s!"last={c.last} e={showList (c.entries.map showJEntry) ";"}"

def showDb (db : Db Rat Rat) : String :=
  showList (db.map (fun e => showRat e.1 ++ ":" ++ showORat e.2)) ";"

def answer (st : St) (line : String) : St × String :=
  match tokens line with
  | ["init", np, ins, cs] =>
    match np.toNat?, parseRatList? ins, parseCallables cs with
    | some np, some ins, some cs =>
      let c : Cfg Rat Rat := ⟨ins, cs, np⟩
      ({ st with sess := some (sinit c) }, showState (init c))
    | _, _, _ => (st, "bad-init")
  | ["S"] => doOp st .submit
  | ["T", w] => match w.toNat? with | some w => doOp st (.take w) | none => (st, "bad-op")
  | ["F", w] => match w.toNat? with | some w => doOp st (.finish w) | none => (st, "bad-op")
  | ["C"] => doOp st .collect
  | ["X"] => doOp st .shutdown
  | ["call", ins] =>
    match parseRatList? ins with
    | some ins => doSOp st (.call ins)
    | none => (st, "bad-op")
  | ["ncalls"] =>
    match st.sess with
    | none => (st, "no-init")
    | some se => (st, toString se.past.length)
  | ["kinit"] => ({ st with jc := JCache.empty }, showJCache JCache.empty)
  | ["ko", x, v] =>
    match parseRat? x, parseRat? v with
    | some x, some v => let c := jCacheOutputs st.jc x v; ({ st with jc := c }, showJCache c)
    | _, _ => (st, "bad-op")
  | ["kj", x, j] =>
    match parseRat? x, parseRat? j with
    | some x, some j => let c := jCacheJacobian st.jc x j; ({ st with jc := c }, showJCache c)
    | _, _ => (st, "bad-op")
  | ["kget", x] =>
    match parseRat? x with
    | some x => (st, match jLookup st.jc.entries x with | some e => showJEntry e | none => "_")
    | none => (st, "bad-op")
  | ["result"] =>
    match st.sess with
    | none => (st, "no-init")
    | some se =>
      let s := se.st
      let r := match s.result with
        | .raised => "raised"
        | .returned o => "returned " ++ showORats o
      (st, s!"final={if s.final then 1 else 0} {r}")
  | ["seq"] =>
    match st.sess with
    | none => (st, "no-init")
    | some se =>
      let c := se.cfg
      (st, s!"seq={showORats (seqMap c)} cbs={showCbs (seqCallbacks c)}")
  | ["doe", a, b, samples, failing, cbs] =>
    match parseRat? a, parseRat? b, parseRatList? samples, parseBarRats failing, parseNatList? cbs with
    | some a, some b, some xs, some fl, some cbs =>
      let eval : Rat → Option Rat := fun x => if fl.contains x then none else some (a * x + b)
      (st, s!"par={showDb (doeParallel eval xs cbs)} seq={showDb (doeSequential eval [] xs)}")
    | _, _, _, _, _ => (st, "bad-op")
  | ["cache", keys] =>
    match parseRatList? keys with
    | some ks => (st, showList ((cacheWrites (fun x => x) [] ks).map (fun e => showRat e.1)))
    | none => (st, "bad-op")
  | ["lin", os] =>
    let toks := if os = "[]" then [] else os.splitOn ","
    match toks.mapM parseORat? with
    | some l => (st, showORats (linearizationReturn (fun v => 2 * v) l))
    | none => (st, "bad-op")
  | _ => (st, "bad-op")

def main : IO Unit := driverLoop answer ({ sess := none, jc := JCache.empty } : St)
