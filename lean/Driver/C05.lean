import GemseoVerif.Model.C05
open GV GV.C05

/-
Line protocol of C05 (a case = one `cfg` line followed by op lines; the state is threaded):

  cfg kind=<none|simple|mem|shm|hdf> tol=<rat> pol=<wb><hb>[<snap>] in=<n:size:default|_;...> out=<n;...>
      din=<n,..|[]> dout=<n,..|[]> sj=<0|1> A=<o:row|row;...> b=<o:vals;...> q=<o:vals;...>
      [wr=<n:k;...|_>] [alias=<o:n;...|_>]
    pol: copy on write, copy on hit, snapshot of the inputs of an entry (1 = before the run (default),
         2 = only the self-coupled inputs before the run, 0 = when the entry is written)
    wr : the body adds `k` in place to (every component of) the array of input `n`
    alias: the body returns the array of input `n` itself (or a full view of it) as output `o`
  new <id> <vals>            the caller creates an array
  mut <id> <vals>            the caller overwrites one of its arrays in place
  keep <id> <name>           the caller keeps the output array `name` returned by the last execute
  exec h=<n> <name>=<id> ... execute
  lin <all|sub> <1|0> h=<n> <name>=<id> ...   linearize(compute_all_jacobians, execute)
  reopen | clear
  peek h=<n> <name>=<id> ...  read-only `cache[input_data]` (answer `P <outputs> > <jacobian>`, state unchanged)

The body is the polynomial family  out_i = A_i . x + b_i + q_i * |x|^2  (x = all inputs concatenated).
Answer: `<result> | run=<n> jac=<n> | len=<n|_> | <entries>` (result: ok, E:.., D name=vals;.., J o.i=row|row;..).
-/

structure Poly where
  outs : List (Name × List (List Rat) × List Rat × List Rat)   -- name, A rows, b, q
  wr : List (Name × Rat) := []                                 -- in-place updates `x_n += k`
  alias : List (Name × Name) := []                             -- output `o` is the array of input `n`

def dot : List Rat → List Rat → Rat
  | a :: as, b :: bs => a * b + dot as bs
  | _, _ => 0

def polyRun (p : Poly) (x : Vals) : Vals :=
  let xx := x.flatten
  let s2 := sumSq xx
  p.outs.map (fun (_, a, b, q) =>
    (List.range a.length).map (fun i => dot (a.getD i []) xx + b.getD i 0 + q.getD i 0 * s2))

def polyJac (inNames : List Name) (p : Poly) (x : Vals) : Jac :=
  let xx := x.flatten
  -- offsets of the inputs in the concatenation
  let sizes := x.map List.length
  let offs := sizes.foldl (fun (acc : List Nat × Nat) s => (acc.1 ++ [acc.2], acc.2 + s)) ([], 0)
  p.outs.flatMap (fun (o, a, _, q) =>
    (inNames.zip (offs.1.zip sizes)).map (fun (n, (k, s)) =>
      ((o, n), (List.range a.length).map (fun i =>
        (List.range s).map (fun j => (a.getD i []).getD (k + j) 0 + 2 * q.getD i 0 * xx.getD (k + j) 0)))))

/-- The values the body leaves in its input arrays. -/
def polyWr (inNames : List Name) (p : Poly) (x : Vals) : Vals :=
  (inNames.zip x).map (fun (n, v) =>
    match lookupN p.wr n with
    | some k => v.map (· + k)
    | none => v)

def polyAlias (inNames outNames : List Name) (p : Poly) : List (Option Nat) :=
  outNames.map (fun o =>
    match lookupN p.alias o with
    | some n => (let i := inNames.idxOf n; if i < inNames.length then some i else none)
    | none => none)

def parsePairs (s : String) : Option (List (Name × String)) :=
  if s = "_" then some [] else
  (s.splitOn ";").mapM (fun t =>
    match t.splitOn ":" with
    | [a, b] => some (a, b)
    | _ => none)

def kv (t : String) : Option (String × String) :=
  match t.splitOn "=" with
  | [k, v] => some (k, v)
  | _ => none

def parseNames (s : String) : List Name := if s = "[]" then [] else s.splitOn ","

def parseKind (s : String) : Option Kind :=
  match s with
  | "none" => some .none
  | "simple" => some .simple
  | "mem" => some (.memory false)
  | "shm" => some (.memory true)
  | "hdf" => some .hdf5
  | _ => none

def parseIns (s : String) : Option (List (Name × Option Arr)) :=
  (s.splitOn ";").mapM (fun t =>
    match t.splitOn ":" with
    | [n, _, d] => if d = "_" then some (n, none) else (parseRatList? d).map (fun v => (n, some v))
    | _ => none)

def parseMat (s : String) : Option (List (Name × List (List Rat))) :=
  (s.splitOn ";").mapM (fun t =>
    match t.splitOn ":" with
    | [n, rows] => ((rows.splitOn "|").mapM parseRatList?).map (fun r => (n, r))
    | _ => none)

def parseVecs (s : String) : Option (List (Name × List Rat)) :=
  (s.splitOn ";").mapM (fun t =>
    match t.splitOn ":" with
    | [n, v] => (parseRatList? v).map (fun r => (n, r))
    | _ => none)

def parseCfg (toks : List String) : Option (Cfg × Poly) := do
  let kvs ← toks.mapM kv
  let get := fun k => lookupN kvs k
  let kind ← (← get "kind") |> parseKind
  let tol ← (← get "tol") |> parseRat?
  let pol ← get "pol"
  let ins ← (← get "in") |> parseIns
  let outs := parseNames ((← get "out").replace ";" ",")
  let din := parseNames (← get "din")
  let dout := parseNames (← get "dout")
  let sj ← get "sj"
  let a ← (← get "A") |> parseMat
  let b ← (← get "b") |> parseVecs
  let q ← (← get "q") |> parseVecs
  let wrS ← parsePairs ((get "wr").getD "_")
  let wr ← wrS.mapM (fun (n, k) => (parseRat? k).map (fun r => (n, r)))
  let alias ← parsePairs ((get "alias").getD "_")
  let snap : Snap := match pol.toList.getD 2 '1' with
    | '0' => .post
    | '2' => .coupledPre
    | _ => .pre
  let pouts ← outs.mapM (fun o => do
    let ao ← lookupN a o
    let bo ← lookupN b o
    let qo ← lookupN q o
    pure (o, ao, bo, qo))
  let cfg : Cfg := {
    kind := kind, tol := tol,
    pol := ⟨pol.toList.getD 0 '1' == '1', pol.toList.getD 1 '1' == '1', snap⟩,
    inNames := ins.map (·.1), defaults := ins.map (·.2), outNames := outs,
    dIn := din, dOut := dout, runSetsJac := sj == "1" }
  pure (cfg, { outs := pouts, wr := wr, alias := alias })

def parseArgs (toks : List String) : Option (Nat × List (Name × Nat)) := do
  let kvs ← toks.mapM kv
  let h ← (← lookupN kvs "h").toNat?
  let args ← (kvs.filter (fun p => p.1 != "h")).mapM (fun (k, v) => v.toNat?.map (fun i => (k, i)))
  pure (h, args)

def parseOp (toks : List String) : Option Op :=
  match toks with
  | ["new", id, v] => do pure (.new (← id.toNat?) (← parseRatList? v))
  | ["mut", id, v] => do pure (.modify (← id.toNat?) (← parseRatList? v))
  | ["keep", id, n] => do pure (.keep (← id.toNat?) n)
  | "exec" :: rest => do let (h, args) ← parseArgs rest; pure (.exec args h)
  | "lin" :: mode :: exe :: rest => do
    let (h, args) ← parseArgs rest
    pure (.lin (mode == "all") (exe == "1") args h)
  | ["reopen"] => some .reopen
  | ["clear"] => some .clear
  | _ => none

def showVals (names : List Name) (v : Vals) : String :=
  if v.isEmpty then "_" else ";".intercalate ((names.zip v).map (fun (n, a) => n ++ "=" ++ showRatList a))

def pairLt (a b : (Name × Name) × Block) : Bool :=
  a.1.1 < b.1.1 || (a.1.1 == b.1.1 && a.1.2 < b.1.2)

def showJac (j : Jac) : String :=
  if j.isEmpty then "_" else
  ";".intercalate ((sortBy pairLt j).map (fun ((o, i), b) =>
    o ++ "." ++ i ++ "=" ++ "|".intercalate (b.map showRatList)))

def showOut (cfg : Cfg) : Out → String
  | .ok => "ok"
  | .err e => e
  | .data o => "D " ++ showVals cfg.outNames o
  | .jac j => "J " ++ showJac j

/-- `cache.last_entry.inputs`. -/
def lastInputs (cfg : Cfg) (st : State) : Vals :=
  match cfg.kind with
  | .none => []
  | .simple => derefs st.heap st.simple.inputs
  | _ =>
    if st.full.entries.isEmpty then [] else
    match st.full.entry? st.full.last with
    | some e => derefs st.heap e.inputs
    | none => []

def showState (cfg : Cfg) (st : State) : String :=
  let len := match cacheLen cfg st with | some n => toString n | none => "_"
  let es := (allEntries cfg st).map (fun (i, o, j) =>
    "{" ++ showVals cfg.inNames i ++ " > " ++ showVals cfg.outNames o ++ " > " ++ showJac j ++ "}")
  s!"run={st.nRun} jac={st.nJac} | len={len} last={showVals cfg.inNames (lastInputs cfg st)} | {" ".intercalate es}"

structure DState where
  cur : Option (Cfg × Poly × State) := none

def dstep (ds : DState) (line : String) : DState × String :=
  match tokens line with
  | "cfg" :: rest =>
    (match parseCfg rest with
     | some (cfg, p) => ({ cur := some (cfg, p, {}) }, "ok")
     | none => ({ cur := none }, "bad-cfg"))
  | toks =>
    match ds.cur with
    | none => (ds, "no-cfg")
    | some (cfg, p, st) =>
      match toks with
      | "peek" :: rest =>
        (match parseArgs rest with
         | none => (ds, "bad-op")
         | some (h, args) =>
           match prepare cfg st args with
           | none => (ds, "E:invalid")
           | some xs =>
             let g := cacheGet cfg st (xs.map (·.1)) h
             (ds, "P " ++ showVals cfg.outNames (derefs st.heap g.1) ++ " > " ++ showJac g.2))
      | _ =>
      match parseOp toks with
      | none => (ds, "bad-op")
      | some op =>
        let d : Disc := { run := polyRun p, jacf := polyJac cfg.inNames p,
                          wr := polyWr cfg.inNames p, aliasOf := polyAlias cfg.inNames cfg.outNames p }
        let (st', o) := step cfg d st op
        ({ cur := some (cfg, p, st') }, showOut cfg o ++ " | " ++ showState cfg st')

def main : IO Unit := driverLoop dstep {}
