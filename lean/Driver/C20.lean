import GemseoVerif.Model.C20
open GV GV.C20

/-
Line protocol (one case per line, `key=value` tokens, lists comma separated, `[]` = empty):

  rt ex=<names> bf=<inits> af=<inits> po=<inits> obj=<attrs> heap=<rats>
       init : name:S:v0 | name:P:v | name:D:path | name:L
       attr : name:P:v  | name:S:cell | name:D:path | name:L
     -> E:pickle                                    (an unpicklable value reaches the state)
     -> obj=<k:P:v|k:S:v:fresh|k:S:v:shared|k:D:p|k:L sorted by key> heap0=<the original's cells afterwards>

  jg props=<name:type,...> req=<names> df=<name:v,...> ns=<name:ns,...>
     -> ok props=... req=... df=... ns=...   |  E:key

  h5 disk=<path@node=in:out;in:out+...> cache=<tol>|<path>|<node>|<name> mid=<in:out|_> write=<in:out|_>
       mid   : entry the ORIGINAL writes between pickle.dumps and pickle.loads
       write : entry the RESTORED cache writes
     -> c=<tol>|<path>|<node>|<name> sees=<in:out;... read by the restored cache> after=<in:out;... seen by a fresh attach after the write>
-/

def kvs (toks : List String) : List (String × String) :=
  toks.filterMap (fun t => match t.splitOn "=" with
    | k :: rest => if rest.isEmpty then none else some (k, "=".intercalate rest)
    | _ => none)

def field (m : List (String × String)) (k : String) : String := (GV.C20.get m k).getD "[]"

def items (s : String) : List String := if s = "[]" || s = "" then [] else s.splitOn ","

def parseInit (s : String) : Option (String × Init) :=
  match s.splitOn ":" with
  | [n, "S", v] => (parseRat? v).map (fun r => (n, Init.mkSync r))
  | [n, "P", v] => (parseRat? v).map (fun r => (n, Init.mkPlain r))
  | [n, "D", p] => some (n, Init.mkPath p)
  | [n, "L"] => some (n, Init.mkLock)
  | _ => none

def parseAttr (s : String) : Option (String × Val) :=
  match s.splitOn ":" with
  | [n, "P", v] => (parseRat? v).map (fun r => (n, Val.plain r))
  | [n, "S", c] => c.toNat?.map (fun k => (n, Val.sync k))
  | [n, "D", p] => some (n, Val.path p)
  | [n, "L"] => some (n, Val.lock)
  | _ => none

def insertSorted (x : String × String) : List (String × String) → List (String × String)
  | [] => [x]
  | y :: r => if x.1 < y.1 then x :: y :: r else y :: insertSorted x r

def sortByKey (l : List (String × String)) : List (String × String) := l.foldl (fun acc x => insertSorted x acc) []

def showVal (h0 : Nat) (h : Heap) : Val → String
  | .plain v => "P:" ++ showRat v
  | .sync c => "S:" ++ showRat (h.getD c 0) ++ (if h0 ≤ c then ":fresh" else ":shared")
  | .path p => "D:" ++ p
  | .lock => "L"

def answerRt (m : List (String × String)) : String :=
  let ex := items (field m "ex")
  match (items (field m "bf")).mapM parseInit, (items (field m "af")).mapM parseInit,
        (items (field m "po")).mapM parseInit, (items (field m "obj")).mapM parseAttr,
        parseRatList? (field m "heap") with
  | some bf, some af, some po, some o, some h =>
    let s : Spec := { excluded := ex, before := bf, after := af, post := po }
    let st := getstate s o h
    if !picklable st then "E:pickle" else
    let (o', h') := setstate s st h
    let shown := sortByKey (o'.map (fun kv => (kv.1, kv.1 ++ ":" ++ showVal h.length h' kv.2)))
    let objS := if shown.isEmpty then "[]" else ",".intercalate (shown.map Prod.snd)
    s!"obj={objS} heap0={showRatList (h'.take h.length)}"
  | _, _, _, _, _ => "bad-op"

def parsePair (f : String → Option α) (s : String) : Option (String × α) :=
  match s.splitOn ":" with
  | [n, v] => (f v).map (fun x => (n, x))
  | _ => none

def showPairs (f : α → String) (l : List (String × α)) : String :=
  if l.isEmpty then "[]" else ",".intercalate (l.map (fun kv => kv.1 ++ ":" ++ f kv.2))

def answerJg (m : List (String × String)) : String :=
  match (items (field m "props")).mapM (parsePair String.toNat?),
        (items (field m "df")).mapM (parsePair parseRat?),
        (items (field m "ns")).mapM (parsePair (fun s => some s)) with
  | some props, some df, some ns =>
    let g : Grammar := { props := props, required := items (field m "req"), defaults := df, toNs := ns }
    match Grammar.setstate g.getstate with
    | none => "E:key"
    | some g' =>
      s!"ok props={showPairs toString g'.props} req={showStrList g'.required} df={showPairs showRat g'.defaults} ns={showPairs id g'.toNs}"
  | _, _, _ => "bad-op"

def parseEntry (s : String) : Option Entry :=
  match s.splitOn ":" with
  | [a, b] => match parseRat? a, parseRat? b with
    | some x, some y => some ⟨x, y⟩
    | _, _ => none
  | _ => none

def parseEntries (s : String) : Option (List Entry) :=
  if s = "" || s = "[]" then some [] else (s.splitOn ";").mapM parseEntry

def showEntries (l : List Entry) : String :=
  if l.isEmpty then "[]" else ";".intercalate (l.map (fun e => showRat e.input ++ ":" ++ showRat e.output))

def addNode (d : Disk) (path node : String) (es : List Entry) : Disk :=
  let f := (GV.C20.get d path).getD []
  GV.C20.set d path (GV.C20.set f node es)

def parseDisk (s : String) : Option Disk :=
  if s = "[]" || s = "" then some [] else
  (s.splitOn "+").foldlM (fun d t =>
    match t.splitOn "=" with
    | [loc, es] => match loc.splitOn "@", parseEntries es with
      | [p, n], some l => some (addNode d p n l)
      | _, _ => none
    | _ => none) []

def answerH5 (m : List (String × String)) : String :=
  match parseDisk (field m "disk"), (field m "cache").splitOn "|" with
  | some d, [tol, p, n, nm] =>
    match parseRat? tol with
    | none => "bad-op"
    | some t =>
      let c0 := HCache.attach d ⟨t, p, n, nm⟩
      let st := c0.getstate                       -- pickle.dumps(c0)
      let mid := field m "mid"                    -- the original writes an entry before the state is restored
      let d := if mid = "_" || mid = "[]" then d else match parseEntry mid with
        | some e => (c0.write d e).1
        | none => d
      let c1 := HCache.setstate d st              -- pickle.loads
      let sees := c1.read d
      let w := field m "write"
      let d' := if w = "_" then d else match parseEntry w with
        | some e => (c1.write d e).1
        | none => d
      let fresh := HCache.attach d' c0.getstate
      s!"c={showRat c1.tol}|{c1.path}|{c1.node}|{c1.name} sees={showEntries sees} after={showEntries (fresh.read d')}"
  | _, _ => "bad-op"

/-! ### Lives (`jgl`, `h5l`)

  jgl ops=<op;...> post=<op;...> bat=<data|...>
       op   : N~a+b | T~a~<type> | R+~a | R-~a | D~a~<rat> | D-~a | X~a | M~a~b | K~a+b | S~a~<ns> | C | Q |
              V~<data> | P                      (`_` = no operation)
       data : name^kind+name^kind  (`_` = empty)
     -> <out>@<state>;...  (life `ops`; P continues with the restored grammar)
        | O=<state> C=<state>  (original and its restored copy after the life)
        so=<schema> sc=<schema> vo=<verdicts> vc=<verdicts>
        | <out>;...#<out>;...  (`post` on the original and on the copy)
        O=<state> C=<state> vo=<verdicts> vc=<verdicts>
       state  : props/req/df/ns, each sorted; schema : props/req

  h5l disk=<...> cache=<tol>|<path>|<node>|<name> ops=<op;...>
       op : T~<rat> N~<name> W~<in>~<out> Q~<x>  by the original;  P = dumps, L = loads;
            t~ n~ w~ q~  the same by the restored cache
     -> <out>;... | O=<settings> C=<settings|_> after=<entries seen by a fresh attachment>
-/

def showPairsSorted (f : α → String) (l : List (String × α)) : String :=
  let shown := sortByKey (l.map (fun kv => (kv.1, kv.1 ++ "^" ++ f kv.2)))
  if shown.isEmpty then "[]" else ",".intercalate (shown.map Prod.snd)

def showNamesSorted (l : List String) : String :=
  let shown := sortByKey (l.map (fun n => (n, n)))
  if shown.isEmpty then "[]" else ",".intercalate (shown.map Prod.snd)

def showG (g : Grammar) : String :=
  s!"{showPairsSorted toString g.props}/{showNamesSorted g.required}/{showPairsSorted showRat g.defaults}/{showPairsSorted id g.toNs}"

def showSchema (s : GSchema) : String := s!"{showPairsSorted toString s.props}/{showNamesSorted s.req}"

def showGOut : GOut → String
  | .ok => "ok"
  | .keyError => "E:key"
  | .valueError => "E:value"
  | .verdict b => if b then "v1" else "v0"
  | .schema s => "s[" ++ showSchema s ++ "]"

def plusList (s : String) : List String := if s = "_" || s = "" then [] else s.splitOn "+"

def parseData (s : String) : Option (List (String × Nat)) :=
  (plusList s).mapM (fun t => match t.splitOn "^" with
    | [n, k] => k.toNat?.map (fun x => (n, x))
    | _ => none)

def parseGOp (s : String) : Option GOp :=
  match s.splitOn "~" with
  | ["N", l] => some (.names (plusList l))
  | ["T", n, t] => t.toNat?.map (fun x => .types n x)
  | ["R+", n] => some (.reqAdd n)
  | ["R-", n] => some (.reqDiscard n)
  | ["D", n, v] => (parseRat? v).map (fun r => .setDefault n r)
  | ["D-", n] => some (.popDefault n)
  | ["X", n] => some (.del n)
  | ["M", a, b] => some (.rename a b)
  | ["K", l] => some (.restrict (plusList l))
  | ["S", n, ns] => some (.addNs n ns)
  | ["C"] => some .clear
  | ["Q"] => some .schema
  | ["V", d] => (parseData d).map (fun x => .validate x)
  | ["P"] => some .pickle
  | _ => none

def parseGOps (s : String) : Option (List GOp) :=
  if s = "_" || s = "[]" || s = "" then some [] else (s.splitOn ";").mapM parseGOp

/-- Run the operations, printing the answer and the definition after each. -/
def traceG (j : JG) (ops : List GOp) (withState : Bool) : JG × List String :=
  ops.foldl (fun (acc : JG × List String) op =>
    let r := acc.1.step op
    (r.1, acc.2 ++ [if withState then showGOut r.2 ++ "@" ++ showG r.1.g else showGOut r.2])) (j, [])

def verdicts (j : JG) (bat : List (List (String × Nat))) : JG × String :=
  bat.foldl (fun (acc : JG × String) d =>
    let r := acc.1.validate d
    (r.2, acc.2 ++ (if r.1 then "1" else "0"))) (j, "")

def joinOr (l : List String) : String := if l.isEmpty then "_" else ";".intercalate l

def answerJgl (m : List (String × String)) : String :=
  let batS := field m "bat"
  let bat : Option (List (List (String × Nat))) :=
    if batS = "[]" || batS = "" then some [] else (batS.splitOn "|").mapM parseData
  match parseGOps (field m "ops"), parseGOps (field m "post"), bat with
  | some ops, some post, some bat =>
    let (j, tr) := traceG JG.fresh ops true
    let s := j.getstate
    match JG.setstate s.1 with
    | none => s!"{joinOr tr} | O={showG s.2.g} C=E:key"
    | some c =>
      let o := s.2
      let head := s!"{joinOr tr} | O={showG o.g} C={showG c.g}"
      let (o1, so) := o.step .schema
      let (c1, sc) := c.step .schema
      let (o2, vo) := verdicts o1 bat
      let (c2, vc) := verdicts c1 bat
      let (o3, po) := traceG o2 post false
      let (c3, pc) := traceG c2 post false
      let (_, vo2) := verdicts o3 bat
      let (_, vc2) := verdicts c3 bat
      s!"{head} so={showGOut so} sc={showGOut sc} vo={vo} vc={vc} | {joinOr po}#{joinOr pc} O={showG o3.g} C={showG c3.g} vo={vo2} vc={vc2}"
  | _, _, _ => "bad-op"

def insertEntry (e : Entry) : List Entry → List Entry
  | [] => [e]
  | y :: r => if e.input < y.input then e :: y :: r else y :: insertEntry e r

def sortEntries (l : List Entry) : List Entry := l.foldl (fun acc e => insertEntry e acc) []

def showSettings (c : HCache) : String := s!"{showRat c.tol}|{c.path}|{c.node}|{c.name}"

def showHOut : HOut → String
  | .ok => "ok"
  | .valueError => "E:value"
  | .found none => "miss"
  | .found (some o) => "h" ++ showRat o

structure LWorld where
  disk : Disk
  orig : HLife
  blob : Option HState
  copy : Option HCache

def parseHOp (f : List String) : Option HOp :=
  match f with
  | [_, a] => match f.head! with
    | "T" | "t" => (parseRat? a).map HOp.setTol
    | "N" | "n" => some (HOp.setName a)
    | "Q" | "q" => (parseRat? a).map HOp.lookup
    | _ => none
  | [_, a, b] => match parseRat? a, parseRat? b with
    | some x, some y => some (HOp.write ⟨x, y⟩)
    | _, _ => none
  | _ => none

def stepL (w : LWorld) (tok : String) : LWorld × String :=
  let f := tok.splitOn "~"
  match f with
  | ["P"] => ({ w with blob := some w.orig.cache.getstate }, "ok")
  | ["L"] => match w.blob with
    | none => (w, "bad-op")
    | some st =>
      let c := HCache.setstate w.disk st
      ({ w with copy := some c }, s!"c={showSettings c},sees={showEntries (sortEntries (c.read w.disk))}")
  | _ =>
    match parseHOp f with
    | none => (w, "bad-op")
    | some op =>
      let isCopy := match f.head? with
        | some h => h == "t" || h == "n" || h == "w" || h == "q"
        | none => false
      if isCopy then
        match w.copy with
        | none => (w, "bad-op")
        | some c =>
          let r := HLife.step (w.disk, ⟨c.getstate, c⟩) op
          ({ w with disk := r.1.1, copy := some r.1.2.cache }, showHOut r.2)
      else
        let r := HLife.step (w.disk, w.orig) op
        ({ w with disk := r.1.1, orig := r.1.2 }, showHOut r.2)

def answerH5l (m : List (String × String)) : String :=
  match parseDisk (field m "disk"), (field m "cache").splitOn "|" with
  | some d, [tol, p, n, nm] =>
    match parseRat? tol with
    | none => "bad-op"
    | some t =>
      let w0 : LWorld := ⟨d, HLife.create d ⟨t, p, n, nm⟩, none, none⟩
      let opsS := field m "ops"
      let toks := if opsS = "_" || opsS = "[]" || opsS = "" then [] else opsS.splitOn ";"
      let (w, outs) := toks.foldl (fun (acc : LWorld × List String) tok =>
        let r := stepL acc.1 tok
        (r.1, acc.2 ++ [r.2])) (w0, [])
      let fresh := HCache.attach w.disk w.orig.cache.getstate
      let cs := match w.copy with
        | some c => showSettings c
        | none => "_"
      s!"{joinOr outs} | O={showSettings w.orig.cache} C={cs} after={showEntries (sortEntries (fresh.read w.disk))}"
  | _, _ => "bad-op"

/-! ### `AnalyticDiscipline` written by one interpreter, restored by another (`ad`)

  ad exprs=<out>~<mono>+<mono>;<out>~...  wenv=<out>~s1+s2;...  renv=<out>~s2+s1;...  mode=init|lam  pts=<s^rat+s^rat>|...
       mono : <rat>*s1*s2 (a constant: <rat>)
       wenv / renv : the order in which the writer / the reader iterates over the free symbols of each expression
       mode : init = `__setstate__` of the code (`_init_expressions`), lam = `_lambdify_expressions` only
     -> one block per point, joined by " | ":
        o=<out^value,...>;<out.symbol^value,...> c=<the same for the restored discipline>   (sorted)
-/

def parseMono (s : String) : Option Mono :=
  match s.splitOn "*" with
  | c :: syms => (parseRat? c).map (fun r => (r, syms))
  | _ => none

def parseExprs (s : String) : Option (List (String × Poly)) :=
  if s = "[]" || s = "" then some [] else
  (s.splitOn ";").mapM (fun t => match t.splitOn "~" with
    | [o, ms] => ((plusList ms).mapM parseMono).map (fun p => (o, p))
    | _ => none)

def parseOrders (s : String) : List (List String) :=
  if s = "[]" || s = "" then [] else
  (s.splitOn ";").filterMap (fun t => match t.splitOn "~" with
    | [_, l] => some (plusList l)
    | _ => none)

/-- The interpreter observed by the harness: a set iterates in the observed order of that set. -/
def envOfTable (tbl : List (List String)) : Env := fun s =>
  match tbl.find? (fun t => t.length == s.length && s.all (fun n => t.contains n)) with
  | some t => t
  | none => s

def parsePoint (s : String) : Option (List (String × Rat)) :=
  (plusList s).mapM (fun t => match t.splitOn "^" with
    | [n, v] => (parseRat? v).map (fun r => (n, r))
    | _ => none)

def showAD (a : AD) (ρ : String → Rat) : String :=
  let outs := showPairsSorted showRat (a.run ρ)
  let jac := (a.jac ρ).flatMap (fun ofs => ofs.2.map (fun nv => (ofs.1 ++ "." ++ nv.1, nv.2)))
  s!"{outs};{showPairsSorted showRat jac}"

def answerAd (m : List (String × String)) : String :=
  let ptsS := field m "pts"
  let pts : Option (List (List (String × Rat))) :=
    if ptsS = "[]" || ptsS = "" then some [] else (ptsS.splitOn "|").mapM parsePoint
  match parseExprs (field m "exprs"), pts with
  | some exprs, some pts =>
    let ew := envOfTable (parseOrders (field m "wenv"))
    let er := envOfTable (parseOrders (field m "renv"))
    let orig := AD.create ew exprs
    let copy := if field m "mode" = "lam" then AD.setstateRelambdify er orig.getstate else AD.setstate er orig.getstate
    let blocks := pts.map (fun pt =>
      let ρ : String → Rat := fun n => (GV.C20.get pt n).getD 0
      s!"o={showAD orig ρ} c={showAD copy ρ}")
    if blocks.isEmpty then "_" else " | ".intercalate blocks
  | _, _ => "bad-op"

/-! ### Process sessions (`ps`): the save/load helpers used more than once

  ps ex=<names> bf=<inits> af=<inits> obj=<attrs> heap=<rats> ops=<op;...>
       op : S~i~path (to_pickle(objs[i], path)) | L~path (objs.append(from_pickle(path))) |
            A~i~a~v (objs[i].a = v) | B~i~a (objs[i].a.value += 1 / objs[i].a += 1)
     -> <status>@<o0>/<o1>/... after every operation, joined by " ; "
        status : ok | E:index | E:pickle | E:nofile
        object : k:P:v | k:S:v#n | k:D:p | k:L sorted by key, `_` when it has no attribute;
                 n = number of the shared-memory cell in order of first appearance (objects in order of creation)
-/

def parsePOp (t : String) : Option POp :=
  match t.splitOn "~" with
  | ["S", i, p] => i.toNat?.map (fun k => POp.save k p)
  | ["L", p] => some (POp.load p)
  | ["A", i, a, v] => match i.toNat?, parseRat? v with
    | some k, some r => some (POp.assign k a r)
    | _, _ => none
  | ["B", i, a] => i.toNat?.map (fun k => POp.bump k a)
  | _ => none

def showObjCells (h : Heap) (acc : List String × List Nat) (o : Obj) : List String × List Nat :=
  let ks := (sortByKey ((keys o).map (fun k => (k, k)))).map Prod.fst
  let r := ks.foldl (fun (a : List String × List Nat) k =>
    match GV.C20.get o k with
    | some (.sync c) =>
      let seen := if a.2.contains c then a.2 else a.2 ++ [c]
      (a.1 ++ [k ++ ":S:" ++ showRat (h.getD c 0) ++ "#" ++ toString (seen.idxOf c)], seen)
    | some v => (a.1 ++ [k ++ ":" ++ showVal 0 h v], a.2)
    | none => a) ([], acc.2)
  (acc.1 ++ [if r.1.isEmpty then "_" else ",".intercalate r.1], r.2)

def showProc (P : Proc) : String :=
  "/".intercalate (P.objs.foldl (showObjCells P.heap) ([], [])).1

def psStatus (s : Spec) (P : Proc) : POp → String
  | .save i _ => match P.objs[i]? with
    | none => "E:index"
    | some o => if picklable (getstate s o P.heap) then "ok" else "E:pickle"
  | .load p => match GV.C20.get P.files p with
    | none => "E:nofile"
    | some _ => "ok"
  | .assign i _ _ => if i < P.objs.length then "ok" else "E:index"
  | .bump i _ => if i < P.objs.length then "ok" else "E:index"

def answerPs (m : List (String × String)) : String :=
  let ex := items (field m "ex")
  let opsS := field m "ops"
  let opToks := if opsS = "[]" || opsS = "_" then [] else opsS.splitOn ";"
  match (items (field m "bf")).mapM parseInit, (items (field m "af")).mapM parseInit,
        (items (field m "obj")).mapM parseAttr, parseRatList? (field m "heap"), opToks.mapM parsePOp with
  | some bf, some af, some o, some h, some ops =>
    let s : Spec := { excluded := ex, before := bf, after := af, post := [] }
    let P0 : Proc := { files := [], heap := h, objs := [o] }
    let r := ops.foldl (fun (acc : Proc × List String) op =>
      let st := psStatus s acc.1 op
      let P' := acc.1.step s op
      (P', acc.2 ++ [st ++ "@" ++ showProc P'])) (P0, [])
    if r.2.isEmpty then "_" else " ; ".intercalate r.2
  | _, _, _, _, _ => "bad-op"

def answer (line : String) : String :=
  match tokens line with
  | "ps" :: rest => answerPs (kvs rest)
  | "rt" :: rest => answerRt (kvs rest)
  | "jg" :: rest => answerJg (kvs rest)
  | "h5" :: rest => answerH5 (kvs rest)
  | "jgl" :: rest => answerJgl (kvs rest)
  | "h5l" :: rest => answerH5l (kvs rest)
  | "ad" :: rest => answerAd (kvs rest)
  | _ => "bad-op"

def main : IO Unit := driverLoop (fun (_ : Unit) l => ((), answer l)) ()
