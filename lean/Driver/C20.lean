import GemseoVerif.Model.C20
open GV GV.C20

/-
Line protocol (one case per line, `key=value` tokens, lists comma separated, `[]` = empty):

  rt ex=<names> bf=<inits> af=<inits> po=<inits> obj=<attrs> heap=<rats>
       init : name:S:v0 | name:P:v | name:D:path | name:L
       attr : name:P:v  | name:S:cell | name:D:path | name:L
     -> E:pickle                                    (an unpicklable value reaches the state)
     -> obj=<k:P:v|k:S:v:fresh|k:S:v:shared|k:D:p|k:L sorted by key> heap0=<the original's cells afterwards>

  jg props=<name:type,...> req=<names> df=<name:v,...> ns=<name:ns,...>
     -> ok props=... req=... df=... ns=...   |  E:key

  h5 disk=<path@node=in:out;in:out+...> cache=<tol>|<path>|<node>|<name> mid=<in:out|_> write=<in:out|_>
       mid   : entry the ORIGINAL writes between pickle.dumps and pickle.loads
       write : entry the RESTORED cache writes
     -> c=<tol>|<path>|<node>|<name> sees=<in:out;... read by the restored cache> after=<in:out;... seen by a fresh attach after the write>
-/

def kvs (toks : List String) : List (String × String) :=
  toks.filterMap (fun t => match t.splitOn "=" with
    | k :: rest => if rest.isEmpty then none else some (k, "=".intercalate rest)
    | _ => none)

def field (m : List (String × String)) (k : String) : String := (GV.C20.get m k).getD "[]"

def items (s : String) : List String := if s = "[]" || s = "" then [] else s.splitOn ","

def parseInit (s : String) : Option (String × Init) :=
  match s.splitOn ":" with
  | [n, "S", v] => (parseRat? v).map (fun r => (n, Init.mkSync r))
  | [n, "P", v] => (parseRat? v).map (fun r => (n, Init.mkPlain r))
  | [n, "D", p] => some (n, Init.mkPath p)
  | [n, "L"] => some (n, Init.mkLock)
  | _ => none

def parseAttr (s : String) : Option (String × Val) :=
  match s.splitOn ":" with
  | [n, "P", v] => (parseRat? v).map (fun r => (n, Val.plain r))
  | [n, "S", c] => c.toNat?.map (fun k => (n, Val.sync k))
  | [n, "D", p] => some (n, Val.path p)
  | [n, "L"] => some (n, Val.lock)
  | _ => none

def insertSorted (x : String × String) : List (String × String) → List (String × String)
  | [] => [x]
  | y :: r => if x.1 < y.1 then x :: y :: r else y :: insertSorted x r

def sortByKey (l : List (String × String)) : List (String × String) := l.foldl (fun acc x => insertSorted x acc) []

def showVal (h0 : Nat) (h : Heap) : Val → String
  | .plain v => "P:" ++ showRat v
  | .sync c => "S:" ++ showRat (h.getD c 0) ++ (if h0 ≤ c then ":fresh" else ":shared")
  | .path p => "D:" ++ p
  | .lock => "L"

def answerRt (m : List (String × String)) : String :=
  let ex := items (field m "ex")
  match (items (field m "bf")).mapM parseInit, (items (field m "af")).mapM parseInit,
        (items (field m "po")).mapM parseInit, (items (field m "obj")).mapM parseAttr,
        parseRatList? (field m "heap") with
  | some bf, some af, some po, some o, some h =>
    let s : Spec := { excluded := ex, before := bf, after := af, post := po }
    let st := getstate s o h
    if !picklable st then "E:pickle" else
    let (o', h') := setstate s st h
    let shown := sortByKey (o'.map (fun kv => (kv.1, kv.1 ++ ":" ++ showVal h.length h' kv.2)))
    let objS := if shown.isEmpty then "[]" else ",".intercalate (shown.map Prod.snd)
    s!"obj={objS} heap0={showRatList (h'.take h.length)}"
  | _, _, _, _, _ => "bad-op"

def parsePair (f : String → Option α) (s : String) : Option (String × α) :=
  match s.splitOn ":" with
  | [n, v] => (f v).map (fun x => (n, x))
  | _ => none

def showPairs (f : α → String) (l : List (String × α)) : String :=
  if l.isEmpty then "[]" else ",".intercalate (l.map (fun kv => kv.1 ++ ":" ++ f kv.2))

def answerJg (m : List (String × String)) : String :=
  match (items (field m "props")).mapM (parsePair String.toNat?),
        (items (field m "df")).mapM (parsePair parseRat?),
        (items (field m "ns")).mapM (parsePair (fun s => some s)) with
  | some props, some df, some ns =>
    let g : Grammar := { props := props, required := items (field m "req"), defaults := df, toNs := ns }
    match Grammar.setstate g.getstate with
    | none => "E:key"
    | some g' =>
      s!"ok props={showPairs toString g'.props} req={showStrList g'.required} df={showPairs showRat g'.defaults} ns={showPairs id g'.toNs}"
  | _, _, _ => "bad-op"

def parseEntry (s : String) : Option Entry :=
  match s.splitOn ":" with
  | [a, b] => match parseRat? a, parseRat? b with
    | some x, some y => some ⟨x, y⟩
    | _, _ => none
  | _ => none

def parseEntries (s : String) : Option (List Entry) :=
  if s = "" || s = "[]" then some [] else (s.splitOn ";").mapM parseEntry

def showEntries (l : List Entry) : String :=
  if l.isEmpty then "[]" else ";".intercalate (l.map (fun e => showRat e.input ++ ":" ++ showRat e.output))

def addNode (d : Disk) (path node : String) (es : List Entry) : Disk :=
  let f := (GV.C20.get d path).getD []
  GV.C20.set d path (GV.C20.set f node es)

def parseDisk (s : String) : Option Disk :=
  if s = "[]" || s = "" then some [] else
  (s.splitOn "+").foldlM (fun d t =>
    match t.splitOn "=" with
    | [loc, es] => match loc.splitOn "@", parseEntries es with
      | [p, n], some l => some (addNode d p n l)
      | _, _ => none
    | _ => none) []

def answerH5 (m : List (String × String)) : String :=
  match parseDisk (field m "disk"), (field m "cache").splitOn "|" with
  | some d, [tol, p, n, nm] =>
    match parseRat? tol with
    | none => "bad-op"
    | some t =>
      let c0 := HCache.attach d ⟨t, p, n, nm⟩
      let st := c0.getstate                       -- pickle.dumps(c0)
      let mid := field m "mid"                    -- the original writes an entry before the state is restored
      let d := if mid = "_" || mid = "[]" then d else match parseEntry mid with
        | some e => (c0.write d e).1
        | none => d
      let c1 := HCache.setstate d st              -- pickle.loads
      let sees := c1.read d
      let w := field m "write"
      let d' := if w = "_" then d else match parseEntry w with
        | some e => (c1.write d e).1
        | none => d
      let fresh := HCache.attach d' c0.getstate
      s!"c={showRat c1.tol}|{c1.path}|{c1.node}|{c1.name} sees={showEntries sees} after={showEntries (fresh.read d')}"
  | _, _ => "bad-op"

def answer (line : String) : String :=
  match tokens line with
  | "rt" :: rest => answerRt (kvs rest)
  | "jg" :: rest => answerJg (kvs rest)
  | "h5" :: rest => answerH5 (kvs rest)
  | _ => "bad-op"

def main : IO Unit := driverLoop (fun (_ : Unit) l => ((), answer l)) ()
