/-
C18 — RBF network: `predict(x) = Σ_k w_k φ(‖x − c_k‖) + avg`; the Jacobian assembled by
`RBFRegressor._predict_jacobian`, `Σ_k w_k · der(x_j − c_kj, ‖x − c_k‖, eps)`, is the partial derivative
of `predict` with respect to `x_j` as soon as `der` is the derivative of the kernel along a coordinate
(the per-kernel theorems `der_k_correct` of `Analysis/C18Kernels.lean`).
-/
import GemseoVerif.Lemmas.C18Reg
import GemseoVerif.Analysis.C18Kernels

namespace GV.C18

/-- `‖x − c‖²` in dimension `d`. -/
def distSq (d : ℕ) (x c : Vec ℝ) : ℝ := sumTo d (fun i => (x i - c i) ^ 2)

/-- `x` with its `j`-th coordinate replaced by `u`. -/
def upd (x : Vec ℝ) (j : ℕ) (u : ℝ) : Vec ℝ := fun i => if i = j then u else x i

theorem sumTo_nonneg (n : ℕ) (f : ℕ → ℝ) (h : ∀ i, i < n → 0 ≤ f i) : 0 ≤ sumTo n f := by
  induction n with
  | zero => simp [sumTo]
  | succ k ih =>
    simp only [sumTo]
    exact add_nonneg (ih (fun i hi => h i (Nat.lt_succ_of_lt hi))) (h k (Nat.lt_succ_self k))

theorem sumTo_split (n j : ℕ) (hj : j < n) (f : ℕ → ℝ) :
    sumTo n f = f j + sumTo n (fun i => if i = j then 0 else f i) := by
  rw [← sumTo_ite_eq n j hj f, ← sumTo_add]
  exact sumTo_congr (fun i _ => by by_cases h : i = j <;> simp [h])

/-- The sum of the squares of the other coordinates. -/
def restSq (d : ℕ) (x c : Vec ℝ) (j : ℕ) : ℝ :=
  sumTo d (fun i => if i = j then 0 else (x i - c i) ^ 2)

theorem restSq_nonneg (d : ℕ) (x c : Vec ℝ) (j : ℕ) : 0 ≤ restSq d x c j :=
  sumTo_nonneg d _ (fun i _ => by by_cases h : i = j <;> simp [h, sq_nonneg])

theorem distSq_eq (d : ℕ) (x c : Vec ℝ) (j : ℕ) (hj : j < d) :
    distSq d x c = (x j - c j) ^ 2 + restSq d x c j :=
  sumTo_split d j hj _

theorem distSq_upd (d : ℕ) (x c : Vec ℝ) (j : ℕ) (hj : j < d) (u : ℝ) :
    distSq d (upd x j u) c = (u - c j) ^ 2 + restSq d x c j := by
  rw [distSq_eq d (upd x j u) c j hj]
  have h1 : upd x j u j = u := by simp [upd]
  have h2 : restSq d (upd x j u) c j = restSq d x c j := by
    unfold restSq
    exact sumTo_congr (fun i _ => by by_cases h : i = j <;> simp [h, upd])
  rw [h1, h2]

/-- **RBF Jacobian.** If `der` is the derivative of the kernel along a coordinate wherever `side` holds
    for `‖x − c‖²`, then the sum assembled by the code is the partial derivative of the prediction. -/
theorem rbf_partial_derivative (φ : ℝ → ℝ) (der : ℝ → ℝ → ℝ) (side : ℝ → Prop)
    (hslice : ∀ t c s : ℝ, 0 ≤ s → side ((t - c) ^ 2 + s) →
      HasDerivAt (fun u => φ (Real.sqrt ((u - c) ^ 2 + s)))
        (der (t - c) (Real.sqrt ((t - c) ^ 2 + s))) t)
    (n d : ℕ) (centres : ℕ → Vec ℝ) (w : ℕ → Vec ℝ) (avg : Vec ℝ) (x : Vec ℝ) (i j : ℕ)
    (hj : j < d) (hside : ∀ k, k < n → side (distSq d x (centres k))) :
    HasDerivAt
      (fun u => sumTo n (fun k => w k i * φ (Real.sqrt (distSq d (upd x j u) (centres k)))) + avg i)
      (sumTo n (fun k =>
        w k i * der (x j - centres k j) (Real.sqrt (distSq d x (centres k))))) (x j) := by
  have hk : ∀ k, k < n →
      HasDerivAt (fun u => w k i * φ (Real.sqrt (distSq d (upd x j u) (centres k))))
        (w k i * der (x j - centres k j) (Real.sqrt (distSq d x (centres k)))) (x j) := by
    intro k hkn
    have hq : distSq d x (centres k) = (x j - centres k j) ^ 2 + restSq d x (centres k) j :=
      distSq_eq d x (centres k) j hj
    have hs := hslice (x j) (centres k j) (restSq d x (centres k) j)
      (restSq_nonneg d x (centres k) j) (hq ▸ hside k hkn)
    rw [← hq] at hs
    have hfun' : (fun u => w k i * φ (Real.sqrt (distSq d (upd x j u) (centres k))))
        = fun u => w k i * φ (Real.sqrt ((u - centres k j) ^ 2 + restSq d x (centres k) j)) := by
      funext u; rw [distSq_upd d x (centres k) j hj u]
    rw [hfun']
    exact hs.const_mul (w k i)
  exact (hasDerivAt_sumTo n _ _ (x j) hk).add_const (avg i)

end GV.C18
