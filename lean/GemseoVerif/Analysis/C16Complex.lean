/-
C16 — the complex-step quotient of a real polynomial, for every degree:
`Im P(x + ih) = Σ_k (P⁽ᵏ⁾(x)/k!) · hᵏ · Im(iᵏ)`, hence
`Im P(x + ih)/h − P'(x) = h² · Σ_{k≥3} (P⁽ᵏ⁾(x)/k!) · h^{k−3} · Im(iᵏ)`
(`P⁽ᵏ⁾/k!` is Mathlib's Hasse derivative); exact for degree ≤ 2, `−h²·P'''(x)/6` for degree 3.
-/
import Mathlib.Algebra.Polynomial.Taylor
import Mathlib.Algebra.Polynomial.AlgebraMap
import Mathlib.Analysis.Complex.Basic
import Mathlib.Tactic.Ring
import Mathlib.Tactic.Linarith
import Mathlib.Tactic.FieldSimp
import Mathlib.Tactic.NormNum

namespace GV.C16.Analysis

open Polynomial Complex

theorem aeval_shift (P : ℝ[X]) (x : ℝ) (w : ℂ) :
    aeval ((x : ℂ) + w) P = aeval w (taylor x P) := by
  rw [taylor_apply, aeval_comp]
  simp [add_comm]

/-- Taylor expansion of a real polynomial at a complex point `x + w`, over any range covering
    the degree. -/
theorem aeval_taylor_range (P : ℝ[X]) (x : ℝ) (w : ℂ) (N : ℕ) (hN : P.natDegree < N) :
    aeval ((x : ℂ) + w) P =
      ∑ k ∈ Finset.range N, (((hasseDeriv k P).eval x : ℝ) : ℂ) * w ^ k := by
  rw [aeval_shift, aeval_eq_sum_range' (by rwa [natDegree_taylor])]
  refine Finset.sum_congr rfl (fun k _ => ?_)
  rw [taylor_coeff, Algebra.smul_def]
  rfl

theorem I_pow_even_im (j : ℕ) : (I ^ (2 * j)).im = 0 := by
  rw [pow_mul, I_sq]
  have : ((-1 : ℂ)) ^ j = (((-1 : ℝ) ^ j : ℝ) : ℂ) := by push_cast; rfl
  rw [this, ofReal_im]

theorem I_pow_odd_im (j : ℕ) : (I ^ (2 * j + 1)).im = (-1) ^ j := by
  rw [pow_succ, pow_mul, I_sq]
  have : ((-1 : ℂ)) ^ j = (((-1 : ℝ) ^ j : ℝ) : ℂ) := by push_cast; rfl
  rw [this, im_ofReal_mul, I_im, mul_one]

/-- **Imaginary part of a real polynomial at `x + ih`, all degrees.** -/
theorem cs_im_expansion (P : ℝ[X]) (x h : ℝ) (N : ℕ) (hN : P.natDegree < N) :
    (aeval ((x : ℂ) + (h : ℂ) * I) P).im =
      ∑ k ∈ Finset.range N, (hasseDeriv k P).eval x * h ^ k * (I ^ k).im := by
  rw [aeval_taylor_range P x _ N hN, im_sum]
  refine Finset.sum_congr rfl (fun k _ => ?_)
  rw [mul_pow, ← ofReal_pow, im_ofReal_mul, im_ofReal_mul]
  ring

/-- The explicit remainder of the complex-step quotient: `Σ_{3 ≤ k < N} (P⁽ᵏ⁾(x)/k!) h^{k-3} Im(iᵏ)`
    (only odd `k` contribute, with signs `(-1)^((k-1)/2)`: `I_pow_even_im`, `I_pow_odd_im`). -/
noncomputable def csRemainder (P : ℝ[X]) (x h : ℝ) (N : ℕ) : ℝ :=
  ∑ k ∈ Finset.range N,
    if 3 ≤ k then (hasseDeriv k P).eval x * h ^ (k - 3) * (I ^ k).im else 0

/-- **Complex step on real polynomials of any degree is exact up to `h²`**, with an explicit
    polynomial remainder in `h`. -/
theorem cs_exact_up_to_h2 (P : ℝ[X]) (x h : ℝ) (hh : h ≠ 0) (N : ℕ) (hN : P.natDegree < N)
    (hN2 : 2 ≤ N) :
    (aeval ((x : ℂ) + (h : ℂ) * I) P).im / h - P.derivative.eval x
      = h ^ 2 * csRemainder P x h N := by
  have hterm : ∀ k : ℕ, (hasseDeriv k P).eval x * h ^ k * (I ^ k).im =
      (if k = 1 then h * P.derivative.eval x else 0) +
        h ^ 3 * (if 3 ≤ k then (hasseDeriv k P).eval x * h ^ (k - 3) * (I ^ k).im else 0) := by
    intro k
    match k with
    | 0 => simp
    | 1 => simp [hasseDeriv_one]; ring
    | 2 => simp [I_sq]
    | k + 3 =>
      have e : h ^ (k + 3) = h ^ 3 * h ^ k := by rw [pow_add]; ring
      have h1 : ¬ (k + 3 = 1) := by omega
      have h3 : 3 ≤ k + 3 := by omega
      rw [if_neg h1, if_pos h3, Nat.add_sub_cancel, e]
      ring
  rw [cs_im_expansion P x h N hN, Finset.sum_congr rfl (fun k _ => hterm k),
    Finset.sum_add_distrib, Finset.sum_ite_eq', ← Finset.mul_sum]
  have h1 : 1 ∈ Finset.range N := Finset.mem_range.mpr (by omega)
  simp only [h1, if_true, csRemainder]
  field_simp
  ring

/-- Degree ≤ 2: the complex step is exact for every step. -/
theorem cs_exact_deg_le_two (P : ℝ[X]) (x h : ℝ) (hh : h ≠ 0) (hdeg : P.natDegree ≤ 2) :
    (aeval ((x : ℂ) + (h : ℂ) * I) P).im / h = P.derivative.eval x := by
  have := cs_exact_up_to_h2 P x h hh 3 (by omega) (by omega)
  have hR : csRemainder P x h 3 = 0 := by
    unfold csRemainder
    apply Finset.sum_eq_zero
    intro k hk
    have : k < 3 := Finset.mem_range.mp hk
    simp [Nat.not_le.mpr this]
  rw [hR, mul_zero] at this
  linarith

/-- Degree ≤ 3: the error is exactly `−h² · P'''(x)/6`. -/
theorem cs_error_deg_le_three (P : ℝ[X]) (x h : ℝ) (hh : h ≠ 0) (hdeg : P.natDegree ≤ 3) :
    (aeval ((x : ℂ) + (h : ℂ) * I) P).im / h - P.derivative.eval x
      = -(h ^ 2 * ((derivative^[3] P).eval x / 6)) := by
  rw [cs_exact_up_to_h2 P x h hh 4 (by omega) (by omega)]
  have hR : csRemainder P x h 4 = -((hasseDeriv 3 P).eval x) := by
    unfold csRemainder
    simp [Finset.sum_range_succ]
  have h6 : (derivative^[3] P).eval x = 6 * (hasseDeriv 3 P).eval x := by
    have := congrFun (factorial_smul_hasseDeriv (R := ℝ) 3) P
    rw [← this]
    simp [Nat.factorial]
  rw [hR, h6]
  ring

end GV.C16.Analysis
