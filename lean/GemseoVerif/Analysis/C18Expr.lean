/-
C18 — real semantics of `Expr` and correctness of the symbolic differentiator:

  `Expr.diff_correct : e.ok ρ t → HasDerivAt (fun s => e.ev (set0 ρ s)) (e.diff.ev (set0 ρ t)) t`

(`set0 ρ s` = the environment `ρ` with `var 0 := s`; all other variables are parameters).
-/
import GemseoVerif.Model.C18
import Mathlib.Analysis.Calculus.Deriv.Add
import Mathlib.Analysis.Calculus.Deriv.Mul
import Mathlib.Analysis.Calculus.Deriv.Inv
import Mathlib.Analysis.Calculus.Deriv.Pow
import Mathlib.Analysis.SpecialFunctions.Sqrt
import Mathlib.Analysis.SpecialFunctions.ExpDeriv
import Mathlib.Analysis.SpecialFunctions.Log.Deriv
import Mathlib.Tactic.FieldSimp
import Mathlib.Tactic.Ring

namespace GV.C18

/-- The environment `ρ` with `var 0 := s`. -/
def set0 (ρ : ℕ → ℝ) (s : ℝ) : ℕ → ℝ
  | 0 => s
  | i + 1 => ρ (i + 1)

@[simp] theorem set0_zero (ρ : ℕ → ℝ) (s : ℝ) : set0 ρ s 0 = s := rfl
@[simp] theorem set0_succ (ρ : ℕ → ℝ) (s : ℝ) (i : ℕ) : set0 ρ s (i + 1) = ρ (i + 1) := rfl

namespace Expr

/-- Real value of an expression. `gt a b` is the indicator of `a > b`. -/
noncomputable def ev (ρ : ℕ → ℝ) : Expr → ℝ
  | const c => (c : ℝ)
  | var i => ρ i
  | add a b => a.ev ρ + b.ev ρ
  | sub a b => a.ev ρ - b.ev ρ
  | mul a b => a.ev ρ * b.ev ρ
  | div a b => a.ev ρ / b.ev ρ
  | neg a => -(a.ev ρ)
  | sqrt a => Real.sqrt (a.ev ρ)
  | exp a => Real.exp (a.ev ρ)
  | log a => Real.log (a.ev ρ)
  | pow a n => (a.ev ρ) ^ n
  | gt a b => if b.ev ρ < a.ev ρ then 1 else 0

/-- Side conditions under which `diff` is the derivative: no vanishing divisor, no vanishing argument
    of `√` (not differentiable at 0) or `log`, no comparison. -/
def ok (ρ : ℕ → ℝ) : Expr → Prop
  | const _ => True
  | var _ => True
  | add a b => a.ok ρ ∧ b.ok ρ
  | sub a b => a.ok ρ ∧ b.ok ρ
  | mul a b => a.ok ρ ∧ b.ok ρ
  | div a b => a.ok ρ ∧ b.ok ρ ∧ b.ev ρ ≠ 0
  | neg a => a.ok ρ
  | sqrt a => a.ok ρ ∧ a.ev ρ ≠ 0
  | exp a => a.ok ρ
  | log a => a.ok ρ ∧ a.ev ρ ≠ 0
  | pow a _ => a.ok ρ
  | gt _ _ => False

/-- **The symbolic differentiator is correct.** -/
theorem diff_correct (ρ : ℕ → ℝ) (t : ℝ) :
    ∀ e : Expr, e.ok (set0 ρ t) →
      HasDerivAt (fun s => e.ev (set0 ρ s)) (e.diff.ev (set0 ρ t)) t
  | const c, _ => by
      simpa [ev, diff] using hasDerivAt_const t (c : ℝ)
  | var 0, _ => by
      simpa [ev, diff] using hasDerivAt_id' t
  | var (i + 1), _ => by
      simpa [ev, diff] using hasDerivAt_const t (ρ (i + 1))
  | add a b, h => by
      simpa [ev, diff] using (diff_correct ρ t a h.1).fun_add (diff_correct ρ t b h.2)
  | sub a b, h => by
      simpa [ev, diff] using (diff_correct ρ t a h.1).fun_sub (diff_correct ρ t b h.2)
  | mul a b, h => by
      simpa [ev, diff] using (diff_correct ρ t a h.1).fun_mul (diff_correct ρ t b h.2)
  | div a b, h => by
      have := (diff_correct ρ t a h.1).fun_div (diff_correct ρ t b h.2.1) h.2.2
      simpa [ev, diff, pow_two] using this
  | neg a, h => by
      simpa [ev, diff] using (diff_correct ρ t a h).fun_neg
  | sqrt a, h => by
      have := (diff_correct ρ t a h.1).sqrt h.2
      simpa [ev, diff] using this
  | exp a, h => by
      have := (diff_correct ρ t a h).exp
      simpa [ev, diff, mul_comm] using this
  | log a, h => by
      have := (diff_correct ρ t a h.1).log h.2
      simpa [ev, diff] using this
  | pow a 0, _ => by
      simpa [ev, diff] using hasDerivAt_const t (1 : ℝ)
  | pow a (n + 1), h => by
      have := (diff_correct ρ t a h).fun_pow (n + 1)
      simpa [ev, diff] using this
  | gt _ _, h => absurd h (by simp [ok])

end Expr

end GV.C18
