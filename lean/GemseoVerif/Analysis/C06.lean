/-
C06 — fixed-point analysis behind "every MDA algorithm converges to the multidisciplinary fixed point".

Abstract setting (no floating point, no particular discipline):
* a complete metric space of coupling values and a contraction `G` (Mathlib `ContractingWith`): what a
  passed residual test implies for the returned couplings, whatever produced the iterate;
* `n` disciplines `f i : (∀ j, E j) → E i` over a finite index type with the sup metric: the Jacobi sweep,
  the Gauss–Seidel sweep in an arbitrary listed order, their Lipschitz constants and fixed points;
* relaxation in a normed space (the textbook one and the two-step one GEMSEO implements);
* Newton's step on an affine system.
-/
import Mathlib.Topology.MetricSpace.Contracting
import Mathlib.Topology.MetricSpace.Pseudo.Pi
import Mathlib.Analysis.Normed.Module.Basic
import Mathlib.Algebra.Order.Archimedean.Basic
import Mathlib.Algebra.Module.LinearMap.Defs
import Mathlib.Tactic.Linarith
import Mathlib.Tactic.Ring
import Mathlib.Tactic.Positivity
import Mathlib.Tactic.FieldSimp

open Function
open scoped NNReal

namespace GV.C06.Analysis

-- ------------------------------------------------------------------ a contraction and a passed residual test
section Contraction

variable {α : Type*} [MetricSpace α] {K : ℝ≥0} {G : α → α}

/-- The returned couplings of a fixed-point MDA are `G y` for the last iterate `y`; if the residual test
    `dist (G y) y ≤ ε` passed, re-executing the disciplines on the returned data moves them by at most `K·ε`. -/
theorem reexecution_le (hG : ContractingWith K G) (y : α) {ε : ℝ} (h : dist (G y) y ≤ ε) :
    dist (G (G y)) (G y) ≤ K * ε :=
  le_trans (hG.toLipschitzWith.dist_le_mul (G y) y) (mul_le_mul_of_nonneg_left h K.coe_nonneg)

/-- A point with a small residual is close to any fixed point. -/
theorem dist_fixed_le_of_residual (hG : ContractingWith K G) {x : α} (hx : IsFixedPt G x) (y : α) {ε : ℝ}
    (h : dist y (G y) ≤ ε) : dist y x ≤ ε / (1 - K) :=
  le_trans (hG.dist_le_of_fixedPoint y hx) (div_le_div_of_nonneg_right h hG.one_sub_K_pos.le)

/-- Distance of the *returned* couplings `G y` to the solution when the residual test passed at `y`. -/
theorem returned_dist_fixed_le (hG : ContractingWith K G) {x : α} (hx : IsFixedPt G x) (y : α) {ε : ℝ}
    (h : dist (G y) y ≤ ε) : dist (G y) x ≤ K / (1 - K) * ε := by
  have h1 : dist (G y) x ≤ K * dist y x := by
    have := hG.toLipschitzWith.dist_le_mul y x
    rwa [hx.eq] at this
  have h2 : dist y x ≤ ε / (1 - K) := dist_fixed_le_of_residual hG hx y (by rwa [dist_comm])
  calc dist (G y) x ≤ K * dist y x := h1
    _ ≤ K * (ε / (1 - K)) := mul_le_mul_of_nonneg_left h2 K.coe_nonneg
    _ = K / (1 - K) * ε := by ring

/-- Two runs (any algorithm, acceleration, relaxation, order, start) that both passed their residual test
    return couplings that agree within `K/(1-K)·(ε₁+ε₂)`. -/
theorem returned_agree (hG : ContractingWith K G) {x : α} (hx : IsFixedPt G x) (y₁ y₂ : α) {ε₁ ε₂ : ℝ}
    (h₁ : dist (G y₁) y₁ ≤ ε₁) (h₂ : dist (G y₂) y₂ ≤ ε₂) :
    dist (G y₁) (G y₂) ≤ K / (1 - K) * (ε₁ + ε₂) := by
  have a := returned_dist_fixed_le hG hx y₁ h₁
  have b := returned_dist_fixed_le hG hx y₂ h₂
  calc dist (G y₁) (G y₂) ≤ dist (G y₁) x + dist (G y₂) x := dist_triangle_right _ _ _
    _ ≤ K / (1 - K) * ε₁ + K / (1 - K) * ε₂ := add_le_add a b
    _ = K / (1 - K) * (ε₁ + ε₂) := by ring

/-- The plain fixed-point iteration passes any positive residual test after finitely many sweeps. -/
theorem plain_iteration_passes (hG : ContractingWith K G) (x : α) {ε : ℝ} (hε : 0 < ε) :
    ∃ n : ℕ, dist (G^[n + 1] x) (G^[n] x) ≤ ε := by
  have hK : (K : ℝ) < 1 := by exact_mod_cast hG.1
  by_cases hd : dist x (G x) = 0
  · exact ⟨0, by simpa [dist_comm] using (le_of_eq hd).trans hε.le⟩
  · have hdpos : 0 < dist x (G x) := lt_of_le_of_ne dist_nonneg (Ne.symm hd)
    obtain ⟨n, hn⟩ := exists_pow_lt_of_lt_one (div_pos hε hdpos) hK
    refine ⟨n, ?_⟩
    have := hG.toLipschitzWith.dist_iterate_succ_le_geometric x n
    rw [dist_comm]
    refine le_trans this ?_
    have : (K : ℝ) ^ n ≤ ε / dist x (G x) := hn.le
    calc dist x (G x) * (K : ℝ) ^ n ≤ dist x (G x) * (ε / dist x (G x)) :=
          mul_le_mul_of_nonneg_left this hdpos.le
      _ = ε := by field_simp

end Contraction

-- ------------------------------------------------------------------ n disciplines: Jacobi and Gauss–Seidel sweeps
section Sweeps

variable {ι : Type*} [Fintype ι] [DecidableEq ι] {E : ι → Type*} [∀ i, MetricSpace (E i)]

/-- Every discipline is evaluated at the same point (`MDAJacobi`). -/
def jacobi (f : ∀ i, (∀ j, E j) → E i) (y : ∀ j, E j) : ∀ i, E i := fun i => f i y

/-- Discipline `i` is executed and its output written (`discipline.execute(data); data.update(...)`). -/
def gsStep (f : ∀ i, (∀ j, E j) → E i) (i : ι) (y : ∀ j, E j) : ∀ j, E j := update y i (f i y)

/-- The disciplines are executed in the listed order, each one seeing the outputs of the previous ones. -/
def gsSweep (f : ∀ i, (∀ j, E j) → E i) : List ι → (∀ j, E j) → (∀ j, E j)
  | [], y => y
  | i :: l, y => gsSweep f l (gsStep f i y)

variable {f : ∀ i, (∀ j, E j) → E i} {K : ℝ≥0}

omit [DecidableEq ι] in
theorem jacobi_lipschitz (hf : ∀ i, LipschitzWith K (f i)) : LipschitzWith K (jacobi f) := by
  refine LipschitzWith.of_dist_le_mul fun y z => ?_
  refine (dist_pi_le_iff (mul_nonneg K.coe_nonneg dist_nonneg)).2 fun i => ?_
  exact (hf i).dist_le_mul y z

omit [Fintype ι] [DecidableEq ι] [∀ i, MetricSpace (E i)] in
theorem isFixedPt_jacobi_iff (y : ∀ j, E j) : IsFixedPt (jacobi f) y ↔ ∀ i, f i y = y i := by
  constructor
  · intro h i; exact congrFun h i
  · intro h; funext i; exact h i

omit [Fintype ι] [∀ i, MetricSpace (E i)] in
/-- A point that satisfies every discipline is left unchanged by a Gauss–Seidel sweep in any order. -/
theorem gsSweep_of_consistent (l : List ι) (y : ∀ j, E j) (h : ∀ i, f i y = y i) : gsSweep f l y = y := by
  induction l with
  | nil => rfl
  | cons i l ih =>
    have : gsStep f i y = y := by
      unfold gsStep; rw [h i]; exact update_eq_self i y
    simp only [gsSweep, this, ih]

/-- Invariant of a Gauss–Seidel sweep applied to two points: all components stay within `d`, the components
    already recomputed (and those recomputed by the sweep) are within `K·d`. -/
theorem gsSweep_dist_aux (hf : ∀ i, LipschitzWith K (f i)) (hK : K ≤ 1) (d : ℝ) (hd : 0 ≤ d) :
    ∀ (l : List ι) (S : ι → Prop) (y z : ∀ j, E j),
      (∀ j, dist (y j) (z j) ≤ d) → (∀ j, S j → dist (y j) (z j) ≤ K * d) →
      (∀ j, dist (gsSweep f l y j) (gsSweep f l z j) ≤ d) ∧
      (∀ j, (S j ∨ j ∈ l) → dist (gsSweep f l y j) (gsSweep f l z j) ≤ K * d) := by
  intro l
  induction l with
  | nil =>
    intro S y z h1 h2
    refine ⟨h1, fun j hj => ?_⟩
    rcases hj with hj | hj
    · exact h2 j hj
    · simp at hj
  | cons i l ih =>
    intro S y z h1 h2
    have hyz : dist y z ≤ d := (dist_pi_le_iff hd).2 h1
    have hi : dist (f i y) (f i z) ≤ K * d :=
      le_trans ((hf i).dist_le_mul y z) (mul_le_mul_of_nonneg_left hyz K.coe_nonneg)
    have hKd : (K : ℝ) * d ≤ d := by
      have : (K : ℝ) ≤ 1 := by exact_mod_cast hK
      nlinarith
    have h1' : ∀ j, dist (gsStep f i y j) (gsStep f i z j) ≤ d := by
      intro j
      by_cases hj : j = i
      · subst hj; simp only [gsStep, update_self]; exact le_trans hi hKd
      · simp only [gsStep, update_of_ne hj]; exact h1 j
    have h2' : ∀ j, (S j ∨ j = i) → dist (gsStep f i y j) (gsStep f i z j) ≤ K * d := by
      intro j hj
      by_cases hji : j = i
      · subst hji; simp only [gsStep, update_self]; exact hi
      · simp only [gsStep, update_of_ne hji]
        rcases hj with hj | hj
        · exact h2 j hj
        · exact absurd hj hji
    obtain ⟨r1, r2⟩ := ih (fun j => S j ∨ j = i) (gsStep f i y) (gsStep f i z) h1' h2'
    refine ⟨r1, fun j hj => r2 j ?_⟩
    rcases hj with hj | hj
    · exact Or.inl (Or.inl hj)
    · rcases List.mem_cons.mp hj with hj | hj
      · exact Or.inl (Or.inr hj)
      · exact Or.inr hj

/-- A Gauss–Seidel sweep over a listing that contains every discipline is `K`-Lipschitz for the sup metric
    when every discipline is (`K ≤ 1`), whatever the order and even if disciplines are listed several times. -/
theorem gsSweep_lipschitz (hf : ∀ i, LipschitzWith K (f i)) (hK : K ≤ 1) (l : List ι) (hl : ∀ i, i ∈ l) :
    LipschitzWith K (gsSweep f l) := by
  refine LipschitzWith.of_dist_le_mul fun y z => ?_
  refine (dist_pi_le_iff (mul_nonneg K.coe_nonneg dist_nonneg)).2 fun j => ?_
  exact (gsSweep_dist_aux hf hK (dist y z) dist_nonneg l (fun _ => False) y z
    (fun j => dist_le_pi_dist y z j) (fun _ h => h.elim)).2 j (Or.inr (hl j))

omit [DecidableEq ι] in
theorem jacobi_contracting (hf : ∀ i, LipschitzWith K (f i)) (hK : K < 1) : ContractingWith K (jacobi f) :=
  ⟨hK, jacobi_lipschitz hf⟩

theorem gsSweep_contracting (hf : ∀ i, LipschitzWith K (f i)) (hK : K < 1) (l : List ι) (hl : ∀ i, i ∈ l) :
    ContractingWith K (gsSweep f l) :=
  ⟨hK, gsSweep_lipschitz hf hK.le l hl⟩

/-- Gauss–Seidel in any order and Jacobi have the same fixed points: exactly the points that satisfy every
    discipline (`K < 1`; the `←` direction needs no hypothesis, see `gsSweep_of_consistent`). -/
theorem isFixedPt_gsSweep_iff (hf : ∀ i, LipschitzWith K (f i)) (hK : K < 1) (l : List ι) (hl : ∀ i, i ∈ l)
    [CompleteSpace (∀ j, E j)] [Nonempty (∀ j, E j)] (y : ∀ j, E j) :
    IsFixedPt (gsSweep f l) y ↔ ∀ i, f i y = y i := by
  constructor
  · intro h
    have hJ := jacobi_contracting hf hK
    have hS := gsSweep_contracting hf hK l hl
    -- the Jacobi fixed point satisfies every discipline, hence is a Gauss–Seidel fixed point; uniqueness
    have hx : ∀ i, f i (ContractingWith.fixedPoint (jacobi f) hJ) = ContractingWith.fixedPoint (jacobi f) hJ i :=
      (isFixedPt_jacobi_iff _).1 (ContractingWith.fixedPoint_isFixedPt hJ)
    have hx' : IsFixedPt (gsSweep f l) (ContractingWith.fixedPoint (jacobi f) hJ) :=
      gsSweep_of_consistent l _ hx
    have : y = ContractingWith.fixedPoint (jacobi f) hJ := hS.fixedPoint_unique' h hx'
    rw [this]; exact hx
  · exact gsSweep_of_consistent l y

/-- The converged solution does not depend on the order in which the disciplines are listed, nor on the
    choice between Jacobi and Gauss–Seidel. -/
theorem order_independent (hf : ∀ i, LipschitzWith K (f i)) (hK : K < 1) (l₁ l₂ : List ι)
    (h₁ : ∀ i, i ∈ l₁) (h₂ : ∀ i, i ∈ l₂) [CompleteSpace (∀ j, E j)] [Nonempty (∀ j, E j)] :
    ContractingWith.fixedPoint (gsSweep f l₁) (gsSweep_contracting hf hK l₁ h₁)
      = ContractingWith.fixedPoint (gsSweep f l₂) (gsSweep_contracting hf hK l₂ h₂) ∧
    ContractingWith.fixedPoint (gsSweep f l₁) (gsSweep_contracting hf hK l₁ h₁)
      = ContractingWith.fixedPoint (jacobi f) (jacobi_contracting hf hK) := by
  have hJ := jacobi_contracting hf hK
  have hx : ∀ i, f i (ContractingWith.fixedPoint (jacobi f) hJ) = ContractingWith.fixedPoint (jacobi f) hJ i :=
    (isFixedPt_jacobi_iff _).1 (ContractingWith.fixedPoint_isFixedPt hJ)
  have e₁ := ContractingWith.fixedPoint_unique (gsSweep_contracting hf hK l₁ h₁) (gsSweep_of_consistent l₁ _ hx)
  have e₂ := ContractingWith.fixedPoint_unique (gsSweep_contracting hf hK l₂ h₂) (gsSweep_of_consistent l₂ _ hx)
  exact ⟨e₁.symm.trans e₂, e₁.symm⟩

end Sweeps

-- ------------------------------------------------------------------ relaxation
section Relaxation

variable {V : Type*} [NormedAddCommGroup V] [NormedSpace ℝ V]

/-- Textbook relaxation `x ↦ ω·G x + (1-ω)·x`. -/
def relax (ω : ℝ) (G : V → V) (x : V) : V := ω • G x + (1 - ω) • x

theorem relax_fixed_iff {ω : ℝ} (hω : ω ≠ 0) (G : V → V) (x : V) : relax ω G x = x ↔ G x = x := by
  unfold relax
  constructor
  · intro h
    have h1 : ω • (G x - x) = 0 := by
      have : ω • G x + (1 - ω) • x - x = 0 := by rw [h]; simp
      rw [← this]; simp only [smul_sub, sub_smul, one_smul]; abel
    rcases smul_eq_zero.mp h1 with h2 | h2
    · exact absurd h2 hω
    · exact sub_eq_zero.mp h2
  · intro h; rw [h]; rw [← add_smul]; simp

theorem relax_lipschitz {K : ℝ≥0} {G : V → V} (hG : LipschitzWith K G) {ω : ℝ} (x y : V) :
    ‖relax ω G x - relax ω G y‖ ≤ (|ω| * K + |1 - ω|) * ‖x - y‖ := by
  have e : relax ω G x - relax ω G y = ω • (G x - G y) + (1 - ω) • (x - y) := by
    unfold relax; simp only [smul_sub]; abel
  have hg : ‖G x - G y‖ ≤ K * ‖x - y‖ := by simpa [dist_eq_norm] using hG.dist_le_mul x y
  calc ‖relax ω G x - relax ω G y‖ = ‖ω • (G x - G y) + (1 - ω) • (x - y)‖ := by rw [e]
    _ ≤ ‖ω • (G x - G y)‖ + ‖(1 - ω) • (x - y)‖ := norm_add_le _ _
    _ = |ω| * ‖G x - G y‖ + |1 - ω| * ‖x - y‖ := by rw [norm_smul, norm_smul, Real.norm_eq_abs, Real.norm_eq_abs]
    _ ≤ |ω| * (K * ‖x - y‖) + |1 - ω| * ‖x - y‖ := by
        have := mul_le_mul_of_nonneg_left hg (abs_nonneg ω); linarith
    _ = (|ω| * K + |1 - ω|) * ‖x - y‖ := by ring

/-- What GEMSEO's `OverRelaxation` does: it combines the last two images, `x_{n+2} = ω·G x_{n+1} + (1-ω)·G x_n`.
    A stationary point of that recurrence is a fixed point of `G` (for every `ω`). -/
theorem two_step_stationary_iff (ω : ℝ) (G : V → V) (x : V) : ω • G x + (1 - ω) • G x = x ↔ G x = x := by
  rw [← add_smul]; simp

/-- Error recurrence of the two-step relaxation around a fixed point `s` of a `K`-Lipschitz map. -/
theorem two_step_error_le {K : ℝ≥0} {G : V → V} (hG : LipschitzWith K G) {s : V} (hs : G s = s) (ω : ℝ)
    (a b : V) :
    ‖(ω • G b + (1 - ω) • G a) - s‖ ≤ K * (|ω| * ‖b - s‖ + |1 - ω| * ‖a - s‖) := by
  have e : (ω • G b + (1 - ω) • G a) - s = ω • (G b - G s) + (1 - ω) • (G a - G s) := by
    rw [hs]; simp only [smul_sub, sub_smul, one_smul]; abel
  have hb : ‖G b - G s‖ ≤ K * ‖b - s‖ := by simpa [dist_eq_norm] using hG.dist_le_mul b s
  have ha : ‖G a - G s‖ ≤ K * ‖a - s‖ := by simpa [dist_eq_norm] using hG.dist_le_mul a s
  calc ‖(ω • G b + (1 - ω) • G a) - s‖ = ‖ω • (G b - G s) + (1 - ω) • (G a - G s)‖ := by rw [e]
    _ ≤ ‖ω • (G b - G s)‖ + ‖(1 - ω) • (G a - G s)‖ := norm_add_le _ _
    _ = |ω| * ‖G b - G s‖ + |1 - ω| * ‖G a - G s‖ := by
        rw [norm_smul, norm_smul, Real.norm_eq_abs, Real.norm_eq_abs]
    _ ≤ |ω| * (K * ‖b - s‖) + |1 - ω| * (K * ‖a - s‖) := by
        have h1 := mul_le_mul_of_nonneg_left hb (abs_nonneg ω)
        have h2 := mul_le_mul_of_nonneg_left ha (abs_nonneg (1 - ω))
        linarith
    _ = K * (|ω| * ‖b - s‖ + |1 - ω| * ‖a - s‖) := by ring

/-- Convergence of the two-step relaxation: with `q = K·(|ω| + |1-ω|) < 1` the error is at most
    `q^(n/2)·max(e₀, e₁)`. -/
theorem two_step_converges {K : ℝ≥0} {G : V → V} (hG : LipschitzWith K G) {s : V} (hs : G s = s) (ω : ℝ)
    (x : ℕ → V) (hx : ∀ n, x (n + 2) = ω • G (x (n + 1)) + (1 - ω) • G (x n))
    (q M : ℝ) (hq : q = K * (|ω| + |1 - ω|)) (hq1 : q ≤ 1) (h0 : ‖x 0 - s‖ ≤ M) (h1 : ‖x 1 - s‖ ≤ M) :
    ∀ n, ‖x n - s‖ ≤ q ^ (n / 2) * M := by
  have hq0 : 0 ≤ q := by rw [hq]; positivity
  have hM : 0 ≤ M := le_trans (norm_nonneg _) h0
  intro n
  induction n using Nat.strong_induction_on with
  | _ n ih =>
    match n with
    | 0 => simpa using h0
    | 1 => simpa using h1
    | n + 2 =>
      have ea := ih n (by omega)
      have eb := ih (n + 1) (by omega)
      have hpow : q ^ ((n + 1) / 2) ≤ q ^ (n / 2) :=
        pow_le_pow_of_le_one hq0 hq1 (Nat.div_le_div_right (by omega))
      have eb' : ‖x (n + 1) - s‖ ≤ q ^ (n / 2) * M :=
        le_trans eb (mul_le_mul_of_nonneg_right hpow hM)
      have key := two_step_error_le hG hs ω (x n) (x (n + 1))
      rw [hx n]
      have e2 : (n + 2) / 2 = n / 2 + 1 := by omega
      rw [e2, pow_succ]
      set B := q ^ (n / 2) * M with hB
      have hB0 : 0 ≤ B := by positivity
      calc ‖ω • G (x (n + 1)) + (1 - ω) • G (x n) - s‖
          ≤ K * (|ω| * ‖x (n + 1) - s‖ + |1 - ω| * ‖x n - s‖) := key
        _ ≤ K * (|ω| * B + |1 - ω| * B) := by
            have h1 := mul_le_mul_of_nonneg_left eb' (abs_nonneg ω)
            have h2 := mul_le_mul_of_nonneg_left ea (abs_nonneg (1 - ω))
            exact mul_le_mul_of_nonneg_left (by linarith) K.coe_nonneg
        _ = q * B := by rw [hq]; ring
        _ = q ^ (n / 2) * q * M := by rw [hB]; ring

end Relaxation

-- ------------------------------------------------------------------ Newton on an affine system
section Newton

variable {𝕜 W : Type*} [Field 𝕜] [AddCommGroup W] [Module 𝕜 W]

/-- `MDANewtonRaphson` on affine disciplines `G y = A y + b`: the Newton step `s` solves
    `(A - I) s = -(G y - y)` (the residual Jacobian is `A - I`); then `y + s` is an exact solution, from any `y`. -/
theorem newton_affine_one_step (A : W →ₗ[𝕜] W) (b y s : W)
    (hs : A s - s = -((A y + b) - y)) : A (y + s) + b = y + s := by
  have : A (y + s) + b - (y + s) = (A s - s) + ((A y + b) - y) := by rw [map_add]; abel
  have h0 : A (y + s) + b - (y + s) = 0 := by rw [this, hs]; abel
  exact sub_eq_zero.mp h0

end Newton

end GV.C06.Analysis
