/-
C10 — real-analysis model of the smooth maximum aggregations of
src/gemseo/algos/aggregation/core.py (noncomputable, ℝ).

The code evaluates, with `g = scale * selected constraint values`, `K = len(g)`, `m = max(g)`:
  upper-bound KS   `m + (1/rho) * log(sum(exp(rho * (g + 1 - m)))) - 1`
  lower-bound KS   upper-bound KS `- log(K) / rho`
  IKS              `sum(g * exp(rho * (g + 1 - m))) / sum(exp(rho * (g + 1 - m)))`
The shift `m` only conditions the floating-point evaluation: the formulas do not depend on it
(`ksUpper_shift`, `iks_shift`), which is also why the code may differentiate them as if `m` were
a constant.
-/
import Mathlib.Analysis.SpecialFunctions.Log.Basic
import Mathlib.Analysis.SpecialFunctions.Log.Deriv
import Mathlib.Analysis.SpecialFunctions.ExpDeriv
import Mathlib.Algebra.Order.BigOperators.Group.Finset
import Mathlib.Algebra.BigOperators.Field
import Mathlib.Tactic.FieldSimp
import Mathlib.Tactic.Linarith
import Mathlib.Tactic.Positivity

namespace GV.C10.Agg

open Finset

/-- The sum of exponentials of the code, shifted by `m`. -/
noncomputable def expSum (ρ : ℝ) (K : ℕ) (g : ℕ → ℝ) (m : ℝ) : ℝ :=
  ∑ k ∈ range K, Real.exp (ρ * (g k + 1 - m))

/-- `compute_upper_bound_ks_agg` (after scaling and selection). -/
noncomputable def ksUpper (ρ : ℝ) (K : ℕ) (g : ℕ → ℝ) (m : ℝ) : ℝ :=
  m + (1 / ρ) * Real.log (expSum ρ K g m) - 1

/-- `compute_lower_bound_ks_agg`. -/
noncomputable def ksLower (ρ : ℝ) (K : ℕ) (g : ℕ → ℝ) (m : ℝ) : ℝ :=
  ksUpper ρ K g m - Real.log K / ρ

/-- `compute_iks_agg`. -/
noncomputable def iks (ρ : ℝ) (K : ℕ) (g : ℕ → ℝ) (m : ℝ) : ℝ :=
  (∑ k ∈ range K, g k * Real.exp (ρ * (g k + 1 - m))) / expSum ρ K g m

/-- The textbook Kreisselmeier–Steinhauser function `(1/rho) log sum_k exp(rho g_k)`. -/
noncomputable def ksPlain (ρ : ℝ) (K : ℕ) (g : ℕ → ℝ) : ℝ :=
  (1 / ρ) * Real.log (∑ k ∈ range K, Real.exp (ρ * g k))

theorem expSum_pos (ρ : ℝ) {K : ℕ} (hK : 0 < K) (g : ℕ → ℝ) (m : ℝ) : 0 < expSum ρ K g m :=
  sum_pos (fun _ _ => Real.exp_pos _) (nonempty_range_iff.2 (Nat.pos_iff_ne_zero.1 hK))

theorem expSum_factor (ρ : ℝ) (K : ℕ) (g : ℕ → ℝ) (m : ℝ) :
    expSum ρ K g m = Real.exp (ρ * (1 - m)) * ∑ k ∈ range K, Real.exp (ρ * g k) := by
  unfold expSum
  rw [mul_sum]
  refine sum_congr rfl (fun k _ => ?_)
  rw [← Real.exp_add]; congr 1; ring

/-- The value computed by the code does not depend on the shift `m`: it is the textbook KS. -/
theorem ksUpper_shift {ρ : ℝ} (hρ : ρ ≠ 0) {K : ℕ} (hK : 0 < K) (g : ℕ → ℝ) (m : ℝ) :
    ksUpper ρ K g m = ksPlain ρ K g := by
  have hS : 0 < ∑ k ∈ range K, Real.exp (ρ * g k) :=
    sum_pos (fun _ _ => Real.exp_pos _) (nonempty_range_iff.2 (Nat.pos_iff_ne_zero.1 hK))
  unfold ksUpper ksPlain
  rw [expSum_factor, Real.log_mul (Real.exp_pos _).ne' hS.ne', Real.log_exp]
  field_simp
  ring

/-- **Upper-bound KS is an upper bound of the maximum**: it dominates every aggregated value. -/
theorem ksUpper_ge {ρ : ℝ} (hρ : 0 < ρ) {K : ℕ} (g : ℕ → ℝ) (m : ℝ) {k : ℕ} (hk : k < K) :
    g k ≤ ksUpper ρ K g m := by
  have hK : 0 < K := by omega
  rw [ksUpper_shift hρ.ne' hK]
  unfold ksPlain
  have hle : Real.exp (ρ * g k) ≤ ∑ j ∈ range K, Real.exp (ρ * g j) :=
    single_le_sum (f := fun j => Real.exp (ρ * g j)) (fun _ _ => (Real.exp_pos _).le) (mem_range.2 hk)
  have hlog : ρ * g k ≤ Real.log (∑ j ∈ range K, Real.exp (ρ * g j)) := by
    rw [Real.le_log_iff_exp_le (lt_of_lt_of_le (Real.exp_pos _) hle)]
    exact hle
  rw [one_div, inv_mul_eq_div, le_div_iff₀ hρ]
  linarith

/-- **Upper-bound KS is within `log(K)/rho` of the maximum.** -/
theorem ksUpper_le {ρ : ℝ} (hρ : 0 < ρ) {K : ℕ} (hK : 0 < K) (g : ℕ → ℝ) (m M : ℝ)
    (hM : ∀ k, k < K → g k ≤ M) : ksUpper ρ K g m ≤ M + Real.log K / ρ := by
  rw [ksUpper_shift hρ.ne' hK]
  unfold ksPlain
  have hS : 0 < ∑ k ∈ range K, Real.exp (ρ * g k) :=
    sum_pos (fun _ _ => Real.exp_pos _) (nonempty_range_iff.2 (Nat.pos_iff_ne_zero.1 hK))
  have hle : ∑ k ∈ range K, Real.exp (ρ * g k) ≤ (K : ℝ) * Real.exp (ρ * M) := by
    have : ∑ k ∈ range K, Real.exp (ρ * g k) ≤ ∑ _k ∈ range K, Real.exp (ρ * M) :=
      sum_le_sum (fun k hk => Real.exp_le_exp.2 (mul_le_mul_of_nonneg_left (hM k (mem_range.1 hk)) hρ.le))
    simpa using this
  have hKpos : (0 : ℝ) < K := by exact_mod_cast hK
  have hlog : Real.log (∑ k ∈ range K, Real.exp (ρ * g k)) ≤ Real.log K + ρ * M := by
    calc Real.log (∑ k ∈ range K, Real.exp (ρ * g k))
        ≤ Real.log ((K : ℝ) * Real.exp (ρ * M)) := Real.log_le_log hS hle
      _ = Real.log K + ρ * M := by rw [Real.log_mul hKpos.ne' (Real.exp_pos _).ne', Real.log_exp]
  rw [one_div, inv_mul_eq_div, div_le_iff₀ hρ]
  have : (M + Real.log K / ρ) * ρ = ρ * M + Real.log K := by field_simp
  linarith

/-- **Lower-bound KS is a lower bound of the maximum.** -/
theorem ksLower_le {ρ : ℝ} (hρ : 0 < ρ) {K : ℕ} (hK : 0 < K) (g : ℕ → ℝ) (m M : ℝ)
    (hM : ∀ k, k < K → g k ≤ M) : ksLower ρ K g m ≤ M := by
  unfold ksLower
  have := ksUpper_le hρ hK g m M hM
  linarith

/-- Lower-bound KS is within `log(K)/rho` of every aggregated value's upper envelope. -/
theorem ksLower_ge {ρ : ℝ} (hρ : 0 < ρ) {K : ℕ} (g : ℕ → ℝ) (m : ℝ) {k : ℕ} (hk : k < K) :
    g k - Real.log K / ρ ≤ ksLower ρ K g m := by
  unfold ksLower
  have := ksUpper_ge hρ g m hk
  linarith

/-- **IKS is a lower bound of the maximum** (a weighted mean with positive weights). -/
theorem iks_le {ρ : ℝ} {K : ℕ} (hK : 0 < K) (g : ℕ → ℝ) (m M : ℝ)
    (hM : ∀ k, k < K → g k ≤ M) : iks ρ K g m ≤ M := by
  unfold iks
  rw [div_le_iff₀ (expSum_pos ρ hK g m)]
  unfold expSum
  rw [mul_sum]
  exact sum_le_sum (fun k hk =>
    mul_le_mul_of_nonneg_right (hM k (mem_range.1 hk)) (Real.exp_pos _).le)

/-- IKS does not depend on the shift either. -/
theorem iks_shift (ρ : ℝ) {K : ℕ} (hK : 0 < K) (g : ℕ → ℝ) (m m' : ℝ) :
    iks ρ K g m = iks ρ K g m' := by
  have hnum : ∀ s : ℝ, ∑ k ∈ range K, g k * Real.exp (ρ * (g k + 1 - s))
      = Real.exp (ρ * (1 - s)) * ∑ k ∈ range K, g k * Real.exp (ρ * g k) := by
    intro s
    rw [mul_sum]
    refine sum_congr rfl (fun k _ => ?_)
    have : ρ * (g k + 1 - s) = ρ * (1 - s) + ρ * g k := by ring
    rw [this, Real.exp_add]; ring
  have hS : 0 < ∑ k ∈ range K, Real.exp (ρ * g k) :=
    sum_pos (fun _ _ => Real.exp_pos _) (nonempty_range_iff.2 (Nat.pos_iff_ne_zero.1 hK))
  unfold iks
  rw [hnum m, hnum m', expSum_factor, expSum_factor]
  have h1 := (Real.exp_pos (ρ * (1 - m))).ne'
  have h2 := (Real.exp_pos (ρ * (1 - m'))).ne'
  field_simp

/-! ### The Jacobian formulas of the code are the derivatives -/

/-- Weights of `compute_total_ks_agg_jac`. -/
noncomputable def ksWeight (ρ : ℝ) (K : ℕ) (g : ℕ → ℝ) (m : ℝ) (k : ℕ) : ℝ :=
  Real.exp (ρ * (g k + 1 - m)) / expSum ρ K g m

/-- `compute_total_ks_agg_jac`: along any differentiable path of constraint values the derivative
    of the KS function is the weighted sum of the derivatives, whatever shift `m` the code uses
    for the weights. -/
theorem ks_hasDerivAt {ρ : ℝ} (hρ : ρ ≠ 0) {K : ℕ} (hK : 0 < K) (g : ℕ → ℝ → ℝ) (g' : ℕ → ℝ) (t m : ℝ)
    (hg : ∀ k, k < K → HasDerivAt (g k) (g' k) t) :
    HasDerivAt (fun s => ksPlain ρ K (fun k => g k s))
      (∑ k ∈ range K, ksWeight ρ K (fun k => g k t) m k * g' k) t := by
  have hS : 0 < ∑ k ∈ range K, Real.exp (ρ * g k t) :=
    sum_pos (fun _ _ => Real.exp_pos _) (nonempty_range_iff.2 (Nat.pos_iff_ne_zero.1 hK))
  have h1 : HasDerivAt (fun s => ∑ k ∈ range K, Real.exp (ρ * g k s))
      (∑ k ∈ range K, Real.exp (ρ * g k t) * (ρ * g' k)) t :=
    HasDerivAt.fun_sum (fun k hk => ((hg k (mem_range.1 hk)).const_mul ρ).exp)
  have h2 := (h1.log hS.ne').const_mul (1 / ρ)
  unfold ksPlain
  refine h2.congr_deriv ?_
  simp only [ksWeight]
  rw [expSum_factor]
  have h3 := (Real.exp_pos (ρ * (1 - m))).ne'
  have hterm : ∀ k ∈ range K,
      Real.exp (ρ * (g k t + 1 - m)) / (Real.exp (ρ * (1 - m)) * ∑ j ∈ range K, Real.exp (ρ * g j t)) * g' k
        = Real.exp (ρ * g k t) * g' k / ∑ j ∈ range K, Real.exp (ρ * g j t) := by
    intro k _
    have hk : Real.exp (ρ * (g k t + 1 - m)) = Real.exp (ρ * (1 - m)) * Real.exp (ρ * g k t) := by
      rw [← Real.exp_add]; congr 1; ring
    rw [hk]
    field_simp
  rw [sum_congr rfl hterm, ← sum_div]
  have hnum : ∑ k ∈ range K, Real.exp (ρ * g k t) * (ρ * g' k)
      = ρ * ∑ k ∈ range K, Real.exp (ρ * g k t) * g' k := by
    rw [mul_sum]; exact sum_congr rfl (fun k _ => by ring)
  rw [hnum]
  field_simp


/-- `compute_total_iks_agg_jac`: the formula of the code, `(-den'/den^2) * num + num'/den` with
    `num' = sum e_k g_k' + sum e_k g_k rho g_k'` and `den' = sum e_k rho g_k'`
    (`e_k = exp(rho (g_k + 1 - m))`), is the exact derivative of IKS along any differentiable
    path of constraint values (the shift `m` being irrelevant by `iks_shift`). -/
theorem iks_hasDerivAt (ρ : ℝ) {K : ℕ} (hK : 0 < K) (g : ℕ → ℝ → ℝ) (g' : ℕ → ℝ) (t m : ℝ)
    (hg : ∀ k, k < K → HasDerivAt (g k) (g' k) t) :
    HasDerivAt (fun s => iks ρ K (fun k => g k s) m)
      ((-(∑ k ∈ range K, Real.exp (ρ * (g k t + 1 - m)) * (ρ * g' k)) / (expSum ρ K (fun k => g k t) m) ^ 2)
          * (∑ k ∈ range K, g k t * Real.exp (ρ * (g k t + 1 - m)))
        + ((∑ k ∈ range K, Real.exp (ρ * (g k t + 1 - m)) * g' k)
            + ∑ k ∈ range K, Real.exp (ρ * (g k t + 1 - m)) * g k t * (ρ * g' k))
          / expSum ρ K (fun k => g k t) m) t := by
  have he : ∀ k, k < K → HasDerivAt (fun s => Real.exp (ρ * (g k s + 1 - m)))
      (Real.exp (ρ * (g k t + 1 - m)) * (ρ * g' k)) t := fun k hk =>
    ((((hg k hk).add_const 1).sub_const m).const_mul ρ).exp
  have hD : HasDerivAt (fun s => expSum ρ K (fun k => g k s) m)
      (∑ k ∈ range K, Real.exp (ρ * (g k t + 1 - m)) * (ρ * g' k)) t := by
    unfold expSum
    exact HasDerivAt.fun_sum (fun k hk => he k (mem_range.1 hk))
  have hN : HasDerivAt (fun s => ∑ k ∈ range K, g k s * Real.exp (ρ * (g k s + 1 - m)))
      (∑ k ∈ range K, (g' k * Real.exp (ρ * (g k t + 1 - m))
        + g k t * (Real.exp (ρ * (g k t + 1 - m)) * (ρ * g' k)))) t :=
    HasDerivAt.fun_sum (fun k hk => HasDerivAt.fun_mul (hg k (mem_range.1 hk)) (he k (mem_range.1 hk)))
  have hpos := expSum_pos ρ hK (fun k => g k t) m
  have := HasDerivAt.fun_div hN hD hpos.ne'
  unfold iks
  refine this.congr_deriv ?_
  have hsplit : ∑ k ∈ range K, (g' k * Real.exp (ρ * (g k t + 1 - m))
        + g k t * (Real.exp (ρ * (g k t + 1 - m)) * (ρ * g' k)))
      = (∑ k ∈ range K, Real.exp (ρ * (g k t + 1 - m)) * g' k)
        + ∑ k ∈ range K, Real.exp (ρ * (g k t + 1 - m)) * g k t * (ρ * g' k) := by
    rw [← sum_add_distrib]
    exact sum_congr rfl (fun k _ => by ring)
  rw [hsplit]
  field_simp
  ring

end GV.C10.Agg
