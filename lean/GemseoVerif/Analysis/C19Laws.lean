/-
C19 — closed-form laws over ℝ and the parametrisation conventions of SciPy and OpenTURNS.

Trusted transcription (validated on every run by stream A of harness/c19.py, not proved):
* SciPy: a frozen `rv_continuous` with `loc`, `scale` is the law of `loc + scale·Y` where `Y`
  follows the standard law of the family (`sp*`, `std*` below);
* OpenTURNS: positional parametrisations `Uniform(a,b)`, `Triangular(a,m,b)`,
  `Exponential(λ,γ)`, `Normal(μ,σ)`, `LogNormal(μ_log,σ_log,γ)`, `WeibullMin(β,α,γ)`,
  `WeibullMax(β,α,γ)`, `Beta(α,β,a,b)`, `Dirac(v)` (`ot*` below).
The standard normal CDF `Φ` and the regularised incomplete beta function `I` are parameters.

Proved here: for the uniform, triangular and exponential laws, CDF and inverse CDF are mutual
inverses, the inverse CDF maps `[0,1]` into the support, and the mean / variance integrals have
the closed forms `(a+b)/2`, `(b-a)²/12`, `(a+m+b)/3`, `(a²+m²+b²-am-ab-mb)/18`, `1`, `1`.
-/
import Mathlib.Analysis.SpecialFunctions.Log.Basic
import Mathlib.Analysis.SpecialFunctions.Sqrt
import Mathlib.Analysis.SpecialFunctions.Pow.Real
import Mathlib.Analysis.SpecialFunctions.Integrals.Basic
import Mathlib.Analysis.SpecialFunctions.Gamma.Basic
import Mathlib.Tactic.Ring
import Mathlib.Tactic.FieldSimp
import Mathlib.Tactic.Linarith
import Mathlib.Tactic.Positivity

namespace GV.C19.Laws
noncomputable section
open Real

/-! ### SciPy convention -/

def spCdf (F0 : ℝ → ℝ) (loc scale x : ℝ) : ℝ := F0 ((x - loc) / scale)
def spPpf (Q0 : ℝ → ℝ) (loc scale p : ℝ) : ℝ := loc + scale * Q0 p
/-- mean of `loc + scale·Y` from the mean `m0` of `Y` -/
def spMean (m0 loc scale : ℝ) : ℝ := loc + scale * m0
/-- standard deviation of `loc + scale·Y` (`scale > 0`) from the standard deviation `s0` of `Y` -/
def spStd (s0 scale : ℝ) : ℝ := scale * s0

def stdUniformCdf (y : ℝ) : ℝ := max 0 (min 1 y)
def stdUniformPpf (p : ℝ) : ℝ := p
def stdExponCdf (y : ℝ) : ℝ := if y ≤ 0 then 0 else 1 - exp (-y)
def stdExponPpf (p : ℝ) : ℝ := -log (1 - p)
def stdTriangCdf (c y : ℝ) : ℝ :=
  if y ≤ 0 then 0 else if y ≤ c then y ^ 2 / c else if y < 1 then 1 - (1 - y) ^ 2 / (1 - c) else 1
def stdTriangPpf (c p : ℝ) : ℝ :=
  if p ≤ c then sqrt (c * p) else 1 - sqrt ((1 - c) * (1 - p))
def stdWeibullMinCdf (c y : ℝ) : ℝ := if y ≤ 0 then 0 else 1 - exp (-(y ^ c))
def stdWeibullMaxCdf (c y : ℝ) : ℝ := if y < 0 then exp (-((-y) ^ c)) else 1
def stdLognormCdf (Φ : ℝ → ℝ) (s y : ℝ) : ℝ := if y ≤ 0 then 0 else Φ (log y / s)

/-! ### OpenTURNS convention (positional arguments) -/

def otUniform (a b x : ℝ) : ℝ := max 0 (min 1 ((x - a) / (b - a)))
def otTriangular (a m b x : ℝ) : ℝ :=
  if x ≤ a then 0 else if x ≤ m then (x - a) ^ 2 / ((b - a) * (m - a))
  else if x < b then 1 - (b - x) ^ 2 / ((b - a) * (b - m)) else 1
def otExponential (lam gam x : ℝ) : ℝ := if x ≤ gam then 0 else 1 - exp (-(lam * (x - gam)))
def otNormal (Φ : ℝ → ℝ) (mu sigma x : ℝ) : ℝ := Φ ((x - mu) / sigma)
def otLogNormal (Φ : ℝ → ℝ) (muLog sigmaLog gam x : ℝ) : ℝ :=
  if x ≤ gam then 0 else Φ ((log (x - gam) - muLog) / sigmaLog)
def otWeibullMin (bet alp gam x : ℝ) : ℝ :=
  if x ≤ gam then 0 else 1 - exp (-(((x - gam) / bet) ^ alp))
def otWeibullMax (bet alp gam x : ℝ) : ℝ :=
  if x < gam then exp (-(((gam - x) / bet) ^ alp)) else 1
def otBeta (I : ℝ → ℝ → ℝ → ℝ) (alp bet a b x : ℝ) : ℝ := I alp bet ((x - a) / (b - a))
def otDirac (v x : ℝ) : ℝ := if x < v then 0 else 1

/-! ### The laws documented by GEMSEO (in the order of its constructor arguments) -/

def uniformCdf (minimum maximum x : ℝ) : ℝ := otUniform minimum maximum x
def uniformIcdf (a b p : ℝ) : ℝ := a + p * (b - a)
def triangularCdf (minimum mode maximum x : ℝ) : ℝ := otTriangular minimum mode maximum x
def triangularIcdf (a m b p : ℝ) : ℝ :=
  if p ≤ (m - a) / (b - a) then a + sqrt (p * (b - a) * (m - a))
  else b - sqrt ((1 - p) * (b - a) * (b - m))
def exponentialCdf (rate loc x : ℝ) : ℝ := otExponential rate loc x
def exponentialIcdf (rate loc p : ℝ) : ℝ := loc - log (1 - p) / rate
def normalCdf (Φ : ℝ → ℝ) (mu sigma x : ℝ) : ℝ := Φ ((x - mu) / sigma)
def betaCdf (I : ℝ → ℝ → ℝ → ℝ) (alpha beta minimum maximum x : ℝ) : ℝ :=
  I alpha beta ((x - minimum) / (maximum - minimum))
def weibullMinCdf (location scale shape x : ℝ) : ℝ :=
  if x ≤ location then 0 else 1 - exp (-(((x - location) / scale) ^ shape))
def weibullMaxCdf (location scale shape x : ℝ) : ℝ :=
  if x < location then exp (-(((location - x) / scale) ^ shape)) else 1
/-- log-normal law given by the mean and standard deviation of the logarithm -/
def logNormalCdf (Φ : ℝ → ℝ) (muLog sigmaLog location x : ℝ) : ℝ :=
  if x ≤ location then 0 else Φ ((log (x - location) - muLog) / sigmaLog)
def diracCdf (v x : ℝ) : ℝ := if x < v then 0 else 1

/-! ### Uniform law -/

theorem uniform_cdf_icdf (a b p : ℝ) (h : a < b) (hp0 : 0 ≤ p) (hp1 : p ≤ 1) :
    uniformCdf a b (uniformIcdf a b p) = p := by
  have hba : b - a ≠ 0 := (sub_pos.mpr h).ne'
  unfold uniformCdf otUniform uniformIcdf
  have : (a + p * (b - a) - a) / (b - a) = p := by field_simp; ring
  rw [this, min_eq_right hp1, max_eq_right hp0]

theorem uniform_icdf_cdf (a b x : ℝ) (h : a < b) (hx0 : a ≤ x) (hx1 : x ≤ b) :
    uniformIcdf a b (uniformCdf a b x) = x := by
  have hpos : 0 < b - a := sub_pos.mpr h
  unfold uniformCdf otUniform uniformIcdf
  have h0 : 0 ≤ (x - a) / (b - a) := div_nonneg (by linarith) hpos.le
  have h1 : (x - a) / (b - a) ≤ 1 := by rw [div_le_one hpos]; linarith
  rw [min_eq_right h1, max_eq_right h0]
  field_simp; ring

/-- The inverse CDF maps `[0,1]` into the support `[a,b]` (so inverse-transform samples are in the
    support) and is non-decreasing. -/
theorem uniform_icdf_mem_support (a b p : ℝ) (h : a ≤ b) (hp0 : 0 ≤ p) (hp1 : p ≤ 1) :
    a ≤ uniformIcdf a b p ∧ uniformIcdf a b p ≤ b := by
  unfold uniformIcdf
  have hba : 0 ≤ b - a := sub_nonneg.mpr h
  constructor
  · nlinarith [mul_nonneg hp0 hba]
  · nlinarith [mul_le_mul_of_nonneg_right hp1 hba]

theorem uniform_icdf_mono (a b : ℝ) (h : a ≤ b) : Monotone (uniformIcdf a b) := by
  intro p q hpq
  unfold uniformIcdf
  have hba : 0 ≤ b - a := sub_nonneg.mpr h
  nlinarith [mul_le_mul_of_nonneg_right hpq hba]

theorem uniform_cdf_range (a b x : ℝ) : 0 ≤ uniformCdf a b x ∧ uniformCdf a b x ≤ 1 := by
  unfold uniformCdf otUniform
  exact ⟨le_max_left _ _, max_le (by norm_num) (min_le_left _ _)⟩

/-- density `1/(b-a)` on `[a,b]`: mean `(a+b)/2`. -/
theorem uniform_mean (a b : ℝ) (h : a < b) :
    ∫ x in a..b, x * (1 / (b - a)) = (a + b) / 2 := by
  have hba : b - a ≠ 0 := (sub_pos.mpr h).ne'
  rw [intervalIntegral.integral_mul_const, integral_id]
  field_simp; ring

/-- variance `(b-a)²/12`. -/
theorem uniform_variance (a b : ℝ) (h : a < b) :
    ∫ x in a..b, (x - (a + b) / 2) ^ 2 * (1 / (b - a)) = (b - a) ^ 2 / 12 := by
  have hba : b - a ≠ 0 := (sub_pos.mpr h).ne'
  rw [intervalIntegral.integral_mul_const]
  have : ∫ x in a..b, (x - (a + b) / 2) ^ 2 =
      ((b - (a + b) / 2) ^ 3 - (a - (a + b) / 2) ^ 3) / 3 := by
    have := intervalIntegral.integral_comp_sub_right (fun x => x ^ 2) ((a + b) / 2) (a := a) (b := b)
    rw [this, integral_pow]
    norm_num
  rw [this]
  field_simp; ring

/-- standard deviation `(b-a)/√12`. -/
theorem uniform_std (a b : ℝ) (h : a < b) : sqrt ((b - a) ^ 2 / 12) = (b - a) / sqrt 12 := by
  rw [sqrt_div (sq_nonneg _), sqrt_sq (sub_pos.mpr h).le]

/-! ### Exponential law -/

theorem exponential_cdf_icdf (rate loc p : ℝ) (hr : 0 < rate) (hp0 : 0 ≤ p) (hp1 : p < 1) :
    exponentialCdf rate loc (exponentialIcdf rate loc p) = p := by
  unfold exponentialCdf otExponential exponentialIcdf
  have h1p : 0 < 1 - p := by linarith
  have hlog : log (1 - p) ≤ 0 := log_nonpos h1p.le (by linarith)
  by_cases hp : p = 0
  · subst hp; simp
  · have hp' : 0 < p := lt_of_le_of_ne hp0 (Ne.symm hp)
    have hlog' : log (1 - p) < 0 := log_neg h1p (by linarith)
    have : ¬ (loc - log (1 - p) / rate ≤ loc) := by
      have : log (1 - p) / rate < 0 := div_neg_of_neg_of_pos hlog' hr
      linarith
    rw [if_neg this]
    have e : -(rate * (loc - log (1 - p) / rate - loc)) = log (1 - p) := by field_simp; ring
    rw [e, exp_log h1p]; ring

theorem exponential_icdf_cdf (rate loc x : ℝ) (hr : 0 < rate) (hx : loc ≤ x) :
    exponentialIcdf rate loc (exponentialCdf rate loc x) = x := by
  unfold exponentialCdf otExponential exponentialIcdf
  by_cases h : x ≤ loc
  · have : x = loc := le_antisymm h hx
    subst this; simp
  · rw [if_neg h]
    have : 1 - (1 - exp (-(rate * (x - loc)))) = exp (-(rate * (x - loc))) := by ring
    rw [this, log_exp]
    field_simp; ring

/-- The inverse CDF maps `[0,1)` into the support `[loc,∞)` and is non-decreasing there. -/
theorem exponential_icdf_mem_support (rate loc p : ℝ) (hr : 0 < rate) (hp0 : 0 ≤ p) (hp1 : p < 1) :
    loc ≤ exponentialIcdf rate loc p := by
  unfold exponentialIcdf
  have hlog : log (1 - p) ≤ 0 := log_nonpos (by linarith) (by linarith)
  have : log (1 - p) / rate ≤ 0 := div_nonpos_of_nonpos_of_nonneg hlog hr.le
  linarith

theorem exponential_icdf_mono (rate loc p q : ℝ) (hr : 0 < rate) (hpq : p ≤ q) (hq : q < 1) :
    exponentialIcdf rate loc p ≤ exponentialIcdf rate loc q := by
  unfold exponentialIcdf
  have h1 : log (1 - q) ≤ log (1 - p) := log_le_log (by linarith) (by linarith)
  have : log (1 - q) / rate ≤ log (1 - p) / rate := div_le_div_of_nonneg_right h1 hr.le
  linarith

theorem exponential_cdf_range (rate loc x : ℝ) (hr : 0 < rate) :
    0 ≤ exponentialCdf rate loc x ∧ exponentialCdf rate loc x ≤ 1 := by
  unfold exponentialCdf otExponential
  split
  · exact ⟨le_refl _, by norm_num⟩
  · rename_i h
    have hx : 0 < rate * (x - loc) := mul_pos hr (by linarith [not_le.mp h])
    have h1 : exp (-(rate * (x - loc))) ≤ 1 := exp_le_one_iff.mpr (by linarith)
    have h2 : 0 < exp (-(rate * (x - loc))) := exp_pos _
    constructor <;> linarith

/-- standard exponential law (density `e^{-x}` on `(0,∞)`): mean 1. -/
theorem std_exponential_mean : ∫ x in Set.Ioi (0 : ℝ), x * exp (-x) = 1 := by
  have := Real.integral_rpow_mul_exp_neg_mul_Ioi (a := 2) (r := 1) (by norm_num) (by norm_num)
  have h2 : (2 : ℝ) - 1 = 1 := by norm_num
  simp only [h2, rpow_one, one_mul, div_one, one_rpow] at this
  rw [this]
  have : Real.Gamma 2 = 1 := by
    have := Real.Gamma_nat_eq_factorial 1
    simpa using this
  rw [this]

/-- second moment 2, hence variance `2 - 1² = 1` and standard deviation 1. -/
theorem std_exponential_second_moment : ∫ x in Set.Ioi (0 : ℝ), x ^ 2 * exp (-x) = 2 := by
  have := Real.integral_rpow_mul_exp_neg_mul_Ioi (a := 3) (r := 1) (by norm_num) (by norm_num)
  have h2 : (3 : ℝ) - 1 = 2 := by norm_num
  simp only [h2, one_mul, div_one, one_rpow] at this
  have hG : Real.Gamma 3 = 2 := by
    have := Real.Gamma_nat_eq_factorial 2
    norm_num at this
    simpa using this
  rw [hG] at this
  rw [← this]
  apply MeasureTheory.setIntegral_congr_fun measurableSet_Ioi
  intro x hx
  simp only
  rw [← rpow_natCast x 2]
  norm_num

/-! ### Triangular law -/

/-- Integral of a cubic polynomial (fundamental theorem of calculus). -/
theorem integral_poly3 (c0 c1 c2 c3 a b : ℝ) :
    ∫ x in a..b, (c0 + c1 * x + c2 * x ^ 2 + c3 * x ^ 3) =
      c0 * (b - a) + c1 * (b ^ 2 - a ^ 2) / 2 + c2 * (b ^ 3 - a ^ 3) / 3 + c3 * (b ^ 4 - a ^ 4) / 4 := by
  have hd : ∀ x ∈ Set.uIcc a b, HasDerivAt
      (fun x => c0 * x + c1 * x ^ 2 / 2 + c2 * x ^ 3 / 3 + c3 * x ^ 4 / 4)
      (c0 + c1 * x + c2 * x ^ 2 + c3 * x ^ 3) x := by
    intro x _
    have h1 := (hasDerivAt_id' x).const_mul c0
    have h2 := ((hasDerivAt_pow 2 x).const_mul c1).div_const 2
    have h3 := ((hasDerivAt_pow 3 x).const_mul c2).div_const 3
    have h4 := ((hasDerivAt_pow 4 x).const_mul c3).div_const 4
    have h := ((h1.fun_add h2).fun_add h3).fun_add h4
    exact h.congr_deriv (by norm_num; ring)
  have hint : IntervalIntegrable (fun x => c0 + c1 * x + c2 * x ^ 2 + c3 * x ^ 3) MeasureTheory.volume a b :=
    Continuous.intervalIntegrable (by fun_prop) a b
  rw [intervalIntegral.integral_eq_sub_of_hasDerivAt hd hint]
  ring

theorem triangular_cdf_icdf (a m b p : ℝ) (ham : a < m) (hmb : m < b) (hp0 : 0 ≤ p) (hp1 : p ≤ 1) :
    triangularCdf a m b (triangularIcdf a m b p) = p := by
  have hab : a < b := lt_trans ham hmb
  have hba : 0 < b - a := sub_pos.mpr hab
  have hma : 0 < m - a := sub_pos.mpr ham
  have hbm : 0 < b - m := sub_pos.mpr hmb
  unfold triangularCdf otTriangular triangularIcdf
  by_cases hp : p ≤ (m - a) / (b - a)
  · rw [if_pos hp]
    have hnn : 0 ≤ p * (b - a) * (m - a) := by positivity
    have hle : p * (b - a) * (m - a) ≤ (m - a) ^ 2 := by
      have : p * (b - a) ≤ m - a := by rwa [le_div_iff₀ hba] at hp
      nlinarith
    have hsq : sqrt (p * (b - a) * (m - a)) ≤ m - a := by
      calc sqrt (p * (b - a) * (m - a)) ≤ sqrt ((m - a) ^ 2) := sqrt_le_sqrt hle
        _ = m - a := sqrt_sq hma.le
    by_cases hp' : p = 0
    · subst hp'; simp
    · have hpp : 0 < p := lt_of_le_of_ne hp0 (Ne.symm hp')
      have hpos : 0 < sqrt (p * (b - a) * (m - a)) := sqrt_pos.mpr (by positivity)
      rw [if_neg (by linarith), if_pos (by linarith)]
      have : (a + sqrt (p * (b - a) * (m - a)) - a) ^ 2 = p * (b - a) * (m - a) := by
        rw [add_sub_cancel_left, sq_sqrt hnn]
      rw [this]
      field_simp
  · rw [if_neg hp]
    have hp2 : (m - a) / (b - a) < p := not_le.mp hp
    have hnn : 0 ≤ (1 - p) * (b - a) * (b - m) := by
      have : 0 ≤ 1 - p := by linarith
      positivity
    have hlt : (1 - p) * (b - a) * (b - m) < (b - m) ^ 2 := by
      have : m - a < p * (b - a) := by rwa [div_lt_iff₀ hba] at hp2
      nlinarith
    have hsq : sqrt ((1 - p) * (b - a) * (b - m)) < b - m := by
      calc sqrt ((1 - p) * (b - a) * (b - m)) < sqrt ((b - m) ^ 2) := sqrt_lt_sqrt hnn hlt
        _ = b - m := sqrt_sq hbm.le
    have hs0 : 0 ≤ sqrt ((1 - p) * (b - a) * (b - m)) := sqrt_nonneg _
    rw [if_neg (by linarith), if_neg (by linarith)]
    by_cases hp' : p = 1
    · subst hp'; simp
    · have hpp : 0 < 1 - p := by
        have : p < 1 := lt_of_le_of_ne hp1 hp'
        linarith
      have hpos : 0 < sqrt ((1 - p) * (b - a) * (b - m)) := sqrt_pos.mpr (by positivity)
      rw [if_pos (by linarith)]
      have : (b - (b - sqrt ((1 - p) * (b - a) * (b - m)))) ^ 2 = (1 - p) * (b - a) * (b - m) := by
        rw [sub_sub_cancel, sq_sqrt hnn]
      rw [this]
      field_simp
      ring

theorem triangular_icdf_cdf (a m b x : ℝ) (ham : a < m) (hmb : m < b) (hx0 : a ≤ x) (hx1 : x ≤ b) :
    triangularIcdf a m b (triangularCdf a m b x) = x := by
  have hab : a < b := lt_trans ham hmb
  have hba : 0 < b - a := sub_pos.mpr hab
  have hma : 0 < m - a := sub_pos.mpr ham
  have hbm : 0 < b - m := sub_pos.mpr hmb
  unfold triangularCdf otTriangular triangularIcdf
  by_cases h1 : x ≤ a
  · have : x = a := le_antisymm h1 hx0
    subst this
    have : (0 : ℝ) ≤ (m - x) / (b - x) := by positivity
    simp [this]
  · rw [if_neg h1]
    have hxa : 0 < x - a := by linarith [not_le.mp h1]
    by_cases h2 : x ≤ m
    · rw [if_pos h2]
      have hle : (x - a) ^ 2 / ((b - a) * (m - a)) ≤ (m - a) / (b - a) := by
        rw [div_le_div_iff₀ (by positivity) hba]
        have : (x - a) ^ 2 ≤ (m - a) ^ 2 := by nlinarith
        nlinarith
      rw [if_pos hle]
      have : (x - a) ^ 2 / ((b - a) * (m - a)) * (b - a) * (m - a) = (x - a) ^ 2 := by field_simp
      rw [this, sqrt_sq hxa.le]; ring
    · rw [if_neg h2]
      have hxm : m < x := not_le.mp h2
      by_cases h3 : x < b
      · rw [if_pos h3]
        have hbx : 0 < b - x := by linarith
        have hgt : ¬ (1 - (b - x) ^ 2 / ((b - a) * (b - m)) ≤ (m - a) / (b - a)) := by
          rw [not_le, div_lt_iff₀ hba]
          have h4 : (b - x) ^ 2 < (b - m) ^ 2 := by nlinarith
          have h5 : (b - x) ^ 2 / ((b - a) * (b - m)) * (b - a) < b - m := by
            rw [div_mul_eq_mul_div, div_lt_iff₀ (by positivity)]
            nlinarith
          nlinarith
        rw [if_neg hgt]
        have : (1 - (1 - (b - x) ^ 2 / ((b - a) * (b - m)))) * (b - a) * (b - m) = (b - x) ^ 2 := by
          field_simp; ring
        rw [this, sqrt_sq hbx.le]; ring
      · rw [if_neg h3]
        have : x = b := le_antisymm hx1 (not_lt.mp h3)
        subst this
        have : ¬ ((1 : ℝ) ≤ (m - a) / (x - a)) := by
          rw [not_le, div_lt_one hba]; linarith
        simp [this]

/-- The inverse CDF maps `[0,1]` into the support `[a,b]`. -/
theorem triangular_icdf_mem_support (a m b p : ℝ) (ham : a ≤ m) (hmb : m ≤ b) (hp0 : 0 ≤ p)
    (hp1 : p ≤ 1) : a ≤ triangularIcdf a m b p ∧ triangularIcdf a m b p ≤ b := by
  unfold triangularIcdf
  have hba : 0 ≤ b - a := by linarith
  split
  · rename_i hp
    refine ⟨by linarith [sqrt_nonneg (p * (b - a) * (m - a))], ?_⟩
    have hle : p * (b - a) * (m - a) ≤ (b - a) ^ 2 := by
      have h1 : p * (b - a) ≤ b - a := by nlinarith
      have h2 : 0 ≤ m - a := by linarith
      have h3 : m - a ≤ b - a := by linarith
      nlinarith [mul_nonneg hp0 hba]
    have : sqrt (p * (b - a) * (m - a)) ≤ b - a := by
      calc sqrt (p * (b - a) * (m - a)) ≤ sqrt ((b - a) ^ 2) := sqrt_le_sqrt hle
        _ = b - a := sqrt_sq hba
    linarith
  · refine ⟨?_, by linarith [sqrt_nonneg ((1 - p) * (b - a) * (b - m))]⟩
    have hle : (1 - p) * (b - a) * (b - m) ≤ (b - a) ^ 2 := by
      have h0 : 0 ≤ 1 - p := by linarith
      have h1 : (1 - p) * (b - a) ≤ b - a := by nlinarith
      have h2 : 0 ≤ b - m := by linarith
      have h3 : b - m ≤ b - a := by linarith
      nlinarith [mul_nonneg h0 hba]
    have : sqrt ((1 - p) * (b - a) * (b - m)) ≤ b - a := by
      calc sqrt ((1 - p) * (b - a) * (b - m)) ≤ sqrt ((b - a) ^ 2) := sqrt_le_sqrt hle
        _ = b - a := sqrt_sq hba
    linarith

/-- density `2(x-a)/((b-a)(m-a))` on `[a,m]`, `2(b-x)/((b-a)(b-m))` on `[m,b]`: mean `(a+m+b)/3`. -/
theorem triangular_mean (a m b : ℝ) (ham : a < m) (hmb : m < b) :
    (∫ x in a..m, x * (2 * (x - a) / ((b - a) * (m - a)))) +
      (∫ x in m..b, x * (2 * (b - x) / ((b - a) * (b - m)))) = (a + m + b) / 3 := by
  have hba : b - a ≠ 0 := (sub_pos.mpr (lt_trans ham hmb)).ne'
  have hma : m - a ≠ 0 := (sub_pos.mpr ham).ne'
  have hbm : b - m ≠ 0 := (sub_pos.mpr hmb).ne'
  have e1 : ∀ x : ℝ, x * (2 * (x - a) / ((b - a) * (m - a))) =
      0 + (-2 * a / ((b - a) * (m - a))) * x + (2 / ((b - a) * (m - a))) * x ^ 2 + 0 * x ^ 3 := by
    intro x; field_simp; ring
  have e2 : ∀ x : ℝ, x * (2 * (b - x) / ((b - a) * (b - m))) =
      0 + (2 * b / ((b - a) * (b - m))) * x + (-2 / ((b - a) * (b - m))) * x ^ 2 + 0 * x ^ 3 := by
    intro x; field_simp; ring
  simp_rw [e1, e2]
  rw [integral_poly3, integral_poly3]
  field_simp
  ring

/-- variance `(a² + m² + b² - am - ab - mb)/18`. -/
theorem triangular_variance (a m b : ℝ) (ham : a < m) (hmb : m < b) :
    (∫ x in a..m, (x - (a + m + b) / 3) ^ 2 * (2 * (x - a) / ((b - a) * (m - a)))) +
      (∫ x in m..b, (x - (a + m + b) / 3) ^ 2 * (2 * (b - x) / ((b - a) * (b - m)))) =
      (a ^ 2 + m ^ 2 + b ^ 2 - a * m - a * b - m * b) / 18 := by
  have hba : b - a ≠ 0 := (sub_pos.mpr (lt_trans ham hmb)).ne'
  have hma : m - a ≠ 0 := (sub_pos.mpr ham).ne'
  have hbm : b - m ≠ 0 := (sub_pos.mpr hmb).ne'
  set μ := (a + m + b) / 3 with hμ
  have e1 : ∀ x : ℝ, (x - μ) ^ 2 * (2 * (x - a) / ((b - a) * (m - a))) =
      (-2 * a * μ ^ 2 / ((b - a) * (m - a))) + ((2 * μ ^ 2 + 4 * a * μ) / ((b - a) * (m - a))) * x +
        ((-4 * μ - 2 * a) / ((b - a) * (m - a))) * x ^ 2 + (2 / ((b - a) * (m - a))) * x ^ 3 := by
    intro x; field_simp; ring
  have e2 : ∀ x : ℝ, (x - μ) ^ 2 * (2 * (b - x) / ((b - a) * (b - m))) =
      (2 * b * μ ^ 2 / ((b - a) * (b - m))) + ((-2 * μ ^ 2 - 4 * b * μ) / ((b - a) * (b - m))) * x +
        ((4 * μ + 2 * b) / ((b - a) * (b - m))) * x ^ 2 + (-2 / ((b - a) * (b - m))) * x ^ 3 := by
    intro x; field_simp; ring
  simp_rw [e1, e2]
  rw [integral_poly3, integral_poly3, hμ]
  field_simp
  ring

/-! ### Samples in the support (inverse-transform sampling) -/

/-- If the inverse CDF is monotone on `[0,1]` with `Q 0 = lb`, `Q 1 = ub`, every image of a point
    of the unit interval lies in the support `[lb, ub]`. -/
theorem icdf_image_in_support (Q : ℝ → ℝ) (lb ub : ℝ) (hmono : MonotoneOn Q (Set.Icc 0 1))
    (h0 : Q 0 = lb) (h1 : Q 1 = ub) (u : ℝ) (hu : u ∈ Set.Icc (0 : ℝ) 1) :
    lb ≤ Q u ∧ Q u ≤ ub := by
  constructor
  · rw [← h0]; exact hmono ⟨le_refl _, by norm_num⟩ hu hu.1
  · rw [← h1]; exact hmono hu ⟨by norm_num, le_refl _⟩ hu.2

/-! ### SciPy's loc/scale form of the closed-form laws (plain variables; instantiated with the
generated mappings in Props/C19.lean) -/

theorem sp_exponential_eq (rate loc x : ℝ) (hr : 0 < rate) :
    spCdf stdExponCdf loc (1 / rate) x = exponentialCdf rate loc x := by
  have hy : (x - loc) / (1 / rate) = rate * (x - loc) := by field_simp
  unfold spCdf stdExponCdf exponentialCdf otExponential
  rw [hy]
  have : rate * (x - loc) ≤ 0 ↔ x ≤ loc := by
    constructor
    · intro h; by_contra hc; nlinarith [mul_pos hr (sub_pos.mpr (not_le.mp hc))]
    · intro h; nlinarith
  by_cases hx : x ≤ loc
  · rw [if_pos (this.mpr hx), if_pos hx]
  · rw [if_neg (fun h => hx (this.mp h)), if_neg hx]

theorem sp_triangular_eq (a m b x : ℝ) (ham : a < m) (hmb : m < b) :
    spCdf (stdTriangCdf ((m - a) / (b - a))) a (b - a) x = triangularCdf a m b x := by
  have hba : 0 < b - a := by linarith
  have hma : 0 < m - a := by linarith
  have hbm : 0 < b - m := by linarith
  unfold spCdf stdTriangCdf triangularCdf otTriangular
  have h0 : (x - a) / (b - a) ≤ 0 ↔ x ≤ a := by
    rw [div_le_iff₀ hba]; constructor <;> intro h <;> linarith
  have hc : (x - a) / (b - a) ≤ (m - a) / (b - a) ↔ x ≤ m := by
    rw [div_le_div_iff_of_pos_right hba]; constructor <;> intro h <;> linarith
  have h1 : (x - a) / (b - a) < 1 ↔ x < b := by
    rw [div_lt_one hba]; constructor <;> intro h <;> linarith
  by_cases hx0 : x ≤ a
  · rw [if_pos (h0.mpr hx0), if_pos hx0]
  · rw [if_neg (fun h => hx0 (h0.mp h)), if_neg hx0]
    by_cases hxm : x ≤ m
    · rw [if_pos (hc.mpr hxm), if_pos hxm]
      field_simp
    · rw [if_neg (fun h => hxm (hc.mp h)), if_neg hxm]
      by_cases hxb : x < b
      · rw [if_pos (h1.mpr hxb), if_pos hxb]
        have e1 : 1 - (x - a) / (b - a) = (b - x) / (b - a) := by field_simp; ring
        have e2 : 1 - (m - a) / (b - a) = (b - m) / (b - a) := by field_simp; ring
        rw [e1, e2]
        field_simp
      · rw [if_neg (fun h => hxb (h1.mp h)), if_neg hxb]

theorem sp_weibull_min_eq (location scale shape x : ℝ) (hs : 0 < scale) :
    spCdf (stdWeibullMinCdf shape) location scale x = weibullMinCdf location scale shape x := by
  unfold spCdf stdWeibullMinCdf weibullMinCdf
  have h0 : (x - location) / scale ≤ 0 ↔ x ≤ location := by
    rw [div_le_iff₀ hs]; constructor <;> intro h <;> linarith
  by_cases hx : x ≤ location
  · rw [if_pos (h0.mpr hx), if_pos hx]
  · rw [if_neg (fun h => hx (h0.mp h)), if_neg hx]

theorem sp_weibull_max_eq (location scale shape x : ℝ) (hs : 0 < scale) :
    spCdf (stdWeibullMaxCdf shape) location scale x = weibullMaxCdf location scale shape x := by
  unfold spCdf stdWeibullMaxCdf weibullMaxCdf
  have h1 : (x - location) / scale < 0 ↔ x < location := by
    rw [div_lt_iff₀ hs]; constructor <;> intro h <;> linarith
  have e : -((x - location) / scale) = (location - x) / scale := by ring
  by_cases hx : x < location
  · rw [if_pos (h1.mpr hx), if_pos hx, e]
  · rw [if_neg (fun h => hx (h1.mp h)), if_neg hx]

theorem sp_lognormal_eq (Φ : ℝ → ℝ) (mu sigma location x : ℝ) :
    spCdf (stdLognormCdf Φ sigma) location (exp mu) x = logNormalCdf Φ mu sigma location x := by
  unfold spCdf stdLognormCdf logNormalCdf
  have hpos : 0 < exp mu := exp_pos mu
  have h0 : (x - location) / exp mu ≤ 0 ↔ x ≤ location := by
    rw [div_le_iff₀ hpos]; constructor <;> intro h <;> linarith
  by_cases hx : x ≤ location
  · rw [if_pos (h0.mpr hx), if_pos hx]
  · rw [if_neg (fun h => hx (h0.mp h)), if_neg hx]
    have hxl : x - location ≠ 0 := (sub_pos.mpr (not_le.mp hx)).ne'
    rw [log_div hxl hpos.ne', log_exp]

end
end GV.C19.Laws
