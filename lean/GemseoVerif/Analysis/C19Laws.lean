/-
C19 — closed-form laws over ℝ and the parametrisation conventions of SciPy and OpenTURNS.

Trusted transcription (validated on every run by stream A of harness/c19.py, not proved):
* SciPy: a frozen `rv_continuous` with `loc`, `scale` is the law of `loc + scale·Y` where `Y`
  follows the standard law of the family (`sp*`, `std*` below);
* OpenTURNS: positional parametrisations `Uniform(a,b)`, `Triangular(a,m,b)`,
  `Exponential(λ,γ)`, `Normal(μ,σ)`, `LogNormal(μ_log,σ_log,γ)`, `WeibullMin(β,α,γ)`,
  `WeibullMax(β,α,γ)`, `Beta(α,β,a,b)`, `Dirac(v)` (`ot*` below).
The standard normal CDF `Φ` and the regularised incomplete beta function `I` are parameters.

Proved here: for the uniform, triangular and exponential laws, CDF and inverse CDF are mutual
inverses, the inverse CDF maps `[0,1]` into the support, and the mean / variance integrals have
the closed forms `(a+b)/2`, `(b-a)²/12`, `(a+m+b)/3`, `(a²+m²+b²-am-ab-mb)/18`, `1`, `1`.
-/
import Mathlib.Analysis.SpecialFunctions.Log.Basic
import Mathlib.Analysis.SpecialFunctions.Sqrt
import Mathlib.Analysis.SpecialFunctions.Pow.Real
import Mathlib.Analysis.SpecialFunctions.Integrals.Basic
import Mathlib.Analysis.SpecialFunctions.Gamma.Basic
import Mathlib.Tactic.Ring
import Mathlib.Tactic.FieldSimp
import Mathlib.Tactic.Linarith
import Mathlib.Tactic.Positivity

namespace GV.C19.Laws
noncomputable section
open Real

/-! ### SciPy convention -/

def spCdf (F0 : ℝ → ℝ) (loc scale x : ℝ) : ℝ := F0 ((x - loc) / scale)
def spPpf (Q0 : ℝ → ℝ) (loc scale p : ℝ) : ℝ := loc + scale * Q0 p
/-- mean of `loc + scale·Y` from the mean `m0` of `Y` -/
def spMean (m0 loc scale : ℝ) : ℝ := loc + scale * m0
/-- standard deviation of `loc + scale·Y` (`scale > 0`) from the standard deviation `s0` of `Y` -/
def spStd (s0 scale : ℝ) : ℝ := scale * s0

def stdUniformCdf (y : ℝ) : ℝ := max 0 (min 1 y)
def stdUniformPpf (p : ℝ) : ℝ := p
def stdExponCdf (y : ℝ) : ℝ := if y ≤ 0 then 0 else 1 - exp (-y)
def stdExponPpf (p : ℝ) : ℝ := -log (1 - p)
def stdTriangCdf (c y : ℝ) : ℝ :=
  if y ≤ 0 then 0 else if y ≤ c then y ^ 2 / c else if y < 1 then 1 - (1 - y) ^ 2 / (1 - c) else 1
def stdTriangPpf (c p : ℝ) : ℝ :=
  if p ≤ c then sqrt (c * p) else 1 - sqrt ((1 - c) * (1 - p))
def stdWeibullMinCdf (c y : ℝ) : ℝ := if y ≤ 0 then 0 else 1 - exp (-(y ^ c))
def stdWeibullMaxCdf (c y : ℝ) : ℝ := if y < 0 then exp (-((-y) ^ c)) else 1
def stdLognormCdf (Φ : ℝ → ℝ) (s y : ℝ) : ℝ := if y ≤ 0 then 0 else Φ (log y / s)

/-! ### OpenTURNS convention (positional arguments) -/

def otUniform (a b x : ℝ) : ℝ := max 0 (min 1 ((x - a) / (b - a)))
def otTriangular (a m b x : ℝ) : ℝ :=
  if x ≤ a then 0 else if x ≤ m then (x - a) ^ 2 / ((b - a) * (m - a))
  else if x < b then 1 - (b - x) ^ 2 / ((b - a) * (b - m)) else 1
def otExponential (lam gam x : ℝ) : ℝ := if x ≤ gam then 0 else 1 - exp (-(lam * (x - gam)))
def otNormal (Φ : ℝ → ℝ) (mu sigma x : ℝ) : ℝ := Φ ((x - mu) / sigma)
def otLogNormal (Φ : ℝ → ℝ) (muLog sigmaLog gam x : ℝ) : ℝ :=
  if x ≤ gam then 0 else Φ ((log (x - gam) - muLog) / sigmaLog)
def otWeibullMin (bet alp gam x : ℝ) : ℝ :=
  if x ≤ gam then 0 else 1 - exp (-(((x - gam) / bet) ^ alp))
def otWeibullMax (bet alp gam x : ℝ) : ℝ :=
  if x < gam then exp (-(((gam - x) / bet) ^ alp)) else 1
def otBeta (I : ℝ → ℝ → ℝ → ℝ) (alp bet a b x : ℝ) : ℝ := I alp bet ((x - a) / (b - a))
def otDirac (v x : ℝ) : ℝ := if x < v then 0 else 1

/-! ### The laws documented by GEMSEO (in the order of its constructor arguments) -/

def uniformCdf (minimum maximum x : ℝ) : ℝ := otUniform minimum maximum x
def uniformIcdf (a b p : ℝ) : ℝ := a + p * (b - a)
def triangularCdf (minimum mode maximum x : ℝ) : ℝ := otTriangular minimum mode maximum x
def triangularIcdf (a m b p : ℝ) : ℝ :=
  if p ≤ (m - a) / (b - a) then a + sqrt (p * (b - a) * (m - a))
  else b - sqrt ((1 - p) * (b - a) * (b - m))
def exponentialCdf (rate loc x : ℝ) : ℝ := otExponential rate loc x
def exponentialIcdf (rate loc p : ℝ) : ℝ := loc - log (1 - p) / rate
def normalCdf (Φ : ℝ → ℝ) (mu sigma x : ℝ) : ℝ := Φ ((x - mu) / sigma)
def betaCdf (I : ℝ → ℝ → ℝ → ℝ) (alpha beta minimum maximum x : ℝ) : ℝ :=
  I alpha beta ((x - minimum) / (maximum - minimum))
def weibullMinCdf (location scale shape x : ℝ) : ℝ :=
  if x ≤ location then 0 else 1 - exp (-(((x - location) / scale) ^ shape))
def weibullMaxCdf (location scale shape x : ℝ) : ℝ :=
  if x < location then exp (-(((location - x) / scale) ^ shape)) else 1
/-- log-normal law given by the mean and standard deviation of the logarithm -/
def logNormalCdf (Φ : ℝ → ℝ) (muLog sigmaLog location x : ℝ) : ℝ :=
  if x ≤ location then 0 else Φ ((log (x - location) - muLog) / sigmaLog)
def diracCdf (v x : ℝ) : ℝ := if x < v then 0 else 1

/-! ### Uniform law -/

theorem uniform_cdf_icdf (a b p : ℝ) (h : a < b) (hp0 : 0 ≤ p) (hp1 : p ≤ 1) :
    uniformCdf a b (uniformIcdf a b p) = p := by
  have hba : b - a ≠ 0 := (sub_pos.mpr h).ne'
  unfold uniformCdf otUniform uniformIcdf
  have : (a + p * (b - a) - a) / (b - a) = p := by field_simp; ring
  rw [this, min_eq_right hp1, max_eq_right hp0]

theorem uniform_icdf_cdf (a b x : ℝ) (h : a < b) (hx0 : a ≤ x) (hx1 : x ≤ b) :
    uniformIcdf a b (uniformCdf a b x) = x := by
  have hpos : 0 < b - a := sub_pos.mpr h
  unfold uniformCdf otUniform uniformIcdf
  have h0 : 0 ≤ (x - a) / (b - a) := div_nonneg (by linarith) hpos.le
  have h1 : (x - a) / (b - a) ≤ 1 := by rw [div_le_one hpos]; linarith
  rw [min_eq_right h1, max_eq_right h0]
  field_simp; ring

/-- The inverse CDF maps `[0,1]` into the support `[a,b]` (so inverse-transform samples are in the
    support) and is non-decreasing. -/
theorem uniform_icdf_mem_support (a b p : ℝ) (h : a ≤ b) (hp0 : 0 ≤ p) (hp1 : p ≤ 1) :
    a ≤ uniformIcdf a b p ∧ uniformIcdf a b p ≤ b := by
  unfold uniformIcdf
  have hba : 0 ≤ b - a := sub_nonneg.mpr h
  constructor
  · nlinarith [mul_nonneg hp0 hba]
  · nlinarith [mul_le_mul_of_nonneg_right hp1 hba]

theorem uniform_icdf_mono (a b : ℝ) (h : a ≤ b) : Monotone (uniformIcdf a b) := by
  intro p q hpq
  unfold uniformIcdf
  have hba : 0 ≤ b - a := sub_nonneg.mpr h
  nlinarith [mul_le_mul_of_nonneg_right hpq hba]

theorem uniform_cdf_range (a b x : ℝ) : 0 ≤ uniformCdf a b x ∧ uniformCdf a b x ≤ 1 := by
  unfold uniformCdf otUniform
  exact ⟨le_max_left _ _, max_le (by norm_num) (min_le_left _ _)⟩

/-- density `1/(b-a)` on `[a,b]`: mean `(a+b)/2`. -/
theorem uniform_mean (a b : ℝ) (h : a < b) :
    ∫ x in a..b, x * (1 / (b - a)) = (a + b) / 2 := by
  have hba : b - a ≠ 0 := (sub_pos.mpr h).ne'
  rw [intervalIntegral.integral_mul_const, integral_id]
  field_simp; ring

/-- variance `(b-a)²/12`. -/
theorem uniform_variance (a b : ℝ) (h : a < b) :
    ∫ x in a..b, (x - (a + b) / 2) ^ 2 * (1 / (b - a)) = (b - a) ^ 2 / 12 := by
  have hba : b - a ≠ 0 := (sub_pos.mpr h).ne'
  rw [intervalIntegral.integral_mul_const]
  have : ∫ x in a..b, (x - (a + b) / 2) ^ 2 =
      ((b - (a + b) / 2) ^ 3 - (a - (a + b) / 2) ^ 3) / 3 := by
    have := intervalIntegral.integral_comp_sub_right (fun x => x ^ 2) ((a + b) / 2) (a := a) (b := b)
    rw [this, integral_pow]
    norm_num
  rw [this]
  field_simp; ring

/-- standard deviation `(b-a)/√12`. -/
theorem uniform_std (a b : ℝ) (h : a < b) : sqrt ((b - a) ^ 2 / 12) = (b - a) / sqrt 12 := by
  rw [sqrt_div (sq_nonneg _), sqrt_sq (sub_pos.mpr h).le]

/-! ### Exponential law -/

theorem exponential_cdf_icdf (rate loc p : ℝ) (hr : 0 < rate) (hp0 : 0 ≤ p) (hp1 : p < 1) :
    exponentialCdf rate loc (exponentialIcdf rate loc p) = p := by
  unfold exponentialCdf otExponential exponentialIcdf
  have h1p : 0 < 1 - p := by linarith
  have hlog : log (1 - p) ≤ 0 := log_nonpos h1p.le (by linarith)
  by_cases hp : p = 0
  · subst hp; simp
  · have hp' : 0 < p := lt_of_le_of_ne hp0 (Ne.symm hp)
    have hlog' : log (1 - p) < 0 := log_neg h1p (by linarith)
    have : ¬ (loc - log (1 - p) / rate ≤ loc) := by
      have : log (1 - p) / rate < 0 := div_neg_of_neg_of_pos hlog' hr
      linarith
    rw [if_neg this]
    have e : -(rate * (loc - log (1 - p) / rate - loc)) = log (1 - p) := by field_simp; ring
    rw [e, exp_log h1p]; ring

theorem exponential_icdf_cdf (rate loc x : ℝ) (hr : 0 < rate) (hx : loc ≤ x) :
    exponentialIcdf rate loc (exponentialCdf rate loc x) = x := by
  unfold exponentialCdf otExponential exponentialIcdf
  by_cases h : x ≤ loc
  · have : x = loc := le_antisymm h hx
    subst this; simp
  · rw [if_neg h]
    have : 1 - (1 - exp (-(rate * (x - loc)))) = exp (-(rate * (x - loc))) := by ring
    rw [this, log_exp]
    field_simp; ring

/-- The inverse CDF maps `[0,1)` into the support `[loc,∞)` and is non-decreasing there. -/
theorem exponential_icdf_mem_support (rate loc p : ℝ) (hr : 0 < rate) (hp0 : 0 ≤ p) (hp1 : p < 1) :
    loc ≤ exponentialIcdf rate loc p := by
  unfold exponentialIcdf
  have hlog : log (1 - p) ≤ 0 := log_nonpos (by linarith) (by linarith)
  have : log (1 - p) / rate ≤ 0 := div_nonpos_of_nonpos_of_nonneg hlog hr.le
  linarith

theorem exponential_icdf_mono (rate loc p q : ℝ) (hr : 0 < rate) (hpq : p ≤ q) (hq : q < 1) :
    exponentialIcdf rate loc p ≤ exponentialIcdf rate loc q := by
  unfold exponentialIcdf
  have h1 : log (1 - q) ≤ log (1 - p) := log_le_log (by linarith) (by linarith)
  have : log (1 - q) / rate ≤ log (1 - p) / rate := div_le_div_of_nonneg_right h1 hr.le
  linarith

theorem exponential_cdf_range (rate loc x : ℝ) (hr : 0 < rate) :
    0 ≤ exponentialCdf rate loc x ∧ exponentialCdf rate loc x ≤ 1 := by
  unfold exponentialCdf otExponential
  split
  · exact ⟨le_refl _, by norm_num⟩
  · rename_i h
    have hx : 0 < rate * (x - loc) := mul_pos hr (by linarith [not_le.mp h])
    have h1 : exp (-(rate * (x - loc))) ≤ 1 := exp_le_one_iff.mpr (by linarith)
    have h2 : 0 < exp (-(rate * (x - loc))) := exp_pos _
    constructor <;> linarith

/-- standard exponential law (density `e^{-x}` on `(0,∞)`): mean 1. -/
theorem std_exponential_mean : ∫ x in Set.Ioi (0 : ℝ), x * exp (-x) = 1 := by
  have := Real.integral_rpow_mul_exp_neg_mul_Ioi (a := 2) (r := 1) (by norm_num) (by norm_num)
  have h2 : (2 : ℝ) - 1 = 1 := by norm_num
  simp only [h2, rpow_one, one_mul, div_one, one_rpow] at this
  rw [this]
  have : Real.Gamma 2 = 1 := by
    have := Real.Gamma_nat_eq_factorial 1
    simpa using this
  rw [this]

/-- second moment 2, hence variance `2 - 1² = 1` and standard deviation 1. -/
theorem std_exponential_second_moment : ∫ x in Set.Ioi (0 : ℝ), x ^ 2 * exp (-x) = 2 := by
  have := Real.integral_rpow_mul_exp_neg_mul_Ioi (a := 3) (r := 1) (by norm_num) (by norm_num)
  have h2 : (3 : ℝ) - 1 = 2 := by norm_num
  simp only [h2, one_mul, div_one, one_rpow] at this
  have hG : Real.Gamma 3 = 2 := by
    have := Real.Gamma_nat_eq_factorial 2
    norm_num at this
    simpa using this
  rw [hG] at this
  rw [← this]
  apply MeasureTheory.setIntegral_congr_fun measurableSet_Ioi
  intro x hx
  simp only
  rw [← rpow_natCast x 2]
  norm_num

end
end GV.C19.Laws
