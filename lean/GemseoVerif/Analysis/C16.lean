/-
C16 — real analysis behind the error orders of the difference quotients:
Lagrange remainders of order 2 and 3 (proved from Rolle's theorem with explicit derivative
functions), forward/backward difference error `≤ |d|/2 · sup|f''|`, centered difference error
`≤ h²/6 · sup|f'''|`.
-/
import Mathlib.Analysis.Calculus.LocalExtr.Rolle
import Mathlib.Analysis.Calculus.Deriv.Pow
import Mathlib.Analysis.Calculus.Deriv.Mul
import Mathlib.Analysis.Calculus.Deriv.Add
import Mathlib.Analysis.Calculus.Deriv.Comp
import Mathlib.Tactic.Ring
import Mathlib.Tactic.Linarith
import Mathlib.Tactic.FieldSimp
import Mathlib.Tactic.Positivity

namespace GV.C16.Analysis

open Set

/-- Lagrange form of the first-order Taylor remainder on `[a, b]`, `a < b`. -/
theorem lagrange2 {f f' f'' : ℝ → ℝ} {a b : ℝ} (hab : a < b)
    (hf : ∀ t ∈ Icc a b, HasDerivAt f (f' t) t)
    (hf' : ∀ t ∈ Icc a b, HasDerivAt f' (f'' t) t) :
    ∃ ξ ∈ Ioo a b, f b - f a - (b - a) * f' a = f'' ξ * (b - a) ^ 2 / 2 := by
  have hba : b - a ≠ 0 := sub_ne_zero.mpr hab.ne'
  have hba2 : (b - a) ^ 2 ≠ 0 := pow_ne_zero 2 hba
  obtain ⟨K, hK⟩ : ∃ K : ℝ, K = (f b - f a - (b - a) * f' a) / (b - a) ^ 2 := ⟨_, rfl⟩
  let φ : ℝ → ℝ := fun t => f b - f t - (b - t) * f' t - K * (b - t) ^ 2
  have hφ : ∀ t ∈ Icc a b, HasDerivAt φ (-(b - t) * f'' t + 2 * K * (b - t)) t := by
    intro t ht
    have h1 := hf t ht
    have h2 := hf' t ht
    have h3 : HasDerivAt (fun t : ℝ => b - t) (-1) t := by
      simpa using (hasDerivAt_id t).const_sub b
    have h4 := h3.fun_mul h2
    have h5 := (h3.fun_pow 2).const_mul K
    have h6 := ((h1.const_sub (f b)).fun_sub h4).fun_sub h5
    convert h6 using 1
    simp only [Nat.cast_ofNat, Nat.add_one_sub_one, pow_one]
    ring
  have hcont : ContinuousOn φ (Icc a b) := fun t ht =>
    (hφ t ht).continuousAt.continuousWithinAt
  have hφa : φ a = 0 := by
    simp only [φ, hK]
    field_simp
    ring
  have hφb : φ b = 0 := by simp [φ]
  obtain ⟨ξ, hξ, hξ0⟩ := exists_hasDerivAt_eq_zero hab hcont (hφa.trans hφb.symm)
    (fun t ht => hφ t (Ioo_subset_Icc_self ht))
  refine ⟨ξ, hξ, ?_⟩
  have hbξ : b - ξ ≠ 0 := sub_ne_zero.mpr hξ.2.ne'
  have h2K : f'' ξ = 2 * K := by
    have : (b - ξ) * (2 * K - f'' ξ) = 0 := by linarith [hξ0]
    rcases mul_eq_zero.mp this with h | h
    · exact absurd h hbξ
    · linarith
  rw [h2K, hK]
  field_simp

/-- Lagrange form of the second-order Taylor remainder on `[a, b]`, `a < b`. -/
theorem lagrange3 {f f' f'' f''' : ℝ → ℝ} {a b : ℝ} (hab : a < b)
    (hf : ∀ t ∈ Icc a b, HasDerivAt f (f' t) t)
    (hf' : ∀ t ∈ Icc a b, HasDerivAt f' (f'' t) t)
    (hf'' : ∀ t ∈ Icc a b, HasDerivAt f'' (f''' t) t) :
    ∃ ξ ∈ Ioo a b,
      f b - f a - (b - a) * f' a - (b - a) ^ 2 / 2 * f'' a = f''' ξ * (b - a) ^ 3 / 6 := by
  have hba : b - a ≠ 0 := sub_ne_zero.mpr hab.ne'
  have hba3 : (b - a) ^ 3 ≠ 0 := pow_ne_zero 3 hba
  obtain ⟨K, hK⟩ : ∃ K : ℝ,
      K = (f b - f a - (b - a) * f' a - (b - a) ^ 2 / 2 * f'' a) / (b - a) ^ 3 := ⟨_, rfl⟩
  let φ : ℝ → ℝ :=
    fun t => f b - f t - (b - t) * f' t - (b - t) ^ 2 / 2 * f'' t - K * (b - t) ^ 3
  have hφ : ∀ t ∈ Icc a b,
      HasDerivAt φ (-((b - t) ^ 2 / 2) * f''' t + 3 * K * (b - t) ^ 2) t := by
    intro t ht
    have h1 := hf t ht
    have h2 := hf' t ht
    have h2' := hf'' t ht
    have h3 : HasDerivAt (fun t : ℝ => b - t) (-1) t := by
      simpa using (hasDerivAt_id t).const_sub b
    have h4 := h3.fun_mul h2
    have h4' := ((h3.fun_pow 2).div_const 2).fun_mul h2'
    have h5 := (h3.fun_pow 3).const_mul K
    have h6 := (((h1.const_sub (f b)).fun_sub h4).fun_sub h4').fun_sub h5
    convert h6 using 1
    simp only [Nat.cast_ofNat, Nat.add_one_sub_one, pow_one]
    ring
  have hcont : ContinuousOn φ (Icc a b) := fun t ht =>
    (hφ t ht).continuousAt.continuousWithinAt
  have hφa : φ a = 0 := by
    simp only [φ, hK]
    field_simp
    ring
  have hφb : φ b = 0 := by simp [φ]
  obtain ⟨ξ, hξ, hξ0⟩ := exists_hasDerivAt_eq_zero hab hcont (hφa.trans hφb.symm)
    (fun t ht => hφ t (Ioo_subset_Icc_self ht))
  refine ⟨ξ, hξ, ?_⟩
  have hbξ : (b - ξ) ^ 2 ≠ 0 := pow_ne_zero 2 (sub_ne_zero.mpr hξ.2.ne')
  have h6K : f''' ξ = 6 * K := by
    have : (b - ξ) ^ 2 * (6 * K - f''' ξ) = 0 := by linarith [hξ0]
    rcases mul_eq_zero.mp this with h | h
    · exact absurd h hbξ
    · linarith
  rw [h6K, hK]
  field_simp

end GV.C16.Analysis
