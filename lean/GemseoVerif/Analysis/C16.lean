/-
C16 — real analysis behind the error orders of the difference quotients:
Lagrange remainders of order 2 and 3 (proved from Rolle's theorem with explicit derivative
functions), forward/backward difference error `≤ |d|/2 · sup|f''|`, centered difference error
`≤ h²/6 · sup|f'''|`.
-/
import Mathlib.Analysis.Calculus.LocalExtr.Rolle
import Mathlib.Analysis.Calculus.Deriv.Pow
import Mathlib.Analysis.Calculus.Deriv.Mul
import Mathlib.Analysis.Calculus.Deriv.Add
import Mathlib.Analysis.Calculus.Deriv.Comp
import Mathlib.Tactic.Ring
import Mathlib.Tactic.Linarith
import Mathlib.Tactic.FieldSimp
import Mathlib.Tactic.Positivity

namespace GV.C16.Analysis

open Set

/-- Lagrange form of the first-order Taylor remainder on `[a, b]`, `a < b`. -/
theorem lagrange2 {f f' f'' : ℝ → ℝ} {a b : ℝ} (hab : a < b)
    (hf : ∀ t ∈ Icc a b, HasDerivAt f (f' t) t)
    (hf' : ∀ t ∈ Icc a b, HasDerivAt f' (f'' t) t) :
    ∃ ξ ∈ Ioo a b, f b - f a - (b - a) * f' a = f'' ξ * (b - a) ^ 2 / 2 := by
  have hba : b - a ≠ 0 := sub_ne_zero.mpr hab.ne'
  have hba2 : (b - a) ^ 2 ≠ 0 := pow_ne_zero 2 hba
  obtain ⟨K, hK⟩ : ∃ K : ℝ, K = (f b - f a - (b - a) * f' a) / (b - a) ^ 2 := ⟨_, rfl⟩
  let φ : ℝ → ℝ := fun t => f b - f t - (b - t) * f' t - K * (b - t) ^ 2
  have hφ : ∀ t ∈ Icc a b, HasDerivAt φ (-(b - t) * f'' t + 2 * K * (b - t)) t := by
    intro t ht
    have h1 := hf t ht
    have h2 := hf' t ht
    have h3 : HasDerivAt (fun t : ℝ => b - t) (-1) t := by
      simpa using (hasDerivAt_id t).const_sub b
    have h4 := h3.fun_mul h2
    have h5 := (h3.fun_pow 2).const_mul K
    have h6 := ((h1.const_sub (f b)).fun_sub h4).fun_sub h5
    refine h6.congr_deriv ?_
    norm_num
    ring
  have hcont : ContinuousOn φ (Icc a b) := fun t ht =>
    (hφ t ht).continuousAt.continuousWithinAt
  have hφa : φ a = 0 := by
    simp only [φ, hK]
    field_simp
    ring
  have hφb : φ b = 0 := by simp [φ]
  obtain ⟨ξ, hξ, hξ0⟩ := exists_hasDerivAt_eq_zero hab hcont (hφa.trans hφb.symm)
    (fun t ht => hφ t (Ioo_subset_Icc_self ht))
  refine ⟨ξ, hξ, ?_⟩
  have hbξ : b - ξ ≠ 0 := sub_ne_zero.mpr hξ.2.ne'
  have h2K : f'' ξ = 2 * K := by
    have : (b - ξ) * (2 * K - f'' ξ) = 0 := by linarith [hξ0]
    rcases mul_eq_zero.mp this with h | h
    · exact absurd h hbξ
    · linarith
  rw [h2K, hK]
  field_simp

/-- Lagrange form of the second-order Taylor remainder on `[a, b]`, `a < b`. -/
theorem lagrange3 {f f' f'' f''' : ℝ → ℝ} {a b : ℝ} (hab : a < b)
    (hf : ∀ t ∈ Icc a b, HasDerivAt f (f' t) t)
    (hf' : ∀ t ∈ Icc a b, HasDerivAt f' (f'' t) t)
    (hf'' : ∀ t ∈ Icc a b, HasDerivAt f'' (f''' t) t) :
    ∃ ξ ∈ Ioo a b,
      f b - f a - (b - a) * f' a - (b - a) ^ 2 / 2 * f'' a = f''' ξ * (b - a) ^ 3 / 6 := by
  have hba : b - a ≠ 0 := sub_ne_zero.mpr hab.ne'
  have hba3 : (b - a) ^ 3 ≠ 0 := pow_ne_zero 3 hba
  obtain ⟨K, hK⟩ : ∃ K : ℝ,
      K = (f b - f a - (b - a) * f' a - (b - a) ^ 2 / 2 * f'' a) / (b - a) ^ 3 := ⟨_, rfl⟩
  let φ : ℝ → ℝ :=
    fun t => f b - f t - (b - t) * f' t - (b - t) ^ 2 / 2 * f'' t - K * (b - t) ^ 3
  have hφ : ∀ t ∈ Icc a b,
      HasDerivAt φ (-((b - t) ^ 2 / 2) * f''' t + 3 * K * (b - t) ^ 2) t := by
    intro t ht
    have h1 := hf t ht
    have h2 := hf' t ht
    have h2' := hf'' t ht
    have h3 : HasDerivAt (fun t : ℝ => b - t) (-1) t := by
      simpa using (hasDerivAt_id t).const_sub b
    have h4 := h3.fun_mul h2
    have h4' := ((h3.fun_pow 2).div_const 2).fun_mul h2'
    have h5 := (h3.fun_pow 3).const_mul K
    have h6 := (((h1.const_sub (f b)).fun_sub h4).fun_sub h4').fun_sub h5
    refine h6.congr_deriv ?_
    norm_num
    ring
  have hcont : ContinuousOn φ (Icc a b) := fun t ht =>
    (hφ t ht).continuousAt.continuousWithinAt
  have hφa : φ a = 0 := by
    simp only [φ, hK]
    field_simp
    ring
  have hφb : φ b = 0 := by simp [φ]
  obtain ⟨ξ, hξ, hξ0⟩ := exists_hasDerivAt_eq_zero hab hcont (hφa.trans hφb.symm)
    (fun t ht => hφ t (Ioo_subset_Icc_self ht))
  refine ⟨ξ, hξ, ?_⟩
  have hbξ : (b - ξ) ^ 2 ≠ 0 := pow_ne_zero 2 (sub_ne_zero.mpr hξ.2.ne')
  have h6K : f''' ξ = 6 * K := by
    have : (b - ξ) ^ 2 * (6 * K - f''' ξ) = 0 := by linarith [hξ0]
    rcases mul_eq_zero.mp this with h | h
    · exact absurd h hbξ
    · linarith
  rw [h6K, hK]
  field_simp

/-- Reflection `t ↦ f (-t)` of a differentiable function. -/
theorem hasDerivAt_reflect {f f' : ℝ → ℝ} {t : ℝ} (h : HasDerivAt f (f' (-t)) (-t)) :
    HasDerivAt (fun s => f (-s)) (-f' (-t)) t := by
  have := h.comp t (hasDerivAt_neg t)
  simpa [Function.comp_def] using this

/-- First-order Lagrange remainder towards the left (`b < a`). -/
theorem lagrange2_back {f f' f'' : ℝ → ℝ} {a b : ℝ} (hba : b < a)
    (hf : ∀ t ∈ Icc b a, HasDerivAt f (f' t) t)
    (hf' : ∀ t ∈ Icc b a, HasDerivAt f' (f'' t) t) :
    ∃ ξ ∈ Ioo b a, f b - f a - (b - a) * f' a = f'' ξ * (b - a) ^ 2 / 2 := by
  have hmem : ∀ t ∈ Icc (-a) (-b), -t ∈ Icc b a := fun t ht =>
    ⟨by linarith [ht.2], by linarith [ht.1]⟩
  obtain ⟨ξ, hξ, h⟩ := lagrange2 (f := fun t => f (-t)) (f' := fun t => -f' (-t))
    (f'' := fun t => f'' (-t)) (a := -a) (b := -b) (by linarith)
    (fun t ht => hasDerivAt_reflect (hf _ (hmem t ht)))
    (fun t ht => by
      have := (hasDerivAt_reflect (hf' _ (hmem t ht))).fun_neg
      simpa using this)
  refine ⟨-ξ, ⟨by linarith [hξ.2], by linarith [hξ.1]⟩, ?_⟩
  simp only [neg_neg] at h
  have e : (-b - -a) = -(b - a) := by ring
  rw [e] at h
  linear_combination h

/-- Second-order Lagrange remainder towards the left (`b < a`). -/
theorem lagrange3_back {f f' f'' f''' : ℝ → ℝ} {a b : ℝ} (hba : b < a)
    (hf : ∀ t ∈ Icc b a, HasDerivAt f (f' t) t)
    (hf' : ∀ t ∈ Icc b a, HasDerivAt f' (f'' t) t)
    (hf'' : ∀ t ∈ Icc b a, HasDerivAt f'' (f''' t) t) :
    ∃ ξ ∈ Ioo b a,
      f b - f a - (b - a) * f' a - (b - a) ^ 2 / 2 * f'' a = f''' ξ * (b - a) ^ 3 / 6 := by
  have hmem : ∀ t ∈ Icc (-a) (-b), -t ∈ Icc b a := fun t ht =>
    ⟨by linarith [ht.2], by linarith [ht.1]⟩
  obtain ⟨ξ, hξ, h⟩ := lagrange3 (f := fun t => f (-t)) (f' := fun t => -f' (-t))
    (f'' := fun t => f'' (-t)) (f''' := fun t => -f''' (-t)) (a := -a) (b := -b) (by linarith)
    (fun t ht => hasDerivAt_reflect (hf _ (hmem t ht)))
    (fun t ht => by
      have := (hasDerivAt_reflect (hf' _ (hmem t ht))).fun_neg
      simpa using this)
    (fun t ht => hasDerivAt_reflect (hf'' _ (hmem t ht)))
  refine ⟨-ξ, ⟨by linarith [hξ.2], by linarith [hξ.1]⟩, ?_⟩
  simp only [neg_neg] at h
  have e : (-b - -a) = -(b - a) := by ring
  rw [e] at h
  linear_combination h

/-- **Forward/backward difference quotient**: for a signed step `d ≠ 0`, the error is at most
    `|d|/2 · M` where `M` bounds `|f''|` between `x` and `x + d`. -/
theorem fd_error {f f' f'' : ℝ → ℝ} {x d M : ℝ} (hd : d ≠ 0)
    (hf : ∀ t ∈ uIcc x (x + d), HasDerivAt f (f' t) t)
    (hf' : ∀ t ∈ uIcc x (x + d), HasDerivAt f' (f'' t) t)
    (hM : ∀ t ∈ uIcc x (x + d), |f'' t| ≤ M) :
    |(f (x + d) - f x) / d - f' x| ≤ |d| / 2 * M := by
  have key : ∃ ξ ∈ uIcc x (x + d), f (x + d) - f x - d * f' x = f'' ξ * d ^ 2 / 2 := by
    rcases lt_or_gt_of_ne hd with hneg | hpos
    · have hlt : x + d < x := by linarith
      rw [uIcc_of_ge hlt.le] at hf hf' ⊢
      obtain ⟨ξ, hξ, h⟩ := lagrange2_back hlt hf hf'
      exact ⟨ξ, Ioo_subset_Icc_self hξ, by simpa using h⟩
    · have hlt : x < x + d := by linarith
      rw [uIcc_of_le hlt.le] at hf hf' ⊢
      obtain ⟨ξ, hξ, h⟩ := lagrange2 hlt hf hf'
      exact ⟨ξ, Ioo_subset_Icc_self hξ, by simpa using h⟩
  obtain ⟨ξ, hξ, h⟩ := key
  have e : (f (x + d) - f x) / d - f' x = f'' ξ * d / 2 := by
    have e0 : (f (x + d) - f x) / d - f' x = (f (x + d) - f x - d * f' x) / d := by
      field_simp
    rw [e0, h]
    field_simp
  rw [e, abs_div, abs_mul, abs_two]
  have := hM ξ hξ
  have hd0 : 0 ≤ |d| := abs_nonneg d
  calc |f'' ξ| * |d| / 2 ≤ M * |d| / 2 := by
        apply div_le_div_of_nonneg_right _ (by norm_num)
        exact mul_le_mul_of_nonneg_right this hd0
    _ = |d| / 2 * M := by ring

/-- **Centered difference quotient**: the error is at most `h²/6 · M` where `M` bounds `|f'''|`
    on `[x - h, x + h]`. -/
theorem cd_error {f f' f'' f''' : ℝ → ℝ} {x h M : ℝ} (hh : 0 < h)
    (hf : ∀ t ∈ Icc (x - h) (x + h), HasDerivAt f (f' t) t)
    (hf' : ∀ t ∈ Icc (x - h) (x + h), HasDerivAt f' (f'' t) t)
    (hf'' : ∀ t ∈ Icc (x - h) (x + h), HasDerivAt f'' (f''' t) t)
    (hM : ∀ t ∈ Icc (x - h) (x + h), |f''' t| ≤ M) :
    |(f (x + h) - f (x - h)) / (2 * h) - f' x| ≤ h ^ 2 / 6 * M := by
  have hsubR : Icc x (x + h) ⊆ Icc (x - h) (x + h) := Icc_subset_Icc (by linarith) le_rfl
  have hsubL : Icc (x - h) x ⊆ Icc (x - h) (x + h) := Icc_subset_Icc le_rfl (by linarith)
  obtain ⟨ξ₁, hξ₁, h₁⟩ := lagrange3 (a := x) (b := x + h) (by linarith)
    (fun t ht => hf t (hsubR ht)) (fun t ht => hf' t (hsubR ht)) (fun t ht => hf'' t (hsubR ht))
  obtain ⟨ξ₂, hξ₂, h₂⟩ := lagrange3_back (a := x) (b := x - h) (by linarith)
    (fun t ht => hf t (hsubL ht)) (fun t ht => hf' t (hsubL ht)) (fun t ht => hf'' t (hsubL ht))
  have e : (f (x + h) - f (x - h)) / (2 * h) - f' x = h ^ 2 / 12 * (f''' ξ₁ + f''' ξ₂) := by
    have hh' : h ≠ 0 := hh.ne'
    field_simp
    have e1 : x + h - x = h := by ring
    have e2 : x - h - x = -h := by ring
    rw [e1] at h₁
    rw [e2] at h₂
    linear_combination 12 * h₁ - 12 * h₂
  have b1 := hM ξ₁ (hsubR (Ioo_subset_Icc_self hξ₁))
  have b2 := hM ξ₂ (hsubL (Ioo_subset_Icc_self hξ₂))
  rw [e, abs_mul, abs_of_nonneg (by positivity : (0 : ℝ) ≤ h ^ 2 / 12)]
  have : |f''' ξ₁ + f''' ξ₂| ≤ 2 * M := (abs_add_le _ _).trans (by linarith)
  calc h ^ 2 / 12 * |f''' ξ₁ + f''' ξ₂| ≤ h ^ 2 / 12 * (2 * M) :=
        mul_le_mul_of_nonneg_left this (by positivity)
    _ = h ^ 2 / 6 * M := by ring

end GV.C16.Analysis
