/-
C18 — the kernel derivative formulas of /repo are the derivatives of the SciPy kernels.

For each kernel `k` of `scipy.interpolate.Rbf`, `φ_k` is defined below as SciPy defines it
(`_h_*`: `epsilon` scales `r` for multiquadric, inverse multiquadric and gaussian only).
Along coordinate `j` of `x`, with `c = c_j`, `s = Σ_{i≠j} (x_i − c_i)²`, the model value is
`t ↦ φ_k(√((t − c)² + s))`. The theorems `der_k_correct` state that the formula that the
translator extracted from `RBFRegressor.RBFDerivatives.der_k` (`Gen.der_k`), evaluated at
`input_data = t − c`, `norm_input_data = √((t − c)² + s)`, `eps`, with the guard `TOL` set to 0,
is the derivative of that map — each obtained from `Expr.diff_correct` applied to the slice
expression + one algebraic identity.
-/
import GemseoVerif.Analysis.C18Expr
import GemseoVerif.Gen.C18Kernels
import Mathlib.Tactic.Positivity
import Mathlib.Tactic.Linarith

namespace GV.C18

open Expr

/-! ### SciPy's kernels -/

noncomputable def phiMultiquadric (eps r : ℝ) : ℝ := Real.sqrt ((1 / eps * r) ^ 2 + 1)
noncomputable def phiInverseMultiquadric (eps r : ℝ) : ℝ := 1 / Real.sqrt ((1 / eps * r) ^ 2 + 1)
noncomputable def phiGaussian (eps r : ℝ) : ℝ := Real.exp (-(1 / eps * r) ^ 2)
def phiLinear (r : ℝ) : ℝ := r
def phiCubic (r : ℝ) : ℝ := r ^ 3
def phiQuintic (r : ℝ) : ℝ := r ^ 5
noncomputable def phiThinPlate (r : ℝ) : ℝ := r ^ 2 * Real.log r

/-- Environment of the kernel formulas: `input_data, norm_input_data, eps, TOL`. -/
def kenv (x r eps tol : ℝ) : ℕ → ℝ
  | 0 => x
  | 1 => r
  | 2 => eps
  | _ => tol

/-- Environment of the slices: `t, c, s, eps`. -/
def senv (t c s eps : ℝ) : ℕ → ℝ
  | 0 => t
  | 1 => c
  | 2 => s
  | _ => eps

@[simp] theorem kenv0 (x r e τ : ℝ) : kenv x r e τ 0 = x := rfl
@[simp] theorem kenv1 (x r e τ : ℝ) : kenv x r e τ 1 = r := rfl
@[simp] theorem kenv2 (x r e τ : ℝ) : kenv x r e τ 2 = e := rfl
@[simp] theorem kenv3 (x r e τ : ℝ) : kenv x r e τ 3 = τ := rfl
@[simp] theorem senv0 (t c s e : ℝ) : senv t c s e 0 = t := rfl
@[simp] theorem senv1 (t c s e : ℝ) : senv t c s e 1 = c := rfl
@[simp] theorem senv2 (t c s e : ℝ) : senv t c s e 2 = s := rfl
@[simp] theorem senv3 (t c s e : ℝ) : senv t c s e 3 = e := rfl

theorem set0_senv (t u c s e : ℝ) : set0 (senv t c s e) u = senv u c s e := by
  funext i
  match i with
  | 0 => rfl
  | 1 => rfl
  | 2 => rfl
  | (n + 3) => rfl

/-- The kernel expressions of the model (used by the driver to predict) are SciPy's kernels. -/
theorem phiExpr_multiquadric (x r e τ : ℝ) :
    Phi.multiquadric.ev (kenv x r e τ) = phiMultiquadric e r := by
  simp [Phi.multiquadric, Phi.scaledSq, ev, phiMultiquadric]

theorem phiExpr_inverse_multiquadric (x r e τ : ℝ) :
    Phi.inverse_multiquadric.ev (kenv x r e τ) = phiInverseMultiquadric e r := by
  simp [Phi.inverse_multiquadric, Phi.scaledSq, ev, phiInverseMultiquadric]

theorem phiExpr_gaussian (x r e τ : ℝ) :
    Phi.gaussian.ev (kenv x r e τ) = phiGaussian e r := by
  simp [Phi.gaussian, Phi.scaledSq, ev, phiGaussian]

theorem phiExpr_linear (x r e τ : ℝ) : Phi.linear.ev (kenv x r e τ) = phiLinear r := by
  simp [Phi.linear, ev, phiLinear]

theorem phiExpr_cubic (x r e τ : ℝ) : Phi.cubic.ev (kenv x r e τ) = phiCubic r := by
  simp [Phi.cubic, ev, phiCubic]

theorem phiExpr_quintic (x r e τ : ℝ) : Phi.quintic.ev (kenv x r e τ) = phiQuintic r := by
  simp [Phi.quintic, ev, phiQuintic]

theorem phiExpr_thin_plate (x r e τ : ℝ) : Phi.thin_plate.ev (kenv x r e τ) = phiThinPlate r := by
  simp [Phi.thin_plate, ev, phiThinPlate]

/-! ### The slices are the kernels along a coordinate -/

theorem q_nonneg (u c s : ℝ) (hs : 0 ≤ s) : 0 ≤ (u - c) ^ 2 + s := by positivity

theorem slice_q (u c s e : ℝ) : Slice.q.ev (senv u c s e) = (u - c) ^ 2 + s := by
  simp [Slice.q, ev]

theorem slice_w (u c s e : ℝ) : Slice.w.ev (senv u c s e) = ((u - c) ^ 2 + s) / e ^ 2 + 1 := by
  simp [Slice.w, ev, slice_q]

theorem scaled_sq (u c s e : ℝ) (hs : 0 ≤ s) :
    (1 / e * Real.sqrt ((u - c) ^ 2 + s)) ^ 2 = ((u - c) ^ 2 + s) / e ^ 2 := by
  rw [mul_pow, Real.sq_sqrt (q_nonneg u c s hs)]
  simp [div_eq_mul_inv, mul_comm]

theorem w_pos (u c s e : ℝ) (hs : 0 ≤ s) : 0 < ((u - c) ^ 2 + s) / e ^ 2 + 1 := by
  have : 0 ≤ ((u - c) ^ 2 + s) / e ^ 2 := div_nonneg (q_nonneg u c s hs) (sq_nonneg e)
  linarith


/-! ### The formulas of /repo are the derivatives of the kernels

`t` is the coordinate that moves, `c` the same coordinate of the centre, `s ≥ 0` the sum of the
squares of the other coordinates of `x − c`; `Gen.der_k` is evaluated as the code evaluates it:
`input_data = t − c`, `norm_input_data = ‖x − c‖`, `eps`, and the guard `TOL = 0`. -/

set_option linter.unusedSimpArgs false


theorem der_multiquadric_slice (t c s eps : ℝ) (hs : 0 ≤ s) (heps : eps ≠ 0) :
    HasDerivAt (fun u => phiMultiquadric eps (Real.sqrt ((u - c) ^ 2 + s)))
      (Gen.der_multiquadric.ev (kenv (t - c) (Real.sqrt ((t - c) ^ 2 + s)) eps 0)) t := by
  have hfun : (fun u => phiMultiquadric eps (Real.sqrt ((u - c) ^ 2 + s)))
      = fun u => Slice.multiquadric.ev (set0 (senv t c s eps) u) := by
    funext u
    rw [set0_senv]
    simp only [phiMultiquadric, Slice.multiquadric, ev, slice_w, scaled_sq u c s eps hs]
  rw [hfun]
  have hw := w_pos t c s eps hs
  have hok : Slice.multiquadric.ok (set0 (senv t c s eps) t) := by
    rw [set0_senv]
    simp only [Slice.multiquadric, ok, slice_w]
    refine ⟨?_, hw.ne'⟩
    simp [Slice.w, Slice.q, ok, ev, heps]
  have hd := diff_correct (senv t c s eps) t Slice.multiquadric hok
  convert hd using 1
  rw [set0_senv]
  have hsw : Real.sqrt (((t - c) ^ 2 + s) / eps ^ 2 + 1) ≠ 0 := (Real.sqrt_pos.mpr hw).ne'
  simp only [Gen.der_multiquadric, Slice.multiquadric, Slice.w, Slice.q, ev, diff, kenv0, kenv1, kenv2, senv0, senv1, senv2, senv3, div_pow, Real.sq_sqrt (q_nonneg t c s hs)]
  field_simp
  push_cast
  ring


theorem der_inverse_multiquadric_slice (t c s eps : ℝ) (hs : 0 ≤ s) (heps : eps ≠ 0) :
    HasDerivAt (fun u => phiInverseMultiquadric eps (Real.sqrt ((u - c) ^ 2 + s)))
      (Gen.der_inverse_multiquadric.ev (kenv (t - c) (Real.sqrt ((t - c) ^ 2 + s)) eps 0)) t := by
  have hfun : (fun u => phiInverseMultiquadric eps (Real.sqrt ((u - c) ^ 2 + s)))
      = fun u => Slice.inverse_multiquadric.ev (set0 (senv t c s eps) u) := by
    funext u
    rw [set0_senv]
    simp only [phiInverseMultiquadric, Slice.inverse_multiquadric, ev, slice_w, scaled_sq u c s eps hs]
    simp
  rw [hfun]
  have hw := w_pos t c s eps hs
  have hsw : Real.sqrt (((t - c) ^ 2 + s) / eps ^ 2 + 1) ≠ 0 := (Real.sqrt_pos.mpr hw).ne'
  have hok : Slice.inverse_multiquadric.ok (set0 (senv t c s eps) t) := by
    rw [set0_senv]
    simp only [Slice.inverse_multiquadric, ok, ev, slice_w]
    refine ⟨trivial, ⟨?_, hw.ne'⟩, hsw⟩
    simp [Slice.w, Slice.q, ok, ev, heps]
  have hd := diff_correct (senv t c s eps) t Slice.inverse_multiquadric hok
  convert hd using 1
  rw [set0_senv]
  have hss : Real.sqrt (((t - c) ^ 2 + s) / eps ^ 2 + 1) * Real.sqrt (((t - c) ^ 2 + s) / eps ^ 2 + 1) = ((t - c) ^ 2 + s) / eps ^ 2 + 1 := Real.mul_self_sqrt hw.le
  simp only [Gen.der_inverse_multiquadric, Slice.inverse_multiquadric, Slice.w, Slice.q, ev, diff, kenv0, kenv1, kenv2, senv0, senv1, senv2, senv3, div_pow, Real.sq_sqrt (q_nonneg t c s hs)]
  push_cast
  generalize hS : Real.sqrt (((t - c) ^ 2 + s) / eps ^ 2 + 1) = S at hss hsw ⊢
  rw [← hss]
  field_simp
  ring

theorem der_gaussian_slice (t c s eps : ℝ) (hs : 0 ≤ s) (heps : eps ≠ 0) :
    HasDerivAt (fun u => phiGaussian eps (Real.sqrt ((u - c) ^ 2 + s)))
      (Gen.der_gaussian.ev (kenv (t - c) (Real.sqrt ((t - c) ^ 2 + s)) eps 0)) t := by
  have hfun : (fun u => phiGaussian eps (Real.sqrt ((u - c) ^ 2 + s)))
      = fun u => Slice.gaussian.ev (set0 (senv t c s eps) u) := by
    funext u
    rw [set0_senv]
    simp only [phiGaussian, Slice.gaussian, ev, slice_q, scaled_sq u c s eps hs, senv3]
  rw [hfun]
  have hok : Slice.gaussian.ok (set0 (senv t c s eps) t) := by
    rw [set0_senv]
    simp [Slice.gaussian, Slice.q, ok, ev, heps]
  have hd := diff_correct (senv t c s eps) t Slice.gaussian hok
  convert hd using 1
  rw [set0_senv]
  simp only [Gen.der_gaussian, Slice.gaussian, Slice.q, ev, diff, kenv0, kenv1, kenv2, senv0, senv1, senv2, senv3, div_pow, Real.sq_sqrt (q_nonneg t c s hs)]
  field_simp
  push_cast
  ring



theorem slice_r_ok (t c s e : ℝ) (hq : (t - c) ^ 2 + s ≠ 0) : Slice.r.ok (senv t c s e) := by
  simp [Slice.r, Slice.q, ok, ev, hq]

theorem der_linear_slice (t c s eps : ℝ) (hs : 0 ≤ s) (hq : (t - c) ^ 2 + s ≠ 0) :
    HasDerivAt (fun u => phiLinear (Real.sqrt ((u - c) ^ 2 + s)))
      (Gen.der_linear.ev (kenv (t - c) (Real.sqrt ((t - c) ^ 2 + s)) eps 0)) t := by
  have hfun : (fun u => phiLinear (Real.sqrt ((u - c) ^ 2 + s)))
      = fun u => Slice.linear.ev (set0 (senv t c s eps) u) := by
    funext u
    rw [set0_senv]
    simp only [phiLinear, Slice.linear, Slice.r, ev, slice_q]
  rw [hfun]
  have hok : Slice.linear.ok (set0 (senv t c s eps) t) := by
    rw [set0_senv]; exact slice_r_ok t c s eps hq
  have hd := diff_correct (senv t c s eps) t Slice.linear hok
  convert hd using 1
  rw [set0_senv]
  have hqpos : 0 < (t - c) ^ 2 + s := lt_of_le_of_ne (q_nonneg t c s hs) (Ne.symm hq)
  have hr : 0 < Real.sqrt ((t - c) ^ 2 + s) := Real.sqrt_pos.mpr hqpos
  simp only [Gen.der_linear, Slice.linear, Slice.r, Slice.q, ev, diff, kenv0, kenv1, kenv2, kenv3, senv0, senv1, senv2, senv3, hr, if_true, add_zero]
  push_cast
  generalize Real.sqrt ((t - c) ^ 2 + s) = R at hr ⊢
  have hR : R ≠ 0 := hr.ne'
  field_simp
  ring

theorem der_cubic_slice (t c s eps : ℝ) (hs : 0 ≤ s) (hq : (t - c) ^ 2 + s ≠ 0) :
    HasDerivAt (fun u => phiCubic (Real.sqrt ((u - c) ^ 2 + s)))
      (Gen.der_cubic.ev (kenv (t - c) (Real.sqrt ((t - c) ^ 2 + s)) eps 0)) t := by
  have hfun : (fun u => phiCubic (Real.sqrt ((u - c) ^ 2 + s)))
      = fun u => Slice.cubic.ev (set0 (senv t c s eps) u) := by
    funext u
    rw [set0_senv]
    simp only [phiCubic, Slice.cubic, Slice.r, ev, slice_q]
  rw [hfun]
  have hok : Slice.cubic.ok (set0 (senv t c s eps) t) := by
    rw [set0_senv]; exact slice_r_ok t c s eps hq
  have hd := diff_correct (senv t c s eps) t Slice.cubic hok
  convert hd using 1
  rw [set0_senv]
  have hqpos : 0 < (t - c) ^ 2 + s := lt_of_le_of_ne (q_nonneg t c s hs) (Ne.symm hq)
  have hr : 0 < Real.sqrt ((t - c) ^ 2 + s) := Real.sqrt_pos.mpr hqpos
  simp only [Gen.der_cubic, Slice.cubic, Slice.r, Slice.q, ev, diff, kenv0, kenv1, kenv2, kenv3, senv0, senv1, senv2, senv3]
  push_cast
  generalize Real.sqrt ((t - c) ^ 2 + s) = R at hr ⊢
  have hR : R ≠ 0 := hr.ne'
  field_simp
  ring

theorem der_quintic_slice (t c s eps : ℝ) (hs : 0 ≤ s) (hq : (t - c) ^ 2 + s ≠ 0) :
    HasDerivAt (fun u => phiQuintic (Real.sqrt ((u - c) ^ 2 + s)))
      (Gen.der_quintic.ev (kenv (t - c) (Real.sqrt ((t - c) ^ 2 + s)) eps 0)) t := by
  have hfun : (fun u => phiQuintic (Real.sqrt ((u - c) ^ 2 + s)))
      = fun u => Slice.quintic.ev (set0 (senv t c s eps) u) := by
    funext u
    rw [set0_senv]
    simp only [phiQuintic, Slice.quintic, Slice.r, ev, slice_q]
  rw [hfun]
  have hok : Slice.quintic.ok (set0 (senv t c s eps) t) := by
    rw [set0_senv]; exact slice_r_ok t c s eps hq
  have hd := diff_correct (senv t c s eps) t Slice.quintic hok
  convert hd using 1
  rw [set0_senv]
  have hqpos : 0 < (t - c) ^ 2 + s := lt_of_le_of_ne (q_nonneg t c s hs) (Ne.symm hq)
  have hr : 0 < Real.sqrt ((t - c) ^ 2 + s) := Real.sqrt_pos.mpr hqpos
  simp only [Gen.der_quintic, Slice.quintic, Slice.r, Slice.q, ev, diff, kenv0, kenv1, kenv2, kenv3, senv0, senv1, senv2, senv3]
  push_cast
  generalize Real.sqrt ((t - c) ^ 2 + s) = R at hr ⊢
  have hR : R ≠ 0 := hr.ne'
  field_simp
  ring

theorem der_thin_plate_slice (t c s eps : ℝ) (hs : 0 ≤ s) (hq : (t - c) ^ 2 + s ≠ 0) :
    HasDerivAt (fun u => phiThinPlate (Real.sqrt ((u - c) ^ 2 + s)))
      (Gen.der_thin_plate.ev (kenv (t - c) (Real.sqrt ((t - c) ^ 2 + s)) eps 0)) t := by
  have hfun : (fun u => phiThinPlate (Real.sqrt ((u - c) ^ 2 + s)))
      = fun u => Slice.thin_plate.ev (set0 (senv t c s eps) u) := by
    funext u
    rw [set0_senv]
    simp only [phiThinPlate, Slice.thin_plate, Slice.r, ev, slice_q]
  rw [hfun]
  have hqpos : 0 < (t - c) ^ 2 + s := lt_of_le_of_ne (q_nonneg t c s hs) (Ne.symm hq)
  have hr : 0 < Real.sqrt ((t - c) ^ 2 + s) := Real.sqrt_pos.mpr hqpos
  have hok : Slice.thin_plate.ok (set0 (senv t c s eps) t) := by
    rw [set0_senv]
    have := slice_r_ok t c s eps hq
    simp only [Slice.thin_plate, ok, this, true_and]
    simp only [Slice.r, ev, slice_q]
    exact hr.ne'
  have hd := diff_correct (senv t c s eps) t Slice.thin_plate hok
  convert hd using 1
  rw [set0_senv]
  simp only [Gen.der_thin_plate, Slice.thin_plate, Slice.r, Slice.q, ev, diff, kenv0, kenv1, kenv2, kenv3, senv0, senv1, senv2, senv3, hr, if_true, add_zero]
  push_cast
  generalize Real.sqrt ((t - c) ^ 2 + s) = R at hr ⊢
  have hR : R ≠ 0 := hr.ne'
  field_simp
  ring

end GV.C18
