/-
C17 — property theorems: MDO formulations are equivalent views of the same problem.

Only property theorems (and the few definitions needed to state them) live here; helper lemmas are
in `Lemmas/C17.lean` (index arithmetic), `Lemmas/C17Form.lean` (formulation-level functions),
`Lemmas/C17Par.lean` (parallel IDF, equilibrium start, heap of returned arrays),
`Lemmas/C17Buf.lean` (the adapter's array filled block by block, sparse blocks, dtype of the design vector),
`Lemmas/C17Sess.lean` (function objects of several formulations alive in one process) and
`Lemmas/C17Alg.lean` (matrix algebra).

A design vector laid out along `names` is written `cat names pt`: the concatenation of the named
blocks `pt n` (the `convert_dict_to_array` view of the design space, C02).  All statements are for
arbitrary numbers / sizes / orders of variables, arbitrary discipline bodies (`run`, `jac`) where
the statement is about bookkeeping, and arbitrary coupled systems where it is about equivalence.
-/
import GemseoVerif.Lemmas.C17Form
import GemseoVerif.Lemmas.C17Par
import GemseoVerif.Lemmas.C17Buf
import GemseoVerif.Lemmas.C17Sess
import GemseoVerif.Lemmas.C17Alg

namespace GV.C17
open GV.C02

/-! ## 1. Masks: design vector <-> discipline data -/

/-- The index ranges used by the formulation are those of the design space (C02): prefix sums of the
    sizes in variable order. -/
theorem dvIndices_eq_ranges (vars : List Var) (off : Nat) (hnd : (vars.map (·.name)).Nodup) :
    dvIndices (vars.map (fun v => (v.name, v.size))) (vars.map (·.name)) off = rangesAux vars off := by
  induction vars generalizing off with
  | nil => rfl
  | cons v vs ih =>
    have hv : v.name ∉ vs.map (·.name) := (List.nodup_cons.mp hnd).1
    have hnd' : (vs.map (·.name)).Nodup := (List.nodup_cons.mp hnd).2
    have hsz : sizeOf ((v.name, v.size) :: vs.map (fun v => (v.name, v.size))) v.name = v.size := by
      simp [sizeOf]
    -- the sizes of the other variables do not see the head entry
    have htail : ∀ (ns : List String) (o : Nat), (∀ n ∈ ns, n ≠ v.name) →
        dvIndices ((v.name, v.size) :: vs.map (fun v => (v.name, v.size))) ns o
          = dvIndices (vs.map (fun v => (v.name, v.size))) ns o := by
      intro ns
      induction ns with
      | nil => intro o _; rfl
      | cons n ns ihn =>
        intro o hne
        have h1 : n ≠ v.name := hne n (by simp)
        have : sizeOf ((v.name, v.size) :: vs.map (fun v => (v.name, v.size))) n
            = sizeOf (vs.map (fun v => (v.name, v.size))) n := by
          have : (v.name == n) = false := by simpa using h1.symm
          simp [sizeOf, List.find?, this]
        simp only [dvIndices, this]
        rw [ihn _ (fun m hm => hne m (by simp [hm]))]
    simp only [List.map_cons, dvIndices, rangesAux, hsz]
    rw [htail _ _ (fun n hn h => hv (h ▸ hn)), ih _ hnd']

/-- `mask_x_swap_order` picks the blocks of the masking variables **in the order of the masking
    names**, whatever their order in the reference names (the "order swap"). -/
theorem mask_selects_in_masking_order (sizes : Sizes) (masking all : List String) (pt : String → Vec)
    (hnd : all.Nodup) (hsub : ∀ k ∈ masking, k ∈ all)
    (hlen : ∀ n ∈ all, (pt n).length = sizeOf sizes n) :
    maskX sizes masking all (cat all pt) = some (cat masking pt) :=
  maskX_cat sizes masking all pt hnd hsub hlen

/-- A masking name outside the reference names is refused (`ValueError`). -/
theorem mask_rejects_unknown_name (sizes : Sizes) (masking all : List String) (x : Vec) (k : String)
    (hk : k ∈ masking) (hnot : k ∉ all) : maskX sizes masking all x = none :=
  maskX_none sizes masking all x k hk hnot

/-- **`unmask ∘ mask` restores exactly the selected components** (zero elsewhere), for masking names
    listed in the order of the reference names — the only calls the formulations form
    (`get_x_names_of_disc` filters the optimisation variables). -/
theorem mask_unmask (sizes : Sizes) (all : List String) (keep : String → Bool) (pt : String → Vec)
    (hnd : all.Nodup) (hlen : ∀ n ∈ all, (pt n).length = sizeOf sizes n) :
    ∃ xm, maskX sizes (all.filter keep) all (cat all pt) = some xm ∧
      unmask sizes (all.filter keep) all xm none
        = some (cat all (fun k => if keep k then pt k else List.replicate (sizeOf sizes k) 0)) := by
  refine ⟨cat (all.filter keep) pt, ?_, ?_⟩
  · exact maskX_cat sizes _ all pt hnd (fun k hk => (List.mem_filter.mp hk).1) hlen
  · have := unmask_cat sizes (all.filter keep) all keep pt []
      (fun k hk => contains_filter_of_mem hk) hlen
    simpa using this

/-- The same with an explicit default vector `x_full`: the other components keep their default. -/
theorem mask_unmask_full (sizes : Sizes) (all : List String) (keep : String → Bool) (pt dfl : String → Vec)
    (hnd : all.Nodup) (hlen : ∀ n ∈ all, (pt n).length = sizeOf sizes n)
    (hd : ∀ n ∈ all, (dfl n).length = sizeOf sizes n) :
    ∃ xm, maskX sizes (all.filter keep) all (cat all pt) = some xm ∧
      unmask sizes (all.filter keep) all xm (some (cat all dfl))
        = some (cat all (fun k => if keep k then pt k else dfl k)) := by
  refine ⟨cat (all.filter keep) pt, ?_, ?_⟩
  · exact maskX_cat sizes _ all pt hnd (fun k hk => (List.mem_filter.mp hk).1) hlen
  · have := unmask_cat_full sizes (all.filter keep) all keep pt dfl []
      (fun k hk => contains_filter_of_mem hk) hlen hd
    simpa using this

/-- Component form: after `unmask ∘ mask`, the slice of every kept variable is its original block and
    the slice of every other variable is zero. -/
theorem mask_unmask_slice (sizes : Sizes) (all : List String) (keep : String → Bool) (pt : String → Vec)
    (hnd : all.Nodup) (hlen : ∀ n ∈ all, (pt n).length = sizeOf sizes n) (k : String) (hk : k ∈ all) :
    slice sizes all (cat all (fun k => if keep k then pt k else List.replicate (sizeOf sizes k) 0)) k
      = if keep k then slice sizes all (cat all pt) k else List.replicate (sizeOf sizes k) 0 := by
  rw [slice_cat sizes all k _ hnd hk (fun n hn => by
    by_cases h : keep n <;> simp [h, hlen n hn])]
  rw [slice_cat sizes all k pt hnd hk hlen]

/-- **The array a discipline receives for each name is that variable's slice of the design vector.** -/
theorem adapter_input_is_dict_view (sizes : Sizes) (names : List String) (hasInput : String → Bool)
    (pt : String → Vec) (hnd : names.Nodup) (hlen : ∀ n ∈ names, (pt n).length = sizeOf sizes n) :
    ∃ xm, maskX sizes (names.filter hasInput) names (cat names pt) = some xm ∧
      adapterInputData sizes (names.filter hasInput) xm
        = (names.filter hasInput).map (fun n => (n, slice sizes names (cat names pt) n)) := by
  refine ⟨cat (names.filter hasInput) pt, ?_, ?_⟩
  · exact maskX_cat sizes _ names pt hnd (fun k hk => (List.mem_filter.mp hk).1) hlen
  · rw [adapterInputData_cat sizes _ pt (fun n hn => hlen n (List.mem_filter.mp hn).1)]
    apply List.map_congr_left
    intro n hn
    rw [slice_cat sizes names n pt hnd (List.mem_filter.mp hn).1 hlen]

/-- A `FunctionFromDiscipline` evaluates the discipline at the named point (restricted to the
    optimisation variables the discipline reads), for an arbitrary discipline body. -/
theorem function_evaluates_named_point (sizes : Sizes) (names : List String) (hasInput : String → Bool)
    (run : Data → String → Vec) (outs : List String) (pt : String → Vec)
    (hnd : names.Nodup) (hlen : ∀ n ∈ names, (pt n).length = sizeOf sizes n) :
    gEval sizes names hasInput run outs (cat names pt)
      = some (outs.flatMap (run (namedData names hasInput pt))) :=
  gEval_named sizes names hasInput run outs pt hnd hlen

/-- **Jacobian columns are placed at the variable's index range**: in every row of the Jacobian of a
    `FunctionFromDiscipline`, the slice of an input variable is the corresponding row of the
    discipline's block `d o / d k`, and the slice of any other optimisation variable is zero. -/
theorem adapter_jacobian_columns (sizes : Sizes) (names : List String) (hasInput : String → Bool)
    (jac : Data → String → String → Mat) (rowsOf : String → Nat) (outs : List String) (pt : String → Vec)
    (hnd : names.Nodup) (hlen : ∀ n ∈ names, (pt n).length = sizeOf sizes n)
    (hrow : ∀ o i r, i ∈ names → r < rowsOf o →
      ((jac (namedData names hasInput pt) o i).getD r []).length = sizeOf sizes i) :
    ∃ row : String → Nat → Vec,
      gJac sizes names hasInput jac rowsOf outs (cat names pt)
        = some (outs.flatMap (fun o => (List.range (rowsOf o)).map (row o))) ∧
      ∀ o r k, k ∈ names → r < rowsOf o →
        slice sizes names (row o r) k
          = if hasInput k then (jac (namedData names hasInput pt) o k).getD r []
            else List.replicate (sizeOf sizes k) 0 := by
  refine ⟨fun o r => cat names (fun k => if hasInput k then (jac (namedData names hasInput pt) o k).getD r []
      else List.replicate (sizeOf sizes k) 0), ?_, ?_⟩
  · exact gJac_named sizes names hasInput jac rowsOf outs pt hnd hlen hrow
  · intro o r k hk hr
    exact slice_cat sizes names k _ hnd hk (fun n hn => by
      by_cases h : hasInput n
      · simp only [h, if_true]; exact hrow o n r hn hr
      · simp [h])

/-! ## 2. Design-space composition -/

/-- **Exact variable sets per formulation.**  MDF optimises the design-space variables that are not
    couplings and are read by a discipline, in the design-space order; IDF keeps the whole design space
    and exists iff every coupling is in it; DisciplinaryOpt keeps the inputs of its top-level discipline. -/
theorem design_space_composition (s : Sys) :
    s.mdfDS.names = s.ds.names.filter (fun n => !s.allCouplings.contains n && s.allInputs.contains n) ∧
    (∀ d, s.idfDS = some d → d = s.ds ∧ ∀ c ∈ s.allCouplings, s.ds.contains c = true) ∧
    (s.idfDS = none → ∃ c ∈ s.allCouplings, s.ds.contains c = false) ∧
    s.doptDS.names = s.ds.names.filter (fun n => s.topInputs.contains n) := by
  refine ⟨mdfDS_names s, fun d h => idfDS_some s d h, idfDS_none s, ?_⟩
  unfold Sys.doptDS
  rw [names_filter]
  · apply List.filter_congr
    intro n hn
    exact contains_filter_of_mem hn
  · intro k hk
    have hk' : k ∈ s.ds.names := (List.mem_filter.mp hk).1
    simp only [DS.names, List.mem_map] at hk'
    obtain ⟨v, hv, rfl⟩ := hk'
    simp only [DS.contains, List.any_eq_true]
    exact ⟨v, hv, by simp⟩

/-- No coupling is left in MDF's design space, and every MDF variable is an IDF variable. -/
theorem mdf_removes_couplings (s : Sys) (n : String) (h : n ∈ s.mdfDS.names) :
    n ∉ s.allCouplings ∧ n ∈ s.ds.names ∧ n ∈ s.allInputs := by
  rw [mdfDS_names, List.mem_filter] at h
  obtain ⟨h1, h2⟩ := h
  simp only [Bool.and_eq_true, Bool.not_eq_true'] at h2
  refine ⟨?_, h1, by simpa using h2.2⟩
  intro hc
  have : s.allCouplings.contains n = true := by simpa using hc
  rw [h2.1] at this
  cases this

/-! ## 3. Consistency constraints -/

/-- **`c(x,t) = 0 ⇔ t = Y(x,t)`**, normalised (by non-zero scales) or not: the value of the model's
    `ConsistencyConstraint` is defined and vanishes iff the couplings computed by the discipline equal
    the targets read in the design vector. -/
theorem idf_consistency_zero_iff_fixed_point (s : Sys) (normalize : Bool) (d : Disc) (x coupl xsw : Vec)
    (hx : maskX s.sizes (s.outputCouplings d) s.ds.names x = some xsw)
    (hc : ffdEval s.sizes s.ds.names d (s.outputCouplings d) x = some coupl)
    (hlen : coupl.length = xsw.length)
    (hf : (normFactor s.ds (s.outputCouplings d)).length = coupl.length)
    (hnz : ∀ a ∈ normFactor s.ds (s.outputCouplings d), a ≠ 0) :
    ∃ v, consEvalRaw s normalize d x = some v ∧
      (v = List.replicate coupl.length 0 ↔ coupl = xsw) := by
  unfold consEvalRaw
  simp only [hx, hc]
  cases normalize with
  | true =>
    exact ⟨_, rfl, by simpa using scaled_diff_zero_iff coupl xsw _ hlen hf hnz⟩
  | false =>
    exact ⟨_, rfl, by simpa using diff_zero_iff coupl xsw hlen⟩

/-- Abstract form, any number type: `(Y - t)/s = 0 ⇔ t = Y` for a non-zero scale. -/
theorem consistency_zero_iff {K : Type*} [Field K] (y t sc : K) (hs : sc ≠ 0) :
    (y - t) / sc = 0 ↔ t = y := by
  rw [div_eq_zero_iff]
  constructor
  · rintro (h | h)
    · exact (sub_eq_zero.mp h).symm
    · exact absurd h hs
  · intro h; left; rw [h]; exact sub_self y

/-! ## 4. IDF at a consistent point is MDF -/

/-- Abstract statement.  `G x t` are the outputs of the disciplines run on the design variables `x`
    and the coupling *targets* `t`, `Y` their coupling components; `ystar x` is a multidisciplinary
    solution.  IDF exposes `G x t`, MDF exposes `G x (ystar x)`: they coincide at `t = ystar x`, where the
    consistency constraints vanish. -/
theorem idf_eq_mdf_abstract {X T O : Type*} [AddGroup T] (G : X → T → O) (Y : X → T → T) (ystar : X → T)
    (hstar : ∀ x, Y x (ystar x) = ystar x) (x : X) (t : T) (ht : Y x t - t = 0)
    (huniq : ∀ t', Y x t' = t' → t' = ystar x) :
    G x t = G x (ystar x) ∧ Y x (ystar x) - ystar x = 0 := by
  have : t = ystar x := huniq t (sub_eq_zero.mp ht)
  exact ⟨by rw [this], by rw [hstar x]; exact sub_self _⟩

/-- **Model statement**: when the two design vectors are views of the same named point `pt`
    (IDF's along the whole design space, MDF's along `namesM`, the couplings being given to the MDF view
    as the multidisciplinary solution), the value MDF exposes — after the model has checked that the
    couplings are consistent — is the value IDF exposes for the same discipline outputs. -/
theorem idf_eq_mdf_at_consistent_point (s : Sys) (d : Disc) (outs namesM : List String)
    (pt : String → Vec) (w : String → String → Mat) (v : Vec) (j : Mat)
    (hprod : ∀ o ∈ outs, s.producer? o = some d)
    (hnd : s.ds.names.Nodup) (hlen : ∀ n ∈ s.ds.names, (pt n).length = sizeOf s.sizes n)
    (hlenM : ∀ n ∈ namesM, (pt n).length = sizeOf s.sizes n)
    (hnames : ∀ n, d.hasInput n = true → (n ∈ s.ds.names ↔ n ∈ namesM ∨ n ∈ s.allCouplings))
    (hmdf : mdfView s namesM outs (cat namesM pt) (s.allCouplings.map (fun k => (k, pt k))) w = some (v, j)) :
    ffdEval s.sizes s.ds.names d outs (cat s.ds.names pt) = some v ∧
    s.consistent (namesM.map (fun n => (n, pt n)) ++ s.allCouplings.map (fun k => (k, pt k))) = true := by
  unfold mdfView at hmdf
  rw [namedPoint_cat s.sizes namesM pt hlenM] at hmdf
  simp only at hmdf
  split at hmdf
  · cases hmdf
  · rename_i hcons
    split at hmdf
    · cases hmdf
    · split at hmdf
      · rename_i jj _
        have hv : v = mdaEval s outs (namesM.map (fun n => (n, pt n)) ++ s.allCouplings.map (fun k => (k, pt k))) := by
          cases hmdf; rfl
        refine ⟨?_, by simpa using hcons⟩
        unfold ffdEval
        rw [gEval_named s.sizes s.ds.names d.hasInput d.run outs pt hnd hlen, hv]
        congr 1
        unfold mdaEval
        apply List.flatMap_congr
        intro o ho
        rw [hprod o ho]
        simp only [Disc.run]
        rw [inputData_idf_eq_mdf d pt s.ds.names namesM s.allCouplings hnames]
      · cases hmdf

/-! ## 5. Total derivatives (linear coupled systems, Mathlib `Matrix`, any sizes) -/

section
open Matrix GV.C17.Alg
variable {K : Type*} [Field K]
variable {m n p : Type*} [Fintype m] [DecidableEq m] [Fintype n] [DecidableEq n]
  [Fintype p] [DecidableEq p]

/-- Well-posedness: `I - C` invertible ⇒ exactly one multidisciplinary solution. -/
theorem multidisciplinary_solution_unique (A : Matrix m n K) (C : Matrix m m K) (b : m → K) (x : n → K)
    (hC : IsUnit (1 - C).det) :
    IsSolution A C b x ((1 - C)⁻¹ *ᵥ (A *ᵥ x + b)) ∧
    ∀ y, IsSolution A C b x y → y = (1 - C)⁻¹ *ᵥ (A *ᵥ x + b) :=
  ⟨solution_exists A C b x hC, fun y hy => solution_unique A C b x y _ hC hy (solution_exists A C b x hC)⟩

/-- The MDF function `x ↦ P x + Q y*(x) + r` of a linear coupled system has the exact increment
    `(P + Q W) h` where `W` is certified by `(I - C) W = A` (what the model checks). -/
theorem mdf_total_derivative (A : Matrix m n K) (C : Matrix m m K) (b : m → K) (W : Matrix m n K)
    (P : Matrix p n K) (Q : Matrix p m K) (r : p → K) (x h : n → K) (y y' : m → K)
    (hC : IsUnit (1 - C).det) (hW : (1 - C) * W = A)
    (hy : IsSolution A C b x y) (hy' : IsSolution A C b (x + h) y') :
    (P *ᵥ (x + h) + Q *ᵥ y' + r) - (P *ᵥ x + Q *ᵥ y + r) = (P + Q * W) *ᵥ h :=
  mdf_increment A C b W P Q r x h y y' hC hW hy hy'

/-- **Total-derivative identity**
    `d mdfObj/dx = ∂idf/∂x − ∂idf/∂t · (∂c/∂t)⁻¹ · ∂c/∂x`
    with `∂idf/∂x = P`, `∂idf/∂t = Q`, `∂c/∂x = S A`, `∂c/∂t = S (C − I)` (`S`: inverse normalisation
    scales) and `d mdfObj/dx = P + Q W`. -/
theorem total_derivative_consistency (A : Matrix m n K) (C S : Matrix m m K) (W : Matrix m n K)
    (P : Matrix p n K) (Q : Matrix p m K)
    (hS : IsUnit S.det) (hC : IsUnit (1 - C).det) (hW : (1 - C) * W = A) :
    P + Q * W = P - Q * ((S * (C - 1))⁻¹ * (S * A)) :=
  total_derivative_identity A C S W P Q (consistency_jacobian_isUnit C S hS hC) hW

end

/-! ## 6. Systems without strong coupling: the chain computes the multidisciplinary solution -/

/-- State after executing the first `k` disciplines of the chain (`Y i x y` = output of discipline `i`). -/
def chainUpTo {X α : Type*} (Y : Nat → X → (Nat → α) → α) (x : X) (y0 : Nat → α) : Nat → (Nat → α)
  | 0 => y0
  | k + 1 => Function.update (chainUpTo Y x y0 k) k (Y k x (chainUpTo Y x y0 k))

/-- **DisciplinaryOpt agrees when there is no strong coupling**: if every discipline only reads the
    outputs of earlier disciplines (feed-forward listing order), one pass of the chain is a
    multidisciplinary solution, and every multidisciplinary solution equals it — so the function the
    disciplinary formulation exposes is the MDF one (and the IDF one at that point). -/
theorem weakly_coupled_disciplinary_agrees {X α : Type*} (Y : Nat → X → (Nat → α) → α) (x : X)
    (y0 : Nat → α) (n : Nat)
    (hdep : ∀ i y y', (∀ j, j < i → y j = y' j) → Y i x y = Y i x y') :
    (∀ i, i < n → chainUpTo Y x y0 n i = Y i x (chainUpTo Y x y0 n)) ∧
    (∀ y, (∀ i, i < n → y i = Y i x y) → ∀ i, i < n → y i = chainUpTo Y x y0 n i) := by
  -- entries below `k` are final after step `k`
  have stable : ∀ k l i, i < k → chainUpTo Y x y0 (k + l) i = chainUpTo Y x y0 k i := by
    intro k l
    induction l with
    | zero => intro i _; rfl
    | succ l ih =>
      intro i hi
      have : chainUpTo Y x y0 (k + (l + 1)) = Function.update (chainUpTo Y x y0 (k + l)) (k + l)
          (Y (k + l) x (chainUpTo Y x y0 (k + l))) := rfl
      rw [this, Function.update_of_ne (by omega), ih i hi]
  have step : ∀ k, chainUpTo Y x y0 (k + 1) k = Y k x (chainUpTo Y x y0 k) := by
    intro k
    simp [chainUpTo]
  constructor
  · intro i hi
    obtain ⟨l, rfl⟩ : ∃ l, n = (i + 1) + l := ⟨n - (i + 1), by omega⟩
    rw [stable (i + 1) l i (by omega), step i]
    apply hdep
    intro j hj
    rw [stable (i + 1) l j (by omega)]
    have := stable (j + 1) (i - j) j (by omega)
    have h2 := stable (j + 1) (i - (j + 1)) j (by omega)
    have e1 : j + 1 + (i - j) = i + 1 := by omega
    have e2 : j + 1 + (i - (j + 1)) = i := by omega
    rw [e1] at this; rw [e2] at h2
    rw [this, h2]
  · intro y hy i
    induction i using Nat.strong_induction_on with
    | _ i ih =>
      intro hi
      obtain ⟨l, hl⟩ : ∃ l, n = (i + 1) + l := ⟨n - (i + 1), by omega⟩
      rw [hy i hi, hl, stable (i + 1) l i (by omega), step i]
      apply hdep
      intro j hj
      rw [ih j hj (by omega), hl, stable (i + 1) l j (by omega)]
      have := stable (j + 1) (i - j) j (by omega)
      have h2 := stable (j + 1) (i - (j + 1)) j (by omega)
      have e1 : j + 1 + (i - j) = i + 1 := by omega
      have e2 : j + 1 + (i - (j + 1)) = i := by omega
      rw [e1] at this; rw [e2] at h2
      rw [this, h2]

/-! ## 7. Same optimum -/

/-- **Feasible-set bijection ⇒ same optimal value.**  `G x t` decides the user constraints and
    `F x t` is the objective evaluated by the disciplines at `(x, t)`; IDF's feasible set is
    `{(x,t) | t = Y x t ∧ G x t}`, MDF's is `{x | G x (ystar x)}` where `ystar x` is the unique
    multidisciplinary solution.  Then `x ↦ (x, ystar x)` is a bijection between the feasible sets that
    preserves the objective, hence a point minimises one problem iff its image minimises the other. -/
theorem same_optimum {X T β : Type*} [Preorder β] (Y : X → T → T) (F : X → T → β) (G : X → T → Prop)
    (ystar : X → T) (huniq : ∀ x t, t = Y x t ↔ t = ystar x) :
    (∀ x, G x (ystar x) → (ystar x = Y x (ystar x) ∧ G x (ystar x))) ∧
    (∀ x t, (t = Y x t ∧ G x t) → (t = ystar x ∧ G x (ystar x) ∧ F x t = F x (ystar x))) ∧
    (∀ x, (G x (ystar x) ∧ ∀ x', G x' (ystar x') → F x (ystar x) ≤ F x' (ystar x')) ↔
          ((ystar x = Y x (ystar x) ∧ G x (ystar x)) ∧
            ∀ x' t', (t' = Y x' t' ∧ G x' t') → F x (ystar x) ≤ F x' t')) := by
  refine ⟨fun x hg => ⟨(huniq x _).mpr rfl, hg⟩, ?_, ?_⟩
  · rintro x t ⟨ht, hg⟩
    have e : t = ystar x := (huniq x t).mp ht
    subst e
    exact ⟨rfl, hg, rfl⟩
  · intro x
    constructor
    · rintro ⟨hg, hmin⟩
      refine ⟨⟨(huniq x _).mpr rfl, hg⟩, ?_⟩
      rintro x' t' ⟨ht', hg'⟩
      have e : t' = ystar x' := (huniq x' t').mp ht'
      subst e
      exact hmin x' hg'
    · rintro ⟨⟨_, hg⟩, hmin⟩
      exact ⟨hg, fun x' hg' => hmin x' (ystar x') ⟨(huniq x' _).mpr rfl, hg'⟩⟩

/-! ## 8. The linear branch is exact -/

/-- For an output that really is affine in the design vector (`f x = c + J x`), the first-order Taylor
    polynomial built by the formulations at any point `x0` (they use the zero vector) is the function
    itself: declaring a discipline linear changes no value. -/
theorem linear_branch_exact (c : Vec) (j : Mat) (x0 x : Vec) (hc : c.length = j.length) :
    linApprox (vadd c (matVec j x0)) j x0 x = vadd c (matVec j x) :=
  linApprox_affine c j x0 x hc

/-! ## 9. Parallel IDF exposes the functions of the sequential IDF -/

/-- **`n_processes > 1` changes no value and no derivative.**  In parallel mode every function and
    consistency constraint of IDF is built over the `MDOParallelChain` of all the disciplines (input
    grammar = union of the input grammars).  At every design point (any sizes, any order, arbitrary
    quadratic/affine bodies of the other disciplines) the value and the Jacobian of the outputs of a
    discipline `d`, and of `d`'s consistency constraint, normalised or not, are those of the sequential
    IDF, i.e. those of `d` alone: columns of variables that `d` does not read are zero in both. -/
theorem idf_parallel_eq_sequential (s : Sys) (d : Disc) (outs : List String) (normalize : Bool)
    (pt : String → Vec)
    (hd : d ∈ s.discs) (hprod : ∀ o ∈ outs, s.producer? o = some d)
    (hprodc : ∀ o ∈ s.outputCouplings d, s.producer? o = some d)
    (hnd : s.ds.names.Nodup) (hlen : ∀ n ∈ s.ds.names, (pt n).length = sizeOf s.sizes n)
    (hrow : ∀ o, ∀ i r, i ∈ s.ds.names → r < d.rowsOf o →
      ((d.jac s.sizes (namedData s.ds.names d.hasInput pt) o i).getD r []).length = sizeOf s.sizes i) :
    parEval s s.sizes s.ds.names outs (cat s.ds.names pt) = ffdEval s.sizes s.ds.names d outs (cat s.ds.names pt) ∧
    parJacF s s.sizes s.ds.names outs (cat s.ds.names pt) = ffdJac s.sizes s.ds.names d outs (cat s.ds.names pt) ∧
    consEvalPar s normalize d (cat s.ds.names pt) = consEvalRaw s normalize d (cat s.ds.names pt) ∧
    consJacPar s normalize d (cat s.ds.names pt) = consJacRaw s normalize d (cat s.ds.names pt) :=
  ⟨parEval_eq_ffdEval s s.sizes s.ds.names d outs pt hd hprod hnd hlen,
   parJacF_eq_ffdJac s s.sizes s.ds.names d outs pt hd hprod hnd hlen (fun o _ => hrow o),
   consEvalPar_eq s normalize d pt hd hprodc hnd hlen,
   consJacPar_eq s normalize d pt hd hprodc hnd hlen (fun o _ => hrow o)⟩

/-! ## 10. `start_at_equilibrium` installs the multidisciplinary solution of the CURRENT design point -/

/-- **The start point IDF installs is consistent at the current design values.**  `cat names pt` is the
    current value of the design space (any design point — the disciplines' default inputs do not occur
    in the statement), `ystar` the couplings returned by the MDA (accepted by the model only when they
    solve the coupled system at the current design values).  Then the new current value keeps every
    design variable, holds `ystar` for the couplings, and **every consistency constraint of IDF —
    sequential or parallel, normalised or not — vanishes there.** -/
theorem idf_equilibrium_start_is_multidisciplinary_solution (s : Sys) (pt : String → Vec) (ystar : Data)
    (cur' : Vec)
    (hnd : s.ds.names.Nodup) (hlen : ∀ n ∈ s.ds.names, (pt n).length = sizeOf s.sizes n)
    (hylen : ∀ k ∈ s.allCouplings, (ystar.get k).length = sizeOf s.sizes k)
    (hidf : ∀ c ∈ s.allCouplings, c ∈ s.ds.names)
    (heq : idfEquilibrium s (cat s.ds.names pt) ystar = some cur') :
    cur' = cat s.ds.names (eqPt s pt ystar) ∧
    (∀ n ∈ s.ds.names, n ∉ s.allCouplings → slice s.sizes s.ds.names cur' n = pt n) ∧
    (∀ k ∈ s.allCouplings, slice s.sizes s.ds.names cur' k = ystar.get k) ∧
    ∀ (d : Disc) (normalize : Bool), d ∈ s.discs →
      (∀ k ∈ s.outputCouplings d, s.producer? k = some d) →
      (normFactor s.ds (s.outputCouplings d)).length = totalSize s.sizes (s.outputCouplings d) →
      (∀ a ∈ normFactor s.ds (s.outputCouplings d), a ≠ 0) →
      consEvalRaw s normalize d cur' = some (List.replicate (totalSize s.sizes (s.outputCouplings d)) 0) ∧
      consEvalPar s normalize d cur' = some (List.replicate (totalSize s.sizes (s.outputCouplings d)) 0) := by
  unfold idfEquilibrium at heq
  split at heq
  · rename_i hcons
    have hcur : cur' = cat s.ds.names (eqPt s pt ystar) := by
      rw [← equilibrium_value s pt ystar hlen]; exact (Option.some.inj heq).symm
    have hlen' : ∀ n ∈ s.ds.names, (eqPt s pt ystar n).length = sizeOf s.sizes n := by
      intro n hn
      unfold eqPt
      by_cases hc : n ∈ s.allCouplings
      · simp [hc, hylen n hc]
      · simp [hc, hlen n hn]
    refine ⟨hcur, ?_, ?_, ?_⟩
    · intro n hn hc
      rw [hcur, slice_cat s.sizes s.ds.names n _ hnd hn hlen']
      simp [eqPt, hc]
    · intro k hk
      rw [hcur, slice_cat s.sizes s.ds.names k _ hnd (hidf k hk) hlen']
      simp [eqPt, hk]
    · intro d normalize hd hprod hfl hnz
      have hoc : ∀ k ∈ s.outputCouplings d, k ∈ s.ds.names :=
        fun k hk => hidf k (outputCouplings_sub s d k hk)
      have hx : maskX s.sizes (s.outputCouplings d) s.ds.names cur'
          = some (cat (s.outputCouplings d) (eqPt s pt ystar)) := by
        rw [hcur]; exact maskX_cat s.sizes _ s.ds.names _ hnd hoc hlen'
      have hrun : (s.outputCouplings d).flatMap
            (d.run (namedData s.ds.names d.hasInput (eqPt s pt ystar)))
          = cat (s.outputCouplings d) (eqPt s pt ystar) := by
        unfold cat
        apply List.flatMap_congr
        intro k hk
        exact equilibrium_run_eq s d pt ystar k hlen hidf hcons (outputCouplings_sub s d k hk) (hprod k hk)
      have hc : ffdEval s.sizes s.ds.names d (s.outputCouplings d) cur'
          = some (cat (s.outputCouplings d) (eqPt s pt ystar)) := by
        rw [hcur]
        unfold ffdEval
        rw [gEval_named s.sizes s.ds.names d.hasInput d.run _ _ hnd hlen', hrun]
      have hcl : (cat (s.outputCouplings d) (eqPt s pt ystar)).length
          = totalSize s.sizes (s.outputCouplings d) :=
        cat_length s.sizes _ _ (fun n hn => hlen' n (hoc n hn))
      obtain ⟨v, hv, hiff⟩ := idf_consistency_zero_iff_fixed_point s normalize d cur' _ _ hx hc rfl
        (by rw [hfl, hcl]) hnz
      have hzero : consEvalRaw s normalize d cur'
          = some (List.replicate (totalSize s.sizes (s.outputCouplings d)) 0) := by
        rw [hv, hiff.mpr rfl, hcl]
      refine ⟨hzero, ?_⟩
      rw [hcur, consEvalPar_eq s normalize d _ hd hprod hnd hlen', ← hcur]
      exact hzero
  · cases heq

/-! ## 11. The arrays a formulation returns belong to the caller -/

/-- **Every Jacobian ever returned still holds the derivatives of its own design point.**  For any
    number of function objects sharing the heap (each with its own adapter buffer), and any history of
    `jac` calls `(function, adapter Jacobian j, unmasking un)` — this is `FunctionFromDiscipline`
    (`j = gAdapterJac …`, `un = unmaskRows inputNames names`) as well as an MDF function (`j =
    mdaJacRows …`, `un = unmaskRows names names`: nothing is masked, yet a new array is filled) — the
    arrays held by the caller after the last call are, in call order, exactly the `un j` of each call. -/
theorem returned_jacobians_persist (nFun : Nat) (cs : List (Nat × Mat × (Mat → Option Mat))) (h' : JHeap)
    (hrun : (JHeap.empty nFun).run cs = some h') :
    h'.held.map some = cs.map (fun c => c.2.2 c.2.1) := by
  have := (JHeap.run_spec cs _ h' (JHeap.wf_empty nFun) hrun).2
  simpa [JHeap.held, JHeap.empty] using this

/-- The same for the functions of a formulation given by their definition (`FFD`): after any history of
    `jac` calls at design vectors `x_i` on function objects `f_i`, the `i`-th array the caller holds is
    `gJac` of `f_i` at `x_i` — the pure Jacobian of sections 1–4, about which `adapter_jacobian_columns`
    and the equivalence theorems speak. -/
theorem formulation_jacobians_persist (spec : Nat → FFD) (nFun : Nat) (calls : List (Nat × Vec)) (h' : JHeap)
    (hrun : jacHistory spec (JHeap.empty nFun) calls = some h') :
    h'.held.map some = calls.map (fun c => (spec c.1).jacAt c.2) := by
  have := (jacHistory_spec spec calls _ h' (JHeap.wf_empty nFun) hrun).2
  simpa [JHeap.held, JHeap.empty] using this

/-! ## 12. The derivatives exposed at a point do not depend on the points visited before, nor on the storage
of the discipline Jacobians -/

/-- **The array a `DisciplineAdapter` returns is the Jacobian of the current call.**  Whatever the adapter's
    array held before the call (`buf`: the arbitrary contents of `numpy.empty` at the first call, the Jacobian
    of the previous design point afterwards), and whatever the storage of each block the discipline hands over
    (`sp o i`: dense, or a sparse array built from the values, in which a block that vanishes at the current
    point stores nothing), the loop of `_convert_jacobian_to_array` leaves in the array exactly the blocks
    `jac o i` of this call, laid out by output slices and input slices. -/
theorem adapter_array_is_current_jacobian (buf : BlockTable) (outs inputNames : List String)
    (jac : String → String → Mat) (sp : String → String → Bool) (rowsOf : String → Nat) :
    (convertJac buf outs inputNames (fun o i => JBlock.ofMat (sp o i) (jac o i))).toArray inputNames rowsOf outs
      = gAdapterJac inputNames jac rowsOf outs := by
  rw [convertJac_toArray]
  simp only [JBlock.toArray_ofMat]

/-- **Histories**: any number of function objects, each adapter keeping its array from one call to the next
    (arbitrary initial contents `bufs`), any history of `jac` calls `(function object, design vector, storage
    chosen by the discipline for each block at that call)`: the `i`-th array the caller holds after the last
    call is `gJac` of function `f_i` at `x_i` — the pure Jacobian of sections 1–4 — in particular at a point
    where a whole block is exactly zero after a point where it is not. -/
theorem formulation_jacobians_current_whatever_history_and_storage (spec : Nat → FFD) (nFun : Nat)
    (bufs : Nat → BlockTable) (calls : List (Nat × Vec × (String → String → Bool))) (h' : JHeap)
    (hrun : jacHistoryS spec (JHeap.empty nFun) bufs calls = some h') :
    h'.held.map some = calls.map (fun c => (spec c.1).jacAt c.2.1) := by
  rw [jacHistoryS_eq] at hrun
  have := formulation_jacobians_persist spec nFun _ h' hrun
  rw [this, List.map_map]
  rfl

/-! ## 13. A design point is the same point in whatever array the caller writes it -/

/-- **The numbers the disciplines read are the coordinates of the point**, when the caller passes it as an
    array of integer dtype (admissible: every coordinate is an integer) or as the float samples of a DOE
    carrying the declared types of a design space with integer variables (admissible: the integer variables
    hold integers).  Every value and Jacobian of sections 1–11 is a function of these numbers, hence exposed
    unchanged (`view` below is any of them); and the Jacobian is returned as computed — see the example after
    `jacAstypeVariant` for what a cast to the dtype of the design vector would expose instead. -/
theorem typed_point_is_the_same_point {α : Type} (view : Vec → α) (intMask : List Bool) (dt : DType)
    (typed : Bool) (x : Vec)
    (hdt : dt = DType.int → x.all isIntegral = true)
    (hlen : typed = true → intMask.length = x.length)
    (hint : typed = true → ∀ k, intMask.getD k false = true → isIntegral (x.getD k 0) = true) :
    typedVector intMask dt typed x = x ∧ view (typedVector intMask dt typed x) = view x := by
  have h := typedVector_eq intMask dt typed x hdt hlen hint
  exact ⟨h, by rw [h]⟩

/-! ## Non-vacuity: the hypotheses are satisfiable by non-trivial states -/

def exSizes : Sizes := [("xs", 2), ("y2", 1), ("x1", 1), ("y1", 2)]
def exNames : List String := ["xs", "y2", "x1", "y1"]
def exPt : String → Vec
  | "xs" => [1, 2] | "y2" => [3] | "x1" => [4] | "y1" => [5, 6] | _ => []

example : cat exNames exPt = [1, 2, 3, 4, 5, 6] := by decide +kernel
example : exNames.Nodup ∧ ∀ n ∈ exNames, (exPt n).length = sizeOf exSizes n := by decide +kernel
-- the order swap: masking names in another order than the reference names
example : maskX exSizes ["y1", "xs"] exNames (cat exNames exPt) = some [5, 6, 1, 2] := by decide +kernel
example : getMask exSizes ["y1", "xs"] exNames = some [4, 5, 0, 1] := by decide +kernel
-- round trip for names in reference order
example : unmask exSizes ["xs", "y1"] exNames [1, 2, 5, 6] none = some [1, 2, 0, 0, 5, 6] := by
  decide +kernel
-- ... and why the order hypothesis of `mask_unmask` is needed: the code's `unmask` walks the
-- reference names, so a masked vector built in another order is NOT restored
example : unmask exSizes ["y1", "xs"] exNames [5, 6, 1, 2] none = some [5, 6, 0, 0, 1, 2] := by
  decide +kernel
example : maskX exSizes ["zz"] exNames (cat exNames exPt) = none := by decide +kernel

/-- A two-discipline system: `y1 = 1 + xs/2 + y2/4` (D1, size 1), `y2 = x2 + y1/2` (D2), `f = xs + y2²`. -/
def exSys : Sys :=
  { ds := { vars := [⟨"y2", false, [some (-8)], [some 8], none⟩, ⟨"xs", false, [some (-4)], [some 4], none⟩,
                     ⟨"u", false, [some 0], [some 1], none⟩, ⟨"y1", false, [some (-4)], [some 12], none⟩,
                     ⟨"x2", false, [some (-4)], [some 4], none⟩] },
    discs := [
      ⟨"D1", [("xs", 1), ("y2", 1)], [], [⟨"y1", [1], [("xs", [[1/2]]), ("y2", [[1/4]])], []⟩,
                                          ⟨"f", [0], [("xs", [[1]])], [("y2", [[1]])]⟩], ["y1"]⟩,
      ⟨"D2", [("y1", 1), ("x2", 1)], [], [⟨"y2", [0], [("x2", [[1]]), ("y1", [[1/2]])], []⟩], []⟩] }

def exD1 : Disc := ⟨"D1", [("xs", 1), ("y2", 1)], [], [⟨"y1", [1], [("xs", [[1/2]]), ("y2", [[1/4]])], []⟩,
                                          ⟨"f", [0], [("xs", [[1]])], [("y2", [[1]])]⟩], ["y1"]⟩

example : exSys.discs.head? = some exD1 := rfl
example : exSys.allCouplings = ["y1", "y2"] := by decide +kernel
example : exSys.mdfDS.names = ["xs", "x2"] := by decide +kernel
example : (exSys.idfDS.map (·.names)) = some ["y2", "xs", "u", "y1", "x2"] := by decide +kernel
example : ({ exSys with ds := { vars := exSys.ds.vars.drop 1 } } : Sys).idfDS = none := by decide +kernel
-- the multidisciplinary solution at xs = 2, x2 = 1 is y1 = 18/7, y2 = 16/7 (dyadic data, rational solution)
example : exSys.consistent [("xs", [2]), ("x2", [1]), ("y1", [18/7]), ("y2", [16/7])] = true := by
  decide +kernel
-- consistency constraint of D1 (normalised by |12 - (-4)| = 16) vanishes there and not elsewhere
example : consEvalRaw exSys true exD1 [16/7, 2, 0, 18/7, 1] = some [0] := by decide +kernel
example : consEvalRaw exSys true exD1 [16/7, 2, 0, 3, 1] = some [-3/112] := by decide +kernel
-- MDF view with certificates: f = xs + y2², df/dxs = 1 + 2 y2 dy2/dxs, dy2/dxs = 2/7, dy2/dx2 = 8/7
example : (mdfView exSys ["xs", "x2"] ["f"] [2, 1] [("y1", [18/7]), ("y2", [16/7])]
    (fun k n => if k == "y1" then (if n == "xs" then [[4/7]] else [[2/7]])
                else (if n == "xs" then [[2/7]] else [[8/7]]))).map (·.1) = some [354/49] := by
  decide +kernel
-- and IDF exposes the same value at the consistent point
example : ffdEval exSys.sizes exSys.ds.names exD1 ["f"] [16/7, 2, 0, 18/7, 1] = some [354/49] := by
  decide +kernel
-- a wrong sensitivity certificate is refused
example : mdfView exSys ["xs", "x2"] ["f"] [2, 1] [("y1", [18/7]), ("y2", [16/7])]
    (fun _ _ => [[0]]) = none := by decide +kernel
-- feed-forward chain: y0 = x, y1 = y0 + 1, y2 = y0 * y1
example : chainUpTo (fun i (x : Nat) y => match i with | 0 => x | 1 => y 0 + 1 | _ => y 0 * y 1) 3 (fun _ => 0) 3 2
    = 12 := by decide

-- parallel IDF: the chain over D1 and D2 reads every variable but `u`; the function `f` of D1 has the value
-- and the Jacobian of D1 alone (zero columns for `y1`, `x2` that only D2 reads)
example : exSys.parHasInput "x2" = true ∧ exD1.hasInput "x2" = false ∧ exSys.parHasInput "u" = false := by
  decide +kernel
example : parEval exSys exSys.sizes exSys.ds.names ["f"] [16/7, 2, 0, 18/7, 1] = some [354/49] := by
  decide +kernel
example : parJacF exSys exSys.sizes exSys.ds.names ["f"] [16/7, 2, 0, 18/7, 1]
    = ffdJac exSys.sizes exSys.ds.names exD1 ["f"] [16/7, 2, 0, 18/7, 1] ∧
    parJacF exSys exSys.sizes exSys.ds.names ["f"] [16/7, 2, 0, 18/7, 1] = some [[32/7, 1, 0, 0, 0]] := by
  decide +kernel
example : consEvalPar exSys true exD1 [16/7, 2, 0, 3, 1] = some [-3/112] := by decide +kernel
-- start_at_equilibrium from the current value y2 = 5, xs = 2, u = 0, y1 = -1, x2 = 1: the certificate is
-- accepted at the CURRENT design values (xs = 2, x2 = 1), the couplings are replaced, the rest is kept
example : idfEquilibrium exSys [5, 2, 0, -1, 1] [("y1", [18/7]), ("y2", [16/7])] = some [16/7, 2, 0, 18/7, 1] := by
  decide +kernel
-- the solution of ANOTHER design point (xs = 0, x2 = 0: y1 = 8/7, y2 = 4/7 — what an MDA run at the
-- disciplines' default inputs returns) is refused
example : exSys.consistent [("xs", [0]), ("x2", [0]), ("y1", [8/7]), ("y2", [4/7])] = true := by decide +kernel
example : idfEquilibrium exSys [5, 2, 0, -1, 1] [("y1", [8/7]), ("y2", [4/7])] = none := by decide +kernel
-- heap: two calls of one function object, nothing masked (`un = some`: the fresh copy of an MDF function)
example : ((JHeap.empty 1).run [(0, [[1, 2]], fun m => some m), (0, [[3, 4]], fun m => some m)]).map JHeap.held
    = some [[[1, 2]], [[3, 4]]] := by decide +kernel
-- ... two function objects interleaved, each with its own buffer
example : ((JHeap.empty 2).run [(0, [[1]], fun m => some m), (1, [[2]], fun m => some m),
      (0, [[3]], fun m => some m)]).map JHeap.held = some [[[1]], [[2]], [[3]]] := by decide +kernel
-- ... and what the theorem excludes: if the adapter's buffer itself were handed to the caller ("nothing to
-- unmask"), the array returned by the first call would hold the Jacobian of the second point
example : (((JHeap.empty 1).aliasingJacCall 0 [[1, 2]]).aliasingJacCall 0 [[3, 4]]).held
    = [[[3, 4]], [[3, 4]]] := by decide +kernel
-- a FunctionFromDiscipline of the example system on the heap: `f` of D1 at two design vectors
def exFFD : FFD := ⟨exSys.sizes, exSys.ds.names, exD1.hasInput, exD1.jac exSys.sizes, exD1.rowsOf, ["f"]⟩
example : (jacHistory (fun _ => exFFD) (JHeap.empty 1) [(0, [16/7, 2, 0, 18/7, 1]), (0, [1, 0, 0, 0, 0])]).map
    JHeap.held = some [[[32/7, 1, 0, 0, 0]], [[2, 1, 0, 0, 0]]] := by decide +kernel

-- adapter array, block by block: `f = y2² + xs`, d f/d y2 = 2 y2 handed over as a sparse array built from its
-- value.  First call at y2 = 3/2 (the array is `numpy.empty`: here it holds 7, 7), second call at y2 = 0 where
-- the block vanishes (`nnz == 0`): the array holds the Jacobian of the second point
def exBlocks (y2 : Rat) : String → String → Mat := fun _ i => if i == "y2" then [[2 * y2]] else [[1]]
example : (JBlock.ofMat true (exBlocks 0 "f" "y2")).nnz = 0 ∧ (JBlock.ofMat true (exBlocks (3/2) "f" "y2")).nnz = 1 := by
  decide +kernel
example :
    let garbage : BlockTable := [(("f", "y2"), [[7]]), (("f", "xs"), [[7]])]
    let t1 := convertJac garbage ["f"] ["y2", "xs"] (fun o i => JBlock.ofMat true (exBlocks (3/2) o i))
    let t2 := convertJac t1 ["f"] ["y2", "xs"] (fun o i => JBlock.ofMat true (exBlocks 0 o i))
    t1.toArray ["y2", "xs"] (fun _ => 1) ["f"] = [[3, 1]] ∧ t2.toArray ["y2", "xs"] (fun _ => 1) ["f"] = [[0, 1]] := by
  decide +kernel
-- ... and what the theorem excludes: skipping the empty sparse blocks leaves d f/d y2 = 3 of the first point
example :
    let t1 := convertJacSkipEmpty [] ["f"] ["y2", "xs"] (fun o i => JBlock.ofMat true (exBlocks (3/2) o i))
    let t2 := convertJacSkipEmpty t1 ["f"] ["y2", "xs"] (fun o i => JBlock.ofMat true (exBlocks 0 o i))
    t2.toArray ["y2", "xs"] (fun _ => 1) ["f"] = [[3, 1]] := by
  decide +kernel
-- a history on the example system with an adapter that keeps its array: `f` of D1 (d f/d y2 = 2 y2, sparse)
-- at y2 = 16/7, then at y2 = 0
example : (jacHistoryS (fun _ => exFFD) (JHeap.empty 1) (fun _ => [(("f", "y2"), [[7]])])
      [(0, [16/7, 2, 0, 18/7, 1], fun _ _ => true), (0, [0, 1, 0, 0, 0], fun _ _ => true)]).map JHeap.held
    = some [[[32/7, 1, 0, 0, 0]], [[0, 1, 0, 0, 0]]] := by decide +kernel
-- typed points: the point (1, 2, 1) written `array([1, 2, 1])`, and a DOE sample (1/2, 2) whose second
-- variable is declared integer, are admissible and read unchanged
example : typedVector [] DType.int false [1, 2, 1] = [1, 2, 1] ∧
    typedVector [false, true] DType.float true [1/2, 2] = [1/2, 2] := by decide +kernel
-- (outside the hypotheses: a non-integer value of an integer variable is truncated by the cast)
example : typedVector [false, true] DType.float true [1/2, 5/2] = [1/2, 2] := by decide +kernel
-- ... and what a cast of the returned Jacobian to the dtype of an integer design vector would expose
example : jacAstypeVariant DType.int [[69/25, 167/20, -3/2]] = [[2, 8, -1]] ∧
    jacAstypeVariant DType.float [[69/25, 167/20, -3/2]] = [[69/25, 167/20, -3/2]] := by decide +kernel

/-! ## Several formulations alive in one process -/

/-- **Formulations alive together do not interfere.**  For any family of function objects (of any number of
    formulations, each object holding the sizes, the design-space names of ITS formulation and its adapter's
    input names), starting from a process in which no mask has been computed, and for any interleaved history
    of evaluations `(object, design vector)`: every call returns the value the object returns when it is used
    alone (`FObj.pure`: the mask of the object's own design space), whichever object was evaluated first and
    whatever was evaluated in between.  (Invariant `MemoOk`: every mask kept so far is the mask of the object that
    keeps it.) -/
theorem formulations_alive_together_do_not_interfere (objs : Nat → FObj) (hist : List (Nat × Vec)) :
    lazyRun objs (fun _ => none) hist = hist.map (fun p => (objs p.1).pure p.2) :=
  lazyRun_eq objs _ (MemoOk.empty objs) hist

/-- The same with the objects given as `FunctionFromDiscipline` definitions (`gEval`): in any session, the
    `k`-th call returns `gEval` of its own formulation's design space at its own design vector — the values
    of the other sections (IDF functions, consistency constraints, parallel IDF) are therefore those of the
    formulation built and used alone, in whatever order the formulations are built and evaluated. -/
theorem formulation_values_independent_of_session
    (sizes : Nat → Sizes) (names : Nat → List String) (hasInput : Nat → String → Bool)
    (run : Nat → Data → String → Vec) (outs : Nat → List String) (hist : List (Nat × Vec)) :
    lazyRun (fun i => FObj.ofDisc (sizes i) (names i) (hasInput i) (run i) (outs i)) (fun _ => none) hist
      = hist.map (fun p => gEval (sizes p.1) (names p.1) (hasInput p.1) (run p.1) (outs p.1) p.2) := by
  rw [formulations_alive_together_do_not_interfere]
  simp only [FObj.pure_ofDisc]

-- non-vacuity: the constraint g = x + 3 z - 1 of a discipline reading (x, z), as a function of MDF (design
-- space x, z) and of IDF (design space x, y1, y2, z), both built from the design space (x, y1, y2, z)
def exG : Data → Vec := fun d => [(d.get "x").headD 0 + 3 * (d.get "z").headD 0 - 1]
def exObjs : Nat → FObj := fun i =>
  if i = 0 then ⟨[("x", 1), ("y1", 1), ("y2", 1), ("z", 1)], ["x", "z"], ["x", "z"], exG⟩
  else ⟨[("x", 1), ("y1", 1), ("y2", 1), ("z", 1)], ["x", "y1", "y2", "z"], ["x", "z"], exG⟩

example : (exObjs 0).mask = some [0, 1] ∧ (exObjs 1).mask = some [0, 3] := by decide +kernel
-- MDF first then IDF, IDF first then MDF, interleaved: g = -21/5 at (x, z) = (7/10, -13/10) every time
example : lazyRun exObjs (fun _ => none) [(0, [7/10, -13/10]), (1, [7/10, 5, 6, -13/10])]
    = [some [-21/5], some [-21/5]] := by decide +kernel
example : lazyRun exObjs (fun _ => none) [(1, [7/10, 5, 6, -13/10]), (0, [7/10, -13/10]), (1, [1, 5, 6, 0])]
    = [some [-21/5], some [-21/5], some [0]] := by decide +kernel
-- ... and what the theorem excludes: one table of masks shared by the objects and keyed by (input names, sizes)
-- gives IDF the mask of MDF (g computed from (x, y1)), or MDF the mask of IDF (index out of range)
example : sharedRun exObjs [] [(0, [7/10, -13/10]), (1, [7/10, 5, 6, -13/10])]
    = [some [-21/5], some [147/10]] := by decide +kernel
example : sharedRun exObjs [] [(1, [7/10, 5, 6, -13/10]), (0, [7/10, -13/10])]
    = [some [-21/5], none] := by decide +kernel

end GV.C17
