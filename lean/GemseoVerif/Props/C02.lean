/-
C02 — property theorems: the vector view and the per-variable view of a design space follow one
and the same variable order after any sequence of edits; dict/array conversions are lossless;
normalisation is an affine bijection onto [0,1] on bounded normalisable components and the identity
elsewhere; gradient (un)normalisation is the matching linear scaling; membership and projection
agree with the bounds.
-/
import GemseoVerif.Lemmas.C02Ops

namespace GV.C02

/-! ### Well-formedness is maintained by every public edit, along every history

`DS.WF` (defined in `Lemmas/C02Ops.lean`): distinct names; for every variable, lower and upper
bounds of the same non-zero length and a current value (if any) of that length. -/

theorem wf_empty : DS.empty.WF := by
  refine ⟨by simp [DS.empty, DS.names], ?_⟩
  intro v hv; simp [DS.empty] at hv

/-- **Every public edit preserves well-formedness** (a rejected edit leaves the space unchanged). -/
theorem wf_apply (tol : Rat) (d : DS) (op : Op) (hwf : d.WF) : (d.apply tol op).WF := by
  cases op with
  | add v =>
    simp only [DS.apply]
    cases h : d.addVariable tol v with
    | none => exact hwf
    | some d' => exact wf_addVariable d d' tol v hwf h
  | remove n =>
    simp only [DS.apply]
    cases h : d.removeVariable n with
    | none => exact hwf
    | some d' => exact wf_removeVariable d d' n hwf h
  | filter keep =>
    simp only [DS.apply]
    cases h : d.filter keep with
    | none => exact hwf
    | some d' => exact wf_filter d d' keep hwf h
  | filterDim n dims =>
    simp only [DS.apply]
    cases h : d.filterDimensions n dims with
    | none => exact hwf
    | some d' => exact wf_filterDimensions d d' n dims hwf h
  | rename o n =>
    simp only [DS.apply]
    cases h : d.renameVariable o n with
    | none => exact hwf
    | some d' => exact wf_renameVariable d d' o n hwf h
  | extend vs =>
    simp only [DS.apply]
    cases h : d.extend tol vs with
    | none => exact hwf
    | some d' => exact wf_extend tol vs d d' hwf h
  | setLb n b =>
    simp only [DS.apply]
    cases h : d.setLowerBound n b with
    | none => exact hwf
    | some d' => exact wf_setLowerBound d d' n b hwf h
  | setUb n b =>
    simp only [DS.apply]
    cases h : d.setUpperBound n b with
    | none => exact hwf
    | some d' => exact wf_setUpperBound d d' n b hwf h
  | setArr x =>
    simp only [DS.apply]
    cases h : d.setCurrentArray tol x with
    | none => exact hwf
    | some d' => exact wf_setCurrentArray d d' tol x hwf h
  | setDict m =>
    simp only [DS.apply]
    cases h : d.setCurrentDict tol m with
    | none => exact hwf
    | some d' => exact wf_setCurrentDict d d' tol m hwf h
  | setVar n x =>
    simp only [DS.apply]
    cases hf : d.find? n with
    | none => exact hwf
    | some v0 =>
      simp only
      split
      · rename_i hlen
        cases h : d.setCurrentVariable n x with
        | none => exact hwf
        | some d' =>
          apply wf_setCurrentVariable d d' n x hwf _ h
          intro v hv hvn
          obtain ⟨hv0, hn0⟩ := find?_mem d n v0 hf
          have hvv : v = v0 := by
            apply (List.inj_on_of_nodup_map hwf.1) hv hv0
            rw [hvn, hn0]
          subst hvv
          simpa using hlen
      · exact hwf
  | initMissing => exact wf_initMissing d hwf
  | intNorm b => exact wf_setIntNorm d b hwf

/-- **After any finite sequence of edits the design space is well formed** — hence all the view
    theorems below (`views_follow_variable_order`, `index_ranges_are_prefix_sums`,
    `array_dict_array`, …) apply to every reachable design space. -/
theorem wf_reachable (tol : Rat) (ops : List Op) : (DS.empty.run tol ops).WF := by
  have gen : ∀ (ops : List Op) (d : DS), d.WF → (d.run tol ops).WF := by
    intro ops
    induction ops with
    | nil => intro d h; exact h
    | cons op ops ih =>
      intro d h
      simp only [DS.run, List.foldl_cons]
      exact ih _ (wf_apply tol d op h)
  exact gen ops DS.empty wf_empty

/-! ### One variable order for every view -/

/-- **Index ranges are the prefix sums of the sizes in variable order**: the `i`-th range carries
    the `i`-th variable's name, starts where the previous one stops (at 0 for the first) and has the
    variable's size. -/
theorem index_ranges_are_prefix_sums (d : DS) (i : Nat) (v : Var) (h : d.vars[i]? = some v) :
    d.ranges[i]? = some (v.name, offset d.vars i, offset d.vars i + v.size) ∧
    offset d.vars (i + 1) = offset d.vars i + v.size := by
  refine ⟨?_, offset_succ d.vars i v h⟩
  have := rangesAux_getElem? d.vars 0 i v h
  simpa [DS.ranges] using this

/-- The ranges cover `0 .. dimension` exactly. -/
theorem index_ranges_cover (d : DS) :
    d.ranges.length = d.vars.length ∧ offset d.vars 0 = 0 ∧
      offset d.vars d.vars.length = d.dimension := by
  refine ⟨rangesAux_length d.vars 0, offset_zero d.vars, ?_⟩
  simp [offset, DS.dimension, DS.sizes]

private theorem normMask_len (b : Bool) (v : Var) (h : v.WF) : (Var.normMask b v).length = v.size := by
  simp [Var.normMask, Var.size, h.1]

/-- **The vector views are the per-variable views laid out in variable order**: the slice of the
    flat lower/upper bounds, normalisation mask and integer mask at the `i`-th index range is the
    `i`-th variable's own data. -/
theorem views_follow_variable_order (d : DS) (hwf : d.WF) (i : Nat) (v : Var)
    (h : d.vars[i]? = some v) :
    (d.flatLb.drop (offset d.vars i)).take v.size = v.lb ∧
    (d.flatUb.drop (offset d.vars i)).take v.size = v.ub ∧
    (d.normMask.drop (offset d.vars i)).take v.size = Var.normMask d.intNorm v ∧
    (d.intMask.drop (offset d.vars i)).take v.size = List.replicate v.size v.isInt := by
  refine ⟨?_, ?_, ?_, ?_⟩
  · exact flatMap_slice d.vars (·.lb) (fun _ _ => rfl) i v h
  · exact flatMap_slice d.vars (·.ub) (fun w hw => by simp [Var.size, (hwf.2 w hw).1]) i v h
  · exact flatMap_slice d.vars (Var.normMask d.intNorm) (fun w hw => normMask_len _ w (hwf.2 w hw)) i v h
  · exact flatMap_slice d.vars (fun v => List.replicate v.size v.isInt) (fun _ _ => by simp) i v h

/-- All flat views have length `dimension`. -/
theorem views_have_dimension (d : DS) (hwf : d.WF) :
    d.flatLb.length = d.dimension ∧ d.flatUb.length = d.dimension ∧
    d.normMask.length = d.dimension ∧ d.intMask.length = d.dimension := by
  refine ⟨?_, ?_, ?_, ?_⟩
  · exact flatMap_length_eq_sum d.vars (·.lb) (fun _ _ => rfl)
  · exact flatMap_length_eq_sum d.vars (·.ub) (fun w hw => by simp [Var.size, (hwf.2 w hw).1])
  · exact flatMap_length_eq_sum d.vars _ (fun w hw => normMask_len _ w (hwf.2 w hw))
  · exact flatMap_length_eq_sum d.vars _ (fun _ _ => by simp)

/-- The flat current value is the concatenation of the per-variable values in variable order. -/
theorem current_value_follows_variable_order (d : DS) (hwf : d.WF) (x : List Rat)
    (hx : d.currentValue = some x) (i : Nat) (v : Var) (h : d.vars[i]? = some v) :
    ∃ xv, v.value = some xv ∧ (x.drop (offset d.vars i)).take v.size = xv := by
  unfold DS.currentValue at hx
  split at hx
  · rename_i hhas
    simp only [Option.some.injEq] at hx
    subst hx
    simp only [DS.hasCurrentValue, Bool.and_eq_true, List.all_eq_true] at hhas
    have hv := hhas.2 v (List.mem_of_getElem? h)
    obtain ⟨xv, hxv⟩ := Option.isSome_iff_exists.mp hv
    refine ⟨xv, hxv, ?_⟩
    have := flatMap_slice d.vars (fun v => v.value.getD []) (fun w hw => by
      have hw' := hhas.2 w hw
      obtain ⟨y, hy⟩ := Option.isSome_iff_exists.mp hw'
      simp [hy, Var.size, (hwf.2 w hw).2.2 y hy]) i v h
    simpa [hxv] using this
  · cases hx

/-! ### Lossless dict/array conversions -/

/-- **array → dict → array is the identity** for every vector of the right size. -/
theorem array_dict_array (d : DS) (hwf : d.WF) (x : List Rat) (hx : x.length = d.dimension) :
    ((d.arrayToDict x).map (·.2)).flatten = x ∧ (d.arrayToDict x).map (·.1) = d.names ∧
    (d.arrayToDict x).map (fun p => p.2.length) = d.sizes := by
  have hlen : (splitBySizes d.sizes x).length = d.names.length := by
    have := congrArg List.length (splitBySizes_lengths d.sizes x (by simpa [DS.dimension] using hx.symm))
    simpa [DS.sizes, DS.names] using this
  have hzip2 : (d.arrayToDict x).map (·.2) = splitBySizes d.sizes x := by
    unfold DS.arrayToDict
    rw [List.map_snd_zip]; omega
  have hzip1 : (d.arrayToDict x).map (·.1) = d.names := by
    unfold DS.arrayToDict
    rw [List.map_fst_zip]; omega
  refine ⟨?_, hzip1, ?_⟩
  · rw [hzip2]
    exact flatten_splitBySizes d.sizes x (by simpa [DS.dimension] using hx.symm)
  · have : (d.arrayToDict x).map (fun p => p.2.length) = ((d.arrayToDict x).map (·.2)).map List.length := by
      simp [List.map_map, Function.comp_def]
    rw [this, hzip2]
    exact splitBySizes_lengths d.sizes x (by simpa [DS.dimension] using hx.symm)

/-- Splitting the concatenation of per-variable arrays gives the arrays back (dict → array → dict). -/
theorem dict_array_dict (parts : List (List Rat)) :
    splitBySizes (parts.map List.length) parts.flatten = parts := splitBySizes_flatten parts

/-! ### Normalisation: affine bijection on bounded normalisable components, identity elsewhere -/

private theorem zipWith4_getElem? {α β γ δ ε : Type} (f : α → β → γ → δ → ε)
    (as : List α) (bs : List β) (cs : List γ) (ds : List δ) (i : Nat)
    (a : α) (b : β) (c : γ) (d : δ)
    (ha : as[i]? = some a) (hb : bs[i]? = some b) (hc : cs[i]? = some c) (hd : ds[i]? = some d) :
    (zipWith4 f as bs cs ds)[i]? = some (f a b c d) := by
  induction as generalizing bs cs ds i with
  | nil => simp at ha
  | cons a0 as ih =>
    cases bs with
    | nil => simp at hb
    | cons b0 bs =>
      cases cs with
      | nil => simp at hc
      | cons c0 cs =>
        cases ds with
        | nil => simp at hd
        | cons d0 ds =>
          cases i with
          | zero =>
            simp only [List.getElem?_cons_zero, Option.some.injEq] at ha hb hc hd
            subst ha hb hc hd
            simp [zipWith4]
          | succ j =>
            simp only [List.getElem?_cons_succ] at ha hb hc hd
            simp only [zipWith4, List.getElem?_cons_succ]
            exact ih bs cs ds j ha hb hc hd

/-- Component `i` of `normalize_vect` is `normComp` of component `i` of the views. -/
theorem normalizeVect_component (d : DS) (m : Bool) (x : List Rat) (i : Nat)
    (n : Bool) (l u : Option Rat) (xi : Rat)
    (hn : d.normMask[i]? = some n) (hl : d.flatLb[i]? = some l) (hu : d.flatUb[i]? = some u)
    (hx : x[i]? = some xi) :
    (d.normalizeVect m x)[i]? = some (normComp m n l u xi) :=
  zipWith4_getElem? _ _ _ _ _ i n l u xi hn hl hu hx

/-- **Bounded normalisable component ↦ [0,1] affinely**: `(x - lb)/(ub - lb)`, the bounds go to 0
    and 1, and the image is in `[0,1]` exactly when `x` is within the bounds. -/
theorem normalize_affine_unit (d : DS) (x : List Rat) (i : Nat) (l u xi : Rat) (hlu : l < u)
    (hn : d.normMask[i]? = some true) (hl : d.flatLb[i]? = some (some l))
    (hu : d.flatUb[i]? = some (some u)) (hx : x[i]? = some xi) :
    ∃ t, (d.normalizeVect true x)[i]? = some t ∧ t = (xi - l) / (u - l) ∧
      ((0 ≤ t ∧ t ≤ 1) ↔ (l ≤ xi ∧ xi ≤ u)) := by
  refine ⟨_, normalizeVect_component d true x i true (some l) (some u) xi hn hl hu hx,
    normComp_affine l u xi hlu, normComp_unit_iff l u xi hlu⟩

/-- **Other components are left unchanged** by normalisation. -/
theorem normalize_leaves_others (d : DS) (m : Bool) (x : List Rat) (i : Nat)
    (l u : Option Rat) (xi : Rat)
    (hn : d.normMask[i]? = some false) (hl : d.flatLb[i]? = some l) (hu : d.flatUb[i]? = some u)
    (hx : x[i]? = some xi) :
    (d.normalizeVect m x)[i]? = some xi := by
  have := normalizeVect_component d m x i false l u xi hn hl hu hx
  simpa [normComp_not_norm] using this

private theorem zipWith4_round_trip {α β γ : Type} (f g : α → β → γ → Rat → Rat)
    (P : α → β → γ → Rat → Prop) (hfg : ∀ a b c x, P a b c x → g a b c (f a b c x) = x) :
    ∀ (as : List α) (bs : List β) (cs : List γ) (xs : List Rat),
      as.length = xs.length → bs.length = xs.length → cs.length = xs.length →
      (∀ (i : Nat) (a : α) (b : β) (c : γ) (x : Rat),
        as[i]? = some a → bs[i]? = some b → cs[i]? = some c → xs[i]? = some x → P a b c x) →
      zipWith4 g as bs cs (zipWith4 f as bs cs xs) = xs := by
  intro as
  induction as with
  | nil =>
    intro bs cs xs ha _ _ _
    have : xs = [] := List.eq_nil_of_length_eq_zero (by simpa using ha.symm)
    subst this
    cases bs <;> cases cs <;> simp [zipWith4]
  | cons a as ih =>
    intro bs cs xs ha hb hc hP
    cases xs with
    | nil => simp at ha
    | cons x xs =>
      cases bs with
      | nil => simp at hb
      | cons b bs =>
        cases cs with
        | nil => simp at hc
        | cons c cs =>
          simp only [zipWith4]
          rw [hfg a b c x (hP 0 a b c x rfl rfl rfl rfl)]
          congr 1
          apply ih bs cs xs (by simpa using ha) (by simpa using hb) (by simpa using hc)
          intro i a' b' c' x' h1 h2 h3 h4
          exact hP (i + 1) a' b' c' x' (by simpa using h1) (by simpa using h2) (by simpa using h3)
            (by simpa using h4)

/-- **Unnormalisation is the inverse of normalisation** (spaces without integer rounding): for a
    design space whose integer mask is all false, every vector of the right size is recovered
    exactly, provided each normalisable component has `lb ≠ ub` or sits on its (equal) bounds. -/
theorem unnormalize_normalize (d : DS) (hwf : d.WF) (m : Bool) (x : List Rat)
    (hx : x.length = d.dimension) (hint : ∀ b ∈ d.intMask, b = false)
    (hcomp : ∀ (i : Nat) (l u xi : Rat), d.normMask[i]? = some true → d.flatLb[i]? = some (some l) →
      d.flatUb[i]? = some (some u) → x[i]? = some xi → l ≠ u ∨ (m = true ∧ xi = l)) :
    d.unnormalizeVect m (d.normalizeVect m x) = x := by
  obtain ⟨h1, h2, h3, h4⟩ := views_have_dimension d hwf
  have hraw : zipWith4 (fun n l b ui => unnormComp m n l b ui) d.normMask d.flatLb d.flatUb
      (d.normalizeVect m x) = x := by
    unfold DS.normalizeVect
    apply zipWith4_round_trip (fun n l u xi => normComp m n l u xi)
      (fun n l b ui => unnormComp m n l b ui)
      (fun n l u xi => n = false ∨ (∃ l' u', l = some l' ∧ u = some u' ∧ (l' ≠ u' ∨ (m = true ∧ xi = l'))))
    · intro n l u xi hP
      rcases hP with hn | ⟨l', u', rfl, rfl, hne | ⟨hm, hxl⟩⟩
      · subst hn; simp [normComp, unnormComp]
      · cases n
        · simp [normComp, unnormComp]
        · exact unnormComp_normComp m l' u' xi hne
      · cases n
        · simp [normComp, unnormComp]
        · subst hm hxl
          by_cases hne : xi = u'
          · subst hne; simp [normComp, unnormComp, scaleOf]
          · exact unnormComp_normComp true xi u' xi hne
    · omega
    · omega
    · omega
    · intro i n l u xi hn hl hu hxi
      cases n with
      | false => exact Or.inl rfl
      | true =>
        right
        -- a normalisable component has finite bounds
        have hfin : l.isSome = true ∧ u.isSome = true := by
          have hmem : (true, l, u) ∈ (d.normMask.zip (d.flatLb.zip d.flatUb)) := by
            apply List.mem_iff_getElem?.mpr
            exact ⟨i, by simp [List.getElem?_zip_eq_some, hn, hl, hu]⟩
          clear hcomp hxi
          -- unfold the masks variable by variable
          simp only [DS.normMask, DS.flatLb, DS.flatUb] at hmem
          have key : ∀ (vs : List Var), (∀ v ∈ vs, v.WF) →
              (true, l, u) ∈ ((vs.flatMap (Var.normMask d.intNorm)).zip
                ((vs.flatMap (·.lb)).zip (vs.flatMap (·.ub)))) →
              l.isSome = true ∧ u.isSome = true := by
            intro vs
            induction vs with
            | nil => intro _ h; simp at h
            | cons w ws ih =>
              intro hw hmem
              have hww := hw w (by simp)
              simp only [List.flatMap_cons] at hmem
              have hl1 : (Var.normMask d.intNorm w).length = w.lb.length := by
                simpa [Var.size] using normMask_len d.intNorm w hww
              have hl2 : w.lb.length = w.ub.length := hww.1
              rw [List.zip_append hl2, List.zip_append (by simp [hl1, hl2])] at hmem
              rcases List.mem_append.mp hmem with hm | hm
              · simp only [Var.normMask] at hm
                obtain ⟨j, hj⟩ := List.mem_iff_getElem?.mp hm
                simp only [List.getElem?_zip_eq_some, List.getElem?_map] at hj
                obtain ⟨hj1, hj2, hj3⟩ := hj
                cases hz : (w.lb.zip w.ub)[j]? with
                | none => simp [hz] at hj1
                | some p =>
                  simp only [hz, Option.map_some, Option.some.injEq] at hj1
                  have hz' := List.getElem?_zip_eq_some.mp hz
                  rw [hj2] at hz'; rw [hj3] at hz'
                  have e1 : l = p.1 := Option.some.inj hz'.1
                  have e2 : u = p.2 := Option.some.inj hz'.2
                  simp only [Bool.and_eq_true] at hj1
                  exact ⟨e1 ▸ hj1.1.2, e2 ▸ hj1.2⟩
              · exact ih (fun v hv => hw v (List.mem_cons_of_mem _ hv)) hm
          exact key d.vars hwf.2 hmem
        obtain ⟨l', hl'⟩ := Option.isSome_iff_exists.mp hfin.1
        obtain ⟨u', hu'⟩ := Option.isSome_iff_exists.mp hfin.2
        subst hl' hu'
        exact ⟨l', u', rfl, rfl, hcomp i l' u' xi hn hl hu hxi⟩
  unfold DS.unnormalizeVect
  simp only [hraw]
  have hround : List.zipWith roundIf d.intMask x = x := by
    have hlen : d.intMask.length = x.length := by omega
    clear hraw hcomp hx h1 h2 h3 h4
    generalize d.intMask = ms at hint hlen
    induction ms generalizing x with
    | nil =>
      have : x = [] := List.eq_nil_of_length_eq_zero (by simpa using hlen.symm)
      simp [this]
    | cons b bs ih =>
      cases x with
      | nil => simp at hlen
      | cons y ys =>
        have hb : b = false := hint b (by simp)
        subst hb
        simp only [List.zipWith_cons_cons, roundIf, Bool.false_eq_true, if_false]
        congr 1
        exact ih ys (fun b hb => hint b (List.mem_cons_of_mem _ hb)) (by simpa using hlen)
  cases m <;> simp [hround]

/-- Component of `normalize_grad` / `unnormalize_grad`: the matching linear scaling by
    `ub - lb`, resp. its inverse; they are mutually inverse where the scale is non-zero, and the
    scale is 0 on components whose bounds coincide (the normalised coordinate is inert). -/
theorem grad_scaling (l u g : Rat) :
    unnormComp false true (some l) (some u) g = g * (u - l) ∧
    (l ≠ u → normComp false true (some l) (some u) g = g / (u - l)) ∧
    (l ≠ u → normComp false true (some l) (some u) (unnormComp false true (some l) (some u) g) = g) ∧
    (l = u → unnormComp false true (some l) (some u) g = 0) := by
  refine ⟨unnormComp_grad l u g, normComp_grad l u g, normComp_unnormComp false l u g, ?_⟩
  intro h; subst h; simp [unnormComp, scaleOf]

/-- `normalize_grad` never rounds (it is not applied to points). -/
theorem normalizeGrad_component (d : DS) (g : List Rat) (i : Nat)
    (n : Bool) (l u : Option Rat) (gi : Rat)
    (hn : d.normMask[i]? = some n) (hl : d.flatLb[i]? = some l) (hu : d.flatUb[i]? = some u)
    (hg : g[i]? = some gi) :
    (d.normalizeGrad g)[i]? = some (unnormComp false n l u gi) := by
  unfold DS.normalizeGrad DS.unnormalizeVect
  simp only [Bool.false_eq_true, if_false]
  exact zipWith4_getElem? _ _ _ _ _ i n l u gi hn hl hu hg

/-! ### Membership and projection agree with the bounds -/

private theorem zipWith3_getElem? {α β γ δ : Type} (f : α → β → γ → δ)
    (as : List α) (bs : List β) (cs : List γ) (i : Nat) (a : α) (b : β) (c : γ)
    (ha : as[i]? = some a) (hb : bs[i]? = some b) (hc : cs[i]? = some c) :
    (zipWith3 f as bs cs)[i]? = some (f a b c) := by
  induction as generalizing bs cs i with
  | nil => simp at ha
  | cons a0 as ih =>
    cases bs with
    | nil => simp at hb
    | cons b0 bs =>
      cases cs with
      | nil => simp at hc
      | cons c0 cs =>
        cases i with
        | zero =>
          simp only [List.getElem?_cons_zero, Option.some.injEq] at ha hb hc
          subst ha hb hc
          simp [zipWith3]
        | succ j =>
          simp only [List.getElem?_cons_succ] at ha hb hc
          simp only [zipWith3, List.getElem?_cons_succ]
          exact ih bs cs j ha hb hc

private theorem zipWith3_length {α β γ δ : Type} (f : α → β → γ → δ)
    (as : List α) (bs : List β) (cs : List γ) (n : Nat)
    (ha : as.length = n) (hb : bs.length = n) (hc : cs.length = n) :
    (zipWith3 f as bs cs).length = n := by
  induction as generalizing bs cs n with
  | nil => simp [zipWith3]; exact ha
  | cons a as ih =>
    cases bs with
    | nil => simp at hb; simp at ha; omega
    | cons b bs =>
      cases cs with
      | nil => simp at hc; simp at ha; omega
      | cons c cs =>
        cases n with
        | zero => simp at ha
        | succ k =>
          simp only [zipWith3, List.length_cons]
          rw [ih bs cs k (by simpa using ha) (by simpa using hb) (by simpa using hc)]

/-- **Membership is exactly "every component within its bounds"** (with the tolerance `tol`). -/
theorem membership_iff_bounds (d : DS) (hwf : d.WF) (tol : Rat) (x : List Rat)
    (hx : x.length = d.dimension) :
    d.isMember tol x = true ↔
      ∀ (i : Nat) (l u : Option Rat) (xi : Rat),
        d.flatLb[i]? = some l → d.flatUb[i]? = some u → x[i]? = some xi →
        (∀ l', l = some l' → l' - tol ≤ xi) ∧ (∀ u', u = some u' → xi ≤ u' + tol) := by
  obtain ⟨h1, h2, _, _⟩ := views_have_dimension d hwf
  unfold DS.isMember
  simp only [Bool.and_eq_true, beq_iff_eq, hx, true_and, List.all_eq_true, id]
  constructor
  · intro hall i l u xi hl hu hxi
    have hget := zipWith3_getElem? (fun l u xi => geLb tol l xi && leUb tol u xi)
      d.flatLb d.flatUb x i l u xi hl hu hxi
    have := hall _ (List.mem_of_getElem? hget)
    simp only [Bool.and_eq_true] at this
    constructor
    · intro l' hl'; subst hl'; simpa [geLb] using this.1
    · intro u' hu'; subst hu'; simpa [leUb] using this.2
  · intro hcomp b hb
    obtain ⟨i, hi⟩ := List.mem_iff_getElem?.mp hb
    have hlen := zipWith3_length (fun l u xi => geLb tol l xi && leUb tol u xi)
      d.flatLb d.flatUb x d.dimension h1 h2 hx
    have hil : i < d.dimension := by
      by_contra hc
      rw [List.getElem?_eq_none (by omega)] at hi; cases hi
    have hl := List.getElem?_eq_getElem (l := d.flatLb) (i := i) (by omega)
    have hu := List.getElem?_eq_getElem (l := d.flatUb) (i := i) (by omega)
    have hxi := List.getElem?_eq_getElem (l := x) (i := i) (by omega)
    have hget := zipWith3_getElem? (fun l u xi => geLb tol l xi && leUb tol u xi)
      d.flatLb d.flatUb x i _ _ _ hl hu hxi
    rw [hi] at hget
    have hb' := Option.some.inj hget
    obtain ⟨hlo, hhi⟩ := hcomp i _ _ _ hl hu hxi
    rw [hb']
    simp only [Bool.and_eq_true]
    constructor
    · cases hlb : d.flatLb[i] with
      | none => simp [geLb]
      | some l' => simpa [geLb] using hlo l' hlb
    · cases hub : d.flatUb[i] with
      | none => simp [leUb]
      | some u' => simpa [leUb] using hhi u' hub

/-- **Projection lands inside the bounds, fixes members and is idempotent** (component level:
    the vector operation is the component operation applied position by position). -/
theorem projection_component (lb ub : Option Rat) (x : Rat)
    (hord : ∀ l u, lb = some l → ub = some u → l ≤ u) :
    (∀ l, lb = some l → l ≤ projComp lb ub x) ∧ (∀ u, ub = some u → projComp lb ub x ≤ u) ∧
    ((∀ l, lb = some l → l ≤ x) → (∀ u, ub = some u → x ≤ u) → projComp lb ub x = x) ∧
    projComp lb ub (projComp lb ub x) = projComp lb ub x := by
  have hge : ∀ l, lb = some l → l ≤ projComp lb ub x := by
    intro l hl; subst hl
    exact projComp_ge l ub x (fun u hu => hord l u rfl hu)
  have hle : ∀ u, ub = some u → projComp lb ub x ≤ u := by
    intro u hu; subst hu; exact projComp_le lb u x
  exact ⟨hge, hle, projComp_fixed lb ub x, projComp_fixed lb ub _ hge hle⟩

theorem project_component (d : DS) (x : List Rat) (i : Nat) (l u : Option Rat) (xi : Rat)
    (hl : d.flatLb[i]? = some l) (hu : d.flatUb[i]? = some u) (hx : x[i]? = some xi) :
    (d.project x)[i]? = some (projComp l u xi) :=
  zipWith3_getElem? projComp _ _ _ i l u xi hl hu hx

/-! ### Edits keep one variable order -/

/-- **Renaming is in place**: same positions, same sizes, bounds, masks and values; only the name
    changes, in every view at once (index ranges are derived from the same list). -/
theorem rename_in_place (d d' : DS) (old new : String) (h : d.renameVariable old new = some d') :
    d'.names = d.names.map (fun n => if n == old then new else n) ∧
    d'.sizes = d.sizes ∧ d'.flatLb = d.flatLb ∧ d'.flatUb = d.flatUb ∧
    d'.normMask = d.normMask ∧ d'.intMask = d.intMask ∧ d'.dimension = d.dimension ∧
    d'.ranges.map (·.2) = d.ranges.map (·.2) := by
  unfold DS.renameVariable at h
  split at h
  · cases h
  · split at h
    · cases h
    · simp only [Option.some.injEq] at h
      subst h
      have hsz : ∀ v : Var, (if (v.name == old) = true then { v with name := new } else v).size = v.size := by
        intro v; split <;> rfl
      have hrange : ∀ (vs : List Var) (off : Nat),
          (rangesAux (vs.map (fun v => if (v.name == old) = true then { v with name := new } else v)) off).map (·.2)
            = (rangesAux vs off).map (·.2) := by
        intro vs
        induction vs with
        | nil => intro _; rfl
        | cons w ws ih =>
          intro off
          simp only [List.map_cons, rangesAux, hsz]
          rw [ih]
      refine ⟨?_, ?_, ?_, ?_, ?_, ?_, ?_, ?_⟩
      · simp only [DS.names, List.map_map]
        apply List.map_congr_left
        intro v _
        simp only [Function.comp]
        split <;> simp_all
      · simp only [DS.sizes, List.map_map]
        apply List.map_congr_left
        intro v _; exact hsz v
      · simp only [DS.flatLb, List.flatMap_map]
        congr 1; funext v; split <;> rfl
      · simp only [DS.flatUb, List.flatMap_map]
        congr 1; funext v; split <;> rfl
      · simp only [DS.normMask, List.flatMap_map]
        congr 1; funext v; split <;> rfl
      · simp only [DS.intMask, List.flatMap_map]
        congr 1; funext v; split <;> rfl
      · simp only [DS.dimension, DS.sizes, List.map_map]
        congr 1
        apply List.map_congr_left
        intro v _; exact hsz v
      · exact hrange d.vars 0

/-- Removing a variable removes exactly its name and keeps the order of the others. -/
theorem remove_keeps_order (d d' : DS) (n : String) (h : d.removeVariable n = some d') :
    d'.names = d.names.filter (fun m => !(m == n)) := by
  unfold DS.removeVariable at h
  split at h
  · simp only [Option.some.injEq] at h
    subst h
    simp only [DS.names, List.filter_map]
    rfl
  · cases h

/-- Adding a variable appends it: every flat view is extended at the end. -/
theorem add_appends (d d' : DS) (tol : Rat) (v : Var) (h : d.addVariable tol v = some d') :
    d'.names = d.names ++ [v.name] ∧ d'.flatLb = d.flatLb ++ v.lb ∧ d'.flatUb = d.flatUb ++ v.ub ∧
    d'.dimension = d.dimension + v.size := by
  have hv : d'.vars = d.vars ++ [v] ∧ d'.intNorm = d.intNorm := by
    unfold DS.addVariable at h
    split at h
    · cases h
    · split at h
      · cases h
      · split at h
        · cases h
        · split at h
          · split at h
            · simp only [Option.some.injEq] at h; subst h; exact ⟨rfl, rfl⟩
            · cases h
          · simp only [Option.some.injEq] at h; subst h; exact ⟨rfl, rfl⟩
  refine ⟨?_, ?_, ?_, ?_⟩
  · simp [DS.names, hv.1]
  · simp [DS.flatLb, hv.1]
  · simp [DS.flatUb, hv.1]
  · simp [DS.dimension, DS.sizes, hv.1]

/-! ### Non-vacuity -/

def exDS : DS :=
  { vars := [⟨"x", false, [some 0, some 1], [some 2, some 5], some [1, 2]⟩,
             ⟨"yy", true, [none], [some 3], none⟩] }

example : exDS.WF := by
  refine ⟨by decide, ?_⟩
  intro v hv
  simp only [exDS, List.mem_cons, List.mem_nil_iff, or_false] at hv
  rcases hv with rfl | rfl
  · exact ⟨rfl, by decide, by intro x hx; cases hx; rfl⟩
  · exact ⟨rfl, by decide, by intro x hx; cases hx⟩

example : exDS.ranges = [("x", 0, 2), ("yy", 2, 3)] := by decide +kernel
example : (DS.empty.run 0 [.add ⟨"x", false, [some 0, some 1], [some 2, some 5], some [1, 2]⟩,
    .add ⟨"yy", true, [none], [some 3], none⟩, .rename "x" "z", .filterDim "z" [1], .initMissing]).names
    = ["z", "yy"] := by decide +kernel
example : exDS.normalizeVect true [1, 2, 3] = [1/2, 1/4, 3] := by decide +kernel
example : (exDS.renameVariable "x" "z").map (·.names) = some ["z", "yy"] := by decide +kernel

end GV.C02
