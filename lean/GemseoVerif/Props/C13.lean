/-
C13 — property theorems: parallel execution is order-preserving and equivalent to sequential
execution.  All theorems quantify over **every schedule** (any finite list of enabled
transitions of the worker-pool transition system of `Model/C13.lean`), every worker count,
every input list, every family of task callables and every set of failing tasks.
Helper lemmas (invariant, measure) are in `Lemmas/C13Pool.lean`, `Lemmas/C13Doe.lean`.
-/
import GemseoVerif.Lemmas.C13Pool
import GemseoVerif.Lemmas.C13Doe

namespace GV.C13

variable {α β : Type}

/-! ### The worker pool -/

/-- **Each task is processed exactly once.**  In every reachable state every task index
    `i < n` is in exactly one of: not yet submitted / in `queue_in` / run by a worker /
    in `queue_out` / retrieved by the collector — and nothing else is anywhere. -/
theorem each_task_once (c : Cfg α β) (s : State β) (h : Reachable c s) :
    (s.pending ++ tasksOf s.queueIn ++ busyOf s.workers ++ s.queueOut.map Prod.fst ++ s.collected).Perm
      (List.range c.nTasks) := by
  rw [List.perm_iff_count]
  intro i
  have := (inv_reachable h).once i
  simp only [loc] at this
  simp only [List.count_append, List.count_range]
  omega

/-- Whatever sits in `queue_out` is the output of the task whose index it carries. -/
theorem queue_out_indexed (c : Cfg α β) (s : State β) (h : Reachable c s) :
    ∀ p ∈ s.queueOut, p.2 = c.run p.1 :=
  (inv_reachable h).qout

/-- A joined execution that was not stopped has retrieved every task exactly once. -/
theorem collected_perm_of_final (c : Cfg α β) (s : State β) (h : Reachable c s)
    (hf : s.final = true) (hs : s.stop = false) : s.collected.Perm (List.range c.nTasks) := by
  have hi := inv_reachable h
  have hsent : s.sent = true := by
    simp only [State.final, Bool.and_eq_true] at hf
    exact hf.1
  have hso := hi.sent_ok hsent
  have hn : s.collected.length = c.nTasks := by
    rcases hso.1 with h1 | h1
    · rw [← hi.nout]; exact h1
    · simp [hs] at h1
  have hlen := hi.len
  have h0 : s.pending = [] ∧ tasksOf s.queueIn = [] ∧ busyOf s.workers = [] ∧ s.queueOut = [] := by
    refine ⟨?_, ?_, ?_, ?_⟩ <;> apply List.eq_nil_of_length_eq_zero <;> omega
  rw [List.perm_iff_count]
  intro i
  have := hi.once i
  simp only [loc, h0.1, h0.2.1, h0.2.2.1, h0.2.2.2, List.map_nil, List.count_nil] at this
  simp only [List.count_range]
  omega

/-- **Positional results.**  For every schedule reaching the end of `execute`, every worker
    count, every set of failing tasks: if `execute` returns, it returns the sequential map —
    slot `i` holds `callable_i(inputs[i])`, `None` exactly where that call raises. -/
theorem positional_results (c : Cfg α β) (s : State β) (h : Reachable c s)
    (hf : s.final = true) (outs : List (Option β)) (hr : s.result = .returned outs) :
    outs = seqMap c := by
  have hi := inv_reachable h
  have hs : s.stop = false := by
    cases hst : s.stop with
    | false => rfl
    | true =>
      have := hi.stop_iff.mp hst
      simp [State.result, this] at hr
  have hperm := collected_perm_of_final c s h hf hs
  have : outs = s.ordered := by
    simp only [State.result] at hr
    split at hr
    · cases hr
    · cases hr; rfl
  rw [this, hi.ordered, seqMap]
  apply List.map_congr_left
  intro i hi'
  have : i ∈ s.collected := hperm.mem_iff.mpr hi'
  simp [this]

/-- `execute` re-raises exactly when the collector stopped, and then a task whose exception
    class is to be re-raised exists (and was the last one retrieved). -/
theorem raised_iff_stop (c : Cfg α β) (s : State β) (h : Reachable c s) :
    s.result = .raised ↔ s.stop = true := by
  have hi := inv_reachable h
  rw [hi.stop_iff]
  simp only [State.result]
  constructor
  · intro hr
    split at hr
    · assumption
    · cases hr
  · intro hl
    simp [hl]

theorem raised_only_by_stop_task (c : Cfg α β) (s : State β) (h : Reachable c s)
    (hr : s.result = .raised) : ∃ i, i < c.nTasks ∧ c.run i = .failStop := by
  have hi := inv_reachable h
  have hst := (raised_iff_stop c s h).mp hr
  have hl := hi.stop_iff.mp hst
  rw [hi.last] at hl
  cases hg : s.collected.getLast? with
  | none => simp [hg] at hl
  | some i =>
    simp [hg] at hl
    refine ⟨i, ?_, hl⟩
    have hmem : i ∈ s.collected := List.mem_of_getLast? hg
    have := hi.once i
    have hc : 0 < s.collected.count i := List.count_pos_iff.mpr hmem
    simp only [loc] at this
    split at this
    · assumption
    · omega

/-- If no task raises an exception to re-raise, every joined execution returns the
    sequential map. -/
theorem returns_seqMap_of_no_stop_task (c : Cfg α β) (s : State β) (h : Reachable c s)
    (hf : s.final = true) (hno : ∀ i, i < c.nTasks → c.run i ≠ .failStop) :
    s.result = .returned (seqMap c) := by
  cases hr : s.result with
  | raised =>
    obtain ⟨i, hi, hrun⟩ := raised_only_by_stop_task c s h hr
    exact absurd hrun (hno i hi)
  | returned outs =>
    rw [positional_results c s h hf outs hr]

/-- **Callbacks, safety (every reachable state, also when the execution is stopped):** the
    calls made so far are calls `(i, callable_i(inputs[i]))` of successful tasks, each at most
    once: the log can be completed into the expected multiset of calls. -/
theorem callbacks_at_most_once (c : Cfg α β) (s : State β) (h : Reachable c s) :
    ∃ missing, (s.cbLog ++ missing).Perm (seqCallbacks c) := by
  have hi := inv_reachable h
  refine ⟨(s.pending ++ tasksOf s.queueIn ++ busyOf s.workers ++ s.queueOut.map Prod.fst).filterMap
    (cbOf c), ?_⟩
  rw [hi.cbs]
  have hperm := (each_task_once c s h).filterMap (cbOf c)
  rw [List.filterMap_append] at hperm
  exact List.perm_append_comm.trans hperm

/-- **Callbacks exactly once with the matching index.**  When `execute` returns, the callback
    log is a permutation of `{(i, callable_i(inputs[i])) | task i succeeds}`. -/
theorem callbacks_exactly_once (c : Cfg α β) (s : State β) (h : Reachable c s)
    (hf : s.final = true) (hs : s.stop = false) : s.cbLog.Perm (seqCallbacks c) := by
  have hi := inv_reachable h
  rw [hi.cbs]
  exact (collected_perm_of_final c s h hf hs).filterMap _

/-- **Failure isolation.**  The slot of task `i` depends on task `i` only: two executions (any
    schedules, any worker counts, any other tasks, any failing subsets) in which task `i`
    behaves the same return the same value at position `i`. -/
theorem failure_isolated (c c' : Cfg α β) (s s' : State β) (h : Reachable c s) (h' : Reachable c' s')
    (hf : s.final = true) (hf' : s'.final = true) (outs outs' : List (Option β))
    (hr : s.result = .returned outs) (hr' : s'.result = .returned outs')
    (i : Nat) (hi : i < c.nTasks) (hi' : i < c'.nTasks) (hrun : c.run i = c'.run i) :
    outs[i]? = outs'[i]? := by
  rw [positional_results c s h hf outs hr, positional_results c' s' h' hf' outs' hr']
  simp [seqMap, hi, hi', hrun]

/-- **Schedule and worker-count independence** (parallel = sequential): two executions of
    the same tasks return the same list, whatever the schedules and the numbers of workers. -/
theorem schedule_independent (c c' : Cfg α β) (s s' : State β) (h : Reachable c s) (h' : Reachable c' s')
    (hin : c.inputs = c'.inputs) (hcal : c.callables = c'.callables)
    (hf : s.final = true) (hf' : s'.final = true) (outs outs' : List (Option β))
    (hr : s.result = .returned outs) (hr' : s'.result = .returned outs') : outs = outs' := by
  rw [positional_results c s h hf outs hr, positional_results c' s' h' hf' outs' hr']
  simp [seqMap, Cfg.nTasks, Cfg.run, Cfg.call, hin, hcal]

/-- With a single callable `f` the sequential map is `[f(x) for x in inputs]`. -/
theorem seqMap_single (inputs : List α) (f : α → Outcome β) (np : Nat) :
    seqMap ⟨inputs, [f], np⟩ = inputs.map (fun x => (f x).toOption) := by
  apply List.ext_getElem?
  intro i
  simp only [seqMap, Cfg.nTasks, Cfg.run, Cfg.call, List.getElem?_map]
  by_cases hi : i < inputs.length
  · simp [hi]
  · simp [hi]

/-- **No deadlock.**  Until `execute` has joined its workers some transition is enabled
    (given `n_processes ≥ 1`). -/
theorem no_deadlock (c : Cfg α β) (s : State β) (h : Reachable c s) (hp : 1 ≤ c.nProcs)
    (hf : s.final = false) : ∃ op s', step? c s op = some s' :=
  progress (inv_reachable h) hp hf

/-- **Termination.**  Every schedule has at most `4 n + w + 1` transitions (so the OS cannot
    schedule forever), and the bound is attained exactly at the end: each transition decreases
    the measure by one. -/
theorem schedule_length (c : Cfg α β) (ops : List Op) (s : State β)
    (h : run? c (init c) ops = some s) :
    mu s + ops.length = 4 * c.nTasks + min c.nTasks c.nProcs + 1 := by
  rw [← mu_init c]
  exact mu_run h

/-- Every partial schedule can be completed: from every reachable state some schedule reaches
    the end of `execute`.  Together with `schedule_length` and `no_deadlock`: every maximal
    schedule is finite and ends with all workers joined. -/
theorem always_completes (c : Cfg α β) (s : State β) (h : Reachable c s) (hp : 1 ≤ c.nProcs) :
    ∃ ops s', run? c s ops = some s' ∧ s'.final = true :=
  can_finish hp (mu s) s rfl (inv_reachable h)

/-- Existence (non-vacuity of all the theorems above): for every configuration with at least
    one worker there is a schedule that reaches the end of `execute`. -/
theorem exists_final (c : Cfg α β) (hp : 1 ≤ c.nProcs) :
    ∃ s, Reachable c s ∧ s.final = true := by
  obtain ⟨ops, s', h, hf⟩ := can_finish hp (mu (init c)) (init c) rfl (inv_init c)
  exact ⟨s', ⟨ops, h⟩, hf⟩

/-- **Parallel = sequential, end to end**: with at least one worker and no task raising a
    re-raised exception, a complete execution exists and *every* complete execution returns the
    sequential map and has called the callbacks exactly once per successful task. -/
theorem parallel_eq_sequential (c : Cfg α β) (hp : 1 ≤ c.nProcs)
    (hno : ∀ i, i < c.nTasks → c.run i ≠ .failStop) :
    (∃ s, Reachable c s ∧ s.final = true) ∧
    ∀ s, Reachable c s → s.final = true →
      s.result = .returned (seqMap c) ∧ s.cbLog.Perm (seqCallbacks c) := by
  refine ⟨exists_final c hp, ?_⟩
  intro s h hf
  have hr := returns_seqMap_of_no_stop_task c s h hf hno
  refine ⟨hr, callbacks_exactly_once c s h hf ?_⟩
  cases hst : s.stop with
  | false => rfl
  | true =>
    have := (raised_iff_stop c s h).mpr hst
    rw [hr] at this
    cases this

/-! ### `DiscParallelLinearization`: the returned Jacobians are positional -/

/-- The list of Jacobians has one slot per input, slot `i` holds the Jacobian of task `i`
    (`None` exactly where the task failed): a failed discipline does not shift the others. -/
theorem linearization_positional {γ : Type} (jacOf : β → γ) (ordered : List (Option β)) :
    (linearizationReturn jacOf ordered).length = ordered.length ∧
    ∀ i : Nat, (linearizationReturn jacOf ordered)[i]? = (ordered[i]?).map (fun (o : Option β) => o.map jacOf) := by
  simp [linearizationReturn]

/-- Composition with the pool: for every schedule, the Jacobian list of a complete parallel
    linearization is the sequential one. -/
theorem parallel_linearization_eq_sequential {γ : Type} (jacOf : β → γ) (c : Cfg α β) (s : State β)
    (h : Reachable c s) (hf : s.final = true) (outs : List (Option β))
    (hr : s.result = .returned outs) :
    linearizationReturn jacOf outs = (seqMap c).map (fun o => o.map jacOf) := by
  rw [positional_results c s h hf outs hr, linearizationReturn]

/-! ### DOE layer -/

section DOE

variable {κ ν : Type} [DecidableEq κ]

/-- Both the parallel DOE (pre-seeding, store callbacks in *any* completion order, clean-up)
    and the sequential DOE end with the canonical database: the successful samples in sample
    order (first occurrence), each with its own values. -/
theorem doe_canonical (eval : κ → Option ν) (samples : List κ) (cbs : List Nat)
    (hcover : ∀ i (h : i < samples.length), (eval samples[i]).isSome → i ∈ cbs) :
    doeParallel eval samples cbs = canon eval (addKeys [] samples) ∧
    doeSequential eval [] samples = canon eval (addKeys [] samples) := by
  constructor
  · unfold doeParallel
    have hpre : doePreseed ([] : Db κ ν) samples = part eval [] (addKeys [] samples) := by
      have h0 : (blank [] : Db κ ν) = [] := rfl
      have := doePreseed_blank (ν := ν) [] samples
      rw [h0] at this
      rw [this, blank_eq_part eval]
    have hn : (addKeys ([] : List κ) samples).Nodup := nodup_addKeys List.nodup_nil samples
    have hs : ∀ x ∈ samples, x ∈ addKeys [] samples := fun x hx => mem_addKeys.mpr (Or.inr hx)
    obtain ⟨D', h1, h2⟩ := doeCallbacks_part eval samples _ hn hs [] cbs
    rw [hpre, h1]
    apply removeEmpty_part
    intro k hk hsome
    have hk' : k ∈ samples := by
      rcases mem_addKeys.mp hk with h | h
      · simp at h
      · exact h
    obtain ⟨i, hi, rfl⟩ := List.getElem_of_mem hk'
    exact (h2 _).mpr (Or.inr ⟨i, hcover i hi hsome, by simp [hi]⟩)
  · have := doeSequential_canon eval [] List.nodup_nil samples
    simpa [canon] using this

/-- **Parallel DOE = sequential DOE** for every completion order `cbs` that contains every
    successful sample index (failing samples included, repeated samples included): same points,
    same order, same values. -/
theorem parallel_doe_eq_sequential (eval : κ → Option ν) (samples : List κ) (cbs : List Nat)
    (hcover : ∀ i (h : i < samples.length), (eval samples[i]).isSome → i ∈ cbs) :
    doeParallel eval samples cbs = doeSequential eval [] samples := by
  obtain ⟨h1, h2⟩ := doe_canonical eval samples cbs hcover
  rw [h1, h2]

/-- The task callable of a DOE: evaluate the sample, a raising evaluation is a swallowed failure. -/
def doeCallable (eval : κ → Option ν) : κ → Outcome ν :=
  fun x => match eval x with
    | some v => .ok v
    | none => .fail

/-- **End to end, for every schedule of the worker pool and every worker count**: the database
    built from the callbacks of any complete parallel execution is the sequential database. -/
theorem parallel_doe_eq_sequential_any_schedule (eval : κ → Option ν) (samples : List κ) (np : Nat)
    (s : State ν) (h : Reachable ⟨samples, [doeCallable eval], np⟩ s) (hf : s.final = true) :
    doeParallel eval samples (s.cbLog.map Prod.fst) = doeSequential eval [] samples := by
  let c : Cfg κ ν := ⟨samples, [doeCallable eval], np⟩
  have hrun : ∀ i (hi : i < samples.length), c.run i = doeCallable eval samples[i] := by
    intro i hi
    simp [c, Cfg.run, Cfg.call, hi]
  have hno : ∀ i, i < c.nTasks → c.run i ≠ .failStop := by
    intro i hi
    rw [hrun i hi]
    unfold doeCallable
    cases eval samples[i] <;> simp
  have hst : s.stop = false := by
    cases hs : s.stop with
    | false => rfl
    | true =>
      have hr := (raised_iff_stop c s h).mpr hs
      obtain ⟨i, hi, hrun'⟩ := raised_only_by_stop_task c s h hr
      exact absurd hrun' (hno i hi)
  have hperm := callbacks_exactly_once c s h hf hst
  apply parallel_doe_eq_sequential
  intro i hi hsome
  obtain ⟨v, hv⟩ := Option.isSome_iff_exists.mp hsome
  have hmem : (i, v) ∈ seqCallbacks c := by
    simp only [seqCallbacks, List.mem_filterMap, List.mem_range]
    refine ⟨i, hi, ?_⟩
    rw [hrun i hi]
    simp [doeCallable, hv, Outcome.toOption]
  have := hperm.mem_iff.mpr hmem
  exact List.mem_map.mpr ⟨(i, v), this, rfl⟩

example : doeParallel (fun x : Nat => if x = 2 then none else some (10 * x)) [1, 2, 3, 1] [3, 2, 0]
    = [(1, some 10), (3, some 30)] := by decide

example : doeSequential (fun x : Nat => if x = 2 then none else some (10 * x)) [] [1, 2, 3, 1]
    = [(1, some 10), (3, some 30)] := by decide

/-! ### Shared full cache -/

/-- **Look-ups are transparent**: after any sequence of atomic `cache_outputs(x, f x)` calls on
    an empty cache, looking up `y` gives `f y` exactly when `y` was written. -/
theorem cache_transparent (f : κ → ν) (xs : List κ) (y : κ) :
    cacheLookup (cacheWrites f [] xs) y = if y ∈ xs then some (f y) else none := by
  rw [cacheLookup_cacheWrites]
  simp [cacheLookup_nil]

/-- **Linearisable**: any two interleavings (permutations) of the same atomic writes, starting
    from the same cache, answer every look-up identically, and store the same set of inputs
    once each. -/
theorem shared_cache_linearisable (f : κ → ν) (cch : Cache κ ν) (xs ys : List κ) (hp : xs.Perm ys) :
    (∀ y, cacheLookup (cacheWrites f cch xs) y = cacheLookup (cacheWrites f cch ys) y) ∧
    (∀ y, y ∈ (cacheWrites f cch xs).map Prod.fst ↔ y ∈ (cacheWrites f cch ys).map Prod.fst) := by
  constructor
  · intro y
    rw [cacheLookup_cacheWrites, cacheLookup_cacheWrites]
    cases cacheLookup cch y with
    | some w => rfl
    | none => simp [hp.mem_iff]
  · intro y
    rw [keys_cacheWrites, keys_cacheWrites, mem_addKeys, mem_addKeys, hp.mem_iff]

/-- One entry per distinct input. -/
theorem cache_entries_nodup (f : κ → ν) (xs : List κ) :
    ((cacheWrites f [] xs).map Prod.fst).Nodup ∧
    ∀ y, y ∈ (cacheWrites f [] xs).map Prod.fst ↔ y ∈ xs := by
  rw [keys_cacheWrites]
  refine ⟨nodup_addKeys List.nodup_nil xs, ?_⟩
  intro y
  rw [mem_addKeys]
  simp

example : cacheWrites (fun x : Nat => 2 * x) [] [3, 1, 3, 2] = [(3, 6), (1, 2), (2, 4)] := by decide

end DOE

/-! ### Non-vacuity: a concrete out-of-order schedule with a failing task -/

/-- Three tasks, two workers, task 1 raises; completion order 1, 2, 0. -/
def exCfg : Cfg Nat Nat :=
  ⟨[10, 20, 30], [fun x => if x = 20 then .fail else .ok (2 * x + 1)], 2⟩

def exOps : List Op :=
  [.submit, .submit, .submit, .take 0, .take 1, .finish 1, .collect, .take 1, .finish 1, .finish 0,
   .collect, .collect, .shutdown, .take 0, .take 1]

example : (run? exCfg (init exCfg) exOps).map (fun s => (s.final, s.result, s.cbLog, s.collected))
    = some (true, .returned [some 21, none, some 61], [(2, 61), (0, 21)], [1, 2, 0]) := by decide

example : ∃ s, Reachable exCfg s ∧ s.final = true ∧ s.result = .returned [some 21, none, some 61] :=
  ⟨_, ⟨exOps, rfl⟩, by decide, by decide⟩

/-- A re-raised exception: the execution stops, later results are not retrieved. -/
def exCfgStop : Cfg Nat Nat :=
  ⟨[10, 20, 30], [fun x => if x = 20 then .failStop else .ok (2 * x + 1)], 2⟩

example : (run? exCfgStop (init exCfgStop)
    [.submit, .submit, .submit, .take 0, .take 1, .finish 1, .collect, .shutdown, .take 1, .finish 1,
     .finish 0, .take 0, .take 1]).map (fun s => (s.final, s.result, s.cbLog))
    = some (true, .raised, []) := by decide

end GV.C13
