/-
C13 — property theorems: parallel execution is order-preserving and equivalent to sequential
execution.  All theorems quantify over **every schedule** (any finite list of enabled
transitions of the worker-pool transition system of `Model/C13.lean`), every worker count,
every input list, every family of task callables and every set of failing tasks.
Successive `execute()` calls on one executor object and the shared full cache with Jacobians
(any interleaving of the workers' atomic `cache_outputs` / `cache_jacobian` calls) are covered too,
and so are tasks that are *not* pure: calls of `_Functor.__call__` on discipline objects, which read and
write the execution status of the object and may overwrite the input array it holds (last section).
The last section is about the *sequential counterparts* of two users of the pool: histories of calls on one parallel
gradient approximator whose function takes keyword arguments, and the Jacobian / data of a parallel chain assembled
from its disciplines when an output is computed by several of them.
Helper lemmas (invariants, measure) are in `Lemmas/C13Pool.lean`, `Lemmas/C13Doe.lean`,
`Lemmas/C13Session.lean`, `Lemmas/C13Cache.lean`, `Lemmas/C13Effects.lean`, `Lemmas/C13Seq.lean`.
-/
import GemseoVerif.Lemmas.C13Pool
import GemseoVerif.Lemmas.C13Doe
import GemseoVerif.Lemmas.C13Session
import GemseoVerif.Lemmas.C13Cache
import GemseoVerif.Lemmas.C13Effects
import GemseoVerif.Lemmas.C13Seq

namespace GV.C13

variable {α β : Type}

/-! ### The worker pool -/

/-- **Each task is processed exactly once.**  In every reachable state every task index
    `i < n` is in exactly one of: not yet submitted / in `queue_in` / run by a worker /
    in `queue_out` / retrieved by the collector — and nothing else is anywhere. -/
theorem each_task_once (c : Cfg α β) (s : State β) (h : Reachable c s) :
    (s.pending ++ tasksOf s.queueIn ++ busyOf s.workers ++ s.queueOut.map Prod.fst ++ s.collected).Perm
      (List.range c.nTasks) := by
  rw [List.perm_iff_count]
  intro i
  have := (inv_reachable h).once i
  simp only [loc] at this
  simp only [List.count_append, List.count_range]
  omega

/-- Whatever sits in `queue_out` is the output of the task whose index it carries. -/
theorem queue_out_indexed (c : Cfg α β) (s : State β) (h : Reachable c s) :
    ∀ p ∈ s.queueOut, p.2 = c.run p.1 :=
  (inv_reachable h).qout

/-- A joined execution that was not stopped has retrieved every task exactly once. -/
theorem collected_perm_of_final (c : Cfg α β) (s : State β) (h : Reachable c s)
    (hf : s.final = true) (hs : s.stop = false) : s.collected.Perm (List.range c.nTasks) := by
  have hi := inv_reachable h
  have hsent : s.sent = true := by
    simp only [State.final, Bool.and_eq_true] at hf
    exact hf.1
  have hso := hi.sent_ok hsent
  have hn : s.collected.length = c.nTasks := by
    rcases hso.1 with h1 | h1
    · rw [← hi.nout]; exact h1
    · simp [hs] at h1
  have hlen := hi.len
  have h0 : s.pending = [] ∧ tasksOf s.queueIn = [] ∧ busyOf s.workers = [] ∧ s.queueOut = [] := by
    refine ⟨?_, ?_, ?_, ?_⟩ <;> apply List.eq_nil_of_length_eq_zero <;> omega
  rw [List.perm_iff_count]
  intro i
  have := hi.once i
  simp only [loc, h0.1, h0.2.1, h0.2.2.1, h0.2.2.2, List.map_nil, List.count_nil] at this
  simp only [List.count_range]
  omega

/-- **Positional results.**  For every schedule reaching the end of `execute`, every worker
    count, every set of failing tasks: if `execute` returns, it returns the sequential map —
    slot `i` holds `callable_i(inputs[i])`, `None` exactly where that call raises. -/
theorem positional_results (c : Cfg α β) (s : State β) (h : Reachable c s)
    (hf : s.final = true) (outs : List (Option β)) (hr : s.result = .returned outs) :
    outs = seqMap c := by
  have hi := inv_reachable h
  have hs : s.stop = false := by
    cases hst : s.stop with
    | false => rfl
    | true =>
      have := hi.stop_iff.mp hst
      simp [State.result, this] at hr
  have hperm := collected_perm_of_final c s h hf hs
  have : outs = s.ordered := by
    simp only [State.result] at hr
    split at hr
    · cases hr
    · cases hr; rfl
  rw [this, hi.ordered, seqMap]
  apply List.map_congr_left
  intro i hi'
  have : i ∈ s.collected := hperm.mem_iff.mpr hi'
  simp [this]

/-- `execute` re-raises exactly when the collector stopped, and then a task whose exception
    class is to be re-raised exists (and was the last one retrieved). -/
theorem raised_iff_stop (c : Cfg α β) (s : State β) (h : Reachable c s) :
    s.result = .raised ↔ s.stop = true := by
  have hi := inv_reachable h
  rw [hi.stop_iff]
  simp only [State.result]
  constructor
  · intro hr
    split at hr
    · assumption
    · cases hr
  · intro hl
    simp [hl]

theorem raised_only_by_stop_task (c : Cfg α β) (s : State β) (h : Reachable c s)
    (hr : s.result = .raised) : ∃ i, i < c.nTasks ∧ c.run i = .failStop := by
  have hi := inv_reachable h
  have hst := (raised_iff_stop c s h).mp hr
  have hl := hi.stop_iff.mp hst
  rw [hi.last] at hl
  cases hg : s.collected.getLast? with
  | none => simp [hg] at hl
  | some i =>
    simp [hg] at hl
    refine ⟨i, ?_, hl⟩
    have hmem : i ∈ s.collected := List.mem_of_getLast? hg
    have := hi.once i
    have hc : 0 < s.collected.count i := List.count_pos_iff.mpr hmem
    simp only [loc] at this
    split at this
    · assumption
    · omega

/-- If no task raises an exception to re-raise, every joined execution returns the
    sequential map. -/
theorem returns_seqMap_of_no_stop_task (c : Cfg α β) (s : State β) (h : Reachable c s)
    (hf : s.final = true) (hno : ∀ i, i < c.nTasks → c.run i ≠ .failStop) :
    s.result = .returned (seqMap c) := by
  cases hr : s.result with
  | raised =>
    obtain ⟨i, hi, hrun⟩ := raised_only_by_stop_task c s h hr
    exact absurd hrun (hno i hi)
  | returned outs =>
    rw [positional_results c s h hf outs hr]

/-- **Callbacks, safety (every reachable state, also when the execution is stopped):** the
    calls made so far are calls `(i, callable_i(inputs[i]))` of successful tasks, each at most
    once: the log can be completed into the expected multiset of calls. -/
theorem callbacks_at_most_once (c : Cfg α β) (s : State β) (h : Reachable c s) :
    ∃ missing, (s.cbLog ++ missing).Perm (seqCallbacks c) := by
  have hi := inv_reachable h
  refine ⟨(s.pending ++ tasksOf s.queueIn ++ busyOf s.workers ++ s.queueOut.map Prod.fst).filterMap
    (cbOf c), ?_⟩
  rw [hi.cbs]
  have hperm := (each_task_once c s h).filterMap (cbOf c)
  rw [List.filterMap_append] at hperm
  exact List.perm_append_comm.trans hperm

/-- **Callbacks exactly once with the matching index.**  When `execute` returns, the callback
    log is a permutation of `{(i, callable_i(inputs[i])) | task i succeeds}`. -/
theorem callbacks_exactly_once (c : Cfg α β) (s : State β) (h : Reachable c s)
    (hf : s.final = true) (hs : s.stop = false) : s.cbLog.Perm (seqCallbacks c) := by
  have hi := inv_reachable h
  rw [hi.cbs]
  exact (collected_perm_of_final c s h hf hs).filterMap _

/-- **Failure isolation.**  The slot of task `i` depends on task `i` only: two executions (any
    schedules, any worker counts, any other tasks, any failing subsets) in which task `i`
    behaves the same return the same value at position `i`. -/
theorem failure_isolated (c c' : Cfg α β) (s s' : State β) (h : Reachable c s) (h' : Reachable c' s')
    (hf : s.final = true) (hf' : s'.final = true) (outs outs' : List (Option β))
    (hr : s.result = .returned outs) (hr' : s'.result = .returned outs')
    (i : Nat) (hi : i < c.nTasks) (hi' : i < c'.nTasks) (hrun : c.run i = c'.run i) :
    outs[i]? = outs'[i]? := by
  rw [positional_results c s h hf outs hr, positional_results c' s' h' hf' outs' hr']
  simp [seqMap, hi, hi', hrun]

/-- **Schedule and worker-count independence** (parallel = sequential): two executions of
    the same tasks return the same list, whatever the schedules and the numbers of workers. -/
theorem schedule_independent (c c' : Cfg α β) (s s' : State β) (h : Reachable c s) (h' : Reachable c' s')
    (hin : c.inputs = c'.inputs) (hcal : c.callables = c'.callables)
    (hf : s.final = true) (hf' : s'.final = true) (outs outs' : List (Option β))
    (hr : s.result = .returned outs) (hr' : s'.result = .returned outs') : outs = outs' := by
  rw [positional_results c s h hf outs hr, positional_results c' s' h' hf' outs' hr']
  simp [seqMap, Cfg.nTasks, Cfg.run, Cfg.call, hin, hcal]

/-- With a single callable `f` the sequential map is `[f(x) for x in inputs]`. -/
theorem seqMap_single (inputs : List α) (f : α → Outcome β) (np : Nat) :
    seqMap ⟨inputs, [f], np⟩ = inputs.map (fun x => (f x).toOption) := by
  apply List.ext_getElem?
  intro i
  simp only [seqMap, Cfg.nTasks, Cfg.run, Cfg.call, List.getElem?_map]
  by_cases hi : i < inputs.length
  · simp [hi]
  · simp [hi]

/-- **No deadlock.**  Until `execute` has joined its workers some transition is enabled
    (given `n_processes ≥ 1`). -/
theorem no_deadlock (c : Cfg α β) (s : State β) (h : Reachable c s) (hp : 1 ≤ c.nProcs)
    (hf : s.final = false) : ∃ op s', step? c s op = some s' :=
  progress (inv_reachable h) hp hf

/-- **Termination.**  Every schedule has at most `4 n + w + 1` transitions (so the OS cannot
    schedule forever), and the bound is attained exactly at the end: each transition decreases
    the measure by one. -/
theorem schedule_length (c : Cfg α β) (ops : List Op) (s : State β)
    (h : run? c (init c) ops = some s) :
    mu s + ops.length = 4 * c.nTasks + min c.nTasks c.nProcs + 1 := by
  rw [← mu_init c]
  exact mu_run h

/-- Every partial schedule can be completed: from every reachable state some schedule reaches
    the end of `execute`.  Together with `schedule_length` and `no_deadlock`: every maximal
    schedule is finite and ends with all workers joined. -/
theorem always_completes (c : Cfg α β) (s : State β) (h : Reachable c s) (hp : 1 ≤ c.nProcs) :
    ∃ ops s', run? c s ops = some s' ∧ s'.final = true :=
  can_finish hp (mu s) s rfl (inv_reachable h)

/-- Existence (non-vacuity of all the theorems above): for every configuration with at least
    one worker there is a schedule that reaches the end of `execute`. -/
theorem exists_final (c : Cfg α β) (hp : 1 ≤ c.nProcs) :
    ∃ s, Reachable c s ∧ s.final = true := by
  obtain ⟨ops, s', h, hf⟩ := can_finish hp (mu (init c)) (init c) rfl (inv_init c)
  exact ⟨s', ⟨ops, h⟩, hf⟩

/-- **Parallel = sequential, end to end**: with at least one worker and no task raising a
    re-raised exception, a complete execution exists and *every* complete execution returns the
    sequential map and has called the callbacks exactly once per successful task. -/
theorem parallel_eq_sequential (c : Cfg α β) (hp : 1 ≤ c.nProcs)
    (hno : ∀ i, i < c.nTasks → c.run i ≠ .failStop) :
    (∃ s, Reachable c s ∧ s.final = true) ∧
    ∀ s, Reachable c s → s.final = true →
      s.result = .returned (seqMap c) ∧ s.cbLog.Perm (seqCallbacks c) := by
  refine ⟨exists_final c hp, ?_⟩
  intro s h hf
  have hr := returns_seqMap_of_no_stop_task c s h hf hno
  refine ⟨hr, callbacks_exactly_once c s h hf ?_⟩
  cases hst : s.stop with
  | false => rfl
  | true =>
    have := (raised_iff_stop c s h).mpr hst
    rw [hr] at this
    cases this

/-! ### Successive `execute()` calls on one executor object -/

/-- **What a joined call leaves behind.**  When `execute` has joined its workers, `queue_in` is
    empty and no worker holds a task; every task is either retrieved or still sits, *unread*, in
    `queue_out` — and the latter happens only when a re-raised exception stopped the collector.
    (This is exactly what a next call would inherit if the queues were kept on the executor.) -/
theorem joined_call_leftovers (c : Cfg α β) (s : State β) (h : Reachable c s) (hp : 1 ≤ c.nProcs)
    (hf : s.final = true) :
    s.pending = [] ∧ s.queueIn = [] ∧ busyOf s.workers = [] ∧
    (s.queueOut.map Prod.fst ++ s.collected).Perm (List.range c.nTasks) ∧
    (s.stop = false → s.queueOut = []) := by
  have hi := inv_reachable h
  have hq := qinv_reachable h
  simp only [State.final, Bool.and_eq_true] at hf
  obtain ⟨hsent, hall⟩ := hf
  have hpend := (hi.sent_ok hsent).2
  have hbusy := busyOf_eq_nil_of_all_exited _ hall
  have hex := (all_exited_iff _).mp hall
  have hsen := hi.sentinels
  simp only [hsent, if_true] at hsen
  have hnone : nNone s.queueIn = 0 := by omega
  have htasks : tasksOf s.queueIn = [] := by
    by_cases hw : 0 < s.workers.length
    · exact hq.drained (by omega)
    · have hlen := hi.len
      have hwl := hi.wlen
      have : c.nTasks = 0 := by omega
      apply List.eq_nil_of_length_eq_zero
      omega
  have hqin : s.queueIn = [] := by
    obtain ⟨ts, k, hshape⟩ := hq.shape
    rw [hshape, tasksOf_append, tasksOf_map_some, tasksOf_replicate_none, List.append_nil] at htasks
    rw [hshape, nNone_append, nNone_replicate_none] at hnone
    subst htasks
    have : k = 0 := by omega
    subst this
    simpa using hshape
  refine ⟨hpend, hqin, hbusy, ?_, ?_⟩
  · have := each_task_once c s h
    simpa [hpend, htasks, hbusy] using this
  · intro hs
    have hperm := collected_perm_of_final c s h (by simp [State.final, hsent, hall]) hs
    have hlen := hi.len
    have : s.collected.length = c.nTasks := by simpa using hperm.length_eq
    apply List.eq_nil_of_length_eq_zero
    omega

/-- **A later call is positional, whatever happened before.**  Take any history of the executor
    (`s` reachable by any session schedule: earlier calls with any inputs, any schedules, returned
    or stopped by a re-raised exception with results left unread), call `execute(xs)` again, run
    *any* schedule `ops` of the pool: if the call returns, it returns the sequential map of `xs`
    — slot `i` holds `callable_i(xs[i])` — and the callbacks were called exactly once per
    successful task of `xs` with the matching index. -/
theorem execute_again_positional (c0 : Cfg α β) (s s1 s2 : Sess α β) (h : SReachable c0 s)
    (xs : List α) (hcall : sstep? s (.call xs) = some s1)
    (ops : List Op) (hrun : srun? s1 (ops.map SOp.op) = some s2)
    (hf : s2.st.final = true) (outs : List (Option β)) (hr : s2.st.result = .returned outs) :
    outs = seqMap ⟨xs, c0.callables, c0.nProcs⟩ ∧
    s2.st.cbLog.Perm (seqCallbacks ⟨xs, c0.callables, c0.nProcs⟩) := by
  have hi := sinv_reachable h
  have hi1 := sinv_step hi hcall
  obtain ⟨hcfg, _, hrun'⟩ := srun_ops hrun
  have hc1 : s1.cfg = ⟨xs, c0.callables, c0.nProcs⟩ := by
    simp only [sstep?] at hcall
    split at hcall
    · cases hcall
      simp [← hi.callables, ← hi.nProcs]
    · cases hcall
  have hst1 : s1.st = init s1.cfg := by
    simp only [sstep?] at hcall
    split at hcall
    · cases hcall; rfl
    · cases hcall
  have hreach : Reachable (⟨xs, c0.callables, c0.nProcs⟩ : Cfg α β) s2.st := by
    rw [← hc1]
    exact ⟨ops, by rw [← hst1]; exact hrun'⟩
  have hpos := positional_results _ _ hreach hf outs hr
  refine ⟨hpos, callbacks_exactly_once _ _ hreach hf ?_⟩
  cases hst : s2.st.stop with
  | false => rfl
  | true =>
    have := (raised_iff_stop _ _ hreach).mpr hst
    rw [hr] at this
    cases this

/-- **Every call of a history is positional**: in any reachable session, the current call (once
    joined) and every earlier call that returned, returned the sequential map of *its own*
    inputs with the executor's callables; an earlier call that did not return re-raised an
    exception of one of its own tasks. -/
theorem every_call_positional (c0 : Cfg α β) (s : Sess α β) (h : SReachable c0 s) :
    (s.cfg.callables = c0.callables ∧ s.cfg.nProcs = c0.nProcs ∧
      ∀ outs, s.st.final = true → s.st.result = .returned outs → outs = seqMap s.cfg) ∧
    ∀ p ∈ s.past, p.1.callables = c0.callables ∧ p.1.nProcs = c0.nProcs ∧ p.2.final = true ∧
      (∀ outs, p.2.result = .returned outs → outs = seqMap p.1) ∧
      (p.2.result = .raised → ∃ i, i < p.1.nTasks ∧ p.1.run i = .failStop) := by
  have hi := sinv_reachable h
  refine ⟨⟨hi.callables, hi.nProcs, fun outs hf hr => positional_results _ _ hi.cur hf outs hr⟩, ?_⟩
  intro p hp
  obtain ⟨hre, hfin, hc, hn⟩ := hi.past p hp
  exact ⟨hc, hn, hfin, fun outs hr => positional_results _ _ hre hfin outs hr,
    fun hr => raised_only_by_stop_task _ _ hre hr⟩

/-- Non-vacuity: a first call stopped by a re-raised exception of task 0 while the results of
    tasks 1 and 2 are left unread in `queue_out`, then a second call on other inputs. -/
def exSession : List (SOp Nat) :=
  [.op .submit, .op .submit, .op .submit, .op (.take 0), .op (.finish 0), .op .collect, .op .shutdown,
   .op (.take 0), .op (.finish 0), .op (.take 0), .op (.finish 0), .op (.take 0),
   .call [5, 6],
   .op .submit, .op .submit, .op (.take 0), .op (.finish 0), .op .collect, .op (.take 0), .op (.finish 0),
   .op .collect, .op .shutdown, .op (.take 0)]

def exCfgStop0 : Cfg Nat Nat :=
  ⟨[10, 20, 30], [fun x => if x = 10 then .failStop else .ok (2 * x + 1)], 1⟩

example : (srun? (sinit exCfgStop0) exSession).map
      (fun (s : Sess Nat Nat) => (s.st.final, s.st.result, s.st.cbLog))
    = some (true, .returned [some 11, some 13], [(0, 11), (1, 13)]) := by decide

/-- ... and the first call of this history had re-raised, leaving the results of tasks 1, 2 unread. -/
example : (srun? (sinit exCfgStop0) exSession).map
      (fun (s : Sess Nat Nat) => s.past.map (fun (p : Cfg Nat Nat × State Nat) =>
        (decide (p.2.result = Result.raised), p.2.queueOut.map Prod.fst)))
    = some [(true, [1, 2])] := by decide

example : ∃ s, SReachable exCfgStop0 s ∧ s.st.final = true ∧ s.past.length = 1 :=
  ⟨_, ⟨exSession, rfl⟩, by decide, by decide⟩

/-- Contrast (what the model — and the code — must *not* do): if the next call started on the
    queues of the previous one (`nextCallReusingQueues`), the same schedule would hand the unread
    results of the first call to the second: slots and callbacks of the wrong inputs. -/
example :
    let prev : State Nat := { init exCfgStop0 with queueOut := [(1, .ok 41), (2, .ok 61)] }
    let c' : Cfg Nat Nat := { exCfgStop0 with inputs := [5, 6] }
    (run? c' (nextCallReusingQueues prev c') [.submit, .submit, .collect, .collect]).map
        (fun s => (s.ordered, s.cbLog, s.nOutputs))
      = some ([none, some 41], [(1, 41), (2, 61)], 2) := by decide

/-! ### `DiscParallelLinearization`: the returned Jacobians are positional -/

/-- The list of Jacobians has one slot per input, slot `i` holds the Jacobian of task `i`
    (`None` exactly where the task failed): a failed discipline does not shift the others. -/
theorem linearization_positional {γ : Type} (jacOf : β → γ) (ordered : List (Option β)) :
    (linearizationReturn jacOf ordered).length = ordered.length ∧
    ∀ i : Nat, (linearizationReturn jacOf ordered)[i]? = (ordered[i]?).map (fun (o : Option β) => o.map jacOf) := by
  simp [linearizationReturn]

/-- Composition with the pool: for every schedule, the Jacobian list of a complete parallel
    linearization is the sequential one. -/
theorem parallel_linearization_eq_sequential {γ : Type} (jacOf : β → γ) (c : Cfg α β) (s : State β)
    (h : Reachable c s) (hf : s.final = true) (outs : List (Option β))
    (hr : s.result = .returned outs) :
    linearizationReturn jacOf outs = (seqMap c).map (fun o => o.map jacOf) := by
  rw [positional_results c s h hf outs hr, linearizationReturn]

/-! ### DOE layer -/

section DOE

variable {κ ν : Type} [DecidableEq κ]

/-- Both the parallel DOE (pre-seeding, store callbacks in *any* completion order, clean-up)
    and the sequential DOE end with the canonical database: the successful samples in sample
    order (first occurrence), each with its own values. -/
theorem doe_canonical (eval : κ → Option ν) (samples : List κ) (cbs : List Nat)
    (hcover : ∀ i (h : i < samples.length), (eval samples[i]).isSome → i ∈ cbs) :
    doeParallel eval samples cbs = canon eval (addKeys [] samples) ∧
    doeSequential eval [] samples = canon eval (addKeys [] samples) := by
  constructor
  · unfold doeParallel
    have hpre : doePreseed ([] : Db κ ν) samples = part eval [] (addKeys [] samples) := by
      have h0 : (blank [] : Db κ ν) = [] := rfl
      have := doePreseed_blank (ν := ν) [] samples
      rw [h0] at this
      rw [this, blank_eq_part eval]
    have hn : (addKeys ([] : List κ) samples).Nodup := nodup_addKeys List.nodup_nil samples
    have hs : ∀ x ∈ samples, x ∈ addKeys [] samples := fun x hx => mem_addKeys.mpr (Or.inr hx)
    obtain ⟨D', h1, h2⟩ := doeCallbacks_part eval samples _ hn hs [] cbs
    rw [hpre, h1]
    apply removeEmpty_part
    intro k hk hsome
    have hk' : k ∈ samples := by
      rcases mem_addKeys.mp hk with h | h
      · simp at h
      · exact h
    obtain ⟨i, hi, rfl⟩ := List.getElem_of_mem hk'
    exact (h2 _).mpr (Or.inr ⟨i, hcover i hi hsome, by simp [hi]⟩)
  · have := doeSequential_canon eval [] List.nodup_nil samples
    simpa [canon] using this

/-- **Parallel DOE = sequential DOE** for every completion order `cbs` that contains every
    successful sample index (failing samples included, repeated samples included): same points,
    same order, same values. -/
theorem parallel_doe_eq_sequential (eval : κ → Option ν) (samples : List κ) (cbs : List Nat)
    (hcover : ∀ i (h : i < samples.length), (eval samples[i]).isSome → i ∈ cbs) :
    doeParallel eval samples cbs = doeSequential eval [] samples := by
  obtain ⟨h1, h2⟩ := doe_canonical eval samples cbs hcover
  rw [h1, h2]

/-- The task callable of a DOE: evaluate the sample, a raising evaluation is a swallowed failure. -/
def doeCallable (eval : κ → Option ν) : κ → Outcome ν :=
  fun x => match eval x with
    | some v => .ok v
    | none => .fail

/-- **End to end, for every schedule of the worker pool and every worker count**: the database
    built from the callbacks of any complete parallel execution is the sequential database. -/
theorem parallel_doe_eq_sequential_any_schedule (eval : κ → Option ν) (samples : List κ) (np : Nat)
    (s : State ν) (h : Reachable ⟨samples, [doeCallable eval], np⟩ s) (hf : s.final = true) :
    doeParallel eval samples (s.cbLog.map Prod.fst) = doeSequential eval [] samples := by
  let c : Cfg κ ν := ⟨samples, [doeCallable eval], np⟩
  have hrun : ∀ i (hi : i < samples.length), c.run i = doeCallable eval samples[i] := by
    intro i hi
    simp [c, Cfg.run, Cfg.call, hi]
  have hno : ∀ i, i < c.nTasks → c.run i ≠ .failStop := by
    intro i hi
    rw [hrun i hi]
    unfold doeCallable
    cases eval samples[i] <;> simp
  have hst : s.stop = false := by
    cases hs : s.stop with
    | false => rfl
    | true =>
      have hr := (raised_iff_stop c s h).mpr hs
      obtain ⟨i, hi, hrun'⟩ := raised_only_by_stop_task c s h hr
      exact absurd hrun' (hno i hi)
  have hperm := callbacks_exactly_once c s h hf hst
  apply parallel_doe_eq_sequential
  intro i hi hsome
  obtain ⟨v, hv⟩ := Option.isSome_iff_exists.mp hsome
  have hmem : (i, v) ∈ seqCallbacks c := by
    simp only [seqCallbacks, List.mem_filterMap, List.mem_range]
    refine ⟨i, hi, ?_⟩
    rw [hrun i hi]
    simp [doeCallable, hv, Outcome.toOption]
  have := hperm.mem_iff.mpr hmem
  exact List.mem_map.mpr ⟨(i, v), this, rfl⟩

example : doeParallel (fun x : Nat => if x = 2 then none else some (10 * x)) [1, 2, 3, 1] [3, 2, 0]
    = [(1, some 10), (3, some 30)] := by decide

example : doeSequential (fun x : Nat => if x = 2 then none else some (10 * x)) [] [1, 2, 3, 1]
    = [(1, some 10), (3, some 30)] := by decide

/-! ### Shared full cache -/

/-- **Look-ups are transparent**: after any sequence of atomic `cache_outputs(x, f x)` calls on
    an empty cache, looking up `y` gives `f y` exactly when `y` was written. -/
theorem cache_transparent (f : κ → ν) (xs : List κ) (y : κ) :
    cacheLookup (cacheWrites f [] xs) y = if y ∈ xs then some (f y) else none := by
  rw [cacheLookup_cacheWrites]
  simp [cacheLookup_nil]

/-- **Linearisable**: any two interleavings (permutations) of the same atomic writes, starting
    from the same cache, answer every look-up identically, and store the same set of inputs
    once each. -/
theorem shared_cache_linearisable (f : κ → ν) (cch : Cache κ ν) (xs ys : List κ) (hp : xs.Perm ys) :
    (∀ y, cacheLookup (cacheWrites f cch xs) y = cacheLookup (cacheWrites f cch ys) y) ∧
    (∀ y, y ∈ (cacheWrites f cch xs).map Prod.fst ↔ y ∈ (cacheWrites f cch ys).map Prod.fst) := by
  constructor
  · intro y
    rw [cacheLookup_cacheWrites, cacheLookup_cacheWrites]
    cases cacheLookup cch y with
    | some w => rfl
    | none => simp [hp.mem_iff]
  · intro y
    rw [keys_cacheWrites, keys_cacheWrites, mem_addKeys, mem_addKeys, hp.mem_iff]

/-- One entry per distinct input. -/
theorem cache_entries_nodup (f : κ → ν) (xs : List κ) :
    ((cacheWrites f [] xs).map Prod.fst).Nodup ∧
    ∀ y, y ∈ (cacheWrites f [] xs).map Prod.fst ↔ y ∈ xs := by
  rw [keys_cacheWrites]
  refine ⟨nodup_addKeys List.nodup_nil xs, ?_⟩
  intro y
  rw [mem_addKeys]
  simp

example : cacheWrites (fun x : Nat => 2 * x) [] [3, 1, 3, 2] = [(3, 6), (1, 2), (2, 4)] := by decide

end DOE

/-! ### Shared full cache with outputs and Jacobians (`cache_outputs` / `cache_jacobian`) -/

section JCACHE

variable {κ ν γ : Type} [DecidableEq κ]

/-- **Exact content after any interleaving.**  Workers sharing one full cache perform atomic
    writes `cache_outputs(x, f x)` and `cache_jacobian(x, g x)` in *any* order `ops` (any number of
    workers, repeated inputs, a Jacobian cached before/after/without the outputs): looking up `y`
    afterwards gives the outputs `f y` iff some worker cached outputs for `y`, the Jacobian `g y`
    iff some worker cached a Jacobian for `y` — never data of another input. -/
theorem shared_cache_jacobian_lookup (f : κ → ν) (g : κ → γ) (ops : List (COp κ)) (y : κ) :
    jLookup (jRun f g JCache.empty ops).entries y = jSpec f g ops y := by
  have := jSpec_run f g JCache.empty [] ops (by intro y; simp [JCache.empty, jLookup_nil, jSpec]) y
  simpa using this

/-- **Every entry of the shared cache is sound**: one entry per input, and in each entry the
    outputs (if any) are the outputs *of that entry's input* and the Jacobian (if any) is the
    Jacobian *of that entry's input* — for every interleaving of the workers' writes. -/
theorem shared_cache_entries_sound (f : κ → ν) (g : κ → γ) (ops : List (COp κ)) :
    ((jRun f g JCache.empty ops).entries.map (·.key)).Nodup ∧
    ∀ e ∈ (jRun f g JCache.empty ops).entries,
      (e.out = none ∨ e.out = some (f e.key)) ∧ (e.jac = none ∨ e.jac = some (g e.key)) ∧
      (e.out.isSome ↔ COp.out e.key ∈ ops) ∧ (e.jac.isSome ↔ COp.jac e.key ∈ ops) := by
  have hn := nodup_keys_jRun f g JCache.empty ops (by simp [JCache.empty])
  refine ⟨hn, ?_⟩
  intro e he
  have hl := mem_lookup_of_nodup hn he
  rw [shared_cache_jacobian_lookup] at hl
  simp only [jSpec] at hl
  split at hl
  · have he' := (Option.some.inj hl).symm
    have ho : e.out = if COp.out e.key ∈ ops then some (f e.key) else none := by rw [he']
    have hj : e.jac = if COp.jac e.key ∈ ops then some (g e.key) else none := by rw [he']
    by_cases h1 : COp.out e.key ∈ ops <;> by_cases h2 : COp.jac e.key ∈ ops <;> simp [ho, hj, h1, h2]
  · cases hl

/-- **Linearisable**: two interleavings of the same atomic writes answer every look-up
    identically — in particular the interleaving `exec₁, exec₂, lin₁, lin₂` gives what the
    sequential order `exec₁, lin₁, exec₂, lin₂` gives. -/
theorem shared_cache_linearisable_jac (f : κ → ν) (g : κ → γ) (ops ops' : List (COp κ))
    (hp : ops.Perm ops') (y : κ) :
    jLookup (jRun f g JCache.empty ops).entries y = jLookup (jRun f g JCache.empty ops').entries y := by
  rw [shared_cache_jacobian_lookup, shared_cache_jacobian_lookup]
  simp [jSpec, hp.mem_iff]

/-- **Transparent**: when each worker executes then linearizes its own input (inputs `xs`), in
    any interleaving, a look-up at `y` gives exactly `f y` and `g y` if `y` is one of the inputs
    and nothing otherwise — what the sequential uncached computation gives. -/
theorem cache_transparent_jac (f : κ → ν) (g : κ → γ) (xs : List κ) (ops : List (COp κ))
    (hout : ∀ x, COp.out x ∈ ops ↔ x ∈ xs) (hjac : ∀ x, COp.jac x ∈ ops ↔ x ∈ xs) (y : κ) :
    jLookup (jRun f g JCache.empty ops).entries y =
      if y ∈ xs then some { key := y, out := some (f y), jac := some (g y) } else none := by
  rw [shared_cache_jacobian_lookup]
  simp only [jSpec, hout, hjac]
  by_cases hy : y ∈ xs <;> simp [hy]

/-- The mechanism: after an atomic write for `x`, `_last_accessed_index` designates the entry
    of `x` (this is what places the next group at the right entry). -/
theorem last_accessed_is_written (f : κ → ν) (g : κ → γ) (c : JCache κ ν γ) (op : COp κ) :
    ((jApply f g c op).entries[(jApply f g c op).last - 1]?).map (·.key) = some op.key := by
  cases op with
  | out x => exact last_jCacheOutputs c x (f x)
  | jac x => exact last_jCacheJacobian c x (g x)

/-- Non-vacuity: the interleaving `exec 1, exec 2, lin 1, lin 2` (outputs `10 x`, Jacobian `100 x`). -/
example : (jRun (fun x : Nat => 10 * x) (fun x : Nat => 100 * x) JCache.empty
      [.out 1, .out 2, .jac 1, .jac 2]).entries
    = [⟨1, some 10, some 100⟩, ⟨2, some 20, some 200⟩] := by decide

/-- Contrast: if `_last_accessed_index` were not moved when the input data is already cached
    (`jEnsureNoTouch`), the same interleaving would put the Jacobian of input 1 into the entry of
    input 2 and drop the Jacobian of input 2. -/
example :
    (jCacheJacobianNoTouch (jCacheJacobianNoTouch (jCacheOutputsNoTouch (jCacheOutputsNoTouch
        (JCache.empty : JCache Nat Nat Nat) 1 10) 2 20) 1 100) 2 200).entries
    = [⟨1, some 10, none⟩, ⟨2, some 20, some 100⟩] := by decide

end JCACHE

/-! ### Tasks with effects on the objects they run on (`DiscParallelExecution`,
`DiscParallelLinearization`, `MDOParallelChain`) -/

section EFFECTS

variable {σ : Type}

/-- **Effects are invisible.**  Tasks that read and write objects (`body i : σ → Outcome β × σ`, run on
    the object `obj worker task` of a memory) behave — for *every* schedule, every worker count, every
    assignment of objects to (worker, task) pairs — exactly like the pure tasks `out`, provided that
    (`hinit`) every task finds an object that is `Ok` for it, (`hout`) on such an object it gives its
    pure outcome, and (`hpres`) what a task leaves on an object is still `Ok` for the *other* tasks
    that may run on that object.  The two ways of breaking the property — an object status left by a
    failed task that makes the next task fail, an input array shared by a writer and a reader — are
    exactly failures of `hpres`. -/
theorem effects_invisible (ec : ECfg σ β) (out : Nat → Outcome β) (Ok : Nat → σ → Prop) (mem0 : List σ)
    (hinit : ∀ w i, i < ec.nTasks → ∃ o, mem0[ec.obj w i]? = some o ∧ Ok i o)
    (hout : ∀ i o, Ok i o → (ec.body i o).1 = out i)
    (hpres : ∀ k i o w w', i ≠ k → ec.obj w' i = ec.obj w k → Ok k o → Ok i o → Ok i (ec.body k o).2)
    (ops : List Op) (s : EState σ β) (h : erun? ec (einit ec mem0) ops = some s) :
    run? (ec.pure out) (init (ec.pure out)) ops = some s.pool := by
  have h0 : (einit ec mem0).pool = init (ec.pure out) := by
    simp [einit, init, pure_nTasks, pure_nProcs]
  have := (erun_sim hout hpres (einit_inv_of ec out Ok mem0 hinit) h).1
  rwa [h0] at this

/-- Consequently every complete execution returns the sequential map of the pure outcomes, with the
    callbacks called exactly once per successful task with the matching index. -/
theorem effectful_parallel_eq_sequential (ec : ECfg σ β) (out : Nat → Outcome β) (Ok : Nat → σ → Prop)
    (mem0 : List σ)
    (hinit : ∀ w i, i < ec.nTasks → ∃ o, mem0[ec.obj w i]? = some o ∧ Ok i o)
    (hout : ∀ i o, Ok i o → (ec.body i o).1 = out i)
    (hpres : ∀ k i o w w', i ≠ k → ec.obj w' i = ec.obj w k → Ok k o → Ok i o → Ok i (ec.body k o).2)
    (ops : List Op) (s : EState σ β) (h : erun? ec (einit ec mem0) ops = some s)
    (hf : s.pool.final = true) (outs : List (Option β)) (hr : s.pool.result = .returned outs) :
    outs = (List.range ec.nTasks).map (fun i => (out i).toOption) ∧
    s.pool.cbLog.Perm ((List.range ec.nTasks).filterMap (fun i => (out i).toOption.map (fun v => (i, v)))) := by
  have hreach : Reachable (ec.pure out) s.pool := ⟨ops, effects_invisible ec out Ok mem0 hinit hout hpres ops s h⟩
  have hpos := positional_results _ _ hreach hf outs hr
  have hst : s.pool.stop = false := by
    cases hs : s.pool.stop with
    | false => rfl
    | true =>
      have := (raised_iff_stop _ _ hreach).mpr hs
      rw [hr] at this
      cases this
  have hcb := callbacks_exactly_once _ _ hreach hf hst
  constructor
  · rw [hpos, seqMap, pure_nTasks]
    apply List.map_congr_left
    intro i hi
    rw [pure_run ec out i (List.mem_range.mp hi)]
  · have : seqCallbacks (ec.pure out) =
        (List.range ec.nTasks).filterMap (fun i => (out i).toOption.map (fun v => (i, v))) := by
      rw [seqCallbacks, pure_nTasks]
      apply filterMap_congr_mem
      intro i hi
      rw [pure_run ec out i (List.mem_range.mp hi)]
    rwa [this] at hcb

/-- What task `i` of a list of discipline tasks gives on the reference object `ref`. -/
def discOut (tasks : List (Nat × DiscCall)) (ref : ObjSt) (i : Nat) : Outcome Rat :=
  match tasks[i]? with
  | some t => (discCall t.2 ref).1
  | none => .fail

theorem range_map_discOut (tasks : List (Nat × DiscCall)) (ref : ObjSt) :
    (List.range tasks.length).map (fun i => (discOut tasks ref i).toOption) =
      tasks.map (fun t => (discCall t.2 ref).1.toOption) := by
  apply List.ext_getElem
  · simp
  · intro i h1 h2
    simp only [List.length_map, List.length_range] at h1
    simp [discOut, h1]

/-- **A failure affects only its own slot, whatever the objects went through.**
    `DiscParallelExecution` / `DiscParallelLinearization` (`execute=True` or `False`): the tasks bring
    their own inputs and run on discipline objects — any assignment of objects to (worker, task) pairs
    (one discipline per task, one discipline for all the tasks, private copies of forked workers), any
    initial memory `mem0`, i.e. **any execution status left by earlier tasks or earlier calls**, tasks
    raising in `_run` or in `_compute_jacobian`, any number of workers, any schedule.  The call returns
    slot by slot what each task gives alone on a fresh discipline, `None` exactly for the tasks that
    raise.  (The mechanism is `_reset_failed_status` at the beginning of *both* functors.) -/
theorem functor_failure_isolated (threaded : Bool) (nObj nProcs : Nat) (tasks : List (Nat × DiscCall))
    (hown : ∀ t ∈ tasks, t.2.own.isSome = true) (mem0 : List ObjSt)
    (hmem : ∀ w i, i < tasks.length → (discECfg threaded nObj nProcs tasks).obj w i < mem0.length)
    (ops : List Op) (s : EState ObjSt Rat)
    (h : erun? (discECfg threaded nObj nProcs tasks) (einit (discECfg threaded nObj nProcs tasks) mem0) ops = some s)
    (hf : s.pool.final = true) (outs : List (Option Rat)) (hr : s.pool.result = .returned outs) :
    outs = tasks.map (fun t => (discCall t.2 ⟨0, false, true⟩).1.toOption) := by
  let ref : ObjSt := ⟨0, false, true⟩
  have hn : (discECfg threaded nObj nProcs tasks).nTasks = tasks.length := rfl
  have := (effectful_parallel_eq_sequential (discECfg threaded nObj nProcs tasks) (discOut tasks ref)
    (fun _ _ => True) mem0
    (by
      intro w i hi
      have hl := hmem w i (by rwa [hn] at hi)
      exact ⟨mem0[(discECfg threaded nObj nProcs tasks).obj w i], by simp [hl], trivial⟩)
    (by
      intro i o _
      simp only [discECfg, discOut]
      cases ht : tasks[i]? with
      | none => rfl
      | some t =>
        simp only
        exact discCall_own_blind t.2 (hown t (List.mem_of_getElem? ht)) o ref)
    (by intros; trivial)
    ops s h hf outs hr).1
  rw [this, hn, range_map_discOut]

/-- **A parallel chain whose disciplines work in place.**  Threads, task `i` runs on object `i`: its
    own discipline holding its **own** array, every array starting with the value `x0` of the chain
    input (`use_deep_copy=True`: `wr = true`, private writable copies; `use_deep_copy=False`:
    `wr = false`, arrays nobody can write).  Any execution statuses to start with, disciplines
    reading or scaling their array in place, any number of workers, any schedule: every discipline
    gives what it gives **alone on the chain input** — no discipline sees the in-place work of
    another one, so the chain produces the data of the sequential execution. -/
theorem chain_private_copies_independent (nObj nProcs : Nat) (tasks : List (Nat × DiscCall)) (x0 : Rat)
    (wr : Bool) (mem0 : List ObjSt)
    (hobj : ∀ i (t : Nat × DiscCall), tasks[i]? = some t → t.1 = i)
    (hmem : ∀ i, i < tasks.length → ∃ f, mem0[i]? = some ⟨x0, f, wr⟩)
    (ops : List Op) (s : EState ObjSt Rat)
    (h : erun? (discECfg true nObj nProcs tasks) (einit (discECfg true nObj nProcs tasks) mem0) ops = some s)
    (hf : s.pool.final = true) (outs : List (Option Rat)) (hr : s.pool.result = .returned outs) :
    outs = tasks.map (fun t => (discCall t.2 ⟨x0, false, wr⟩).1.toOption) := by
  let ref : ObjSt := ⟨x0, false, wr⟩
  have hn : (discECfg true nObj nProcs tasks).nTasks = tasks.length := rfl
  have hobjOf : ∀ w i, i < tasks.length → (discECfg true nObj nProcs tasks).obj w i = i := by
    intro w i hi
    have : tasks[i]? = some tasks[i] := by simp [hi]
    simp [discECfg, this, hobj i tasks[i] this]
  have := (effectful_parallel_eq_sequential (discECfg true nObj nProcs tasks) (discOut tasks ref)
    (fun i o => i < tasks.length → o.val = x0 ∧ o.writable = wr) mem0
    (by
      intro w i hi
      rw [hn] at hi
      obtain ⟨f, hf'⟩ := hmem i hi
      exact ⟨⟨x0, f, wr⟩, by rw [hobjOf w i hi]; exact hf', fun _ => ⟨rfl, rfl⟩⟩)
    (by
      intro i o hok
      simp only [discECfg, discOut]
      cases ht : tasks[i]? with
      | none => rfl
      | some t =>
        simp only
        have hi : i < tasks.length := by
          rcases Nat.lt_or_ge i tasks.length with hl | hl
          · exact hl
          · simp [List.getElem?_eq_none hl] at ht
        obtain ⟨hv, hw⟩ := hok hi
        exact discCall_cell t.2 o ref hv hw)
    (by
      intro k i o w w' hik hsame hokk hoki hi
      by_cases hk : k < tasks.length
      · rw [hobjOf w' i hi, hobjOf w k hk] at hsame
        exact absurd hsame hik
      · have : tasks[k]? = none := List.getElem?_eq_none (Nat.le_of_not_lt hk)
        simp only [discECfg, this]
        exact hoki hi)
    ops s h hf outs hr).1
  rw [this, hn, range_map_discOut]

/-- The greedy one-worker schedule of `n` tasks (submit all, run them in order, collect, join). -/
def greedySchedule (n : Nat) : List Op :=
  List.replicate n Op.submit ++ greedyOps n ++ [Op.shutdown, Op.take 0]

/-- Two readers and, between them, a discipline scaling its input in place by 2 (outputs `3x+1`,
    `5x`, `7x+2`), chain input `3`. -/
def exChainTasks : List (Nat × DiscCall) :=
  [(0, ⟨.exec, none, none, 3, 1, .none, false⟩), (1, ⟨.exec, none, some 2, 5, 0, .none, false⟩),
   (2, ⟨.exec, none, none, 7, 2, .none, false⟩)]

/-- Non-vacuity: with one private copy per discipline the writer running first or last changes nothing
    (`10, 30, 23` = each discipline alone on `x = 3`), and only the writer's own copy is overwritten. -/
example :
    let ec := discECfg true 3 2 exChainTasks
    let mem0 : List ObjSt := [⟨3, false, true⟩, ⟨3, true, true⟩, ⟨3, false, true⟩]
    (erun? ec (einit ec mem0)
      [.submit, .submit, .submit, .take 0, .take 1, .finish 1, .take 1, .finish 1, .finish 0,
       .collect, .collect, .collect, .shutdown, .take 0, .take 1]).map
        (fun s => (s.pool.final, s.pool.result, s.mem.map (·.val)))
      = some (true, .returned [some 10, some 30, some 23], [3, 6, 3]) := by decide +kernel

example : exChainTasks.map (fun t => (discCall t.2 ⟨3, false, true⟩).1.toOption) = [some 10, some 30, some 23] := by
  decide +kernel

/-- Contrast (what the model — and the code — must *not* do): ONE deep copy handed to every discipline
    (all the tasks on object 0).  With the writer before the last reader the reader computes `7·6+2`
    instead of `23`: the result of a slot depends on which other task ran before. -/
example :
    let shared : List (Nat × DiscCall) := exChainTasks.map (fun t => (0, t.2))
    let ec := discECfg true 1 1 shared
    (erun? ec (einit ec [⟨3, false, true⟩]) (greedySchedule 3)).map (fun s => (s.pool.final, s.pool.result))
      = some (true, .returned [some 10, some 30, some 44]) := by decide +kernel

/-- One discipline object, `DiscParallelLinearization(execute=False)`, three inputs, the linearization of
    the first one raises in `_compute_jacobian`. -/
def exLinTasks : List (Nat × DiscCall) :=
  [(0, ⟨.linNoExec, some 1, none, 4, 0, .jac, false⟩), (0, ⟨.linNoExec, some 2, none, 4, 0, .none, false⟩),
   (0, ⟨.linNoExec, some 5, none, 4, 0, .none, false⟩)]

/-- Non-vacuity: one forked worker, the object already `FAILED` to start with (left by an earlier call):
    the failing task affects its own slot only, the object ends `DONE`. -/
example :
    let ec := discECfg false 1 1 exLinTasks
    (erun? ec (einit ec (discMem false [⟨0, true, true⟩] 3 1)) (greedySchedule 3)).map
        (fun s => (s.pool.final, s.pool.result, s.mem.map (·.failed)))
      = some (true, .returned [none, some 4, some 4], [false]) := by decide +kernel

/-- Contrast: if the status were reset only when the linearization starts by an execution
    (`discCallResetIfExecuting`), every task taken by the worker after the failing one would fail too. -/
example :
    let ec : ECfg ObjSt Rat := { discECfg false 1 1 exLinTasks with
      body := fun i o => match exLinTasks[i]? with
        | some t => discCallResetIfExecuting t.2 o
        | none => (.fail, o) }
    (erun? ec (einit ec [⟨0, false, true⟩]) (greedySchedule 3)).map
        (fun s => (s.pool.final, s.pool.result, s.mem.map (·.failed)))
      = some (true, .returned [none, none, none], [true]) := by decide +kernel

end EFFECTS

/-! ### Non-vacuity: a concrete out-of-order schedule with a failing task -/

/-- Three tasks, two workers, task 1 raises; completion order 1, 2, 0. -/
def exCfg : Cfg Nat Nat :=
  ⟨[10, 20, 30], [fun x => if x = 20 then .fail else .ok (2 * x + 1)], 2⟩

def exOps : List Op :=
  [.submit, .submit, .submit, .take 0, .take 1, .finish 1, .collect, .take 1, .finish 1, .finish 0,
   .collect, .collect, .shutdown, .take 0, .take 1]

example : (run? exCfg (init exCfg) exOps).map (fun s => (s.final, s.result, s.cbLog, s.collected))
    = some (true, .returned [some 21, none, some 61], [(2, 61), (0, 21)], [1, 2, 0]) := by decide

example : ∃ s, Reachable exCfg s ∧ s.final = true ∧ s.result = .returned [some 21, none, some 61] :=
  ⟨_, ⟨exOps, rfl⟩, by decide, by decide⟩

/-- A re-raised exception: the execution stops, later results are not retrieved. -/
def exCfgStop : Cfg Nat Nat :=
  ⟨[10, 20, 30], [fun x => if x = 20 then .failStop else .ok (2 * x + 1)], 2⟩

example : (run? exCfgStop (init exCfgStop)
    [.submit, .submit, .submit, .take 0, .take 1, .finish 1, .collect, .shutdown, .take 1, .finish 1,
     .finish 0, .take 0, .take 1]).map (fun s => (s.final, s.result, s.cbLog))
    = some (true, .raised, []) := by decide

/-! ### Sequential counterparts: gradient approximators with keyword arguments, chain Jacobians -/

section SEQ

variable {κ ξ ν ρ : Type}

/-- **A parallel call evaluates the function with the keyword arguments of THIS call**, whatever the object held
    before (any earlier calls), for every worker count ≥ 1 and **every complete schedule** of the pool: the list
    handed back to the approximator is `[f(p, **kw) for p in points]`, the one the sequential branch computes. -/
theorem parallel_call_evaluates_with_its_own_kwargs (c : ACfg κ ξ ν ρ) (nProcs : Nat) (s : AState κ ρ)
    (op : AOp κ ξ) (pool : State ν)
    (hreach : Reachable (approxPool c nProcs (storeKw s op) (c.pts s.step op)) pool)
    (hfinal : pool.final = true) :
    pool.result = .returned ((c.pts s.step op).map (fun p => some (c.f p op.kw))) := by
  rw [returns_seqMap_of_no_stop_task _ pool hreach hfinal (approxPool_no_stop c nProcs _ _), approxPool_seqMap]
  rfl

/-- One parallel call (pool represented by its sequential map) = one sequential call: same result, same next step. -/
theorem parStep_eq_seqStep (c : ACfg κ ξ ν ρ) (nProcs : Nat) (s : AState κ ρ) (op : AOp κ ξ) :
    (parStep c nProcs s op).2 = (seqStep c s.step op).2 ∧
      (parStep c nProcs s op).1.step = (seqStep c s.step op).1 := by
  constructor <;> simp [parStep, parStepWith, seqStep, approxPool_seqMap, storeKw]

/-- **Parallel derivative approximation = sequential, over whole histories on one object**: any list of
    `f_gradient(x, **kw)` / `compute_optimal_step(x, **kw)` calls with any keyword arguments (changing or not between the
    calls), from ANY state of the object (whatever `_function_kwargs` earlier calls left), any worker count: the
    results (Jacobians, optimal steps) are those of the sequential approximator started with the same step. -/
theorem approximator_history_parallel_eq_sequential (c : ACfg κ ξ ν ρ) (nProcs : Nat) (s : AState κ ρ)
    (ops : List (AOp κ ξ)) :
    parRun c nProcs s ops = seqRun c s.step ops := by
  induction ops generalizing s with
  | nil => rfl
  | cons op ops ih =>
    have h := parStep_eq_seqStep c nProcs s op
    simp only [parRun, parRunWith, seqRun]
    have ih' := ih (parStepWith storeKw c nProcs s op).1
    simp only [parRun] at ih'
    rw [ih']
    simp only [parStep] at h
    rw [h.1, h.2]

/-- The same with the real pool: every call of the history runs under an arbitrary complete schedule
    (`ParHist`: some reachable final state of the worker pool that returned). -/
theorem approximator_history_any_schedules (c : ACfg κ ξ ν ρ) (nProcs : Nat) (s : AState κ ρ)
    (ops : List (AOp κ ξ)) (rs : List ρ) (h : ParHist c nProcs s ops rs) :
    rs = seqRun c s.step ops := by
  induction h with
  | nil s => rfl
  | cons s op ops outs rs pool hreach hfinal hres hrest ih =>
    have hr := parallel_call_evaluates_with_its_own_kwargs c nProcs s op pool hreach hfinal
    rw [hres] at hr
    injection hr with hr
    subst hr
    simp only [seqRun, seqStep]
    rw [ih]

/-- Such histories exist for every list of calls (at least one worker): the statement above is not vacuous. -/
theorem approximator_history_exists (c : ACfg κ ξ ν ρ) (nProcs : Nat) (hp : 1 ≤ nProcs) (s : AState κ ρ)
    (ops : List (AOp κ ξ)) : ∃ rs, ParHist c nProcs s ops rs := by
  induction ops generalizing s with
  | nil => exact ⟨[], .nil s⟩
  | cons op ops ih =>
    obtain ⟨pool, hreach, hfinal⟩ :=
      exists_final (approxPool c nProcs (storeKw s op) (c.pts s.step op)) hp
    have hr := parallel_call_evaluates_with_its_own_kwargs c nProcs s op pool hreach hfinal
    obtain ⟨rs, hrs⟩ := ih { storeKw s op with step := nextStep s.step op (c.combine s.step op _) }
    exact ⟨_, .cons s op ops _ rs pool hreach hfinal hr hrs⟩

/-- Forward differences of `scale (c0 + c1 x + q x²) + shift` with step `h` (one input, one output); the result of
    `compute_optimal_step` is abstracted to the pair of exact quantities its formula uses, `f(x)` and the second
    difference, packed as `f(x) + 1000 (f(x+h) - 2 f(x) + f(x-h))`. -/
def exA : ACfg (Rat × Rat) Rat Rat Rat :=
  { f := fun x kw => polyF 1 2 1 x kw
    gradPts := fun h x => [x, x + h]
    gradOf := fun h _ vs => match vs with
      | [some f0, some f1] => (f1 - f0) / h
      | _ => 0
    optPts := fun h x => [x, x + h, x - h]
    optOf := fun _ _ vs => match vs with
      | [some f0, some fp, some fm] => f0 + 1000 * (fp - 2 * f0 + fm)
      | _ => 0 }

/-- `f_gradient(1, scale=1)`, `compute_optimal_step(1, scale=40, shift=3)`, `f_gradient(1, scale=40, shift=3)`. -/
def exAOps : List (AOp (Rat × Rat) Rat) := [.grad 1 (1, 0), .optStep 1 (40, 3), .grad 1 (40, 3)]

example : parRun exA 2 ⟨(0, 0), 1 / 2⟩ exAOps = seqRun exA (1 / 2) exAOps := by decide +kernel

/-- The seeded change r3m1 in the model: `compute_optimal_step` does not store its keyword arguments; the pool then
    evaluates with `scale=1` and the result of the second call differs from the sequential one. -/
example : parRunWith storeKwGradOnly exA 2 ⟨(0, 0), 1 / 2⟩ exAOps ≠ seqRun exA (1 / 2) exAOps := by decide +kernel

variable {V B : Type}

/-- **The chain Jacobian of an output is the slot of its LAST producer** among the disciplines whose linearization
    succeeded — an entry or *nothing* (then `_init_jacobian` fills zero blocks), never the entry of an earlier
    discipline.  Any number of disciplines, any output grammars (shared names, repeated names), any slots. -/
theorem chain_jacobian_is_last_producers (ds : List (DiscLin V B)) (o : Nat) :
    mergeJac ds o = (lastProducer (fun d => d.jac.isSome) ds o).bind (fun d => slotJac d o) := by
  unfold mergeJac
  rw [foldl_mergeOne_apply]
  cases lastProducer (fun d => d.jac.isSome) ds o <;> rfl

/-- **The chain data of an output is the value of its last producer.** -/
theorem chain_data_is_last_producers (ds : List (DiscLin V B)) (o : Nat) :
    mergeData ds o = (lastProducer (fun _ => true) ds o).map (fun d => d.val o) := by
  unfold mergeData
  rw [foldl_mergeData_apply]
  cases lastProducer (fun _ => true) ds o <;> rfl

/-- **Data and Jacobian come from the same discipline**: when no linearization failed, the discipline whose value is
    `chain.io.data[o]` is the one whose slot is `chain.jac[o]`. -/
theorem chain_data_and_jacobian_from_same_discipline (ds : List (DiscLin V B)) (o : Nat)
    (hok : ∀ d ∈ ds, d.jac.isSome = true) :
    mergeData ds o = (lastProducer (fun _ => true) ds o).map (fun d => d.val o) ∧
      mergeJac ds o = (lastProducer (fun _ => true) ds o).bind (fun d => slotJac d o) := by
  refine ⟨chain_data_is_last_producers ds o, ?_⟩
  rw [chain_jacobian_is_last_producers,
    lastProducer_congr (fun d => d.jac.isSome) (fun _ => true) ds o (fun d hd => hok d hd)]

/-- **Parallel chain Jacobian = derivative of the chain data** (the sequential chain's rule: the last discipline
    computing an output wins).  `coef d o i` is the true derivative of output `o` of discipline `d` with respect to
    input `i` (`0` when `d` does not depend on `i`).  Disciplines are *honest*: every block they return is the true one
    (`hsound`) and a non-zero block of the pair `(o, i)` is returned (`hcomplete`: requested pairs) — they may return
    nothing at all for `o`, or no block for `i`, when the derivative is zero (a discipline that does not depend on the
    differentiated inputs), and more blocks than requested.  Then block `(o, i)` of the chain Jacobian after filling
    is the coefficient of the LAST producer of `o`, `0` when nobody computes `o`. -/
theorem parallel_chain_block_is_last_producers_coefficient (ds : List (DiscLin V Rat))
    (coef : DiscLin V Rat → Nat → Nat → Rat) (o i : Nat)
    (hok : ∀ d ∈ ds, d.jac.isSome = true)
    (hsound : ∀ d ∈ ds, ∀ j b v, d.jac = some j → j o = some b → b i = some v → v = coef d o i)
    (hcomplete : ∀ d ∈ ds, o ∈ d.outputs → coef d o i ≠ 0 →
      ∃ j b, d.jac = some j ∧ j o = some b ∧ b i = some (coef d o i)) :
    chainBlock (mergeJac ds) o i =
      match lastProducer (fun _ => true) ds o with
      | some d => coef d o i
      | none => 0 := by
  have h := (chain_data_and_jacobian_from_same_discipline ds o hok).2
  unfold chainBlock
  rw [h]
  cases hl : lastProducer (fun _ => true) ds o with
  | none => rfl
  | some d =>
    obtain ⟨hmem, _, hout⟩ := lastProducer_mem _ ds o d hl
    simp only [Option.bind_some]
    by_cases hz : coef d o i = 0
    · -- whatever the discipline returned for the pair is the true block, i.e. zero; nothing returned: filled with zero
      cases hj : d.jac with
      | none => simp [slotJac, hj, hz]
      | some j =>
        cases hb : j o with
        | none => simp [slotJac, hj, hb, hz]
        | some b =>
          cases hv : b i with
          | none => simp [slotJac, hj, hb, hv, hz]
          | some v =>
            have := hsound d hmem j b v hj hb hv
            simp [slotJac, hj, hb, hv, this]
    · obtain ⟨j, b, hj, hb, hv⟩ := hcomplete d hmem hout hz
      simp [slotJac, hj, hb, hv]

/-- `D0: o = 2 x, p = x + 5` then `D1: o = 3 y + 1`, linearized with respect to `x` only (names: o = 0, p = 1, x = 0):
    `D1` returns nothing for `o`. -/
def exChainLin : List (DiscLin Rat Rat) :=
  [ { outputs := [0, 1], val := fun o => if o = 0 then 3 else 13 / 2,
      jac := some (fun o => if o = 0 then some (fun i => if i = 0 then some 2 else none)
                            else if o = 1 then some (fun i => if i = 0 then some 1 else none) else none) },
    { outputs := [0], val := fun _ => -5, jac := some (fun _ => none) } ]

example : chainBlock (mergeJac exChainLin) 0 0 = 0 ∧ chainBlock (mergeJac exChainLin) 1 0 = 1 ∧
    mergeData exChainLin 0 = some (-5) := by decide +kernel

/-- The seeded change r3m2 in the model: without the `pop`, the block of the earlier producer stays. -/
example : chainBlock (mergeJacKeep exChainLin) 0 0 = 2 := by decide +kernel

end SEQ

end GV.C13
