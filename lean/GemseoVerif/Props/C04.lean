/-
C04 — property theorems: the reported optimum is the best point of the recorded history.
Only property theorems (and the few definitions needed to state them) live here;
helper lemmas are in `Lemmas/FirstMin.lean`.
-/
import GemseoVerif.Lemmas.FirstMin
import Mathlib.Analysis.Real.Sqrt
import Mathlib.Tactic.Linarith
import Mathlib.Tactic.NormNum
import Mathlib.Tactic.Positivity

namespace GV.C04

/-! ### Meaning of comparison keys and violation measures -/

/-- A squared norm is non-negative. -/
def Key.WF : Key → Prop
  | .scalar _ => True
  | .normSq r => 0 ≤ r

/-- The real number a key stands for: the scalar itself, or the Euclidean norm. -/
noncomputable def Key.toReal : Key → ℝ
  | .scalar r => (r : ℝ)
  | .normSq r => Real.sqrt (r : ℝ)

/-- The square-root-free comparison of the model is the order of the real numbers it denotes
    (so comparing squared norms is the same as the code's comparison of `numpy.linalg.norm`s). -/
theorem Key.lt_iff (a b : Key) (ha : a.WF) (hb : b.WF) :
    a.lt b = true ↔ a.toReal < b.toReal := by
  cases a with
  | scalar a =>
    cases b with
    | scalar b => simp [Key.lt, Key.toReal]
    | normSq b =>
      have hb' : (0 : ℝ) ≤ (b : ℝ) := by exact_mod_cast hb
      simp only [Key.lt, Key.toReal, Bool.or_eq_true, decide_eq_true_eq]
      constructor
      · rintro (h | h)
        · have : (a : ℝ) < 0 := by exact_mod_cast h
          exact lt_of_lt_of_le this (Real.sqrt_nonneg _)
        · apply Real.lt_sqrt_of_sq_lt
          have : ((a * a : ℚ) : ℝ) < (b : ℝ) := by exact_mod_cast h
          simpa [sq] using this
      · intro h
        by_cases h0 : a < 0
        · exact Or.inl h0
        · right
          have h0' : (0 : ℝ) ≤ (a : ℝ) := by exact_mod_cast not_lt.mp h0
          have := (Real.lt_sqrt h0').mp h
          have h2 : ((a * a : ℚ) : ℝ) < (b : ℝ) := by simpa [sq] using this
          exact_mod_cast h2
  | normSq a =>
    have ha' : (0 : ℝ) ≤ (a : ℝ) := by exact_mod_cast ha
    cases b with
    | scalar b =>
      simp only [Key.lt, Key.toReal, Bool.and_eq_true, decide_eq_true_eq]
      constructor
      · rintro ⟨hpos, h⟩
        have hpos' : (0 : ℝ) < (b : ℝ) := by exact_mod_cast hpos
        apply (Real.sqrt_lt' hpos').mpr
        have : (a : ℝ) < ((b * b : ℚ) : ℝ) := by exact_mod_cast h
        simpa [sq] using this
      · intro h
        have hpos' : (0 : ℝ) < (b : ℝ) := lt_of_le_of_lt (Real.sqrt_nonneg _) h
        have hpos : 0 < b := by exact_mod_cast hpos'
        refine ⟨hpos, ?_⟩
        have := (Real.sqrt_lt' hpos').mp h
        have h2 : (a : ℝ) < ((b * b : ℚ) : ℝ) := by simpa [sq] using this
        exact_mod_cast h2
    | normSq b =>
      simp only [Key.lt, Key.toReal, decide_eq_true_eq]
      rw [Real.sqrt_lt_sqrt_iff ha']
      exact_mod_cast Iff.rfl

theorem sumSq_nonneg (v : List Rat) : 0 ≤ sumSq v := by
  unfold sumSq
  induction v with
  | nil => simp
  | cons a t ih =>
    simp only [List.map_cons, List.sum_cons]
    have : 0 ≤ a * a := mul_self_nonneg a
    linarith

/-- Every key the model builds from a recorded value is well formed. -/
theorem keyOf_wf (v : Val) (k : Key) (h : keyOf v = some k) : k.WF := by
  cases v with
  | nan => simp [keyOf] at h
  | num l =>
    match l, h with
    | [], h => simp [keyOf] at h; subst h; simp [Key.WF, sumSq]
    | [r], h => simp [keyOf] at h; subst h; trivial
    | a :: b :: t, h =>
      simp [keyOf] at h; subst h
      exact sumSq_nonneg _

theorem objKey_wf (cfg : Cfg) (e : Entry) (k : Key) (h : objKey cfg e = some k) : k.WF := by
  unfold objKey at h
  cases hl : lookup e.outs cfg.obj with
  | none => simp [hl] at h
  | some v => simp [hl] at h; exact keyOf_wf v k h

/-- Violation measures with `none = +∞` as elements of `WithTop ℚ`. -/
def violTop : Option Rat → WithTop ℚ
  | none => ⊤
  | some r => (r : WithTop ℚ)

theorem vlt_iff (a b : Option Rat) : vlt a b = true ↔ violTop a < violTop b := by
  cases a <;> cases b <;> simp [vlt, vle, violTop]

/-! ### The property theorems -/

/-- The code raises on an empty history and only then. -/
theorem optimum_none_iff_empty (cfg : Cfg) (h : List Entry) :
    optimum cfg h = none ↔ h = [] := by
  unfold optimum
  cases h with
  | nil => simp
  | cons e es =>
    simp only [List.isEmpty_cons, Bool.false_eq_true, if_false]
    split <;> simp

private theorem cand_some (cfg : Cfg) (e : Entry) (k : Key) :
    cand cfg e = some k ↔ isFeasible cfg e = true ∧ objKey cfg e = some k := by
  unfold cand
  by_cases hf : isFeasible cfg e = true <;> simp [hf]

/-- Shared first step: in the feasible case the solution is `⟨best-or-first-feasible, true⟩`. -/
private theorem optimum_feasible_unfold (cfg : Cfg) (h : List Entry) (s : Solution)
    (hs : optimum cfg h = some s) (hf : ∃ e ∈ h, isFeasible cfg e = true) :
    s = { idx := match bestFeas cfg h with
                 | some b => some b.1
                 | none => h.findIdx? (isFeasible cfg),
          feasible := true } := by
  obtain ⟨e0, he0, hfe0⟩ := hf
  have hne : h.isEmpty = false := by
    cases h with
    | nil => cases he0
    | cons _ _ => rfl
  have hany : h.any (isFeasible cfg) = true := List.any_eq_true.mpr ⟨e0, he0, hfe0⟩
  unfold optimum at hs
  simp only [hne, Bool.false_eq_true, if_false, hany, if_true, Option.some.injEq] at hs
  exact hs.symm

private theorem bestFeas_spec (cfg : Cfg) (h : List Entry) :
    BestOf Key.toReal (h.map (cand cfg)) (bestFeas cfg h) := by
  have hP : ∀ k, some k ∈ h.map (cand cfg) → Key.WF k := by
    intro k hk
    obtain ⟨e, _, hek⟩ := List.mem_map.mp hk
    exact objKey_wf cfg e k ((cand_some cfg e k).mp hek).2
  exact firstMin_spec Key.toReal Key.lt Key.WF Key.lt_iff (h.map (cand cfg)) hP

/-- **Feasible case, the reported point.** If some recorded point is feasible, the solution is
    flagged feasible and the reported point is a recorded *feasible* entry — always (also when no
    feasible entry has a usable objective value: then it is the first feasible one). -/
theorem optimum_feasible_point (cfg : Cfg) (h : List Entry) (s : Solution)
    (hs : optimum cfg h = some s) (hf : ∃ e ∈ h, isFeasible cfg e = true) :
    s.feasible = true ∧
    ∃ (i : Nat) (e : Entry), s.idx = some i ∧ h[i]? = some e ∧ isFeasible cfg e = true := by
  have hs' := optimum_feasible_unfold cfg h s hs hf
  subst hs'
  refine ⟨rfl, ?_⟩
  have spec := bestFeas_spec cfg h
  cases hb : bestFeas cfg h with
  | some b =>
    obtain ⟨ib, kb⟩ := b
    have hc := spec.is_cand ib kb hb
    rw [List.getElem?_map] at hc
    cases hget : h[ib]? with
    | none => simp [hget] at hc
    | some e =>
      simp only [hget, Option.map_some, Option.some.injEq] at hc
      exact ⟨ib, e, rfl, hget, ((cand_some cfg e kb).mp hc).1⟩
  | none =>
    obtain ⟨e0, he0, hfe0⟩ := hf
    have hex : ∃ x, x ∈ h ∧ isFeasible cfg x = true := ⟨e0, he0, hfe0⟩
    have hidx := List.findIdx?_eq_some_of_exists hex
    have hlt := List.findIdx_lt_length_of_exists hex
    refine ⟨h.findIdx (isFeasible cfg), h[h.findIdx (isFeasible cfg)], hidx, ?_, ?_⟩
    · exact List.getElem?_eq_getElem hlt
    · exact List.findIdx_getElem (w := hlt)

/-- **Feasible case, minimality.** If moreover some feasible recorded entry has a usable
    objective value, the reported entry has one too and no feasible recorded entry with an objective
    value is strictly smaller; among equal ones the first is reported. -/
theorem optimum_feasible_minimal (cfg : Cfg) (h : List Entry) (s : Solution)
    (hs : optimum cfg h = some s)
    (hf : ∃ e ∈ h, isFeasible cfg e = true ∧ (objKey cfg e).isSome = true) :
    s.feasible = true ∧
    ∃ (i : Nat) (e : Entry) (k : Key), s.idx = some i ∧
      h[i]? = some e ∧ isFeasible cfg e = true ∧ objKey cfg e = some k ∧
        (∀ (j : Nat) (e' : Entry) (k' : Key), h[j]? = some e' → isFeasible cfg e' = true →
          objKey cfg e' = some k' → k.toReal ≤ k'.toReal) ∧
        (∀ (j : Nat) (e' : Entry) (k' : Key), j < i → h[j]? = some e' → isFeasible cfg e' = true →
          objKey cfg e' = some k' → k.toReal < k'.toReal) := by
  obtain ⟨e0, he0, hfe0, hk0⟩ := hf
  have hs' := optimum_feasible_unfold cfg h s hs ⟨e0, he0, hfe0⟩
  subst hs'
  refine ⟨rfl, ?_⟩
  have spec := bestFeas_spec cfg h
  cases hb : bestFeas cfg h with
  | none =>
    exfalso
    obtain ⟨k0, hk0'⟩ := Option.isSome_iff_exists.mp hk0
    have hmem : cand cfg e0 ∈ h.map (cand cfg) := List.mem_map.mpr ⟨e0, he0, rfl⟩
    have := spec.none_iff hb _ hmem
    rw [(cand_some cfg e0 k0).mpr ⟨hfe0, hk0'⟩] at this
    cases this
  | some b =>
    obtain ⟨ib, kb⟩ := b
    have hc := spec.is_cand ib kb hb
    rw [List.getElem?_map] at hc
    cases hget : h[ib]? with
    | none => simp [hget] at hc
    | some e =>
      simp only [hget, Option.map_some, Option.some.injEq] at hc
      obtain ⟨hfe, hke⟩ := (cand_some cfg e kb).mp hc
      refine ⟨ib, e, kb, rfl, hget, hfe, hke, ?_, ?_⟩
      · intro j e' k' hj hf' hk'
        apply spec.minimal ib kb hb j k'
        rw [List.getElem?_map, hj]
        simp only [Option.map_some, Option.some.injEq]
        exact (cand_some cfg e' k').mpr ⟨hf', hk'⟩
      · intro j e' k' hjl hj hf' hk'
        apply spec.first ib kb hb j k' hjl
        rw [List.getElem?_map, hj]
        simp only [Option.map_some, Option.some.injEq]
        exact (cand_some cfg e' k').mpr ⟨hf', hk'⟩

/-- **Infeasible case.** If no recorded point is feasible (and the history is not empty) the
    reported point is a recorded entry of minimal violation measure (first among equal ones) and it
    is flagged infeasible. -/
theorem optimum_least_infeasible (cfg : Cfg) (h : List Entry) (s : Solution)
    (hs : optimum cfg h = some s) (hnf : ∀ e ∈ h, isFeasible cfg e = false) :
    s.feasible = false ∧
    ∃ (i : Nat) (e : Entry), s.idx = some i ∧ h[i]? = some e ∧
      (∀ (j : Nat) (e' : Entry), h[j]? = some e' →
        violTop (violation cfg e) ≤ violTop (violation cfg e')) ∧
      (∀ (j : Nat) (e' : Entry), j < i → h[j]? = some e' →
        violTop (violation cfg e) < violTop (violation cfg e')) := by
  have hne : h.isEmpty = false := by
    cases h with
    | nil => simp [optimum] at hs
    | cons _ _ => rfl
  have hany : h.any (isFeasible cfg) = false := by
    apply Bool.eq_false_iff.mpr
    intro hcon
    obtain ⟨e, he, hfe⟩ := List.any_eq_true.mp hcon
    rw [hnf e he] at hfe; cases hfe
  unfold optimum at hs
  simp only [hne, Bool.false_eq_true, if_false, hany, Option.some.injEq] at hs
  subst hs
  refine ⟨rfl, ?_⟩
  have spec := firstMin_spec violTop vlt (fun _ => True) (fun a b _ _ => vlt_iff a b)
    (h.map (fun e => some (violation cfg e))) (fun _ _ => trivial)
  cases hb : firstMin vlt (h.map (fun e => some (violation cfg e))) with
  | none =>
    exfalso
    cases h with
    | nil => simp at hne
    | cons e es =>
      have := spec.none_iff hb (some (violation cfg e)) (by simp)
      cases this
  | some b =>
    obtain ⟨ib, vb⟩ := b
    have hc := spec.is_cand ib vb hb
    rw [List.getElem?_map] at hc
    cases hget : h[ib]? with
    | none => simp [hget] at hc
    | some e =>
      simp only [hget, Option.map_some, Option.some.injEq] at hc
      subst hc
      refine ⟨ib, e, by simp [argminViol, hb], hget, ?_, ?_⟩
      · intro j e' hj
        apply spec.minimal ib _ hb j (violation cfg e')
        rw [List.getElem?_map, hj]; rfl
      · intro j e' hjl hj
        apply spec.first ib _ hb j (violation cfg e') hjl
        rw [List.getElem?_map, hj]; rfl

private theorem violationAux_feasible (cfg : Cfg) (outs : List (String × Val)) :
    ∀ (cs : List Cstr) (acc : Rat),
      (cs.all (fun c => match lookup outs c.name with
        | none => false
        | some v => satisfied cfg c.ty v)) = true →
      violationAux cfg outs cs acc = some acc := by
  intro cs
  induction cs with
  | nil => intro acc _; rfl
  | cons c cs ih =>
    intro acc hall
    simp only [List.all_cons, Bool.and_eq_true] at hall
    obtain ⟨hc, hrest⟩ := hall
    unfold violationAux
    cases hl : lookup outs c.name with
    | none => simp [hl] at hc
    | some v =>
      simp only [hl] at hc
      simp only [hc, if_true]
      exact ih acc hrest

/-- "If the design point is feasible, the constraint violation measure is 0." -/
theorem violation_zero_of_feasible (cfg : Cfg) (e : Entry) (hf : isFeasible cfg e = true) :
    violation cfg e = some 0 :=
  violationAux_feasible cfg e.outs cfg.cstrs 0 hf

/-- The index reported for the last point is the last index and its flag is that entry's own
    feasibility (fields come from the same entry). -/
theorem lastPoint_is_last (cfg : Cfg) (h : List Entry) (e : Entry) :
    lastPoint cfg (h ++ [e]) = some { idx := some h.length, feasible := isFeasible cfg e } := by
  simp [lastPoint]

/-- Sign restoration: the database holds the standardized value `-f` of a maximized objective;
    the reported one is the original `f`, unless the standardized objective is asked for. -/
theorem result_sign (f : Rat) :
    reportedObjective false false (-f) = f ∧
    reportedObjective false true (-f) = -f ∧
    reportedObjective true false f = f ∧
    reportedObjective true true f = f := by
  simp [reportedObjective]

/-- **History extension never worsens a feasible optimum** (used by C12: a restart that keeps the
    loaded entries reports an optimum at least as good as the best loaded one). -/
theorem optimum_monotone (cfg : Cfg) (h h' : List Entry) (s s' : Solution)
    (hs : optimum cfg h = some s) (hs' : optimum cfg (h ++ h') = some s')
    (hf : ∃ e ∈ h, isFeasible cfg e = true ∧ (objKey cfg e).isSome = true) :
    s.feasible = true ∧ s'.feasible = true ∧
    ∃ (i i' : Nat) (e e' : Entry) (k k' : Key), s.idx = some i ∧ s'.idx = some i' ∧
      h[i]? = some e ∧ (h ++ h')[i']? = some e' ∧
      objKey cfg e = some k ∧ objKey cfg e' = some k' ∧ k'.toReal ≤ k.toReal := by
  obtain ⟨hfl, i, e, k, hi, hge, hfe, hke, _, _⟩ := optimum_feasible_minimal cfg h s hs hf
  have hmem : e ∈ h ++ h' := List.mem_append_left _ (List.mem_of_getElem? hge)
  obtain ⟨hfl', i', e', k', hi', hge', _, hke', hle, _⟩ :=
    optimum_feasible_minimal cfg (h ++ h') s' hs' ⟨e, hmem, hfe, by simp [hke]⟩
  refine ⟨hfl, hfl', i, i', e, e', k, k', hi, hi', hge, hge', hke, hke', ?_⟩
  have hil : i < h.length := by
    by_contra hcon
    rw [List.getElem?_eq_none (Nat.le_of_not_lt hcon)] at hge; cases hge
  apply hle i e k _ hfe hke
  rw [List.getElem?_append_left hil]; exact hge

/-- **Pareto soundness.** A point kept by the mask is feasible and no *other* feasible point is
    less-or-equal in every objective (so in particular none dominates it). -/
theorem pareto_sound (objs : List (List Rat)) (feas : List Bool) (i : Nat)
    (hi : (paretoMask objs feas)[i]? = some true) :
    feas.getD i false = true ∧
    ∀ j, j < objs.length → j ≠ i → feas.getD j false = true →
      ∃ p ∈ (objs.getD j []).zip (objs.getD i []), p.2 < p.1 := by
  unfold paretoMask at hi
  simp only [List.getElem?_map] at hi
  have hil : i < objs.length := by
    by_contra hcon
    rw [List.getElem?_eq_none (by simpa using Nat.le_of_not_lt hcon)] at hi
    cases hi
  rw [List.getElem?_range hil] at hi
  simp only [Option.map_some, Option.some.injEq, Bool.and_eq_true, List.all_eq_true,
    List.mem_range, Bool.or_eq_true, beq_iff_eq, Bool.not_eq_eq_eq_not, Bool.not_true,
    List.any_eq_true, decide_eq_true_eq] at hi
  obtain ⟨hfi, hall⟩ := hi
  refine ⟨hfi, ?_⟩
  intro j hj hne hfj
  rcases hall j hj with (h | h) | h
  · exact absurd h hne
  · rw [hfj] at h; cases h
  · exact h

/-! ### Non-vacuity: concrete histories meeting the hypotheses -/

def exCfg : Cfg := ⟨"f", [⟨"g", .ineq⟩, ⟨"h", .eq⟩], 1/8, 0⟩
def exHist : List Entry :=
  [⟨[1, 2], [("f", .num [3]), ("g", .num [-1]), ("h", .num [0])]⟩,
   ⟨[2, 2], [("f", .num [1]), ("g", .num [1]), ("h", .num [0])]⟩,
   ⟨[0, 2], [("f", .num [2]), ("g", .num [0]), ("h", .num [1/8])]⟩,
   ⟨[3, 3], [("g", .nan)]⟩]

example : optimum exCfg exHist = some ⟨some 2, true⟩ := by decide +kernel
-- a feasible entry without objective value is reported when it is the only feasible one
example : optimum exCfg [⟨[0], [("g", .num [-1]), ("h", .num [0])]⟩, ⟨[1], [("f", .num [0])]⟩]
    = some ⟨some 0, true⟩ := by decide +kernel
example : ∃ e ∈ exHist, isFeasible exCfg e = true :=
  ⟨⟨[1, 2], [("f", .num [3]), ("g", .num [-1]), ("h", .num [0])]⟩, by simp [exHist],
   by decide +kernel⟩
example : optimum exCfg (exHist.drop 3) = some ⟨some 0, false⟩ := by decide +kernel
example : ∀ e ∈ exHist.drop 3, isFeasible exCfg e = false := by decide +kernel
example : paretoMask [[1, 2], [2, 1], [2, 2]] [true, true, true] = [true, true, false] := by
  decide +kernel

end GV.C04
