/-
C14 — DOE samples honour bounds, types, sample count and seed (property theorems over the model
`GemseoVerif.Model.C14`; the design space is the C02 model).

PARTIAL by nature: the third-party samplers are parameters (`Req.sampler`).  Their range `[0,1]^d`
is the hypothesis `InUnit`, their functionality in the seed is built into the type
`Int → Option Matrix`; both are validated on every run by the harness, not proved.

Everything GEMSEO owns is proved for all design spaces, dimensions, bounds, unit samples, seeds and
request histories: no bound on sizes or values.
-/
import GemseoVerif.Lemmas.C14
import GemseoVerif.Lemmas.C14Count
import GemseoVerif.Lemmas.C14Session
import GemseoVerif.Lemmas.C14Custom

namespace GV.C14
open GV GV.C02

/-- A point of the unit hypercube. -/
def InUnit (u : List Rat) : Prop := ∀ t ∈ u, 0 ≤ t ∧ t ≤ 1

/-! ## 1. Samples are inside the bounds, integers are integral -/

/-- The flat views of the design space (C02) are the projections of `comps`: component `i` of the
    integer mask / lower bounds / upper bounds is component `i` of `comps`. -/
theorem comps_are_flat_views (d : DS) (h : LenOk d) :
    d.intMask = (comps d).map (·.1) ∧ d.flatLb = (comps d).map (·.2.1) ∧
    d.flatUb = (comps d).map (·.2.2) ∧ (comps d).length = d.dimension :=
  ⟨intMask_eq d h, flatLb_eq d h, flatUb_eq d h, comps_length d h⟩

/-- **Every unit sample is mapped inside the bounds** of a bounded design space: the image has the
    dimension of the space and passes C02's `check_membership` with tolerance 0, for every
    `u ∈ [0,1]^d`, whatever the bounds, types, sizes and order of the variables. -/
theorem untransform_in_bounds (d : DS) (hb : boundedOk d = true) (u : List Rat)
    (hlen : u.length = d.dimension) (hu : InUnit u) :
    (untransform d u).length = d.dimension ∧ d.isMember 0 (untransform d u) = true := by
  have hl := boundedOk_lenOk d hb
  have hcl := comps_length d hl
  have hlen' : (untransform d u).length = d.dimension := by
    rw [untransform_eq d hl, List.length_zipWith, hcl, hlen, Nat.min_self]
  refine ⟨hlen', ?_⟩
  unfold DS.isMember
  rw [hlen']
  simp only [beq_self_eq_true, Bool.true_and]
  rw [flatLb_eq d hl, flatUb_eq d hl, zipWith3_map, untransform_eq d hl]
  have e : List.zipWith (fun (x : Comp) t => geLb 0 x.2.1 t && leUb 0 x.2.2 t) (comps d)
        (List.zipWith untransformComp (comps d) u)
      = List.zipWith (fun c t => geLb 0 c.2.1 (untransformComp c t) && leUb 0 c.2.2 (untransformComp c t))
        (comps d) u := by
    have := zipWith_map_zipWith (fun (x : Comp) t => geLb 0 x.2.1 t && leUb 0 x.2.2 t) id untransformComp
      (comps d) u
    simpa using this
  rw [e]
  apply all_zipWith
  intro c hc t ht
  obtain ⟨l, ub, h1, h2, h3, h4, _⟩ :=
    untransformComp_in_bounds c (boundedOk_compOk d hb c hc) t (hu t ht).1 (hu t ht).2
  simp [h1, h2, geLb, leUb, h3, h4]

/-- **Component `i`** of the image: within its own bounds, and an integer when the component belongs
    to an integer variable (whose bounds are then integers too). -/
theorem integers_integral_and_in_bounds (d : DS) (hb : boundedOk d = true) (u : List Rat) (hu : InUnit u)
    (i : Nat) (c : Comp) (x : Rat) (hc : (comps d)[i]? = some c) (hx : (untransform d u)[i]? = some x) :
    ∃ l ub : Rat, c.2.1 = some l ∧ c.2.2 = some ub ∧ l ≤ x ∧ x ≤ ub ∧
      (c.1 = true → isIntegral x = true ∧ isIntegral l = true ∧ isIntegral ub = true) := by
  have hl := boundedOk_lenOk d hb
  rw [untransform_eq d hl, List.getElem?_zipWith, hc] at hx
  cases hui : u[i]? with
  | none => simp [hui] at hx
  | some t =>
    simp only [hui, Option.some.injEq] at hx
    subst hx
    have htm : t ∈ u := List.mem_of_getElem? hui
    have hcm : c ∈ comps d := List.mem_of_getElem? hc
    have hok := boundedOk_compOk d hb c hcm
    obtain ⟨l, ub, h1, h2, h3, h4, h5⟩ := untransformComp_in_bounds c hok t (hu t htm).1 (hu t htm).2
    obtain ⟨l', ub', h1', h2', _, hint⟩ := (compOk_iff c).mp hok
    rw [h1] at h1'; rw [h2] at h2'
    cases h1'; cases h2'
    exact ⟨l, ub, h1, h2, h3, h4, fun hb1 => ⟨h5 hb1, hint hb1⟩⟩

/-- Non-integer variables are mapped by the exact affine map `lb + t (ub - lb)`; integer variables
    by the same map followed by rounding half to even, which moves the point by at most 1/2. -/
theorem untransform_affine (b : Bool) (l ub t : Rat) :
    untransformComp (false, some l, some ub) t = l + t * (ub - l) ∧
    (untransformComp (b, some l, some ub) t - (l + t * (ub - l)) ≤ 1 / 2 ∧
     (l + t * (ub - l)) - untransformComp (b, some l, some ub) t ≤ 1 / 2) := by
  refine ⟨?_, ?_⟩
  · rw [untransformComp_bounded]; simp [roundIf]; ring
  · rw [untransformComp_bounded]
    cases b with
    | false => simp [roundIf]; constructor <;> linarith
    | true =>
      have := roundHalfEven_near (t * (ub - l) + l)
      simp only [roundIf, if_true]
      constructor <;> linarith [this.1, this.2]

/-! ## 2. Variable order -/

theorem zipWith_names (vs : List Var) (g : Var → List Rat → List Rat) (bs : List (List Rat))
    (h : bs.length = vs.length) :
    (List.zipWith (fun v b => (v.name, g v b)) vs bs).map (·.1) = vs.map (·.name) := by
  induction vs generalizing bs with
  | nil => simp
  | cons v vs ih =>
    cases bs with
    | nil => simp at h
    | cons b bs => simp [ih bs (by simpa using h)]

theorem zipWith_blocks (vs : List Var) (g : Var → List Rat → List Rat) (bs : List (List Rat)) :
    (List.zipWith (fun v b => (v.name, g v b)) vs bs).map (·.2) = List.zipWith g vs bs := by
  induction vs generalizing bs with
  | nil => simp
  | cons v vs ih =>
    cases bs with
    | nil => simp
    | cons b bs => simp [ih bs]

/-- **Column blocks follow the design-space variable order**: the image of a unit sample is the
    concatenation, in the order of the variables, of the images of the slices of the unit sample at
    the variables' index ranges, each computed with that variable's own bounds and type. -/
theorem variable_order (d : DS) (h : LenOk d) (u : List Rat) :
    ((untransformByVar d u).map (·.2)).flatten = untransform d u ∧
    (untransformByVar d u).map (·.1) = d.names := by
  constructor
  · unfold untransformByVar
    rw [zipWith_blocks, untransform_eq d h]
    exact (zipWith_flatMap_split untransformComp d.vars h u).symm
  · unfold untransformByVar
    rw [zipWith_names]
    · rfl
    · simp [splitBySizes_length, DS.sizes]

theorem blocks_lengths (vs : List Var) (hl : ∀ v ∈ vs, v.lb.length = v.ub.length) (bs : List (List Rat))
    (h : bs.map List.length = vs.map Var.size) :
    (List.zipWith untransformVar vs bs).map List.length = vs.map Var.size := by
  induction vs generalizing bs with
  | nil => simp
  | cons v vs ih =>
    cases bs with
    | nil => simp at h
    | cons b bs =>
      simp only [List.map_cons, List.cons.injEq] at h
      simp only [List.zipWith_cons_cons, List.map_cons, List.cons.injEq]
      refine ⟨?_, ih (fun w hw => hl w (List.mem_cons_of_mem _ hw)) bs h.2⟩
      simp [untransformVar, varComps_length v (hl v (by simp)), h.1]

theorem zip_names_blocks (vs : List Var) (g : Var → List Rat → List Rat) (bs : List (List Rat)) :
    (vs.map (·.name)).zip (List.zipWith g vs bs) = List.zipWith (fun v b => (v.name, g v b)) vs bs := by
  induction vs generalizing bs with
  | nil => simp
  | cons v vs ih =>
    cases bs with
    | nil => simp
    | cons b bs => simp [ih bs]

/-- The same statement through C02's `convert_array_to_dict`: splitting a sample by variable gives,
    for each variable in order, the image of that variable's slice of the unit sample. -/
theorem variable_order_dict (d : DS) (h : LenOk d) (u : List Rat) (hlen : u.length = d.dimension) :
    d.arrayToDict (untransform d u) = untransformByVar d u := by
  have hsum : d.sizes.sum = u.length := by simpa [DS.dimension] using hlen.symm
  have hS := splitBySizes_lengths d.sizes u hsum
  have hB : (List.zipWith untransformVar d.vars (splitBySizes d.sizes u)).map List.length = d.sizes :=
    blocks_lengths d.vars h _ (by simpa [DS.sizes] using hS)
  have hflat : untransform d u = (List.zipWith untransformVar d.vars (splitBySizes d.sizes u)).flatten := by
    rw [untransform_eq d h]
    exact zipWith_flatMap_split untransformComp d.vars h u
  have hsplit : splitBySizes d.sizes (List.zipWith untransformVar d.vars (splitBySizes d.sizes u)).flatten
      = List.zipWith untransformVar d.vars (splitBySizes d.sizes u) := by
    have := splitBySizes_flatten (List.zipWith untransformVar d.vars (splitBySizes d.sizes u))
    rw [hB] at this
    exact this
  unfold DS.arrayToDict untransformByVar
  rw [hflat, hsplit]
  exact zip_names_blocks d.vars untransformVar _

/-! ## 3. The pipeline: samples are the image of the unit samples; the switch is restored -/

theorem setIntNorm_self (d : DS) (h : d.intNorm = true) : d.setIntNorm true = d := by
  cases d; simp_all [DS.setIntNorm]

/-- Entering with "enable if disabled" always yields the space with the switch on. -/
theorem enter_eq (d : DS) : enter d (!d.intNorm) = d.setIntNorm true := by
  unfold enter
  cases h : d.intNorm with
  | false => simp
  | true => simp [setIntNorm_self d h]

theorem leave_enter (d : DS) (enabled : Bool) (h : enabled = true → d.intNorm = false) :
    leave (enter d enabled) enabled = d := by
  unfold leave enter
  cases enabled with
  | false => simp
  | true =>
    have := h rfl
    cases d
    simp_all [DS.setIntNorm]

/-- **The integer-normalisation switch is restored on every path** of `compute_doe`: success,
    unbounded space, invalid settings, failing sampler, wrong dimension.  The design space after the
    call is the design space before the call. -/
theorem integer_switch_restored (d : DS) (lib : Lib) (r : Req) : (computeDoe d lib r).ds = d := by
  show leave (enter d (!r.unitSampling && !d.intNorm)) (!r.unitSampling && !d.intNorm) = d
  apply leave_enter
  intro h
  simp only [Bool.and_eq_true, Bool.not_eq_true'] at h
  exact h.2

/-- The same for `execute` (`_pre_run`). -/
theorem integer_switch_restored_execute (d : DS) (lib : Lib) (r : Req) : (preRun d lib r).ds = d := by
  show leave (enter d (!d.intNorm)) (!d.intNorm) = d
  apply leave_enter
  intro h
  simpa using h

/-- What a successful generation returns (no failure at any step). -/
theorem generate_ok (d : DS) (lib : Lib) (r : Req) (lib1 : Lib) (us : Matrix)
    (h : generate d lib r = (lib1, .ok us)) :
    ∃ eff m, r.sampler eff = some m ∧
      us = (if r.custom then m.map (d.normalizeVect true) else m) ∧
      eff = (if r.usesSeed then (lib.seeder.getSeed r.seed).2 else 0) := by
  unfold generate at h
  by_cases hs : r.usesSeed = true
  · simp only [hs, if_true] at h ⊢
    cases hm : r.sampler (lib.seeder.getSeed r.seed).2 with
    | none => simp [hm] at h
    | some m =>
      simp only [hm] at h
      refine ⟨_, m, hm, ?_, rfl⟩
      by_cases hc : r.custom = true
      · simp only [hc, if_true] at h ⊢
        split_ifs at h
        · simp only [Prod.mk.injEq, Except.ok.injEq] at h; exact h.2.symm
        · simp at h
      · simp only [hc] at h ⊢
        simp only [Bool.false_eq_true, if_false, Prod.mk.injEq, Except.ok.injEq] at h ⊢
        exact h.2.symm
  · simp only [hs] at h ⊢
    simp only [Bool.false_eq_true, if_false] at h ⊢
    cases hm : r.sampler 0 with
    | none => simp [hm] at h
    | some m =>
      simp only [hm] at h
      refine ⟨_, m, hm, ?_, rfl⟩
      by_cases hc : r.custom = true
      · simp only [hc, if_true] at h ⊢
        split_ifs at h
        · simp only [Prod.mk.injEq, Except.ok.injEq] at h; exact h.2.symm
        · simp at h
      · simp only [hc] at h ⊢
        simp only [Bool.false_eq_true, if_false, Prod.mk.injEq, Except.ok.injEq] at h ⊢
        exact h.2.symm

/-- **The samples are the design-space image of the unit samples** (`compute_doe`): whenever the
    call succeeds, the returned matrix is, row by row, `untransform` of the unit samples that the
    same request returns with `unit_sampling` — i.e. of what the sampler produced. -/
theorem samples_are_image_of_unit_samples (d : DS) (lib : Lib) (r : Req) (xs : Matrix)
    (hu : r.unitSampling = false) (h : (computeDoe d lib r).result = .ok xs) :
    ∃ lib1 us, generate (d.setIntNorm true) lib r = (lib1, .ok us) ∧ xs = us.map (untransform d) := by
  have hd1 : enter d (!r.unitSampling && !d.intNorm) = d.setIntNorm true := by
    rw [hu]; simpa using enter_eq d
  have h' : (computeBody (d.setIntNorm true) lib r).2 = .ok xs := by
    have : (computeDoe d lib r).result = (computeBody (enter d (!r.unitSampling && !d.intNorm)) lib r).2 := rfl
    rw [this, hd1] at h
    exact h
  unfold computeBody at h'
  split_ifs at h' with _ _ h3
  · rw [hu] at h3; cases h3
  · split at h'
    · simp at h'
    · rename_i lib1 us hg
      simp only [Except.ok.injEq] at h'
      exact ⟨lib1, us, hg, by rw [← h']; rfl⟩

/-- The same for `execute`: after a successful `_pre_run`, `lib.samples` is the image of
    `lib.unit_samples`. -/
theorem execute_samples_are_image (d : DS) (lib : Lib) (r : Req) (xs : Matrix)
    (h : (preRun d lib r).result = .ok xs) :
    (preRun d lib r).lib.samples = xs ∧
    xs = (preRun d lib r).lib.unitSamples.map (untransform d) := by
  have e1 : (preRun d lib r).result = (preRunBody (d.setIntNorm true) lib r).2 := by
    show (preRunBody (enter d (!d.intNorm)) lib r).2 = _
    rw [enter_eq]
  have e2 : (preRun d lib r).lib = (preRunBody (d.setIntNorm true) lib r).1 := by
    show (preRunBody (enter d (!d.intNorm)) lib r).1 = _
    rw [enter_eq]
  rw [e1] at h
  rw [e2]
  unfold preRunBody at h ⊢
  by_cases hc : (r.useUnitHypercube && !(unboundedComponents (d.setIntNorm true)).isEmpty) = true
  · simp [hc] at h
  · simp only [hc, Bool.false_eq_true, if_false] at h ⊢
    split at h
    · simp at h
    · rename_i lib1 us hg
      simp only [Except.ok.injEq] at h
      exact ⟨h, by rw [← h]; rfl⟩

/-- Database keys after a sequential `execute`: exactly the generated samples, each once, in the
    order of generation. -/
theorem database_keys (m : Matrix) :
    (∀ x, x ∈ firstOcc m ↔ x ∈ m) ∧ (firstOcc m).Nodup ∧ (firstOcc m).Sublist m :=
  ⟨mem_firstOcc m, firstOcc_nodup m, firstOcc_sublist m⟩

/-- Whole pipeline, end to end: a successful `compute_doe` on a bounded space with a sampler that
    returns points of the unit hypercube returns only points inside the bounds. -/
theorem compute_doe_in_bounds (d : DS) (hb : boundedOk d = true) (lib : Lib) (r : Req) (xs : Matrix)
    (hu : r.unitSampling = false) (hc : r.custom = false)
    (hs : ∀ k m, r.sampler k = some m → ∀ row ∈ m, row.length = d.dimension ∧ InUnit row)
    (h : (computeDoe d lib r).result = .ok xs) :
    ∀ x ∈ xs, x.length = d.dimension ∧ d.isMember 0 x = true := by
  obtain ⟨lib1, us, hg, rfl⟩ := samples_are_image_of_unit_samples d lib r xs hu h
  obtain ⟨eff, m, hm, hus, _⟩ := generate_ok _ lib r lib1 us hg
  rw [hc] at hus
  simp only [Bool.false_eq_true, if_false] at hus
  subst hus
  intro x hx
  obtain ⟨row, hrow, rfl⟩ := List.mem_map.mp hx
  obtain ⟨h1, h2⟩ := hs eff us hm row hrow
  exact untransform_in_bounds d hb row h1 h2

/-- **Spaces built with `add_variable`** (C02 model) from the empty space, with finite bounds, are
    bounded design spaces in the sense of the theorems above: `add_variable` itself enforces
    `lb ≤ ub`, equal lengths and integral bounds of integer variables. -/
theorem bounded_of_add_variable (tol : Rat) (vs : List Var) (d : DS)
    (hfin : ∀ v ∈ vs, ∀ b ∈ v.lb ++ v.ub, b.isSome = true) (h : DS.empty.extend tol vs = some d) :
    boundedOk d = true :=
  boundedOk_of_adds tol vs hfin DS.empty d boundedOk_empty h

/-- **The guard of the pipeline** (`__check_unnormalization_capability`): a `compute_doe` that does
    not fail with "unbounded" was called on a space all of whose components have two finite bounds
    (for the algorithms that sample the unit hypercube). -/
theorem success_implies_finite_bounds (d : DS) (lib : Lib) (r : Req) (xs : Matrix)
    (hu : r.unitSampling = false) (hh : r.useUnitHypercube = true)
    (h : (computeDoe d lib r).result = .ok xs) :
    ∀ c ∈ comps d, c.2.1.isSome = true ∧ c.2.2.isSome = true := by
  have hd1 : enter d (!r.unitSampling && !d.intNorm) = d.setIntNorm true := by
    rw [hu]; simpa using enter_eq d
  have h' : (computeBody (d.setIntNorm true) lib r).2 = .ok xs := by
    have : (computeDoe d lib r).result = (computeBody (enter d (!r.unitSampling && !d.intNorm)) lib r).2 := rfl
    rw [this, hd1] at h
    exact h
  have hc : unboundedComponents (d.setIntNorm true) = [] := by
    by_contra hne
    unfold computeBody at h'
    have : (!r.unitSampling && r.useUnitHypercube && !(unboundedComponents (d.setIntNorm true)).isEmpty) = true := by
      rw [hu, hh]
      simp only [Bool.not_false, Bool.and_self, Bool.true_and, Bool.not_eq_true', List.isEmpty_eq_false_iff]
      exact hne
    simp [this] at h'
  have hcomps : comps (d.setIntNorm true) = comps d := rfl
  rw [← hcomps]
  exact (capability_check_iff _).mp hc

/-! ## 4. Seeds -/

/-- **The default seed is incremented by every call**, with or without an explicit seed. -/
theorem default_seed_increments (s : Seeder) (reqs : List (Option Int)) :
    (Seeder.run s reqs).1.defaultSeed = s.defaultSeed + reqs.length := by
  induction reqs generalizing s with
  | nil => simp [Seeder.run]
  | cons r rs ih =>
    simp only [Seeder.run, List.length_cons]
    rw [ih]
    simp only [Seeder.getSeed]
    push_cast
    ring

/-- The seed returned by the `i`-th call: the explicit seed when there is one, otherwise
    `initial seed + i + 1`, whatever the other calls were. -/
theorem seeds_returned (s : Seeder) (reqs : List (Option Int)) (i : Nat) (r : Option Int)
    (h : reqs[i]? = some r) :
    (Seeder.run s reqs).2[i]? = some (r.getD (s.defaultSeed + i + 1)) := by
  induction reqs generalizing s i with
  | nil => simp at h
  | cons q qs ih =>
    cases i with
    | zero =>
      simp only [List.getElem?_cons_zero, Option.some.injEq] at h
      subst h
      simp only [Seeder.run, List.getElem?_cons_zero, Option.some.injEq, Seeder.getSeed]
      cases q <;> simp
    | succ j =>
      simp only [List.getElem?_cons_succ] at h
      simp only [Seeder.run, List.getElem?_cons_succ]
      rw [ih _ j h]
      simp only [Seeder.getSeed]
      congr 2
      push_cast
      ring

/-- **An explicit seed wins and does not depend on the counter.** -/
theorem explicit_seed_ignores_counter (s1 s2 : Seeder) (k : Int) :
    (s1.getSeed (some k)).2 = k ∧ (s1.getSeed (some k)).2 = (s2.getSeed (some k)).2 := by
  simp [Seeder.getSeed]

/-- **Seed determinism**: the same request (algorithm = sampler, settings, explicit seed — or an
    algorithm that uses no seed) on the same design space returns the same samples whatever the
    history of the library (its seed counter, its previous results). -/
theorem seed_determinism (d : DS) (lib1 lib2 : Lib) (r : Req) (h : r.usesSeed = false ∨ ∃ k, r.seed = some k) :
    (computeDoe d lib1 r).result = (computeDoe d lib2 r).result ∧
    (preRun d lib1 r).result = (preRun d lib2 r).result := by
  have hg : ∀ d', (generate d' lib1 r).2 = (generate d' lib2 r).2 := by
    intro d'
    unfold generate
    rcases h with h | ⟨k, hk⟩
    · simp only [h, Bool.false_eq_true, if_false]
      cases r.sampler 0 <;> simp only []
      split_ifs <;> rfl
    · by_cases hs : r.usesSeed = true
      · simp only [hs, if_true, hk, Seeder.getSeed]
        cases r.sampler k <;> simp only []
        split_ifs <;> rfl
      · simp only [hs, Bool.false_eq_true, if_false]
        cases r.sampler 0 <;> simp only []
        split_ifs <;> rfl
  have hb : ∀ d', (computeBody d' lib1 r).2 = (computeBody d' lib2 r).2 := by
    intro d'
    unfold computeBody
    split_ifs
    · rfl
    · rfl
    · have := hg d'
      revert this
      rcases generate d' lib1 r with ⟨a1, e1⟩
      rcases generate d' lib2 r with ⟨a2, e2⟩
      intro this
      simp only at this
      subst this
      cases e1 <;> rfl
    · have := hg d'
      revert this
      rcases generate d' lib1 r with ⟨a1, e1⟩
      rcases generate d' lib2 r with ⟨a2, e2⟩
      intro this
      simp only at this
      subst this
      cases e1 <;> rfl
  have hp : ∀ d', (preRunBody d' lib1 r).2 = (preRunBody d' lib2 r).2 := by
    intro d'
    unfold preRunBody
    split_ifs
    · rfl
    · have := hg d'
      revert this
      rcases generate d' lib1 r with ⟨a1, e1⟩
      rcases generate d' lib2 r with ⟨a2, e2⟩
      intro this
      simp only at this
      subst this
      cases e1 <;> rfl
  exact ⟨hb _, hp _⟩

/-- A default-seed call is the explicit-seed call with `counter + 1`: the `i`-th generation of a
    fresh library (counter 0) is the generation with `seed = i`. -/
theorem default_seed_is_counter_plus_one (d : DS) (lib lib' : Lib) (r : Req) (hs : r.seed = none) :
    (computeDoe d lib r).result =
      (computeDoe d lib' { r with seed := some (lib.seeder.defaultSeed + 1) }).result := by
  have hg : ∀ d', (generate d' lib r).2 =
      (generate d' lib' { r with seed := some (lib.seeder.defaultSeed + 1) }).2 := by
    intro d'
    unfold generate
    by_cases hu : r.usesSeed = true
    · simp only [hu, if_true, hs, Seeder.getSeed]
      cases r.sampler (lib.seeder.defaultSeed + 1) <;> simp only []
      split_ifs <;> rfl
    · simp only [hu, Bool.false_eq_true, if_false]
      cases r.sampler 0 <;> simp only []
      split_ifs <;> rfl
  show (computeBody _ lib r).2 = (computeBody _ lib' _).2
  unfold computeBody
  simp only []
  split_ifs
  · rfl
  · rfl
  · have := hg (enter d (!r.unitSampling && !d.intNorm))
    revert this
    rcases generate _ lib r with ⟨a1, e1⟩
    rcases generate _ lib' _ with ⟨a2, e2⟩
    intro this
    simp only at this
    subst this
    cases e1 <;> rfl
  · have := hg (enter d (!r.unitSampling && !d.intNorm))
    revert this
    rcases generate _ lib r with ⟨a1, e1⟩
    rcases generate _ lib' _ with ⟨a2, e2⟩
    intro this
    simp only at this
    subst this
    cases e1 <;> rfl

/-- The library counter after a call: incremented iff the algorithm asked for a seed and the call
    reached the generation step. -/
theorem library_counter (d : DS) (lib : Lib) (r : Req) :
    (computeDoe d lib r).lib.seeder.defaultSeed = lib.seeder.defaultSeed ∨
    (r.usesSeed = true ∧ (computeDoe d lib r).lib.seeder.defaultSeed = lib.seeder.defaultSeed + 1) := by
  have key : ∀ d', (generate d' lib r).1.seeder.defaultSeed = lib.seeder.defaultSeed ∨
      (r.usesSeed = true ∧ (generate d' lib r).1.seeder.defaultSeed = lib.seeder.defaultSeed + 1) := by
    intro d'
    unfold generate
    by_cases hu : r.usesSeed = true
    · right
      refine ⟨hu, ?_⟩
      simp only [hu, if_true, Seeder.getSeed]
      cases r.sampler _ <;> simp only []
      split_ifs <;> rfl
    · left
      simp only [hu, Bool.false_eq_true, if_false]
      cases r.sampler 0 <;> simp only []
      split_ifs <;> rfl
  show (computeBody _ lib r).1.seeder.defaultSeed = _ ∨ (_ ∧ (computeBody _ lib r).1.seeder.defaultSeed = _)
  unfold computeBody
  split_ifs
  · exact Or.inl rfl
  · exact Or.inl rfl
  · have := key (enter d (!r.unitSampling && !d.intNorm))
    revert this
    rcases generate _ lib r with ⟨a1, e1⟩
    intro this
    cases e1 <;> exact this
  · have := key (enter d (!r.unitSampling && !d.intNorm))
    revert this
    rcases generate _ lib r with ⟨a1, e1⟩
    intro this
    cases e1 <;> exact this

/-! ## 5. Sample counts of the designs -/

/-- **Full factorial**: the number of levels per direction `k = ⌊n^(1/d)⌋` gives `k^d ≤ n` samples… -/
theorem fullfact_count_le (n d : Nat) (hd : 1 ≤ d) : fullfactCount n d ≤ n :=
  (iroot_spec n d hd).1

/-- …and it is the **largest** `d`-th power not exceeding `n`. -/
theorem fullfact_count_maximal (n d : Nat) (hd : 1 ≤ d) :
    n < (fullfactLevels n d + 1) ^ d ∧ ∀ k, k ^ d ≤ n → k ≤ fullfactLevels n d :=
  ⟨(iroot_spec n d hd).2, fun k hk => iroot_max n d k hd hk⟩

/-- A request for exactly a `d`-th power is honoured exactly. -/
theorem fullfact_count_exact (k d : Nat) (hd : 1 ≤ d) : fullfactCount (k ^ d) d = k ^ d := by
  have h1 := iroot_max (k ^ d) d k hd (le_refl _)
  have h2 := (iroot_spec (k ^ d) d hd).1
  have h3 := Nat.pow_le_pow_left h1 d
  exact Nat.le_antisymm h2 h3

theorem diagonal_count (n c : Nat) (h : diagonalCount n = some c) : c = n ∧ 2 ≤ n := by
  unfold diagonalCount at h
  split_ifs at h with h2
  simp only [Option.some.injEq] at h
  omega

/-- **Morris**: `r (d + 1)` samples with `r = ⌊n / (d+1)⌋ ≥ 1`, never more than requested. -/
theorem morris_count (n d c : Nat) (h : morrisCount n d = some c) :
    c = morrisReplicates n d * (d + 1) ∧ c ≤ n ∧ 1 ≤ morrisReplicates n d ∧ n < c + (d + 1) := by
  unfold morrisCount at h
  split_ifs at h with h0
  simp only [Option.some.injEq] at h
  subst h
  unfold morrisReplicates at *
  have h1 := Nat.div_mul_le_self n (d + 1)
  have h2 := Nat.lt_div_mul_add (a := n) (b := d + 1) (by omega)
  exact ⟨rfl, h1, Nat.pos_of_ne_zero h0, h2⟩

theorem stratified_le (n b c : Nat) (hb : 0 < b) (hL : ¬ (n - 1) / b < 1) (hc : c = 1 + b * ((n - 1) / b)) :
    c ≤ n ∧ n < c + b := by
  have h1 := Nat.mul_div_le (n - 1) b
  have h2 := Nat.lt_mul_div_succ (n - 1) hb
  have h3 : 1 ≤ (n - 1) / b := by omega
  have h4 : 1 ≤ n - 1 := by
    by_contra hh
    have : n - 1 = 0 := by omega
    rw [this, Nat.zero_div] at h3
    omega
  subst hc
  rw [Nat.mul_succ] at h2
  omega

/-- **Axial design**: centre + `2d` points per level, at most `n`, and one more level would exceed `n`. -/
theorem axial_count (n d c : Nat) (hd : 1 ≤ d) (h : axialCount n d = some c) :
    c = 1 + 2 * d * axialLevels n d ∧ c ≤ n ∧ n < c + 2 * d := by
  unfold axialCount at h
  split_ifs at h with h0
  simp only [Option.some.injEq] at h
  have := stratified_le n (2 * d) c (by omega) h0 (by rw [← h]; rfl)
  exact ⟨h.symm, this.1, this.2⟩

/-- **Factorial design**: centre + `2^d` points per level. -/
theorem factorial_count (n d c : Nat) (h : factorialCount n d = some c) :
    c = 1 + 2 ^ d * factorialLevels n d ∧ c ≤ n ∧ n < c + 2 ^ d := by
  unfold factorialCount at h
  split_ifs at h with h0
  simp only [Option.some.injEq] at h
  have := stratified_le n (2 ^ d) c (Nat.two_pow_pos d) h0 (by rw [← h]; rfl)
  exact ⟨h.symm, this.1, this.2⟩

/-- **Composite design**: centre + `2d + 2^d` points per level. -/
theorem composite_count (n d c : Nat) (h : compositeCount n d = some c) :
    c = 1 + compositeLevels n d * (2 * d + 2 ^ d) ∧ c ≤ n ∧ n < c + (2 * d + 2 ^ d) := by
  unfold compositeCount at h
  split_ifs at h with h0
  simp only [Option.some.injEq] at h
  have hpos : 0 < 2 * d + 2 ^ d := by have := Nat.two_pow_pos d; omega
  have := stratified_le n (2 * d + 2 ^ d) c hpos h0 (by rw [← h, Nat.mul_comm]; rfl)
  exact ⟨h.symm, this.1, this.2⟩

/- Full statement (NOT true of the code, see the counter-example below):
     `sobolIndicesCount n d second = some c → c ≤ n`.
   The sub-sample size is computed with the block `d + 2` unless `second ∧ d > 2`, while OpenTURNS
   generates blocks of `2 d + 2` points as soon as `second ∧ d ≠ 2`: the two differ for `d = 1`. -/
/-- **Sobol' indices design** (partial: every case but second-order indices in dimension 1). -/
theorem sobolIndices_count_le_partial (n d c : Nat) (second : Bool) (hx : ¬ (second = true ∧ d = 1))
    (h : sobolIndicesCount n d second = some c) : c ≤ n := by
  unfold sobolIndicesCount at h
  split_ifs at h with h0
  simp only [Option.some.injEq] at h
  subst h
  unfold sobolSubSize sobolBlock
  by_cases hs : second = true
  · subst hs
    by_cases h2 : d > 2
    · have hne : (d != 2) = true := by simp; omega
      simp only [Bool.true_and, decide_eq_true_eq, h2, if_true, hne]
      exact Nat.div_mul_le_self n _
    · have hd : d = 0 ∨ d = 2 := by
        have : d ≠ 1 := fun e => hx ⟨rfl, e⟩
        omega
      rcases hd with rfl | rfl
      · simp only [Bool.true_and, decide_eq_true_eq, gt_iff_lt, show ¬ (2 < 0) by omega, if_false]
        have : ((0 : Nat) != 2) = true := by decide
        simp only [this, if_true]
        have := Nat.div_mul_le_self n 2
        omega
      · simp only [Bool.true_and, decide_eq_true_eq, gt_iff_lt, show ¬ (2 < 2) by omega, if_false]
        have : ((2 : Nat) != 2) = false := by decide
        simp only [this, Bool.false_eq_true, if_false]
        exact Nat.div_mul_le_self n _
  · have hs' : second = false := by simpa using hs
    subst hs'
    simp only [Bool.false_and, Bool.false_eq_true, if_false]
    exact Nat.div_mul_le_self n _

/-- The excluded case is a real defect of the modelled code (recorded as a known finding):
    13 samples requested in dimension 1 with second-order indices, 16 generated. -/
theorem sobolIndices_dim1_second_order_exceeds : sobolIndicesCount 13 1 true = some 16 := by
  decide +kernel

/-- **OAT**: `d + 1` points of dimension `d`, inside the unit hypercube for a step `≤ 1/2`. -/
theorem oat_design (step : Rat) (x0 : List Rat) :
    (oat step x0).length = oatCount x0.length ∧ (∀ row ∈ oat step x0, row.length = x0.length) ∧
    (0 < step → step ≤ 1 / 2 → InUnit x0 → ∀ row ∈ oat step x0, InUnit row) := by
  refine ⟨oat_length step x0, ?_, ?_⟩
  · intro row hrow
    simp only [oat, List.mem_cons] at hrow
    rcases hrow with rfl | h
    · rfl
    · simpa using oatFrom_row_length step [] x0 row h
  · intro hs0 hs hx row hrow
    simp only [oat, List.mem_cons] at hrow
    rcases hrow with rfl | h
    · exact hx
    · exact oatFrom_unit step hs0 hs [] x0 (by simp) hx row h

/-- **Morris**: `r` initial points of dimension `d` give `r (d + 1)` points of the unit hypercube. -/
theorem morris_design (step : Rat) (d : Nat) (initials : Matrix) (h : ∀ x ∈ initials, x.length = d) :
    (morris step initials).length = initials.length * (d + 1) ∧
    (0 < step → step ≤ 1 / 2 → (∀ x ∈ initials, InUnit x) → ∀ row ∈ morris step initials, InUnit row) := by
  refine ⟨morris_length step d initials h, ?_⟩
  intro hs0 hs hx row hrow
  simp only [morris, List.mem_flatMap] at hrow
  obtain ⟨x0, hx0, hr⟩ := hrow
  exact (oat_design step x0).2.2 hs0 hs (hx x0 hx0) row hr

/-- **Diagonal**: `n` points of the unit hypercube, from one corner to the opposite one. -/
theorem diagonal_design (n : Nat) (rev : List Bool) :
    (diagonal n rev).length = n ∧ (∀ row ∈ diagonal n rev, row.length = rev.length ∧ InUnit row) := by
  refine ⟨by simp [diagonal], ?_⟩
  intro row hrow
  simp only [diagonal, List.mem_map, List.mem_range] at hrow
  obtain ⟨i, hi, rfl⟩ := hrow
  refine ⟨by simp, ?_⟩
  intro t ht
  simp only [List.mem_map] at ht
  obtain ⟨b, _, rfl⟩ := ht
  cases b with
  | false => simpa using linspace01_unit n i hi
  | true => simpa using linspace10_unit n i hi

/-- The post-processing GEMSEO applies to third-party designs keeps them in the unit hypercube:
    pyDOE full-factorial levels, the `[-1,1] → [0,1]` scaling, the stratified OpenTURNS designs
    recentred on the user's centre, the centred LHS. -/
theorem postprocessing_in_unit :
    (∀ L k : Nat, k < L → 0 ≤ ffScale L k ∧ ffScale L k ≤ 1) ∧
    (∀ x : Rat, -1 ≤ x → x ≤ 1 → 0 ≤ pydoeScale x ∧ pydoeScale x ≤ 1) ∧
    (∀ c x : Rat, 0 < c → c < 1 → 0 ≤ x → x ≤ 1 → 0 ≤ stratMap c x ∧ stratMap c x ≤ 1) ∧
    (∀ (n : Nat) (s : Rat), 0 < n → 0 ≤ s → s < 1 → 0 < lhsCentered n s ∧ lhsCentered n s < 1) :=
  ⟨ffScale_unit, pydoeScale_unit, stratMap_unit, fun n s hn => lhsCentered_unit n hn s⟩

/-! ## 6. CustomDOE is the identity on valid samples -/

/-- A sample component the user may give: inside the bounds, integral for integer variables. -/
def ValidComp (c : Comp) (x : Rat) : Prop :=
  compOk c = true ∧ (∀ l, c.2.1 = some l → l ≤ x) ∧ (∀ ub, c.2.2 = some ub → x ≤ ub) ∧
    (c.1 = true → isIntegral x = true)

theorem custom_comp_identity (c : Comp) (x : Rat) (h : ValidComp c x) :
    untransformComp c (transformComp c x) = x := by
  obtain ⟨hok, hl, hu, hint⟩ := h
  obtain ⟨l, ub, h1, h2, hle, _⟩ := (compOk_iff c).mp hok
  obtain ⟨b, lo, uo⟩ := c
  simp only at h1 h2 hint hl hu
  subst h1 h2
  have hxl := hl l rfl
  have hxu := hu ub rfl
  unfold untransformComp transformComp
  simp only [Option.isSome_some, Bool.and_self]
  have hraw : unnormComp true true (some l) (some ub) (normComp true true (some l) (some ub) x) = x := by
    by_cases hne : l = ub
    · subst hne
      have : x = l := le_antisymm hxu hxl
      subst this
      simp [unnormComp, normComp, scaleOf, invScaleOf]
    · exact unnormComp_normComp true l ub x hne
  rw [hraw]
  exact roundIf_of_integral b x hint

theorem zipWith_round_trip (cs : List Comp) (x : List Rat) (h : List.Forall₂ ValidComp cs x) :
    List.zipWith untransformComp cs (List.zipWith transformComp cs x) = x := by
  induction h with
  | nil => simp
  | cons hc _ ih => simp [custom_comp_identity _ _ hc, ih]

/-- **CustomDOE returns the samples it is given** (in the design-space variable order), when they
    lie inside the bounds and are integral on the integer variables. -/
theorem custom_doe_identity (d : DS) (hl : LenOk d) (x : List Rat)
    (h : List.Forall₂ ValidComp (comps d) x) : untransform d (transform d x) = x := by
  rw [transform_eq d hl, untransform_eq d hl]
  exact zipWith_round_trip _ _ h

/-! ## 7. Histories: DOEs on a design-space object and a library object that were used before

The design-space *object* keeps the arrays of its last normalisation (bounds, normalisable components,
mask of the integer components) behind the flag `__norm_data_is_computed` (`CDS` in the model), the
library object keeps its seed counter and its last samples.  The property quantifies over "all
dimensions, bounds, mixed types": in particular over a design space whose variables, bounds and types
are what they are *now*, whatever was done with the object before. -/

/-- A new design-space object (nothing computed yet) satisfies the invariant, whatever its private
    arrays contain. -/
theorem new_object_invariant (d : DS) (stale : NormData) :
    CDS.Inv { ds := d, computed := false, data := stale } := CDS.inv_fresh d stale

/-- **Every public edit keeps the cache honest**: after `add_variable`, `remove_variable`, `filter`,
    `filter_dimensions`, `rename_variable`, `extend`, `set_lower_bound`, `set_upper_bound`,
    `set_current_value`, `set_current_variable`, `initialize_missing_current_values` or the switch setter,
    either the flag is reset or the stored arrays are still those of the variables as they are now
    (types included: the mask of the integer components is part of the arrays). -/
theorem edit_keeps_cache_valid (tol : Rat) (c : CDS) (op : Op) (h : c.Inv) :
    (c.edit tol op).Inv ∧ (c.edit tol op).ds = c.ds.apply tol op :=
  ⟨CDS.edit_inv tol c op h, rfl⟩

/-- **The cache cannot be observed.**  For every design-space object, every library object and every
    history of edits, normalisation queries, DOEs (`compute_doe`, `execute`) and new library objects:
    each output is the output of the cache-free specification, in which every call is a function of
    the variables as they are at the time of the call; variables, switch and library agree afterwards,
    and the invariant still holds. -/
theorem session_refines_spec (tol : Rat) (s : Session) (hs : s.cds.Inv) (ops : List SOp) :
    (Session.run tol s ops).2 = (Spec.run tol ⟨s.cds.ds, s.lib⟩ ops).2 ∧
    (Session.run tol s ops).1.cds.ds = (Spec.run tol ⟨s.cds.ds, s.lib⟩ ops).1.ds ∧
    (Session.run tol s ops).1.lib = (Spec.run tol ⟨s.cds.ds, s.lib⟩ ops).1.lib ∧
    (Session.run tol s ops).1.cds.Inv := by
  obtain ⟨⟨h1, h2, h3⟩, h4⟩ := Session.run_sim tol ops s ⟨s.cds.ds, s.lib⟩ ⟨hs, rfl, rfl⟩
  exact ⟨h4, h2, h3, h1⟩

/-- In the specification the design space only changes through the edits (C02 `DS.apply`): a DOE
    gives it back as it was (switch restored), a query does not touch it. -/
theorem spec_doe_ds (t : Spec) (exec : Bool) (r : Req) : (t.doe exec r).1.ds = t.ds := by
  cases exec
  · simp [Spec.doe, integer_switch_restored]
  · simp [Spec.doe, integer_switch_restored_execute]

theorem spec_design_space (tol : Rat) (ops : List SOp) : ∀ t : Spec,
    (Spec.run tol t ops).1.ds =
      DS.run tol t.ds (ops.filterMap (fun o => match o with | .edit op => some op | _ => none)) := by
  induction ops with
  | nil => intro t; rfl
  | cons o ops ih =>
    intro t
    simp only [Spec.run]
    rw [ih]
    cases o with
    | edit op => simp [Spec.step, DS.run]
    | query u => simp [Spec.step]
    | newLib => simp [Spec.step]
    | doe exec r => simp [Spec.step, spec_doe_ds]
    | custom exec cs => simp [Spec.step, spec_doe_ds]

/-- **A DOE after any history** is the DOE of a new library state `t.lib` on the variables as they
    are now (`t.ds` = the initial variables after the edits of the history, `spec_design_space`), and
    it leaves the variables and the switch as they were. -/
theorem doe_after_history (tol : Rat) (s : Session) (hs : s.cds.Inv) (ops : List SOp) (exec : Bool) (r : Req) :
    ((Session.run tol s ops).1.step tol (.doe exec r)).2 =
      .doe (if exec then preRun (Spec.run tol ⟨s.cds.ds, s.lib⟩ ops).1.ds (Spec.run tol ⟨s.cds.ds, s.lib⟩ ops).1.lib r
            else computeDoe (Spec.run tol ⟨s.cds.ds, s.lib⟩ ops).1.ds (Spec.run tol ⟨s.cds.ds, s.lib⟩ ops).1.lib r).result ∧
    ((Session.run tol s ops).1.step tol (.doe exec r)).1.cds.ds = (Spec.run tol ⟨s.cds.ds, s.lib⟩ ops).1.ds := by
  obtain ⟨hsim, _⟩ := Session.run_sim tol ops s ⟨s.cds.ds, s.lib⟩ ⟨hs, rfl, rfl⟩
  obtain ⟨⟨_, h2, _⟩, h4⟩ := Session.step_sim tol _ _ hsim (.doe exec r)
  refine ⟨?_, ?_⟩
  · rw [h4]
    cases exec <;> simp [Spec.step, Spec.doe]
  · rw [h2]
    simp [Spec.step, spec_doe_ds]

/-- `execute` generates what `compute_doe` returns (valid settings, no unit sampling). -/
theorem execute_generates_compute_doe (d : DS) (lib : Lib) (r : Req) (hu : r.unitSampling = false)
    (hok : r.settingsOk = true) : (preRun d lib r).result = (computeDoe d lib r).result := by
  show (preRunBody (enter d (!d.intNorm)) lib r).2 = (computeBody (enter d (!r.unitSampling && !d.intNorm)) lib r).2
  rw [hu]
  simp only [Bool.not_false, Bool.true_and]
  unfold preRunBody computeBody
  rw [hu, hok]
  simp only [Bool.not_false, Bool.true_and, Bool.not_true, Bool.false_eq_true, if_false]
  split_ifs
  · rfl
  · rcases generate (enter d (!d.intNorm)) lib r with ⟨lib1, res⟩
    cases res <;> rfl

/-- **Bounds and types after any history** (the clause "points inside the bounds, with integer
    variables taking integer values, in the design space's variable order" on a used and edited
    object).  If the variables as they are now form a bounded design space `d` and the sampler returns
    points of `[0,1]^dim d`, a successful `compute_doe` or `execute` returns only points of the right
    dimension inside the bounds of `d`, and component `i` of each point lies within the bounds of
    component `i` of `d` (in the variable order of `d`) and is an integer when that component belongs to
    an integer variable of `d`. -/
theorem doe_after_history_in_bounds (tol : Rat) (s : Session) (hs : s.cds.Inv) (ops : List SOp)
    (exec : Bool) (r : Req) (xs : Matrix) (d : DS)
    (hd : (Spec.run tol ⟨s.cds.ds, s.lib⟩ ops).1.ds = d) (hb : boundedOk d = true)
    (hu : r.unitSampling = false) (hc : r.custom = false) (hok : r.settingsOk = true)
    (hsam : ∀ k m, r.sampler k = some m → ∀ row ∈ m, row.length = d.dimension ∧ InUnit row)
    (h : ((Session.run tol s ops).1.step tol (.doe exec r)).2 = .doe (.ok xs)) :
    ∀ x ∈ xs, x.length = d.dimension ∧ d.isMember 0 x = true ∧
      ∀ (i : Nat) (c : Comp) (xi : Rat), (comps d)[i]? = some c → x[i]? = some xi →
        ∃ l ub : Rat, c.2.1 = some l ∧ c.2.2 = some ub ∧ l ≤ xi ∧ xi ≤ ub ∧
          (c.1 = true → isIntegral xi = true) := by
  have h0 := (doe_after_history tol s hs ops exec r).1
  rw [h, hd] at h0
  have hres : (computeDoe d (Spec.run tol ⟨s.cds.ds, s.lib⟩ ops).1.lib r).result = .ok xs := by
    cases exec
    · simp only [Bool.false_eq_true, if_false, SOut.doe.injEq] at h0
      exact h0.symm
    · simp only [if_true, SOut.doe.injEq] at h0
      rw [← execute_generates_compute_doe d _ r hu hok]
      exact h0.symm
  obtain ⟨lib1, us, hg, rfl⟩ := samples_are_image_of_unit_samples d _ r xs hu hres
  obtain ⟨eff, m, hm, hus, _⟩ := generate_ok _ _ r lib1 us hg
  rw [hc] at hus
  simp only [Bool.false_eq_true, if_false] at hus
  subst hus
  intro x hx
  obtain ⟨row, hrow, rfl⟩ := List.mem_map.mp hx
  obtain ⟨h1, h2⟩ := hsam eff us hm row hrow
  obtain ⟨a, b⟩ := untransform_in_bounds d hb row h1 h2
  refine ⟨a, b, ?_⟩
  intro i c xi hci hxi
  obtain ⟨l, ub, e1, e2, e3, e4, e5⟩ := integers_integral_and_in_bounds d hb row h2 i c xi hci hxi
  exact ⟨l, ub, e1, e2, e3, e4, fun hh => (e5 hh).1⟩

/-- **Same algorithm, settings and seed ⇒ same samples, whatever the two histories** — of the
    design-space objects (earlier DOEs, queries that filled the cache, edits) and of the library
    objects (seed counters, earlier results) — as soon as the variables are the same now.  The seed is
    explicit (any integer: `0` is a seed like any other) or the algorithm does not use one. -/
theorem doe_history_independent (tol : Rat) (s1 s2 : Session) (h1 : s1.cds.Inv) (h2 : s2.cds.Inv)
    (ops1 ops2 : List SOp) (exec : Bool) (r : Req) (hseed : r.usesSeed = false ∨ ∃ k, r.seed = some k)
    (hsame : (Spec.run tol ⟨s1.cds.ds, s1.lib⟩ ops1).1.ds = (Spec.run tol ⟨s2.cds.ds, s2.lib⟩ ops2).1.ds) :
    ((Session.run tol s1 ops1).1.step tol (.doe exec r)).2 =
    ((Session.run tol s2 ops2).1.step tol (.doe exec r)).2 := by
  rw [(doe_after_history tol s1 h1 ops1 exec r).1, (doe_after_history tol s2 h2 ops2 exec r).1, hsame]
  obtain ⟨a, b⟩ := seed_determinism (Spec.run tol ⟨s2.cds.ds, s2.lib⟩ ops2).1.ds
    (Spec.run tol ⟨s1.cds.ds, s1.lib⟩ ops1).1.lib (Spec.run tol ⟨s2.cds.ds, s2.lib⟩ ops2).1.lib r hseed
  cases exec
  · simp only [Bool.false_eq_true, if_false]; rw [a]
  · simp only [if_true]; rw [b]

/-! ## 8. CustomDOE: every documented form of `samples`, every key order

`samples` may be a 2-D array (or a file), a dictionary of 2-D arrays, or a list of dictionaries of 1-D
arrays.  The dictionaries are written by the user in *their* key order; the design of experiments is
"expressed in the design space's variable order". -/

/-- `cs` is a way of writing the samples `X` (rows in the design-space order): the array itself, or
    its dictionary form(s) with the keys in any order. -/
def StandsFor (d : DS) : CustomSamples → Matrix → Prop
  | .array m, X => m = X
  | .dict cols, X => DictStandsFor d cols X
  | .dicts rows, X => DictsStandFor d rows X

/-- **The key order of a dictionary cannot be observed** by `convert_dict_to_array`: two dictionaries
    with the same entries (distinct keys) in different orders are converted to the same array. -/
theorem custom_samples_key_order (d : DS) (m m' : List (String × List Rat)) (hk : (m.map (·.1)).Nodup)
    (hp : m.Perm m') : d.dictToArray m = d.dictToArray m' := dictToArray_perm d m m' hk hp

/-- **Samples given by names are expressed in the design-space variable order**, for every design
    space with distinct variable names, every number of samples, every form and every key order (one
    order for a dictionary of 2-D arrays, one order *per sample* for a list of dictionaries): the array
    CustomDOE works with is the matrix whose row `i` is the concatenation of the blocks of sample `i` in
    the order of the variables of the design space. -/
theorem custom_samples_variable_order (d : DS) (hn : d.names.Nodup) (cs : CustomSamples) (X : Matrix)
    (hX : ∀ x ∈ X, x.length = d.dimension) (h : StandsFor d cs X) : cs.toMatrix d = X := by
  cases cs with
  | array m => exact h
  | dict cols => exact dict_toMatrix d hn cols X hX h
  | dicts rows => exact dicts_toMatrix d hn rows X hX h

/-- The hypothesis `StandsFor` is closed under reordering the keys of a dictionary of 2-D arrays, and
    contains the canonical dictionary `colsOf d X` (variable ↦ matrix of its blocks). -/
theorem custom_dict_forms (d : DS) (hne : d.names ≠ []) (X : Matrix) (cols : List (String × Matrix))
    (hp : (colsOf d X).Perm cols) (hk : ((colsOf d X).map (·.1)).Nodup) :
    StandsFor d (.dict cols) X :=
  dictStandsFor_perm d (colsOf d X) cols X hk hp (colsOf_standsFor d hne X)

theorem setIntNorm_dimension (d : DS) (b : Bool) : (d.setIntNorm b).dimension = d.dimension := rfl

/-- **CustomDOE returns the samples it is given, in the design-space variable order**, through the
    whole pipeline (`compute_doe` and `execute`): for samples inside the bounds and integral on the
    integer variables, written in any documented form with any key order. -/
theorem custom_doe_returns_given_samples (d : DS) (hl : LenOk d) (hn : d.names.Nodup) (lib : Lib)
    (cs : CustomSamples) (X : Matrix) (hv : ∀ x ∈ X, List.Forall₂ ValidComp (comps d) x)
    (h : StandsFor d cs X) :
    (computeDoe d lib (customReq d cs)).result = .ok X ∧
    (preRun d lib (customReq d cs)).result = .ok X ∧
    (preRun d lib (customReq d cs)).lib.samples = X ∧
    (computeDoe d lib (customReq d cs)).ds = d := by
  have hdim : ∀ x ∈ X, x.length = d.dimension := by
    intro x hx
    have := (hv x hx).length_eq
    rw [comps_length d hl] at this
    exact this.symm
  have hm := custom_samples_variable_order d hn cs X hdim h
  have hall : (X.all fun row => row.length == (d.setIntNorm true).dimension) = true := by
    rw [List.all_eq_true]
    intro x hx
    simpa [setIntNorm_dimension] using hdim x hx
  have hround : List.map ((d.setIntNorm true).unnormalizeVect true)
      (List.map ((d.setIntNorm true).normalizeVect true) X) = X := by
    rw [List.map_map]
    conv_rhs => rw [← List.map_id X]
    apply List.map_congr_left
    intro x hx
    exact custom_doe_identity d hl x (hv x hx)
  have hgen : ∀ l : Lib, generate (d.setIntNorm true) l (customReq d cs) =
      (l, .ok (X.map ((d.setIntNorm true).normalizeVect true))) := by
    intro l
    simp only [generate, customReq, Bool.false_eq_true, if_false, hm, if_true, hall]
  refine ⟨?_, ?_, ?_, integer_switch_restored d lib _⟩
  · show (computeBody (enter d (!(customReq d cs).unitSampling && !d.intNorm)) lib (customReq d cs)).2 = _
    have : (!(customReq d cs).unitSampling && !d.intNorm) = !d.intNorm := by simp [customReq]
    rw [this, enter_eq]
    unfold computeBody
    rw [hgen lib]
    simp [customReq, hround]
  · show (preRunBody (enter d (!d.intNorm)) lib (customReq d cs)).2 = _
    rw [enter_eq]
    unfold preRunBody
    rw [hgen lib]
    simp [customReq, hround]
  · show (preRunBody (enter d (!d.intNorm)) lib (customReq d cs)).1.samples = _
    rw [enter_eq]
    unfold preRunBody
    rw [hgen lib]
    simp [customReq, hround]

/-- **…on a design-space object that was used and edited before**: after any history of edits,
    queries and DOEs, a CustomDOE whose samples are written (in any form and key order) for the
    variables as they are now returns these samples in the current variable order. -/
theorem custom_doe_after_history (tol : Rat) (s : Session) (hs : s.cds.Inv) (ops : List SOp) (exec : Bool)
    (cs : CustomSamples) (X : Matrix) (d : DS) (hd : (Spec.run tol ⟨s.cds.ds, s.lib⟩ ops).1.ds = d)
    (hl : LenOk d) (hn : d.names.Nodup) (hv : ∀ x ∈ X, List.Forall₂ ValidComp (comps d) x)
    (h : StandsFor d cs X) :
    ((Session.run tol s ops).1.step tol (.custom exec cs)).2 = .doe (.ok X) := by
  obtain ⟨hsim, _⟩ := Session.run_sim tol ops s ⟨s.cds.ds, s.lib⟩ ⟨hs, rfl, rfl⟩
  obtain ⟨_, h4⟩ := Session.step_sim tol _ _ hsim (.custom exec cs)
  rw [h4]
  simp only [Spec.step, Spec.doe, hd]
  obtain ⟨a, b, _, _⟩ := custom_doe_returns_given_samples d hl hn (Spec.run tol ⟨s.cds.ds, s.lib⟩ ops).1.lib cs X hv h
  cases exec
  · simp only [Bool.false_eq_true, if_false]; rw [a]
  · simp only [if_true]; rw [b]

/-! ## 9. The process: nothing sampled before can be observed

`Proc` is what GEMSEO's wrappers leave in the process between two generations (the state of
`openturns.RandomGenerator`); the sequence objects, engines and `RandomState`s are created for the call.
Hence "the same algorithm, settings and seed always generate the same samples" — whatever was generated
before in the process, by this algorithm or by another one, in this dimension or another one, with more
or fewer samples. -/

/-- **The state of the process cannot be observed**: the unit samples of a generation are the same
    from any two process states. -/
theorem process_state_unobservable (w : ThirdParty) (p p' : Proc) (c : PCall) (seed : Int) :
    (p.call w c seed).2 = (p'.call w c seed).2 := by
  unfold Proc.call
  cases c.source <;> rfl

/-- **Every generation of a history returns what it returns in a new process** (`{}`: nothing sampled
    yet), for every history of generations by any algorithms, dimensions, sizes and seeds. -/
theorem process_history_outputs (w : ThirdParty) (hist : List (PCall × Int)) : ∀ p : Proc,
    (Proc.run w p hist).2 = hist.map (fun ck => (({} : Proc).call w ck.1 ck.2).2) := by
  induction hist with
  | nil => intro p; rfl
  | cons ck rest ih =>
    intro p
    obtain ⟨c, k⟩ := ck
    simp only [Proc.run, List.map_cons]
    rw [ih, process_state_unobservable w p {} c k]

/-- **Same algorithm, settings, dimension, size and seed after two arbitrary process histories ⇒ same
    unit samples.** -/
theorem process_history_independent (w : ThirdParty) (p p' : Proc) (hist hist' : List (PCall × Int))
    (c : PCall) (seed : Int) :
    ((Proc.run w p hist).1.call w c seed).2 = ((Proc.run w p' hist').1.call w c seed).2 :=
  process_state_unobservable w _ _ c seed

/-- A low-discrepancy sequence generated for the call starts at its first point: `n` points are the
    first `n` of the `m ≥ n` points another call returns (this — and only this — is what makes a
    "longest sequence so far" memo per **class and dimension** unobservable). -/
theorem sequence_prefix (w : ThirdParty) (p p' : Proc) (algo dim n m : Nat) (seed seed' : Int) (h : n ≤ m) :
    (p.call w ⟨.otSequence, algo, dim, n⟩ seed).2 = ((p'.call w ⟨.otSequence, algo, dim, m⟩ seed').2).take n := by
  simp only [Proc.call, SeqObj.generate, Nat.zero_add]
  rw [← List.map_take, List.take_range, Nat.min_eq_left h]

/-- The sampler seen by the pipeline (`Req.sampler`) does not depend on the process state. -/
theorem procSampler_independent (w : ThirdParty) (p p' : Proc) (c : PCall) :
    procSampler w p c = procSampler w p' c := by
  funext eff
  simp only [procSampler]
  rw [process_state_unobservable w p p' c eff]

/-- **Same algorithm, settings and seed ⇒ same samples, whatever happened before** to the
    design-space objects (DOEs, queries, edits ending with the same variables), to the library objects
    (seed counters, earlier results) **and in the process** (generations by any algorithms, before and
    between): `compute_doe` / `execute` with an explicit seed (or an unseeded algorithm) after two
    arbitrary triples of histories return the same samples. -/
theorem doe_process_history_independent (tol : Rat) (w : ThirdParty) (p1 p2 : Proc)
    (hist1 hist2 : List (PCall × Int)) (c : PCall) (s1 s2 : Session) (h1 : s1.cds.Inv) (h2 : s2.cds.Inv)
    (ops1 ops2 : List SOp) (exec : Bool) (r : Req) (hseed : r.usesSeed = false ∨ ∃ k, r.seed = some k)
    (hsame : (Spec.run tol ⟨s1.cds.ds, s1.lib⟩ ops1).1.ds = (Spec.run tol ⟨s2.cds.ds, s2.lib⟩ ops2).1.ds) :
    ((Session.run tol s1 ops1).1.step tol
        (.doe exec { r with sampler := procSampler w (Proc.run w p1 hist1).1 c })).2 =
    ((Session.run tol s2 ops2).1.step tol
        (.doe exec { r with sampler := procSampler w (Proc.run w p2 hist2).1 c })).2 := by
  rw [procSampler_independent w (Proc.run w p1 hist1).1 (Proc.run w p2 hist2).1 c]
  exact doe_history_independent tol s1 s2 h1 h2 ops1 ops2 exec _ hseed hsame

/-! ## Non-vacuity -/

def exDS : DS :=
  { vars := [⟨"a", false, [some (-3)], [some 5], none⟩,
             ⟨"k", true, [some (-2), some 1], [some 6, some 3], none⟩,
             ⟨"b", false, [some (1/2)], [some 1], some [3/4]⟩] }

def exReq : Req :=
  { usesSeed := true, seed := none,
    sampler := fun k => some [[0, 1/2, 1/2, 1], [1/4, (1 : Rat) / k, 3/16, 0]] }

example : boundedOk exDS = true := by decide +kernel
example : LenOk exDS := boundedOk_lenOk _ (by decide +kernel)
example : comps exDS = [(false, some (-3), some 5), (true, some (-2), some 6), (true, some 1, some 3),
    (false, some (1/2), some 1)] := by decide +kernel
example : untransform exDS [0, 1/2, 1/2, 1] = [-3, 2, 2, 1] := by decide +kernel
example : untransform exDS [1/4, 3/16, 3/4, 1/2] = [-1, 0, 2, 3/4] := by decide +kernel   -- -1/2 ↦ 0 (half to even)
example : exDS.isMember 0 (untransform exDS [1/4, 3/16, 3/4, 1/2]) = true := by decide +kernel
example : untransformByVar exDS [1/4, 3/16, 3/4, 1/2] = [("a", [-1]), ("k", [0, 2]), ("b", [3/4])] := by
  decide +kernel
example : (computeDoe exDS {} exReq).result = .ok [[-3, 2, 2, 1], [-1, 6, 1, 1/2]] := by decide +kernel
example : (computeDoe exDS {} exReq).ds = exDS ∧ (computeDoe exDS {} exReq).lib.seeder.defaultSeed = 1 := by
  decide +kernel
-- failure paths: the switch is restored as well
example : (computeDoe exDS {} { exReq with settingsOk := false }).ds.intNorm = false := by decide +kernel
example : (computeDoe { vars := [⟨"a", false, [none], [some 5], none⟩] } {} exReq).result = .error .unbounded := by
  decide +kernel
example : (preRun exDS {} { exReq with seed := some 4 }).lib.samples = [[-3, 2, 2, 1], [-1, 0, 1, 1/2]] := by
  decide +kernel
example : (DS.empty.extend 0 exDS.vars).map boundedOk = some true := by decide +kernel
example : ∀ c ∈ comps exDS, c.2.1.isSome = true ∧ c.2.2.isSome = true :=
  success_implies_finite_bounds exDS {} exReq [[-3, 2, 2, 1], [-1, 6, 1, 1/2]] rfl rfl (by decide +kernel)
example : unboundedComponents { vars := [⟨"a", false, [none, some 0], [some 5, some 1], none⟩] } = [0] := by
  decide +kernel
example : firstOcc [[1, 2], [3, 4], [1, 2]] = [[1, 2], [3, 4]] := by decide +kernel
example : (Seeder.run {} [none, none, some 7, none, some 7, some 2]).2 = [1, 2, 7, 4, 7, 2] := by decide +kernel
example : fullfactCount 17 4 = 16 ∧ fullfactCount 1000000 3 = 1000000 ∧ fullfactCount 999999 3 = 970299 := by
  decide +kernel
example : morrisCount 17 4 = some 15 ∧ morrisCount 4 4 = none := by decide +kernel
example : axialCount 40 4 = some 33 ∧ factorialCount 40 4 = some 33 ∧ compositeCount 40 4 = some 25 := by
  decide +kernel
example : sobolIndicesCount 17 4 true = some 10 := by decide +kernel
example : oat (1/4) [1/2, 7/8] = [[1/2, 7/8], [3/4, 7/8], [3/4, 5/8]] := by decide +kernel
example : diagonal 3 [false, true] = [[0, 1], [1/2, 1/2], [1, 0]] := by decide +kernel
example : pydoeFullfact [3, 1, 2] = [[0, 1/2, 0], [1/2, 1/2, 0], [1, 1/2, 0], [0, 1/2, 1], [1/2, 1/2, 1],
    [1, 1/2, 1]] := by decide +kernel
example : List.Forall₂ ValidComp (comps exDS) [5, -2, 3, 3/4] := by
  refine .cons ?_ (.cons ?_ (.cons ?_ (.cons ?_ .nil)))
  all_goals
    refine ⟨by decide +kernel, ?_, ?_, ?_⟩
    · intro l hl; cases hl; decide +kernel
    · intro u hu; cases hu; decide +kernel
    · intro hb; first | decide +kernel | exact absurd hb (by decide)

-- section 7: the history "DOE, remove the float variable x, add the float variable z, DOE" on the
-- object (x float, n integer): same dimension, the integer component moves from column 1 to column 0;
-- the explicit seed 0 reaches the sampler both times (second sample 1/(0+2)), the counter plays no role
def exObj : Session :=
  { cds := { ds := { vars := [⟨"x", false, [some (-1)], [some 4], none⟩, ⟨"n", true, [some 2], [some 9], none⟩] } } }
def exReq2 : Req := { usesSeed := true, seed := some 0, sampler := fun k => some [[1/4, 3/4], [(1 : Rat) / (k + 2), 1/8]] }
def exHist : List SOp :=
  [.doe false exReq2, .edit (.remove "x"), .edit (.add ⟨"z", false, [some (-3)], [some 5], none⟩), .doe true exReq2]
example : CDS.Inv exObj.cds := new_object_invariant _ _
example : (Session.run 0 exObj exHist).2 =
    [.doe (.ok [[1/4, 7], [3/2, 3]]), .none, .none, .doe (.ok [[4, 3], [6, -2]])] := by decide +kernel
example : (Session.run 0 exObj exHist).1.cds.ds.names = ["n", "z"] ∧
    (Session.run 0 exObj exHist).1.lib.seeder.defaultSeed = 2 ∧
    (Session.run 0 exObj exHist).1.lib.samples = [[4, 3], [6, -2]] := by decide +kernel
-- a state in which the flag is set and the stored arrays matter: the user had enabled the switch, so a
-- DOE leaves the cache filled; `rename_variable` keeps it, `set_upper_bound` resets it
def exObj1 : Session := { exObj with cds := { exObj.cds with ds := exObj.cds.ds.setIntNorm true } }
example : (Session.run 0 exObj1 [.doe false exReq2, .edit (.rename "x" "w")]).1.cds.computed = true ∧
    (Session.run 0 exObj1 [.doe false exReq2, .edit (.rename "x" "w")]).1.cds.data.intMask = [false, true] ∧
    (Session.run 0 exObj1 [.doe false exReq2, .edit (.setUb "n" [some 12])]).1.cds.computed = false := by
  decide +kernel
example : (Session.run 0 exObj1 [.doe false exReq2, .edit (.setUb "n" [some 12]), .query [1/2, 1/2], .doe false exReq2]).2
    = [.doe (.ok [[1/4, 7], [3/2, 3]]), .none, .vec [3/2, 7], .doe (.ok [[1/4, 10], [3/2, 3]])] := by decide +kernel
example : boundedOk (Spec.run 0 ⟨exObj.cds.ds, exObj.lib⟩ (exHist.take 3)).1.ds = true := by decide +kernel

-- section 8: the design space (a float, k integer of size 2, b float) and two samples written as a list of
-- dictionaries in two different key orders, and as a dictionary of 2-D arrays in a third order
def exX : Matrix := [[5, -2, 3, 3/4], [-3, 6, 1, 1/2]]
def exDicts : CustomSamples :=
  .dicts [[("b", [3/4]), ("k", [-2, 3]), ("a", [5])], [("k", [6, 1]), ("a", [-3]), ("b", [1/2])]]
def exDict : CustomSamples := .dict [("k", [[-2, 3], [6, 1]]), ("b", [[3/4], [1/2]]), ("a", [[5], [-3]])]
example : exDicts.toMatrix exDS = exX ∧ exDict.toMatrix exDS = exX := by decide +kernel
example : StandsFor exDS exDicts exX := by
  refine .cons ?_ (.cons ?_ .nil) <;> decide +kernel
example : colsOf exDS exX = [("a", [[5], [-3]]), ("k", [[-2, 3], [6, 1]]), ("b", [[3/4], [1/2]])] := by
  decide +kernel
example : StandsFor exDS exDict exX :=
  custom_dict_forms exDS (by decide +kernel) exX _ (by decide +kernel) (by decide +kernel)
example : (computeDoe exDS {} (customReq exDS exDicts)).result = .ok exX ∧
    (preRun exDS {} (customReq exDS exDict)).lib.samples = exX := by decide +kernel
-- in a session: after `remove a; add a` the variable order is k, b, a — the same dictionaries now give
-- the columns in that order
example : ((Session.run 0 ⟨⟨exDS, false, {}⟩, {}⟩
      [.custom false exDicts, .edit (.remove "a"), .edit (.add ⟨"a", false, [some (-3)], [some 5], none⟩)]).1.step 0
      (.custom true exDict)).2 = .doe (.ok [[-2, 3, 3/4, 5], [6, 1, 1/2, -3]]) := by decide +kernel

-- section 9: two sequences, a process history "Halton(8) in dimension 2, then Sobol'(3) in dimension 2"
def exW : ThirdParty :=
  { sequence := fun cls dim i => List.replicate dim (((i : Rat) + 1) / ((cls : Rat) + 2)),
    experiment := fun _ dim n rng => ((List.range n).map (fun i => List.replicate dim (((rng.1 : Rat) + i) / 100)), (rng.1, rng.2 + n * dim)),
    seeded := fun _ dim n k => (List.range n).map (fun i => List.replicate dim (((k : Rat) + i) / 50)),
    design := fun _ dim n => (List.range n).map (fun i => List.replicate dim ((i : Rat) / n)) }
example : (Proc.run exW {} [(⟨.otSequence, 0, 2, 8⟩, 1), (⟨.otSequence, 1, 2, 3⟩, 1), (⟨.otGlobal, 5, 2, 2⟩, 7)]).2.drop 1 =
    [[[1/3, 1/3], [2/3, 2/3], [1, 1]], [[7/100, 7/100], [8/100, 8/100]]] ∧
    (Proc.run exW {} [(⟨.otSequence, 0, 2, 8⟩, 1), (⟨.otGlobal, 5, 2, 2⟩, 7)]).1.otRng = (7, 4) := by decide +kernel

end GV.C14
