/-
C08 — property theorems: execution sequences respect data dependencies and composition is exact.
Only property theorems (and the few definitions needed to state them) live here; helper lemmas are
in `Lemmas/C08*.lean`.

Reading guide (model ↔ code): `sequence ds` is `CouplingStructure(disciplines).sequence` with every
discipline named by its position in the listing; `edge ds i j` is an edge of
`DependencyGraph.__create_graph`.
-/
import GemseoVerif.Lemmas.C08Scc
import GemseoVerif.Lemmas.C08Coupling
import GemseoVerif.Lemmas.C08Chain
import GemseoVerif.Lemmas.C08Perm
import GemseoVerif.Lemmas.C08Lin
import GemseoVerif.Lemmas.C08Par
import GemseoVerif.Lemmas.C08Mda
import GemseoVerif.Lemmas.C08Init
import GemseoVerif.Lemmas.C08Grammar

namespace GV.C08

open Relation

/-! ### The data-dependency graph of the property text -/

/-- `i → j`: two different disciplines, an output of `i` is an input of `j`. -/
def DepEdge (ds : List Disc) (i j : Nat) : Prop :=
  ∃ a b, ds[i]? = some a ∧ ds[j]? = some b ∧ i ≠ j ∧ ∃ v, v ∈ a.outputs ∧ v ∈ b.inputs

/-- Mutual dependency: each discipline (transitively) feeds the other. -/
def MutuallyDependent (ds : List Disc) (i j : Nat) : Prop :=
  ReflTransGen (DepEdge ds) i j ∧ ReflTransGen (DepEdge ds) j i

/-- The Boolean edge test of the model is the edge relation of the property text. -/
theorem edge_iff (ds : List Disc) (i j : Nat) : edge ds i j = true ↔ DepEdge ds i j := by
  unfold edge DepEdge
  split
  · rename_i a b ha hb
    simp only [shared, Bool.and_eq_true, bne_iff_ne, ne_eq, Bool.not_eq_true',
      List.isEmpty_eq_false_iff, ha, hb, Option.some.injEq]
    constructor
    · rintro ⟨hne, hs⟩
      obtain ⟨v, hv⟩ := List.exists_mem_of_ne_nil _ hs
      rw [List.mem_filter] at hv
      exact ⟨a, b, rfl, rfl, hne, v, hv.1, by simpa using hv.2⟩
    · rintro ⟨a', b', rfl, rfl, hne, v, hva, hvb⟩
      exact ⟨hne, List.ne_nil_of_mem (List.mem_filter.2 ⟨hva, by simpa using hvb⟩)⟩
  · rename_i hnone
    constructor
    · intro h; simp at h
    · rintro ⟨a, b, ha, hb, _⟩
      exact absurd hb (by simpa [ha] using hnone a b ha)

theorem adj_edge_eq (ds : List Disc) : Adj (edge ds) = DepEdge ds := by
  funext i j
  exact propext (edge_iff ds i j)

/-! ### Reachability -/

/-- `closure_iff_reflTransGen`: the Boolean closure used by the model to find the strongly
    connected components is exactly the reflexive-transitive closure of the edge relation,
    for every graph on the nodes `< n`. -/
theorem closure_iff_reflTransGen (adj : Nat → Nat → Bool) (n : Nat)
    (hadj : ∀ a b, adj a b = true → b < n) (i j : Nat) (hi : i < n) :
    reach adj n i j = true ↔ ReflTransGen (fun a b => adj a b = true) i j :=
  reach_iff hadj hi j

/-- The component test of the model is mutual dependency. -/
theorem mutualR_iff_mutuallyDependent (ds : List Disc) (i j : Nat) :
    mutualR (edge ds) ds.length i j = true ↔
      i < ds.length ∧ j < ds.length ∧ MutuallyDependent ds i j := by
  rw [(isMutual_edge ds).iff, adj_edge_eq]
  rfl

/-! ### The execution sequence is a valid schedule -/

/-- `each_once`: the flattened execution sequence is a permutation of the disciplines — every
    discipline appears exactly once, none is lost by the peeling loop, whatever the graph. -/
theorem each_once (ds : List Disc) :
    (sequence ds).flatten.flatten.Perm (List.range ds.length) := by
  rw [sequence_eq]
  exact sequenceOf_perm (isMutual_edge ds)

/-- `groups_are_sccs`: two disciplines are in the same group of the sequence iff they are
    mutually dependent ("mutually dependent disciplines, and only those, are grouped"). -/
theorem groups_are_sccs (ds : List Disc) (i j : Nat) (hi : i < ds.length) (hj : j < ds.length) :
    (∃ g ∈ (sequence ds).flatten, i ∈ g ∧ j ∈ g) ↔ MutuallyDependent ds i j := by
  rw [sequence_eq, share_group_iff (isMutual_edge ds) hi, mutualR_iff_mutuallyDependent]
  exact ⟨fun h => h.2.2, fun h => ⟨hi, hj, h⟩⟩

/-- A group of the sequence is a whole class: with one member it contains exactly the
    disciplines mutually dependent with it. -/
theorem group_is_scc (ds : List Disc) (g : List Nat) (hg : g ∈ (sequence ds).flatten)
    (i : Nat) (hi : i ∈ g) (j : Nat) :
    j ∈ g ↔ i < ds.length ∧ j < ds.length ∧ MutuallyDependent ds i j := by
  rw [sequence_eq] at hg
  rw [group_is_class (isMutual_edge ds) hg hi, mutualR_iff_mutuallyDependent]

/-- `producers_strictly_before`: a group is scheduled strictly after every group producing one
    of its inputs — an edge between two different groups goes from a strictly earlier stage to
    a strictly later stage. -/
theorem producers_strictly_before (ds : List Disc) (s t : Nat)
    (hs : s < (sequence ds).length) (ht : t < (sequence ds).length)
    (g g' : List Nat) (hg : g ∈ (sequence ds)[s]) (hg' : g' ∈ (sequence ds)[t])
    (i j : Nat) (hi : i ∈ g) (hj : j ∈ g') (hij : DepEdge ds i j) (hne : g ≠ g') : s < t := by
  have hg1 : g ∈ (sequence ds).flatten := List.mem_flatten.2 ⟨_, List.getElem_mem hs, hg⟩
  have hg1' : g' ∈ (sequence ds).flatten := List.mem_flatten.2 ⟨_, List.getElem_mem ht, hg'⟩
  have hseq := sequence_eq ds
  have hnm : mutualR (edge ds) ds.length i j = false := by
    by_contra hc
    have hc : mutualR (edge ds) ds.length i j = true := by simpa using hc
    rw [hseq] at hg1 hg1'
    exact hne (group_eq_of_mutual (isMutual_edge ds) hg1 hg1' hi hj hc)
  revert hs ht hg hg'
  rw [hseq]
  intro hs ht hg hg'
  exact stage_lt_of_adj (isMutual_edge ds) hs ht hg hg' hi hj ((edge_iff ds i j).2 hij) hnm

/-- `same_stage_independent`: the groups of one stage exchange no data (they can run in
    parallel): no edge between two different groups of the same stage. -/
theorem same_stage_independent (ds : List Disc) (s : Nat) (hs : s < (sequence ds).length)
    (g g' : List Nat) (hg : g ∈ (sequence ds)[s]) (hg' : g' ∈ (sequence ds)[s])
    (i j : Nat) (hi : i ∈ g) (hj : j ∈ g') (hne : g ≠ g') : ¬ DepEdge ds i j := by
  intro hij
  have := producers_strictly_before ds s s hs hs g g' hg hg' i j hi hj hij hne
  omega

/-- The members of a group are in listing order, the documented contract of
    `DependencyGraph.__get_ordered_scc`. -/
theorem group_members_in_listing_order (ds : List Disc) (g : List Nat)
    (hg : g ∈ (sequence ds).flatten) : g.Pairwise (· < ·) := by
  rw [sequence_eq] at hg
  exact group_sorted hg

/-- No stage of the sequence is empty and no group is empty. -/
theorem no_empty_stage_or_group (ds : List Disc) :
    (∀ st ∈ sequence ds, st ≠ []) ∧ (∀ g ∈ (sequence ds).flatten, g ≠ []) := by
  rw [sequence_eq]
  exact ⟨fun st hst => stage_ne_nil hst, fun g hg => group_ne_nil (isMutual_edge ds) hg⟩

/-- `peeling_terminates_on_dag`: the `while True` loop of `get_execution_sequence` needs no more
    rounds than there are components (any larger bound gives the same stages), and — the
    condensation having no cycle — it ends with every component scheduled. -/
theorem peeling_terminates_on_dag (ds : List Disc) (fuel : Nat) :
    let adj := edge ds
    let mu := mutualR adj ds.length
    (reps mu ds.length).length ≤ fuel →
    peel (cedge adj mu ds.length) fuel (reps mu ds.length)
        = peel (cedge adj mu ds.length) (reps mu ds.length).length (reps mu ds.length) ∧
      ∀ a ∈ reps mu ds.length,
        ∃ st ∈ peel (cedge adj mu ds.length) fuel (reps mu ds.length), a ∈ st := by
  intro adj mu hf
  refine ⟨peel_fuel _ _ _ hf (Nat.le_refl _), ?_⟩
  exact peel_complete (rankOf adj ds.length) fuel _
    (fun a ha b hb hab => cedge_rank (isMutual_edge ds) ha hb hab) hf

/-! ### Coupling sets (`couplings_spec`) -/

theorem groupsOk_sequence (ds : List Disc) :
    GroupsOk (mutualR (edge ds) ds.length) ds.length (sequence ds) := by
  rw [sequence_eq]
  exact groupsOk_sequenceOf (isMutual_edge ds)

/-- `strong_couplings` is the strictly increasing list of the names exchanged between two
    mutually dependent disciplines or fed back by a discipline to itself, the producer being a
    strongly coupled discipline (the labels of the edges and self-loops lying on a cycle of the
    graph; see `strongly_coupled_spec` for "strongly coupled"). -/
theorem strong_couplings_spec (ds : List Disc) :
    (strongCouplings ds (sequence ds)).Pairwise (· < ·) ∧
    ∀ v, v ∈ strongCouplings ds (sequence ds) ↔
      ∃ i j, i < ds.length ∧ j < ds.length ∧ MutuallyDependent ds i j ∧
        v ∈ outputsAt ds i ∧ v ∈ inputsAt ds j ∧ i ∈ stronglyCoupled ds (sequence ds) true := by
  refine ⟨sorted_sortDedup _, fun v => ?_⟩
  rw [mem_strongCouplings (groupsOk_sequence ds)]
  constructor
  · rintro ⟨i, j, hij, hvi, hvj, hsc⟩
    obtain ⟨hi, hj, hm⟩ := (mutualR_iff_mutuallyDependent ds i j).1 hij
    exact ⟨i, j, hi, hj, hm, hvi, hvj, hsc⟩
  · rintro ⟨i, j, hi, hj, hm, hvi, hvj, hsc⟩
    exact ⟨i, j, (mutualR_iff_mutuallyDependent ds i j).2 ⟨hi, hj, hm⟩, hvi, hvj, hsc⟩

/-- Without state variables the side condition of `strong_couplings_spec` is automatic: a name
    exchanged between mutually dependent disciplines is a strong coupling. -/
theorem strong_couplings_of_edge_on_cycle (ds : List Disc) (i j : Nat) (v : String)
    (hi : i < ds.length) (hj : j < ds.length) (hm : MutuallyDependent ds i j)
    (hvi : v ∈ outputsAt ds i) (hvj : v ∈ inputsAt ds j) (hst : v ∉ statesAt ds i) :
    v ∈ strongCouplings ds (sequence ds) := by
  rw [(strong_couplings_spec ds).2]
  refine ⟨i, j, hi, hj, hm, hvi, hvj, ?_⟩
  rw [mem_stronglyCoupled (groupsOk_sequence ds)]
  refine ⟨hi, ?_⟩
  by_cases hij : j = i
  · subst hij
    exact Or.inr (selfCoupledAt_iff.2 ⟨v, hvi, hvj, hst⟩)
  · exact Or.inl ⟨j, hij, (mutualR_iff_mutuallyDependent ds i j).2 ⟨hi, hj, hm⟩⟩

/-- `strongly_coupled_disciplines` are exactly the disciplines on a cycle: mutually dependent
    with another discipline, or self-coupled. -/
theorem strongly_coupled_spec (ds : List Disc) (i : Nat) :
    i ∈ stronglyCoupled ds (sequence ds) true ↔
      i < ds.length ∧ ((∃ j, j ≠ i ∧ j < ds.length ∧ MutuallyDependent ds i j) ∨
        selfCoupledAt ds i = true) := by
  rw [mem_stronglyCoupled (groupsOk_sequence ds)]
  constructor
  · rintro ⟨hi, h | h⟩
    · obtain ⟨j, hji, hij⟩ := h
      obtain ⟨_, hj, hm⟩ := (mutualR_iff_mutuallyDependent ds i j).1 hij
      exact ⟨hi, Or.inl ⟨j, hji, hj, hm⟩⟩
    · exact ⟨hi, Or.inr h⟩
  · rintro ⟨hi, h | h⟩
    · obtain ⟨j, hji, hj, hm⟩ := h
      exact ⟨hi, Or.inl ⟨j, hji, (mutualR_iff_mutuallyDependent ds i j).2 ⟨hi, hj, hm⟩⟩⟩
    · exact ⟨hi, Or.inr h⟩

/-- Every discipline is either strongly or weakly coupled, never both. -/
theorem weakly_coupled_iff_not_strongly (ds : List Disc) (i : Nat) :
    i ∈ weaklyCoupled ds (sequence ds) ↔
      i < ds.length ∧ i ∉ stronglyCoupled ds (sequence ds) true := by
  rw [mem_weaklyCoupled (groupsOk_sequence ds), mem_stronglyCoupled (groupsOk_sequence ds)]
  constructor
  · rintro ⟨hi, honly, hsc⟩
    refine ⟨hi, ?_⟩
    rintro ⟨_, ⟨j, hji, hij⟩ | h⟩
    · exact hji (honly j hij)
    · rw [hsc] at h; simp at h
  · rintro ⟨hi, hnot⟩
    refine ⟨hi, ?_, ?_⟩
    · intro j hij
      by_contra hji
      exact hnot ⟨hi, Or.inl ⟨j, hji, hij⟩⟩
    · by_contra hsc
      exact hnot ⟨hi, Or.inr (by simpa using hsc)⟩

/-- `weak_couplings` is the strictly increasing list of the outputs of the disciplines that are
    on no cycle of the graph. -/
theorem weak_couplings_spec (ds : List Disc) :
    (weakCouplings ds (sequence ds)).Pairwise (· < ·) ∧
    ∀ v, v ∈ weakCouplings ds (sequence ds) ↔
      ∃ i, i < ds.length ∧ i ∉ stronglyCoupled ds (sequence ds) true ∧ v ∈ outputsAt ds i := by
  refine ⟨sorted_sortDedup _, fun v => ?_⟩
  unfold weakCouplings
  rw [mem_sortDedup]
  simp only [List.mem_flatMap, weakly_coupled_iff_not_strongly]
  constructor
  · rintro ⟨i, ⟨h1, h2⟩, hv⟩; exact ⟨i, h1, h2, hv⟩
  · rintro ⟨i, h1, h2, hv⟩; exact ⟨i, ⟨h1, h2⟩, hv⟩

/-- `all_couplings` is the strictly increasing list of the names that are an output of a
    discipline and an input of a discipline (all edge and self-loop labels of the graph). -/
theorem all_couplings_spec (ds : List Disc) :
    (allCouplings ds).Pairwise (· < ·) ∧
    ∀ v, v ∈ allCouplings ds ↔ ∃ a ∈ ds, ∃ b ∈ ds, v ∈ a.outputs ∧ v ∈ b.inputs :=
  ⟨sorted_sortDedup _, fun _ => mem_allCouplings⟩

/-- Every strong coupling is a coupling. -/
theorem strong_subset_all (ds : List Disc) (v : String)
    (hv : v ∈ strongCouplings ds (sequence ds)) : v ∈ allCouplings ds := by
  obtain ⟨i, j, _, _, _, hvi, hvj, _⟩ := ((strong_couplings_spec ds).2 v).1 hv
  rw [mem_allCouplings]
  unfold outputsAt at hvi
  unfold inputsAt at hvj
  split at hvi
  · rename_i a ha
    split at hvj
    · rename_i b hb
      exact ⟨a, List.mem_of_getElem? ha, b, List.mem_of_getElem? hb, hvi, hvj⟩
    · simp at hvj
  · simp at hvi

/-- `get_input_couplings` / `get_output_couplings`: the (strictly increasing) names of the
    discipline's inputs / outputs that belong to the given coupling list. -/
theorem io_couplings_spec (ds : List Disc) (i : Nat) (couplings : List String) :
    ((inputCouplings ds i couplings).Pairwise (· < ·) ∧
      ∀ v, v ∈ inputCouplings ds i couplings ↔ v ∈ inputsAt ds i ∧ v ∈ couplings) ∧
    ((outputCouplings ds i couplings).Pairwise (· < ·) ∧
      ∀ v, v ∈ outputCouplings ds i couplings ↔ v ∈ outputsAt ds i ∧ v ∈ couplings) := by
  refine ⟨⟨sorted_sortDedup _, fun v => ?_⟩, ⟨sorted_sortDedup _, fun v => ?_⟩⟩
  · simp [inputCouplings, mem_sortDedup, List.mem_filter]
  · simp [outputCouplings, mem_sortDedup, List.mem_filter]

/-- `find_discipline`: the first discipline of the listing producing the output; it fails
    (`ValueError`) exactly when no discipline produces it. -/
theorem find_discipline_spec (ds : List Disc) (v : String) :
    (∀ i, findDiscipline ds v = some i →
      i < ds.length ∧ v ∈ outputsAt ds i ∧ ∀ j < i, v ∉ outputsAt ds j) ∧
    (findDiscipline ds v = none ↔ ∀ i < ds.length, v ∉ outputsAt ds i) := by
  unfold findDiscipline
  constructor
  · intro i hi
    rw [List.find?_eq_some_iff_append] at hi
    obtain ⟨hv, as, bs, hsplit, hnot⟩ := hi
    have hmem : i ∈ List.range ds.length := by rw [hsplit]; simp
    refine ⟨List.mem_range.1 hmem, by simpa using hv, ?_⟩
    intro j hj
    -- j < i is in the prefix `as` of the range
    have hsorted : (List.range ds.length).Pairwise (· < ·) := List.pairwise_lt_range
    rw [hsplit, List.pairwise_append] at hsorted
    have hjr : j ∈ List.range ds.length := List.mem_range.2 (by have := List.mem_range.1 hmem; omega)
    rw [hsplit] at hjr
    rcases List.mem_append.1 hjr with hja | hjb
    · simpa using hnot j hja
    · exfalso
      rcases List.mem_cons.1 hjb with rfl | hjb
      · omega
      · have := (List.pairwise_cons.1 hsorted.2.1).1 j hjb
        omega
  · rw [List.find?_eq_none]
    simp [List.mem_range]

/-! ### Composition is exact (`chain_equals_monolithic`) -/

/-- The flattened execution sequence is a topological order of the groups: no discipline of a
    group feeds a discipline of a group executed before it, and the groups are pairwise
    disjoint. This is what makes sequential execution of the sequence legitimate. -/
theorem sequence_is_topological (ds : List Disc) :
    (sequence ds).flatten.Pairwise
      (fun b c => (∀ j ∈ b, ∀ i ∈ c, ¬ DepEdge ds i j) ∧ ∀ i ∈ b, i ∉ c) := by
  have h1 := sequenceOf_topological (isMutual_edge ds)
  have h2 : (sequence ds).flatten.Pairwise List.Disjoint :=
    (List.nodup_flatten.1 ((each_once ds).nodup_iff.2 List.nodup_range)).2
  rw [← sequence_eq] at h1
  refine (h1.and h2).imp ?_
  rintro b c ⟨hadj, hdisj⟩
  refine ⟨fun j hj i hi hdep => ?_, fun i hib hic => hdisj hib hic⟩
  have := hadj j hj i hi
  rw [(edge_iff ds i j).2 hdep] at this
  simp at this

/-- Blocks attached to the groups of the sequence (a discipline, or the inner MDA of a group),
    executed in the order of the sequence, form a valid schedule: no block writes a name that an
    earlier block reads or writes — provided each output is computed by one discipline only
    (`check_disciplines_consistency`) and a block reads/writes only names of its members. -/
theorem sequence_schedule_valid (ds : List Disc) (spec : List Nat → BlockSpec)
    (hcons : ∀ i j v, i ≠ j → v ∈ outputsAt ds i → v ∉ outputsAt ds j)
    (hw : ∀ g k, k ∈ (spec g).writes → ∃ i ∈ g, k ∈ outputsAt ds i)
    (he : ∀ g k, k ∈ (spec g).ext → ∃ i ∈ g, k ∈ inputsAt ds i) :
    ((sequence ds).flatten.map spec).Pairwise NoBackWrite := by
  rw [List.pairwise_map]
  refine (sequence_is_topological ds).imp ?_
  rintro b c ⟨htopo, hdisj⟩ k hkc hkb
  obtain ⟨i, hic, hki⟩ := hw c k hkc
  rcases List.mem_append.1 hkb with hkb | hkb
  · obtain ⟨j, hjb, hkj⟩ := he b k hkb
    have hij : i ≠ j := fun e => hdisj j hjb (e ▸ hic)
    apply htopo j hjb i hic
    unfold outputsAt at hki
    unfold inputsAt at hkj
    split at hki
    · rename_i a ha
      split at hkj
      · rename_i b' hb'
        exact ⟨a, b', ha, hb', hij, k, hki, hkj⟩
      · simp at hkj
    · simp at hki
  · obtain ⟨j, hjb, hkj⟩ := hw b k hkb
    have hij : i ≠ j := fun e => hdisj j hjb (e ▸ hic)
    exact hcons i j k hij hki hkj

/-- `chain_equals_monolithic`: executing the blocks of a valid schedule one after the other
    (`MDOChain._execute`) returns data in which the equations of *all* blocks hold at once, and
    this data is the only one with that property that agrees with the input data on the names
    no block computes — i.e. the chain returns the same data as evaluating the whole system at
    once. (Acyclic case: a block is a discipline and its equation is `out = f(inputs)`; cyclic
    case: a block is a group and its equations are those of its inner MDA.) -/
theorem chain_equals_monolithic (bs : List BlockSpec) (e : Env)
    (hvalid : bs.Pairwise NoBackWrite)
    (hpre : ∀ pre b post, bs = pre ++ b :: post → b.Pre (chainEval (pre.map (·.run)) e))
    (hself : ∀ b ∈ bs, ∀ k ∈ b.ext, k ∉ b.writes) :
    (∀ b ∈ bs, b.Sat (chainEval (bs.map (·.run)) e)) ∧
    ∀ e' : Env, (∀ b ∈ bs, b.Sat e') →
      (∀ k, (∀ b ∈ bs, k ∉ b.writes) → e'.val k = e.val k) →
      ∀ k, e'.val k = (chainEval (bs.map (·.run)) e).val k := by
  have hsat := chain_satisfies_all bs e hvalid hpre
  refine ⟨hsat, fun e' hsat' hsame => ?_⟩
  apply chain_unique bs e e' hsat hsat' hsame ?_ hself
  refine hvalid.imp ?_
  intro b c hbc k hkb hkc
  exact hbc k hkc (List.mem_append_left _ hkb)

/-- The blocks attached to the groups of one stage are pairwise independent (none writes a name
    another one reads or writes): they may run in parallel (`mdachain_parallelize_tasks`). -/
theorem stage_blocks_independent (ds : List Disc) (spec : List Nat → BlockSpec)
    (hcons : ∀ i j v, i ≠ j → v ∈ outputsAt ds i → v ∉ outputsAt ds j)
    (hw : ∀ g k, k ∈ (spec g).writes → ∃ i ∈ g, k ∈ outputsAt ds i)
    (he : ∀ g k, k ∈ (spec g).ext → ∃ i ∈ g, k ∈ inputsAt ds i)
    (s : Nat) (hs : s < (sequence ds).length) :
    ((sequence ds)[s].map spec).Pairwise Independent := by
  have hnd : ((sequence ds)[s]).Nodup := by
    have := (List.nodup_flatten.1 ((each_once ds).nodup_iff.2 List.nodup_range)).1
    have hsub : ((sequence ds)[s]).Sublist (sequence ds).flatten :=
      List.sublist_flatten_of_mem (List.getElem_mem hs)
    have hfl : (sequence ds).flatten.Nodup := by
      rw [sequence_eq]; exact sequenceOf_flatten_nodup (isMutual_edge ds)
    exact hfl.sublist hsub
  rw [List.pairwise_map]
  refine List.Pairwise.imp_of_mem ?_ hnd
  intro b c hb hc hbc
  have hbf : b ∈ (sequence ds).flatten := List.mem_flatten.2 ⟨_, List.getElem_mem hs, hb⟩
  have hcf : c ∈ (sequence ds).flatten := List.mem_flatten.2 ⟨_, List.getElem_mem hs, hc⟩
  have hdisj : ∀ i ∈ b, i ∉ c := by
    have hbf' := hbf; have hcf' := hcf
    rw [sequence_eq] at hbf' hcf'
    exact groups_disjoint_of_ne (isMutual_edge ds) hbf' hcf' hbc
  -- no name written by a member of `x` is read or written by a member of `y`, for x ≠ y in the stage
  have key : ∀ x y, x ∈ (sequence ds)[s] → y ∈ (sequence ds)[s] → x ≠ y → (∀ i ∈ x, i ∉ y) →
      ∀ k ∈ (spec x).writes, k ∉ (spec y).ext ++ (spec y).writes := by
    intro x y hx hy hxy hd k hkx hky
    obtain ⟨i, hix, hki⟩ := hw x k hkx
    rcases List.mem_append.1 hky with hky | hky
    · obtain ⟨j, hjy, hkj⟩ := he y k hky
      have hij : i ≠ j := fun e => hd i hix (e ▸ hjy)
      apply same_stage_independent ds s hs x y hx hy i j hix hjy hxy
      unfold outputsAt at hki
      unfold inputsAt at hkj
      split at hki
      · rename_i a ha
        split at hkj
        · rename_i b' hb'
          exact ⟨a, b', ha, hb', hij, k, hki, hkj⟩
        · simp at hkj
      · simp at hki
    · obtain ⟨j, hjy, hkj⟩ := hw y k hky
      have hij : i ≠ j := fun e => hd i hix (e ▸ hjy)
      exact hcons i j k hij hki hkj
  exact ⟨key c b hc hb (Ne.symm hbc) (fun i hic hib => hdisj i hib hic),
    key b c hb hc hbc hdisj⟩

/-- `parallel_equals_sequential`: independent blocks executed on the same input data with their
    outputs merged afterwards (`MDOParallelChain._execute`) return the same data as the blocks
    executed one after the other (`MDOChain._execute`). -/
theorem parallel_equals_sequential (bs : List BlockSpec) (e : Env)
    (hind : bs.Pairwise Independent)
    (hcongr : ∀ b ∈ bs, ∀ e e' : Env, (∀ k ∈ b.ext ++ b.writes, e.val k = e'.val k) →
      ∀ k ∈ b.writes, (b.run e).val k = (b.run e').val k)
    (hdef : ∀ b ∈ bs, ∀ k ∈ b.writes, ((b.run e).val k).isSome) :
    ∀ k, (parEval (bs.map (fun b => (b.run, b.writes))) e).val k =
      (chainEval (bs.map (·.run)) e).val k :=
  par_eq_seq bs e hind hcongr hdef

/-- `MDAChain` with sequential tasks is the chain of the blocks (discipline or inner MDA) of the
    flattened sequence; with parallel tasks (`mdachain_parallelize_tasks`) it returns the same
    data, provided the blocks of each stage are independent (`stage_blocks_independent`), their
    outputs only depend on their own footprint and are defined whenever `Inv` holds. -/
theorem mda_chain_is_chain_of_blocks (seq : List (List (List Nat))) (spec : List Nat → BlockSpec)
    (run : Nat → Block) (requiresMda : List Nat → Bool) (solve : List Nat → Block)
    (hrun : ∀ g, (spec g).run = blockOfGroup run requiresMda solve g) (e : Env) :
    mdaChainEval seq run requiresMda solve (fun g => (spec g).writes) false e =
        chainEval (seq.flatten.map (blockOfGroup run requiresMda solve)) e ∧
    ∀ (Inv : Env → Prop), (∀ e e', Env.Same e e' → Inv e → Inv e') →
      (∀ g e, Inv e → Inv ((spec g).run e)) →
      (∀ g e e', Env.Same e e' → Env.Same ((spec g).run e) ((spec g).run e')) →
      (∀ g, ∀ e e' : Env, (∀ k ∈ (spec g).ext ++ (spec g).writes, e.val k = e'.val k) →
        ∀ k ∈ (spec g).writes, ((spec g).run e).val k = ((spec g).run e').val k) →
      (∀ g e, Inv e → ∀ k ∈ (spec g).writes, (((spec g).run e).val k).isSome) →
      (∀ st ∈ seq, (st.map spec).Pairwise Independent) → Inv e →
      Env.Same (mdaChainEval seq run requiresMda solve (fun g => (spec g).writes) true e)
        (chainEval (seq.flatten.map (blockOfGroup run requiresMda solve)) e) :=
  ⟨mdaChainEval_seq seq run requiresMda solve _ e,
   fun Inv h1 h2 h3 h4 h5 h6 h7 =>
     mdaChainEval_par seq spec run requiresMda solve hrun Inv h1 h2 h3 h4 h5 h6 e h7⟩

/-- `chain_equals_monolithic` for `MDAChain`: executing the processes built from
    `CouplingStructure.sequence` (a discipline for a weakly coupled one, an inner MDA for a
    group) returns data in which the equations of every discipline and every group hold, and it is
    the only such data extending the inputs — whatever the listing order (the statement holds
    for every `ds`). Assumptions: each output is computed by one discipline, a block reads /
    writes only names of its members and does not read its own outputs from outside, and each
    block finds what it needs when its turn comes (`Pre`). -/
theorem mda_chain_equals_monolithic (ds : List Disc) (spec : List Nat → BlockSpec)
    (run : Nat → Block) (requiresMda : List Nat → Bool) (solve : List Nat → Block)
    (outsOf : List Nat → List String)
    (hrun : ∀ g, (spec g).run = blockOfGroup run requiresMda solve g)
    (hcons : ∀ i j v, i ≠ j → v ∈ outputsAt ds i → v ∉ outputsAt ds j)
    (hw : ∀ g k, k ∈ (spec g).writes → ∃ i ∈ g, k ∈ outputsAt ds i)
    (he : ∀ g k, k ∈ (spec g).ext → ∃ i ∈ g, k ∈ inputsAt ds i)
    (hself : ∀ g, ∀ k ∈ (spec g).ext, k ∉ (spec g).writes)
    (e : Env)
    (hpre : ∀ pre b post, (sequence ds).flatten.map spec = pre ++ b :: post →
      b.Pre (chainEval (pre.map (·.run)) e)) :
    (∀ g ∈ (sequence ds).flatten,
      (spec g).Sat (mdaChainEval (sequence ds) run requiresMda solve outsOf false e)) ∧
    ∀ e' : Env, (∀ g ∈ (sequence ds).flatten, (spec g).Sat e') →
      (∀ k, (∀ g ∈ (sequence ds).flatten, k ∉ (spec g).writes) → e'.val k = e.val k) →
      ∀ k, e'.val k = (mdaChainEval (sequence ds) run requiresMda solve outsOf false e).val k := by
  have hvalid := sequence_schedule_valid ds spec hcons hw he
  have hruns : ((sequence ds).flatten.map spec).map (·.run) =
      (sequence ds).flatten.map (blockOfGroup run requiresMda solve) := by
    rw [List.map_map]; apply List.map_congr_left; intro g _; simp [Function.comp, hrun]
  obtain ⟨h1, h2⟩ := chain_equals_monolithic ((sequence ds).flatten.map spec) e hvalid hpre
    (fun b hb => by obtain ⟨g, _, rfl⟩ := List.mem_map.1 hb; exact hself g)
  rw [mdaChainEval_seq, ← hruns]
  refine ⟨fun g hg => h1 _ (List.mem_map.2 ⟨g, hg, rfl⟩), fun e' hsat hsame => ?_⟩
  apply h2 e'
  · intro b hb; obtain ⟨g, hg, rfl⟩ := List.mem_map.1 hb; exact hsat g hg
  · intro k hk
    exact hsame k (fun g hg => hk _ (List.mem_map.2 ⟨g, hg, rfl⟩))

/-- `chain_equals_monolithic` for the affine disciplines the driver executes (`LinDisc.run`, the
    model of the harness discipline): if the listing is a valid schedule (no discipline writes a
    name read or written by an earlier one) and every input is given or computed earlier, the
    data returned by the chain satisfies every equation `out = const + Σ coef · input`, and it is
    the only such data extending the inputs: the exact monolithic solution. -/
theorem lin_chain_equals_monolithic (lds : List WFLin) (e : Env)
    (hvalid : lds.Pairwise (fun b c => ∀ k ∈ c.1.writes, k ∉ b.1.reads ∧ k ∉ b.1.writes))
    (hav : InputsAvailable lds e) :
    (∀ d ∈ lds, ∀ o ∈ d.1.outs, ∃ v,
        o.eval (chainEval (lds.map (fun d => d.1.run)) e) = some v ∧
        (chainEval (lds.map (fun d => d.1.run)) e).val o.name = some v) ∧
    ∀ e' : Env,
      (∀ d ∈ lds, ∀ o ∈ d.1.outs, ∃ v, o.eval e' = some v ∧ e'.val o.name = some v) →
      (∀ k, (∀ d ∈ lds, k ∉ d.1.writes) → e'.val k = e.val k) →
      ∀ k, e'.val k = (chainEval (lds.map (fun d => d.1.run)) e).val k := by
  have hv : (linBlocks lds).Pairwise NoBackWrite := by
    unfold linBlocks
    rw [List.pairwise_map]
    refine hvalid.imp ?_
    intro b c hbc k hkc hkb
    rcases List.mem_append.1 hkb with h | h
    · exact (hbc k hkc).1 h
    · exact (hbc k hkc).2 h
  have hself : ∀ b ∈ linBlocks lds, ∀ k ∈ b.ext, k ∉ b.writes := by
    intro b hb k hk
    obtain ⟨d, _, rfl⟩ := List.mem_map.1 hb
    exact d.2.not_self k hk
  obtain ⟨h1, h2⟩ := chain_equals_monolithic (linBlocks lds) e hv (linBlocks_pre lds e hav) hself
  rw [linBlocks_run] at h1 h2
  refine ⟨fun d hd => h1 _ (List.mem_map.2 ⟨d, hd, rfl⟩), fun e' hsat' hsame => ?_⟩
  apply h2 e'
  · intro b hb
    obtain ⟨d, hd, rfl⟩ := List.mem_map.1 hb
    exact hsat' d hd
  · intro k hk
    apply hsame k
    intro d hd
    exact hk _ (List.mem_map.2 ⟨d, hd, rfl⟩)

/-! ### Chain grammars and the initialization order -/

/-- `MDOChain._initialize_grammars`: the inputs of a chain are exactly the names read by a
    discipline and produced by no earlier discipline, its outputs are all the outputs; so giving
    a value to every chain input makes every discipline find its inputs when its turn comes. -/
theorem chain_grammar_spec (ds : List Disc) :
    (∀ v, v ∈ (chainGrammar ds).1 ↔
      ∃ pre d post, ds = pre ++ d :: post ∧ v ∈ d.inputs ∧ ∀ d' ∈ pre, v ∉ d'.outputs) ∧
    (∀ v, v ∈ (chainGrammar ds).2 ↔ ∃ d ∈ ds, v ∈ d.outputs) ∧
    (∀ given : String → Prop, (∀ k ∈ (chainGrammar ds).1, given k) →
      ∀ pre d post, ds = pre ++ d :: post → ∀ k ∈ d.inputs,
        given k ∨ ∃ d' ∈ pre, k ∈ d'.outputs) :=
  ⟨mem_chainGrammar_inputs ds, mem_chainGrammar_outputs ds, chainGrammar_inputs_suffice ds⟩

/-- `order_disciplines_from_default_inputs` is sound and complete: when it returns, the order is
    a permutation of the disciplines in which every discipline finds each of its inputs among its
    defaults, the names available at run time or the outputs of earlier disciplines; and it
    returns (does not raise) whenever such an order exists. -/
theorem init_order_spec (ds : List Disc) (defaults : Nat → List String) (avail : List String) :
    (∀ order, initOrder ds defaults ds.length (List.range ds.length) avail = some order →
      order.Perm (List.range ds.length) ∧ ValidOrder ds defaults avail order) ∧
    ((∃ order, order.Perm (List.range ds.length) ∧ ValidOrder ds defaults avail order) →
      (initOrder ds defaults ds.length (List.range ds.length) avail).isSome) := by
  refine ⟨fun order h => ⟨?_, ?_⟩, fun hex => ?_⟩
  · exact initOrder_perm ds defaults _ _ avail order List.nodup_range h
  · exact initOrder_valid ds defaults _ _ avail order h
  · exact initOrder_complete ds defaults _ _ avail (by simp) hex

/-- Closing the loop for `MDOChain` on affine disciplines: if the data gives a value to every
    input of the chain (`chainGrammar`, what `MDOChain` requires/defaults), every discipline
    finds its inputs — the availability hypothesis of `lin_chain_equals_monolithic` holds. -/
theorem chain_inputs_make_available (lds : List WFLin) (e : Env)
    (hreads : ∀ d ∈ lds, ∀ k ∈ d.1.reads, k ∈ d.1.disc.inputs)
    (houts : ∀ d ∈ lds, ∀ k ∈ d.1.disc.outputs, k ∈ d.1.writes)
    (hdef : ∀ k ∈ (chainGrammar (lds.map (fun d => d.1.disc))).1, (e.val k).isSome) :
    InputsAvailable lds e := by
  intro pre d post hsplit k hk
  have hd : d ∈ lds := by rw [hsplit]; simp
  have hsplit' : lds.map (fun d => d.1.disc) =
      pre.map (fun d => d.1.disc) ++ d.1.disc :: post.map (fun d => d.1.disc) := by
    rw [hsplit]; simp
  rcases chainGrammar_inputs_suffice _ (fun k => (e.val k).isSome = true) hdef _ _ _ hsplit' k
      (hreads d hd k hk) with h | ⟨d', hd', hk'⟩
  · exact Or.inl h
  · obtain ⟨x, hx, rfl⟩ := List.mem_map.1 hd'
    have hxl : x ∈ lds := by rw [hsplit]; simp [hx]
    exact Or.inr ⟨x, hx, houts x hxl k hk'⟩

/-! ### The listing order does not matter (`order_invariance`) -/

/-- Mutual dependency is a property of the disciplines, not of the order in which they are
    listed. -/
theorem mutuallyDependent_relisting (ds ds' : List Disc) (σ τ : Nat → Nat)
    (h : Relisting ds ds' σ τ) (i j : Nat) (hi : i < ds.length) (hj : j < ds.length) :
    MutuallyDependent ds' i j ↔ MutuallyDependent ds (σ i) (σ j) := by
  unfold MutuallyDependent
  rw [← adj_edge_eq, ← adj_edge_eq, h.rtg_iff hi hj, h.rtg_iff hj hi]

/-- `order_invariance`: listing the same disciplines in another order (`ds'[i] = ds[σ i]`) gives
    the same groups as sets — each group of the new sequence is, up to the renumbering, a group
    of the old one — and the new sequence is again a valid schedule (`each_once`,
    `groups_are_sccs`, `producers_strictly_before` hold for every listing, hence for `ds'`). -/
theorem order_invariance (ds ds' : List Disc) (σ τ : Nat → Nat) (h : Relisting ds ds' σ τ) :
    (∀ g' ∈ (sequence ds').flatten, ∃ g ∈ (sequence ds).flatten,
        ∀ j, j < ds.length → (j ∈ g' ↔ σ j ∈ g)) ∧
    (∀ g ∈ (sequence ds).flatten, ∃ g' ∈ (sequence ds').flatten,
        ∀ k, k < ds.length → (k ∈ g ↔ τ k ∈ g')) := by
  have key : ∀ (ds ds' : List Disc) (σ τ : Nat → Nat), Relisting ds ds' σ τ →
      ∀ g' ∈ (sequence ds').flatten, ∃ g ∈ (sequence ds).flatten,
        ∀ j, j < ds.length → (j ∈ g' ↔ σ j ∈ g) := by
    intro ds ds' σ τ h g' hg'
    obtain ⟨i, hig'⟩ := List.exists_mem_of_ne_nil _ ((no_empty_stage_or_group ds').2 g' hg')
    have hi' : i < ds'.length := ((group_is_scc ds' g' hg' i hig' i).1 hig').1
    have hi : i < ds.length := h.length_eq ▸ hi'
    obtain ⟨g, hg, hσi⟩ : ∃ g ∈ (sequence ds).flatten, σ i ∈ g := by
      have := (each_once ds).mem_iff.2 (List.mem_range.2 (h.σ_lt i hi))
      simpa [List.mem_flatten] using this
    refine ⟨g, hg, fun j hj => ?_⟩
    rw [group_is_scc ds' g' hg' i hig' j, group_is_scc ds g hg (σ i) hσi (σ j),
      mutuallyDependent_relisting ds ds' σ τ h i j hi hj, h.length_eq]
    constructor
    · rintro ⟨_, _, hm⟩; exact ⟨h.σ_lt i hi, h.σ_lt j hj, hm⟩
    · rintro ⟨_, _, hm⟩; exact ⟨hi, hj, hm⟩
  refine ⟨key ds ds' σ τ h, ?_⟩
  have := key ds' ds τ σ h.symm
  intro g hg
  obtain ⟨g', hg', hiff⟩ := this g hg
  exact ⟨g', hg', fun k hk => hiff k (h.length_eq ▸ hk)⟩

/-- `order_invariance`, stages: the stage at which a discipline is scheduled does not depend on
    the listing order either — discipline `i` of the new listing is at stage `k` of the new
    sequence iff the same discipline (`σ i` in the old listing) is at stage `k` of the old one.
    Together with `order_invariance` (same groups): the sequences of two listings of the same
    disciplines are equal as lists of sets of sets. -/
theorem stage_order_invariance (ds ds' : List Disc) (σ τ : Nat → Nat) (h : Relisting ds ds' σ τ)
    (k i : Nat) (hi : i < ds.length) :
    Renumber.InStage (sequence ds') k i ↔ Renumber.InStage (sequence ds) k (σ i) := by
  rw [sequence_eq, sequence_eq]
  have := h.renumber.inStage_iff k i hi
  rw [h.length_eq] at this ⊢
  exact this

/-! ### Non-vacuity: a five-discipline example with a cycle, a self-loop and an isolated discipline -/

/-- `A: x ↦ a`, `B: a,c ↦ b`, `C: b ↦ c`, `D: c,d ↦ d`, `E` without data. -/
def exampleDiscs : List Disc :=
  [⟨"A", ["x"], ["a"], []⟩, ⟨"B", ["a", "c"], ["b"], []⟩, ⟨"C", ["b"], ["c"], []⟩,
   ⟨"D", ["c", "d"], ["d"], []⟩, ⟨"E", [], [], []⟩]

example : sequence exampleDiscs = [[[0]], [[1, 2]], [[3], [4]]] := by decide +kernel

-- hypotheses of `producers_strictly_before` are satisfiable: A feeds the group {B, C}
example : DepEdge exampleDiscs 0 1 := (edge_iff exampleDiscs 0 1).1 (by decide +kernel)
example : ([0] : List Nat) ≠ [1, 2] := by decide
-- B and C are mutually dependent
example : mutualR (edge exampleDiscs) exampleDiscs.length 1 2 = true := by decide +kernel
-- the coupling sets of the example: b, c inside the cycle, d fed back by D, a from the acyclic part
example : strongCouplings exampleDiscs (sequence exampleDiscs) = ["b", "c", "d"] := by decide +kernel
example : weakCouplings exampleDiscs (sequence exampleDiscs) = ["a"] := by decide +kernel
example : allCouplings exampleDiscs = ["a", "b", "c", "d"] := by decide +kernel
example : stronglyCoupled exampleDiscs (sequence exampleDiscs) true = [1, 2, 3] := by decide +kernel
example : weaklyCoupled exampleDiscs (sequence exampleDiscs) = [0, 4] := by decide +kernel
-- if `d` is a state variable of D, D is no longer self-coupled: weakly coupled, `d` a weak coupling
def exampleDiscsState : List Disc :=
  [⟨"A", ["x"], ["a"], []⟩, ⟨"B", ["a", "c"], ["b"], []⟩, ⟨"C", ["b"], ["c"], []⟩,
   ⟨"D", ["c", "d"], ["d"], ["d"]⟩, ⟨"E", [], [], []⟩]
example : strongCouplings exampleDiscsState (sequence exampleDiscsState) = ["b", "c"] := by
  decide +kernel
example : weakCouplings exampleDiscsState (sequence exampleDiscsState) = ["a", "d"] := by
  decide +kernel

/-- The same disciplines listed backwards. -/
def exampleDiscsRev : List Disc := exampleDiscs.reverse

example : Relisting exampleDiscs exampleDiscsRev (fun i => 4 - i) (fun i => 4 - i) where
  length_eq := by decide
  σ_lt := by intro i hi; simp [exampleDiscs] at hi ⊢; omega
  τ_lt := by intro i hi; simp [exampleDiscs] at hi ⊢; omega
  τσ := by intro i hi; simp [exampleDiscs] at hi; omega
  στ := by intro i hi; simp [exampleDiscs] at hi; omega
  get := by
    intro i hi
    simp [exampleDiscs] at hi
    have : i = 0 ∨ i = 1 ∨ i = 2 ∨ i = 3 ∨ i = 4 := by omega
    rcases this with rfl | rfl | rfl | rfl | rfl <;> rfl
-- the groups are the same sets, numbered differently, at the same stages
example : sequence exampleDiscsRev = [[[4]], [[2, 3]], [[0], [1]]] := by decide +kernel
example : Renumber.InStage (sequence exampleDiscsRev) 1 3 := ⟨[2, 3], by decide +kernel, by decide⟩
example : Renumber.InStage (sequence exampleDiscs) 1 (4 - 3) := ⟨[1, 2], by decide +kernel, by decide⟩

-- grammars and initialization order of the five-discipline example
example : chainGrammar exampleDiscs = (["x", "c", "d"], ["a", "b", "c", "d"]) := by decide +kernel
example : initOrder exampleDiscs (fun i => if i = 1 then ["c"] else if i = 3 then ["d"] else [])
    5 (List.range 5) ["x"] = some [0, 1, 2, 3, 4] := by decide +kernel
-- without a default value for `c`, B and C wait for each other: no order exists
example : initOrder exampleDiscs (fun i => if i = 3 then ["d"] else [])
    5 (List.range 5) ["x"] = none := by decide +kernel

/-! ### Non-vacuity of the composition theorems: `A: a = 1 + 2x`, `B: b = 3a`, input `x = 3` -/

def exA : LinDisc := ⟨⟨"A", ["x"], ["a"], []⟩, [⟨"a", 1, [("x", 2)]⟩]⟩
def exB : LinDisc := ⟨⟨"B", ["a"], ["b"], []⟩, [⟨"b", 0, [("a", 3)]⟩]⟩

theorem exA_wf : exA.WF := ⟨by decide, by decide⟩
theorem exB_wf : exB.WF := ⟨by decide, by decide⟩

def exChain : List WFLin := [⟨exA, exA_wf⟩, ⟨exB, exB_wf⟩]

-- the listing A, B is a valid schedule and every input is available …
example : exChain.Pairwise (fun b c => ∀ k ∈ c.1.writes, k ∉ b.1.reads ∧ k ∉ b.1.writes) := by
  decide
example : InputsAvailable exChain [("x", 3)] := by
  intro pre d post hsplit k hk
  match pre, hsplit with
  | [], h =>
    simp only [exChain, List.nil_append, List.cons.injEq] at h
    obtain ⟨rfl, _⟩ := h
    left
    simp [LinDisc.reads, LinOut.reads, exA] at hk
    subst hk; rfl
  | [p], h =>
    simp only [exChain, List.cons_append, List.nil_append, List.cons.injEq] at h
    obtain ⟨rfl, rfl, _⟩ := h
    right
    exact ⟨_, List.mem_singleton.2 rfl, by
      simp [LinDisc.reads, LinOut.reads, exB] at hk
      subst hk; decide⟩
  | _ :: _ :: _, h =>
    simp [exChain] at h
-- … and the chain computes a = 7, b = 21
example : (chainEval (exChain.map (fun d => d.1.run)) [("x", 3)]).val "b" = some 21 := by
  decide +kernel

/-! ### Processes as disciplines of the MDA chain (`Item`, `requiresMdaK`, `nestedEval`)

A chain of disciplines with a feedback shows a name both as input and as output: for the
dependency graph it is a self-coupled discipline, and the `MDAChain` has to iterate it (one sweep of
the chain is not the solution of its equations). Only an MDA built beforehand is executed as is. -/

/-- When none of the disciplines is an MDA, the kinds do not matter. -/
theorem requiresMdaK_eq_requiresMda (ds : List Disc) (kind : Nat → PKind)
    (h : ∀ i, kind i ≠ PKind.mda) (g : List Nat) :
    requiresMdaK ds kind g = requiresMda ds g := by
  unfold requiresMdaK requiresMda
  match g with
  | [] => rfl
  | [d] =>
    have : (kind d != PKind.mda) = true := by simpa using h d
    simp [this]
  | _ :: _ :: _ => rfl

/-- A self-coupled discipline alone in its group gets an inner MDA exactly when it is not an MDA
    itself: in particular every self-coupled *process* (an `MDOChain` with a feedback) does. -/
theorem singleton_requires_mda_iff (ds : List Disc) (kind : Nat → PKind) (d : Nat) :
    requiresMdaK ds kind [d] = true ↔ selfCoupledAt ds d = true ∧ kind d ≠ PKind.mda := by
  simp [requiresMdaK]

theorem self_coupled_process_requires_mda (ds : List Disc) (kind : Nat → PKind) (d : Nat)
    (hs : selfCoupledAt ds d = true) (hk : kind d = PKind.process) :
    requiresMdaK ds kind [d] = true :=
  (singleton_requires_mda_iff ds kind d).2 ⟨hs, by rw [hk]; decide⟩

theorem groups_of_several_always_require_mda (ds : List Disc) (kind : Nat → PKind)
    (a b : Nat) (r : List Nat) : requiresMdaK ds kind (a :: b :: r) = true := by
  simp [requiresMdaK]

/-- An `MDOChain` is self-coupled for the `MDAChain` exactly when one of its disciplines reads a
    name that no earlier discipline of the chain produces but some discipline of the chain does
    (itself or a later one): a feedback inside the chain. -/
theorem chain_self_coupled_iff_feedback (bs : List Disc) :
    selfCoupled (chainDisc bs) = true ↔
      ∃ pre a post v, bs = pre ++ a :: post ∧ v ∈ a.inputs ∧ (∀ d' ∈ pre, v ∉ d'.outputs) ∧
        ∃ b ∈ bs, v ∈ b.outputs := by
  unfold selfCoupled chainDisc
  simp only [List.any_eq_true, Bool.and_eq_true, List.contains_eq_mem, decide_eq_true_eq,
    List.not_mem_nil, decide_false, Bool.not_false, and_true]
  constructor
  · rintro ⟨v, hin, hout⟩
    obtain ⟨pre, a, post, hs, hva, hp⟩ := (mem_chainGrammar_inputs bs v).1 hin
    exact ⟨pre, a, post, v, hs, hva, hp, (mem_chainGrammar_outputs bs v).1 hout⟩
  · rintro ⟨pre, a, post, v, hs, hva, hp, hb⟩
    exact ⟨v, (mem_chainGrammar_inputs bs v).2 ⟨pre, a, post, hs, hva, hp⟩,
      (mem_chainGrammar_outputs bs v).2 hb⟩

/-- A chain listed in a valid schedule order (nobody reads what a later one or itself produces)
    is not self-coupled: wrapping such disciplines in an `MDOChain` adds no inner MDA. -/
theorem scheduled_chain_not_self_coupled (bs : List Disc)
    (h : ∀ pre a post, bs = pre ++ a :: post → ∀ v ∈ a.inputs, ∀ b ∈ a :: post, v ∉ b.outputs) :
    selfCoupled (chainDisc bs) = false := by
  rw [Bool.eq_false_iff]
  intro hsc
  obtain ⟨pre, a, post, v, hs, hva, hp, b, hb, hvb⟩ := (chain_self_coupled_iff_feedback bs).1 hsc
  rw [hs] at hb
  rcases List.mem_append.1 hb with hb | hb
  · exact hp b hb hvb
  · exact h pre a post hs v hva b hb hvb

/-- The `MDAChain` over one self-coupled process returns what the inner MDA over it returns (the
    solved group), not one execution of the process; an MDA built beforehand is executed once. -/
theorem self_coupled_process_is_solved (ds : List Disc) (kind : Nat → PKind) (d : Nat)
    (run : Nat → Block) (solve : List Nat → Block) (outsOf : List Nat → List String)
    (parallel : Bool) (e : Env)
    (hs : selfCoupledAt ds d = true) (hk : kind d ≠ PKind.mda) :
    mdaChainEval [[[d]]] run (requiresMdaK ds kind) solve outsOf parallel e = solve [d] e := by
  have h := (singleton_requires_mda_iff ds kind d).2 ⟨hs, hk⟩
  simp [mdaChainEval, h]

theorem prebuilt_mda_is_executed_once (ds : List Disc) (kind : Nat → PKind) (d : Nat)
    (run : Nat → Block) (solve : List Nat → Block) (outsOf : List Nat → List String)
    (parallel : Bool) (e : Env) (hk : kind d = PKind.mda) :
    mdaChainEval [[[d]]] run (requiresMdaK ds kind) solve outsOf parallel e = run d e := by
  have h : requiresMdaK ds kind [d] = false := by simp [requiresMdaK, hk]
  simp [mdaChainEval, h]

theorem nestedEval_eq (lds : List LinDisc) (items : List Item) (parallel : Bool) (e : Env) :
    nestedEval lds items parallel e =
      mdaChainEval (sequence (items.map (Item.disc (lds.map (·.disc)))))
        (runItemAt lds items)
        (requiresMdaK (items.map (Item.disc (lds.map (·.disc)))) (kindAt items))
        (fun g => solveGroupBlock lds (membersOf items g))
        (fun g => g.flatMap (outputsAt (items.map (Item.disc (lds.map (·.disc))))))
        parallel e := rfl

/-- `mda_chain_equals_monolithic` for a listing of items (plain disciplines, chains, MDAs built
    beforehand): the data returned by the `MDAChain` satisfies the specification of every block
    and is the only such data extending the inputs. The hypotheses are those of
    `mda_chain_equals_monolithic` read on the grammars of the items. -/
theorem nested_chain_equals_monolithic (lds : List LinDisc) (items : List Item)
    (spec : List Nat → BlockSpec)
    (hrun : ∀ g, (spec g).run =
      blockOfGroup (runItemAt lds items)
        (requiresMdaK (items.map (Item.disc (lds.map (·.disc)))) (kindAt items))
        (fun g => solveGroupBlock lds (membersOf items g)) g)
    (hcons : ∀ i j v, i ≠ j → v ∈ outputsAt (items.map (Item.disc (lds.map (·.disc)))) i →
      v ∉ outputsAt (items.map (Item.disc (lds.map (·.disc)))) j)
    (hw : ∀ g k, k ∈ (spec g).writes →
      ∃ i ∈ g, k ∈ outputsAt (items.map (Item.disc (lds.map (·.disc)))) i)
    (he : ∀ g k, k ∈ (spec g).ext →
      ∃ i ∈ g, k ∈ inputsAt (items.map (Item.disc (lds.map (·.disc)))) i)
    (hself : ∀ g, ∀ k ∈ (spec g).ext, k ∉ (spec g).writes)
    (e : Env)
    (hpre : ∀ pre b post,
      (sequence (items.map (Item.disc (lds.map (·.disc))))).flatten.map spec = pre ++ b :: post →
      b.Pre (chainEval (pre.map (·.run)) e)) :
    (∀ g ∈ (sequence (items.map (Item.disc (lds.map (·.disc))))).flatten,
      (spec g).Sat (nestedEval lds items false e)) ∧
    ∀ e' : Env,
      (∀ g ∈ (sequence (items.map (Item.disc (lds.map (·.disc))))).flatten, (spec g).Sat e') →
      (∀ k, (∀ g ∈ (sequence (items.map (Item.disc (lds.map (·.disc))))).flatten,
        k ∉ (spec g).writes) → e'.val k = e.val k) →
      ∀ k, e'.val k = (nestedEval lds items false e).val k := by
  rw [nestedEval_eq]
  generalize items.map (Item.disc (lds.map (·.disc))) = tds at *
  have h := mda_chain_equals_monolithic tds spec
    (runItemAt lds items)
    (requiresMdaK tds (kindAt items))
    (fun g => solveGroupBlock lds (membersOf items g))
    (fun g => g.flatMap (outputsAt tds))
  have h2 := h hrun
  have h3 := h2 hcons hw he hself e
  have h4 := h3 hpre
  exact h4

/-- The inner MDAs of the `MDAChain` over a listing of items (`inner_mdas`) are exactly the groups
    of the sequence that require an MDA; in particular the singleton group of a self-coupled
    `MDOChain` is one of them, the singleton group of an MDA built beforehand never is. -/
theorem mem_nestedInnerMdas (ds : List Disc) (items : List Item) (g : List Nat) :
    g ∈ nestedInnerMdas ds items ↔
      g ∈ (sequence (items.map (Item.disc ds))).flatten ∧
        requiresMdaK (items.map (Item.disc ds)) (kindAt items) g = true := by
  unfold nestedInnerMdas
  exact List.mem_filter

theorem self_coupled_chain_item_gets_inner_mda (ds : List Disc) (items : List Item) (i : Nat)
    (ms : List Nat) (hi : items[i]? = some (Item.chain ms))
    (hg : [i] ∈ (sequence (items.map (Item.disc ds))).flatten)
    (hs : selfCoupledAt (items.map (Item.disc ds)) i = true) :
    [i] ∈ nestedInnerMdas ds items := by
  rw [mem_nestedInnerMdas]
  refine ⟨hg, (singleton_requires_mda_iff _ _ i).2 ⟨hs, ?_⟩⟩
  simp [kindAt, hi, Item.kind]

theorem prebuilt_mda_item_gets_no_inner_mda (ds : List Disc) (items : List Item) (i : Nat)
    (ms : List Nat) (gs : Bool) (hi : items[i]? = some (Item.mda ms gs)) :
    [i] ∉ nestedInnerMdas ds items := by
  rw [mem_nestedInnerMdas]
  rintro ⟨_, h⟩
  have := ((singleton_requires_mda_iff _ _ i).1 h).2
  simp [kindAt, hi, Item.kind] at this

/-! Non-vacuity and witness: `A: y = 1 + x/2`, `B: x = y/2` wrapped in one `MDOChain [A, B]`.
    The chain reads `x` (nobody produced it before `A`) and produces it: self-coupled. The MDA chain
    solves `x = 2/3, y = 4/3`; one sweep of the chain from `x = 0` gives `x = 1/2, y = 1`. -/

def nA : LinDisc := ⟨⟨"A", ["x"], ["y"], []⟩, [⟨"y", 1, [("x", 1/2)]⟩]⟩
def nB : LinDisc := ⟨⟨"B", ["y"], ["x"], []⟩, [⟨"x", 0, [("y", 1/2)]⟩]⟩
def nItems : List Item := [.chain [0, 1]]

example : selfCoupled (Item.disc [nA.disc, nB.disc] (.chain [0, 1])) = true := by decide +kernel
example : nestedInnerMdas [nA.disc, nB.disc] nItems = [[0]] := by decide +kernel
example : (nestedEval [nA, nB] nItems false [("x", 0)]).val "x" = some (2/3) := by decide +kernel
example : (nestedEval [nA, nB] nItems false [("x", 0)]).val "y" = some (4/3) := by decide +kernel
/-- Witness: executing the self-coupled chain once is *not* the whole system at once. -/
theorem one_sweep_is_not_the_solution :
    ((Item.chain [0, 1]).run [nA, nB] [("x", 0)]).val "x" = some (1/2) ∧
    (nestedEval [nA, nB] nItems false [("x", 0)]).val "x" ≠
      ((Item.chain [0, 1]).run [nA, nB] [("x", 0)]).val "x" := by decide +kernel
-- the same two disciplines as an MDA built beforehand: no second inner MDA, same solution
example : nestedInnerMdas [nA.disc, nB.disc] [.mda [0, 1] false] = [] := by decide +kernel
example : (nestedEval [nA, nB] [.mda [0, 1] false] false [("x", 0)]).val "x" = some (2/3) := by
  decide +kernel
-- in schedule order behind a producer of `x`, the chain has no feedback
example : selfCoupled (chainDisc [⟨"P", [], ["x"], []⟩, nA.disc]) = false := by decide +kernel

end GV.C08
