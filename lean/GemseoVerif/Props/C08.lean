/-
C08 — property theorems: execution sequences respect data dependencies and composition is exact.
Only property theorems (and the few definitions needed to state them) live here; helper lemmas are
in `Lemmas/C08*.lean`.

Reading guide (model ↔ code): `sequence ds` is `CouplingStructure(disciplines).sequence` with every
discipline named by its position in the listing; `edge ds i j` is an edge of
`DependencyGraph.__create_graph`.
-/
import GemseoVerif.Lemmas.C08Scc

namespace GV.C08

open Relation

/-! ### The data-dependency graph of the property text -/

/-- `i → j`: two different disciplines, an output of `i` is an input of `j`. -/
def DepEdge (ds : List Disc) (i j : Nat) : Prop :=
  ∃ a b, ds[i]? = some a ∧ ds[j]? = some b ∧ i ≠ j ∧ ∃ v, v ∈ a.outputs ∧ v ∈ b.inputs

/-- Mutual dependency: each discipline (transitively) feeds the other. -/
def MutuallyDependent (ds : List Disc) (i j : Nat) : Prop :=
  ReflTransGen (DepEdge ds) i j ∧ ReflTransGen (DepEdge ds) j i

/-- The Boolean edge test of the model is the edge relation of the property text. -/
theorem edge_iff (ds : List Disc) (i j : Nat) : edge ds i j = true ↔ DepEdge ds i j := by
  unfold edge DepEdge
  split
  · rename_i a b ha hb
    simp only [shared, Bool.and_eq_true, bne_iff_ne, ne_eq, Bool.not_eq_true',
      List.isEmpty_eq_false_iff, ha, hb, Option.some.injEq]
    constructor
    · rintro ⟨hne, hs⟩
      obtain ⟨v, hv⟩ := List.exists_mem_of_ne_nil _ hs
      rw [List.mem_filter] at hv
      exact ⟨a, b, rfl, rfl, hne, v, hv.1, by simpa using hv.2⟩
    · rintro ⟨a', b', rfl, rfl, hne, v, hva, hvb⟩
      exact ⟨hne, List.ne_nil_of_mem (List.mem_filter.2 ⟨hva, by simpa using hvb⟩)⟩
  · rename_i hnone
    constructor
    · intro h; simp at h
    · rintro ⟨a, b, ha, hb, _⟩
      exact absurd hb (by simpa [ha] using hnone a b ha)

theorem adj_edge_eq (ds : List Disc) : Adj (edge ds) = DepEdge ds := by
  funext i j
  exact propext (edge_iff ds i j)

/-! ### Reachability -/

/-- `closure_iff_reflTransGen`: the Boolean closure used by the model to find the strongly
    connected components is exactly the reflexive-transitive closure of the edge relation,
    for every graph on the nodes `< n`. -/
theorem closure_iff_reflTransGen (adj : Nat → Nat → Bool) (n : Nat)
    (hadj : ∀ a b, adj a b = true → b < n) (i j : Nat) (hi : i < n) :
    reach adj n i j = true ↔ ReflTransGen (fun a b => adj a b = true) i j :=
  reach_iff hadj hi j

/-- The component test of the model is mutual dependency. -/
theorem mutualR_iff_mutuallyDependent (ds : List Disc) (i j : Nat) :
    mutualR (edge ds) ds.length i j = true ↔
      i < ds.length ∧ j < ds.length ∧ MutuallyDependent ds i j := by
  rw [(isMutual_edge ds).iff, adj_edge_eq]
  rfl

/-! ### The execution sequence is a valid schedule -/

/-- `each_once`: the flattened execution sequence is a permutation of the disciplines — every
    discipline appears exactly once, none is lost by the peeling loop, whatever the graph. -/
theorem each_once (ds : List Disc) :
    (sequence ds).flatten.flatten.Perm (List.range ds.length) := by
  rw [sequence_eq]
  exact sequenceOf_perm (isMutual_edge ds)

/-- `groups_are_sccs`: two disciplines are in the same group of the sequence iff they are
    mutually dependent ("mutually dependent disciplines, and only those, are grouped"). -/
theorem groups_are_sccs (ds : List Disc) (i j : Nat) (hi : i < ds.length) (hj : j < ds.length) :
    (∃ g ∈ (sequence ds).flatten, i ∈ g ∧ j ∈ g) ↔ MutuallyDependent ds i j := by
  rw [sequence_eq, share_group_iff (isMutual_edge ds) hi, mutualR_iff_mutuallyDependent]
  exact ⟨fun h => h.2.2, fun h => ⟨hi, hj, h⟩⟩

/-- A group of the sequence is a whole class: with one member it contains exactly the
    disciplines mutually dependent with it. -/
theorem group_is_scc (ds : List Disc) (g : List Nat) (hg : g ∈ (sequence ds).flatten)
    (i : Nat) (hi : i ∈ g) (j : Nat) :
    j ∈ g ↔ i < ds.length ∧ j < ds.length ∧ MutuallyDependent ds i j := by
  rw [sequence_eq] at hg
  rw [group_is_class (isMutual_edge ds) hg hi, mutualR_iff_mutuallyDependent]

/-- `producers_strictly_before`: a group is scheduled strictly after every group producing one
    of its inputs — an edge between two different groups goes from a strictly earlier stage to
    a strictly later stage. -/
theorem producers_strictly_before (ds : List Disc) (s t : Nat)
    (hs : s < (sequence ds).length) (ht : t < (sequence ds).length)
    (g g' : List Nat) (hg : g ∈ (sequence ds)[s]) (hg' : g' ∈ (sequence ds)[t])
    (i j : Nat) (hi : i ∈ g) (hj : j ∈ g') (hij : DepEdge ds i j) (hne : g ≠ g') : s < t := by
  have hg1 : g ∈ (sequence ds).flatten := List.mem_flatten.2 ⟨_, List.getElem_mem hs, hg⟩
  have hg1' : g' ∈ (sequence ds).flatten := List.mem_flatten.2 ⟨_, List.getElem_mem ht, hg'⟩
  have hseq := sequence_eq ds
  have hnm : mutualR (edge ds) ds.length i j = false := by
    by_contra hc
    have hc : mutualR (edge ds) ds.length i j = true := by simpa using hc
    rw [hseq] at hg1 hg1'
    exact hne (group_eq_of_mutual (isMutual_edge ds) hg1 hg1' hi hj hc)
  revert hs ht hg hg'
  rw [hseq]
  intro hs ht hg hg'
  exact stage_lt_of_adj (isMutual_edge ds) hs ht hg hg' hi hj ((edge_iff ds i j).2 hij) hnm

/-- `same_stage_independent`: the groups of one stage exchange no data (they can run in
    parallel): no edge between two different groups of the same stage. -/
theorem same_stage_independent (ds : List Disc) (s : Nat) (hs : s < (sequence ds).length)
    (g g' : List Nat) (hg : g ∈ (sequence ds)[s]) (hg' : g' ∈ (sequence ds)[s])
    (i j : Nat) (hi : i ∈ g) (hj : j ∈ g') (hne : g ≠ g') : ¬ DepEdge ds i j := by
  intro hij
  have := producers_strictly_before ds s s hs hs g g' hg hg' i j hi hj hij hne
  omega

/-- The members of a group are in listing order, the documented contract of
    `DependencyGraph.__get_ordered_scc`. -/
theorem group_members_in_listing_order (ds : List Disc) (g : List Nat)
    (hg : g ∈ (sequence ds).flatten) : g.Pairwise (· < ·) := by
  rw [sequence_eq] at hg
  exact group_sorted hg

/-- No stage of the sequence is empty and no group is empty. -/
theorem no_empty_stage_or_group (ds : List Disc) :
    (∀ st ∈ sequence ds, st ≠ []) ∧ (∀ g ∈ (sequence ds).flatten, g ≠ []) := by
  rw [sequence_eq]
  exact ⟨fun st hst => stage_ne_nil hst, fun g hg => group_ne_nil (isMutual_edge ds) hg⟩

/-- `peeling_terminates_on_dag`: the `while True` loop of `get_execution_sequence` needs no more
    rounds than there are components (any larger bound gives the same stages), and — the
    condensation having no cycle — it ends with every component scheduled. -/
theorem peeling_terminates_on_dag (ds : List Disc) (fuel : Nat) :
    let adj := edge ds
    let mu := mutualR adj ds.length
    (reps mu ds.length).length ≤ fuel →
    peel (cedge adj mu ds.length) fuel (reps mu ds.length)
        = peel (cedge adj mu ds.length) (reps mu ds.length).length (reps mu ds.length) ∧
      ∀ a ∈ reps mu ds.length,
        ∃ st ∈ peel (cedge adj mu ds.length) fuel (reps mu ds.length), a ∈ st := by
  intro adj mu hf
  refine ⟨peel_fuel _ _ _ hf (Nat.le_refl _), ?_⟩
  exact peel_complete (rankOf adj ds.length) fuel _
    (fun a ha b hb hab => cedge_rank (isMutual_edge ds) ha hb hab) hf

/-! ### Non-vacuity: a five-discipline example with a cycle, a self-loop and an isolated discipline -/

/-- `A: x ↦ a`, `B: a,c ↦ b`, `C: b ↦ c`, `D: c,d ↦ d`, `E` without data. -/
def exampleDiscs : List Disc :=
  [⟨"A", ["x"], ["a"]⟩, ⟨"B", ["a", "c"], ["b"]⟩, ⟨"C", ["b"], ["c"]⟩, ⟨"D", ["c", "d"], ["d"]⟩,
   ⟨"E", [], []⟩]

example : sequence exampleDiscs = [[[0]], [[1, 2]], [[3], [4]]] := by decide +kernel

-- hypotheses of `producers_strictly_before` are satisfiable: A feeds the group {B, C}
example : DepEdge exampleDiscs 0 1 := (edge_iff exampleDiscs 0 1).1 (by decide +kernel)
example : ([0] : List Nat) ≠ [1, 2] := by decide
-- B and C are mutually dependent
example : mutualR (edge exampleDiscs) exampleDiscs.length 1 2 = true := by decide +kernel

end GV.C08
