/-
C10 — property theorems: function algebra and transformations evaluate and differentiate exactly.

The model (`Model/C10.lean`) computes, for an expression tree and a point, the pair
(value, Jacobian) with the rules of the code. The theorems say that, for every tree of the
algebraic fragment, every input/output dimension (in particular both operands vector-valued and
input dimension = output dimension), every broadcast of a one-component operand, all user
functions whose own Jacobian is exact, and every point where no divisor vanishes:
  * the value is the mathematically defined combination `den` of the operands' values,
  * the Jacobian is the exact derivative of that combination.
They hold over any nontrivially normed field: ℝ, ℂ (complex step), ℚ (the driver's numbers).
-/
import GemseoVerif.Lemmas.C10Tree
import GemseoVerif.Analysis.C10Aggregation
import GemseoVerif.Lemmas.C10Ordered
import GemseoVerif.Lemmas.C10TreeR
import GemseoVerif.Lemmas.C10Session
import GemseoVerif.Lemmas.C10Store

namespace GV.C10

variable {𝕜 : Type} [NontriviallyNormedField 𝕜]

section Trees

variable [LT 𝕜] [DecidableRel (α := 𝕜) (· < ·)]

/-- **Main theorem.** For every well-formed tree, `evaluate`/`jac` of the object built by the
    model are the value and the exact derivative of the combination the tree denotes.
    `env id n y` is the (value, Jacobian) pair returned by the user function `id` at `y`;
    the only assumption on it is that it is exact (`henv`). -/
theorem tree_value_and_jacobian_exact
    (env : ℕ → ℕ → (ℕ → 𝕜) → DV 𝕜) (envF : ℕ → ℕ → (ℕ → 𝕜) → ℕ → 𝕜) (envM : ℕ → ℕ → ℕ) (thr : 𝕜)
    (henv : ∀ id n y, Den n y (env id n y) (envF id n) (envM id n))
    {n : ℕ} {e : Expr 𝕜} {M : ℕ} (hwf : WF envM n e M) :
    ∀ x, Safe envF envM n e x → Den n x (evalTree env thr n e x) (den envF envM n e) M := by
  induction hwf with
  | user n id =>
    intro x _
    simpa [evalTree, build, Obj.eval, den] using henv id n x
  | poly n ps hps =>
    intro x _
    simpa [evalTree, build, Obj.eval, den] using polyDV_den n ps hps x
  | lin n m A b =>
    intro x _
    exact LinF.den { m := m, n := n, A := mat A, b := vec b } x
  | quad n Q b c =>
    intro x _
    exact QuadF.den { n := n, Q := mat Q, b := vec b, c := c } x
  | @bin n a b Ma Mb op hwa hwb hc iha ihb =>
    intro x hs
    obtain ⟨hsa, hsb, hdiv⟩ := hs
    have ha := iha x hsa
    have hb := ihb x hsb
    have da := hwa.dimOf_eq
    have db := hwb.dimOf_eq
    cases op with
    | add => simpa [evalTree, build, Obj.eval, DV.bin, den, binFn, da, db] using Den.add ha hb hc
    | sub => simpa [evalTree, build, Obj.eval, DV.bin, den, binFn, da, db] using Den.sub ha hb hc
    | mul => simpa [evalTree, build, Obj.eval, DV.bin, den, binFn, da, db] using Den.mul ha hb hc
    | div =>
      have hnz : ∀ i, i < Mb → den envF envM n b x i ≠ 0 := by
        intro i hi; exact hdiv rfl i (by rw [db]; exact hi)
      simpa [evalTree, build, Obj.eval, DV.bin, den, binFn, da, db] using Den.div ha hb hc hnz
  | @binC n a M op c hwa iha =>
    intro x hs
    have ha := iha x hs.1
    cases op with
    | add => simpa [evalTree, build, Obj.eval, DV.binC, den, binFn] using Den.addC ha c
    | sub => simpa [evalTree, build, Obj.eval, DV.binC, den, binFn] using Den.subC ha c
    | mul => simpa [evalTree, build, Obj.eval, DV.binC, den, binFn] using Den.mulC ha c
    | div => simpa [evalTree, build, Obj.eval, DV.binC, den, binFn] using Den.divC ha c
  | @neg n a M hwa iha =>
    intro x hs
    have ha := iha x hs
    simp only [evalTree] at ha ⊢
    cases hb : build env thr n a with
    | linear L =>
      rw [hb] at ha
      simpa [build, hb, Obj.eval, den] using LinF.neg_den ha
    | generic f =>
      rw [hb] at ha
      simpa [build, hb, Obj.eval, den] using Den.neg ha
  | @offset n a M c hwa iha =>
    intro x hs
    have ha := iha x hs
    simp only [evalTree] at ha ⊢
    cases hb : build env thr n a with
    | linear L =>
      rw [hb] at ha
      simpa [build, hb, Obj.eval, den] using LinF.offset_den c ha
    | generic f =>
      rw [hb] at ha
      simpa [build, hb, Obj.eval, den] using Den.addC ha c
  | @restrict n N a M fz vals hwa hnd hn iha =>
    intro x hs
    have ha := iha (extendPt N fz vals x) hs
    simpa [evalTree, build, Obj.eval, den] using Den.restrict hnd hn ha
  | @lrestrict n a M fz vals hwa hnd hlt hn iha =>
    intro x hs
    have ha := iha (extendPt (n + fz.length) fz vals x) hs
    simp only [evalTree] at ha ⊢
    cases hb : build env thr (n + fz.length) a with
    | linear L =>
      rw [hb] at ha
      have hL := build_linear_n env thr a (n + fz.length) L hb
      simpa [build, hb, Obj.eval, den] using LinF.restrict_den vals hL hnd hlt hn ha
    | generic f =>
      rw [hb] at ha
      simpa [build, hb, Obj.eval, den] using Den.restrict hnd hn ha
  | @lincomp n K a M A hwa iha =>
    intro x hs
    have ha := iha (matVec n (mat A) x) hs
    simpa [evalTree, build, Obj.eval, den] using Den.lincomp (mat A) ha
  | @concat n a b Ma Mb hwa hwb iha ihb =>
    intro x hs
    have ha := iha x hs.1
    have hb := ihb x hs.2
    simpa [evalTree, build, Obj.eval, den, hwa.dimOf_eq] using Den.concat ha hb
  | @normalize n a M lb ub mask hwa hlin iha =>
    intro u hs
    have ha := iha (unnormalizePt n lb ub mask u) hs
    obtain ⟨L, hb⟩ := hlin.build_linear env thr n
    have hL := build_linear_n env thr a n L hb
    simp only [evalTree] at ha ⊢
    rw [hb] at ha
    simpa [build, hb, Obj.eval, den] using LinF.normalize_den lb ub mask hL ha
  | @taylor1 n a M xh hwa iha =>
    intro x hs
    have ha := iha (vec xh) hs
    simpa [evalTree, build, Obj.eval, den] using taylor1_den ha x

/-- Value clause: the tree evaluates to the mathematically defined combination. -/
theorem tree_value_exact
    (env : ℕ → ℕ → (ℕ → 𝕜) → DV 𝕜) (envF : ℕ → ℕ → (ℕ → 𝕜) → ℕ → 𝕜) (envM : ℕ → ℕ → ℕ) (thr : 𝕜)
    (henv : ∀ id n y, Den n y (env id n y) (envF id n) (envM id n))
    {n : ℕ} {e : Expr 𝕜} {M : ℕ} (hwf : WF envM n e M) (x : ℕ → 𝕜) (hs : Safe envF envM n e x)
    {i : ℕ} (hi : i < M) :
    (evalTree env thr n e x).val i = den envF envM n e x i :=
  (tree_value_and_jacobian_exact env envF envM thr henv hwf x hs).val_eq hi

/-- Jacobian clause: entry `(i, j)` is the partial derivative of output `i` with respect to
    input `j` of the combination the tree denotes. -/
theorem tree_jacobian_is_partial_derivative
    (env : ℕ → ℕ → (ℕ → 𝕜) → DV 𝕜) (envF : ℕ → ℕ → (ℕ → 𝕜) → ℕ → 𝕜) (envM : ℕ → ℕ → ℕ) (thr : 𝕜)
    (henv : ∀ id n y, Den n y (env id n y) (envF id n) (envM id n))
    {n : ℕ} {e : Expr 𝕜} {M : ℕ} (hwf : WF envM n e M) (x : ℕ → 𝕜) (hs : Safe envF envM n e x)
    {i j : ℕ} (hi : i < M) (hj : j < n) :
    HasDerivAt (fun t : 𝕜 => den envF envM n e (x + t • basisVec j) i)
      ((evalTree env thr n e x).jac i j) 0 :=
  (tree_value_and_jacobian_exact env envF envM thr henv hwf x hs).partial hi hj

/-- The shape is right: as many rows as the combination has outputs. -/
theorem tree_output_dimension
    (env : ℕ → ℕ → (ℕ → 𝕜) → DV 𝕜) (envF : ℕ → ℕ → (ℕ → 𝕜) → ℕ → 𝕜) (envM : ℕ → ℕ → ℕ) (thr : 𝕜)
    (henv : ∀ id n y, Den n y (env id n y) (envF id n) (envM id n))
    {n : ℕ} {e : Expr 𝕜} {M : ℕ} (hwf : WF envM n e M) (x : ℕ → 𝕜) (hs : Safe envF envM n e x) :
    (evalTree env thr n e x).m = M :=
  (tree_value_and_jacobian_exact env envF envM thr henv hwf x hs).dim

end Trees

/-! ### The individual rules, as used by the code -/

/-- Product rule for two vector-valued operands of the same dimension `m` (any `m`, any `n`,
    in particular `m = n`): row `i` of the Jacobian is `f_i' g_i + g_i' f_i`. -/
theorem product_rule_exact {n m : ℕ} {x : ℕ → 𝕜} {a b : DV 𝕜} {F G : (ℕ → 𝕜) → ℕ → 𝕜}
    (ha : Den n x a F m) (hb : Den n x b G m) :
    Den n x (a.mul b) (fun y i => F y i * G y i) m := by
  have h := Den.mul ha hb (Or.inl rfl)
  rw [Nat.max_self] at h
  refine h.congr (fun y i hi => ?_)
  by_cases hm : m = 1
  · subst hm
    have : i = 0 := by omega
    subst this; simp [bi]
  · simp [bi, hm]

/-- Quotient rule for two vector-valued operands. -/
theorem quotient_rule_exact {n m : ℕ} {x : ℕ → 𝕜} {a b : DV 𝕜} {F G : (ℕ → 𝕜) → ℕ → 𝕜}
    (ha : Den n x a F m) (hb : Den n x b G m) (hnz : ∀ i, i < m → G x i ≠ 0) :
    Den n x (a.div b) (fun y i => F y i / G y i) m := by
  have h := Den.div ha hb (Or.inl rfl) hnz
  rw [Nat.max_self] at h
  refine h.congr (fun y i hi => ?_)
  by_cases hm : m = 1
  · subst hm
    have : i = 0 := by omega
    subst this; simp [bi]
  · simp [bi, hm]

/-- A scalar function times a vector-valued one: `d(f g_i) = f' g_i + g_i' f` (broadcast). -/
theorem scalar_times_vector_rule_exact {n m : ℕ} (hm : 0 < m) {x : ℕ → 𝕜} {a b : DV 𝕜}
    {F G : (ℕ → 𝕜) → ℕ → 𝕜} (ha : Den n x a F 1) (hb : Den n x b G m) :
    Den n x (a.mul b) (fun y i => F y 0 * G y i) m := by
  have h := Den.mul ha hb (Or.inr (Or.inl ⟨rfl, hm⟩))
  have hmax : max 1 m = m := by omega
  rw [hmax] at h
  refine h.congr (fun y i hi => ?_)
  by_cases h1 : m = 1
  · subst h1
    have : i = 0 := by omega
    subst this; simp [bi]
  · simp [bi, h1]

/-- `LinearCompositeFunction`: `J(f ∘ A)(x) = J_f(Ax) . A`. -/
theorem linear_composition_exact {n K M : ℕ} {x : ℕ → 𝕜} {d : DV 𝕜} {F : (ℕ → 𝕜) → ℕ → 𝕜}
    (A : ℕ → ℕ → 𝕜) (h : Den K (matVec n A x) d F M) :
    Den n x (d.rightMul K A) (fun y i => F (matVec n A y) i) M :=
  Den.lincomp A h

/-- `FunctionRestriction`: the Jacobian of the restriction is made of the active columns. -/
theorem restriction_exact {n N M : ℕ} {fz : List ℕ} {vals : List 𝕜} {x : ℕ → 𝕜} {d : DV 𝕜}
    {F : (ℕ → 𝕜) → ℕ → 𝕜} (hnd : fz.Nodup) (hn : (activeIdx N fz).length = n)
    (h : Den N (extendPt N fz vals x) d F M) :
    Den n x (d.restrictCols N fz) (fun y i => F (extendPt N fz vals y) i) M :=
  Den.restrict hnd hn h

/-- `Concatenate`: values are stacked and the Jacobian is made of the blocks. -/
theorem concat_blocks {n Ma Mb : ℕ} {x : ℕ → 𝕜} {a b : DV 𝕜} {F G : (ℕ → 𝕜) → ℕ → 𝕜}
    (ha : Den n x a F Ma) (hb : Den n x b G Mb) :
    Den n x (a.concat b) (fun y i => if i < Ma then F y i else G y (i - Ma)) (Ma + Mb) :=
  Den.concat ha hb

/-- First-order Taylor polynomial: value and Jacobian agree with the function at the expansion
    point (and the polynomial is affine: its Jacobian is `f'(x̂)` everywhere, `taylor1_den`). -/
theorem taylor_first_order_matches_at_point {n M : ℕ} {xh : ℕ → 𝕜} {d : DV 𝕜}
    {F : (ℕ → 𝕜) → ℕ → 𝕜} (h : Den n xh d F M) {i : ℕ} (hi : i < M) :
    ((taylor1 n d xh).eval xh).val i = F xh i ∧
      ∀ x j, ((taylor1 n d xh).eval x).jac i j = d.jac i j := by
  refine ⟨?_, fun x j => rfl⟩
  have h1 := (taylor1_den h xh).val_eq hi
  rw [h1]
  have : sumTo n (fun j => deriv (fun t : 𝕜 => F (xh + t • basisVec j) i) 0 * (xh j - xh j)) = 0 := by
    rw [← sumTo_zero_fn (K := 𝕜) n]
    exact sumTo_congr (fun j _ => by simp)
  rw [this, add_zero]

/-- The overrides of `MDOLinearFunction` (`__neg__`, `offset`, `restrict`, `normalize`) denote
    the same functions as the generic operations: whatever object the dynamic dispatch picks,
    the tree denotes `den` (this is the `IsLin` part of the main theorem, stated on its own). -/
theorem linear_overrides_agree (L : LinF 𝕜) (x : ℕ → 𝕜) (c : List 𝕜) :
    (∀ i, (L.neg.eval x).val i = ((L.eval x).neg).val i) ∧
    (∀ i, ((L.offset c).eval x).val i = ((L.eval x).addC c).val i) ∧
    (∀ i j, (L.neg.eval x).jac i j = ((L.eval x).neg).jac i j) := by
  refine ⟨fun i => ?_, fun i => ?_, fun i j => rfl⟩
  · simp only [LinF.eval, LinF.neg, DV.neg]
    have : sumTo L.n (fun j => -L.A i j * x j) = - sumTo L.n (fun j => L.A i j * x j) := by
      rw [← sumTo_neg]; exact sumTo_congr (fun j _ => by ring)
    rw [this]; ring
  · simp only [LinF.eval, LinF.offset, DV.addC]; ring

/-! ### Aggregations, second-order Taylor polynomial and convex linearisation of a tree

These nodes take the (value, Jacobian) pair of their operand — any tree of the algebraic
fragment by the main theorem, or any pair that is exact (`Den`) — and the pair they return is
again exact: the statements compose. -/

section SpecialNodes

/-- `aggregate_sum_square` of a tree (any field). -/
theorem sum_of_squares_aggregation_exact [LT 𝕜] [DecidableRel (α := 𝕜) (· < ·)]
    (env : ℕ → ℕ → (ℕ → 𝕜) → DV 𝕜) (envF : ℕ → ℕ → (ℕ → 𝕜) → ℕ → 𝕜) (envM : ℕ → ℕ → ℕ) (thr : 𝕜)
    (henv : ∀ id n y, Den n y (env id n y) (envF id n) (envM id n))
    {n : ℕ} {e : Expr 𝕜} {M : ℕ} (hwf : WF envM n e M) (x : ℕ → 𝕜) (hs : Safe envF envM n e x)
    (idx : Option (List ℕ)) (scale : List 𝕜) (hsel : ∀ k, k < selLen idx M → selIdx idx k < M) :
    Den n x (evalTree env thr n (.agg .sumsq idx scale e) x)
      (fun y _ => sumTo (selLen idx M) (fun k => vec scale (bi scale.length k)
        * (den envF envM n e y (selIdx idx k) * den envF envM n e y (selIdx idx k)))) 1 := by
  have h := tree_value_and_jacobian_exact env envF envM thr henv hwf x hs
  simpa [evalTree, build, Obj.eval] using aggSumSq_den h idx scale hsel

/-- `aggregate_positive_sum_square` of a tree (ℝ): exact at every point. -/
theorem positive_sum_of_squares_aggregation_exact
    (env : ℕ → ℕ → (ℕ → ℝ) → DV ℝ) (envF : ℕ → ℕ → (ℕ → ℝ) → ℕ → ℝ) (envM : ℕ → ℕ → ℕ) (thr : ℝ)
    (henv : ∀ id n y, Den n y (env id n y) (envF id n) (envM id n))
    {n : ℕ} {e : Expr ℝ} {M : ℕ} (hwf : WF envM n e M) (x : ℕ → ℝ) (hs : Safe envF envM n e x)
    (idx : Option (List ℕ)) (scale : List ℝ) (hsel : ∀ k, k < selLen idx M → selIdx idx k < M) :
    Den n x (evalTree env thr n (.agg .possumsq idx scale e) x)
      (fun y _ => sumTo (selLen idx M) (fun k => vec scale (bi scale.length k)
        * posSq (den envF envM n e y (selIdx idx k)))) 1 := by
  have h := tree_value_and_jacobian_exact env envF envM thr henv hwf x hs
  simpa [evalTree, build, Obj.eval] using aggPosSumSq_den h idx scale hsel

/-- `aggregate_max` of a tree (ℝ): the value is the maximum of the scaled components and the
    Jacobian is its derivative wherever the maximiser is unique. -/
theorem max_aggregation_exact
    (env : ℕ → ℕ → (ℕ → ℝ) → DV ℝ) (envF : ℕ → ℕ → (ℕ → ℝ) → ℕ → ℝ) (envM : ℕ → ℕ → ℕ) (thr : ℝ)
    (henv : ∀ id n y, Den n y (env id n y) (envF id n) (envM id n))
    {n : ℕ} {e : Expr ℝ} {M : ℕ} (hwf : WF envM n e M) (x : ℕ → ℝ) (hs : Safe envF envM n e x)
    (idx : Option (List ℕ)) (scale : List ℝ) (K' : ℕ) (hK : selLen idx M = K' + 1)
    (hsel : ∀ k, k < selLen idx M → selIdx idx k < M)
    (huniq : ∀ k, k < K' + 1 →
      k ≠ argmaxTo (K' + 1) (fun k => den envF envM n e x (selIdx idx k) * vec scale (bi scale.length k)) →
      den envF envM n e x (selIdx idx k) * vec scale (bi scale.length k)
        < den envF envM n e x (selIdx idx (argmaxTo (K' + 1)
            (fun k => den envF envM n e x (selIdx idx k) * vec scale (bi scale.length k))))
          * vec scale (bi scale.length (argmaxTo (K' + 1)
            (fun k => den envF envM n e x (selIdx idx k) * vec scale (bi scale.length k))))) :
    Den n x (evalTree env thr n (.agg .max idx scale e) x)
      (fun y _ => maxTo (K' + 1)
        (fun k => den envF envM n e y (selIdx idx k) * vec scale (bi scale.length k))) 1 := by
  have h := tree_value_and_jacobian_exact env envF envM thr henv hwf x hs
  simpa [evalTree, build, Obj.eval] using aggMax_den h idx scale K' hK hsel huniq

/-- `compute_quadratic_approximation` of a scalar tree with a symmetric Hessian approximation:
    the quadratic function is the second-order Taylor polynomial and its gradient is exact. -/
theorem taylor_second_order_exact [LT 𝕜] [DecidableRel (α := 𝕜) (· < ·)]
    (env : ℕ → ℕ → (ℕ → 𝕜) → DV 𝕜) (envF : ℕ → ℕ → (ℕ → 𝕜) → ℕ → 𝕜) (envM : ℕ → ℕ → ℕ) (thr : 𝕜)
    (henv : ∀ id n y, Den n y (env id n y) (envF id n) (envM id n))
    {n : ℕ} {e : Expr 𝕜} (hwf : WF envM n e 1) (xh : List 𝕜) (hs : Safe envF envM n e (vec xh))
    (H : List (List 𝕜)) (hsym : ∀ i j, i < n → j < n → mat H i j = mat H j i)
    (h2 : (1 + 1 : 𝕜) ≠ 0) (x : ℕ → 𝕜) :
    Den n x (evalTree env thr n (.taylor2 xh H e) x)
      (fun y _ => den envF envM n e (vec xh) 0
        + sumTo n (fun j => deriv (fun t : 𝕜 => den envF envM n e (vec xh + t • basisVec j) 0) 0
            * (y j - vec xh j))
        + half * sumTo n (fun i => sumTo n (fun j => mat H i j * (y i - vec xh i) * (y j - vec xh j)))) 1 := by
  have h := tree_value_and_jacobian_exact env envF envM thr henv hwf (vec xh) hs
  simpa [evalTree, build, Obj.eval] using taylor2_den h (mat H) hsym h2 x

/-- `ConvexLinearApprox` of a tree (ℝ): the Jacobian is the exact derivative of the convex
    linearisation the code evaluates, at every point off the switching set
    `|x_j - x̂_j| = threshold` of the approximated inputs. -/
theorem convex_linear_exact
    (env : ℕ → ℕ → (ℕ → ℝ) → DV ℝ) (envF : ℕ → ℕ → (ℕ → ℝ) → ℕ → ℝ) (envM : ℕ → ℕ → ℕ) (thr : ℝ)
    (hthr : 0 ≤ thr) (henv : ∀ id n y, Den n y (env id n y) (envF id n) (envM id n))
    {n : ℕ} {e : Expr ℝ} {M : ℕ} (hwf : WF envM n e M) (xh : List ℝ) (mask : List Bool) (x : ℕ → ℝ)
    (hs : Safe envF envM n e (mergePt (fun j => mask.getD j false) (vec xh) x))
    (hreg : ∀ j, j < n → mask.getD j false = true → |x j - vec xh j| ≠ thr) :
    Den n x (evalTree env thr n (.convexLin xh (some mask) e) x)
      (clFn n thr ((evalTree env thr n e (vec xh)).jac) (vec xh) (fun j => mask.getD j false)
        (den envF envM n e)) M := by
  have h := tree_value_and_jacobian_exact env envF envM thr henv hwf _ hs
  simpa [evalTree, build, Obj.eval] using
    convexLin_den hthr ((evalTree env thr n e (vec xh)).jac) (vec xh) (fun j => mask.getD j false) h hreg

/-- At the expansion point the convex linearisation takes the value of the function. -/
theorem convex_linear_matches_at_expansion_point (n : ℕ) (thr : ℝ) (hthr : 0 ≤ thr)
    (J0 : ℕ → ℕ → ℝ) (xh : ℕ → ℝ) (mask : ℕ → Bool) (fm : DV ℝ) (i : ℕ) :
    (convexLin n thr J0 xh mask fm xh).val i = fm.val i :=
  convexLin_value_at_expansion_point n thr hthr J0 xh mask fm i

end SpecialNodes

/-! ### The complete tree language over ℝ -/

section RealTrees

/-- **Main theorem, all node kinds (ℝ).** Every tree the harness builds — the algebraic fragment
    plus second-order Taylor polynomials, convex linearisations and sum-of-squares / positive
    sum-of-squares / max aggregations, arbitrarily nested — evaluates to the function `denR` it
    denotes and its Jacobian is the exact derivative, at every point where no divisor vanishes,
    off the switching sets of the convex linearisations and where maximisers are unique. -/
theorem real_tree_value_and_jacobian_exact
    (env : ℕ → ℕ → (ℕ → ℝ) → DV ℝ) (envF : ℕ → ℕ → (ℕ → ℝ) → ℕ → ℝ) (envM : ℕ → ℕ → ℕ) (thr : ℝ)
    (hthr : 0 ≤ thr) (henv : ∀ id n y, Den n y (env id n y) (envF id n) (envM id n))
    {n : ℕ} {e : Expr ℝ} {M : ℕ} (hwf : WFR envM n e M) :
    ∀ x, SafeR envF envM thr n e x → Den n x (evalTree env thr n e x) (denR envF envM thr n e) M := by
  induction hwf with
  | user n id =>
    intro x _
    simpa [evalTree, build, Obj.eval, denR] using henv id n x
  | poly n ps hps =>
    intro x _
    simpa [evalTree, build, Obj.eval, denR] using polyDV_den n ps hps x
  | lin n m A b =>
    intro x _
    exact LinF.den { m := m, n := n, A := mat A, b := vec b } x
  | quad n Q b c =>
    intro x _
    exact QuadF.den { n := n, Q := mat Q, b := vec b, c := c } x
  | @bin n a b Ma Mb op hwa hwb hc iha ihb =>
    intro x hs
    obtain ⟨hsa, hsb, hdiv⟩ := hs
    have ha := iha x hsa
    have hb := ihb x hsb
    have da := hwa.dimOf_eq
    have db := hwb.dimOf_eq
    cases op with
    | add => simpa [evalTree, build, Obj.eval, DV.bin, denR, binFn, da, db] using Den.add ha hb hc
    | sub => simpa [evalTree, build, Obj.eval, DV.bin, denR, binFn, da, db] using Den.sub ha hb hc
    | mul => simpa [evalTree, build, Obj.eval, DV.bin, denR, binFn, da, db] using Den.mul ha hb hc
    | div =>
      have hnz : ∀ i, i < Mb → denR envF envM thr n b x i ≠ 0 := by
        intro i hi; exact hdiv rfl i (by rw [db]; exact hi)
      simpa [evalTree, build, Obj.eval, DV.bin, denR, binFn, da, db] using Den.div ha hb hc hnz
  | @binC n a M op c hwa iha =>
    intro x hs
    have ha := iha x hs.1
    cases op with
    | add => simpa [evalTree, build, Obj.eval, DV.binC, denR, binFn] using Den.addC ha c
    | sub => simpa [evalTree, build, Obj.eval, DV.binC, denR, binFn] using Den.subC ha c
    | mul => simpa [evalTree, build, Obj.eval, DV.binC, denR, binFn] using Den.mulC ha c
    | div => simpa [evalTree, build, Obj.eval, DV.binC, denR, binFn] using Den.divC ha c
  | @neg n a M hwa iha =>
    intro x hs
    have ha := iha x hs
    simp only [evalTree] at ha ⊢
    cases hb : build env thr n a with
    | linear L =>
      rw [hb] at ha
      simpa [build, hb, Obj.eval, denR] using LinF.neg_den ha
    | generic f =>
      rw [hb] at ha
      simpa [build, hb, Obj.eval, denR] using Den.neg ha
  | @offset n a M c hwa iha =>
    intro x hs
    have ha := iha x hs
    simp only [evalTree] at ha ⊢
    cases hb : build env thr n a with
    | linear L =>
      rw [hb] at ha
      simpa [build, hb, Obj.eval, denR] using LinF.offset_den c ha
    | generic f =>
      rw [hb] at ha
      simpa [build, hb, Obj.eval, denR] using Den.addC ha c
  | @restrict n N a M fz vals hwa hnd hn iha =>
    intro x hs
    have ha := iha (extendPt N fz vals x) hs
    simpa [evalTree, build, Obj.eval, denR] using Den.restrict hnd hn ha
  | @lrestrict n a M fz vals hwa hnd hlt hn iha =>
    intro x hs
    have ha := iha (extendPt (n + fz.length) fz vals x) hs
    simp only [evalTree] at ha ⊢
    cases hb : build env thr (n + fz.length) a with
    | linear L =>
      rw [hb] at ha
      have hL := build_linear_n env thr a (n + fz.length) L hb
      simpa [build, hb, Obj.eval, denR] using LinF.restrict_den vals hL hnd hlt hn ha
    | generic f =>
      rw [hb] at ha
      simpa [build, hb, Obj.eval, denR] using Den.restrict hnd hn ha
  | @lincomp n K a M A hwa iha =>
    intro x hs
    have ha := iha (matVec n (mat A) x) hs
    simpa [evalTree, build, Obj.eval, denR] using Den.lincomp (mat A) ha
  | @concat n a b Ma Mb hwa hwb iha ihb =>
    intro x hs
    have ha := iha x hs.1
    have hb := ihb x hs.2
    simpa [evalTree, build, Obj.eval, denR, hwa.dimOf_eq] using Den.concat ha hb
  | @normalize n a M lb ub mask hwa hlin iha =>
    intro u hs
    have ha := iha (unnormalizePt n lb ub mask u) hs
    obtain ⟨L, hb⟩ := hlin.build_linear env thr n
    have hL := build_linear_n env thr a n L hb
    simp only [evalTree] at ha ⊢
    rw [hb] at ha
    simpa [build, hb, Obj.eval, denR] using LinF.normalize_den lb ub mask hL ha
  | @taylor1 n a M xh hwa iha =>
    intro x hs
    have ha := iha (vec xh) hs
    simpa [evalTree, build, Obj.eval, denR] using taylor1_den ha x
  | @taylor2 n a xh H hwa hsym iha =>
    intro x hs
    have ha := iha (vec xh) hs
    have h2 : (1 + 1 : ℝ) ≠ 0 := by norm_num
    simpa [evalTree, build, Obj.eval, denR] using taylor2_den ha (mat H) hsym h2 x
  | @convexLin n a M xh mask hwa iha =>
    intro x hs
    obtain ⟨hs0, hsm, hreg⟩ := hs
    have h0 := iha (vec xh) hs0
    have hm := iha (mergePt (maskFn mask) (vec xh) x) hsm
    have hJ : ∀ i j, i < M → j < n →
        (evalTree env thr n a (vec xh)).jac i j
          = deriv (fun t : ℝ => denR envF envM thr n a (vec xh + t • basisVec j) i) 0 :=
      fun i j hi hj => ((h0.partial hi hj).deriv).symm
    have hcl := convexLin_den hthr ((evalTree env thr n a (vec xh)).jac) (vec xh) (maskFn mask) hm hreg
    have hcl' := hcl.congr (fun y i hi =>
      clFn_congr_coeffs thr _ _ (vec xh) (maskFn mask) (denR envF envM thr n a) hJ y hi)
    cases mask with
    | none => simpa [evalTree, build, Obj.eval, denR, maskFn] using hcl'
    | some l => simpa [evalTree, build, Obj.eval, denR, maskFn] using hcl'
  | @agg n a M kind idx scale hwa hsel hpos iha =>
    intro x hs
    have ha := iha x hs.1
    have da := hwa.dimOf_eq
    cases kind with
    | sumsq => simpa [evalTree, build, Obj.eval, denR, da] using aggSumSq_den ha idx scale hsel
    | possumsq => simpa [evalTree, build, Obj.eval, denR, da] using aggPosSumSq_den ha idx scale hsel
    | max =>
      obtain ⟨K', hK⟩ := Nat.exists_eq_succ_of_ne_zero (Nat.pos_iff_ne_zero.1 (hpos rfl))
      have huniq := hs.2 rfl
      rw [da, hK] at huniq
      simpa [evalTree, build, Obj.eval, denR, da, hK] using aggMax_den ha idx scale K' hK hsel huniq

/-- Entry `(i, j)` of the Jacobian of any tree is the partial derivative (ℝ, all node kinds). -/
theorem real_tree_jacobian_is_partial_derivative
    (env : ℕ → ℕ → (ℕ → ℝ) → DV ℝ) (envF : ℕ → ℕ → (ℕ → ℝ) → ℕ → ℝ) (envM : ℕ → ℕ → ℕ) (thr : ℝ)
    (hthr : 0 ≤ thr) (henv : ∀ id n y, Den n y (env id n y) (envF id n) (envM id n))
    {n : ℕ} {e : Expr ℝ} {M : ℕ} (hwf : WFR envM n e M) (x : ℕ → ℝ) (hs : SafeR envF envM thr n e x)
    {i j : ℕ} (hi : i < M) (hj : j < n) :
    HasDerivAt (fun t : ℝ => denR envF envM thr n e (x + t • basisVec j) i)
      ((evalTree env thr n e x).jac i j) 0 :=
  (real_tree_value_and_jacobian_exact env envF envM thr hthr henv hwf x hs).partial hi hj

/-- Non-vacuity: the max of the convex linearisation of a product of two vector-valued functions,
    summed in squares with a linear function — special nodes nested in each other. -/
example :
    let f : Expr ℝ := .poly [[((1 : ℝ), [1, 1])], [((1 : ℝ), [1, 0]), ((1 : ℝ), [0, 1])]]
    let g : Expr ℝ := .lin 2 [[1, 0], [0, 1]] [1, 1]
    let e : Expr ℝ := .agg .sumsq none [2] (.convexLin [1, 1] none (.bin .mul f g))
    WFR (fun _ _ => 0) 2 e 1 := by
  intro f g e
  refine WFR.agg _ _ _ (WFR.convexLin _ _ (WFR.bin .mul (WFR.poly 2 _ ?_) (WFR.lin 2 2 _ _) (Or.inl rfl)))
    (fun k hk => by simpa [selLen, selIdx] using hk) (by intro h; cases h)
  intro p hp m hm; simp at hp; rcases hp with rfl | rfl <;> simp at hm <;> rcases hm with rfl | rfl <;> simp

end RealTrees

/-! ### Sessions: histories of calls, in-place updates of the point buffer, edits of parameters

The caller owns one point buffer that it updates between calls, and the public parameters of
function objects (`quad_coeffs`, `linear_coeffs`, `coefficients`, `value_at_zero`, `func`/`jac`)
may be reassigned or edited in place at any time. Whatever happened before — evaluations at
other points, at the same array object with another content, with other parameters — a call
returns the value and the exact Jacobian of the combination of the operands *as they are now*
at the *current content* of the buffer: nothing derived from earlier parameters or earlier
points survives. -/

section Sessions

variable [LT 𝕜] [DecidableRel (α := 𝕜) (· < ·)]

/-- **Sessions, algebraic fragment.** After every history `ops` (constructions, setter
    assignments, in-place edits, writes of the point buffer, earlier calls in any number and
    order), `evaluate`/`jac` of any tree built on the objects return the value and the exact
    derivative of the combination `den` of the tree *with the current parameters*
    (`subst s.objs e`) at the *current content* of the buffer (`s.x`). -/
theorem session_value_and_jacobian_exact
    (env : ℕ → ℕ → (ℕ → 𝕜) → DV 𝕜) (envF : ℕ → ℕ → (ℕ → 𝕜) → ℕ → 𝕜) (envM : ℕ → ℕ → ℕ) (thr : 𝕜)
    (henv : ∀ id n y, Den n y (env id n y) (envF id n) (envM id n))
    (s0 : Sess 𝕜) (ops : List (SOp 𝕜)) (n : ℕ) (e : Expr 𝕜) {M : ℕ}
    (hwf : WF envM n (subst (s0.after env thr ops).objs e) M)
    (hs : Safe envF envM n (subst (s0.after env thr ops).objs e) (vec (s0.after env thr ops).x)) :
    ∃ d, s0.answer env thr ops (.call n e) = some d ∧
      Den n (vec (s0.after env thr ops).x) d
        (den envF envM n (subst (s0.after env thr ops).objs e)) M :=
  ⟨_, rfl, tree_value_and_jacobian_exact env envF envM thr henv hwf _ hs⟩

/-- **Sessions, all node kinds (ℝ).** The same for the complete tree language. -/
theorem real_session_value_and_jacobian_exact
    (env : ℕ → ℕ → (ℕ → ℝ) → DV ℝ) (envF : ℕ → ℕ → (ℕ → ℝ) → ℕ → ℝ) (envM : ℕ → ℕ → ℕ) (thr : ℝ)
    (hthr : 0 ≤ thr) (henv : ∀ id n y, Den n y (env id n y) (envF id n) (envM id n))
    (s0 : Sess ℝ) (ops : List (SOp ℝ)) (n : ℕ) (e : Expr ℝ) {M : ℕ}
    (hwf : WFR envM n (subst (s0.after env thr ops).objs e) M)
    (hs : SafeR envF envM thr n (subst (s0.after env thr ops).objs e) (vec (s0.after env thr ops).x)) :
    ∃ d, s0.answer env thr ops (.call n e) = some d ∧
      Den n (vec (s0.after env thr ops).x) d
        (denR envF envM thr n (subst (s0.after env thr ops).objs e)) M :=
  ⟨_, rfl, real_tree_value_and_jacobian_exact env envF envM thr hthr henv hwf _ hs⟩

/-- Calls and writes of the point buffer never modify an operand: after any history that contains
    no constructor/setter/in-place edit of object `id`, its public parameters are unchanged. -/
theorem session_calls_do_not_modify_operands
    (env : ℕ → ℕ → (ℕ → 𝕜) → DV 𝕜) (thr : 𝕜) (s0 : Sess 𝕜) (ops : List (SOp 𝕜)) (id : ℕ)
    (h : ∀ op ∈ ops, ¬ op.writes id) : (s0.after env thr ops).objs id = s0.objs id :=
  after_objs_of_not_writes env thr id ops s0 h

/-- Calls never modify the caller's point buffer, and the buffer holds what was last written:
    after `writeX xs` followed by any history without another write, its content is `xs`. -/
theorem session_point_buffer_is_last_written
    (env : ℕ → ℕ → (ℕ → 𝕜) → DV 𝕜) (thr : 𝕜) (s0 : Sess 𝕜) (pre post : List (SOp 𝕜)) (xs : List 𝕜)
    (h : ∀ op ∈ post, ¬ op.writesX) : (s0.after env thr (pre ++ .writeX xs :: post)).x = xs := by
  rw [Sess.after_append, Sess.after_cons, after_x_of_not_writesX env thr post _ h]
  rfl

/-- **Evaluate, update the same buffer, differentiate.** Whatever was evaluated before (`pre`,
    e.g. `evaluate` at the former content of the buffer) and whatever calls follow the update
    (`post`: no other write), `jac`/`evaluate` of a tree are those of the combination at the new
    content `xs` — not at the point of an earlier call. -/
theorem session_call_after_buffer_update_exact
    (env : ℕ → ℕ → (ℕ → 𝕜) → DV 𝕜) (envF : ℕ → ℕ → (ℕ → 𝕜) → ℕ → 𝕜) (envM : ℕ → ℕ → ℕ) (thr : 𝕜)
    (henv : ∀ id n y, Den n y (env id n y) (envF id n) (envM id n))
    (s0 : Sess 𝕜) (pre post : List (SOp 𝕜)) (xs : List 𝕜) (hpost : ∀ op ∈ post, ¬ op.writesX)
    (n : ℕ) (e : Expr 𝕜) {M : ℕ}
    (hwf : WF envM n (subst (s0.after env thr (pre ++ .writeX xs :: post)).objs e) M)
    (hs : Safe envF envM n (subst (s0.after env thr (pre ++ .writeX xs :: post)).objs e) (vec xs)) :
    ∃ d, s0.answer env thr (pre ++ .writeX xs :: post) (.call n e) = some d ∧
      Den n (vec xs) d (den envF envM n (subst (s0.after env thr (pre ++ .writeX xs :: post)).objs e)) M := by
  have hx := session_point_buffer_is_last_written env thr s0 pre post xs hpost
  have h := session_value_and_jacobian_exact env envF envM thr henv s0 (pre ++ .writeX xs :: post) n e
    hwf (by rw [hx]; exact hs)
  rw [hx] at h
  exact h

/-- **A quadratic function follows its current second-order coefficients.** After any history
    `pre` (calls included: nothing they computed is kept), `q.quad_coeffs = Q'`, and any history
    `post` that does not write `q` again (calls at any points included), `evaluate` and `jac` of
    `q` are `x'Q'x + b'x + c` and its exact derivative — with the *new* matrix for both. -/
theorem quadratic_function_follows_current_coefficients
    (env : ℕ → ℕ → (ℕ → 𝕜) → DV 𝕜) (thr : 𝕜) (s0 : Sess 𝕜) (pre post : List (SOp 𝕜)) (id : ℕ)
    (Q : List (List 𝕜)) (b : List 𝕜) (c : 𝕜) (Q' : List (List 𝕜))
    (hobj : (s0.after env thr pre).objs id = some (.quadratic Q b c))
    (hsq : Q'.all (fun r => r.length == Q'.length) = true)
    (hpost : ∀ op ∈ post, ¬ op.writes id) (n : ℕ) :
    ∃ d, s0.answer env thr (pre ++ .setQuadCoeffs id Q' :: post) (.call n (.user id)) = some d ∧
      Den n (vec (s0.after env thr (pre ++ .setQuadCoeffs id Q' :: post)).x) d
        (fun y _ => sumTo n (fun i => y i * sumTo n (fun j => mat Q' i j * y j))
          + sumTo n (fun j => vec b j * y j) + c) 1 := by
  have hcur : (s0.after env thr (pre ++ .setQuadCoeffs id Q' :: post)).objs id = some (.quadratic Q' b c) := by
    rw [Sess.after_append, Sess.after_cons, after_objs_of_not_writes env thr id post _ hpost]
    simp only [step, hobj, hsq, if_true]
    exact Sess.put_objs_self _ id _
  refine ⟨_, rfl, ?_⟩
  simp only [subst, hcur, FnObj.leaf, evalTree, build, Obj.eval]
  exact QuadF.den { n := n, Q := mat Q', b := vec b, c := c } _

/-- The same for an in-place write `q.quad_coeffs[i, j] = v` through the array handed out by
    the getter. -/
theorem quadratic_function_follows_in_place_edit
    (env : ℕ → ℕ → (ℕ → 𝕜) → DV 𝕜) (thr : 𝕜) (s0 : Sess 𝕜) (pre post : List (SOp 𝕜)) (id : ℕ)
    (Q : List (List 𝕜)) (b : List 𝕜) (c : 𝕜) (i j : ℕ) (v : 𝕜)
    (hobj : (s0.after env thr pre).objs id = some (.quadratic Q b c))
    (hpost : ∀ op ∈ post, ¬ op.writes id) (n : ℕ) :
    ∃ d, s0.answer env thr (pre ++ .editQuadCoeff id i j v :: post) (.call n (.user id)) = some d ∧
      Den n (vec (s0.after env thr (pre ++ .editQuadCoeff id i j v :: post)).x) d
        (fun y _ => sumTo n (fun k => y k * sumTo n (fun l => mat (setEntry Q i j v) k l * y l))
          + sumTo n (fun l => vec b l * y l) + c) 1 := by
  have hcur : (s0.after env thr (pre ++ .editQuadCoeff id i j v :: post)).objs id
      = some (.quadratic (setEntry Q i j v) b c) := by
    rw [Sess.after_append, Sess.after_cons, after_objs_of_not_writes env thr id post _ hpost]
    simp only [step, hobj]
    exact Sess.put_objs_self _ id _
  refine ⟨_, rfl, ?_⟩
  simp only [subst, hcur, FnObj.leaf, evalTree, build, Obj.eval]
  exact QuadF.den { n := n, Q := mat (setEntry Q i j v), b := vec b, c := c } _

/-- **A linear function follows its current coefficients** (`f.coefficients = A'`). -/
theorem linear_function_follows_current_coefficients
    (env : ℕ → ℕ → (ℕ → 𝕜) → DV 𝕜) (thr : 𝕜) (s0 : Sess 𝕜) (pre post : List (SOp 𝕜)) (id : ℕ)
    (A : List (List 𝕜)) (b : List 𝕜) (A' : List (List 𝕜))
    (hobj : (s0.after env thr pre).objs id = some (.linear A b))
    (hpost : ∀ op ∈ post, ¬ op.writes id) (n : ℕ) :
    ∃ d, s0.answer env thr (pre ++ .setLinCoeffs id A' :: post) (.call n (.user id)) = some d ∧
      Den n (vec (s0.after env thr (pre ++ .setLinCoeffs id A' :: post)).x) d
        (fun y i => sumTo n (fun j => mat A' i j * y j) + vec b i) A'.length := by
  have hcur : (s0.after env thr (pre ++ .setLinCoeffs id A' :: post)).objs id = some (.linear A' b) := by
    rw [Sess.after_append, Sess.after_cons, after_objs_of_not_writes env thr id post _ hpost]
    simp only [step, hobj]
    exact Sess.put_objs_self _ id _
  refine ⟨_, rfl, ?_⟩
  simp only [subst, hcur, FnObj.leaf, evalTree, build, Obj.eval]
  exact LinF.den { m := A'.length, n := n, A := mat A', b := vec b } _

/-- Non-vacuity: a quadratic function of two inputs is created, evaluated inside the tree
    `2 q + x0 x1` at `(1, 2)`, its second-order coefficients are reassigned, the same buffer is
    updated, one entry is edited in place; the hypotheses of `session_value_and_jacobian_exact`
    hold for the tree built on the object after this history, and the object has the last
    parameters. -/
example :
    let ops : List (SOp 𝕜) :=
      [.newQuad 0 [[1, 2], [3, 4]] [5, 6] 7, .writeX [1, 2],
       .call 2 (.bin .add (.binC .mul (.user 0) [1 + 1]) (.poly [[((1 : 𝕜), [1, 1])]])),
       .setQuadCoeffs 0 [[0, 1], [1, 0]], .writeX [0, 1], .editQuadCoeff 0 0 0 5]
    let e : Expr 𝕜 := .bin .add (.binC .mul (.user 0) [1 + 1]) (.poly [[((1 : 𝕜), [1, 1])]])
    let s := (Sess.empty : Sess 𝕜).after noEnv (0 : 𝕜) ops
    s.objs 0 = some (.quadratic [[5, 1], [1, 0]] [5, 6] 7) ∧ s.x = [0, 1] ∧
      WF (fun _ _ => 0) 2 (subst s.objs e) 1 ∧
      Safe (fun _ _ _ _ => 0) (fun _ _ => 0) 2 (subst s.objs e) (vec s.x) := by
  intro ops e s
  have hobj : s.objs 0 = some (.quadratic [[5, 1], [1, 0]] [5, 6] 7) := by
    simp [s, ops, Sess.after, step, Sess.put, Sess.empty, setEntry]
  refine ⟨hobj, by simp [s, ops, Sess.after, step, Sess.put, Sess.empty], ?_, ?_⟩
  · simp only [e, subst, hobj, FnObj.leaf]
    have h := WF.bin (envM := fun _ _ => 0) (n := 2) .add
      (WF.binC .mul [(1 + 1 : 𝕜)] (WF.quad 2 [[5, 1], [1, 0]] [5, 6] (7 : 𝕜)))
      (WF.poly 2 [[((1 : 𝕜), [1, 1])]] (by intro p hp m hm; simp at hp; subst hp; simp at hm; subst hm; simp))
      (Or.inl rfl)
    simpa using h
  · simp [e, subst, hobj, FnObj.leaf, Safe]

end Sessions

/-! ### Storage: returned arrays are never rewritten, one object may be used several times

`SExpr.run` (Model/C10.lean) threads the storage through the value path with the allocation
points of the code: `FunctionRestriction.__extend_subvect` builds a new vector at every call,
`A @ x`, the four operators, `-f(x)` and `concatenate` build new arrays, a user function may return
its input array or a view of it (`SExpr.view`). `Hist` is what a caller does with one tree: it
rewrites its own buffer (cell 0) and keeps every array a call returns. -/

section Storage

variable {α : Type} [Add α] [Mul α] [Sub α] [Neg α] [Div α] [OfNat α 0] [OfNat α 1]

/-- An evaluation never rewrites storage that existed before it: every array the caller (or an
    enclosing node) holds reads the same numbers afterwards. All trees, all stores, all arrays. -/
theorem evaluation_never_rewrites_existing_storage (e : SExpr α) (h : Store α) (x a : Arr)
    (ha : a.cell < h.length) : (e.run h x).1.read a = h.read a :=
  e.run_preserves h x a ha

/-- The array an evaluation returns shows the value of the pure semantics at the content of the
    argument - whatever the leaves return (new arrays or views of their input), however often a
    sub-tree occurs. -/
theorem stored_evaluation_returns_the_value (e : SExpr α) (h : Store α) (x : Arr)
    (hx : x.cell < h.length) : (e.run h x).1.read (e.run h x).2 = e.sem (h.read x) :=
  e.run_value h x hx

/-- One function object `S` used twice in a tree at different arguments, `S(Ax) op S(Bx)`:
    each use is the value of `S` at its own argument (for every `S`, in particular a restriction of
    a function returning a view of its input). -/
theorem one_object_used_twice_each_at_its_own_argument (op : BinOp) (S : SExpr α)
    (A B : List (List α)) (h : Store α) (x : Arr) (hx : x.cell < h.length) :
    ((SExpr.bin op (.lincomp A S) (.lincomp B S)).run h x).1.read
        ((SExpr.bin op (.lincomp A S) (.lincomp B S)).run h x).2
      = binVal op
          (S.sem ((List.range A.length).map (matVec (h.read x).length (mat A) (vec (h.read x)))))
          (S.sem ((List.range B.length).map (matVec (h.read x).length (mat B) (vec (h.read x))))) := by
  rw [SExpr.run_value _ h x hx]
  rfl

/-- **Histories.** After every history of buffer updates and calls, every array returned by an
    earlier call that is not (a view of) the caller's own buffer still shows the numbers it showed
    when it was returned. -/
theorem kept_results_keep_their_values (s : Hist α) (hs : s.Good) (ops : List (HOp α)) :
    ∀ p ∈ (s.after ops).kept, p.1.cell ≠ 0 → (s.after ops).store.read p.1 = p.2 :=
  fun p hp hc => ((Hist.after_good ops s hs).2 p hp hc).2

omit [Add α] [Mul α] [Sub α] [Neg α] [Div α] [OfNat α 1] in
/-- A caller that starts with its buffer and nothing kept is in a good state. -/
theorem fresh_history_good (p : List α) : (Hist.mk [p] ([] : List (Arr × List α))).Good :=
  ⟨by simp, by intro q hq; simp at hq⟩

/-- What a call returns and records: the value of the tree at the current content of the buffer. -/
theorem call_returns_value_at_buffer_content (s : Hist α) (hs : s.Good) (e : SExpr α) :
    (s.step (.call e)).kept = s.kept ++
      [((e.run s.store s.store.buffer).2, e.sem (s.store.read s.store.buffer))] := by
  simp only [Hist.step]
  rw [SExpr.run_value _ _ _ hs.1]

/-- Non-vacuity: a restriction (3 inputs, input 1 frozen at 7) of `x ↦ x[::-1]` evaluated at two
    contents of the buffer, both results kept: they show `[2,7,1]` and `[5,7,-3]` at the end, and
    neither lives in the caller's buffer. `r(x) - r(Bx)` with ONE restriction: `[1,0,1] `. -/
example :
    let r : SExpr Int := .restrict 3 [1] [7] (.view [2, 1, 0])
    let s := (Hist.mk [[1, 2]] []).after [.call r, .write [-3, 5], .call r]
    s.kept.map (fun p => (s.store.read p.1, p.2, decide (p.1.cell ≠ 0)))
      = [([2, 7, 1], [2, 7, 1], true), ([5, 7, -3], [5, 7, -3], true)] := by
  decide

example :
    let r : SExpr Int := .restrict 3 [1] [7] (.view [0, 1, 2])
    let e : SExpr Int := .bin .sub (.lincomp [[1, 0], [0, 1]] r) (.lincomp [[0, 1], [1, 0]] r)
    (e.run [[1, 2]] ⟨0, [some 0, some 1]⟩).1.read (e.run [[1, 2]] ⟨0, [some 0, some 1]⟩).2 = [-1, 0, 1] := by
  decide

end Storage


/-! ### Smooth maximum aggregations bound the maximum from the documented side (ℝ) -/

section SmoothMax

open Agg

/-- Upper-bound KS (the value the code computes, with any shift `m`, in particular `m = max g`)
    is at least every aggregated value, hence at least their maximum. -/
theorem ks_upper_bounds_max {ρ : ℝ} (hρ : 0 < ρ) {K : ℕ} (g : ℕ → ℝ) (m : ℝ) {k : ℕ} (hk : k < K) :
    g k ≤ ksUpper ρ K g m :=
  ksUpper_ge hρ g m hk

/-- ... and exceeds the maximum by at most `log(K)/rho`. -/
theorem ks_within_log_n_over_rho {ρ : ℝ} (hρ : 0 < ρ) {K : ℕ} (hK : 0 < K) (g : ℕ → ℝ) (m M : ℝ)
    (hM : ∀ k, k < K → g k ≤ M) : ksUpper ρ K g m ≤ M + Real.log K / ρ :=
  ksUpper_le hρ hK g m M hM

/-- Lower-bound KS never exceeds the maximum (with `K` the number of aggregated values). -/
theorem ks_lower_bounds_max {ρ : ℝ} (hρ : 0 < ρ) {K : ℕ} (hK : 0 < K) (g : ℕ → ℝ) (m M : ℝ)
    (hM : ∀ k, k < K → g k ≤ M) : ksLower ρ K g m ≤ M :=
  ksLower_le hρ hK g m M hM

/-- Lower-bound KS is within `log(K)/rho` below every aggregated value's level. -/
theorem ks_lower_within_log_n_over_rho {ρ : ℝ} (hρ : 0 < ρ) {K : ℕ} (g : ℕ → ℝ) (m : ℝ) {k : ℕ}
    (hk : k < K) : g k - Real.log K / ρ ≤ ksLower ρ K g m :=
  ksLower_ge hρ g m hk

/-- IKS never exceeds the maximum. -/
theorem iks_lower_bounds_max {ρ : ℝ} {K : ℕ} (hK : 0 < K) (g : ℕ → ℝ) (m M : ℝ)
    (hM : ∀ k, k < K → g k ≤ M) : iks ρ K g m ≤ M :=
  iks_le hK g m M hM

/-- The shift by the maximum used by the code does not change the values. -/
theorem smooth_max_independent_of_shift {ρ : ℝ} (hρ : ρ ≠ 0) {K : ℕ} (hK : 0 < K) (g : ℕ → ℝ) (m m' : ℝ) :
    ksUpper ρ K g m = ksUpper ρ K g m' ∧ iks ρ K g m = iks ρ K g m' :=
  ⟨by rw [ksUpper_shift hρ hK, ksUpper_shift hρ hK], iks_shift ρ hK g m m'⟩

/-- The Jacobian of the KS aggregations in the code (`sum_k w_k g_k'` with the shifted
    exponential weights) is the exact derivative of the KS function. -/
theorem ks_jacobian_exact {ρ : ℝ} (hρ : ρ ≠ 0) {K : ℕ} (hK : 0 < K) (g : ℕ → ℝ → ℝ) (g' : ℕ → ℝ)
    (t m : ℝ) (hg : ∀ k, k < K → HasDerivAt (g k) (g' k) t) :
    HasDerivAt (fun s => ksUpper ρ K (fun k => g k s) m)
      (∑ k ∈ Finset.range K, ksWeight ρ K (fun k => g k t) m k * g' k) t := by
  have h := ks_hasDerivAt hρ hK g g' t m hg
  have e : (fun s => ksUpper ρ K (fun k => g k s) m) = fun s => ksPlain ρ K (fun k => g k s) := by
    funext s; exact ksUpper_shift hρ hK _ m
  rw [e]; exact h

/-- The Jacobian of the IKS aggregation in the code (quotient rule with the shifted exponential
    weights, the shift treated as a constant) is the exact derivative of IKS. -/
theorem iks_jacobian_exact (ρ : ℝ) {K : ℕ} (hK : 0 < K) (g : ℕ → ℝ → ℝ) (g' : ℕ → ℝ) (t m : ℝ)
    (hg : ∀ k, k < K → HasDerivAt (g k) (g' k) t) :
    HasDerivAt (fun s => iks ρ K (fun k => g k s) m)
      ((-(∑ k ∈ Finset.range K, Real.exp (ρ * (g k t + 1 - m)) * (ρ * g' k))
            / (expSum ρ K (fun k => g k t) m) ^ 2)
          * (∑ k ∈ Finset.range K, g k t * Real.exp (ρ * (g k t + 1 - m)))
        + ((∑ k ∈ Finset.range K, Real.exp (ρ * (g k t + 1 - m)) * g' k)
            + ∑ k ∈ Finset.range K, Real.exp (ρ * (g k t + 1 - m)) * g k t * (ρ * g' k))
          / expSum ρ K (fun k => g k t) m) t :=
  iks_hasDerivAt ρ hK g g' t m hg

/-- Non-vacuity: three values, `rho = 10`: the hypotheses are satisfiable and the two KS bounds
    enclose the maximum `2` in an interval of width `log 3 / 10`. -/
example : (2 : ℝ) ≤ ksUpper 10 3 (fun k => (k : ℝ)) 2 ∧ ksUpper 10 3 (fun k => (k : ℝ)) 2 ≤ 2 + Real.log 3 / 10 := by
  refine ⟨?_, ?_⟩
  · have := ks_upper_bounds_max (ρ := 10) (by norm_num) (K := 3) (fun k => (k : ℝ)) 2 (k := 2) (by norm_num)
    simpa using this
  · have := ks_within_log_n_over_rho (ρ := 10) (by norm_num) (K := 3) (by norm_num) (fun k => (k : ℝ)) 2 2
      (fun k hk => by
        have : (k : ℝ) ≤ 2 := by exact_mod_cast Nat.le_of_lt_succ hk
        simpa using this)
    simpa using this

end SmoothMax

/-! ### Non-vacuity: the hypotheses are satisfiable by non-trivial trees -/

section NonVacuity

variable [LT 𝕜] [DecidableRel (α := 𝕜) (· < ·)]

/-- The empty environment of the driver (no user function). -/
def noEnv : ℕ → ℕ → (ℕ → 𝕜) → DV 𝕜 := fun _ _ _ => { m := 0, val := fun _ => 0, jac := fun _ _ => 0 }

omit [LT 𝕜] [DecidableRel (α := 𝕜) (· < ·)] in
theorem noEnv_exact : ∀ id n y, Den (𝕜 := 𝕜) n y (noEnv id n y) (fun _ _ => 0) 0 :=
  fun _ _ _ => ⟨rfl, fun i hi => absurd hi (Nat.not_lt_zero i)⟩

/-- Polynomial leaves satisfy the leaf hypothesis at every point: e.g. `(x0 x1, x0 + x1)`. -/
example (x : ℕ → 𝕜) :
    Den 2 x (polyDV [[((1 : 𝕜), [1, 1])], [((1 : 𝕜), [1, 0]), ((1 : 𝕜), [0, 1])]] x)
      (fun y i => polyEval ([[((1 : 𝕜), [1, 1])], [((1 : 𝕜), [1, 0]), ((1 : 𝕜), [0, 1])]].getD i []) y) 2 :=
  polyDV_den 2 _ (by intro p hp m hm; simp at hp; rcases hp with rfl | rfl <;> simp at hm <;> rcases hm with rfl | rfl <;> simp) x

/-- A tree with both operands vector-valued and input dimension = output dimension = 2, composed
    with a linear map and restricted: `((f * g) ∘ A)` with one of three inputs frozen — the main
    theorem applies (well-formed, and safe at every point since there is no division). -/
example (x : ℕ → 𝕜) :
    let f : Expr 𝕜 := .poly [[((1 : 𝕜), [1, 1])], [((1 : 𝕜), [1, 0]), ((1 : 𝕜), [0, 1])]]
    let g : Expr 𝕜 := .lin 2 [[1, 0], [0, 1]] [1, 1]
    let e : Expr 𝕜 := .restrict 3 [1] [1] (.lincomp 2 [[1, 1, 0], [0, 1, 1]] (.bin .mul f g))
    Den 2 x (evalTree noEnv (0 : 𝕜) 2 e x) (den (fun _ _ _ _ => 0) (fun _ _ => 0) 2 e) 2 := by
  intro f g e
  refine tree_value_and_jacobian_exact noEnv (fun _ _ _ _ => 0) (fun _ _ => 0) 0 noEnv_exact
    (WF.restrict [1] [1] (WF.lincomp _ (WF.bin .mul (WF.poly 2 _ ?_) (WF.lin 2 2 _ _) (Or.inl rfl)))
      (by decide) (by decide)) x ?_
  · intro p hp m hm; simp at hp; rcases hp with rfl | rfl <;> simp at hm <;> rcases hm with rfl | rfl <;> simp
  · simp [Safe]

end NonVacuity

end GV.C10
