/-
C11 — property theorems: saved histories and design spaces reload identically; a file written
incrementally (append mode, after any interleaving of stores and exports) reloads like a single
final export.
Only property theorems (with the definitions needed to state them) and non-vacuity examples live
here; helper lemmas are in `Lemmas/C11.lean`, `Lemmas/C11Inv.lean`, `Lemmas/C11Ds.lean`.

Vocabulary (defined in the lemma files, repeated here for the reader):
* `DbEq a b` — same points in the same order, and at each point the same finite map from output
  names to values (value kind scalar/array, shape and data included).
* `InScope s op` — a store passes a dict and never *changes* an output already present in the
  file (append mode does not propagate overwrites by design); everything else is allowed.
* `Layout e L` — the file entry `e` is the image of the list `L` of (name, value) pairs in file
  order: `k/i` lists the names, `v/i` the scalar values in that order, `v/arr_i` holds each array
  under its position in `k/i`.
-/
import GemseoVerif.Lemmas.C11Inv
import GemseoVerif.Lemmas.C11Ds
import GemseoVerif.Lemmas.C11Pb
import GemseoVerif.Lemmas.C11Rep

namespace GV.C11

variable {κ : Type} [DecidableEq κ]

/-- A history is in scope when every operation is in scope at the state it is applied to. -/
def Scoped (H : Pt → κ) : State κ → List Op → Prop
  | _, [] => True
  | s, op :: ops => InScope s op ∧ ∀ s', step H s op = some s' → Scoped H s' ops

/-- The Boolean checker `scopedB` of the model (printed by the driver and compared with the
    harness's own bookkeeping on every run) is sound for `Scoped`. -/
theorem scoped_of_scopedB (H : Pt → κ) (s : State κ) (ops : List Op) (h : scopedB H s ops = true) :
    Scoped H s ops := by
  induction ops generalizing s with
  | nil => trivial
  | cons op ops ih =>
    simp only [scopedB, Bool.and_eq_true] at h
    refine ⟨inScope_of_inScopeB s op h.1, ?_⟩
    intro s' hs'
    have := h.2
    simp only [hs'] at this
    exact ih s' this

theorem DbEq.symm {a b : Db} (h : DbEq a b) : DbEq b a := by
  unfold DbEq at *
  induction h with
  | nil => exact List.Forall₂.nil
  | cons h _ ih => exact List.Forall₂.cons ⟨h.1.symm, fun n => (h.2 n).symm⟩ ih

theorem DbEq.trans {a b c : Db} (h₁ : DbEq a b) (h₂ : DbEq b c) : DbEq a c := by
  unfold DbEq at *
  induction h₁ generalizing c with
  | nil => cases h₂; exact List.Forall₂.nil
  | cons h _ ih =>
    cases h₂ with
    | cons h' t' => exact List.Forall₂.cons ⟨h.1.trans h'.1, fun n => (h.2 n).trans (h'.2 n)⟩ (ih t')

/-! ### Single export -/

/-- **export_reload.** Exporting a database (distinct points, distinct names at each point — what
    a dict of dicts is) never raises, and reading the file back yields the same points in the same
    order with the same output names, values, kinds (scalar / array) and shapes. No bound on the
    number of points, outputs, or on the values. -/
theorem export_reload (db : Db) (wf : DbWF db) :
    ∃ F d, exportAll db = some F ∧ readFile F = some d ∧ DbEq d db := by
  obtain ⟨F, hF, hok, _, hall⟩ := exportAll_spec db wf
  obtain ⟨d, hd, heq, _⟩ := readFile_complete db wf F hok hall
  exact ⟨F, d, hF, hd, heq⟩

example : DbWF [(⟨false, [0, 1]⟩, [("g", .scalar 1), ("@f", .arr ⟨[1, 2], [1, 2]⟩), ("a", .arr ⟨[1], [5]⟩)]),
                (⟨true, [3, 4]⟩, [])] :=
  ⟨by decide, by decide⟩

example : (exportAll [(⟨false, [0, 1]⟩, [("g", .scalar 1), ("@f", .arr ⟨[1, 2], [1, 2]⟩), ("a", .arr ⟨[1], [5]⟩)]),
                      (⟨true, [3, 4]⟩, [])]).bind readFile
    = some [(⟨false, [0, 1]⟩, [("g", .scalar 1), ("@f", .arr ⟨[1, 2], [1, 2]⟩), ("a", .arr ⟨[1], [5]⟩)]),
            (⟨true, [3, 4]⟩, [])] := by decide

/-! ### Histories -/

/-- **The invariant holds along every in-scope history, and no operation raises.** -/
theorem run_scoped (H : Pt → κ) (hinj : Function.Injective H) (s : State κ) (hs : Inv H s)
    (ops : List Op) (hsc : Scoped H s ops) : ∃ s', run H s ops = some s' ∧ Inv H s' := by
  induction ops generalizing s with
  | nil => exact ⟨s, rfl, hs⟩
  | cons op ops ih =>
    obtain ⟨h1, h2⟩ := hsc
    cases op with
    | store p o =>
      have hinv := inv_store H hinj s hs p o h1
      obtain ⟨s', hr, hi⟩ := ih _ hinv (h2 _ rfl)
      exact ⟨s', by simp [run, step, hr], hi⟩
    | exportFile a =>
      obtain ⟨s1, he, hinv, _⟩ := inv_export H s hs a
      obtain ⟨s', hr, hi⟩ := ih _ hinv (h2 _ (by simp [step, he]))
      exact ⟨s', by simp [run, step, he, hr], hi⟩
    | reload =>
      obtain ⟨s1, he, hinv, _⟩ := inv_reload H s hs
      obtain ⟨s', hr, hi⟩ := ih _ hinv (h2 _ (by simp [step, he]))
      exact ⟨s', by simp [run, step, he, hr], hi⟩

/-- **incremental_eq_single.** For every interleaving of stores (new points, new outputs at
    existing points, in any order and of any kind) and exports (append or fresh), with an injective
    hash on the points: no operation raises; a final export — append *or* fresh — succeeds; the
    file then reads back to the content of the in-memory database, and so does a single export of
    that database to a new file: the incrementally written file and the single final export
    reload to the same content. -/
theorem incremental_eq_single (H : Pt → κ) (hinj : Function.Injective H) (ops : List Op)
    (hsc : Scoped H State.init ops) (append : Bool) :
    ∃ s s' dInc F dOne, run H State.init ops = some s ∧ doExport s append = some s' ∧
      readFile s'.file = some dInc ∧ exportAll s.db = some F ∧ readFile F = some dOne ∧
      DbEq dInc s.db ∧ DbEq dOne s.db ∧ DbEq dInc dOne := by
  obtain ⟨s, hr, hinv⟩ := run_scoped H hinj State.init (inv_init H) ops hsc
  obtain ⟨s', he, hinv', hdb, _, hall⟩ := inv_export H s hinv append
  obtain ⟨dInc, hd1, heq1, _⟩ := readFile_complete s.db hinv.wf s'.file (hdb ▸ hinv'.file) hall
  obtain ⟨F, dOne, hF, hd2, heq2⟩ := export_reload s.db hinv.wf
  exact ⟨s, s', dInc, F, dOne, hr, he, hd1, hF, hd2, heq1, heq2, heq1.trans heq2.symm⟩

/-- **reload_after_every_export.** The same at every export *inside* a history: right after any
    export of an in-scope history the file reads back to the database content of that moment. -/
theorem reload_after_every_export (H : Pt → κ) (hinj : Function.Injective H) (ops : List Op)
    (append : Bool) (hsc : Scoped H State.init (ops ++ [.exportFile append])) :
    ∃ s d, run H State.init (ops ++ [.exportFile append]) = some s ∧ readFile s.file = some d ∧
      DbEq d s.db := by
  have hpre : ∀ (s0 : State κ) (l : List Op), Scoped H s0 (l ++ [.exportFile append]) → Scoped H s0 l := by
    intro s0 l
    induction l generalizing s0 with
    | nil => intro _; trivial
    | cons op l ih => intro h; exact ⟨h.1, fun s' hs' => ih s' (h.2 s' hs')⟩
  have hrun : ∀ (s0 : State κ) (l : List Op) (s1 : State κ), run H s0 l = some s1 →
      run H s0 (l ++ [.exportFile append]) = (doExport s1 append) := by
    intro s0 l
    induction l generalizing s0 with
    | nil =>
      intro s1 h
      simp only [run, Option.some.injEq] at h
      subst h
      simp only [List.nil_append, run, step]
      cases doExport s0 append <;> rfl
    | cons op l ih =>
      intro s1 h
      simp only [List.cons_append, run] at h ⊢
      cases hst : step H s0 op with
      | none => simp [hst] at h
      | some s2 => simp only [hst] at h ⊢; exact ih s2 s1 h
  obtain ⟨s, hr, hinv⟩ := run_scoped H hinj State.init (inv_init H) ops (hpre _ _ hsc)
  obtain ⟨s', he, hinv', hdb, _, hall⟩ := inv_export H s hinv append
  obtain ⟨d, hd, heq, _⟩ := readFile_complete s.db hinv.wf s'.file (hdb ▸ hinv'.file) hall
  exact ⟨s', d, by rw [hrun _ _ _ hr, he], hd, hdb ▸ heq⟩

/-- **reload_restores_last_export.** A restart (`Database.from_hdf`, or `update_from_hdf` into a
    new database as the `load` option of the scenario backups does) after any in-scope history,
    an export, and then *any* further stores (they are lost): the new database holds the content
    exported last — and, restarts being operations of the state machine, `incremental_eq_single`
    and `reload_after_every_export` cover the histories that continue after a restart. -/
theorem reload_restores_last_export (H : Pt → κ) (hinj : Function.Injective H) (ops : List Op)
    (hsc : Scoped H State.init ops) (append : Bool) (sts : List (Pt × Outs)) :
    ∃ s s1 s3, run H State.init ops = some s ∧ doExport s append = some s1 ∧
      doReload H (sts.foldl (fun st po => doStore H st po.1 po.2) s1) = some s3 ∧
      DbEq s3.db s.db := by
  obtain ⟨s, hr, hinv⟩ := run_scoped H hinj State.init (inv_init H) ops hsc
  obtain ⟨s1, he, hinv1, hdb, _, hall⟩ := inv_export H s hinv append
  obtain ⟨d, hd, heq, _⟩ := readFile_complete s.db hinv.wf s1.file (hdb ▸ hinv1.file) hall
  refine ⟨s, s1, { db := d, pend := d.foldl (fun pend po => addPending H pend po.1) [], file := s1.file },
    hr, he, ?_, heq⟩
  simp only [doReload, foldl_doStore_file, hd]

/-- **pending_complete.** Along every in-scope history (injective hash), every database point
    whose file entry is missing or does not yet hold all its outputs is in the pending buffer —
    which is why looping over the buffer only is enough. Also: every file entry is laid out as
    `Layout` says (names in file order, scalars in that order, arrays under their positions) and
    only holds current database values. -/
theorem pending_complete (H : Pt → κ) (hinj : Function.Injective H) (ops : List Op)
    (hsc : Scoped H State.init ops) :
    ∃ s, run H State.init ops = some s ∧
      (∀ ie ∈ s.file, EntryOK s.db ie.1 ie.2) ∧
      (s.file ≠ [] → ∀ i p outs, s.db[i]? = some (p, outs) →
        p ∈ s.pend.map (·.2) ∨ ∃ e, alook i s.file = some e ∧ EntryComplete s.db i e) := by
  obtain ⟨s, hr, hinv⟩ := run_scoped H hinj State.init (inv_init H) ops hsc
  exact ⟨s, hr, hinv.file.ok, hinv.cover⟩

omit [DecidableEq κ] in
/-- **append_to_fresh_or_rewritten_file.** Appending to a file whose group `x` is empty (new
    file, or a file rewritten by `OptimizationProblem.to_hdf`) is a full export of the database,
    whatever the pending buffer holds. -/
theorem append_to_fresh_or_rewritten_file (s : State κ) (h : s.file = []) :
    doExport s true = doExport s false := by
  simp [doExport, h]

/-! #### Non-vacuity: a non-trivial in-scope history (outputs appear in different orders between
exports, scalar and array kinds, an entry that is empty at its first export) -/

def demoOps : List Op :=
  [ .store ⟨false, [0, 1]⟩ [("g", .scalar 2)],
    .store ⟨false, [5, 5]⟩ [],
    .exportFile true,
    .store ⟨false, [0, 1]⟩ [("@g", .arr ⟨[1, 2], [3, 4]⟩), ("a", .scalar 7)],
    .store ⟨false, [5, 5]⟩ [("z", .arr ⟨[1], [9]⟩)],
    .store ⟨true, [1, 1]⟩ [("f", .scalar 1)],
    .exportFile true,
    .store ⟨false, [0, 1]⟩ [("b", .arr ⟨[2], [1, 1]⟩), ("g", .scalar 2)],
    .store ⟨false, [8, 8]⟩ [("lost", .scalar 0)],
    .reload,
    .store ⟨false, [0, 1]⟩ [("b", .arr ⟨[2], [1, 1]⟩)] ]

example : Scoped (fun p => p) State.init demoOps := scoped_of_scopedB _ _ _ (by decide)

example : ((run (fun p => p) State.init demoOps).bind (fun s => doExport s true)).map (fun s => s.file)
    = some [(0, ⟨⟨false, [0, 1]⟩, ["g", "@g", "a", "b"], [2, 7], [(1, ⟨[1, 2], [3, 4]⟩), (3, ⟨[2], [1, 1]⟩)]⟩),
            (1, ⟨⟨false, [5, 5]⟩, ["z"], [], [(0, ⟨[1], [9]⟩)]⟩),
            (2, ⟨⟨true, [1, 1]⟩, ["f"], [1], []⟩)] := by decide

/-! #### The hypotheses are needed -/

/-- Changing an output that is already in the file is *not* propagated by an append export (by
    design): such a history is outside the property. -/
theorem overwrite_not_propagated :
    ∃ (ops : List Op) (s : State Pt) (d : Db), run (fun p => p) State.init ops = some s ∧
      readFile s.file = some d ∧ ¬ DbEq d s.db := by
  refine ⟨[.store ⟨false, [0]⟩ [("f", .scalar 1)], .exportFile true,
           .store ⟨false, [0]⟩ [("f", .scalar 2)], .exportFile true],
          ⟨[(⟨false, [0]⟩, [("f", .scalar 2)])], [], [(0, ⟨⟨false, [0]⟩, ["f"], [1], []⟩)]⟩,
          [(⟨false, [0]⟩, [("f", .scalar 1)])], by decide, by decide, ?_⟩
  intro h
  unfold DbEq at h
  cases h with
  | cons h _ =>
    have := h.2 "f"
    revert this
    decide

/-- With a hash that collides, a pending point can be lost: the second point replaces the first
    in the buffer, and the first one's new output never reaches the file. The injectivity
    hypothesis of `incremental_eq_single` is needed (the real hash is 64 bits of xxh3). -/
theorem hash_collision_loses_point :
    ∃ (ops : List Op) (s : State Unit) (d : Db), Scoped (fun _ => ()) State.init ops ∧
      run (fun _ => ()) State.init ops = some s ∧ readFile s.file = some d ∧ ¬ DbEq d s.db := by
  refine ⟨[.store ⟨false, [0]⟩ [], .store ⟨false, [1]⟩ [], .exportFile true,
           .store ⟨false, [0]⟩ [("f", .scalar 1)], .store ⟨false, [1]⟩ [("g", .scalar 1)], .exportFile true],
          ⟨[(⟨false, [0]⟩, [("f", .scalar 1)]), (⟨false, [1]⟩, [("g", .scalar 1)])], [],
           [(0, ⟨⟨false, [0]⟩, [], [], []⟩), (1, ⟨⟨false, [1]⟩, ["g"], [1], []⟩)]⟩,
          [(⟨false, [0]⟩, []), (⟨false, [1]⟩, [("g", .scalar 1)])], ?_, by decide, by decide, ?_⟩
  · exact scoped_of_scopedB _ _ _ (by decide)
  · intro h
    unfold DbEq at h
    cases h with
    | cons h _ =>
      have := h.2 "f"
      revert this
      decide

/-! ### Design-space files -/

/-- **design_space_roundtrip (HDF).** A design space with distinct variable names and sizes ≥ 1
    written by `to_hdf` is read back by `from_hdf` as the same list of variables: names in order,
    sizes, types, bounds (infinite ones included), current values or their absence. -/
theorem design_space_hdf_roundtrip (ds : DSpace) (nd : (ds.map (·.name)).Nodup)
    (hsize : ∀ v ∈ ds, 1 ≤ v.size) :
    ∃ f, dsToHdf ds = some f ∧ dsFromHdf f = some ds :=
  dsHdf_roundtrip ds nd hsize

example : (dsToHdf [⟨"x_shared", 2, false, [none, some 0], [some 1, none], some [1, 0]⟩,
                    ⟨"n", 1, true, [some 0], [some 5], none⟩]).bind dsFromHdf
    = some [⟨"x_shared", 2, false, [none, some 0], [some 1, none], some [1, 0]⟩,
            ⟨"n", 1, true, [some 0], [some 5], none⟩] := by decide

/-- **design_space_roundtrip (text).** On the row structure of the text format (one row per
    component: name, lower bound, value or `None`, upper bound, type): `from_csv`'s grouping of
    consecutive equal names, its `count`-based sizes, its "value is `None` as soon as one row says
    so" rule and its type-of-the-first-row rule rebuild the design space exactly, for distinct
    variable names (multi-character names included — rows are matched by whole name), sizes ≥ 1,
    infinite bounds and missing values. (Number printing/parsing — `%.16g` and `genfromtxt` — is
    outside the model: the harness compares those at 16 significant digits.) -/
theorem design_space_csv_roundtrip (ds : DSpace) (nd : (ds.map (·.name)).Nodup)
    (wf : ∀ v ∈ ds, DVarWF v) : dsFromRows (dsToRows ds) = some ds :=
  dsCsv_roundtrip ds nd wf

example : dsFromRows (dsToRows [⟨"x_shared", 2, false, [none, some 0], [some 1, none], some [1, 0]⟩,
                                ⟨"x", 1, true, [some 0], [some 5], none⟩])
    = some [⟨"x_shared", 2, false, [none, some 0], [some 1, none], some [1, 0]⟩,
            ⟨"x", 1, true, [some 0], [some 5], none⟩] := by decide

example : DVarWF ⟨"x_shared", 2, false, [none, some 0], [some 1, none], some [1, 0]⟩ :=
  ⟨by decide, rfl, rfl, by intro l h; injection h with h; subst h; rfl⟩

/-- Why `from_csv` insists on consecutive rows: a name that reappears after another variable is
    rejected (the model returns `none` where the code raises `ValueError`). -/
theorem csv_rejects_non_consecutive :
    dsFromRows [⟨"x", none, none, none, false⟩, ⟨"y", none, none, none, false⟩,
                ⟨"x", none, none, none, false⟩] = none := by decide

/-! ### Optimization problems: attribute groups, function descriptions, statement order -/

/-- **attribute_roundtrip.** For EVERY Python value handed to `store_attr_h5data`, reading the
    dataset back with `convert_h5_group_to_dict` gives the value itself, unless the value is `None`
    or an empty string / list / array (then nothing is written). In particular a list of strings
    comes back as a list whatever its length, and the falsy scalars come back. -/
theorem attribute_roundtrip (v : PyV) :
    (storeAttr v).map readAttr = if v.isEmpty then none else some v := attr_roundtrip v

/-- **falsy_scalars_are_written.** `0`, `0.0` and `False` are written (only `None` and the empty
    iterables are skipped): a solution whose optimum is the first iterate (`optimum_index = 0`), whose
    objective is `0.0`, whose status is `0` or which is infeasible reloads with these values. -/
theorem falsy_scalars_are_written :
    (storeAttr (.int 0)).map readAttr = some (.int 0) ∧
    (storeAttr (.flt 0)).map readAttr = some (.flt 0) ∧
    (storeAttr (.bool false)).map readAttr = some (.bool false) ∧
    (storeH5 (.flt 0)).map readAttr = some (.flt 0) ∧
    (storeH5 (.bool false)).map readAttr = some (.bool false) := by
  refine ⟨rfl, rfl, rfl, rfl, rfl⟩

/-- **function_description_roundtrip.** Every function description (any name, type, expression,
    special representation, ANY lists of input and output names — empty, one name of one or several
    characters, several names —, any dimension) written with `MDOFunction.to_dict` +
    `store_attr_h5data` and read with `convert_h5_group_to_dict` + `init_from_dict_repr` is the
    same description. -/
theorem function_description_roundtrip (f : FuncDesc) (hn : f.name ≠ "") :
    funcFromDict (readGroup (writeGroup (funcToDict f))) = some f := function_roundtrip f hn

example : funcFromDict (readGroup (writeGroup (funcToDict
      ⟨"obj", "obj", "alpha**2", ["alpha"], 1, "", ["obj_out"]⟩)))
    = some ⟨"obj", "obj", "alpha**2", ["alpha"], 1, "", ["obj_out"]⟩ :=
  function_description_roundtrip _ (by decide)

/-- **collapsed_single_name_is_split.** Why `convert_h5_group_to_dict` must not collapse a one-item
    array of strings to its item (`value[0] if value.size == 1`, the behaviour before the repair):
    the function then receives a *string* for `input_names`, `list(string)` has one entry per
    character, so the single name `s` comes back as `s.length` names — the same list only when the
    name has exactly one character. -/
theorem collapsed_single_name_is_split (s : String) (h : s.length ≠ 1) :
    pyListOfNames (some (readAttrCollapsing (.sarr [s]))) ≠ [s] := by
  intro he
  have := congrArg List.length he
  simp only [readAttrCollapsing, length_pyListOfNames_str, List.length_singleton] at this
  exact h this

example : pyListOfNames (some (readAttrCollapsing (.sarr ["ab"]))) = ["a", "b"] := by decide

/-- **problem_description_roundtrip.** For every well-formed problem description — minimization or
    maximization, LINEAR or not, any differentiation method and step, any tolerances (0 included),
    any function descriptions, any number of constraints and observables, any solution fields
    (falsy scalars included) — `from_hdf (to_hdf p) = p`: same description, same functions in the
    same order, same solution. -/
theorem problem_description_roundtrip (p : PbDesc) (wf : PbWF p) :
    (pbToHdf p).bind pbFromHdf = some p := pbFromHdf_pbToHdf p wf

/-- A linear maximization problem with zero tolerances, two constraints, an observable and a
    solution found at the first iterate with a zero objective is well formed. -/
def demoPb : PbDesc :=
  { minimize := false, isLinear := true, diffMethod := "finite_differences", diffStep := 1 / 1024,
    ineqTol := 0, eqTol := 0,
    objective := ⟨"-cost", "obj", "", ["alpha"], 1, "", ["y_1"]⟩,
    constraints := [⟨"g", "ineq", "x+y", ["x", "y_long"], 2, "g(x, y_long) <= 0", ["o", "lift"]⟩,
                    ⟨"B", "eq", "", ["alpha"], 1, "", []⟩],
    observables := [⟨"obs", "obs", "", [], 0, "", ["a", "b", "c"]⟩],
    solution := some [("f_opt", .flt 0), ("optimum_index", .int 0), ("status", .int 0),
                      ("is_feasible", .bool false), ("message", .str "ok"),
                      ("x_opt", .nums ⟨[2], [0, 0]⟩)] }

example : PbWF demoPb := by
  refine ⟨by decide, by decide, by decide, by decide, by decide, by decide, by decide, ?_⟩
  intro l hl nv hnv
  simp only [demoPb, Option.some.injEq] at hl
  subst hl
  simp only [List.mem_cons, List.not_mem_nil, or_false] at hnv
  rcases hnv with rfl | rfl | rfl | rfl | rfl | rfl <;> rfl

example : ((pbToHdf demoPb).bind pbFromHdf).map (·.isLinear) = some true := by decide

/-- **objective_setter_after_description_loses_linearity.** The statement order of `from_hdf`
    matters: with the objective setter moved after the loop over `opt_description` the reloaded
    problem is never linear — the setter resets the flag whenever the function is not an
    `MDOLinearFunction`, and a reloaded function never is. -/
theorem objective_setter_after_description_loses_linearity (p : PbDesc) (wf : PbWF p) :
    (pbToHdf p).bind pbFromHdfObjectiveLast = some { p with isLinear := false } :=
  pbFromHdfObjectiveLast_pbToHdf p wf

/-! ### HDF5 caches: sparse Jacobian blocks -/

/-- **sparse_block_roundtrip.** For every matrix (any number of rows and columns, square or
    rectangular, any zero pattern — empty rows, full rows —) the CSR pieces written by
    `__write_sparse_array` (stored coefficients, `indices`, `indptr`, `shape`) are read back by
    `__read_sparse_array` as the same matrix. -/
theorem sparse_block_roundtrip (nrows ncols : Nat) (m : Mat) (hc : ∀ r ∈ m, r.length = ncols) :
    readSparse (writeSparse nrows ncols m) = m := readSparse_writeSparse nrows ncols m hc

example : readSparse (writeSparse 2 3 [[0, 7, 0], [8, 0, 9]]) = [[0, 7, 0], [8, 0, 9]] :=
  sparse_block_roundtrip 2 3 _ (by simp)

/-- **csc_kept_as_is_reads_transposed.** Why the conversion `value.tocsr()` must be unconditional: a
    column-compressed triplet written as it is under the original shape is read back as the
    TRANSPOSE of the square block that was cached. -/
theorem csc_kept_as_is_reads_transposed (n : Nat) (m : Mat) (hr : m.length = n) :
    readSparse (writeCscAsIs n n m) = transposeM n m := by
  have := readSparse_writeSparse n n (transposeM n m) (fun r h => by rw [transposeM_rect n m r h, hr])
  simpa [writeCscAsIs, writeSparse, readSparse] using this

/-- A square non-symmetric block comes back different from what was cached. -/
example : readSparse (writeCscAsIs 2 2 [[1, 2], [0, 3]]) = [[1, 0], [2, 3]] ∧
    ([[1, 0], [2, 3]] : Mat) ≠ [[1, 2], [0, 3]] := by
  refine ⟨?_, by decide⟩
  rw [csc_kept_as_is_reads_transposed 2 _ rfl]
  decide

/-! ### The points of the file are, bit for bit, the points of the database

The sections above identify a point with its database key. `HashableNdarray` makes equal arrays
one key whatever their dtype (`[1, 2]` integer or float), the sign of their zeros or their memory
layout: the database keeps the array stored FIRST. The representation layer of the model
(`Rep`, `rstore`, `rexport`, `rreload`) follows the arrays themselves through the pending buffer
and the group `x` of the file. `KeyHash H`: the hash identifies exactly the equal arrays. -/

/-- **rep_run.** No history of stores (of any arrays, equal or not to the keys already present),
    append / fresh exports and restarts raises, and the invariant `RInv` holds along it. -/
theorem rep_run (H : Rep → κ) (hH : KeyHash H) (ops : List ROp) :
    ∃ s, rrun H RState.init ops = some s ∧ RInv H s := by
  suffices h : ∀ (s0 : RState κ) (m : Nat), RInvAt H s0 m →
      ∃ s, rrun H s0 ops = some s ∧ RInv H s from h _ 0 (rinv_init H)
  induction ops with
  | nil => intro s0 m h0; exact ⟨s0, rfl, m, h0⟩
  | cons op ops ih =>
    intro s0 m h0
    cases op with
    | store r =>
      obtain ⟨s, hs, hi⟩ := ih _ m (rinv_store H hH h0 r)
      exact ⟨s, by simpa [rrun, rstep] using hs, hi⟩
    | exportFile a =>
      obtain ⟨s1, h1, _, h3, _⟩ := rinv_export H h0 a
      obtain ⟨s, hs, hi⟩ := ih s1 _ h3
      exact ⟨s, by simpa [rrun, rstep, h1] using hs, hi⟩
    | reload =>
      obtain ⟨s1, h1, _, _, h3⟩ := rinv_reload H hH h0
      obtain ⟨s, hs, hi⟩ := ih s1 _ h3
      exact ⟨s, by simpa [rrun, rstep, h1] using hs, hi⟩

/-- **file_holds_the_arrays_the_database_holds.** After ANY history — in particular after a new
    point was stored and then stored again through an equal array of another dtype / sign of zero
    before the export — an export (append or fresh) succeeds, leaves the keys alone, and the
    dataset `x/<i>` of the file is bit for bit the `i`-th key of the database (no dataset beyond);
    this is also what ONE single export of the database to a new file holds (`renum 0 keys`). -/
theorem file_holds_the_arrays_the_database_holds (H : Rep → κ) (hH : KeyHash H) (ops : List ROp)
    (s : RState κ) (hs : rrun H RState.init ops = some s) (a : Bool) :
    ∃ s', rexport s a = some s' ∧ s'.keys = s.keys ∧ (∀ i, alook i s'.fx = s.keys[i]?) ∧
      (∀ i, alook i s'.fx = alook i (renum 0 s.keys)) := by
  obtain ⟨s₁, h₁, m, hm⟩ := rep_run H hH ops
  rw [hs] at h₁; cases h₁
  obtain ⟨s', h1, h2, _, h4⟩ := rinv_export H hm a
  exact ⟨s', h1, h2, h4, fun i => by rw [h4 i, alook_renum]; simp⟩

/-- **restart_restores_the_exported_arrays.** A restart from the file right after an export gives
    a database whose keys are bit for bit the keys of the database that was exported. -/
theorem restart_restores_the_exported_arrays (H : Rep → κ) (hH : KeyHash H) (ops : List ROp)
    (s : RState κ) (hs : rrun H RState.init ops = some s) (a : Bool) :
    ∃ s' s'', rexport s a = some s' ∧ rreload H s' = some s'' ∧ s''.keys = s.keys ∧
      s''.fx = s'.fx := by
  obtain ⟨s₁, h₁, m, hm⟩ := rep_run H hH ops
  rw [hs] at h₁; cases h₁
  obtain ⟨s', h1, h2, h3, _⟩ := rinv_export H hm a
  obtain ⟨s'', h5, h6, h7, _⟩ := rinv_reload H hH h3
  exact ⟨s', s'', h1, h5, by rw [h6, List.take_length, h2], h7⟩

/-- The history of the seeded change: a point exported, then a NEW integer point stored and
    stored again through the equal float array, a point with a zero stored again with a negative
    zero, append export, restart. -/
def repDemoOps : List ROp :=
  [.store ⟨0, [5, 7], []⟩, .exportFile true,
   .store ⟨1, [1, 2], []⟩, .store ⟨0, [1, 2], []⟩,
   .store ⟨0, [0, 3], []⟩, .store ⟨0, [0, 3], [0]⟩, .exportFile true, .reload]

example : KeyHash (fun r : Rep => r.xs) := fun _ _ => Iff.rfl

example : (rrun (fun r => r.xs) RState.init repDemoOps).map (fun s => (s.keys, s.fx)) =
    some ([⟨0, [5, 7], []⟩, ⟨1, [1, 2], []⟩, ⟨0, [0, 3], []⟩],
          [(0, ⟨0, [5, 7], []⟩), (1, ⟨1, [1, 2], []⟩), (2, ⟨0, [0, 3], []⟩)]) := by decide

/-- Witness: with the pending buffer written unconditionally (`pending[hash(data)] = data`, the
    `array_equal` guard dropped) the same history puts the LAST arrays in the file: `x/1` is the
    float array while the database holds the integer one, `x/2` has the negative zero. The guard
    of `add_pending_array` is needed. -/
theorem unguarded_pending_buffer_writes_the_last_array :
    ∃ s, rrunLast (fun r : Rep => r.xs) RState.init (repDemoOps.take 7) = some s ∧
      s.keys[1]? = some ⟨1, [1, 2], []⟩ ∧ alook 1 s.fx = some ⟨0, [1, 2], []⟩ ∧
      s.keys[2]? = some ⟨0, [0, 3], []⟩ ∧ alook 2 s.fx = some ⟨0, [0, 3], [0]⟩ := by
  refine ⟨⟨[⟨0, [5, 7], []⟩, ⟨1, [1, 2], []⟩, ⟨0, [0, 3], []⟩], [],
    [(0, ⟨0, [5, 7], []⟩), (1, ⟨0, [1, 2], []⟩), (2, ⟨0, [0, 3], [0]⟩)]⟩, by decide, by decide,
    by decide, by decide, by decide⟩

end GV.C11
