/-
C16 — property theorems: derivative approximations are accurate to their order and respect
bounds.  Helper lemmas live in `Lemmas/C16.lean` (bookkeeping over ℚ) and `Analysis/C16.lean`
(Lagrange remainders over ℝ).
-/
import GemseoVerif.Lemmas.C16
import GemseoVerif.Lemmas.C16Complex
import GemseoVerif.Lemmas.C16Hist
import GemseoVerif.Lemmas.C16Defaults
import GemseoVerif.Analysis.C16
import GemseoVerif.Analysis.C16Complex
import Mathlib.Data.Rat.Cast.Order
import Mathlib.Data.Real.Basic
import Mathlib.Tactic.NormNum
import Mathlib.Analysis.Calculus.Deriv.Polynomial

namespace GV.C16

/-! ### Shape: one column per differentiated component, one row per output -/

/-- Forward differences: as many columns as differentiated components, each of the output size,
    and `array(grad).T` has `m` rows of that many entries. -/
theorem shape_fd (f : Vec → Vec) (m : Nat) (hm : ∀ y, (f y).length = m)
    (sp : Option Space) (x : Vec) (s : Step) (idx : List Nat) :
    (fdGrad f sp x s idx).length = (effIndices x.length idx).length ∧
    (∀ c ∈ fdGrad f sp x s idx, c.length = m) ∧
    (rowsOf m (fdGrad f sp x s idx)).length = m ∧
    (∀ r ∈ rowsOf m (fdGrad f sp x s idx), r.length = (effIndices x.length idx).length) := by
  rw [fdGrad_eq]
  refine ⟨by simp, ?_, by simp [rowsOf], ?_⟩
  · intro c hc
    obtain ⟨i, _, rfl⟩ := List.mem_map.mp hc
    simp [colDiff_length, hm]
  · intro r hr
    obtain ⟨j, _, rfl⟩ := List.mem_map.mp hr
    simp

theorem shape_cd (f : Vec → Vec) (m : Nat) (hm : ∀ y, (f y).length = m)
    (sp : Option Space) (x : Vec) (s : Step) (idx : List Nat) :
    (cdGrad f sp x s idx).length = (effIndices x.length idx).length ∧
    (∀ c ∈ cdGrad f sp x s idx, c.length = m) ∧
    (rowsOf m (cdGrad f sp x s idx)).length = m ∧
    (∀ r ∈ rowsOf m (cdGrad f sp x s idx), r.length = (effIndices x.length idx).length) := by
  rw [cdGrad_eq]
  refine ⟨by simp, ?_, by simp [rowsOf], ?_⟩
  · intro c hc
    obtain ⟨i, _, rfl⟩ := List.mem_map.mp hc
    simp [colDiff_length, hm]
  · intro r hr
    obtain ⟨j, _, rfl⟩ := List.mem_map.mp hr
    simp

theorem shape_cs (fc : CVec → CVec) (m : Nat) (hm : ∀ z, (fc z).length = m)
    (x : Vec) (s : Step) (idx : List Nat) :
    (csGrad fc x s idx).length = (effIndices x.length idx).length ∧
    (∀ c ∈ csGrad fc x s idx, c.length = m) ∧
    (rowsOf m (csGrad fc x s idx)).length = m ∧
    (∀ r ∈ rowsOf m (csGrad fc x s idx), r.length = (effIndices x.length idx).length) := by
  rw [csGrad_eq]
  refine ⟨by simp, ?_, by simp [rowsOf], ?_⟩
  · intro c hc
    obtain ⟨i, _, rfl⟩ := List.mem_map.mp hc
    simp [hm]
  · intro r hr
    obtain ⟨j, _, rfl⟩ := List.mem_map.mp hr
    simp

/-- With no `x_indices` all the `n` components are differentiated, in order. -/
theorem effIndices_all (n : Nat) : effIndices n [] = List.range n := rfl

/-- A non-empty `x_indices` is used as it is (any subset, any order). -/
theorem effIndices_subset (n : Nat) (idx : List Nat) (h : idx ≠ []) : effIndices n idx = idx := by
  cases idx with
  | nil => exact absurd rfl h
  | cons a t => rfl

example : (fdGrad (polyFun [[⟨1, [2, 0]⟩], [⟨3, [1, 1]⟩]]) none [1, 2] (.scalar (1/4)) [1]).length = 1 := by
  decide +kernel

/-! ### Columns match indices: column `k` is the quotient along component `x_indices[k]`,
    with the step of that component -/

/-- Column `k` of the forward-difference gradient is the difference quotient of `f` along
    component `i = x_indices[k]` with the signed step `± step[i]` of *that* component —
    for every subset, every order, scalar or per-component steps. -/
theorem columns_match_indices_fd (f : Vec → Vec) (sp : Option Space) (x : Vec) (s : Step)
    (idx : List Nat) (k : Nat) (hk : k < (effIndices x.length idx).length) :
    (fdGrad f sp x s idx)[k]? =
      some (colDiff (f (bump x ((effIndices x.length idx)[k]) (fdStep sp x s (effIndices x.length idx)[k])))
        (f x) (fdStep sp x s (effIndices x.length idx)[k])) := by
  rw [fdGrad_eq, List.getElem?_map, List.getElem?_eq_getElem hk]; rfl

theorem columns_match_indices_cd (f : Vec → Vec) (sp : Option Space) (x : Vec) (s : Step)
    (idx : List Nat) (k : Nat) (hk : k < (effIndices x.length idx).length)
    (hi : (effIndices x.length idx)[k] < x.length) :
    (cdGrad f sp x s idx)[k]? =
      some (colDiff (f (bump x ((effIndices x.length idx)[k]) (cdPlus sp x s (effIndices x.length idx)[k])))
        (f (bump x ((effIndices x.length idx)[k]) (cdMinus sp x s (effIndices x.length idx)[k])))
        (absR (cdPlus sp x s (effIndices x.length idx)[k] - cdMinus sp x s (effIndices x.length idx)[k]))) := by
  rw [cdGrad_eq, List.getElem?_map, List.getElem?_eq_getElem hk]
  simp only [Option.map_some, norm1_bump x _ _ _ hi]

theorem columns_match_indices_cs (fc : CVec → CVec) (x : Vec) (s : Step)
    (idx : List Nat) (k : Nat) (hk : k < (effIndices x.length idx).length)
    (hi : (effIndices x.length idx)[k] < x.length) :
    (csGrad fc x s idx)[k]? =
      some ((fc (cadd x (csPert x.length x s (effIndices x.length idx)[k]))).map
        (fun z => z.im / csDelta x s (effIndices x.length idx)[k])) := by
  rw [csGrad_eq, List.getElem?_map, List.getElem?_eq_getElem hk]
  simp only [Option.map_some, imSum_csPert _ x s _ hi]

/-- The magnitude of the step used for column `k` is the step declared for component
    `x_indices[k]` (never the one of position `k`). -/
theorem step_matches_component (sp : Option Space) (x : Vec) (s : Step) (i : Nat) :
    fdStep sp x s i = s.at i ∨ fdStep sp x s i = -(s.at i) := by
  unfold fdStep
  cases sp with
  | none => exact Or.inl rfl
  | some sp =>
    simp only
    cases sp.ubW i with
    | none => exact Or.inl rfl
    | some u =>
      simp only
      split
      · exact Or.inr rfl
      · exact Or.inl rfl

example : (fdGrad (polyFun [[⟨1, [2, 0, 1]⟩]]) none [1, 2, 3] (.vec [1/2, 1/4, 1/8]) [2, 0])[0]? =
    some [((1:ℚ)^2 * (3 + 1/8) - 1^2 * 3) / (1/8)] := by
  decide +kernel

/-! ### Bound safety: no perturbed point leaves the design space -/

/-- The backward step is used exactly when the forward point would exceed the upper bound. -/
theorem fd_sign_flip_iff (sp : Space) (x : Vec) (s : Step) (i : Nat) (u : ℚ)
    (hu : sp.ubW i = some u) (hh : s.at i ≠ 0) :
    fdStep (some sp) x s i = -(s.at i) ↔ u < getR x i + s.at i := by
  unfold fdStep
  simp only [hu]
  split
  · rename_i h; exact ⟨fun _ => h, fun _ => rfl⟩
  · rename_i h
    constructor
    · intro e
      have : s.at i = 0 := by linarith
      exact absurd this hh
    · intro h'; exact absurd h' h

/-- Forward differences: the perturbed component never exceeds its (working-space) upper bound,
    for every point inside the bounds and every step (of either sign). -/
theorem fd_perturbation_within_upper_bound (sp : Space) (x : Vec) (s : Step) (i : Nat) (u : ℚ)
    (hu : sp.ubW i = some u) (hx : getR x i ≤ u) :
    getR x i + fdStep (some sp) x s i ≤ u := by
  unfold fdStep
  simp only [hu]
  split
  · linarith
  · rename_i h; exact not_lt.mp h

/-- …and, for a step not larger than half the width, it stays above the lower bound when the
    backward step is taken. -/
theorem fd_perturbation_within_lower_bound (sp : Space) (x : Vec) (s : Step) (i : Nat) (l u : ℚ)
    (hu : sp.ubW i = some u) (hl : l ≤ getR x i) (hh : 0 ≤ s.at i) (hw : 2 * s.at i ≤ u - l) :
    l ≤ getR x i + fdStep (some sp) x s i := by
  unfold fdStep
  simp only [hu]
  split
  · rename_i h; linarith
  · linarith

/-- Every point at which forward differences call the function has all its components within
    the upper bounds (the components that are not perturbed keep their value). -/
theorem fd_calls_within_upper_bounds (sp : Space) (x : Vec) (s : Step) (idx : List Nat)
    (hx : ∀ j u, sp.ubW j = some u → getR x j ≤ u) :
    ∀ p ∈ fdCalls (some sp) x s idx, ∀ j u, sp.ubW j = some u → getR p j ≤ u := by
  intro p hp j u hu
  simp only [fdCalls, fdGenerate, List.mem_cons, List.mem_map] at hp
  rcases hp with rfl | ⟨i, _, rfl⟩
  · exact hx j u hu
  · rw [getR_bump]
    split
    · rename_i h
      obtain ⟨rfl, _⟩ := h
      exact fd_perturbation_within_upper_bound sp x s i u hu (hx i u hu)
    · exact hx j u hu

/-- The forward half step of the centered scheme is zeroed exactly when the forward point would
    exceed the (working-space) upper bound. -/
theorem cdFwdBlocked_iff (sp : Space) (x : Vec) (s : Step) (i : Nat) (u : ℚ)
    (hu : sp.ubW i = some u) :
    cdFwdBlocked (some sp) x s i = true ↔ u < getR x i + s.at i := by
  simp [cdFwdBlocked, hu]

theorem cdFwdBlocked_unbounded (sp : Space) (x : Vec) (s : Step) (i : Nat)
    (hu : sp.ubW i = none) : cdFwdBlocked (some sp) x s i = false := by
  simp [cdFwdBlocked, hu]

/-- Centered differences: the forward point never exceeds the upper bound (every point, every
    non-negative step, every width of the interval), the backward point never falls below the lower
    bound as long as the forward point is admissible, and the two points are on either side of `x`. -/
theorem cd_perturbation_within_bounds (sp : Space) (x : Vec) (s : Step) (i : Nat)
    (hh : 0 ≤ s.at i) :
    (∀ u, sp.ubW i = some u → getR x i ≤ u → getR x i + cdPlus (some sp) x s i ≤ u) ∧
    (∀ l, sp.lbW i = some l → l ≤ getR x i → cdFwdBlocked (some sp) x s i = false →
      l ≤ getR x i + cdMinus (some sp) x s i) ∧
    getR x i + cdMinus (some sp) x s i ≤ getR x i ∧ getR x i ≤ getR x i + cdPlus (some sp) x s i := by
  refine ⟨?_, ?_, ?_, ?_⟩
  · intro u hu hx
    unfold cdPlus
    split
    · linarith
    · rename_i h
      have := (cdFwdBlocked_iff sp x s i u hu).not.mp h
      exact not_lt.mp this
  · intro l hl hx hb
    unfold cdMinus; simp only [hl, hb, and_true]
    split
    · linarith
    · rename_i h; have := not_lt.mp h; linarith
  · cases h : sp.lbW i with
    | none => simp only [cdMinus, h]; linarith
    | some l => simp only [cdMinus, h]; split <;> linarith
  · unfold cdPlus; split <;> linarith

/-- **No admissible direction** (frozen component `lb = ub`, interval narrower than the step, point
    in the middle of an interval shorter than two steps, …): whenever the forward point would exceed
    the upper bound, the forward half step is zero and the backward half step is `-h` — whatever the
    lower bound.  The centered scheme then is the backward quotient of `FirstOrderFD`. -/
theorem cd_forward_blocked (sp : Space) (x : Vec) (s : Step) (i : Nat) (u : ℚ)
    (hu : sp.ubW i = some u) (hb : u < getR x i + s.at i) :
    cdPlus (some sp) x s i = 0 ∧ cdMinus (some sp) x s i = -(s.at i) ∧
    cdMinus (some sp) x s i = fdStep (some sp) x s i := by
  have hB : cdFwdBlocked (some sp) x s i = true := (cdFwdBlocked_iff sp x s i u hu).mpr hb
  refine ⟨by simp [cdPlus, hB], ?_, ?_⟩
  · cases h : sp.lbW i with
    | none => simp only [cdMinus, h]
    | some l => simp [cdMinus, h, hB]
  · have : fdStep (some sp) x s i = -(s.at i) := by simp [fdStep, hu, hb]
    rw [this]
    cases h : sp.lbW i with
    | none => simp only [cdMinus, h]
    | some l => simp [cdMinus, h, hB]

/-- **The centered quotient is never `0/0`**: for a positive step the divisor
    `norm(x_plus − x_minus)` is `h` (one-sided, next to a bound) or `2h`, for every design space,
    every point and every width of the bounds (including `lb = ub`). -/
theorem cd_divisor_pos (sp : Option Space) (x : Vec) (s : Step) (i : Nat) (hh : 0 < s.at i) :
    (absR (cdPlus sp x s i - cdMinus sp x s i) = s.at i ∨
      absR (cdPlus sp x s i - cdMinus sp x s i) = 2 * s.at i) ∧
    0 < absR (cdPlus sp x s i - cdMinus sp x s i) := by
  have key : (cdPlus sp x s i = s.at i ∧ cdMinus sp x s i = -(s.at i)) ∨
      (cdPlus sp x s i = 0 ∧ cdMinus sp x s i = -(s.at i)) ∨
      (cdPlus sp x s i = s.at i ∧ cdMinus sp x s i = 0) := by
    cases sp with
    | none => exact Or.inl ⟨by simp [cdPlus, cdFwdBlocked], rfl⟩
    | some sp =>
      cases hB : cdFwdBlocked (some sp) x s i with
      | true =>
        refine Or.inr (Or.inl ⟨by simp [cdPlus, hB], ?_⟩)
        cases h : sp.lbW i with
        | none => simp only [cdMinus, h]
        | some l => simp [cdMinus, h, hB]
      | false =>
        have hp : cdPlus (some sp) x s i = s.at i := by simp [cdPlus, hB]
        cases h : sp.lbW i with
        | none => exact Or.inl ⟨hp, by simp only [cdMinus, h]⟩
        | some l =>
          by_cases hl : getR x i - s.at i < l
          · exact Or.inr (Or.inr ⟨hp, by simp [cdMinus, h, hB, hl]⟩)
          · exact Or.inl ⟨hp, by simp [cdMinus, h, hl]⟩
  rw [absR_eq_abs]
  rcases key with ⟨hp, hm⟩ | ⟨hp, hm⟩ | ⟨hp, hm⟩ <;> rw [hp, hm]
  · have e : s.at i - -(s.at i) = 2 * s.at i := by ring
    rw [e, abs_of_pos (by linarith)]
    exact ⟨Or.inr rfl, by linarith⟩
  · have e : (0 : ℚ) - -(s.at i) = s.at i := by ring
    rw [e, abs_of_pos hh]
    exact ⟨Or.inl rfl, hh⟩
  · have e : s.at i - 0 = s.at i := by ring
    rw [e, abs_of_pos hh]
    exact ⟨Or.inl rfl, hh⟩

theorem cd_calls_within_upper_bounds (sp : Space) (x : Vec) (s : Step) (idx : List Nat)
    (hx : ∀ j u, sp.ubW j = some u → getR x j ≤ u)
    (hh : ∀ j, 0 ≤ s.at j) :
    ∀ p ∈ cdGenerate (some sp) x s idx, ∀ j u, sp.ubW j = some u → getR p j ≤ u := by
  intro p hp j u hu
  simp only [cdGenerate, List.mem_append, List.mem_map] at hp
  rcases hp with ⟨i, _, rfl⟩ | ⟨i, _, rfl⟩
  · rw [getR_bump]
    split
    · rename_i h
      obtain ⟨rfl, _⟩ := h
      exact (cd_perturbation_within_bounds sp x s i (hh i)).1 u hu (hx i u hu)
    · exact hx j u hu
  · rw [getR_bump]
    split
    · rename_i h
      obtain ⟨rfl, _⟩ := h
      have := (cd_perturbation_within_bounds sp x s i (hh i)).2.2.1
      exact this.trans (hx i u hu)
    · exact hx j u hu

/-- Complex step: the real part of every call point is the input vector itself, so no bound can
    be exceeded. -/
theorem cs_calls_real_part (x : Vec) (s : Step) (idx : List Nat) :
    ∀ z ∈ csCalls x s idx, z.map (·.re) = x := by
  intro z hz
  simp only [csCalls, csGenerate, List.map_map, List.mem_map, Function.comp] at hz
  obtain ⟨i, _, rfl⟩ := hz
  apply List.ext_getElem?
  intro j
  by_cases hj : j < x.length
  · rw [List.getElem?_map, cadd_csPert_get x s i j hj]
    simp [getR, List.getElem?_eq_getElem hj]
  · have h1 : (cadd x (csPert x.length x s i)).length ≤ j := by
      rw [cadd_csPert_length]; exact not_lt.mp hj
    rw [List.getElem?_map, List.getElem?_eq_none h1, List.getElem?_eq_none (not_lt.mp hj)]
    rfl

/-- The rule of the pinned tree (backward step only when the point is *on* the bound) is unsafe:
    a point closer to the bound than one step is evaluated outside the design space. -/
example : let x : ℚ := 2 - 1/8; let h : ℚ := 1/4; let u : ℚ := 2
    x ≤ u ∧ ¬ (u ≤ x) ∧ ¬ (x + h ≤ u) := by
  norm_num

example : getR [(2:ℚ) - 1/8] 0 + fdStep (some ⟨[some (-2)], [some 2], false⟩) [2 - 1/8] (.scalar (1/4)) 0 = 2 - 3/8 := by
  decide +kernel

/-! ### Exactness on affine functions (anchors the exact stream) -/

/-- If `f` is affine along component `i` (slope vector `a`), the forward/backward quotient with any
    non-zero step is exactly `a`. -/
theorem fd_exact_on_affine (f : Vec → Vec) (x : Vec) (i : Nat) (a : Vec) (d : ℚ) (hd : d ≠ 0)
    (ha : a.length = (f x).length)
    (hlin : f (bump x i d) = List.zipWith (fun v s => v + d * s) (f x) a) :
    colDiff (f (bump x i d)) (f x) d = a := by
  rw [hlin]
  apply List.ext_getElem
  · simp [colDiff, ha]
  · intro j h1 h2
    simp only [colDiff, List.getElem_zipWith]
    field_simp
    ring

/-- Centered quotient of a function affine along component `i`: exactly the slope, whatever the
    two (distinct) half steps are — two-sided or one-sided at a bound. -/
theorem cd_exact_on_affine (f : Vec → Vec) (x : Vec) (i : Nat) (a : Vec) (p q : ℚ) (hpq : q < p)
    (ha : a.length = (f x).length)
    (hlin : ∀ d, f (bump x i d) = List.zipWith (fun v s => v + d * s) (f x) a) :
    colDiff (f (bump x i p)) (f (bump x i q)) (absR (p - q)) = a := by
  rw [hlin p, hlin q, absR_eq_abs, abs_of_pos (by linarith)]
  have hne : p - q ≠ 0 := by linarith
  apply List.ext_getElem
  · simp [colDiff, ha]
  · intro j h1 h2
    simp only [colDiff, List.getElem_zipWith]
    field_simp
    ring

/-- Complex step of a function whose complex extension is affine along component `i`:
    `Im f(x + iδ e_i)/δ` is exactly the slope. -/
theorem cs_exact_on_affine (fc : CVec → CVec) (z : CVec) (v a : Vec) (δ : ℚ) (hδ : δ ≠ 0)
    (ha : a.length = v.length)
    (hlin : fc z = List.zipWith (fun r s => (⟨r, δ * s⟩ : GRat)) v a) :
    (fc z).map (fun w => w.im / δ) = a := by
  rw [hlin]
  apply List.ext_getElem
  · simp [ha]
  · intro j h1 h2
    simp only [List.getElem_map, List.getElem_zipWith]
    field_simp

/-- Sharpness over ℚ: on a quadratic the forward quotient errs by exactly `d · b` (= `d/2 · f''`),
    on a cubic the centered quotient errs by exactly `h² · c` (= `h²/6 · f'''`), and the centered
    quotient is exact on quadratics. -/
theorem quotient_errors_exact (g a b c d : ℚ) (hd : d ≠ 0) :
    ((g + d * a + d ^ 2 * b) - g) / d = a + d * b ∧
    ((g + d * a + d ^ 2 * b + d ^ 3 * c) - (g - d * a + d ^ 2 * b - d ^ 3 * c)) / (2 * d)
      = a + d ^ 2 * c := by
  constructor <;> (field_simp; ring)

example : colDiff (polyFun [[⟨3, [1, 0]⟩, ⟨5, [0, 1]⟩]] (bump [1, 2] 1 (1/8)))
    (polyFun [[⟨3, [1, 0]⟩, ⟨5, [0, 1]⟩]] [1, 2]) (1/8) = [5] := by decide +kernel

/-! ### Parallel evaluation equals serial evaluation -/

theorem parallel_eq_serial_fd (f : Vec → Vec) (sp : Option Space) (x : Vec) (s : Step)
    (idx : List Nat) : fdGradPar f sp x s idx = fdGrad f sp x s idx := by
  unfold fdGradPar fdGrad
  exact fdComputePar_eq f x _ _ (by simp [fdGenerate])

theorem parallel_eq_serial_cd (f : Vec → Vec) (sp : Option Space) (x : Vec) (s : Step)
    (idx : List Nat) : cdGradPar f sp x s idx = cdGrad f sp x s idx :=
  cdComputePar_eq f _

theorem parallel_eq_serial_cs (fc : CVec → CVec) (x : Vec) (s : Step) (idx : List Nat) :
    csGradPar fc x s idx = csGrad fc x s idx :=
  csComputePar_eq fc x _

example : fdGradPar (polyFun [[⟨1, [2, 1]⟩]]) none [1, 2] (.scalar (1/4)) [1, 0]
    = fdGrad (polyFun [[⟨1, [2, 1]⟩]]) none [1, 2] (.scalar (1/4)) [1, 0] := by decide +kernel

/-! ### `DisciplineJacApprox`: placement of the partial Jacobian -/

/-- `compute_approx_jac(x_indices)`: the completed Jacobian has `n` columns; column
    `x_indices[k]` is column `k` of the approximated partial Jacobian, every other column is zero —
    for every duplicate-free subset in every order. -/
theorem columns_placed (m n : Nat) (idx : List Nat) (cols : List Vec)
    (hne : idx ≠ []) (hnd : idx.Nodup) (hlen : idx.length = cols.length) (hn : ∀ i ∈ idx, i < n) :
    (placeCols m n idx cols).length = n ∧
    (∀ k (hk : k < idx.length), (placeCols m n idx cols)[idx[k]]? = some (cols[k]'(hlen ▸ hk))) ∧
    (∀ j, j < n → j ∉ idx → (placeCols m n idx cols)[j]? = some (List.replicate m 0)) :=
  ⟨placeCols_length m n idx cols hne,
   fun k hk => placeCols_get_idx m n idx cols k hnd hlen hk (hn _ (List.getElem_mem hk)),
   fun j hj hnot => placeCols_get_other m n idx cols j hne hlen hj hnot⟩

example : placeCols 2 3 [2, 0] [[1, 2], [3, 4]] = [[3, 4], [0, 0], [1, 2]] := by decide +kernel

/-- `check_jacobian`: an exact analytic entry is accepted whenever the approximation error is
    within the threshold, and an analytic entry wrong by more than
    `t·(1 + |approx|) + error` is rejected. -/
theorem check_entry_sound (t D approx δ ε : ℚ) (ht : 0 ≤ t) (herr : |approx - D| ≤ ε) :
    (ε ≤ t → closeEntry t D approx = true) ∧
    (t + t * |approx| + ε < |δ| → closeEntry t (D + δ) approx = false) := by
  unfold closeEntry
  simp only [absR_eq_abs, decide_eq_true_eq, decide_eq_false_iff_not, not_le]
  constructor
  · intro h
    have : |D - approx| ≤ ε := by rw [abs_sub_comm]; exact herr
    have h2 : 0 ≤ t * |approx| := mul_nonneg ht (abs_nonneg _)
    linarith
  · intro h
    have h1 : |δ| ≤ |D + δ - approx| + |approx - D| := by
      have := abs_add_le (D + δ - approx) (approx - D)
      have e : D + δ - approx + (approx - D) = δ := by ring
      rw [e] at this; exact this
    linarith

/-! ### Error orders over ℝ (Taylor / Lagrange remainder) -/

open Set in
/-- **First order**: for `f ∈ C²` between `x` and `x + d` (`d ≠ 0` signed step: forward, or backward
    at an upper bound), `|(f(x+d) − f(x))/d − f'(x)| ≤ |d|/2 · sup|f''|`. -/
theorem fd_first_order {f f' f'' : ℝ → ℝ} {x d M : ℝ} (hd : d ≠ 0)
    (hf : ∀ t ∈ uIcc x (x + d), HasDerivAt f (f' t) t)
    (hf' : ∀ t ∈ uIcc x (x + d), HasDerivAt f' (f'' t) t)
    (hM : ∀ t ∈ uIcc x (x + d), |f'' t| ≤ M) :
    |(f (x + d) - f x) / d - f' x| ≤ |d| / 2 * M :=
  Analysis.fd_error hd hf hf' hM

open Set in
/-- **Second order**: for `f ∈ C³` on `[x − h, x + h]`,
    `|(f(x+h) − f(x−h))/(2h) − f'(x)| ≤ h²/6 · sup|f'''|`. -/
theorem cd_second_order {f f' f'' f''' : ℝ → ℝ} {x h M : ℝ} (hh : 0 < h)
    (hf : ∀ t ∈ Icc (x - h) (x + h), HasDerivAt f (f' t) t)
    (hf' : ∀ t ∈ Icc (x - h) (x + h), HasDerivAt f' (f'' t) t)
    (hf'' : ∀ t ∈ Icc (x - h) (x + h), HasDerivAt f'' (f''' t) t)
    (hM : ∀ t ∈ Icc (x - h) (x + h), |f''' t| ≤ M) :
    |(f (x + h) - f (x - h)) / (2 * h) - f' x| ≤ h ^ 2 / 6 * M :=
  Analysis.cd_error hh hf hf' hf'' hM

example : |((fun t : ℝ => t ^ 2) (1 + 1 / 4) - (fun t : ℝ => t ^ 2) 1) / (1 / 4) - 2 * 1|
    ≤ |(1 / 4 : ℝ)| / 2 * 2 := by norm_num

/-- Entry `(j, k)` of the model's forward-difference Jacobian is the scalar difference quotient
    of output `j` along component `x_indices[k]`. -/
theorem fd_model_entry (f : Vec → Vec) (sp : Option Space) (x : Vec) (s : Step) (idx : List Nat)
    (k j : Nat) (hk : k < (effIndices x.length idx).length)
    (hlen : ∀ y, (f y).length = (f x).length) :
    getR ((fdGrad f sp x s idx).getD k []) j =
      (getR (f (bump x (effIndices x.length idx)[k] (fdStep sp x s (effIndices x.length idx)[k]))) j
        - getR (f x) j) / fdStep sp x s (effIndices x.length idx)[k] := by
  rw [List.getD_eq_getElem?_getD, columns_match_indices_fd f sp x s idx k hk]
  simp only [Option.getD_some]
  exact getR_colDiff _ _ _ _ (hlen _)

open Set in
/-- **The model's forward-difference Jacobian is first-order accurate**: if a real function `F`
    with `F' , F''` interpolates output `j` of `f` along component `i = x_indices[k]`, the entry
    `(j, k)` differs from `F'(x_i)` by at most `|d|/2 · sup|F''|`, `d` the signed step of
    component `i`. -/
theorem fd_model_first_order (f : Vec → Vec) (sp : Option Space) (x : Vec) (s : Step)
    (idx : List Nat) (k j : Nat) (hk : k < (effIndices x.length idx).length)
    (hlen : ∀ y, (f y).length = (f x).length)
    (F F' F'' : ℝ → ℝ) (M : ℝ)
    (hd : fdStep sp x s (effIndices x.length idx)[k] ≠ 0)
    (hF : ∀ t : ℚ, F ((getR x (effIndices x.length idx)[k] : ℚ) + (t : ℝ)) =
      ((getR (f (bump x (effIndices x.length idx)[k] t)) j : ℚ) : ℝ))
    (hf : ∀ t ∈ uIcc ((getR x (effIndices x.length idx)[k] : ℚ) : ℝ)
        ((getR x (effIndices x.length idx)[k] : ℚ) + ((fdStep sp x s (effIndices x.length idx)[k] : ℚ) : ℝ)),
        HasDerivAt F (F' t) t)
    (hf' : ∀ t ∈ uIcc ((getR x (effIndices x.length idx)[k] : ℚ) : ℝ)
        ((getR x (effIndices x.length idx)[k] : ℚ) + ((fdStep sp x s (effIndices x.length idx)[k] : ℚ) : ℝ)),
        HasDerivAt F' (F'' t) t)
    (hM : ∀ t ∈ uIcc ((getR x (effIndices x.length idx)[k] : ℚ) : ℝ)
        ((getR x (effIndices x.length idx)[k] : ℚ) + ((fdStep sp x s (effIndices x.length idx)[k] : ℚ) : ℝ)),
        |F'' t| ≤ M) :
    |((getR ((fdGrad f sp x s idx).getD k []) j : ℚ) : ℝ)
        - F' ((getR x (effIndices x.length idx)[k] : ℚ) : ℝ)|
      ≤ |((fdStep sp x s (effIndices x.length idx)[k] : ℚ) : ℝ)| / 2 * M := by
  rw [fd_model_entry f sp x s idx k j hk hlen]
  have h0 := hF 0
  rw [bump_zero] at h0
  simp only [Rat.cast_zero, add_zero] at h0
  have hd' : ((fdStep sp x s (effIndices x.length idx)[k] : ℚ) : ℝ) ≠ 0 := by exact_mod_cast hd
  have := fd_first_order hd' hf hf' hM
  rw [hF, h0] at this
  push_cast
  exact this

/-- Without a design space (or more than one step away from the bounds) the centered scheme uses
    the two symmetric half steps. -/
theorem cd_steps_unbounded (x : Vec) (s : Step) (i : Nat) :
    cdPlus none x s i = s.at i ∧ cdMinus none x s i = -(s.at i) := ⟨by simp [cdPlus, cdFwdBlocked], rfl⟩

theorem cd_steps_inside (sp : Space) (x : Vec) (s : Step) (i : Nat)
    (hu : ∀ u, sp.ubW i = some u → getR x i + s.at i ≤ u)
    (hl : ∀ l, sp.lbW i = some l → l ≤ getR x i - s.at i) :
    cdPlus (some sp) x s i = s.at i ∧ cdMinus (some sp) x s i = -(s.at i) := by
  constructor
  · cases h : sp.ubW i with
    | none => simp [cdPlus, cdFwdBlocked, h]
    | some u =>
      have := not_lt.mpr (hu u h)
      simp [cdPlus, cdFwdBlocked, h, this]
  · cases h : sp.lbW i with
    | none => simp only [cdMinus, h]
    | some l =>
      have := not_lt.mpr (hl l h)
      simp [cdMinus, h, this]

theorem cd_model_entry (f : Vec → Vec) (sp : Option Space) (x : Vec) (s : Step) (idx : List Nat)
    (k j : Nat) (hk : k < (effIndices x.length idx).length)
    (hi : (effIndices x.length idx)[k] < x.length)
    (hlen : ∀ y, (f y).length = (f x).length) :
    getR ((cdGrad f sp x s idx).getD k []) j =
      (getR (f (bump x (effIndices x.length idx)[k] (cdPlus sp x s (effIndices x.length idx)[k]))) j
        - getR (f (bump x (effIndices x.length idx)[k] (cdMinus sp x s (effIndices x.length idx)[k]))) j)
        / absR (cdPlus sp x s (effIndices x.length idx)[k] - cdMinus sp x s (effIndices x.length idx)[k]) := by
  rw [List.getD_eq_getElem?_getD, columns_match_indices_cd f sp x s idx k hk hi]
  simp only [Option.getD_some]
  exact getR_colDiff _ _ _ _ ((hlen _).trans (hlen _).symm)

/-- Where the forward point would exceed the upper bound (in particular when *no* direction is
    admissible: frozen component, interval narrower than the step), entry `(j, k)` of the centered
    Jacobian is entry `(j, k)` of the forward-difference Jacobian (backward quotient), for every
    lower bound. -/
theorem cd_blocked_entry_eq_fd (f : Vec → Vec) (sp : Space) (x : Vec) (s : Step) (idx : List Nat)
    (k j : Nat) (hk : k < (effIndices x.length idx).length)
    (hi : (effIndices x.length idx)[k] < x.length)
    (hlen : ∀ y, (f y).length = (f x).length) (u : ℚ)
    (hu : sp.ubW (effIndices x.length idx)[k] = some u)
    (hb : u < getR x (effIndices x.length idx)[k] + s.at (effIndices x.length idx)[k])
    (hh : 0 < s.at (effIndices x.length idx)[k]) :
    getR ((cdGrad f (some sp) x s idx).getD k []) j =
      getR ((fdGrad f (some sp) x s idx).getD k []) j := by
  rw [cd_model_entry f (some sp) x s idx k j hk hi hlen, fd_model_entry f (some sp) x s idx k j hk hlen]
  obtain ⟨hp, hm, _⟩ := cd_forward_blocked sp x s _ u hu hb
  have hfd : fdStep (some sp) x s (effIndices x.length idx)[k] = -(s.at (effIndices x.length idx)[k]) := by
    simp [fdStep, hu, hb]
  rw [hp, hm, hfd, bump_zero, absR_eq_abs]
  have e : (0 : ℚ) - -(s.at (effIndices x.length idx)[k]) = s.at (effIndices x.length idx)[k] := by ring
  rw [e, abs_of_pos hh]
  have hne : s.at (effIndices x.length idx)[k] ≠ 0 := ne_of_gt hh
  rw [div_eq_div_iff hne (neg_ne_zero.mpr hne)]
  ring

open Set in
/-- **First order where no symmetric pair fits**: in the situation of `cd_blocked_entry_eq_fd`
    the centered Jacobian entry is within `h/2 · sup|F''|` of the derivative (the bound of the
    backward quotient, `fd_model_first_order`), for every width of the bounds including `lb = ub`. -/
theorem cd_model_first_order_blocked (f : Vec → Vec) (sp : Space) (x : Vec) (s : Step)
    (idx : List Nat) (k j : Nat) (hk : k < (effIndices x.length idx).length)
    (hi : (effIndices x.length idx)[k] < x.length)
    (hlen : ∀ y, (f y).length = (f x).length) (u : ℚ)
    (hu : sp.ubW (effIndices x.length idx)[k] = some u)
    (hb : u < getR x (effIndices x.length idx)[k] + s.at (effIndices x.length idx)[k])
    (hh : 0 < s.at (effIndices x.length idx)[k])
    (F F' F'' : ℝ → ℝ) (M : ℝ)
    (hF : ∀ t : ℚ, F ((getR x (effIndices x.length idx)[k] : ℚ) + (t : ℝ)) =
      ((getR (f (bump x (effIndices x.length idx)[k] t)) j : ℚ) : ℝ))
    (hf : ∀ t ∈ uIcc ((getR x (effIndices x.length idx)[k] : ℚ) : ℝ)
        ((getR x (effIndices x.length idx)[k] : ℚ) + ((fdStep (some sp) x s (effIndices x.length idx)[k] : ℚ) : ℝ)),
        HasDerivAt F (F' t) t)
    (hf' : ∀ t ∈ uIcc ((getR x (effIndices x.length idx)[k] : ℚ) : ℝ)
        ((getR x (effIndices x.length idx)[k] : ℚ) + ((fdStep (some sp) x s (effIndices x.length idx)[k] : ℚ) : ℝ)),
        HasDerivAt F' (F'' t) t)
    (hM : ∀ t ∈ uIcc ((getR x (effIndices x.length idx)[k] : ℚ) : ℝ)
        ((getR x (effIndices x.length idx)[k] : ℚ) + ((fdStep (some sp) x s (effIndices x.length idx)[k] : ℚ) : ℝ)),
        |F'' t| ≤ M) :
    |((getR ((cdGrad f (some sp) x s idx).getD k []) j : ℚ) : ℝ)
        - F' ((getR x (effIndices x.length idx)[k] : ℚ) : ℝ)|
      ≤ ((s.at (effIndices x.length idx)[k] : ℚ) : ℝ) / 2 * M := by
  rw [cd_blocked_entry_eq_fd f sp x s idx k j hk hi hlen u hu hb hh]
  have hfd : fdStep (some sp) x s (effIndices x.length idx)[k] = -(s.at (effIndices x.length idx)[k]) := by
    simp [fdStep, hu, hb]
  have hd : fdStep (some sp) x s (effIndices x.length idx)[k] ≠ 0 := by
    rw [hfd]; exact neg_ne_zero.mpr (ne_of_gt hh)
  have := fd_model_first_order f (some sp) x s idx k j hk hlen F F' F'' M hd hF hf hf' hM
  have habs : |((fdStep (some sp) x s (effIndices x.length idx)[k] : ℚ) : ℝ)|
      = ((s.at (effIndices x.length idx)[k] : ℚ) : ℝ) := by
    rw [hfd]; push_cast; rw [abs_neg, abs_of_pos]; exact_mod_cast hh
  rwa [habs] at this

/-- A frozen component (`lb = ub`, both finite) of a normalised design space has the working
    interval `[0, 0]` (`normalize_vect` uses the factor 1 for a zero width), not `[0, 1]`: at the
    only admissible point `0` every positive step is blocked in both directions. -/
theorem frozen_normalized_bounds (sp : Space) (i : Nat) (v : ℚ) (hn : sp.normalize = true)
    (hl : sp.lb.getD i none = some v) (hu : sp.ub.getD i none = some v) :
    sp.ubW i = some 0 ∧ sp.lbW i = some 0 := by
  unfold Space.ubW Space.lbW Space.isNorm Space.isFrozen
  rw [hl, hu, hn]
  simp

open Set in
/-- **The model's centered-difference Jacobian is second-order accurate** wherever the two
    symmetric points are used (no design space, or at least one step inside the bounds). -/
theorem cd_model_second_order (f : Vec → Vec) (sp : Option Space) (x : Vec) (s : Step)
    (idx : List Nat) (k j : Nat) (hk : k < (effIndices x.length idx).length)
    (hi : (effIndices x.length idx)[k] < x.length)
    (hlen : ∀ y, (f y).length = (f x).length)
    (hp : cdPlus sp x s (effIndices x.length idx)[k] = s.at (effIndices x.length idx)[k])
    (hq : cdMinus sp x s (effIndices x.length idx)[k] = -(s.at (effIndices x.length idx)[k]))
    (hh : 0 < s.at (effIndices x.length idx)[k])
    (F F' F'' F''' : ℝ → ℝ) (M : ℝ)
    (hF : ∀ t : ℚ, F ((getR x (effIndices x.length idx)[k] : ℚ) + (t : ℝ)) =
      ((getR (f (bump x (effIndices x.length idx)[k] t)) j : ℚ) : ℝ))
    (hf : ∀ t ∈ Icc (((getR x (effIndices x.length idx)[k] : ℚ) : ℝ) - ((s.at (effIndices x.length idx)[k] : ℚ) : ℝ))
        ((getR x (effIndices x.length idx)[k] : ℚ) + ((s.at (effIndices x.length idx)[k] : ℚ) : ℝ)),
        HasDerivAt F (F' t) t)
    (hf' : ∀ t ∈ Icc (((getR x (effIndices x.length idx)[k] : ℚ) : ℝ) - ((s.at (effIndices x.length idx)[k] : ℚ) : ℝ))
        ((getR x (effIndices x.length idx)[k] : ℚ) + ((s.at (effIndices x.length idx)[k] : ℚ) : ℝ)),
        HasDerivAt F' (F'' t) t)
    (hf'' : ∀ t ∈ Icc (((getR x (effIndices x.length idx)[k] : ℚ) : ℝ) - ((s.at (effIndices x.length idx)[k] : ℚ) : ℝ))
        ((getR x (effIndices x.length idx)[k] : ℚ) + ((s.at (effIndices x.length idx)[k] : ℚ) : ℝ)),
        HasDerivAt F'' (F''' t) t)
    (hM : ∀ t ∈ Icc (((getR x (effIndices x.length idx)[k] : ℚ) : ℝ) - ((s.at (effIndices x.length idx)[k] : ℚ) : ℝ))
        ((getR x (effIndices x.length idx)[k] : ℚ) + ((s.at (effIndices x.length idx)[k] : ℚ) : ℝ)),
        |F''' t| ≤ M) :
    |((getR ((cdGrad f sp x s idx).getD k []) j : ℚ) : ℝ)
        - F' ((getR x (effIndices x.length idx)[k] : ℚ) : ℝ)|
      ≤ ((s.at (effIndices x.length idx)[k] : ℚ) : ℝ) ^ 2 / 6 * M := by
  rw [cd_model_entry f sp x s idx k j hk hi hlen, hp, hq, absR_eq_abs]
  have e : s.at (effIndices x.length idx)[k] - -(s.at (effIndices x.length idx)[k])
      = 2 * s.at (effIndices x.length idx)[k] := by ring
  have habs : |2 * s.at (effIndices x.length idx)[k]| = 2 * s.at (effIndices x.length idx)[k] :=
    abs_of_pos (by linarith)
  rw [e, habs]
  have hh' : (0 : ℝ) < ((s.at (effIndices x.length idx)[k] : ℚ) : ℝ) := by exact_mod_cast hh
  have := cd_second_order hh' hf hf' hf'' hM
  have h1 := hF (s.at (effIndices x.length idx)[k])
  have h2 := hF (-(s.at (effIndices x.length idx)[k]))
  push_cast at h2
  rw [← sub_eq_add_neg] at h2
  rw [h1, h2] at this
  push_cast
  exact this

/-! ### Complex step on real polynomials of every degree (Gaussian arithmetic over ℂ) -/

open Polynomial Complex in
/-- **Complex step is exact up to `h²` on every real polynomial**:
    `Im P(x+ih)/h − P'(x) = h² · Σ_{3≤k<N} (P⁽ᵏ⁾(x)/k!) h^{k−3} Im(iᵏ)` for every `N` above the
    degree (`P⁽ᵏ⁾/k!` = Hasse derivative; `Im(i^{2j}) = 0`, `Im(i^{2j+1}) = (−1)ʲ`). -/
theorem cs_polynomial_exact_up_to_h2 (P : ℝ[X]) (x h : ℝ) (hh : h ≠ 0) (N : ℕ)
    (hN : P.natDegree < N) (hN2 : 2 ≤ N) :
    (aeval ((x : ℂ) + (h : ℂ) * I) P).im / h - P.derivative.eval x
      = h ^ 2 * Analysis.csRemainder P x h N :=
  Analysis.cs_exact_up_to_h2 P x h hh N hN hN2

open Polynomial Complex in
/-- Rounding error only: on polynomials of degree ≤ 2 the complex step has no truncation error,
    whatever the step. -/
theorem cs_exact_on_quadratics (P : ℝ[X]) (x h : ℝ) (hh : h ≠ 0) (hdeg : P.natDegree ≤ 2) :
    (aeval ((x : ℂ) + (h : ℂ) * I) P).im / h = P.derivative.eval x :=
  Analysis.cs_exact_deg_le_two P x h hh hdeg

open Polynomial Complex in
/-- On cubics the truncation error is exactly `−h² · P'''(x)/6` (the oracle's `δ²/6·sup|f'''|`). -/
theorem cs_error_on_cubics (P : ℝ[X]) (x h : ℝ) (hh : h ≠ 0) (hdeg : P.natDegree ≤ 3) :
    (aeval ((x : ℂ) + (h : ℂ) * I) P).im / h - P.derivative.eval x
      = -(h ^ 2 * ((derivative^[3] P).eval x / 6)) :=
  Analysis.cs_error_deg_le_three P x h hh hdeg

open Polynomial Complex in
example : (aeval (((2 : ℝ) : ℂ) + ((1 / 8 : ℝ) : ℂ) * I) (X ^ 2 + C 3 * X : ℝ[X])).im / (1 / 8)
    = (derivative (X ^ 2 + C 3 * X : ℝ[X])).eval 2 :=
  cs_exact_on_quadratics _ 2 (1 / 8) (by norm_num) (by
    have : (X ^ 2 + C 3 * X : ℝ[X]).natDegree ≤ 2 := by
      apply natDegree_add_le_of_degree_le
      · simp
      · exact (natDegree_C_mul_le _ _).trans (by simp)
    exact this)

/-! ### The model's complex-step Jacobian on polynomial functions, every degree -/

/-- Entry `(j, k)` of the model's complex-step Jacobian of a polynomial function. -/
theorem cs_model_entry (ps : List Poly) (x : Vec) (s : Step) (idx : List Nat) (k j : Nat)
    (hk : k < (effIndices x.length idx).length)
    (hi : (effIndices x.length idx)[k] < x.length) (hj : j < ps.length) :
    getR ((csGrad (polyFunG ps) x s idx).getD k []) j =
      (ps[j].evalG (cadd x (csPert x.length x s (effIndices x.length idx)[k]))).im
        / csDelta x s (effIndices x.length idx)[k] := by
  rw [List.getD_eq_getElem?_getD, columns_match_indices_cs _ x s idx k hk hi]
  simp only [Option.getD_some, getR, polyFunG, List.map_map, List.getD_eq_getElem?_getD,
    List.getElem?_map, List.getElem?_eq_getElem hj, Option.map_some, Function.comp]

open Polynomial Complex in
/-- **Complex step of the model on polynomial functions is exact up to `δ²` for every degree**:
    entry `(j, k)` minus the partial derivative (the derivative at `x_i` of the restriction
    `polyLine` of output `j` to the coordinate line of component `i = x_indices[k]`, see
    `polyLine_eval`) equals `δ² · csRemainder`, `δ = x_i·h` (or `h` if `x_i = 0`) the relative
    step. -/
theorem cs_model_exact_up_to_h2 (ps : List Poly) (x : Vec) (s : Step) (idx : List Nat)
    (k j : Nat) (hk : k < (effIndices x.length idx).length)
    (hi : (effIndices x.length idx)[k] < x.length) (hj : j < ps.length)
    (hδ : csDelta x s (effIndices x.length idx)[k] ≠ 0) (N : ℕ)
    (hN : (polyLine ps[j] x (effIndices x.length idx)[k]).natDegree < N) (hN2 : 2 ≤ N) :
    ((getR ((csGrad (polyFunG ps) x s idx).getD k []) j : ℚ) : ℝ)
        - (derivative (polyLine ps[j] x (effIndices x.length idx)[k])).eval
            ((getR x (effIndices x.length idx)[k] : ℚ) : ℝ)
      = ((csDelta x s (effIndices x.length idx)[k] : ℚ) : ℝ) ^ 2 *
          Analysis.csRemainder (polyLine ps[j] x (effIndices x.length idx)[k])
            ((getR x (effIndices x.length idx)[k] : ℚ) : ℝ)
            ((csDelta x s (effIndices x.length idx)[k] : ℚ) : ℝ) N := by
  have hδ' : ((csDelta x s (effIndices x.length idx)[k] : ℚ) : ℝ) ≠ 0 := by exact_mod_cast hδ
  have h := cs_polynomial_exact_up_to_h2 (polyLine ps[j] x (effIndices x.length idx)[k])
    ((getR x (effIndices x.length idx)[k] : ℚ) : ℝ)
    ((csDelta x s (effIndices x.length idx)[k] : ℚ) : ℝ) hδ' N hN hN2
  have ha := polyLine_aeval ps[j] x s (effIndices x.length idx)[k] hi
  simp only [castC_apply] at ha
  rw [ha, GRat.toC_im] at h
  rw [cs_model_entry ps x s idx k j hk hi hj, Rat.cast_div]
  exact h

/-- The line polynomial really is output `j` restricted to the line of component `i`: it takes the
    model's rational values at every rational abscissa (hence its derivative at `x_i` is the
    partial derivative the Jacobian entry approximates). -/
theorem cs_model_line_interpolates (p : Poly) (x : Vec) (i : Nat) (hi : i < x.length) (t : ℚ) :
    (polyLine p x i).eval (t : ℝ) = ((p.eval (x.set i t) : ℚ) : ℝ) :=
  polyLine_eval p x i hi t

example : getR ((csGrad (polyFunG [[⟨1, [3, 0]⟩]]) [2, 5] (.scalar (1/4)) [0]).getD 0 []) 0
    = 3 * 2 ^ 2 - (2 * (1/4)) ^ 2 := by decide +kernel

/-! ### The model's finite-difference Jacobians on polynomial functions (what the oracle checks) -/

open Set Polynomial in
/-- **Forward differences of the model on polynomial functions are first-order accurate**:
    entry `(j, k)` differs from the partial derivative by at most `|d|/2 · M`, `d` the signed step of
    component `i = x_indices[k]`, `M` any bound of `|∂²p_j/∂x_i²|` between `x_i` and `x_i + d`. -/
theorem fd_poly_first_order (ps : List Poly) (sp : Option Space) (x : Vec) (s : Step)
    (idx : List Nat) (k j : Nat) (hk : k < (effIndices x.length idx).length)
    (hi : (effIndices x.length idx)[k] < x.length) (hj : j < ps.length)
    (hd : fdStep sp x s (effIndices x.length idx)[k] ≠ 0) (M : ℝ)
    (hM : ∀ t ∈ uIcc ((getR x (effIndices x.length idx)[k] : ℚ) : ℝ)
        ((getR x (effIndices x.length idx)[k] : ℚ) + ((fdStep sp x s (effIndices x.length idx)[k] : ℚ) : ℝ)),
        |(derivative (derivative (polyLine ps[j] x (effIndices x.length idx)[k]))).eval t| ≤ M) :
    |((getR ((fdGrad (polyFun ps) sp x s idx).getD k []) j : ℚ) : ℝ)
        - (derivative (polyLine ps[j] x (effIndices x.length idx)[k])).eval
            ((getR x (effIndices x.length idx)[k] : ℚ) : ℝ)|
      ≤ |((fdStep sp x s (effIndices x.length idx)[k] : ℚ) : ℝ)| / 2 * M := by
  refine fd_model_first_order (polyFun ps) sp x s idx k j hk (by simp [polyFun])
    (fun t => (polyLine ps[j] x (effIndices x.length idx)[k]).eval t)
    (fun t => (derivative (polyLine ps[j] x (effIndices x.length idx)[k])).eval t)
    (fun t => (derivative (derivative (polyLine ps[j] x (effIndices x.length idx)[k]))).eval t)
    M hd ?_ (fun t _ => Polynomial.hasDerivAt _ t) (fun t _ => Polynomial.hasDerivAt _ t) hM
  intro t
  rw [getR_polyFun ps _ j hj, bump, ← Rat.cast_add, polyLine_eval _ x _ hi]

open Set Polynomial in
/-- **Centered differences of the model on polynomial functions are second-order accurate**
    wherever the two symmetric points are used. -/
theorem cd_poly_second_order (ps : List Poly) (sp : Option Space) (x : Vec) (s : Step)
    (idx : List Nat) (k j : Nat) (hk : k < (effIndices x.length idx).length)
    (hi : (effIndices x.length idx)[k] < x.length) (hj : j < ps.length)
    (hp : cdPlus sp x s (effIndices x.length idx)[k] = s.at (effIndices x.length idx)[k])
    (hq : cdMinus sp x s (effIndices x.length idx)[k] = -(s.at (effIndices x.length idx)[k]))
    (hh : 0 < s.at (effIndices x.length idx)[k]) (M : ℝ)
    (hM : ∀ t ∈ Icc (((getR x (effIndices x.length idx)[k] : ℚ) : ℝ) - ((s.at (effIndices x.length idx)[k] : ℚ) : ℝ))
        ((getR x (effIndices x.length idx)[k] : ℚ) + ((s.at (effIndices x.length idx)[k] : ℚ) : ℝ)),
        |(derivative (derivative (derivative (polyLine ps[j] x (effIndices x.length idx)[k])))).eval t| ≤ M) :
    |((getR ((cdGrad (polyFun ps) sp x s idx).getD k []) j : ℚ) : ℝ)
        - (derivative (polyLine ps[j] x (effIndices x.length idx)[k])).eval
            ((getR x (effIndices x.length idx)[k] : ℚ) : ℝ)|
      ≤ ((s.at (effIndices x.length idx)[k] : ℚ) : ℝ) ^ 2 / 6 * M := by
  refine cd_model_second_order (polyFun ps) sp x s idx k j hk hi (by simp [polyFun]) hp hq hh
    (fun t => (polyLine ps[j] x (effIndices x.length idx)[k]).eval t)
    (fun t => (derivative (polyLine ps[j] x (effIndices x.length idx)[k])).eval t)
    (fun t => (derivative (derivative (polyLine ps[j] x (effIndices x.length idx)[k]))).eval t)
    (fun t => (derivative (derivative (derivative (polyLine ps[j] x (effIndices x.length idx)[k])))).eval t)
    M ?_ (fun t _ => Polynomial.hasDerivAt _ t) (fun t _ => Polynomial.hasDerivAt _ t)
    (fun t _ => Polynomial.hasDerivAt _ t) hM
  intro t
  rw [getR_polyFun ps _ j hj, bump, ← Rat.cast_add, polyLine_eval _ x _ hi]

/-! ### `check_jacobian(indices=…)` inherits the guarantees -/

/-- The global indices of `check_jacobian(indices=…)`: for each variable, its selected local
    components shifted by the sizes of the previous variables. -/
theorem indices_resolved (sizes : List Nat) (sels : List Sel) (g : Nat) :
    g ∈ globalIndices sizes sels 0 ↔
      ∃ v, v < sizes.length ∧ ∃ l ∈ selLocal (sizes.getD v 0) (sels.getD v none),
        g = (sizes.take v).sum + l :=
  mem_globalIndices sizes sels g

/-- The sub-Jacobian `jac[output][input]` is the corresponding block of the flat Jacobian. -/
theorem blocks_split (rows : List Vec) (ro rs co cs r c : Nat) (hr : r < rs) (hc : c < cs) :
    getR ((block rows ro rs co cs).getD r []) c = getR (rows.getD (ro + r) []) (co + c) :=
  block_get rows ro rs co cs r c hr hc

/-- The verdict only depends on the selected entries. -/
theorem check_ignores_unselected (t : ℚ) (a a' b : List Vec) (rows cols : List Nat)
    (h : ∀ r ∈ rows, ∀ c ∈ cols, getR (a.getD r []) c = getR (a'.getD r []) c) :
    checkJac t a b rows cols = checkJac t a' b rows cols := by
  unfold checkJac
  rw [Bool.eq_iff_iff]
  simp only [List.all_eq_true]
  constructor
  · intro H r hr c hc; rw [← h r hr c hc]; exact H r hr c hc
  · intro H r hr c hc; rw [h r hr c hc]; exact H r hr c hc

/-- An exact analytic Jacobian is accepted as soon as the approximation error of every selected
    entry is within the threshold (e.g. `|d|/2·sup|f''| ≤ t` by `fd_poly_first_order`). -/
theorem check_accepts_exact (t ε : ℚ) (D b : List Vec) (rows cols : List Nat) (ht : 0 ≤ t)
    (hε : ε ≤ t)
    (herr : ∀ r ∈ rows, ∀ c ∈ cols, |getR (b.getD r []) c - getR (D.getD r []) c| ≤ ε) :
    checkJac t D b rows cols = true := by
  unfold checkJac
  simp only [List.all_eq_true]
  intro r hr c hc
  exact (check_entry_sound t _ _ 0 ε ht (herr r hr c hc)).1 hε

/-- A selected analytic entry wrong by more than `t·(1+|approx|) + ε` is rejected. -/
theorem check_rejects_wrong (t ε : ℚ) (D a b : List Vec) (rows cols : List Nat) (ht : 0 ≤ t)
    (r c : Nat) (hr : r ∈ rows) (hc : c ∈ cols)
    (herr : |getR (b.getD r []) c - getR (D.getD r []) c| ≤ ε)
    (hwrong : t + t * |getR (b.getD r []) c| + ε
      < |getR (a.getD r []) c - getR (D.getD r []) c|) :
    checkJac t a b rows cols = false := by
  unfold checkJac
  rw [Bool.eq_false_iff]
  intro hall
  simp only [List.all_eq_true] at hall
  have h1 := hall r hr c hc
  have h2 := (check_entry_sound t (getR (D.getD r []) c) (getR (b.getD r []) c)
    (getR (a.getD r []) c - getR (D.getD r []) c) ε ht herr).2 hwrong
  rw [add_sub_cancel] at h2
  rw [h2] at h1
  exact Bool.false_ne_true h1

example : checkJac (1/8) [[1, 100]] [[1 + 1/16, 0]] [0] [0] = true ∧
    checkJac (1/8) [[2, 0]] [[1 + 1/16, 0]] [0] [0] = false := by decide +kernel

/-! ### One approximator, many calls: the only state read is the default step -/

/-- `f_gradient(step=None)` uses the step given to the constructor or to the `step` setter (the
    last one), an explicit `step` argument overrides it and leaves it unchanged (the model's
    `f_gradient` does not return a new state). -/
theorem session_step_semantics (a : Approx) (s t : Step) :
    (a.setStep s).resolve none = s ∧ (a.setStep s).resolve (some t) = t ∧
    ((a.setStep s).setStep t).resolve none = t := ⟨rfl, rfl, rfl⟩

/-- The columns returned by `generate_perturbations` are exactly the points at which `f_gradient`
    evaluates the function (after the reference point for forward differences). -/
theorem perturbations_are_call_points (sp : Option Space) (x : Vec) (s : Step) (idx : List Nat) :
    fdCalls sp x s idx = x :: fdPerts sp x s idx ∧
    (fdSteps sp x s idx).length = (fdPerts sp x s idx).length := by
  constructor
  · rfl
  · simp [fdSteps, fdPerts, fdGenerate]

/-! ### Non-vacuity of the bound-safety and order theorems on concrete data -/

/-- A point within one step of its upper bound, a subset in reverse order: all the hypotheses of
    `fd_calls_within_upper_bounds` hold, and the backward step is taken for component 1. -/
example :
    (∀ p ∈ fdCalls (some ⟨[some 0, some 0], [some 1, some 2], false⟩) [1, 2 - 1/8] (.scalar (1/4)) [1, 0],
      ∀ j u, (⟨[some 0, some 0], [some 1, some 2], false⟩ : Space).ubW j = some u → getR p j ≤ u) ∧
    fdStep (some ⟨[some 0, some 0], [some 1, some 2], false⟩) [1, 2 - 1/8] (.scalar (1/4)) 1 = -(1/4) := by
  constructor
  · apply fd_calls_within_upper_bounds
    intro j u h
    match j with
    | 0 => simp [Space.ubW, Space.isNorm] at h; subst h; decide +kernel
    | 1 => simp [Space.ubW, Space.isNorm] at h; subst h; decide +kernel
    | j + 2 => simp [Space.ubW, Space.isNorm] at h
  · decide +kernel

example : |(((1 : ℝ) + 1 / 4) ^ 3 - (1 - 1 / 4) ^ 3) / (2 * (1 / 4)) - 3 * 1 ^ 2|
    ≤ (1 / 4 : ℝ) ^ 2 / 6 * 6 := by norm_num

open Set in
/-- The hypotheses of `cd_second_order` are satisfiable (cubic, `M = 6`). -/
example : |((fun t : ℝ => t ^ 3) (1 + 1 / 4) - (fun t : ℝ => t ^ 3) (1 - 1 / 4)) / (2 * (1 / 4))
      - (fun t : ℝ => 3 * t ^ 2) 1| ≤ (1 / 4 : ℝ) ^ 2 / 6 * 6 :=
  cd_second_order (f := fun t => t ^ 3) (f' := fun t => 3 * t ^ 2) (f'' := fun t => 6 * t)
    (f''' := fun _ => 6) (by norm_num)
    (fun t _ => by simpa using hasDerivAt_pow 3 t)
    (fun t _ => by
      have := (hasDerivAt_pow 2 t).const_mul 3
      refine this.congr_deriv ?_
      norm_num
      ring)
    (fun t _ => by
      have := (hasDerivAt_id t).const_mul 6
      simpa using this)
    (fun t _ => by norm_num)

/-- Tight design space (reversed subset): component 0 is frozen (`lb = ub = 1`), component 1 lives in
    an interval a quarter of a step wide with the point on its upper bound, component 2 has room.
    Neither `x + h` nor `x − h` is admissible for components 0 and 1; all the hypotheses of
    `fd_calls_within_upper_bounds` hold and the backward step is taken for both. -/
example :
    (∀ p ∈ fdCalls (some ⟨[some 1, some 0, some 0], [some 1, some (1/16), some 4], false⟩) [1, 1/16, 2]
        (.scalar (1/4)) [1, 0],
      ∀ j u, (⟨[some 1, some 0, some 0], [some 1, some (1/16), some 4], false⟩ : Space).ubW j = some u →
        getR p j ≤ u) ∧
    fdStep (some ⟨[some 1, some 0, some 0], [some 1, some (1/16), some 4], false⟩) [1, 1/16, 2] (.scalar (1/4)) 0
      = -(1/4) ∧
    fdStep (some ⟨[some 1, some 0, some 0], [some 1, some (1/16), some 4], false⟩) [1, 1/16, 2] (.scalar (1/4)) 1
      = -(1/4) := by
  refine ⟨?_, by decide +kernel, by decide +kernel⟩
  apply fd_calls_within_upper_bounds
  intro j u h
  match j with
  | 0 => simp [Space.ubW, Space.isNorm] at h; subst h; decide +kernel
  | 1 => simp [Space.ubW, Space.isNorm] at h; subst h; decide +kernel
  | 2 => simp [Space.ubW, Space.isNorm] at h; subst h; decide +kernel
  | j + 3 => simp [Space.ubW, Space.isNorm] at h

/-- The same tight design space with the centered scheme: the column of the frozen component is the
    backward quotient (finite, equal to the forward-difference column), not `0/0`; with a normalised
    frozen component the working upper bound is `0`. -/
example :
    cdGrad (polyFun [[⟨1, [2, 1, 0]⟩]]) (some ⟨[some 1, some 0, some 0], [some 1, some (1/16), some 4], false⟩)
        [1, 1/16, 2] (.scalar (1/4)) [0]
      = fdGrad (polyFun [[⟨1, [2, 1, 0]⟩]]) (some ⟨[some 1, some 0, some 0], [some 1, some (1/16), some 4], false⟩)
        [1, 1/16, 2] (.scalar (1/4)) [0] ∧
    cdGrad (polyFun [[⟨1, [2, 1, 0]⟩]]) (some ⟨[some 1, some 0, some 0], [some 1, some (1/16), some 4], false⟩)
        [1, 1/16, 2] (.scalar (1/4)) [0] = [[(1 - (3/4)^2) * (1/16) / (1/4)]] ∧
    (⟨[some 3], [some 3], true⟩ : Space).ubW 0 = some 0 := by
  decide +kernel

/-! ### Requests served by ONE `DisciplineJacApprox` (histories)

`compute_approx_jac(outputs, inputs, x_indices)`, hence `Discipline.linearize` in an approximation mode and
`check_jacobian`, at the current data `x` of the discipline: whatever names are requested, in whatever order,
and whatever the object served before, column `c` of the flat Jacobian is the difference quotient of the *full*
function of the discipline at the *full* current point along the global component that sits at position `c`
of the request, restricted to the requested outputs.  The error theorems above (`fd_model_first_order`, …)
therefore apply to every block of every request. -/

theorem mem_effIndices_lt (n : Nat) (idx : List Nat) (h : ∀ c ∈ idx, c < n) :
    ∀ c ∈ effIndices n idx, c < n := by
  intro c hc
  unfold effIndices at hc
  split at hc
  · exact List.mem_range.mp hc
  · exact h c hc

/-- Forward differences: the columns of a request. -/
theorem request_columns_fd (D : Disc) (x : Vec) (s : Step) (r : Request)
    (hnd : (compsOf D.inSizes r.ins).Nodup) (hr : ∀ g ∈ compsOf D.inSizes r.ins, g < x.length)
    (hx : ∀ c ∈ r.xidx, c < (compsOf D.inSizes r.ins).length) :
    reqCols .fd false D x s r =
      (effIndices (compsOf D.inSizes r.ins).length r.xidx).map (fun c =>
        (compsOf D.outSizes r.outs).map (fun j =>
          (getR (D.f (bump x ((compsOf D.inSizes r.ins).getD c 0) (s.at c))) j - getR (D.f x) j) / s.at c)) := by
  unfold reqCols reqColsWith
  simp only
  rw [fdGrad_eq, pick_length]
  apply List.map_congr_left
  intro c hc
  have hc' : c < (compsOf D.inSizes r.ins).length := mem_effIndices_lt _ _ hx c hc
  have hstep : fdStep none (pick (compsOf D.inSizes r.ins) x) s c = s.at c := rfl
  rw [hstep, reqFun_bump D.f x _ _ c _ hnd hr hc', reqFun_self D.f x _ _ hr, colDiff_pick]
  simp [List.getD_eq_getElem?_getD, List.getElem?_eq_getElem hc']

/-- Centered differences: the columns of a request. -/
theorem request_columns_cd (D : Disc) (x : Vec) (s : Step) (r : Request)
    (hnd : (compsOf D.inSizes r.ins).Nodup) (hr : ∀ g ∈ compsOf D.inSizes r.ins, g < x.length)
    (hx : ∀ c ∈ r.xidx, c < (compsOf D.inSizes r.ins).length) :
    reqCols .cd false D x s r =
      (effIndices (compsOf D.inSizes r.ins).length r.xidx).map (fun c =>
        (compsOf D.outSizes r.outs).map (fun j =>
          (getR (D.f (bump x ((compsOf D.inSizes r.ins).getD c 0) (s.at c))) j
            - getR (D.f (bump x ((compsOf D.inSizes r.ins).getD c 0) (-(s.at c)))) j)
            / absR (s.at c - -(s.at c)))) := by
  unfold reqCols reqColsWith
  simp only
  rw [cdGrad_eq, pick_length]
  apply List.map_congr_left
  intro c hc
  have hc' : c < (compsOf D.inSizes r.ins).length := mem_effIndices_lt _ _ hx c hc
  have hp : cdPlus none (pick (compsOf D.inSizes r.ins) x) s c = s.at c := by simp [cdPlus, cdFwdBlocked]
  have hm : cdMinus none (pick (compsOf D.inSizes r.ins) x) s c = -(s.at c) := rfl
  rw [hp, hm, norm1_bump _ c _ _ (by rw [pick_length]; exact hc'),
    reqFun_bump D.f x _ _ c _ hnd hr hc', reqFun_bump D.f x _ _ c _ hnd hr hc', colDiff_pick]
  simp [List.getD_eq_getElem?_getD, List.getElem?_eq_getElem hc']

/-- Complex step: the columns of a request (the complex point is the current data of the discipline with the
    imaginary step on the global component only). -/
theorem request_columns_cs (D : Disc) (x : Vec) (s : Step) (r : Request)
    (hnd : (compsOf D.inSizes r.ins).Nodup) (hr : ∀ g ∈ compsOf D.inSizes r.ins, g < x.length)
    (hx : ∀ c ∈ r.xidx, c < (compsOf D.inSizes r.ins).length) :
    reqCols .cs false D x s r =
      (effIndices (compsOf D.inSizes r.ins).length r.xidx).map (fun c =>
        (compsOf D.outSizes r.outs).map (fun j =>
          ((D.fc ((x.map GRat.ofRat).set ((compsOf D.inSizes r.ins).getD c 0)
              ⟨getR x ((compsOf D.inSizes r.ins).getD c 0),
               xnnz x ((compsOf D.inSizes r.ins).getD c 0) * s.at c⟩)).getD j ⟨0, 0⟩).im
            / (xnnz x ((compsOf D.inSizes r.ins).getD c 0) * s.at c))) := by
  unfold reqCols reqColsWith
  simp only
  rw [csGrad_eq, pick_length]
  apply List.map_congr_left
  intro c hc
  have hc' : c < (compsOf D.inSizes r.ins).length := mem_effIndices_lt _ _ hx c hc
  have hlen : (pick (compsOf D.inSizes r.ins) x).length = (compsOf D.inSizes r.ins).length := pick_length _ _
  have hpert := reqFunG_pert D.fc x s _ (compsOf D.outSizes r.outs) c hnd hr hc'
  rw [hlen] at hpert
  rw [hpert, imSum_csPert _ _ s c hc']
  have hg : (compsOf D.inSizes r.ins).getD c 0 = (compsOf D.inSizes r.ins)[c] := by
    simp [List.getD_eq_getElem?_getD, List.getElem?_eq_getElem hc']
  simp only [pickG, pickL, List.map_map, hg, csDelta, xnnz, getR_pick _ x c hc']
  rfl

/-- Parallel evaluation of a request equals its serial evaluation. -/
theorem request_parallel_eq_serial (sch : Scheme) (D : Disc) (x : Vec) (s : Step)
    (fn : List Nat × List Nat) (r : Request) :
    reqColsWith sch true D x s fn r = reqColsWith sch false D x s fn r := by
  cases sch
  · exact parallel_eq_serial_fd _ _ _ _ _
  · exact parallel_eq_serial_cd _ _ _ _ _
  · exact parallel_eq_serial_cs _ _ _ _

/-- Entry `(r', c')` of the block (`a`-th requested output name, `b`-th requested input name): the value
    attached to the position of component `c'` of that input in the vector of the request and to the global
    output component (sum of the sizes of the outputs declared before) `+ r'`. -/
theorem reqBlock_entry (D : Disc) (r : Request) (q : Nat → Nat → ℚ) (hx0 : r.xidx = [])
    (a b r' c' : Nat) (ha : a < r.outs.length) (hb : b < r.ins.length)
    (hr' : r' < D.outSizes.getD r.outs[a] 0) (hc' : c' < D.inSizes.getD r.ins[b] 0) :
    getR ((reqBlock D r ((List.range (compsOf D.inSizes r.ins).length).map (fun c =>
        (compsOf D.outSizes r.outs).map (fun j => q c j))) a b).getD r' []) c' =
      q (((r.ins.map (fun n => D.inSizes.getD n 0)).take b).sum + c')
        ((D.outSizes.take r.outs[a]).sum + r') := by
  have hJ := compsOf_get D.outSizes r.outs a r' ha hr'
  have hC := compsOf_get D.inSizes r.ins b c' hb hc'
  obtain ⟨hJlt, _⟩ := List.getElem?_eq_some_iff.mp hJ
  obtain ⟨hClt, _⟩ := List.getElem?_eq_some_iff.mp hC
  unfold reqBlock
  simp only [hx0]
  rw [block_get _ _ _ _ _ _ _ (by rw [getD_map_of_lt _ _ _ _ ha]; exact hr')
    (by rw [getD_map_of_lt _ _ _ _ hb]; exact hc')]
  have hplace : ∀ m n (cols : List Vec), placeCols m n [] cols = cols := fun _ _ _ => rfl
  rw [hplace, rowsOf_getD _ _ _ hJlt, getR_map_getR, getD_range_map _ _ _ _ hClt,
    getR_map_of_getElem? _ _ _ _ hJ]

/-- Forward differences, all components: every entry of every block of a request is the forward quotient of
    the right output component of the discipline along the right input component, at the current point. -/
theorem request_block_entry_fd (D : Disc) (x : Vec) (s : Step) (r : Request)
    (hnd : (compsOf D.inSizes r.ins).Nodup) (hr : ∀ g ∈ compsOf D.inSizes r.ins, g < x.length)
    (hx0 : r.xidx = []) (a b r' c' : Nat) (ha : a < r.outs.length) (hb : b < r.ins.length)
    (hr' : r' < D.outSizes.getD r.outs[a] 0) (hc' : c' < D.inSizes.getD r.ins[b] 0)
    (pos g j : Nat) (hpos : pos = ((r.ins.map (fun n => D.inSizes.getD n 0)).take b).sum + c')
    (hg : g = (D.inSizes.take r.ins[b]).sum + c') (hj : j = (D.outSizes.take r.outs[a]).sum + r') :
    getR ((reqBlock D r (reqCols .fd false D x s r) a b).getD r' []) c' =
      (getR (D.f (bump x g (s.at pos))) j - getR (D.f x) j) / s.at pos := by
  subst hpos hg hj
  have hC := compsOf_get D.inSizes r.ins b c' hb hc'
  have hget : (compsOf D.inSizes r.ins).getD
      (((r.ins.map (fun n => D.inSizes.getD n 0)).take b).sum + c') 0 = (D.inSizes.take r.ins[b]).sum + c' := by
    rw [List.getD_eq_getElem?_getD, hC]; rfl
  rw [request_columns_fd D x s r hnd hr (by simp [hx0]), hx0, effIndices_all,
    reqBlock_entry D r _ hx0 a b r' c' ha hb hr' hc']
  simp only [hget]

/-- Centered differences, all components: every entry of every block of a request is the centered quotient of
    the right output component along the right input component, at the current point. -/
theorem request_block_entry_cd (D : Disc) (x : Vec) (s : Step) (r : Request)
    (hnd : (compsOf D.inSizes r.ins).Nodup) (hr : ∀ g ∈ compsOf D.inSizes r.ins, g < x.length)
    (hx0 : r.xidx = []) (a b r' c' : Nat) (ha : a < r.outs.length) (hb : b < r.ins.length)
    (hr' : r' < D.outSizes.getD r.outs[a] 0) (hc' : c' < D.inSizes.getD r.ins[b] 0)
    (pos g j : Nat) (hpos : pos = ((r.ins.map (fun n => D.inSizes.getD n 0)).take b).sum + c')
    (hg : g = (D.inSizes.take r.ins[b]).sum + c') (hj : j = (D.outSizes.take r.outs[a]).sum + r') :
    getR ((reqBlock D r (reqCols .cd false D x s r) a b).getD r' []) c' =
      (getR (D.f (bump x g (s.at pos))) j - getR (D.f (bump x g (-(s.at pos)))) j)
        / absR (s.at pos - -(s.at pos)) := by
  subst hpos hg hj
  have hC := compsOf_get D.inSizes r.ins b c' hb hc'
  have hget : (compsOf D.inSizes r.ins).getD
      (((r.ins.map (fun n => D.inSizes.getD n 0)).take b).sum + c') 0 = (D.inSizes.take r.ins[b]).sum + c' := by
    rw [List.getD_eq_getElem?_getD, hC]; rfl
  rw [request_columns_cd D x s r hnd hr (by simp [hx0]), hx0, effIndices_all,
    reqBlock_entry D r _ hx0 a b r' c' ha hb hr' hc']
  simp only [hget]

/-- Complex step, all components: every entry of every block of a request is `Im f_j(x + i·δ·e_g)/δ` for the
    right output component `j` and the right global input component `g`, `δ = x_g·h` (`h` when `x_g = 0`). -/
theorem request_block_entry_cs (D : Disc) (x : Vec) (s : Step) (r : Request)
    (hnd : (compsOf D.inSizes r.ins).Nodup) (hr : ∀ g ∈ compsOf D.inSizes r.ins, g < x.length)
    (hx0 : r.xidx = []) (a b r' c' : Nat) (ha : a < r.outs.length) (hb : b < r.ins.length)
    (hr' : r' < D.outSizes.getD r.outs[a] 0) (hc' : c' < D.inSizes.getD r.ins[b] 0)
    (pos g j : Nat) (hpos : pos = ((r.ins.map (fun n => D.inSizes.getD n 0)).take b).sum + c')
    (hg : g = (D.inSizes.take r.ins[b]).sum + c') (hj : j = (D.outSizes.take r.outs[a]).sum + r') :
    getR ((reqBlock D r (reqCols .cs false D x s r) a b).getD r' []) c' =
      ((D.fc ((x.map GRat.ofRat).set g ⟨getR x g, xnnz x g * s.at pos⟩)).getD j ⟨0, 0⟩).im
        / (xnnz x g * s.at pos) := by
  subst hpos hg hj
  have hC := compsOf_get D.inSizes r.ins b c' hb hc'
  have hget : (compsOf D.inSizes r.ins).getD
      (((r.ins.map (fun n => D.inSizes.getD n 0)).take b).sum + c') 0 = (D.inSizes.take r.ins[b]).sum + c' := by
    rw [List.getD_eq_getElem?_getD, hC]; rfl
  rw [request_columns_cs D x s r hnd hr (by simp [hx0]), hx0, effIndices_all,
    reqBlock_entry D r _ hx0 a b r' c' ha hb hr' hc']
  simp only [hget]

theorem op_request_fst (sch : Scheme) (par : Bool) (D : Disc) (st : JacApprox) (x : Vec) (r : Request) :
    (st.op sch par D (.request x r)).1 = st.create r := by
  unfold JacApprox.op
  simp only [JacApprox.create]
  by_cases h : (!reqValid D st.step r) = true <;> simp [h]

/-- The step read by the next request is the last one assigned. -/
theorem run_step (sch : Scheme) (par : Bool) (D : Disc) (st : JacApprox) (ops : List JOp) :
    (JacApprox.run sch par D st ops).1.step = stepAfter st.step ops := by
  induction ops generalizing st with
  | nil => rfl
  | cons o rest ih =>
    cases o with
    | setStep t => simp only [JacApprox.run, JacApprox.op, stepAfter]; exact ih _
    | request x r =>
      simp only [JacApprox.run, stepAfter]
      rw [ih, op_request_fst]
      rfl

/-- History independence: after any history of step assignments and requests (any names, orders, points),
    a request is served exactly as by a fresh object holding the step in force — the function differentiated
    is built from the names of *this* request. -/
theorem request_history_independent (sch : Scheme) (par : Bool) (D : Disc) (st : JacApprox)
    (ops : List JOp) (x : Vec) (r : Request) :
    ((JacApprox.run sch par D st ops).1.op sch par D (.request x r)).2 =
      if reqValid D (stepAfter st.step ops) r
      then some (reqBlocks sch par D x (stepAfter st.step ops) r) else none := by
  simp only [JacApprox.op, JacApprox.create, run_step]
  split <;> simp_all [reqBlocks, reqCols]

/-- Non-vacuity: a discipline with inputs of sizes (2, 1) and outputs of sizes (1, 1), `y0 = x0[0]²·x1`,
    `y1 = 3·x0[0]·x0[1]·x1` at `x = (1, 2, 3)`.  The object first serves `y1` w.r.t. `(x1, x0)`, its step is
    changed, then it serves `y0` w.r.t. the same inputs: the second answer is `y0`'s (not `y1`'s), in the order
    of the request, and equals the answer of a fresh object. -/
example :
    let D : Disc := ⟨[2, 1], [1, 1], polyFun [[⟨1, [2, 0, 1]⟩], [⟨3, [1, 1, 1]⟩]],
      polyFunG [[⟨1, [2, 0, 1]⟩], [⟨3, [1, 1, 1]⟩]]⟩
    let ops := [JOp.request [1, 2, 3] ⟨[1], [1, 0], []⟩, JOp.setStep (.scalar (1/4))]
    ((JacApprox.run .fd false D ⟨.scalar (1/2), none⟩ ops).1.op .fd false D
        (.request [1, 2, 3] ⟨[0], [1, 0], []⟩)).2
      = some [[[1]], [[6 + 3/4, 0]]] ∧
    (JacApprox.run .fd false D ⟨.scalar (1/2), none⟩ ops).2 = [some [[[6]], [[18, 9]]], none] ∧
    (compsOf D.inSizes [1, 0]).Nodup ∧ (∀ g ∈ compsOf D.inSizes [1, 0], g < 3) := by
  decide +kernel

/-! ### The default inputs of the discipline: requests that leave inputs to their default values, after other requests

`linearize(input_data)` / `check_jacobian(input_data, auto_set_step=…)` complete the passed input data with the
default inputs; an approximation temporarily overwrites the defaults of the inputs that are not differentiated
(`__hold_other_inputs`); `auto_set_step` executes the discipline elsewhere before the requested point is set. -/

/-- `__hold_other_inputs` leaves the default inputs as they were, for any local data and any differentiated
    components. -/
theorem hold_restores_defaults (defaults data : Vec) (fic : List Nat) :
    holdExit (holdEnter defaults data (heldOf defaults.length fic)) defaults (heldOf defaults.length fic) = defaults :=
  holdExit_holdEnter _ _ _ (fun _ hg => ((mem_heldOf _ _ _).mp hg).1)

/-- Inside the context, the adapter — which completes its argument with the default inputs in force — evaluates the
    discipline at the CURRENT data with the differentiated components replaced by its argument: this is the function
    `reqFun` of every `request_*` theorem above. -/
theorem held_inputs_keep_current_values (D : Disc) (defaults data : Vec) (fic foc : List Nat) (v : Vec)
    (hl : data.length = defaults.length) (hv : fic.length ≤ v.length) :
    pick foc (D.f (overwriteL (holdEnter defaults data (heldOf defaults.length fic)) fic v)) =
      reqFun D.f data fic foc v := by
  rw [hold_gives_current_point defaults data fic v hl hv]; rfl

/-- After any history of executions, approximations and `auto_set_step` calls the default inputs of the discipline
    are the ones it was built with. -/
theorem defaults_unchanged_by_any_history (sch : Scheme) (par : Bool) (D : Disc) (s : Step) (st : DState)
    (ops : List DOp) : (DState.run sch par D s st ops).1.defaults = st.defaults :=
  drun_defaults sch par D s st ops

/-- The point of a request: after ANY history (requests at other points, with other differentiated inputs,
    `auto_set_step` calls), `linearize(input_data)` and the reference Jacobian of
    `check_jacobian(input_data, auto_set_step=auto)` are the blocks of a fresh discipline at the passed values
    completed by the ORIGINAL default inputs — wherever `auto_set_step` left the local data.  With
    `request_block_entry_fd/cd/cs` every entry is the scheme's quotient at that point. -/
theorem request_point_is_input_data_completed_by_defaults (sch : Scheme) (par : Bool) (D : Disc) (s : Step)
    (st : DState) (ops : List DOp) (auto : Bool) (last : Vec) (given : List Nat) (v : Vec) (r : Request) :
    (DState.run sch par D s st (ops ++ checkOps auto last given v r)).2.getLast? =
      some (if reqValid D s r then some (reqBlocks sch par D (complete st.defaults given v) s r) else none) := by
  rw [drun_append]
  cases auto <;>
    simp [checkOps, linearizeOps, DState.run, DState.op, drun_defaults]

/-- Non-vacuity: `y = x0²·x1`, default inputs `(1, 2)`, forward differences with step 1/4.  First `dy/dx0` at
    `(3, 7)` (`x1` away from its default value), then `check_jacobian({x0: 5}, auto_set_step=True)`:
    the reference is `dy/dx0` at `(5, 2)` (`= 20 + 1/2`), not at `(5, 7)`, and not where `auto_set_step` left the data;
    the defaults are `(1, 2)` afterwards.  An exit that re-installed the updated mapping (aliased "saved" defaults)
    would leave `(1, 7)`. -/
example :
    let D : Disc := ⟨[1, 1], [1], polyFun [[⟨1, [2, 1]⟩]], polyFunG [[⟨1, [2, 1]⟩]]⟩
    let ops := linearizeOps [0, 1] [3, 7] ⟨[0], [0], []⟩
    let res := DState.run .fd false D (.scalar (1/4)) ⟨[1, 2], [1, 2]⟩ (ops ++ checkOps true [9, 9] [0] [5, 99] ⟨[0], [0], []⟩)
    res.2 = [none, some [[[42 + 7/4]]], none, none, some [[[20 + 1/2]]]] ∧ res.1.defaults = [1, 2] ∧
    holdEnter [1, 2] [3, 7] (heldOf 2 [0]) = [1, 7] := by
  decide +kernel

end GV.C16
