/-
C18 — property theorems: surrogate models are consistent with their own predictions and data.

(partial: the fitting procedures — scikit-learn, SciPy's linear solve, OpenTURNS, clustering — are not
modelled; fitted parameters are universally quantified inputs of the theorems.)

1. `expr_diff_correct`            the symbolic differentiator is correct (+ − × ÷ √ exp log, powers).
2. `der_<k>_correct`              the formula of `RBFRegressor.RBFDerivatives.der_<k>` that the translator
                                  extracted from /repo (`Gen.der_<k>`, regenerated on every run) is the derivative
                                  of SciPy's kernel `φ_k` along a coordinate; `rbf_jacobian_<k>`: hence the sum
                                  assembled by `_predict_jacobian` is the partial derivative of `_predict`.
3. `pipeline_inverse`, `pipeline_jacobian_is_derivative`, `pipeline_inverse_jacobian_is_derivative`,
   `pipeline_jacobian_hasDerivAt`, fitted scalers (all branches) are lossless and do what is documented.
4. `regressor_jacobian_chain_rule`, `linreg_jacobian_exact`, `polyreg_table_is_formal_derivative`,
   `polyreg_jacobian_exact`, `interpolating_reproduces_data`, `surrogate_projects_model`,
   `surrogate_blocks_tile`.
-/
import GemseoVerif.Analysis.C18Rbf
import GemseoVerif.Lemmas.C18Poly
import GemseoVerif.Lemmas.C18Fit
import Mathlib.Tactic.NormNum
import Mathlib.Tactic.IntervalCases

namespace GV.C18.Claims

open GV.C18

/-! ## 1. The verified symbolic differentiator -/

/-- For every expression, environment and point satisfying the side conditions (no vanishing
    divisor / argument of `√`, `log`; no comparison), `diff` is the derivative with respect to `var 0`. -/
theorem expr_diff_correct (ρ : ℕ → ℝ) (t : ℝ) (e : Expr) (h : e.ok (set0 ρ t)) :
    HasDerivAt (fun s => e.ev (set0 ρ s)) (e.diff.ev (set0 ρ t)) t :=
  Expr.diff_correct ρ t e h

/-- Non-vacuity: `x · exp(x) / √(x² + 1)` satisfies the side conditions at every point. -/
example (ρ : ℕ → ℝ) (t : ℝ) :
    (Expr.div (Expr.mul (Expr.var 0) (Expr.exp (Expr.var 0)))
      (Expr.sqrt (Expr.add (Expr.pow (Expr.var 0) 2) (Expr.const 1)))).ok (set0 ρ t) := by
  have h : (0 : ℝ) < t ^ 2 + 1 := by positivity
  simp only [Expr.ok, Expr.ev, set0_zero, true_and, and_true]
  push_cast
  exact ⟨h.ne', (Real.sqrt_pos.mpr h).ne'⟩

/-! ## 2. Kernel derivative formulas of /repo (translated on every run) -/

/-- `der_multiquadric` is the derivative of `√((r/ε)² + 1)`, `r = √((t−c)² + s)`, everywhere. -/
theorem der_multiquadric_correct (t c s eps : ℝ) (hs : 0 ≤ s) (heps : eps ≠ 0) :
    HasDerivAt (fun u => phiMultiquadric eps (Real.sqrt ((u - c) ^ 2 + s)))
      (Gen.der_multiquadric.ev (kenv (t - c) (Real.sqrt ((t - c) ^ 2 + s)) eps 0)) t :=
  der_multiquadric_slice t c s eps hs heps

/-- `der_inverse_multiquadric` is the derivative of `1/√((r/ε)² + 1)`, everywhere. -/
theorem der_inverse_multiquadric_correct (t c s eps : ℝ) (hs : 0 ≤ s) (heps : eps ≠ 0) :
    HasDerivAt (fun u => phiInverseMultiquadric eps (Real.sqrt ((u - c) ^ 2 + s)))
      (Gen.der_inverse_multiquadric.ev (kenv (t - c) (Real.sqrt ((t - c) ^ 2 + s)) eps 0)) t :=
  der_inverse_multiquadric_slice t c s eps hs heps

/-- `der_gaussian` is the derivative of `exp(−(r/ε)²)`, everywhere. -/
theorem der_gaussian_correct (t c s eps : ℝ) (hs : 0 ≤ s) (heps : eps ≠ 0) :
    HasDerivAt (fun u => phiGaussian eps (Real.sqrt ((u - c) ^ 2 + s)))
      (Gen.der_gaussian.ev (kenv (t - c) (Real.sqrt ((t - c) ^ 2 + s)) eps 0)) t :=
  der_gaussian_slice t c s eps hs heps

/-- `der_linear` is the derivative of `r` (SciPy does not scale `r` by `ε`), away from the centre. -/
theorem der_linear_correct (t c s eps : ℝ) (hs : 0 ≤ s) (hq : (t - c) ^ 2 + s ≠ 0) :
    HasDerivAt (fun u => phiLinear (Real.sqrt ((u - c) ^ 2 + s)))
      (Gen.der_linear.ev (kenv (t - c) (Real.sqrt ((t - c) ^ 2 + s)) eps 0)) t :=
  der_linear_slice t c s eps hs hq

/-- `der_cubic` is the derivative of `r³`, away from the centre. -/
theorem der_cubic_correct (t c s eps : ℝ) (hs : 0 ≤ s) (hq : (t - c) ^ 2 + s ≠ 0) :
    HasDerivAt (fun u => phiCubic (Real.sqrt ((u - c) ^ 2 + s)))
      (Gen.der_cubic.ev (kenv (t - c) (Real.sqrt ((t - c) ^ 2 + s)) eps 0)) t :=
  der_cubic_slice t c s eps hs hq

/-- `der_quintic` is the derivative of `r⁵`, away from the centre. -/
theorem der_quintic_correct (t c s eps : ℝ) (hs : 0 ≤ s) (hq : (t - c) ^ 2 + s ≠ 0) :
    HasDerivAt (fun u => phiQuintic (Real.sqrt ((u - c) ^ 2 + s)))
      (Gen.der_quintic.ev (kenv (t - c) (Real.sqrt ((t - c) ^ 2 + s)) eps 0)) t :=
  der_quintic_slice t c s eps hs hq

/-- `der_thin_plate` is the derivative of `r² log r`, away from the centre. -/
theorem der_thin_plate_correct (t c s eps : ℝ) (hs : 0 ≤ s) (hq : (t - c) ^ 2 + s ≠ 0) :
    HasDerivAt (fun u => phiThinPlate (Real.sqrt ((u - c) ^ 2 + s)))
      (Gen.der_thin_plate.ev (kenv (t - c) (Real.sqrt ((t - c) ^ 2 + s)) eps 0)) t :=
  der_thin_plate_slice t c s eps hs hq

/-- Non-vacuity of the hypotheses (a point off the centre, two other coordinates). -/
example : HasDerivAt (fun u => phiCubic (Real.sqrt ((u - 1) ^ 2 + 4)))
    (Gen.der_cubic.ev (kenv (3 - 1) (Real.sqrt ((3 - 1) ^ 2 + 4)) (1 / 2) 0)) 3 :=
  der_cubic_correct 3 1 4 (1 / 2) (by norm_num) (by norm_num)

/-- The kernel expressions used by the model to predict are SciPy's kernels. -/
theorem model_kernels_are_scipy_kernels (x r e τ : ℝ) :
    Phi.multiquadric.ev (kenv x r e τ) = phiMultiquadric e r ∧
    Phi.inverse_multiquadric.ev (kenv x r e τ) = phiInverseMultiquadric e r ∧
    Phi.gaussian.ev (kenv x r e τ) = phiGaussian e r ∧
    Phi.linear.ev (kenv x r e τ) = phiLinear r ∧
    Phi.cubic.ev (kenv x r e τ) = phiCubic r ∧
    Phi.quintic.ev (kenv x r e τ) = phiQuintic r ∧
    Phi.thin_plate.ev (kenv x r e τ) = phiThinPlate r :=
  ⟨phiExpr_multiquadric x r e τ, phiExpr_inverse_multiquadric x r e τ, phiExpr_gaussian x r e τ,
   phiExpr_linear x r e τ, phiExpr_cubic x r e τ, phiExpr_quintic x r e τ,
   phiExpr_thin_plate x r e τ⟩

/-! ### RBF networks: `_predict_jacobian` is the partial derivative of `_predict`

`n` centres in dimension `d`, weights `w k i` (SciPy's `nodes`), `avg` (`y_average`); column `j`. -/

theorem rbf_jacobian_multiquadric (eps : ℝ) (heps : eps ≠ 0) (n d : ℕ) (centres w : ℕ → Vec ℝ)
    (avg x : Vec ℝ) (i j : ℕ) (hj : j < d) :
    HasDerivAt
      (fun u => sumTo n (fun k =>
        w k i * phiMultiquadric eps (Real.sqrt (distSq d (upd x j u) (centres k)))) + avg i)
      (sumTo n (fun k => w k i * Gen.der_multiquadric.ev
        (kenv (x j - centres k j) (Real.sqrt (distSq d x (centres k))) eps 0))) (x j) :=
  rbf_partial_derivative (phiMultiquadric eps)
    (fun a r => Gen.der_multiquadric.ev (kenv a r eps 0)) (fun _ => True)
    (fun t c s hs _ => der_multiquadric_slice t c s eps hs heps) n d centres w avg x i j hj
    (fun _ _ => trivial)

theorem rbf_jacobian_inverse_multiquadric (eps : ℝ) (heps : eps ≠ 0) (n d : ℕ)
    (centres w : ℕ → Vec ℝ) (avg x : Vec ℝ) (i j : ℕ) (hj : j < d) :
    HasDerivAt
      (fun u => sumTo n (fun k =>
        w k i * phiInverseMultiquadric eps (Real.sqrt (distSq d (upd x j u) (centres k)))) + avg i)
      (sumTo n (fun k => w k i * Gen.der_inverse_multiquadric.ev
        (kenv (x j - centres k j) (Real.sqrt (distSq d x (centres k))) eps 0))) (x j) :=
  rbf_partial_derivative (phiInverseMultiquadric eps)
    (fun a r => Gen.der_inverse_multiquadric.ev (kenv a r eps 0)) (fun _ => True)
    (fun t c s hs _ => der_inverse_multiquadric_slice t c s eps hs heps) n d centres w avg x i j hj
    (fun _ _ => trivial)

theorem rbf_jacobian_gaussian (eps : ℝ) (heps : eps ≠ 0) (n d : ℕ) (centres w : ℕ → Vec ℝ)
    (avg x : Vec ℝ) (i j : ℕ) (hj : j < d) :
    HasDerivAt
      (fun u => sumTo n (fun k =>
        w k i * phiGaussian eps (Real.sqrt (distSq d (upd x j u) (centres k)))) + avg i)
      (sumTo n (fun k => w k i * Gen.der_gaussian.ev
        (kenv (x j - centres k j) (Real.sqrt (distSq d x (centres k))) eps 0))) (x j) :=
  rbf_partial_derivative (phiGaussian eps)
    (fun a r => Gen.der_gaussian.ev (kenv a r eps 0)) (fun _ => True)
    (fun t c s hs _ => der_gaussian_slice t c s eps hs heps) n d centres w avg x i j hj
    (fun _ _ => trivial)

theorem rbf_jacobian_linear (eps : ℝ) (n d : ℕ) (centres w : ℕ → Vec ℝ) (avg x : Vec ℝ)
    (i j : ℕ) (hj : j < d) (hoff : ∀ k, k < n → distSq d x (centres k) ≠ 0) :
    HasDerivAt
      (fun u => sumTo n (fun k =>
        w k i * phiLinear (Real.sqrt (distSq d (upd x j u) (centres k)))) + avg i)
      (sumTo n (fun k => w k i * Gen.der_linear.ev
        (kenv (x j - centres k j) (Real.sqrt (distSq d x (centres k))) eps 0))) (x j) :=
  rbf_partial_derivative phiLinear
    (fun a r => Gen.der_linear.ev (kenv a r eps 0)) (fun q => q ≠ 0)
    (fun t c s hs hq => der_linear_slice t c s eps hs hq) n d centres w avg x i j hj hoff

theorem rbf_jacobian_cubic (eps : ℝ) (n d : ℕ) (centres w : ℕ → Vec ℝ) (avg x : Vec ℝ)
    (i j : ℕ) (hj : j < d) (hoff : ∀ k, k < n → distSq d x (centres k) ≠ 0) :
    HasDerivAt
      (fun u => sumTo n (fun k =>
        w k i * phiCubic (Real.sqrt (distSq d (upd x j u) (centres k)))) + avg i)
      (sumTo n (fun k => w k i * Gen.der_cubic.ev
        (kenv (x j - centres k j) (Real.sqrt (distSq d x (centres k))) eps 0))) (x j) :=
  rbf_partial_derivative phiCubic
    (fun a r => Gen.der_cubic.ev (kenv a r eps 0)) (fun q => q ≠ 0)
    (fun t c s hs hq => der_cubic_slice t c s eps hs hq) n d centres w avg x i j hj hoff

theorem rbf_jacobian_quintic (eps : ℝ) (n d : ℕ) (centres w : ℕ → Vec ℝ) (avg x : Vec ℝ)
    (i j : ℕ) (hj : j < d) (hoff : ∀ k, k < n → distSq d x (centres k) ≠ 0) :
    HasDerivAt
      (fun u => sumTo n (fun k =>
        w k i * phiQuintic (Real.sqrt (distSq d (upd x j u) (centres k)))) + avg i)
      (sumTo n (fun k => w k i * Gen.der_quintic.ev
        (kenv (x j - centres k j) (Real.sqrt (distSq d x (centres k))) eps 0))) (x j) :=
  rbf_partial_derivative phiQuintic
    (fun a r => Gen.der_quintic.ev (kenv a r eps 0)) (fun q => q ≠ 0)
    (fun t c s hs hq => der_quintic_slice t c s eps hs hq) n d centres w avg x i j hj hoff

theorem rbf_jacobian_thin_plate (eps : ℝ) (n d : ℕ) (centres w : ℕ → Vec ℝ) (avg x : Vec ℝ)
    (i j : ℕ) (hj : j < d) (hoff : ∀ k, k < n → distSq d x (centres k) ≠ 0) :
    HasDerivAt
      (fun u => sumTo n (fun k =>
        w k i * phiThinPlate (Real.sqrt (distSq d (upd x j u) (centres k)))) + avg i)
      (sumTo n (fun k => w k i * Gen.der_thin_plate.ev
        (kenv (x j - centres k j) (Real.sqrt (distSq d x (centres k))) eps 0))) (x j) :=
  rbf_partial_derivative phiThinPlate
    (fun a r => Gen.der_thin_plate.ev (kenv a r eps 0)) (fun q => q ≠ 0)
    (fun t c s hs hq => der_thin_plate_slice t c s eps hs hq) n d centres w avg x i j hj hoff

/-! ## 3. Transformers -/

/-- **Lossless pipelines**: scalers with non-zero coefficients, full-rank orthonormal linear
    reductions and any pipeline of them: `inverse_transform (transform x) = x`. -/
theorem pipeline_inverse {K : Type} [Field K] (steps : List (Step K)) (d : ℕ) (x : Vec K)
    (hwf : PipeWF steps d) (hl : AllLossless steps) :
    ∀ i, i < d → pipeInverse steps (pipeTransform steps x) i = x i :=
  pipe_inverse_transform steps d x hwf hl

/-- **`compute_jacobian` is the derivative of `transform`**: the product accumulated in code order
    is the exact increment of the composed map (over any field). -/
theorem pipeline_jacobian_is_derivative {K : Type} [Field K] (steps : List (Step K)) (d : ℕ)
    (hwf : PipeWF steps d) (x h : Vec K) :
    ∀ i, i < pipeOutDim steps d →
      pipeTransform steps (fun j => x j + h j) i
        = pipeTransform steps x i + mulVec d (pipeJac steps) h i :=
  pipeTransform_increment steps d hwf x h

/-- **`compute_jacobian_inverse` is the derivative of `inverse_transform`.** -/
theorem pipeline_inverse_jacobian_is_derivative {K : Type} [Field K] (steps : List (Step K))
    (d : ℕ) (hwf : PipeWF steps d) (y h : Vec K) :
    ∀ i, i < d →
      pipeInverse steps (fun j => y j + h j) i
        = pipeInverse steps y i + mulVec (pipeOutDim steps d) (pipeJacInv steps) h i :=
  pipeInverse_increment steps d hwf y h

/-- The same over ℝ as a derivative in every direction `v`. -/
theorem pipeline_jacobian_hasDerivAt (steps : List (Step ℝ)) (d : ℕ) (hwf : PipeWF steps d)
    (x v : Vec ℝ) (i : ℕ) (hi : i < pipeOutDim steps d) :
    HasDerivAt (fun t : ℝ => pipeTransform steps (fun j => x j + t * v j) i)
      (mulVec d (pipeJac steps) v i) 0 := by
  have hfun : (fun t : ℝ => pipeTransform steps (fun j => x j + t * v j) i)
      = fun t => pipeTransform steps x i + t * mulVec d (pipeJac steps) v i := by
    funext t
    rw [pipeTransform_increment steps d hwf x (fun j => t * v j) i hi, mulVec_smul]
  rw [hfun]
  simpa using ((hasDerivAt_id (0 : ℝ)).mul_const (mulVec d (pipeJac steps) v i)).const_add
    (pipeTransform steps x i)

/-- A concrete lossless pipeline: scaler, rotation (orthonormal 2 × 2), scaler. -/
def examplePipe : List (Step ℚ) :=
  [Step.affine 2 (fun i => if i = 0 then 2 else -3) (fun _ => 1),
   Step.linear 2 2 (fun _ => 1 / 2) (fun i j => if i = 0 ∧ j = 1 then 1 else if i = 1 ∧ j = 0 then -1 else 0),
   Step.affine 2 (fun _ => 1 / 4) (fun i => if i = 0 then 0 else 5)]

example : PipeWF examplePipe 2 ∧ AllLossless examplePipe := by
  refine ⟨⟨rfl, rfl, rfl, trivial⟩, ⟨?_, ?_, ?_, trivial⟩⟩
  · intro i _; by_cases h : i = 0 <;> simp [h]
  · refine ⟨rfl, ?_⟩
    intro j l hj hl
    interval_cases j <;> interval_cases l <;> simp [sumTo]
  · intro i _; norm_num

/-- Fitted `MinMaxScaler`/`StandardScaler` are lossless for every fitting data, constant features
    included (their coefficient never vanishes). -/
theorem fitted_scalers_are_lossless {K : Type} [Field K] [DecidableEq K] [LT K]
    [DecidableRel (α := K) (· < ·)] (n d : ℕ) (data : ℕ → ℕ → K) (std : Vec K) :
    (fitMinMax n d data).Lossless ∧ (fitStandard n d data std).Lossless :=
  ⟨fitMinMax_lossless n d data, fitStandard_lossless n d data std⟩

/-- What the fitted scalers do, branch by branch (documentation of the two classes). -/
theorem scaler_fit_semantics {K : Type} [Field K] [DecidableEq K] (a b x : K) :
    (b ≠ 0 → x * minMaxCoef a b + minMaxOff a b = (x - a) / b) ∧
    (a ≠ 0 → x * minMaxCoef a 0 + minMaxOff a 0 = x / a - half) ∧
    (x * minMaxCoef (0 : K) 0 + minMaxOff (0 : K) 0 = x + half) ∧
    (b ≠ 0 → x * standardCoef a b + standardOff a b = (x - a) / b) ∧
    (a ≠ 0 → x * standardCoef a 0 + standardOff a 0 = x / a - 1) ∧
    (x * standardCoef (0 : K) 0 + standardOff (0 : K) 0 = x) :=
  ⟨minMax_regular a b x, minMax_constant_nonzero a x, minMax_constant_zero x,
   standard_regular a b x, standard_constant_nonzero a x, standard_constant_zero x⟩

/-! ## 4. Regressors and the surrogate discipline -/

/-- **Chain rule of `BaseRegressor.predict_jacobian`**: for any input/output pipelines and any core
    model `g` with an exact Jacobian `Jg`, `J_{T_out⁻¹} · J_g(T_in x) · J_{T_in}` is the derivative of
    `predict = T_out⁻¹ ∘ g ∘ T_in` at `x` in every direction `v`. -/
theorem regressor_jacobian_chain_rule (tin tout : List (Step ℝ)) (d k m dout : ℕ)
    (hin : PipeWF tin d) (hk : pipeOutDim tin d = k)
    (hout : PipeWF tout dout) (hm : pipeOutDim tout dout = m)
    (g : Vec ℝ → Vec ℝ) (Jg : Vec ℝ → Mat ℝ) (hg : HasJac k m g Jg) (x v : Vec ℝ) :
    ∀ i, i < dout →
      HasDerivAt (fun t : ℝ => regPredict tin tout g (fun j => x j + t * v j) i)
        (mulVec d (regJac tin tout k m Jg x) v i) 0 :=
  GV.C18.regressor_jacobian_chain_rule tin tout d k m dout hin hk hout hm g Jg hg x v

/-- **Linear regression** with any transformers: `predict_jacobian` is the derivative of `predict`. -/
theorem linreg_jacobian_exact (tin tout : List (Step ℝ)) (d k m dout : ℕ)
    (hin : PipeWF tin d) (hk : pipeOutDim tin d = k)
    (hout : PipeWF tout dout) (hm : pipeOutDim tout dout = m)
    (W : Mat ℝ) (b : Vec ℝ) (x v : Vec ℝ) :
    ∀ i, i < dout →
      HasDerivAt (fun t : ℝ => regPredict tin tout (linPredict k W b) (fun j => x j + t * v j) i)
        (mulVec d (regJac tin tout k m (linJac W) x) v i) 0 :=
  GV.C18.regressor_jacobian_chain_rule tin tout d k m dout hin hk hout hm _ _ (linreg_jac k m W b) x v

/-- **Polynomial regression**: the derivative table of the code is the formal derivative
    `Σ_p coef_p · p_idx · z^(p − e_idx)` for every well-formed monomial table. -/
theorem polyreg_table_is_formal_derivative {K : Type} [Field K] (P k : ℕ) (pw : ℕ → ℕ → ℕ)
    (hT : TableOK P k pw) (coef : Mat K) (z : Vec K) (i idx : ℕ) (hidx : idx < k) :
    polyJac P k pw coef z i idx
      = sumTo P (fun p => coef i p * ((pw p idx : K) * mono k (dec (pw p) idx) z)) :=
  polyJac_eq_formal P k pw hT coef z i idx hidx

/-- **Polynomial regression** with any transformers: `predict_jacobian` is the derivative of `predict`. -/
theorem polyreg_jacobian_exact (tin tout : List (Step ℝ)) (d k m dout P : ℕ)
    (hin : PipeWF tin d) (hk : pipeOutDim tin d = k)
    (hout : PipeWF tout dout) (hm : pipeOutDim tout dout = m)
    (pw : ℕ → ℕ → ℕ) (hT : TableOK P k pw) (coef : Mat ℝ) (b : Vec ℝ) (x v : Vec ℝ) :
    ∀ i, i < dout →
      HasDerivAt
        (fun t : ℝ => regPredict tin tout (polyPredict P k pw coef b) (fun j => x j + t * v j) i)
        (mulVec d (regJac tin tout k m (polyJac P k pw coef) x) v i) 0 :=
  GV.C18.regressor_jacobian_chain_rule tin tout d k m dout hin hk hout hm _ _
    (polyreg_jac P k m pw hT coef b) x v

/-- The table of one variable, degree two (`x`, `x²`) is well formed. -/
example : TableOK 2 1 (fun p _ => p + 1) := by
  constructor
  · intro p q hp hq h
    have := h 0 (by norm_num)
    omega
  · intro p idx hp hidx _
    interval_cases idx
    interval_cases p
    · left; decide
    · right; exact ⟨0, by norm_num, by decide⟩

/-- **Interpolating kernel models reproduce their learning data** when the weights solve the
    interpolation system (`smooth = 0`). -/
theorem interpolating_reproduces_data {K : Type} [Field K] (n : ℕ) (κ : Vec K → Vec K → K)
    (centres : ℕ → Vec K) (w : ℕ → Vec K) (avg : Vec K) (y : ℕ → Vec K)
    (hfit : ∀ l i, l < n → sumTo n (fun k => κ (centres l) (centres k) * w k i) = y l i - avg i) :
    ∀ l i, l < n → kernelPredict n κ centres w avg (centres l) i = y l i :=
  GV.C18.interpolating_reproduces_data n κ centres w avg y hfit

/-- **Surrogate discipline**: the block of output variable `o` and input variable `i` returned by name
    is exactly the corresponding window of the model's Jacobian … -/
theorem surrogate_projects_model {K : Type} [Field K] (outSizes inSizes : List ℕ) (J : Mat K)
    (o i a b : ℕ) :
    splitBlock outSizes inSizes J o i a b = J (offsetOf outSizes o + a) (offsetOf inSizes i + b) :=
  rfl

/-- … and the windows tile the whole array: every index belongs to exactly one variable. -/
theorem surrogate_blocks_tile (sizes : List ℕ) (r : ℕ) (hr : r < offsetOf sizes sizes.length) :
    ∃ n a, ∃ hn : n < sizes.length, a < sizes[n] ∧ r = offsetOf sizes n + a :=
  locate sizes r hr

example : offsetOf [1, 2, 3] 3 = 6 ∧ offsetOf [1, 2, 3] 2 = 3 := by decide

end GV.C18.Claims
