/-
C18 — property theorems: surrogate models are consistent with their own predictions and data.

(partial: the fitting procedures — scikit-learn, SciPy's linear solve, OpenTURNS, clustering — are not
modelled; fitted parameters are universally quantified inputs of the theorems.)

1. `expr_diff_correct`            the symbolic differentiator is correct (+ − × ÷ √ exp log, powers).
2. `der_<k>_correct`              the formula of `RBFRegressor.RBFDerivatives.der_<k>` that the translator
                                  extracted from /repo (`Gen.der_<k>`, regenerated on every run) is the derivative
                                  of SciPy's kernel `φ_k` along a coordinate; `rbf_jacobian_<k>`: hence the sum
                                  assembled by `_predict_jacobian` is the partial derivative of `_predict`.
3. `pipeline_inverse`, `pipeline_jacobian_is_derivative`, `pipeline_inverse_jacobian_is_derivative`,
   `pipeline_jacobian_hasDerivAt`, fitted scalers (all branches) are lossless and do what is documented.
4. `regressor_jacobian_chain_rule`, `linreg_jacobian_exact`, `polyreg_table_is_formal_derivative`,
   `polyreg_jacobian_exact`, `interpolating_reproduces_data`, `surrogate_projects_model`,
   `surrogate_blocks_tile`.
5. One model object trained several times (`learn` again: other samples, new data, transformers refitted or
   kept): `retrained_state_is_last_training`, `queries_leave_no_trace`, `history_answers_from_current_state`,
   `retrained_jacobian_is_derivative`, `retrained_query_jacobian_is_derivative`.
6. Surrogate discipline created with explicit name lists (reordered inputs, any sub-list of the outputs):
   `surrogate_selected_outputs`, `surrogate_selected_blocks`, `surrogate_selection_tiles`.
7. Public formula switch of a trained mixture of experts (`MOERegressor.hard` assigned by the user after the
   training, both ways, any number of times, between queries): `moe_switch_is_last_assignment`,
   `moe_query_follows_switch_in_force`, `moe_hard_prediction_is_selected_local_model`,
   `moe_soft_prediction_is_weighted_mean`, `moe_switched_query_jacobian_is_derivative`,
   `moe_soft_offers_no_jacobian`.
-/
import GemseoVerif.Analysis.C18Rbf
import GemseoVerif.Lemmas.C18Poly
import GemseoVerif.Lemmas.C18Fit
import GemseoVerif.Lemmas.C18Sess
import GemseoVerif.Lemmas.C18Moe
import Mathlib.Tactic.NormNum
import Mathlib.Tactic.Positivity
import Mathlib.Tactic.Linarith
import Mathlib.Tactic.FieldSimp
import Mathlib.Tactic.IntervalCases

namespace GV.C18.Claims

open GV.C18

/-! ## 1. The verified symbolic differentiator -/

/-- For every expression, environment and point satisfying the side conditions (no vanishing
    divisor / argument of `√`, `log`; no comparison), `diff` is the derivative with respect to `var 0`. -/
theorem expr_diff_correct (ρ : ℕ → ℝ) (t : ℝ) (e : Expr) (h : e.ok (set0 ρ t)) :
    HasDerivAt (fun s => e.ev (set0 ρ s)) (e.diff.ev (set0 ρ t)) t :=
  Expr.diff_correct ρ t e h

/-- Non-vacuity: `x · exp(x) / √(x² + 1)` satisfies the side conditions at every point. -/
example (ρ : ℕ → ℝ) (t : ℝ) :
    (Expr.div (Expr.mul (Expr.var 0) (Expr.exp (Expr.var 0)))
      (Expr.sqrt (Expr.add (Expr.pow (Expr.var 0) 2) (Expr.const 1)))).ok (set0 ρ t) := by
  have h : (0 : ℝ) < t ^ 2 + 1 := by positivity
  simp only [Expr.ok, Expr.ev, set0_zero, true_and, and_true]
  push_cast
  exact ⟨h.ne', (Real.sqrt_pos.mpr h).ne'⟩

/-! ## 2. Kernel derivative formulas of /repo (translated on every run) -/

/-- `der_multiquadric` is the derivative of `√((r/ε)² + 1)`, `r = √((t−c)² + s)`, everywhere. -/
theorem der_multiquadric_correct (t c s eps : ℝ) (hs : 0 ≤ s) (heps : eps ≠ 0) :
    HasDerivAt (fun u => phiMultiquadric eps (Real.sqrt ((u - c) ^ 2 + s)))
      (Gen.der_multiquadric.ev (kenv (t - c) (Real.sqrt ((t - c) ^ 2 + s)) eps 0)) t :=
  der_multiquadric_slice t c s eps hs heps

/-- `der_inverse_multiquadric` is the derivative of `1/√((r/ε)² + 1)`, everywhere. -/
theorem der_inverse_multiquadric_correct (t c s eps : ℝ) (hs : 0 ≤ s) (heps : eps ≠ 0) :
    HasDerivAt (fun u => phiInverseMultiquadric eps (Real.sqrt ((u - c) ^ 2 + s)))
      (Gen.der_inverse_multiquadric.ev (kenv (t - c) (Real.sqrt ((t - c) ^ 2 + s)) eps 0)) t :=
  der_inverse_multiquadric_slice t c s eps hs heps

/-- `der_gaussian` is the derivative of `exp(−(r/ε)²)`, everywhere. -/
theorem der_gaussian_correct (t c s eps : ℝ) (hs : 0 ≤ s) (heps : eps ≠ 0) :
    HasDerivAt (fun u => phiGaussian eps (Real.sqrt ((u - c) ^ 2 + s)))
      (Gen.der_gaussian.ev (kenv (t - c) (Real.sqrt ((t - c) ^ 2 + s)) eps 0)) t :=
  der_gaussian_slice t c s eps hs heps

/-- `der_linear` is the derivative of `r` (SciPy does not scale `r` by `ε`), away from the centre. -/
theorem der_linear_correct (t c s eps : ℝ) (hs : 0 ≤ s) (hq : (t - c) ^ 2 + s ≠ 0) :
    HasDerivAt (fun u => phiLinear (Real.sqrt ((u - c) ^ 2 + s)))
      (Gen.der_linear.ev (kenv (t - c) (Real.sqrt ((t - c) ^ 2 + s)) eps 0)) t :=
  der_linear_slice t c s eps hs hq

/-- `der_cubic` is the derivative of `r³`, away from the centre. -/
theorem der_cubic_correct (t c s eps : ℝ) (hs : 0 ≤ s) (hq : (t - c) ^ 2 + s ≠ 0) :
    HasDerivAt (fun u => phiCubic (Real.sqrt ((u - c) ^ 2 + s)))
      (Gen.der_cubic.ev (kenv (t - c) (Real.sqrt ((t - c) ^ 2 + s)) eps 0)) t :=
  der_cubic_slice t c s eps hs hq

/-- `der_quintic` is the derivative of `r⁵`, away from the centre. -/
theorem der_quintic_correct (t c s eps : ℝ) (hs : 0 ≤ s) (hq : (t - c) ^ 2 + s ≠ 0) :
    HasDerivAt (fun u => phiQuintic (Real.sqrt ((u - c) ^ 2 + s)))
      (Gen.der_quintic.ev (kenv (t - c) (Real.sqrt ((t - c) ^ 2 + s)) eps 0)) t :=
  der_quintic_slice t c s eps hs hq

/-- `der_thin_plate` is the derivative of `r² log r`, away from the centre. -/
theorem der_thin_plate_correct (t c s eps : ℝ) (hs : 0 ≤ s) (hq : (t - c) ^ 2 + s ≠ 0) :
    HasDerivAt (fun u => phiThinPlate (Real.sqrt ((u - c) ^ 2 + s)))
      (Gen.der_thin_plate.ev (kenv (t - c) (Real.sqrt ((t - c) ^ 2 + s)) eps 0)) t :=
  der_thin_plate_slice t c s eps hs hq

/-- Non-vacuity of the hypotheses (a point off the centre, two other coordinates). -/
example : HasDerivAt (fun u => phiCubic (Real.sqrt ((u - 1) ^ 2 + 4)))
    (Gen.der_cubic.ev (kenv (3 - 1) (Real.sqrt ((3 - 1) ^ 2 + 4)) (1 / 2) 0)) 3 :=
  der_cubic_correct 3 1 4 (1 / 2) (by norm_num) (by norm_num)

/-- The kernel expressions used by the model to predict are SciPy's kernels. -/
theorem model_kernels_are_scipy_kernels (x r e τ : ℝ) :
    Phi.multiquadric.ev (kenv x r e τ) = phiMultiquadric e r ∧
    Phi.inverse_multiquadric.ev (kenv x r e τ) = phiInverseMultiquadric e r ∧
    Phi.gaussian.ev (kenv x r e τ) = phiGaussian e r ∧
    Phi.linear.ev (kenv x r e τ) = phiLinear r ∧
    Phi.cubic.ev (kenv x r e τ) = phiCubic r ∧
    Phi.quintic.ev (kenv x r e τ) = phiQuintic r ∧
    Phi.thin_plate.ev (kenv x r e τ) = phiThinPlate r :=
  ⟨phiExpr_multiquadric x r e τ, phiExpr_inverse_multiquadric x r e τ, phiExpr_gaussian x r e τ,
   phiExpr_linear x r e τ, phiExpr_cubic x r e τ, phiExpr_quintic x r e τ,
   phiExpr_thin_plate x r e τ⟩

/-! ### RBF networks: `_predict_jacobian` is the partial derivative of `_predict`

`n` centres in dimension `d`, weights `w k i` (SciPy's `nodes`), `avg` (`y_average`); column `j`. -/

theorem rbf_jacobian_multiquadric (eps : ℝ) (heps : eps ≠ 0) (n d : ℕ) (centres w : ℕ → Vec ℝ)
    (avg x : Vec ℝ) (i j : ℕ) (hj : j < d) :
    HasDerivAt
      (fun u => sumTo n (fun k =>
        w k i * phiMultiquadric eps (Real.sqrt (distSq d (upd x j u) (centres k)))) + avg i)
      (sumTo n (fun k => w k i * Gen.der_multiquadric.ev
        (kenv (x j - centres k j) (Real.sqrt (distSq d x (centres k))) eps 0))) (x j) :=
  rbf_partial_derivative (phiMultiquadric eps)
    (fun a r => Gen.der_multiquadric.ev (kenv a r eps 0)) (fun _ => True)
    (fun t c s hs _ => der_multiquadric_slice t c s eps hs heps) n d centres w avg x i j hj
    (fun _ _ => trivial)

theorem rbf_jacobian_inverse_multiquadric (eps : ℝ) (heps : eps ≠ 0) (n d : ℕ)
    (centres w : ℕ → Vec ℝ) (avg x : Vec ℝ) (i j : ℕ) (hj : j < d) :
    HasDerivAt
      (fun u => sumTo n (fun k =>
        w k i * phiInverseMultiquadric eps (Real.sqrt (distSq d (upd x j u) (centres k)))) + avg i)
      (sumTo n (fun k => w k i * Gen.der_inverse_multiquadric.ev
        (kenv (x j - centres k j) (Real.sqrt (distSq d x (centres k))) eps 0))) (x j) :=
  rbf_partial_derivative (phiInverseMultiquadric eps)
    (fun a r => Gen.der_inverse_multiquadric.ev (kenv a r eps 0)) (fun _ => True)
    (fun t c s hs _ => der_inverse_multiquadric_slice t c s eps hs heps) n d centres w avg x i j hj
    (fun _ _ => trivial)

theorem rbf_jacobian_gaussian (eps : ℝ) (heps : eps ≠ 0) (n d : ℕ) (centres w : ℕ → Vec ℝ)
    (avg x : Vec ℝ) (i j : ℕ) (hj : j < d) :
    HasDerivAt
      (fun u => sumTo n (fun k =>
        w k i * phiGaussian eps (Real.sqrt (distSq d (upd x j u) (centres k)))) + avg i)
      (sumTo n (fun k => w k i * Gen.der_gaussian.ev
        (kenv (x j - centres k j) (Real.sqrt (distSq d x (centres k))) eps 0))) (x j) :=
  rbf_partial_derivative (phiGaussian eps)
    (fun a r => Gen.der_gaussian.ev (kenv a r eps 0)) (fun _ => True)
    (fun t c s hs _ => der_gaussian_slice t c s eps hs heps) n d centres w avg x i j hj
    (fun _ _ => trivial)

theorem rbf_jacobian_linear (eps : ℝ) (n d : ℕ) (centres w : ℕ → Vec ℝ) (avg x : Vec ℝ)
    (i j : ℕ) (hj : j < d) (hoff : ∀ k, k < n → distSq d x (centres k) ≠ 0) :
    HasDerivAt
      (fun u => sumTo n (fun k =>
        w k i * phiLinear (Real.sqrt (distSq d (upd x j u) (centres k)))) + avg i)
      (sumTo n (fun k => w k i * Gen.der_linear.ev
        (kenv (x j - centres k j) (Real.sqrt (distSq d x (centres k))) eps 0))) (x j) :=
  rbf_partial_derivative phiLinear
    (fun a r => Gen.der_linear.ev (kenv a r eps 0)) (fun q => q ≠ 0)
    (fun t c s hs hq => der_linear_slice t c s eps hs hq) n d centres w avg x i j hj hoff

theorem rbf_jacobian_cubic (eps : ℝ) (n d : ℕ) (centres w : ℕ → Vec ℝ) (avg x : Vec ℝ)
    (i j : ℕ) (hj : j < d) (hoff : ∀ k, k < n → distSq d x (centres k) ≠ 0) :
    HasDerivAt
      (fun u => sumTo n (fun k =>
        w k i * phiCubic (Real.sqrt (distSq d (upd x j u) (centres k)))) + avg i)
      (sumTo n (fun k => w k i * Gen.der_cubic.ev
        (kenv (x j - centres k j) (Real.sqrt (distSq d x (centres k))) eps 0))) (x j) :=
  rbf_partial_derivative phiCubic
    (fun a r => Gen.der_cubic.ev (kenv a r eps 0)) (fun q => q ≠ 0)
    (fun t c s hs hq => der_cubic_slice t c s eps hs hq) n d centres w avg x i j hj hoff

theorem rbf_jacobian_quintic (eps : ℝ) (n d : ℕ) (centres w : ℕ → Vec ℝ) (avg x : Vec ℝ)
    (i j : ℕ) (hj : j < d) (hoff : ∀ k, k < n → distSq d x (centres k) ≠ 0) :
    HasDerivAt
      (fun u => sumTo n (fun k =>
        w k i * phiQuintic (Real.sqrt (distSq d (upd x j u) (centres k)))) + avg i)
      (sumTo n (fun k => w k i * Gen.der_quintic.ev
        (kenv (x j - centres k j) (Real.sqrt (distSq d x (centres k))) eps 0))) (x j) :=
  rbf_partial_derivative phiQuintic
    (fun a r => Gen.der_quintic.ev (kenv a r eps 0)) (fun q => q ≠ 0)
    (fun t c s hs hq => der_quintic_slice t c s eps hs hq) n d centres w avg x i j hj hoff

theorem rbf_jacobian_thin_plate (eps : ℝ) (n d : ℕ) (centres w : ℕ → Vec ℝ) (avg x : Vec ℝ)
    (i j : ℕ) (hj : j < d) (hoff : ∀ k, k < n → distSq d x (centres k) ≠ 0) :
    HasDerivAt
      (fun u => sumTo n (fun k =>
        w k i * phiThinPlate (Real.sqrt (distSq d (upd x j u) (centres k)))) + avg i)
      (sumTo n (fun k => w k i * Gen.der_thin_plate.ev
        (kenv (x j - centres k j) (Real.sqrt (distSq d x (centres k))) eps 0))) (x j) :=
  rbf_partial_derivative phiThinPlate
    (fun a r => Gen.der_thin_plate.ev (kenv a r eps 0)) (fun q => q ≠ 0)
    (fun t c s hs hq => der_thin_plate_slice t c s eps hs hq) n d centres w avg x i j hj hoff

/-! ## 3. Transformers -/

/-- **Lossless pipelines**: scalers with non-zero coefficients, full-rank orthonormal linear
    reductions and any pipeline of them: `inverse_transform (transform x) = x`. -/
theorem pipeline_inverse {K : Type} [Field K] (steps : List (Step K)) (d : ℕ) (x : Vec K)
    (hwf : PipeWF steps d) (hl : AllLossless steps) :
    ∀ i, i < d → pipeInverse steps (pipeTransform steps x) i = x i :=
  pipe_inverse_transform steps d x hwf hl

/-- **`compute_jacobian` is the derivative of `transform`**: the product accumulated in code order
    is the exact increment of the composed map (over any field). -/
theorem pipeline_jacobian_is_derivative {K : Type} [Field K] (steps : List (Step K)) (d : ℕ)
    (hwf : PipeWF steps d) (x h : Vec K) :
    ∀ i, i < pipeOutDim steps d →
      pipeTransform steps (fun j => x j + h j) i
        = pipeTransform steps x i + mulVec d (pipeJac steps) h i :=
  pipeTransform_increment steps d hwf x h

/-- **`compute_jacobian_inverse` is the derivative of `inverse_transform`.** -/
theorem pipeline_inverse_jacobian_is_derivative {K : Type} [Field K] (steps : List (Step K))
    (d : ℕ) (hwf : PipeWF steps d) (y h : Vec K) :
    ∀ i, i < d →
      pipeInverse steps (fun j => y j + h j) i
        = pipeInverse steps y i + mulVec (pipeOutDim steps d) (pipeJacInv steps) h i :=
  pipeInverse_increment steps d hwf y h

/-- The same over ℝ as a derivative in every direction `v`. -/
theorem pipeline_jacobian_hasDerivAt (steps : List (Step ℝ)) (d : ℕ) (hwf : PipeWF steps d)
    (x v : Vec ℝ) (i : ℕ) (hi : i < pipeOutDim steps d) :
    HasDerivAt (fun t : ℝ => pipeTransform steps (fun j => x j + t * v j) i)
      (mulVec d (pipeJac steps) v i) 0 := by
  have hfun : (fun t : ℝ => pipeTransform steps (fun j => x j + t * v j) i)
      = fun t => pipeTransform steps x i + t * mulVec d (pipeJac steps) v i := by
    funext t
    rw [pipeTransform_increment steps d hwf x (fun j => t * v j) i hi, mulVec_smul]
  rw [hfun]
  simpa using ((hasDerivAt_id (0 : ℝ)).mul_const (mulVec d (pipeJac steps) v i)).const_add
    (pipeTransform steps x i)

/-- A concrete lossless pipeline: scaler, rotation (orthonormal 2 × 2), scaler. -/
def examplePipe : List (Step ℚ) :=
  [Step.affine 2 (fun i => if i = 0 then 2 else -3) (fun _ => 1),
   Step.linear 2 2 (fun _ => 1 / 2) (fun i j => if i = 0 ∧ j = 1 then 1 else if i = 1 ∧ j = 0 then -1 else 0),
   Step.affine 2 (fun _ => 1 / 4) (fun i => if i = 0 then 0 else 5)]

example : PipeWF examplePipe 2 ∧ AllLossless examplePipe := by
  refine ⟨⟨rfl, rfl, rfl, trivial⟩, ⟨?_, ?_, ?_, trivial⟩⟩
  · intro i _; by_cases h : i = 0 <;> simp [h]
  · refine ⟨rfl, ?_⟩
    intro j l hj hl
    interval_cases j <;> interval_cases l <;> simp [sumTo]
  · intro i _; norm_num

/-- Fitted `MinMaxScaler`/`StandardScaler` are lossless for every fitting data, constant features
    included (their coefficient never vanishes). -/
theorem fitted_scalers_are_lossless {K : Type} [Field K] [DecidableEq K] [LT K]
    [DecidableRel (α := K) (· < ·)] (n d : ℕ) (data : ℕ → ℕ → K) (std : Vec K) :
    (fitMinMax n d data).Lossless ∧ (fitStandard n d data std).Lossless :=
  ⟨fitMinMax_lossless n d data, fitStandard_lossless n d data std⟩

/-- What the fitted scalers do, branch by branch (documentation of the two classes). -/
theorem scaler_fit_semantics {K : Type} [Field K] [DecidableEq K] (a b x : K) :
    (b ≠ 0 → x * minMaxCoef a b + minMaxOff a b = (x - a) / b) ∧
    (a ≠ 0 → x * minMaxCoef a 0 + minMaxOff a 0 = x / a - half) ∧
    (x * minMaxCoef (0 : K) 0 + minMaxOff (0 : K) 0 = x + half) ∧
    (b ≠ 0 → x * standardCoef a b + standardOff a b = (x - a) / b) ∧
    (a ≠ 0 → x * standardCoef a 0 + standardOff a 0 = x / a - 1) ∧
    (x * standardCoef (0 : K) 0 + standardOff (0 : K) 0 = x) :=
  ⟨minMax_regular a b x, minMax_constant_nonzero a x, minMax_constant_zero x,
   standard_regular a b x, standard_constant_nonzero a x, standard_constant_zero x⟩

/-! ## 4. Regressors and the surrogate discipline -/

/-- **Chain rule of `BaseRegressor.predict_jacobian`**: for any input/output pipelines and any core
    model `g` with an exact Jacobian `Jg`, `J_{T_out⁻¹} · J_g(T_in x) · J_{T_in}` is the derivative of
    `predict = T_out⁻¹ ∘ g ∘ T_in` at `x` in every direction `v`. -/
theorem regressor_jacobian_chain_rule (tin tout : List (Step ℝ)) (d k m dout : ℕ)
    (hin : PipeWF tin d) (hk : pipeOutDim tin d = k)
    (hout : PipeWF tout dout) (hm : pipeOutDim tout dout = m)
    (g : Vec ℝ → Vec ℝ) (Jg : Vec ℝ → Mat ℝ) (hg : HasJac k m g Jg) (x v : Vec ℝ) :
    ∀ i, i < dout →
      HasDerivAt (fun t : ℝ => regPredict tin tout g (fun j => x j + t * v j) i)
        (mulVec d (regJac tin tout k m Jg x) v i) 0 :=
  GV.C18.regressor_jacobian_chain_rule tin tout d k m dout hin hk hout hm g Jg hg x v

/-- **Linear regression** with any transformers: `predict_jacobian` is the derivative of `predict`. -/
theorem linreg_jacobian_exact (tin tout : List (Step ℝ)) (d k m dout : ℕ)
    (hin : PipeWF tin d) (hk : pipeOutDim tin d = k)
    (hout : PipeWF tout dout) (hm : pipeOutDim tout dout = m)
    (W : Mat ℝ) (b : Vec ℝ) (x v : Vec ℝ) :
    ∀ i, i < dout →
      HasDerivAt (fun t : ℝ => regPredict tin tout (linPredict k W b) (fun j => x j + t * v j) i)
        (mulVec d (regJac tin tout k m (linJac W) x) v i) 0 :=
  GV.C18.regressor_jacobian_chain_rule tin tout d k m dout hin hk hout hm _ _ (linreg_jac k m W b) x v

/-- **Polynomial regression**: the derivative table of the code is the formal derivative
    `Σ_p coef_p · p_idx · z^(p − e_idx)` for every well-formed monomial table. -/
theorem polyreg_table_is_formal_derivative {K : Type} [Field K] (P k : ℕ) (pw : ℕ → ℕ → ℕ)
    (hT : TableOK P k pw) (coef : Mat K) (z : Vec K) (i idx : ℕ) (hidx : idx < k) :
    polyJac P k pw coef z i idx
      = sumTo P (fun p => coef i p * ((pw p idx : K) * mono k (dec (pw p) idx) z)) :=
  polyJac_eq_formal P k pw hT coef z i idx hidx

/-- **Polynomial regression** with any transformers: `predict_jacobian` is the derivative of `predict`. -/
theorem polyreg_jacobian_exact (tin tout : List (Step ℝ)) (d k m dout P : ℕ)
    (hin : PipeWF tin d) (hk : pipeOutDim tin d = k)
    (hout : PipeWF tout dout) (hm : pipeOutDim tout dout = m)
    (pw : ℕ → ℕ → ℕ) (hT : TableOK P k pw) (coef : Mat ℝ) (b : Vec ℝ) (x v : Vec ℝ) :
    ∀ i, i < dout →
      HasDerivAt
        (fun t : ℝ => regPredict tin tout (polyPredict P k pw coef b) (fun j => x j + t * v j) i)
        (mulVec d (regJac tin tout k m (polyJac P k pw coef) x) v i) 0 :=
  GV.C18.regressor_jacobian_chain_rule tin tout d k m dout hin hk hout hm _ _
    (polyreg_jac P k m pw hT coef b) x v

/- Non-vacuity of `TableOK`: `tableOK_one_variable_degree_two` (section 5): the table of one variable,
   degree two (`x`, `x²`) is well formed. -/

/-- **Interpolating kernel models reproduce their learning data** when the weights solve the
    interpolation system (`smooth = 0`). -/
theorem interpolating_reproduces_data {K : Type} [Field K] (n : ℕ) (κ : Vec K → Vec K → K)
    (centres : ℕ → Vec K) (w : ℕ → Vec K) (avg : Vec K) (y : ℕ → Vec K)
    (hfit : ∀ l i, l < n → sumTo n (fun k => κ (centres l) (centres k) * w k i) = y l i - avg i) :
    ∀ l i, l < n → kernelPredict n κ centres w avg (centres l) i = y l i :=
  GV.C18.interpolating_reproduces_data n κ centres w avg y hfit

/-- **Surrogate discipline**: the block of output variable `o` and input variable `i` returned by name
    is exactly the corresponding window of the model's Jacobian … -/
theorem surrogate_projects_model {K : Type} [Field K] (outSizes inSizes : List ℕ) (J : Mat K)
    (o i a b : ℕ) :
    splitBlock outSizes inSizes J o i a b = J (offsetOf outSizes o + a) (offsetOf inSizes i + b) :=
  rfl

/-- … and the windows tile the whole array: every index belongs to exactly one variable. -/
theorem surrogate_blocks_tile (sizes : List ℕ) (r : ℕ) (hr : r < offsetOf sizes sizes.length) :
    ∃ n a, ∃ hn : n < sizes.length, a < sizes[n] ∧ r = offsetOf sizes n + a :=
  locate sizes r hr

example : offsetOf [1, 2, 3] 3 = 6 ∧ offsetOf [1, 2, 3] 2 = 3 := by decide

/-! ## 5. The same model object trained several times

`Sess` is what the object remembers (fitted transformers, core parameters), `SOp.learn` a call to
`learn(samples, fit_transformers)` with what this training fits, `SOp.query` a call to `predict` /
`predict_jacobian`. All histories, all sizes. -/

/-- **The state in force is the one left by the last training**: after any history `pre`, a training and
    any number of queries, the core parameters are those of that training and the transformers are those
    of that training if it refitted them (`fit_transformers`), the previous ones otherwise. Nothing computed
    for an earlier state (a Jacobian table, a prediction) is part of the state. -/
theorem retrained_state_is_last_training (d dout : ℕ) (s : Sess ℝ) (pre qs : List (SOp ℝ)) (ft : Bool)
    (tin tout : List (Step ℝ)) (core : Core ℝ) (hq : ∀ op ∈ qs, SOp.isQuery op) :
    Sess.run d dout s (pre ++ SOp.learn ft tin tout core :: qs)
      = { trained := true
          tin := if ft then tin else (Sess.run d dout s pre).tin
          tout := if ft then tout else (Sess.run d dout s pre).tout
          core := core } :=
  run_last_training d dout s pre qs ft tin tout core hq

/-- Queries leave no trace in the state. -/
theorem queries_leave_no_trace (d dout : ℕ) (s : Sess ℝ) (qs : List (SOp ℝ))
    (hq : ∀ op ∈ qs, SOp.isQuery op) : Sess.run d dout s qs = s :=
  run_queries d dout qs hq s

/-- Operation `n` of a history is answered by the state reached by the first `n` operations. -/
theorem history_answers_from_current_state (d dout : ℕ) (s : Sess ℝ) (ops : List (SOp ℝ)) (n : ℕ)
    (hn : n < ops.length) :
    (Sess.answers d dout s ops)[n]? =
      some (Sess.step d dout (Sess.run d dout s (ops.take n)) ops[n]).2 :=
  answers_spec d dout ops s n hn

/-- **After any well-formed history of trainings and queries, `predict_jacobian` of the object is the
    derivative of `predict` of the object** (linear and polynomial cores, any pipelines of scalers and
    linear reductions on both sides, transformers refitted or kept at each training). -/
theorem retrained_jacobian_is_derivative (d dout : ℕ) (s0 : Sess ℝ) (h0 : SessInv d dout s0)
    (ops : List (SOp ℝ)) (hh : HistoryWF d dout s0 ops)
    (ht : (Sess.run d dout s0 ops).trained = true) (x v : Vec ℝ) (i : ℕ) (hi : i < dout) :
    HasDerivAt (fun t : ℝ => (Sess.run d dout s0 ops).predict d (fun j => x j + t * v j) i)
      (mulVec d ((Sess.run d dout s0 ops).jacobian d dout x) v i) 0 :=
  sess_jacobian_hasDerivAt d dout _ (run_inv d dout ops s0 h0 hh ht) x v i hi

/-- The same for the answers: a query at position `n` of a well-formed history, asked to a trained
    object, returns `(p, J)` where `p` is the prediction of the state reached by the first `n` operations
    and `J` is the derivative of the prediction function of that state at the query point. -/
theorem retrained_query_jacobian_is_derivative (d dout : ℕ) (s0 : Sess ℝ) (h0 : SessInv d dout s0)
    (ops : List (SOp ℝ)) (hh : HistoryWF d dout s0 ops) (n : ℕ) (hn : n < ops.length) (x : Vec ℝ)
    (hq : ops[n] = SOp.query x) (ht : (Sess.run d dout s0 (ops.take n)).trained = true) :
    ∃ p J, (Sess.answers d dout s0 ops)[n]? = some (some (p, J)) ∧
      p = (Sess.run d dout s0 (ops.take n)).predict d x ∧
      ∀ (v : Vec ℝ) (i : ℕ), i < dout →
        HasDerivAt
          (fun t : ℝ => (Sess.run d dout s0 (ops.take n)).predict d (fun j => x j + t * v j) i)
          (mulVec d J v i) 0 := by
  refine ⟨(Sess.run d dout s0 (ops.take n)).predict d x,
    (Sess.run d dout s0 (ops.take n)).jacobian d dout x, ?_, rfl, ?_⟩
  · rw [answers_spec d dout ops s0 n hn, hq]
    rfl
  · intro v i hi
    exact retrained_jacobian_is_derivative d dout s0 h0 (ops.take n)
      (historyWF_take d dout s0 ops n hh) ht x v i hi

/-- The untrained object satisfies the invariant. -/
noncomputable def untrained : Sess ℝ :=
  { trained := false, tin := [], tout := [], core := Core.lin (fun _ _ => 0) (fun _ => 0) }

example : SessInv 1 1 untrained := by intro h; simp [untrained] at h

theorem tableOK_one_variable_degree_two : TableOK 2 1 (fun p _ => p + 1) := by
  constructor
  · intro p q hp hq h
    have := h 0 (by norm_num)
    omega
  · intro p idx hp hidx _
    interval_cases idx
    interval_cases p
    · left; decide
    · right; exact ⟨0, by norm_num, by decide⟩

/-- Non-vacuity: a polynomial model with a scaler on the inputs is trained, queried, trained again with
    other coefficients while keeping its transformers, queried, then trained as refitted: a well-formed
    history whose final state is trained. -/
noncomputable def exampleHistory : List (SOp ℝ) :=
  [SOp.learn true [Step.affine 1 (fun _ => 2) (fun _ => 1)] []
     (Core.poly 2 (fun p _ => p + 1) (fun _ p => if p = 0 then 3 else 1 / 2) (fun _ => 1)),
   SOp.query (fun _ => 1),
   SOp.learn false [] []
     (Core.poly 2 (fun p _ => p + 1) (fun _ p => if p = 0 then -1 else 4) (fun _ => 0)),
   SOp.query (fun _ => 1),
   SOp.learn true [] [Step.affine 1 (fun _ => 3) (fun _ => 0)] (Core.lin (fun _ _ => 5) (fun _ => 7)),
   SOp.query (fun _ => 2)]

example : HistoryWF 1 1 untrained exampleHistory ∧
    (Sess.run 1 1 untrained exampleHistory).trained = true := by
  refine ⟨⟨?_, trivial, ?_, trivial, ?_, trivial, trivial⟩, rfl⟩
  · refine ⟨fun _ => ⟨⟨rfl, trivial⟩, trivial⟩, fun h => by simp at h, ?_⟩
    exact tableOK_one_variable_degree_two
  · refine ⟨fun h => by simp at h, fun _ => rfl, ?_⟩
    exact tableOK_one_variable_degree_two
  · exact ⟨fun _ => ⟨trivial, ⟨rfl, trivial⟩⟩, fun h => by simp at h, trivial⟩

/-! ## 6. Surrogate discipline created with explicit name lists

`selOut`, `selIn`: the requested names as positions in `model.output_names` / `model.input_names`
(any list: sub-lists, reorderings). -/

/-- **Outputs by requested names**: the array of the outputs of the discipline, in the order of its
    output grammar, holds for the `n`-th requested variable the window of the model's prediction at the
    MODEL's offset of that variable (not at the offset the variable has among the requested ones). -/
theorem surrogate_selected_outputs {K : Type} [Field K] (outSizes : List ℕ) (v : Vec K)
    (selOut : List ℕ) (n a : ℕ) (hn : n < selOut.length)
    (ha : a < outSizes.getD (selOut.getD n 0) 0) :
    concatSel outSizes v selOut (offsetOf (selSizes outSizes selOut) n + a)
      = v (offsetOf outSizes (selOut.getD n 0) + a) :=
  concatSel_spec outSizes v selOut n a hn ha

/-- **Jacobian blocks by requested names**: the block of the `n`-th requested output and the `m`-th
    requested input is the window of the model's Jacobian at the model's offsets of the two variables. -/
theorem surrogate_selected_blocks {K : Type} [Field K] (outSizes inSizes : List ℕ) (J : Mat K)
    (selOut selIn : List ℕ) (n m a b : ℕ) :
    surBlock outSizes inSizes J selOut selIn n m a b
      = J (offsetOf outSizes (selOut.getD n 0) + a) (offsetOf inSizes (selIn.getD m 0) + b) :=
  rfl

/-- Every component of the output array of the discipline is a component of exactly one requested
    variable, taken from the model's prediction at the model's offset of this variable. -/
theorem surrogate_selection_tiles {K : Type} [Field K] (outSizes : List ℕ) (v : Vec K)
    (selOut : List ℕ) (r : ℕ)
    (hr : r < offsetOf (selSizes outSizes selOut) (selSizes outSizes selOut).length) :
    ∃ n a, n < selOut.length ∧ a < outSizes.getD (selOut.getD n 0) 0 ∧
      concatSel outSizes v selOut r = v (offsetOf outSizes (selOut.getD n 0) + a) := by
  obtain ⟨n, a, hn, ha, hra⟩ := locate (selSizes outSizes selOut) r hr
  have hn' : n < selOut.length := by simpa [selSizes] using hn
  have hsz : (selSizes outSizes selOut)[n] = outSizes.getD (selOut.getD n 0) 0 := by
    simp [selSizes, List.getD_eq_getElem?_getD, hn']
  refine ⟨n, a, hn', hsz ▸ ha, ?_⟩
  rw [hra]
  exact concatSel_spec outSizes v selOut n a hn' (hsz ▸ ha)

/-- Non-vacuity, and why the offsets must be the model's: outputs of sizes 1, 2, 1 and the second one
    requested alone: the discipline returns entries 1 and 2 of the prediction (splitting the prediction
    by the requested names alone would return entries 0 and 1). -/
example : concatSel [1, 2, 1] (fun i => (i : ℚ)) [1] 0 = 1 ∧
    concatSel [1, 2, 1] (fun i => (i : ℚ)) [1] 1 = 2 ∧
    concatSel [1, 2, 1] (fun i => (i : ℚ)) [2, 0] 0 = 3 ∧
    concatSel [1, 2, 1] (fun i => (i : ℚ)) [2, 0] 1 = 0 := by
  refine ⟨?_, ?_, ?_, ?_⟩ <;> norm_num [concatSel, offsetOf]

/-! ## 7. A public switch of the trained object selects the formula (`MOERegressor.hard`)

The user may assign the documented public attribute `hard` of a trained mixture of experts at any time
(soft → hard to obtain derivatives, hard → soft, repeatedly, between queries). `MOp.setHard b` is such an
assignment, `MOp.query x` asks `predict(x)` and `predict_jacobian(x)`. The classifier and the local models
are arbitrary (their fits are not modelled); the local models are only required to have exact Jacobians
(established above for linear and polynomial regressors under any pipelines). -/

/-- **The switch holds the last value assigned and nothing else changes**, whatever the history. -/
theorem moe_switch_is_last_assignment (d dout : ℕ) (m : Moe ℝ) (ops : List (MOp ℝ)) :
    Moe.run d dout m ops = { m with hard := Moe.lastHard m.hard ops } :=
  moe_run_eq d dout ops m

/-- **Prediction and Jacobian follow the SAME value of the switch: the one in force at the query.**
    Operation `n` of any history, if it is a query, is answered by `predict` and `predict_jacobian` of one
    and the same state: the trained object with the last value assigned to `hard` before the query (the
    constructor's value if there was no assignment). -/
theorem moe_query_follows_switch_in_force (d dout : ℕ) (m : Moe ℝ) (ops : List (MOp ℝ)) (n : ℕ)
    (hn : n < ops.length) (x : Vec ℝ) (hq : ops[n] = MOp.query x) :
    (Moe.answers d dout m ops)[n]? =
      some (some ((m.stateAt ops n).predict x, (m.stateAt ops n).jacobian d dout x)) ∧
    (m.stateAt ops n).hard = Moe.lastHard m.hard (ops.take n) := by
  refine ⟨?_, rfl⟩
  rw [List.getElem?_eq_getElem (by rw [moe_answers_length]; exact hn)]
  exact congrArg some (moe_query_answer d dout m ops n hn x hq)

/-- **Hard formula**: the prediction is the prediction of the local model of the predicted class
    (`predict_local_model(x, predict_class(x))`), behind the transformers of the mixture. -/
theorem moe_hard_prediction_is_selected_local_model (m : Moe ℝ) (hh : m.hard = true) (x : Vec ℝ)
    (hc : m.cls (pipeTransform m.tin x) < m.K) :
    m.predict x = regPredict m.tin m.tout (m.expert (m.cls (pipeTransform m.tin x))) x := by
  unfold Moe.predict regPredict
  rw [moe_hard_corePredict m hh _ hc]

/-- **Soft formula**: the mean of the local predictions weighted by the class probabilities. -/
theorem moe_soft_prediction_is_weighted_mean (m : Moe ℝ) (hh : m.hard = false) (x : Vec ℝ) :
    m.predict x = pipeInverse m.tout (fun i =>
      sumTo m.K (fun c => m.proba (pipeTransform m.tin x) c * m.expert c (pipeTransform m.tin x) i)) := by
  unfold Moe.predict regPredict
  congr 1
  funext i
  exact moe_soft_corePredict m hh _ i

/-- **After any history of assignments and queries, a query answered with the hard formula in force
    returns a Jacobian that is the derivative of the prediction function in force** (the one that
    answers `predict` at that moment), in every direction, at every point where the predicted class is
    locally constant (a hard mixture is discontinuous across the class boundaries). -/
theorem moe_switched_query_jacobian_is_derivative (d dout : ℕ) (m : Moe ℝ) (hwf : MoeWF d dout m)
    (ops : List (MOp ℝ)) (n : ℕ) (hn : n < ops.length) (x : Vec ℝ) (hq : ops[n] = MOp.query x)
    (hh : Moe.lastHard m.hard (ops.take n) = true)
    (hloc : ClassLocallyConstant m (pipeTransform m.tin x)) :
    ∃ p J, (Moe.answers d dout m ops)[n]? = some (some (p, some J)) ∧
      p = (m.stateAt ops n).predict x ∧
      ∀ (v : Vec ℝ) (i : ℕ), i < dout →
        HasDerivAt (fun t : ℝ => (m.stateAt ops n).predict (fun j => x j + t * v j) i)
          (mulVec d J v i) 0 := by
  have hloc' : ClassLocallyConstant (m.stateAt ops n) (pipeTransform (m.stateAt ops n).tin x) := hloc
  obtain ⟨J, hJ, _⟩ := moe_hard_jacobian_hasDerivAt d dout (m.stateAt ops n) (hwf.stateAt ops n) hh x
    (fun _ => 0) hloc'
  refine ⟨(m.stateAt ops n).predict x, J, ?_, rfl, ?_⟩
  · rw [(moe_query_follows_switch_in_force d dout m ops n hn x hq).1, hJ]
  · intro v i hi
    obtain ⟨J', hJ', hd⟩ := moe_hard_jacobian_hasDerivAt d dout (m.stateAt ops n) (hwf.stateAt ops n)
      hh x v hloc'
    have : J' = J := Option.some.inj (hJ'.symm.trans hJ)
    exact this ▸ hd i hi

/-- With the soft formula in force no Jacobian is offered (`NotImplementedError`), whatever the value the
    object was constructed with. -/
theorem moe_soft_offers_no_jacobian (d dout : ℕ) (m : Moe ℝ) (ops : List (MOp ℝ)) (n : ℕ)
    (hn : n < ops.length) (x : Vec ℝ) (hq : ops[n] = MOp.query x)
    (hh : Moe.lastHard m.hard (ops.take n) = false) :
    (Moe.answers d dout m ops)[n]? = some (some ((m.stateAt ops n).predict x, none)) := by
  rw [(moe_query_follows_switch_in_force d dout m ops n hn x hq).1]
  have : (m.stateAt ops n).jacobian d dout x = none := by
    unfold Moe.jacobian
    have h2 : (m.stateAt ops n).hard = false := hh
    rw [h2]
    rfl
  rw [this]

/-- Non-vacuity: one input, one output, two linear local models (`2 z + 1`, `-3 z + 5`), classes split at
    `z = 0`, neighbours' votes `1/3 : 2/3`, constructed with the SOFT formula. -/
noncomputable def exampleMoe : Moe ℝ :=
  { tin := [], tout := [], K := 2
    expert := fun c => linPredict 1 (fun _ _ => if c = 0 then 2 else -3) (fun _ => if c = 0 then 1 else 5)
    expertJac := fun c => linJac (fun _ _ => if c = 0 then 2 else -3)
    cls := fun z => if z 0 < 0 then 0 else 1
    proba := fun _ c => if c = 0 then 1 / 3 else 2 / 3
    hard := false }

/-- queried (soft), switched to hard, queried, switched back, queried -/
noncomputable def exampleSwitches : List (MOp ℝ) :=
  [MOp.query (fun _ => 1), MOp.setHard true, MOp.query (fun _ => 1), MOp.setHard false,
   MOp.query (fun _ => 1)]

example : MoeWF 1 1 exampleMoe := by
  refine ⟨trivial, trivial, ?_, ?_, ?_⟩
  · intro u v h
    have h0 : u 0 = v 0 := h 0 (by decide)
    simp [exampleMoe, h0]
  · intro z
    show (if z 0 < 0 then 0 else 1) < 2
    split <;> decide
  · intro c _
    exact linreg_jac 1 1 _ _

example : ClassLocallyConstant exampleMoe (fun _ => 1) := by
  intro w
  have hpos : 0 < 1 + |w 0| := by positivity
  refine ⟨1 / (1 + |w 0|), by positivity, fun t ht => ?_⟩
  have h1 : |t * w 0| < 1 := by
    rw [abs_mul]
    calc |t| * |w 0| ≤ |t| * (1 + |w 0|) := by nlinarith [abs_nonneg t, abs_nonneg (w 0)]
      _ < 1 / (1 + |w 0|) * (1 + |w 0|) := mul_lt_mul_of_pos_right ht hpos
      _ = 1 := by field_simp
  have h2 : ¬ ((1 : ℝ) + t * w 0 < 0) := by
    have := (abs_lt.mp h1).1
    intro h
    linarith
  have h3 : ¬ ((1 : ℝ) < 0) := by norm_num
  simp [exampleMoe, h2, h3]

example : Moe.lastHard exampleMoe.hard (exampleSwitches.take 0) = false ∧
    Moe.lastHard exampleMoe.hard (exampleSwitches.take 2) = true ∧
    Moe.lastHard exampleMoe.hard (exampleSwitches.take 4) = false := ⟨rfl, rfl, rfl⟩

/-- …and the switch matters there: the soft prediction at `x = 1` is `(1/3)·3 + (2/3)·2 = 7/3`, the hard
    one is the second local model's `2`. -/
example : exampleMoe.predict (fun _ => 1) 0 = 7 / 3 ∧
    ({ exampleMoe with hard := true } : Moe ℝ).predict (fun _ => 1) 0 = 2 := by
  constructor <;>
    norm_num [Moe.predict, regPredict, pipeInverse, pipeTransform, Moe.corePredict, Moe.weights, exampleMoe,
      sumTo, linPredict]

end GV.C18.Claims
