/-
C12 — property theorems: a run with a history backup that dies inside a discipline execution
leaves a file that reads back to a prefix of the uninterrupted run's history, and a restart from
that file does no rework, keeps the loaded entries, reports an optimum at least as good as the best
loaded one and — for an algorithm that is a function of what it observes — ends with the history
of the uninterrupted run.

Setting (see `Model/C12.lean`): `H` is the hash of the pending buffer (injective: C11's
hypothesis), `cfg` the backup mode (each function call and/or each iteration), `val` the original
callables (arbitrary), `s0` any state satisfying the invariant — the fresh state (`inv_fresh`), or a
state obtained by loading a file left by an earlier run or an earlier crash (`restart_loads_snapshot`
re-establishes the invariant, so chains of crashes and restarts are covered).  The uninterrupted run
issues the requests `done ++ rest`; the process dies inside the evaluation of the first request of
`rest`, i.e. in the state `runSt … s0 done` ("nothing of that call is stored"; `crash_state_is_prefix_state`
relates this to the truncation of the event trace inside its k-th `Call`).  Every theorem is for every
`done` and `rest`: every crash point of every run.
Only property theorems and non-vacuity examples live here; lemmas are in `Lemmas/C12*.lean`.
-/
import GemseoVerif.Lemmas.C12
import GemseoVerif.Lemmas.C12Replay
import GemseoVerif.Lemmas.C12Opt
import GemseoVerif.Lemmas.C12Trace

namespace GV.C12
open GV.C11

variable {κ : Type} [DecidableEq κ] (H : Pt → κ) (cfg : Cfg) (val : String → Pt → Val)

/-- The fresh state (new problem, no backup file) satisfies the invariant. -/
theorem inv_fresh : Inv H cfg (St.init : St κ) := inv_init' H cfg

/-- The invariant holds after any sequence of requests: at every crash point. -/
theorem inv_reachable (hinj : Function.Injective H) (s0 : St κ) (h0 : Inv H cfg s0) (done : List Req) :
    Inv H cfg (runSt H cfg val s0 done) := inv_run H cfg val hinj s0 h0 done

/-- **backup_is_snapshot.** At every crash point the backup file can be read, no export has
    raised, and the file reads back to the database snapshot taken at the last backup notification:
    same points in the same order, same output names, same values. -/
theorem backup_is_snapshot (hinj : Function.Injective H) (s0 : St κ) (h0 : Inv H cfg s0)
    (done : List Req) :
    ∃ d, readFile (runSt H cfg val s0 done).h.file = some d ∧
      DbEq d (runSt H cfg val s0 done).snap ∧ (runSt H cfg val s0 done).ok = true := by
  have hs := (inv_run H cfg val hinj s0 h0 done).base
  obtain ⟨d, hd, hrest⟩ := readFile_complete _ hs.snapWF _ hs.fileSnap hs.fileComplete
  exact ⟨d, hd, by first | exact hrest | exact hrest.1, hs.ok⟩

/-- **snapshot_is_prefix.** That snapshot is a prefix of the final database of the uninterrupted
    run: its points are the first points of the final history, in the same order, and every output
    it holds is in the final history with the same value. -/
theorem snapshot_is_prefix (hinj : Function.Injective H) (s0 : St κ) (h0 : Inv H cfg s0)
    (done rest : List Req) :
    DbLe (runSt H cfg val s0 done).snap (runSt H cfg val s0 (done ++ rest)).h.db := by
  have hs := (inv_run H cfg val hinj s0 h0 done).base
  rw [runSt_append]
  split
  · exact hs.snapLe
  · exact hs.snapLe.trans (run_dbLe H cfg val _ rest)

/-- **In function-call mode the snapshot is exactly the evaluations completed before the crash**
    (the whole database of the dying process). -/
theorem snapshot_is_completed_evaluations (hinj : Function.Injective H) (s0 : St κ)
    (h0 : Inv H cfg s0) (hc : cfg.eachCall = true) (done : List Req) :
    (runSt H cfg val s0 done).snap = (runSt H cfg val s0 done).h.db :=
  (inv_run H cfg val hinj s0 h0 done).eachCall hc

/-- The database of the dying process itself is a prefix of the uninterrupted run's (so in
    function-call mode nothing completed is missing and nothing else is present). -/
theorem completed_is_prefix (s0 : St κ) (done rest : List Req) :
    DbLe (runSt H cfg val s0 done).h.db (runSt H cfg val s0 (done ++ rest)).h.db := by
  rw [runSt_append]
  split
  · exact DbLe.refl _
  · exact run_dbLe H cfg val _ rest

/-- **restart_loads_snapshot.** A new process that loads the file left at any crash point gets a
    database equal to the snapshot, a counter equal to the number of loaded entries, an empty call
    log, and satisfies the invariant again (whatever the budget installed by `execute`, the counter
    being kept). -/
theorem restart_loads_snapshot (hinj : Function.Injective H) (s0 : St κ) (h0 : Inv H cfg s0)
    (done : List Req) (maximum : Nat) :
    ∃ s', restart H (runSt H cfg val s0 done).h = some s' ∧
      DbEq s'.h.db (runSt H cfg val s0 done).snap ∧
      s'.counter = (runSt H cfg val s0 done).snap.length ∧ s'.counter = s'.h.db.length ∧
      s'.calls = [] ∧ Inv H cfg (start s' maximum false) := by
  have hs := (inv_run H cfg val hinj s0 h0 done).base
  obtain ⟨s', hre, hinv, hsnap, heq, hcnt, hcalls, _⟩ := restart_spec H _ hs
  refine ⟨s', hre, heq, hcnt, ?_, hcalls, ?_⟩
  · rw [hcnt]; exact (dbEq_length heq).symm
  · exact ⟨⟨hinv.c11, hinv.ok, hinv.snapWF, hinv.fileSnap, hinv.fileComplete, hinv.snapLe⟩,
      fun _ => hsnap⟩

/-- **restart_no_rework.** Whatever the restarted run requests, a (function, point) stored in
    the loaded database is never passed to the original callable again. -/
theorem restart_no_rework (sR : St κ) (hcalls : sR.calls = []) (rs : List Req) :
    ∀ c ∈ (runSt H cfg val sR rs).calls, recorded sR.h.db c.2 c.1 = none := by
  intro c hc
  rcases run_calls_unrecorded H cfg val sR rs c hc with h | h
  · rw [hcalls] at h; cases h
  · exact h

/-- Within one process no (function, point) is passed twice to the original callable, and every
    call is recorded. -/
theorem calls_unique (sR : St κ) (hcalls : sR.calls = []) (rs : List Req) :
    (runSt H cfg val sR rs).calls.Nodup ∧
    ∀ c ∈ (runSt H cfg val sR rs).calls, (recorded (runSt H cfg val sR rs).h.db c.2 c.1).isSome = true :=
  callsOK_run H cfg val sR ⟨by simp [hcalls], by simp [hcalls]⟩ rs

/-- **loaded_entries_kept.** The loaded entries stay first, in order, with all their outputs and
    values, whatever the restarted run does (`store` never removes). -/
theorem loaded_entries_kept (sR : St κ) (rs : List Req) :
    DbLe sR.h.db (runSt H cfg val sR rs).h.db := run_dbLe H cfg val sR rs

/-- **crash_state_is_prefix_state.** The crash point defined on the event trace — the trace
    `Call … | Store x n v | NewIter x | Export` of the run truncated inside its `k`-th `Call`,
    replayed on the database, pending buffer and file the process started with — is the state
    reached by the requests completed before that call: nothing of the evaluation in progress is
    stored, and `completedBefore … k s0 rs` is the `done` of the other theorems. -/
theorem crash_state_is_prefix_state (s0 : St κ) (rs : List Req) (k : Nat) (hk : 1 ≤ k) :
    replay H s0.h (truncateAtCall k (traceOf H cfg val s0 rs)) =
      (runSt H cfg val s0 (completedBefore H cfg val k s0 rs)).h :=
  replay_truncated H cfg val s0 rs k hk

/-- Hence: whatever `k`, the file left by a death inside the `k`-th discipline execution reads
    back to the snapshot of the state reached by the completed requests. -/
theorem backup_at_kth_call (hinj : Function.Injective H) (s0 : St κ) (h0 : Inv H cfg s0)
    (rs : List Req) (k : Nat) (hk : 1 ≤ k) :
    ∃ d, readFile (replay H s0.h (truncateAtCall k (traceOf H cfg val s0 rs))).file = some d ∧
      DbEq d (runSt H cfg val s0 (completedBefore H cfg val k s0 rs)).snap := by
  rw [crash_state_is_prefix_state H cfg val s0 rs k hk]
  obtain ⟨d, hd, heq, _⟩ := backup_is_snapshot H cfg val hinj s0 h0 (completedBefore H cfg val k s0 rs)
  exact ⟨d, hd, heq⟩

/-- **restart_optimum_at_least_as_good.** If the loaded database holds a feasible point with an
    objective value, the optimum reported on the final database of the restarted run is feasible
    and its objective is not larger than that of the optimum of the loaded database (C04's
    `OptimizationHistory.optimum`, Euclidean norm for vector objectives) — whatever the restarted run
    requests. -/
theorem restart_optimum_at_least_as_good (hinj : Function.Injective H) (c : C04.Cfg) (sR : St κ)
    (hR : Inv H cfg sR) (rs : List Req) (sL sF : C04.Solution)
    (hL : reportedOptimum c sR.h.db = some sL)
    (hF : reportedOptimum c (runSt H cfg val sR rs).h.db = some sF)
    (hf : ∃ e ∈ toHist sR.h.db, C04.isFeasible c e = true ∧ (C04.objKey c e).isSome = true) :
    sL.feasible = true ∧ sF.feasible = true ∧
    ∃ (i i' : Nat) (e e' : C04.Entry) (k k' : C04.Key), sL.idx = some i ∧ sF.idx = some i' ∧
      (toHist sR.h.db)[i]? = some e ∧ (toHist (runSt H cfg val sR rs).h.db)[i']? = some e' ∧
      C04.objKey c e = some k ∧ C04.objKey c e' = some k' ∧ k'.toReal ≤ k.toReal :=
  optimum_of_extension c _ _ hR.base.c11.wf (inv_run H cfg val hinj sR hR rs).base.c11.wf
    (run_dbLe H cfg val sR rs) sL sF hL hF hf

/-- **The snapshot is the database of an earlier step of the algorithm** (each-iteration mode: the
    last notified iteration; function-call mode: the current step). -/
theorem snapshot_is_database_of_earlier_step (strat : Strategy) (sU : St κ) (hsnap : sU.snap = sU.h.db)
    (j : Nat) :
    ∃ m, m ≤ j ∧ (stratRun H cfg val strat j ⟨sU, [], true⟩).s.snap
      = (stratRun H cfg val strat m ⟨sU, [], true⟩).s.h.db :=
  snapshot_is_earlier_database H cfg val strat ⟨sU, [], true⟩ hsnap j

/-- **deterministic_replay.** Let the algorithm be any function of what it has observed (its
    requests and their answers), on a problem whose stored values are replayed exactly (no
    normalisation layer between the database and the algorithm). Start it in a state `sU` that
    satisfies the invariant, whose file holds its database and whose counter is its number of
    entries (a fresh problem, or one that has just loaded a backup). Kill the process after any
    number `j` of steps (inside the evaluation of its next request), load the file in a new process,
    keep the counter, install the same budget and run the same algorithm: after any number `n ≥ j` of
    steps the restarted run holds the same database as the uninterrupted run after `n` steps
    (same points in the same order, same outputs, same values), has observed the same answers, has
    the same counter and has stopped iff the uninterrupted run has — in particular both end with
    the same history. -/
theorem deterministic_replay (hinj : Function.Injective H) (strat : Strategy) (sU : St κ)
    (hinv : Inv H cfg sU) (hsnap : sU.snap = sU.h.db) (hcount : CountOK sU) (j : Nat) :
    ∃ sR, restart H (stratRun H cfg val strat j ⟨sU, [], true⟩).s.h = some sR ∧
      ∀ n, j ≤ n →
        DbEq (stratRun H cfg val strat n ⟨start sR sU.maximum false, [], true⟩).s.h.db
             (stratRun H cfg val strat n ⟨sU, [], true⟩).s.h.db ∧
        (stratRun H cfg val strat n ⟨start sR sU.maximum false, [], true⟩).hist
          = (stratRun H cfg val strat n ⟨sU, [], true⟩).hist ∧
        (stratRun H cfg val strat n ⟨start sR sU.maximum false, [], true⟩).live
          = (stratRun H cfg val strat n ⟨sU, [], true⟩).live ∧
        (stratRun H cfg val strat n ⟨start sR sU.maximum false, [], true⟩).s.counter
          = (stratRun H cfg val strat n ⟨sU, [], true⟩).s.counter := by
  have hj := (inv_stratRun H cfg val strat hinj ⟨sU, [], true⟩ hinv j).base
  obtain ⟨sR, hre, _, _, heq, hcnt, _, _⟩ := restart_spec H _ hj
  obtain ⟨m, hmj, hm⟩ := snapshot_is_earlier_database H cfg val strat ⟨sU, [], true⟩ hsnap j
  refine ⟨sR, hre, ?_⟩
  intro n hn
  have hload : DbEq (start sR sU.maximum false).h.db (stratRun H cfg val strat m ⟨sU, [], true⟩).s.h.db := by
    show DbEq sR.h.db _
    rw [← hm]; exact heq
  have hc : (start sR sU.maximum false).counter = (start sR sU.maximum false).h.db.length := by
    show (if false = true then 0 else sR.counter) = sR.h.db.length
    simp only [Bool.false_eq_true, if_false]
    rw [hcnt]; exact (dbEq_length heq).symm
  have := replay_all H cfg val strat ⟨sU, [], true⟩ ⟨start sR sU.maximum false, [], true⟩ m hcount hc rfl
    hload rfl rfl n (by omega)
  exact ⟨this.1.1, this.2.1, this.2.2, this.1.2.1⟩

/-- The fresh problem satisfies the three start hypotheses of `deterministic_replay`, with any
    budget. -/
theorem fresh_start_ok (maximum : Nat) :
    Inv H cfg (start (St.init : St κ) maximum true) ∧
    (start (St.init : St κ) maximum true).snap = (start (St.init : St κ) maximum true).h.db ∧
    CountOK (start (St.init : St κ) maximum true) := by
  refine ⟨⟨?_, fun _ => rfl⟩, rfl, ⟨rfl, by simp [start, St.init, State.init]⟩⟩
  have := inv0_init (κ := κ) H
  exact ⟨this.c11, this.ok, this.snapWF, this.fileSnap, this.fileComplete, this.snapLe⟩

/-- **The configuration outside the property** (`preexisting_file_modes`): a file left by another
    run that is neither erased nor loaded. The first export of the new run appends to the entries
    of unrelated points: the file then reads back to a point of the *old* run carrying an output
    of the *new* one — not a prefix of the new run's history. (Absent, erased and loaded files
    are the states covered by the invariant.) -/
theorem unloaded_existing_file_not_prefix :
    ∃ (F : File) (rs : List Req) (d : Db),
      let s0 : St Pt := restartStale { db := [], pend := [], file := F }
      let sf := runSt (fun p => p) ⟨true, false⟩ (fun _ _ => .scalar 7) s0 rs
      sf.ok = true ∧ readFile sf.h.file = some d ∧ ¬ DbLe d sf.h.db := by
  refine ⟨[(0, ⟨⟨false, [5]⟩, ["f"], [1], []⟩)], [⟨"g", ⟨false, [9]⟩, 1⟩],
    [(⟨false, [5]⟩, [("f", .scalar 1), ("g", .scalar 7)])], by decide, by decide, ?_⟩
  intro h
  have := h.2 ⟨false, [5]⟩ "f" (.scalar 1) (by decide)
  revert this
  decide

/-- In the same configuration with array-valued outputs the export raises (`ValueError`: the
    dataset already exists in the sub-group of the unrelated entry). -/
theorem unloaded_existing_file_export_raises :
    ∃ (F : File) (rs : List Req),
      let s0 : St Pt := restartStale { db := [], pend := [], file := F }
      (runSt (fun p => p) ⟨true, false⟩ (fun _ _ => .arr ⟨[1], [7]⟩) s0 rs).ok = false :=
  ⟨[(0, ⟨⟨false, [5]⟩, ["f"], [], [(0, ⟨[1], [1]⟩)]⟩)], [⟨"g", ⟨false, [9]⟩, 1⟩], by decide⟩

/-! ### Non-vacuity: a concrete run in each mode, killed after its fourth request -/

section demo

/-- An original callable without arithmetic (so that `decide` can evaluate it in the kernel):
    `f` returns the first coordinate, `g` the second one. -/
def demoVal : String → Pt → Val := fun n p =>
  .arr ⟨[1], [if n = "f" then p.xs.headD 0 else p.xs.getLastD 0]⟩

def demoReqs : List Req :=
  [⟨"f", ⟨false, [0, 1]⟩, 2⟩, ⟨"g", ⟨false, [0, 1]⟩, 0⟩, ⟨"f", ⟨false, [0, 1]⟩, 0⟩,
   ⟨"f", ⟨false, [2, 1]⟩, 2⟩, ⟨"g", ⟨false, [2, 1]⟩, 0⟩, ⟨"f", ⟨false, [3, 4]⟩, 2⟩]

/-- each-iteration mode: after four requests the file holds the first point completely and the
    second one with its first output only — a strict prefix of the final history. -/
example :
    let s := runSt (fun p => p) ⟨false, true⟩ demoVal (start St.init 5 true) (demoReqs.take 4)
    readFile s.h.file = some [(⟨false, [0, 1]⟩, [("f", .arr ⟨[1], [0]⟩), ("g", .arr ⟨[1], [1]⟩)]),
                              (⟨false, [2, 1]⟩, [("f", .arr ⟨[1], [2]⟩)])]
      ∧ s.counter = 2 ∧ s.calls.length = 3 := by decide

/-- function-call mode: the file holds every completed evaluation. -/
example :
    let s := runSt (fun p => p) ⟨true, false⟩ demoVal (start St.init 5 true) (demoReqs.take 5)
    readFile s.h.file = some s.h.db ∧ s.h.db.length = 2 := by decide

def demoCrash : St Pt :=
  runSt (fun p => p) ⟨false, true⟩ demoVal (start St.init 5 true) (demoReqs.take 4)

def demoFinal : St Pt :=
  runSt (fun p => p) ⟨false, true⟩ demoVal (start St.init 5 true) demoReqs

def demoRestarted : Option (St Pt) :=
  (restart (fun p => p) demoCrash.h).map (fun s' =>
    runSt (fun p => p) ⟨false, true⟩ demoVal (start s' 5 false) demoReqs)

/-- the restart of the each-iteration run: nothing stored is recomputed (2 calls instead of 5),
    and the final database and counter are those of the uninterrupted run. -/
example :
    demoRestarted.map (·.calls) = some [("g", ⟨false, [2, 1]⟩), ("f", ⟨false, [3, 4]⟩)] ∧
    demoRestarted.map (·.h.db) = some demoFinal.h.db ∧
    demoRestarted.map (·.counter) = some demoFinal.counter := by
  decide

/-- An algorithm that really depends on what it observes: after `f` it asks for `g` at the same
    point, after `g` it chooses its next point from the value it was given. -/
def demoStrat : Strategy := fun hist =>
  match hist.getLast? with
  | none => some ⟨"f", ⟨false, [0, 1]⟩, 2⟩
  | some (r, v) =>
    if r.name = "f" then some ⟨"g", r.p, 0⟩
    else match v with
      | .arr ⟨_, [b]⟩ =>
        if b = 1 then some ⟨"f", ⟨false, [2, 3]⟩, 2⟩
        else if b = 3 then some ⟨"f", ⟨false, [4, 5]⟩, 2⟩
        else some ⟨"f", ⟨false, [6, 7]⟩, 2⟩
      | _ => none

def demoU (n : Nat) : RunCfg Pt :=
  stratRun (fun p => p) ⟨false, true⟩ demoVal demoStrat n ⟨start St.init 2 true, [], true⟩

def demoR (j n : Nat) : Option (RunCfg Pt) :=
  (restart (fun p => p) (demoU j).s.h).map (fun sR =>
    stratRun (fun p => p) ⟨false, true⟩ demoVal demoStrat n ⟨start sR 2 false, [], true⟩)

/-- `deterministic_replay` on a concrete case: budget 2, each-iteration backup, the process dies
    after 3 steps (the file holds the second point with `f` only); the restart recomputes `g` there
    only, is stopped by the budget at the same request as the uninterrupted run and ends with the
    same database and counter. -/
example :
    (demoU 8).live = false ∧ (demoU 8).s.h.db.length = 2 ∧ (demoU 8).s.counter = 2 ∧
    (demoR 3 8).map (·.s.h.db) = some (demoU 8).s.h.db ∧
    (demoR 3 8).map (·.live) = some false ∧
    (demoR 3 8).map (·.s.counter) = some 2 ∧
    (demoR 3 8).map (·.s.calls) = some [("g", ⟨false, [2, 3]⟩)] := by decide

/-- `restart_optimum_at_least_as_good`: its feasibility hypothesis is satisfiable by a loaded
    database (objective `f`, constraint `g ≤ 1`), and the reported optimum is the loaded point. -/
example :
    (∃ e ∈ toHist demoCrash.snap,
      C04.isFeasible ⟨"f", [⟨"g", .ineq⟩], 0, 1⟩ e = true ∧ (C04.objKey ⟨"f", [⟨"g", .ineq⟩], 0, 1⟩ e).isSome = true) ∧
    reportedOptimum ⟨"f", [⟨"g", .ineq⟩], 0, 1⟩ demoFinal.h.db = some ⟨some 0, true⟩ := by
  refine ⟨⟨_, List.mem_cons_self, by decide, by decide⟩, by decide⟩

/-- The hypotheses of the theorems are satisfiable: the fresh state satisfies the invariant. -/
example : Inv (fun p : Pt => p) ⟨false, true⟩ (St.init : St Pt) := inv_fresh _ _

end demo

end GV.C12
