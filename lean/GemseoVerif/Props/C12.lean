/-
C12 — property theorems: a run with a history backup that dies inside a discipline execution
leaves a file that reads back to a prefix of the uninterrupted run's history, and a restart from
that file does no rework, keeps the loaded entries, reports an optimum at least as good as the best
loaded one and — for an algorithm that is a function of what it observes — ends with the history
of the uninterrupted run.

Setting (see `Model/C12.lean`): `H` is the hash of the pending buffer (injective: C11's
hypothesis), `cfg` the backup mode (each function call and/or each iteration), `val` the original
callables (arbitrary), `s0` any state satisfying the invariant — the fresh state (`inv_fresh`), or a
state obtained by loading a file left by an earlier run or an earlier crash (`restart_loads_snapshot`
re-establishes the invariant, so chains of crashes and restarts are covered).  The uninterrupted run
issues the requests `done ++ rest`; the process dies inside the evaluation of the first request of
`rest`, i.e. in the state `runSt … s0 done` ("nothing of that call is stored"; `crash_state_is_prefix_state`
relates this to the truncation of the event trace inside its k-th `Call`).  Every theorem is for every
`done` and `rest`: every crash point of every run.
Only property theorems and non-vacuity examples live here; lemmas are in `Lemmas/C12*.lean`.
-/
import GemseoVerif.Lemmas.C12

namespace GV.C12
open GV.C11

variable {κ : Type} [DecidableEq κ] (H : Pt → κ) (cfg : Cfg) (val : String → Pt → Val)

/-- The fresh state (new problem, no backup file) satisfies the invariant. -/
theorem inv_fresh : Inv H cfg (St.init : St κ) := inv_init' H cfg

/-- The invariant holds after any sequence of requests: at every crash point. -/
theorem inv_reachable (hinj : Function.Injective H) (s0 : St κ) (h0 : Inv H cfg s0) (done : List Req) :
    Inv H cfg (runSt H cfg val s0 done) := inv_run H cfg val hinj s0 h0 done

/-- **backup_is_snapshot.** At every crash point the backup file can be read, no export has
    raised, and the file reads back to the database snapshot taken at the last backup notification:
    same points in the same order, same output names, same values. -/
theorem backup_is_snapshot (hinj : Function.Injective H) (s0 : St κ) (h0 : Inv H cfg s0)
    (done : List Req) :
    ∃ d, readFile (runSt H cfg val s0 done).h.file = some d ∧
      DbEq d (runSt H cfg val s0 done).snap ∧ (runSt H cfg val s0 done).ok = true := by
  have hs := (inv_run H cfg val hinj s0 h0 done).base
  obtain ⟨d, hd, hrest⟩ := readFile_complete _ hs.snapWF _ hs.fileSnap hs.fileComplete
  exact ⟨d, hd, by first | exact hrest | exact hrest.1, hs.ok⟩

/-- **snapshot_is_prefix.** That snapshot is a prefix of the final database of the uninterrupted
    run: its points are the first points of the final history, in the same order, and every output
    it holds is in the final history with the same value. -/
theorem snapshot_is_prefix (hinj : Function.Injective H) (s0 : St κ) (h0 : Inv H cfg s0)
    (done rest : List Req) :
    DbLe (runSt H cfg val s0 done).snap (runSt H cfg val s0 (done ++ rest)).h.db := by
  have hs := (inv_run H cfg val hinj s0 h0 done).base
  rw [runSt_append]
  split
  · exact hs.snapLe
  · exact hs.snapLe.trans (run_dbLe H cfg val _ rest)

/-- **In function-call mode the snapshot is exactly the evaluations completed before the crash**
    (the whole database of the dying process). -/
theorem snapshot_is_completed_evaluations (hinj : Function.Injective H) (s0 : St κ)
    (h0 : Inv H cfg s0) (hc : cfg.eachCall = true) (done : List Req) :
    (runSt H cfg val s0 done).snap = (runSt H cfg val s0 done).h.db :=
  (inv_run H cfg val hinj s0 h0 done).eachCall hc

/-- The database of the dying process itself is a prefix of the uninterrupted run's (so in
    function-call mode nothing completed is missing and nothing else is present). -/
theorem completed_is_prefix (s0 : St κ) (done rest : List Req) :
    DbLe (runSt H cfg val s0 done).h.db (runSt H cfg val s0 (done ++ rest)).h.db := by
  rw [runSt_append]
  split
  · exact DbLe.refl _
  · exact run_dbLe H cfg val _ rest

/-- **restart_loads_snapshot.** A new process that loads the file left at any crash point gets a
    database equal to the snapshot, a counter equal to the number of loaded entries, an empty call
    log, and satisfies the invariant again (whatever the budget installed by `execute`, the counter
    being kept). -/
theorem restart_loads_snapshot (hinj : Function.Injective H) (s0 : St κ) (h0 : Inv H cfg s0)
    (done : List Req) (maximum : Nat) :
    ∃ s', restart H (runSt H cfg val s0 done).h = some s' ∧
      DbEq s'.h.db (runSt H cfg val s0 done).snap ∧
      s'.counter = (runSt H cfg val s0 done).snap.length ∧ s'.counter = s'.h.db.length ∧
      s'.calls = [] ∧ Inv H cfg (start s' maximum false) := by
  have hs := (inv_run H cfg val hinj s0 h0 done).base
  obtain ⟨s', hre, hinv, hsnap, heq, hcnt, hcalls, _⟩ := restart_spec H _ hs
  refine ⟨s', hre, heq, hcnt, ?_, hcalls, ?_⟩
  · rw [hcnt]; exact (dbEq_length heq).symm
  · exact ⟨⟨hinv.c11, hinv.ok, hinv.snapWF, hinv.fileSnap, hinv.fileComplete, hinv.snapLe⟩,
      fun _ => hsnap⟩

/-- **restart_no_rework.** Whatever the restarted run requests, a (function, point) stored in
    the loaded database is never passed to the original callable again. -/
theorem restart_no_rework (sR : St κ) (hcalls : sR.calls = []) (rs : List Req) :
    ∀ c ∈ (runSt H cfg val sR rs).calls, recorded sR.h.db c.2 c.1 = none := by
  intro c hc
  rcases run_calls_unrecorded H cfg val sR rs c hc with h | h
  · rw [hcalls] at h; cases h
  · exact h

/-- Within one process no (function, point) is passed twice to the original callable, and every
    call is recorded. -/
theorem calls_unique (sR : St κ) (hcalls : sR.calls = []) (rs : List Req) :
    (runSt H cfg val sR rs).calls.Nodup ∧
    ∀ c ∈ (runSt H cfg val sR rs).calls, (recorded (runSt H cfg val sR rs).h.db c.2 c.1).isSome = true :=
  callsOK_run H cfg val sR ⟨by simp [hcalls], by simp [hcalls]⟩ rs

/-- **loaded_entries_kept.** The loaded entries stay first, in order, with all their outputs and
    values, whatever the restarted run does (`store` never removes). -/
theorem loaded_entries_kept (sR : St κ) (rs : List Req) :
    DbLe sR.h.db (runSt H cfg val sR rs).h.db := run_dbLe H cfg val sR rs

/-! ### Non-vacuity: a concrete run in each mode, killed after its fourth request -/

section demo

/-- An original callable without arithmetic (so that `decide` can evaluate it in the kernel):
    `f` returns the first coordinate, `g` the second one. -/
def demoVal : String → Pt → Val := fun n p =>
  .arr ⟨[1], [if n = "f" then p.xs.headD 0 else p.xs.getLastD 0]⟩

def demoReqs : List Req :=
  [⟨"f", ⟨false, [0, 1]⟩, 2⟩, ⟨"g", ⟨false, [0, 1]⟩, 0⟩, ⟨"f", ⟨false, [0, 1]⟩, 0⟩,
   ⟨"f", ⟨false, [2, 1]⟩, 2⟩, ⟨"g", ⟨false, [2, 1]⟩, 0⟩, ⟨"f", ⟨false, [3, 4]⟩, 2⟩]

/-- each-iteration mode: after four requests the file holds the first point completely and the
    second one with its first output only — a strict prefix of the final history. -/
example :
    let s := runSt (fun p => p) ⟨false, true⟩ demoVal (start St.init 5 true) (demoReqs.take 4)
    readFile s.h.file = some [(⟨false, [0, 1]⟩, [("f", .arr ⟨[1], [0]⟩), ("g", .arr ⟨[1], [1]⟩)]),
                              (⟨false, [2, 1]⟩, [("f", .arr ⟨[1], [2]⟩)])]
      ∧ s.counter = 2 ∧ s.calls.length = 3 := by decide

/-- function-call mode: the file holds every completed evaluation. -/
example :
    let s := runSt (fun p => p) ⟨true, false⟩ demoVal (start St.init 5 true) (demoReqs.take 5)
    readFile s.h.file = some s.h.db ∧ s.h.db.length = 2 := by decide

def demoCrash : St Pt :=
  runSt (fun p => p) ⟨false, true⟩ demoVal (start St.init 5 true) (demoReqs.take 4)

def demoFinal : St Pt :=
  runSt (fun p => p) ⟨false, true⟩ demoVal (start St.init 5 true) demoReqs

def demoRestarted : Option (St Pt) :=
  (restart (fun p => p) demoCrash.h).map (fun s' =>
    runSt (fun p => p) ⟨false, true⟩ demoVal (start s' 5 false) demoReqs)

/-- the restart of the each-iteration run: nothing stored is recomputed (2 calls instead of 5),
    and the final database and counter are those of the uninterrupted run. -/
example :
    demoRestarted.map (·.calls) = some [("g", ⟨false, [2, 1]⟩), ("f", ⟨false, [3, 4]⟩)] ∧
    demoRestarted.map (·.h.db) = some demoFinal.h.db ∧
    demoRestarted.map (·.counter) = some demoFinal.counter := by
  decide

/-- The hypotheses of the theorems are satisfiable: the fresh state satisfies the invariant. -/
example : Inv (fun p : Pt => p) ⟨false, true⟩ (St.init : St Pt) := inv_fresh _ _

end demo

end GV.C12
