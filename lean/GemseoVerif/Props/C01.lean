/-
C01 — property theorems: evaluations of preprocessed problem functions are faithful to the
user's original functions, recorded under the physical point, and memoized — for every design
space, every preprocessing configuration, arbitrary original functions and every request history.
-/
import GemseoVerif.Lemmas.C01
import GemseoVerif.Lemmas.C01Sparse
import GemseoVerif.Lemmas.C01Roles
import GemseoVerif.Lemmas.C14Round
import GemseoVerif.Props.C02

namespace GV.C01
open GV.C02

section
variable (ds : DS) (cfg : Cfg) (val : String → List Rat → List Rat) (jac : String → List Rat → Mat)

/-- The physical point is a function of the database key (in every configuration). -/
theorem physOfKey_keyOf (x : List Rat) : physOfKey ds cfg (keyOf ds cfg x) = phys ds cfg x := by
  unfold physOfKey keyOf phys
  cases cfg.normalized <;> simp

/-- With normalized inputs, or without integer rounding, the database key *is* the physical point. -/
theorem key_is_physical_point (x : List Rat) (h : cfg.normalized = true ∨ roundOn ds cfg = false) :
    keyOf ds cfg x = phys ds cfg x := by
  unfold keyOf phys
  rcases h with h | h
  · simp [h]
  · cases cfg.normalized <;> simp [h]

/-- Jacobian recorded for a key: the physical-space Jacobian. -/
def recordedOfKey (n : String) (k : List Rat) : Mat :=
  let j := jac n (physOfKey ds cfg k)
  if cfg.normalized then (j.map ds.normalizeGrad).map ds.unnormalizeGrad else j

theorem jacRecorded_eq (n : String) (x : List Rat) :
    jacRecorded ds cfg jac n x = recordedOfKey ds cfg jac n (keyOf ds cfg x) := by
  unfold jacRecorded recordedOfKey jacCaller
  rw [physOfKey_keyOf]
  cases cfg.normalized <;> simp

def callId (c : Call) : String × Kind × List Rat := (c.name, c.kind, c.key)

/-- The invariant of the evaluation state machine. -/
structure Inv (st : St) : Prop where
  values : ∀ k n v, lookupOut st.db k (n, .value) = some v → v = [val n (physOfKey ds cfg k)]
  jacs : ∀ k n v, lookupOut st.db k (n, .jacobian) = some v → v = recordedOfKey ds cfg jac n k
  keys : (st.db.map (·.key)).Nodup
  call_points : ∀ c ∈ st.calls, c.point = physOfKey ds cfg c.key
  value_calls_recorded : cfg.useDb = true → ∀ c ∈ st.calls, c.kind = .value →
    (lookupOut st.db c.key (c.name, .value)).isSome = true
  jac_calls_recorded : cfg.useDb = true → cfg.storeJac = true → ∀ c ∈ st.calls, c.kind = .jacobian →
    (lookupOut st.db c.key (c.name, .jacobian)).isSome = true
  value_calls_unique : cfg.useDb = true →
    ((st.calls.filter (fun c => c.kind == .value)).map callId).Nodup
  jac_calls_unique : cfg.useDb = true → cfg.storeJac = true →
    ((st.calls.filter (fun c => c.kind == .jacobian)).map callId).Nodup

theorem inv_init : Inv ds cfg val jac St.init := by
  refine ⟨?_, ?_, ?_, ?_, ?_, ?_, ?_, ?_⟩ <;> simp [St.init, lookupOut, lookupEntry]

/-! ### Faithfulness -/

/-- **Returned value = the user's function at the corresponding physical point**, whether computed
    or served from the database. -/
theorem eval_value_faithful (st : St) (h : Inv ds cfg val jac st) (n : String) (x : List Rat) :
    (evalValue ds cfg val st n x).2 = val n (phys ds cfg x) := by
  unfold evalValue
  by_cases hdb : cfg.useDb = true
  · simp only [hdb, Bool.not_true, Bool.false_eq_true, if_false]
    cases hl : lookupOut st.db (keyOf ds cfg x) (n, .value) with
    | none => rfl
    | some v =>
      have hv := h.values _ _ _ hl
      rw [physOfKey_keyOf] at hv
      subst hv
      rfl
  · have : cfg.useDb = false := by simpa using hdb
    simp [this]

/-- **Returned Jacobian = derivative w.r.t. the caller's coordinates** (`normalize_grad` of the
    user's Jacobian at the physical point in normalized mode, the user's Jacobian otherwise),
    whether computed or served from the database. -/
theorem eval_jac_faithful (st : St) (h : Inv ds cfg val jac st) (n : String) (x : List Rat) :
    (evalJac ds cfg jac st n x).2 = jacCaller ds cfg jac n x := by
  unfold evalJac
  by_cases hdb : cfg.useDb = true
  · simp only [hdb, Bool.not_true, Bool.false_eq_true, if_false]
    cases hl : lookupOut st.db (keyOf ds cfg x) (n, .jacobian) with
    | none => rfl
    | some v =>
      have hv := h.jacs _ _ _ hl
      subst hv
      simp only [recordedOfKey, jacCaller, physOfKey_keyOf]
      cases hn : cfg.normalized
      · simp
      · simp only [if_true, List.map_map]
        apply List.map_congr_left
        intro r _
        exact normalizeGrad_round_trip ds r
  · have : cfg.useDb = false := by simpa using hdb
    simp [this]

/-! ### Recording -/

/-- **The database records the value under the key of the physical point.** -/
theorem db_records_value (st : St) (h : Inv ds cfg val jac st) (hdb : cfg.useDb = true)
    (n : String) (x : List Rat) :
    lookupOut (evalValue ds cfg val st n x).1.db (keyOf ds cfg x) (n, .value)
      = some [val n (phys ds cfg x)] := by
  unfold evalValue
  simp only [hdb, Bool.not_true, Bool.false_eq_true, if_false]
  cases hl : lookupOut st.db (keyOf ds cfg x) (n, .value) with
  | none => simp [lookupOut_store_same]
  | some v =>
    have hv := h.values _ _ _ hl
    rw [physOfKey_keyOf] at hv
    subst hv
    simpa using hl

/-- **The database records the physical-space Jacobian** (when Jacobian storage is on). -/
theorem db_records_jacobian (st : St) (h : Inv ds cfg val jac st) (hdb : cfg.useDb = true)
    (hsj : cfg.storeJac = true) (n : String) (x : List Rat) :
    lookupOut (evalJac ds cfg jac st n x).1.db (keyOf ds cfg x) (n, .jacobian)
      = some (jacRecorded ds cfg jac n x) := by
  unfold evalJac
  simp only [hdb, Bool.not_true, Bool.false_eq_true, if_false]
  cases hl : lookupOut st.db (keyOf ds cfg x) (n, .jacobian) with
  | none => simp [hsj, lookupOut_store_same]
  | some v =>
    have hv := h.jacs _ _ _ hl
    rw [jacRecorded_eq]
    subst hv
    simpa using hl

/-- Component of the recorded Jacobian in normalized mode: the user's partial derivative on every
    component whose scale is non-zero (or that is not normalisable), and **zero on a component whose
    bounds coincide** (inert normalized coordinate). -/
theorem recorded_component (n : Bool) (l u : Option Rat) (g : Rat) :
    normComp false n l u (unnormComp false n l u g)
      = if n && (scaleOf l u == 0) then 0 else g := by
  cases n
  · simp [normComp, unnormComp]
  · simp only [normComp, unnormComp, if_true, Bool.false_eq_true, if_false, add_zero,
      invScaleOf, Bool.true_and, beq_iff_eq]
    by_cases hs : scaleOf l u = 0
    · simp [hs]
    · simp only [hs, if_false]
      field_simp

/-! ### Memoization -/

/-- **A recorded value is served without calling the original function** (state unchanged). -/
theorem memoized_value (st : St) (hdb : cfg.useDb = true) (n : String) (x : List Rat) (row : List Rat)
    (hrec : lookupOut st.db (keyOf ds cfg x) (n, .value) = some [row]) :
    (evalValue ds cfg val st n x).1 = st ∧ (evalValue ds cfg val st n x).2 = row := by
  unfold evalValue
  simp [hdb, hrec]

/-- **A recorded Jacobian is served without calling the original Jacobian.** -/
theorem memoized_jacobian (st : St) (hdb : cfg.useDb = true) (n : String) (x : List Rat) (ju : Mat)
    (hrec : lookupOut st.db (keyOf ds cfg x) (n, .jacobian) = some ju) :
    (evalJac ds cfg jac st n x).1 = st := by
  unfold evalJac
  simp [hdb, hrec]

/-! ### The invariant holds along every history -/

private theorem nodup_append_singleton {α : Type} (l : List α) (a : α) (h : l.Nodup)
    (ha : a ∉ l) : (l ++ [a]).Nodup := by
  rw [List.nodup_append]
  refine ⟨h, by simp, ?_⟩
  intro x hx y hy
  simp only [List.mem_singleton] at hy
  subst hy
  exact fun e => ha (e ▸ hx)

private theorem nodup_store (db : List Entry) (k : List Rat) (n : OutName) (v : Mat)
    (h : (db.map (·.key)).Nodup) : ((store db k n v).map (·.key)).Nodup := by
  rw [store_keys]
  split
  · exact h
  · rename_i hany
    apply nodup_append_singleton _ _ h
    intro ha
    obtain ⟨e, he, hek⟩ := List.mem_map.mp ha
    exact hany (List.any_eq_true.mpr ⟨e, he, by simpa using hek⟩)

theorem inv_evalValue (st : St) (h : Inv ds cfg val jac st) (n : String) (x : List Rat) :
    Inv ds cfg val jac (evalValue ds cfg val st n x).1 := by
  unfold evalValue
  by_cases hdb : cfg.useDb = true
  · simp only [hdb, Bool.not_true, Bool.false_eq_true, if_false]
    cases hl : lookupOut st.db (keyOf ds cfg x) (n, .value) with
    | some v =>
      have hv := h.values _ _ _ hl
      subst hv
      exact h
    | none =>
      -- miss: store and log the call
      have hstore_same := lookupOut_store_same st.db (keyOf ds cfg x) (n, .value) [val n (phys ds cfg x)]
      have hother : ∀ k' n', (k' ≠ keyOf ds cfg x ∨ n' ≠ (n, Kind.value)) →
          lookupOut (store st.db (keyOf ds cfg x) (n, .value) [val n (phys ds cfg x)]) k' n'
            = lookupOut st.db k' n' :=
        fun k' n' hne => lookupOut_store_other st.db _ k' _ n' _ hne
      refine ⟨?_, ?_, nodup_store _ _ _ _ h.keys, ?_, ?_, ?_, ?_, ?_⟩
      · intro k m v hv
        by_cases hk : k = keyOf ds cfg x ∧ m = n
        · obtain ⟨rfl, rfl⟩ := hk
          rw [hstore_same] at hv
          rw [physOfKey_keyOf]
          exact (Option.some.inj hv).symm
        · have hne : k ≠ keyOf ds cfg x ∨ (m, Kind.value) ≠ (n, Kind.value) := by
            by_contra hc
            push Not at hc
            exact hk ⟨hc.1, by simpa using hc.2⟩
          rw [hother k (m, .value) hne] at hv
          exact h.values k m v hv
      · intro k m v hv
        rw [hother k (m, .jacobian) (Or.inr (by simp))] at hv
        exact h.jacs k m v hv
      · intro c hc
        rcases List.mem_append.mp hc with hc | hc
        · exact h.call_points c hc
        · simp only [List.mem_singleton] at hc
          subst hc
          simp [physOfKey_keyOf]
      · intro _ c hc hk
        rcases List.mem_append.mp hc with hc | hc
        · have hrec := h.value_calls_recorded hdb c hc hk
          by_cases hsame : c.key = keyOf ds cfg x ∧ c.name = n
          · rw [hsame.1, hsame.2, hstore_same]; rfl
          · have hne : c.key ≠ keyOf ds cfg x ∨ (c.name, Kind.value) ≠ (n, Kind.value) := by
              by_contra hcon
              push Not at hcon
              exact hsame ⟨hcon.1, by simpa using hcon.2⟩
            rw [hother c.key (c.name, .value) hne]; exact hrec
        · simp only [List.mem_singleton] at hc
          subst hc
          simp [hstore_same]
      · intro _ hsj c hc hk
        rcases List.mem_append.mp hc with hc | hc
        · rw [hother c.key (c.name, .jacobian) (Or.inr (by simp))]
          exact h.jac_calls_recorded hdb hsj c hc hk
        · simp only [List.mem_singleton] at hc
          subst hc
          simp at hk
      · intro _
        have hf : List.filter (fun c => c.kind == Kind.value)
            [({ name := n, kind := .value, key := keyOf ds cfg x, point := phys ds cfg x } : Call)]
            = [{ name := n, kind := .value, key := keyOf ds cfg x, point := phys ds cfg x }] := by
          simp [List.filter_cons]
        simp only [List.filter_append, List.map_append, hf, List.map_cons, List.map_nil]
        apply nodup_append_singleton _ _ (h.value_calls_unique hdb)
        intro hid
        obtain ⟨c, hcf, hcid⟩ := List.mem_map.mp hid
        have hc := (List.mem_filter.mp hcf)
        have hrec := h.value_calls_recorded hdb c hc.1 (by simpa using hc.2)
        simp only [callId, Prod.mk.injEq] at hcid
        rw [hcid.2.2, hcid.1, hl] at hrec
        cases hrec
      · intro _ hsj
        simp only [List.filter_append, List.map_append]
        have : List.filter (fun c => c.kind == Kind.jacobian)
            [({ name := n, kind := .value, key := keyOf ds cfg x, point := phys ds cfg x } : Call)] = [] := by
          simp [List.filter_cons]
        rw [this]
        simpa using h.jac_calls_unique hdb hsj
  · have hdb' : cfg.useDb = false := by simpa using hdb
    simp only [hdb', Bool.not_false, if_true]
    refine ⟨h.values, h.jacs, h.keys, ?_, ?_, ?_, ?_, ?_⟩
    · intro c hc
      rcases List.mem_append.mp hc with hc | hc
      · exact h.call_points c hc
      · simp only [List.mem_singleton] at hc
        subst hc
        simp [physOfKey_keyOf]
    · intro hcon; rw [hdb'] at hcon; cases hcon
    · intro hcon; rw [hdb'] at hcon; cases hcon
    · intro hcon; rw [hdb'] at hcon; cases hcon
    · intro hcon; rw [hdb'] at hcon; cases hcon

theorem inv_evalJac (st : St) (h : Inv ds cfg val jac st) (n : String) (x : List Rat) :
    Inv ds cfg val jac (evalJac ds cfg jac st n x).1 := by
  unfold evalJac
  by_cases hdb : cfg.useDb = true
  · simp only [hdb, Bool.not_true, Bool.false_eq_true, if_false]
    cases hl : lookupOut st.db (keyOf ds cfg x) (n, .jacobian) with
    | some v => exact h
    | none =>
      by_cases hsj : cfg.storeJac = true
      · simp only [hsj, if_true]
        have hstore_same := lookupOut_store_same st.db (keyOf ds cfg x) (n, .jacobian)
          (jacRecorded ds cfg jac n x)
        have hother : ∀ k' n', (k' ≠ keyOf ds cfg x ∨ n' ≠ (n, Kind.jacobian)) →
            lookupOut (store st.db (keyOf ds cfg x) (n, .jacobian) (jacRecorded ds cfg jac n x)) k' n'
              = lookupOut st.db k' n' :=
          fun k' n' hne => lookupOut_store_other st.db _ k' _ n' _ hne
        refine ⟨?_, ?_, nodup_store _ _ _ _ h.keys, ?_, ?_, ?_, ?_, ?_⟩
        · intro k m v hv
          rw [hother k (m, .value) (Or.inr (by simp))] at hv
          exact h.values k m v hv
        · intro k m v hv
          by_cases hk : k = keyOf ds cfg x ∧ m = n
          · obtain ⟨rfl, rfl⟩ := hk
            rw [hstore_same] at hv
            rw [← jacRecorded_eq]
            exact (Option.some.inj hv).symm
          · have hne : k ≠ keyOf ds cfg x ∨ (m, Kind.jacobian) ≠ (n, Kind.jacobian) := by
              by_contra hc
              push Not at hc
              exact hk ⟨hc.1, by simpa using hc.2⟩
            rw [hother k (m, .jacobian) hne] at hv
            exact h.jacs k m v hv
        · intro c hc
          rcases List.mem_append.mp hc with hc | hc
          · exact h.call_points c hc
          · simp only [List.mem_singleton] at hc
            subst hc
            simp [physOfKey_keyOf]
        · intro _ c hc hk
          rcases List.mem_append.mp hc with hc | hc
          · rw [hother c.key (c.name, .value) (Or.inr (by simp))]
            exact h.value_calls_recorded hdb c hc hk
          · simp only [List.mem_singleton] at hc
            subst hc
            simp at hk
        · intro _ _ c hc hk
          rcases List.mem_append.mp hc with hc | hc
          · have hrec := h.jac_calls_recorded hdb hsj c hc hk
            by_cases hsame : c.key = keyOf ds cfg x ∧ c.name = n
            · rw [hsame.1, hsame.2, hstore_same]; rfl
            · have hne : c.key ≠ keyOf ds cfg x ∨ (c.name, Kind.jacobian) ≠ (n, Kind.jacobian) := by
                by_contra hcon
                push Not at hcon
                exact hsame ⟨hcon.1, by simpa using hcon.2⟩
              rw [hother c.key (c.name, .jacobian) hne]; exact hrec
          · simp only [List.mem_singleton] at hc
            subst hc
            simp [hstore_same]
        · intro _
          simp only [List.filter_append, List.map_append]
          have : List.filter (fun c => c.kind == Kind.value)
              [({ name := n, kind := .jacobian, key := keyOf ds cfg x, point := phys ds cfg x } : Call)] = [] := by
            simp [List.filter_cons]
          rw [this]
          simpa using h.value_calls_unique hdb
        · intro _ _
          have hf : List.filter (fun c => c.kind == Kind.jacobian)
              [({ name := n, kind := .jacobian, key := keyOf ds cfg x, point := phys ds cfg x } : Call)]
              = [{ name := n, kind := .jacobian, key := keyOf ds cfg x, point := phys ds cfg x }] := by
            simp [List.filter_cons]
          simp only [List.filter_append, List.map_append, hf, List.map_cons, List.map_nil]
          apply nodup_append_singleton _ _ (h.jac_calls_unique hdb hsj)
          intro hid
          obtain ⟨c, hcf, hcid⟩ := List.mem_map.mp hid
          have hc := (List.mem_filter.mp hcf)
          have hrec := h.jac_calls_recorded hdb hsj c hc.1 (by simpa using hc.2)
          simp only [callId, Prod.mk.injEq] at hcid
          rw [hcid.2.2, hcid.1, hl] at hrec
          cases hrec
      · have hsj' : cfg.storeJac = false := by simpa using hsj
        simp only [hsj', Bool.false_eq_true, if_false]
        refine ⟨h.values, h.jacs, h.keys, ?_, ?_, ?_, ?_, ?_⟩
        · intro c hc
          rcases List.mem_append.mp hc with hc | hc
          · exact h.call_points c hc
          · simp only [List.mem_singleton] at hc
            subst hc
            simp [physOfKey_keyOf]
        · intro _ c hc hk
          rcases List.mem_append.mp hc with hc | hc
          · exact h.value_calls_recorded hdb c hc hk
          · simp only [List.mem_singleton] at hc
            subst hc
            simp at hk
        · intro _ hcon; rw [hsj'] at hcon; cases hcon
        · intro _
          simp only [List.filter_append, List.map_append]
          have : List.filter (fun c => c.kind == Kind.value)
              [({ name := n, kind := .jacobian, key := keyOf ds cfg x, point := phys ds cfg x } : Call)] = [] := by
            simp [List.filter_cons]
          rw [this]
          simpa using h.value_calls_unique hdb
        · intro _ hcon; rw [hsj'] at hcon; cases hcon
  · have hdb' : cfg.useDb = false := by simpa using hdb
    simp only [hdb', Bool.not_false, if_true]
    refine ⟨h.values, h.jacs, h.keys, ?_, ?_, ?_, ?_, ?_⟩
    · intro c hc
      rcases List.mem_append.mp hc with hc | hc
      · exact h.call_points c hc
      · simp only [List.mem_singleton] at hc
        subst hc
        simp [physOfKey_keyOf]
    · intro hcon; rw [hdb'] at hcon; cases hcon
    · intro hcon; rw [hdb'] at hcon; cases hcon
    · intro hcon; rw [hdb'] at hcon; cases hcon
    · intro hcon; rw [hdb'] at hcon; cases hcon

/-- **Every reachable state satisfies the invariant**: for every request history (any
    interleaving of value/Jacobian requests, repeated points, Jacobian before value). -/
theorem inv_reachable (rs : List Req) : Inv ds cfg val jac (run ds cfg val jac St.init rs) := by
  have gen : ∀ (rs : List Req) (st : St), Inv ds cfg val jac st → Inv ds cfg val jac (run ds cfg val jac st rs) := by
    intro rs
    induction rs with
    | nil => intro st h; exact h
    | cons r rs ih =>
      intro st h
      simp only [run, List.foldl_cons]
      apply ih
      unfold step
      cases r.kind
      · exact inv_evalValue ds cfg val jac st h r.name r.x
      · exact inv_evalJac ds cfg val jac st h r.name r.x
  exact gen rs St.init (inv_init ds cfg val jac)

/-- **No original value function is ever called twice for the same database point**, along any
    history (database on); the same for Jacobians when they are stored; and every call happens at
    the physical point of its key. Database keys are unique. -/
theorem calls_unique_along_history (rs : List Req) (hdb : cfg.useDb = true) :
    let st := run ds cfg val jac St.init rs
    ((st.calls.filter (fun c => c.kind == .value)).map callId).Nodup ∧
    (cfg.storeJac = true → ((st.calls.filter (fun c => c.kind == .jacobian)).map callId).Nodup) ∧
    (∀ c ∈ st.calls, c.point = physOfKey ds cfg c.key) ∧
    (st.db.map (·.key)).Nodup := by
  have h := inv_reachable ds cfg val jac rs
  exact ⟨h.value_calls_unique hdb, h.jac_calls_unique hdb, h.call_points, h.keys⟩

/-- **Same result as the first time**: two value requests mapping to the same database key return
    the same vector, whatever happened in between. -/
theorem same_result_as_first_time (rs1 rs2 : List Req) (n : String) (x y : List Rat)
    (hxy : keyOf ds cfg x = keyOf ds cfg y) :
    (evalValue ds cfg val (run ds cfg val jac St.init rs1) n x).2
      = (evalValue ds cfg val (run ds cfg val jac St.init (rs1 ++ rs2)) n y).2 := by
  rw [eval_value_faithful ds cfg val jac _ (inv_reachable ds cfg val jac rs1),
    eval_value_faithful ds cfg val jac _ (inv_reachable ds cfg val jac (rs1 ++ rs2)),
    ← physOfKey_keyOf, ← physOfKey_keyOf ds cfg y, hxy]

end


/-! ### The container of the user's Jacobian and `support_sparse_jacobian` are unobservable

The Jacobian sequence scales a sparse container by the factor of each entry's *column*; this
commutes with `todense`, so `jac → to_dense → normalize_grad` and `jac → normalize_grad [→ to_dense]`
denote the same matrix, whatever the format the entries are stored in. -/

/-- **The Jacobian sequence, viewed as a matrix, is `normalize_grad` of the user's matrix**, for a
    dense array and for every sparse container (any format, any stored entries, duplicates
    included), with or without `support_sparse_jacobian`. -/
theorem jacSeq_view (ds : DS) (nrm ssj : Bool) (u : UserJac)
    (h : ∀ s, u = .sparse s → ColsOk ds s.ncols) :
    (jacSeq ds nrm ssj u).view = if nrm then u.view.map ds.normalizeGrad else u.view := by
  cases u with
  | dense m => cases nrm <;> simp [jacSeq, UserJac.view]
  | sparse s =>
    have hc := h s rfl
    cases ssj
    · cases nrm <;> simp [jacSeq, UserJac.view]
    · cases nrm
      · simp [jacSeq, UserJac.view]
      · simp only [jacSeq, UserJac.view, if_true]
        rw [toDense_scaleCols]
        apply List.map_congr_left
        intro row hrow
        rw [normalizeGrad_eq_mapIdx]
        rw [toDense_rows_length s row hrow]
        exact hc

/-- **The recorded Jacobian, viewed as a matrix, is `unnormalize_grad` of what the sequence
    returned**, for dense and sparse containers alike. -/
theorem recSeq_view (ds : DS) (nrm : Bool) (jn : UserJac)
    (h : ∀ s, jn = .sparse s → ColsOk ds s.ncols) :
    (recSeq ds nrm jn).view = if nrm then jn.view.map ds.unnormalizeGrad else jn.view := by
  cases nrm
  · simp [recSeq]
  · cases jn with
    | dense m => simp [recSeq, UserJac.view]
    | sparse s =>
      have hc := h s rfl
      simp only [recSeq, UserJac.view, if_true]
      rw [toDense_scaleCols]
      apply List.map_congr_left
      intro row hrow
      rw [unnormalizeGrad_eq_mapIdx]
      rw [toDense_rows_length s row hrow]
      exact hc

/-- Sparse outputs of the sequence have the columns of the user's container. -/
theorem jacSeq_cols (ds : DS) (nrm ssj : Bool) (u : UserJac)
    (h : ∀ s, u = .sparse s → ColsOk ds s.ncols) :
    ∀ s, jacSeq ds nrm ssj u = .sparse s → ColsOk ds s.ncols := by
  intro s hs
  cases u with
  | dense m => simp [jacSeq] at hs
  | sparse s0 =>
    have hc := h s0 rfl
    cases ssj
    · simp [jacSeq] at hs
    · cases nrm
      · simp only [jacSeq, if_true, Bool.false_eq_true, if_false, UserJac.sparse.injEq] at hs
        subst hs; exact hc
      · simp only [jacSeq, if_true, UserJac.sparse.injEq] at hs
        subst hs; exact hc

section
variable (ds : DS) (cfg : Cfg) (ssj : Bool) (val : String → List Rat → List Rat)
  (ujac : String → List Rat → UserJac)

/-- Every sparse Jacobian the user returns has one column per design-space component. -/
def ShapesOk : Prop := ∀ n p s, ujac n p = .sparse s → ColsOk ds s.ncols

/-- The user's Jacobian as a matrix. -/
def viewJac (n : String) (p : List Rat) : Mat := (ujac n p).view

theorem jacCallerC_eq (h : ShapesOk ds ujac) (n : String) (x : List Rat) :
    jacCallerC ds cfg ssj ujac n x = jacCaller ds cfg (viewJac ujac) n x := by
  unfold jacCallerC jacCaller viewJac
  exact jacSeq_view ds cfg.normalized ssj _ (h n _)

theorem jacRecordedC_eq (h : ShapesOk ds ujac) (n : String) (x : List Rat) :
    jacRecordedC ds cfg ssj ujac n x = jacRecorded ds cfg (viewJac ujac) n x := by
  unfold jacRecordedC jacRecorded
  rw [recSeq_view ds cfg.normalized _ (jacSeq_cols ds cfg.normalized ssj _ (h n _))]
  have := jacCallerC_eq ds cfg ssj ujac h n x
  unfold jacCallerC at this
  rw [this]

/-- **One Jacobian request on the container level = the same request on the matrix level.** -/
theorem evalJacC_eq (h : ShapesOk ds ujac) (st : St) (n : String) (x : List Rat) :
    evalJacC ds cfg ssj ujac st n x = evalJac ds cfg (viewJac ujac) st n x := by
  unfold evalJacC evalJac
  rw [jacCallerC_eq ds cfg ssj ujac h, jacRecordedC_eq ds cfg ssj ujac h]

/-- **Every history on the container level = the same history on the matrix level**: the format
    the user's Jacobian is stored in (dense, CSR, CSC, COO; entry order; explicit duplicates) and
    the `support_sparse_jacobian` switch never change returned Jacobians, database or call log. -/
theorem runC_eq_run (h : ShapesOk ds ujac) (rs : List Req) (st : St) :
    runC ds cfg ssj val ujac st rs = run ds cfg val (viewJac ujac) st rs := by
  induction rs generalizing st with
  | nil => rfl
  | cons r rs ih =>
    simp only [runC, run, List.foldl_cons]
    have hstep : stepC ds cfg ssj val ujac st r = step ds cfg val (viewJac ujac) st r := by
      unfold stepC step
      cases r.kind
      · rfl
      · simp only [evalJacC_eq ds cfg ssj ujac h]
    rw [hstep]
    exact ih _

/-- Two users returning the same matrices in different containers, with different
    `support_sparse_jacobian` switches, are indistinguishable. -/
theorem container_unobservable (ssj' : Bool) (ujac' : String → List Rat → UserJac)
    (h : ShapesOk ds ujac) (h' : ShapesOk ds ujac') (hv : ∀ n p, (ujac n p).view = (ujac' n p).view)
    (rs : List Req) :
    runC ds cfg ssj val ujac St.init rs = runC ds cfg ssj' val ujac' St.init rs := by
  rw [runC_eq_run ds cfg ssj val ujac h, runC_eq_run ds cfg ssj' val ujac' h']
  have : viewJac ujac = viewJac ujac' := by
    funext n p; exact hv n p
  rw [this]

/-- **Faithful Jacobian on the container level**, along every history. -/
theorem evalJacC_faithful (h : ShapesOk ds ujac) (rs : List Req) (n : String) (x : List Rat) :
    (evalJacC ds cfg ssj ujac (runC ds cfg ssj val ujac St.init rs) n x).2
      = jacCaller ds cfg (viewJac ujac) n x := by
  rw [runC_eq_run ds cfg ssj val ujac h, evalJacC_eq ds cfg ssj ujac h]
  exact eval_jac_faithful ds cfg val (viewJac ujac) _ (inv_reachable ds cfg val (viewJac ujac) rs) n x

end

/-! ### Design spaces reached through edit histories -/

/-- The flat views of a design space reached by ANY history of public edits have its dimension:
    the container theorems apply to every such space. -/
theorem colsOk_of_edits (tol : Rat) (ops : List Op) :
    ColsOk (spaceOf tol ops) (spaceOf tol ops).dimension := by
  have hwf := wf_reachable tol ops
  have hv := views_have_dimension (DS.empty.run tol ops) hwf
  exact ⟨hv.2.2.1, hv.1, hv.2.1⟩

private theorem find?_map_update (vars : List Var) (n : String) (f : Var → Var)
    (hf : ∀ v, (f v).name = v.name) :
    (vars.map (fun v => if v.name == n then f v else v)).find? (·.name == n)
      = (vars.find? (·.name == n)).map f := by
  induction vars with
  | nil => rfl
  | cons v vs ih =>
    simp only [List.map_cons, List.find?_cons]
    by_cases hv : (v.name == n) = true
    · simp [hv, hf]
    · simp only [hv, Bool.false_eq_true, if_false]
      exact ih

/-- **The normalization policy follows a bound edit**: after `set_upper_bound`, the variable carries
    the new upper bound (everything else unchanged), hence its policy — a function of the bounds
    stored in the variable — is the policy of the NEW bounds. -/
theorem policy_follows_setUpperBound (d d' : DS) (n : String) (ub : List (Option Rat)) (v : Var)
    (hv : d.find? n = some v) (h : d.setUpperBound n ub = some d') :
    d'.find? n = some { v with ub := ub } ∧ d'.intNorm = d.intNorm ∧
    Var.normMask d'.intNorm { v with ub := ub }
      = (v.lb.zip ub).map (fun p => (!v.isInt || d.intNorm) && p.1.isSome && p.2.isSome) := by
  unfold DS.setUpperBound at h
  rw [hv] at h
  simp only at h
  split at h
  · simp only [Option.some.injEq] at h
    subst h
    refine ⟨?_, rfl, rfl⟩
    unfold DS.find? updVar
    simp only
    unfold DS.find? at hv
    rw [find?_map_update d.vars n (fun v => { v with ub := ub }) (fun _ => rfl), hv]
    rfl
  · cases h

theorem policy_follows_setLowerBound (d d' : DS) (n : String) (lb : List (Option Rat)) (v : Var)
    (hv : d.find? n = some v) (h : d.setLowerBound n lb = some d') :
    d'.find? n = some { v with lb := lb } ∧ d'.intNorm = d.intNorm ∧
    Var.normMask d'.intNorm { v with lb := lb }
      = (lb.zip v.ub).map (fun p => (!v.isInt || d.intNorm) && p.1.isSome && p.2.isSome) := by
  unfold DS.setLowerBound at h
  rw [hv] at h
  simp only at h
  split at h
  · simp only [Option.some.injEq] at h
    subst h
    refine ⟨?_, rfl, rfl⟩
    unfold DS.find? updVar
    simp only
    unfold DS.find? at hv
    rw [find?_map_update d.vars n (fun v => { v with lb := lb }) (fun _ => rfl), hv]
    rfl
  · cases h

/-! ### The physical point, component by component -/

/-- **Physical point with normalized inputs**: component `i` is the affine image
    `x_i (ub_i - lb_i) + lb_i` when the component is normalized *in the current design space*
    (whatever the edits that led to it), `x_i` otherwise, then rounded half-to-even when the
    component is an integer. -/
theorem phys_component (ds : DS) (cfg : Cfg) (hn : cfg.normalized = true) (x : List Rat) (i : Nat)
    (nm it : Bool) (l u : Option Rat) (xi : Rat)
    (hm : ds.normMask[i]? = some nm) (hl : ds.flatLb[i]? = some l) (hu : ds.flatUb[i]? = some u)
    (hi : ds.intMask[i]? = some it) (hx : x[i]? = some xi) :
    (phys ds cfg x)[i]? = some (roundIf it (unnormComp true nm l u xi)) := by
  unfold phys DS.unnormalizeVect
  simp only [hn, if_true]
  rw [List.getElem?_zipWith, hi, zipWith4_getElem?_all, hm, hl, hu, hx]
  rfl

/-- A bounded normalized component: `lb + x (ub - lb)`. -/
theorem unnormComp_bounded (l u x : Rat) :
    unnormComp true true (some l) (some u) x = l + x * (u - l) := by
  simp [unnormComp, scaleOf]; ring

/-- **Integer components are rounded to a nearest integer** (never truncated, floored or ceiled):
    the physical value is an integer within 1/2 of the unrounded image. -/
theorem phys_integer_component_nearest (ds : DS) (cfg : Cfg) (hn : cfg.normalized = true)
    (x : List Rat) (i : Nat) (nm : Bool) (l u : Option Rat) (xi : Rat)
    (hm : ds.normMask[i]? = some nm) (hl : ds.flatLb[i]? = some l) (hu : ds.flatUb[i]? = some u)
    (hi : ds.intMask[i]? = some true) (hx : x[i]? = some xi) :
    ∃ k : Int, (phys ds cfg x)[i]? = some (k : Rat) ∧
      (k : Rat) - unnormComp true nm l u xi ≤ 1 / 2 ∧ unnormComp true nm l u xi - (k : Rat) ≤ 1 / 2 := by
  refine ⟨GV.roundHalfEven (unnormComp true nm l u xi), ?_, GV.C14.roundHalfEven_near _⟩
  rw [phys_component ds cfg hn x i nm true l u xi hm hl hu hi hx]
  rfl

/-- Without normalized inputs the physical point is the caller's point, integer components rounded
    when rounding is on. -/
theorem phys_component_unnormalized (ds : DS) (cfg : Cfg) (hn : cfg.normalized = false)
    (x : List Rat) (i : Nat) (it : Bool) (xi : Rat)
    (hi : ds.intMask[i]? = some it) (hx : x[i]? = some xi) :
    (phys ds cfg x)[i]? = some (if roundOn ds cfg then roundIf it xi else xi) := by
  unfold phys DS.roundVect
  simp only [hn, Bool.false_eq_true, if_false]
  cases roundOn ds cfg
  · simpa using hx
  · simp only [if_true]
    rw [List.getElem?_zipWith, hi, hx]

/-- **Whole sessions**: for every history of public edits of the design space, every preprocessing
    configuration (incl. `support_sparse_jacobian`), every user function and every container of its
    Jacobian, every request history: values and Jacobians are faithful. -/
theorem session_faithful (tol : Rat) (ops : List Op) (cfg : Cfg) (ssj : Bool)
    (val : String → List Rat → List Rat) (ujac : String → List Rat → UserJac)
    (hshape : ∀ n p s, ujac n p = .sparse s → s.ncols = (spaceOf tol ops).dimension)
    (rs : List Req) (n : String) (x : List Rat) :
    (evalValue (spaceOf tol ops) cfg val (runC (spaceOf tol ops) cfg ssj val ujac St.init rs) n x).2
        = val n (phys (spaceOf tol ops) cfg x) ∧
    (evalJacC (spaceOf tol ops) cfg ssj ujac (runC (spaceOf tol ops) cfg ssj val ujac St.init rs) n x).2
        = jacCaller (spaceOf tol ops) cfg (viewJac ujac) n x := by
  have hs : ShapesOk (spaceOf tol ops) ujac := by
    intro m p s hsp
    rw [hshape m p s hsp]
    exact colsOk_of_edits tol ops
  refine ⟨?_, evalJacC_faithful _ cfg ssj val ujac hs rs n x⟩
  rw [runC_eq_run _ cfg ssj val ujac hs]
  exact eval_value_faithful _ cfg val (viewJac ujac) _ (inv_reachable _ cfg val (viewJac ujac) rs) n x

/-! ### Function roles: every preprocessing switch reaches every role

`preprocess_functions` wraps the objective, every constraint, every observable and the copies of the
observables held by the new-iteration list.  `roleCfg` is what each role receives; the theorems say
that a request through the accessor of ANY role behaves as the one-configuration state machine
above (so every theorem of this file holds role by role), and pin down the only role-dependent
switch (new-iteration observables take physical coordinates). -/

section Roles
variable (ds : DS) (cfg : Cfg) (ssj : Bool) (val : String → List Rat → List Rat)
  (ujac : String → List Rat → UserJac)

/-- Objective, constraints and observables are preprocessed with exactly the caller's switches. -/
theorem roleCfg_of_accessor (r : Role) (h : r ≠ .newIterObservable) : roleCfg cfg r = cfg := by
  cases r <;> simp_all [roleCfg]

/-- With functions of physical coordinates the new-iteration copies get the caller's switches too. -/
theorem roleCfg_of_physical (h : cfg.normalized = false) (r : Role) : roleCfg cfg r = cfg := by
  cases r <;> simp [roleCfg]
  cases cfg
  simp_all

/-- Database, Jacobian storage and **integer rounding** are the caller's in every role. -/
theorem roleCfg_switches (r : Role) :
    (roleCfg cfg r).useDb = cfg.useDb ∧ (roleCfg cfg r).storeJac = cfg.storeJac ∧
    (roleCfg cfg r).roundInts = cfg.roundInts ∧ roundOn ds (roleCfg cfg r) = roundOn ds cfg := by
  cases r <;> simp [roleCfg, roundOn]

/-- **Rounding off, physical coordinates** (the class of seeded change r3m1): whatever the role,
    the original function is evaluated at the caller's point itself - off-grid integer components
    included - and the record goes under that very point. -/
theorem role_point_without_rounding (hn : cfg.normalized = false) (hr : cfg.roundInts = false)
    (r : Role) (x : List Rat) :
    phys ds (roleCfg cfg r) x = x ∧ keyOf ds (roleCfg cfg r) x = x := by
  rw [roleCfg_of_physical cfg hn r]
  unfold phys keyOf roundOn
  simp [hn, hr]

/-- **Rounding on, physical coordinates**: whatever the role, the original function is evaluated at
    the rounded point (`round_vect`), integer components to a nearest integer. -/
theorem role_point_with_rounding (hn : cfg.normalized = false) (hr : roundOn ds cfg = true)
    (r : Role) (x : List Rat) :
    phys ds (roleCfg cfg r) x = ds.roundVect x := by
  rw [roleCfg_of_physical cfg hn r]
  unfold phys
  simp [hn, hr]

/-- A request is *plain* when it goes through `objective` / `constraints` / `observables`, or through
    the new-iteration list of a problem whose functions take physical coordinates. -/
def Plain (r : RReq) : Prop := r.role ≠ .newIterObservable ∨ cfg.normalized = false

theorem stepR_eq_stepC (st : St) (r : RReq) (h : Plain cfg r) :
    stepR ds cfg ssj val ujac st r = stepC ds cfg ssj val ujac st r.req := by
  unfold stepR
  rcases h with h | h
  · rw [roleCfg_of_accessor cfg r.role h]
  · rw [roleCfg_of_physical cfg h r.role]

/-- **Roles are unobservable**: a history of requests spread over the roles in any way leaves the
    same database and call log - hence returns the same data - as the same requests on the
    one-configuration state machine. -/
theorem runR_eq_runC (rs : List RReq) (h : ∀ r ∈ rs, Plain cfg r) (st : St) :
    runR ds cfg ssj val ujac st rs = runC ds cfg ssj val ujac st (rs.map (·.req)) := by
  induction rs generalizing st with
  | nil => rfl
  | cons r rs ih =>
    simp only [runR, runC, List.foldl_cons, List.map_cons]
    rw [stepR_eq_stepC ds cfg ssj val ujac st r (h r (by simp))]
    exact ih (fun q hq => h q (by simp [hq])) _

/-- **New-iteration observables, normalized functions**: a value request at the physical point
    `unnormalize_vect x` through the new-iteration copy is the very same transition (returned value,
    database, call log) as the value request at `x` through the observable. -/
theorem newIter_value_request_eq (hn : cfg.normalized = true) (st : St) (n : String) (x : List Rat) :
    evalValue ds (roleCfg cfg .newIterObservable) val st n (ds.unnormalizeVect true x)
      = evalValue ds cfg val st n x := by
  have hp : phys ds (roleCfg cfg .newIterObservable) (ds.unnormalizeVect true x) = phys ds cfg x := by
    have hn' : (roleCfg cfg .newIterObservable).normalized = false := rfl
    cases h : roundOn ds (roleCfg cfg .newIterObservable) <;>
      simp [phys, hn', hn, h, roundVect_unnormalizeVect]
  have hk : keyOf ds (roleCfg cfg .newIterObservable) (ds.unnormalizeVect true x) = keyOf ds cfg x := by
    unfold keyOf
    simp [roleCfg, hn]
  unfold evalValue
  rw [hp, hk]
  simp [roleCfg]

end Roles

/-- **Whole sessions, role by role**: for every history of public edits of the design space, every
    preprocessing configuration, every user function and container, every history of requests spread
    over objective / constraint / observable / new-iteration accessors, and every role the next
    request goes through: value and Jacobian are the user's function and derivative at the physical
    point of the CALLER's configuration. -/
theorem role_session_faithful (tol : Rat) (ops : List Op) (cfg : Cfg) (ssj : Bool)
    (val : String → List Rat → List Rat) (ujac : String → List Rat → UserJac)
    (hshape : ∀ n p s, ujac n p = .sparse s → s.ncols = (spaceOf tol ops).dimension)
    (rs : List RReq) (hrs : ∀ r ∈ rs, Plain cfg r) (role : Role)
    (hrole : role ≠ .newIterObservable ∨ cfg.normalized = false) (n : String) (x : List Rat) :
    (evalValue (spaceOf tol ops) (roleCfg cfg role) val
        (runR (spaceOf tol ops) cfg ssj val ujac St.init rs) n x).2
        = val n (phys (spaceOf tol ops) cfg x) ∧
    (evalJacC (spaceOf tol ops) (roleCfg cfg role) ssj ujac
        (runR (spaceOf tol ops) cfg ssj val ujac St.init rs) n x).2
        = jacCaller (spaceOf tol ops) cfg (viewJac ujac) n x := by
  have hc : roleCfg cfg role = cfg := by
    rcases hrole with h | h
    · exact roleCfg_of_accessor cfg role h
    · exact roleCfg_of_physical cfg h role
  rw [hc, runR_eq_runC _ cfg ssj val ujac rs hrs]
  exact session_faithful tol ops cfg ssj val ujac hshape (rs.map (·.req)) n x

/-! ### Normalisation of linear functions is exact -/

/-- `MDOLinearFunction.normalize` on one coefficient: `a·(l + s·t) = (a·s)·t + a·l`. -/
theorem linear_normalize_component (a l s t : Rat) : a * (l + s * t) = (a * s) * t + a * l := by
  ring

/-! ### Non-vacuity -/

def exDs : DS := { vars := [⟨"x", false, [some 0, some 1], [some 2, some 1], none⟩] }
def exCfg : Cfg := ⟨true, true, true, false⟩
def exVal (_ : String) (x : List Rat) : List Rat := [x.sum]
def exJac (_ : String) (x : List Rat) : Mat := [x.map (fun _ => 1)]

example : (run exDs exCfg exVal exJac St.init
    [⟨"f", .jacobian, [1/2, 0]⟩, ⟨"f", .value, [1/2, 0]⟩, ⟨"f", .value, [1/2, 7]⟩]).calls.length = 2 := by
  decide +kernel
example : (evalJac exDs exCfg exJac St.init "f" [1/2, 0]).2 = [[2, 0]] := by decide +kernel
example : (evalJac exDs exCfg exJac St.init "f" [1/2, 0]).1.db.map (·.outs)
    = [[(("f", .jacobian), [[1, 0]])]] := by decide +kernel

/-! Containers: a CSC Jacobian on a space with ranges 2, 4 and an unbounded component (hypotheses of
    `jacSeq_view` / `ShapesOk` are satisfiable; both orders of `to_dense` and `normalize_grad` agree). -/
def exSp : Sparse := ⟨.csc, 2, 3, [(0, 0, 1), (1, 0, 5), (1, 1, 4), (0, 2, 1), (1, 2, 2)]⟩
def exDs3 : DS := { vars := [⟨"a", false, [some 0], [some 2], none⟩,
  ⟨"b", false, [some (-1)], [some 3], none⟩, ⟨"c", false, [none], [none], none⟩] }

example : ColsOk exDs3 exSp.ncols := by unfold ColsOk; decide
example : (jacSeq exDs3 true true (.sparse exSp)).view = [[2, 0, 1], [10, 16, 2]] := by decide +kernel
example : (jacSeq exDs3 true false (.sparse exSp)).view = [[2, 0, 1], [10, 16, 2]] := by decide +kernel
example : (jacSeq exDs3 true false (.dense exSp.toDense)).view = [[2, 0, 1], [10, 16, 2]] := by
  decide +kernel

/-- The defect class the column theorem excludes: the `indices` of a CSC container are ROW indices;
    scaling the stored entries by the factor of that index does not commute with `todense`. -/
def scaleByRowIndex (f : Nat → Rat) (s : Sparse) : Sparse :=
  { s with entries := s.entries.map (fun e => (e.1, e.2.1, e.2.2 * f e.1)) }
example : (scaleByRowIndex (colFactor exDs3) exSp).toDense ≠ exSp.toDense.map exDs3.normalizeGrad := by
  decide +kernel

/-! Edit histories: `x` created in `[0, +inf)` gets its upper bound from the setter (normalized
    afterwards), and loses it again (not normalized any more). -/
def exOps : List Op := [.add ⟨"x", false, [some 0], [none], some [1]⟩,
  .add ⟨"y", false, [some (-1)], [some 1], none⟩, .setUb "x" [some 4]]
example : (spaceOf 0 exOps).normMask = [true, true] := by decide +kernel
example : phys (spaceOf 0 exOps) exCfg [1/4, 3/4] = [1, 1/2] := by decide +kernel
example : phys (spaceOf 0 (exOps ++ [.setUb "x" [none]])) exCfg [2, 1/4] = [2, -1/2] := by
  decide +kernel

/-! Integer-only space: fractional parts on both sides of 1/2, negative values, ties to even. -/
def exInt : DS := { vars := [⟨"n", true, [some (-10), some (-10)], [some 10, some 10], some [1, 1]⟩,
  ⟨"m", true, [some 0], [some 20], some [4]⟩] }
example : phys exInt ⟨true, true, true, true⟩ [27/10, -8/5, 5/2] = [3, -2, 2] := by decide +kernel
example : phys exInt ⟨true, true, true, true⟩ [-36/10, 11/5, 7/2] = [-4, 2, 4] := by decide +kernel

-- roles: rounding off, physical coordinates, an off-grid integer component: every role at the caller's point
example : ∀ r : Role, phys exInt (roleCfg ⟨false, true, true, false⟩ r) [8/5, -8/5, 5/2] = [8/5, -8/5, 5/2] := by
  intro r; cases r <;> decide +kernel
example : ∀ r : Role, phys exInt (roleCfg ⟨false, true, true, true⟩ r) [8/5, -8/5, 5/2] = [2, -2, 2] := by
  intro r; cases r <;> decide +kernel
-- a mixed history over the four roles (physical coordinates) is a plain history
example : ∀ r ∈ ([⟨.objective, ⟨"f", .value, [8/5, 0, 0]⟩⟩, ⟨.newIterObservable, ⟨"o", .jacobian, [8/5, 0, 0]⟩⟩,
    ⟨.constraint, ⟨"g", .value, [1, 0, 0]⟩⟩] : List RReq), Plain ⟨false, true, true, false⟩ r := by
  intro r hr; right; rfl
-- new-iteration copy, normalized functions: the physical point of [27/10, -8/5, 5/2] is [3, -2, 2]
example : (evalValue exInt (roleCfg ⟨true, true, true, true⟩ .newIterObservable) exVal St.init "o" [3, -2, 2]).2
    = (evalValue exInt ⟨true, true, true, true⟩ exVal St.init "o" [27/10, -8/5, 5/2]).2 := by decide +kernel

end GV.C01
