/-
C01 — property theorems: evaluations of preprocessed problem functions are faithful to the
user's original functions, recorded under the physical point, and memoized — for every design
space, every preprocessing configuration, arbitrary original functions and every request history.
-/
import GemseoVerif.Lemmas.C01

namespace GV.C01
open GV.C02

section
variable (ds : DS) (cfg : Cfg) (val : String → List Rat → List Rat) (jac : String → List Rat → Mat)

/-- The physical point is a function of the database key (in every configuration). -/
theorem physOfKey_keyOf (x : List Rat) : physOfKey ds cfg (keyOf ds cfg x) = phys ds cfg x := by
  unfold physOfKey keyOf phys
  cases cfg.normalized <;> simp

/-- With normalized inputs, or without integer rounding, the database key *is* the physical point. -/
theorem key_is_physical_point (x : List Rat) (h : cfg.normalized = true ∨ roundOn ds cfg = false) :
    keyOf ds cfg x = phys ds cfg x := by
  unfold keyOf phys
  rcases h with h | h
  · simp [h]
  · cases cfg.normalized <;> simp [h]

/-- Jacobian recorded for a key: the physical-space Jacobian. -/
def recordedOfKey (n : String) (k : List Rat) : Mat :=
  let j := jac n (physOfKey ds cfg k)
  if cfg.normalized then (j.map ds.normalizeGrad).map ds.unnormalizeGrad else j

theorem jacRecorded_eq (n : String) (x : List Rat) :
    jacRecorded ds cfg jac n x = recordedOfKey ds cfg jac n (keyOf ds cfg x) := by
  unfold jacRecorded recordedOfKey jacCaller
  rw [physOfKey_keyOf]
  cases cfg.normalized <;> simp

def callId (c : Call) : String × Kind × List Rat := (c.name, c.kind, c.key)

/-- The invariant of the evaluation state machine. -/
structure Inv (st : St) : Prop where
  values : ∀ k n v, lookupOut st.db k (n, .value) = some v → v = [val n (physOfKey ds cfg k)]
  jacs : ∀ k n v, lookupOut st.db k (n, .jacobian) = some v → v = recordedOfKey ds cfg jac n k
  keys : (st.db.map (·.key)).Nodup
  call_points : ∀ c ∈ st.calls, c.point = physOfKey ds cfg c.key
  value_calls_recorded : cfg.useDb = true → ∀ c ∈ st.calls, c.kind = .value →
    (lookupOut st.db c.key (c.name, .value)).isSome = true
  jac_calls_recorded : cfg.useDb = true → cfg.storeJac = true → ∀ c ∈ st.calls, c.kind = .jacobian →
    (lookupOut st.db c.key (c.name, .jacobian)).isSome = true
  value_calls_unique : cfg.useDb = true →
    ((st.calls.filter (fun c => c.kind == .value)).map callId).Nodup
  jac_calls_unique : cfg.useDb = true → cfg.storeJac = true →
    ((st.calls.filter (fun c => c.kind == .jacobian)).map callId).Nodup

theorem inv_init : Inv ds cfg val jac St.init := by
  refine ⟨?_, ?_, ?_, ?_, ?_, ?_, ?_, ?_⟩ <;> simp [St.init, lookupOut, lookupEntry]

/-! ### Faithfulness -/

/-- **Returned value = the user's function at the corresponding physical point**, whether computed
    or served from the database. -/
theorem eval_value_faithful (st : St) (h : Inv ds cfg val jac st) (n : String) (x : List Rat) :
    (evalValue ds cfg val st n x).2 = val n (phys ds cfg x) := by
  unfold evalValue
  by_cases hdb : cfg.useDb = true
  · simp only [hdb, Bool.not_true, Bool.false_eq_true, if_false]
    cases hl : lookupOut st.db (keyOf ds cfg x) (n, .value) with
    | none => rfl
    | some v =>
      have hv := h.values _ _ _ hl
      rw [physOfKey_keyOf] at hv
      subst hv
      rfl
  · have : cfg.useDb = false := by simpa using hdb
    simp [this]

/-- **Returned Jacobian = derivative w.r.t. the caller's coordinates** (`normalize_grad` of the
    user's Jacobian at the physical point in normalized mode, the user's Jacobian otherwise),
    whether computed or served from the database. -/
theorem eval_jac_faithful (st : St) (h : Inv ds cfg val jac st) (n : String) (x : List Rat) :
    (evalJac ds cfg jac st n x).2 = jacCaller ds cfg jac n x := by
  unfold evalJac
  by_cases hdb : cfg.useDb = true
  · simp only [hdb, Bool.not_true, Bool.false_eq_true, if_false]
    cases hl : lookupOut st.db (keyOf ds cfg x) (n, .jacobian) with
    | none => rfl
    | some v =>
      have hv := h.jacs _ _ _ hl
      subst hv
      simp only [recordedOfKey, jacCaller, physOfKey_keyOf]
      cases hn : cfg.normalized
      · simp
      · simp only [if_true, List.map_map]
        apply List.map_congr_left
        intro r _
        exact normalizeGrad_round_trip ds r
  · have : cfg.useDb = false := by simpa using hdb
    simp [this]

/-! ### Recording -/

/-- **The database records the value under the key of the physical point.** -/
theorem db_records_value (st : St) (h : Inv ds cfg val jac st) (hdb : cfg.useDb = true)
    (n : String) (x : List Rat) :
    lookupOut (evalValue ds cfg val st n x).1.db (keyOf ds cfg x) (n, .value)
      = some [val n (phys ds cfg x)] := by
  unfold evalValue
  simp only [hdb, Bool.not_true, Bool.false_eq_true, if_false]
  cases hl : lookupOut st.db (keyOf ds cfg x) (n, .value) with
  | none => simp [lookupOut_store_same]
  | some v =>
    have hv := h.values _ _ _ hl
    rw [physOfKey_keyOf] at hv
    subst hv
    simpa using hl

/-- **The database records the physical-space Jacobian** (when Jacobian storage is on). -/
theorem db_records_jacobian (st : St) (h : Inv ds cfg val jac st) (hdb : cfg.useDb = true)
    (hsj : cfg.storeJac = true) (n : String) (x : List Rat) :
    lookupOut (evalJac ds cfg jac st n x).1.db (keyOf ds cfg x) (n, .jacobian)
      = some (jacRecorded ds cfg jac n x) := by
  unfold evalJac
  simp only [hdb, Bool.not_true, Bool.false_eq_true, if_false]
  cases hl : lookupOut st.db (keyOf ds cfg x) (n, .jacobian) with
  | none => simp [hsj, lookupOut_store_same]
  | some v =>
    have hv := h.jacs _ _ _ hl
    rw [jacRecorded_eq]
    subst hv
    simpa using hl

/-- Component of the recorded Jacobian in normalized mode: the user's partial derivative on every
    component whose scale is non-zero (or that is not normalisable), and **zero on a component whose
    bounds coincide** (inert normalized coordinate). -/
theorem recorded_component (n : Bool) (l u : Option Rat) (g : Rat) :
    normComp false n l u (unnormComp false n l u g)
      = if n && (scaleOf l u == 0) then 0 else g := by
  cases n
  · simp [normComp, unnormComp]
  · simp only [normComp, unnormComp, if_true, Bool.false_eq_true, if_false, add_zero,
      invScaleOf, Bool.true_and, beq_iff_eq]
    by_cases hs : scaleOf l u = 0
    · simp [hs]
    · simp only [hs, if_false]
      field_simp

/-! ### Memoization -/

/-- **A recorded value is served without calling the original function** (state unchanged). -/
theorem memoized_value (st : St) (hdb : cfg.useDb = true) (n : String) (x : List Rat) (row : List Rat)
    (hrec : lookupOut st.db (keyOf ds cfg x) (n, .value) = some [row]) :
    (evalValue ds cfg val st n x).1 = st ∧ (evalValue ds cfg val st n x).2 = row := by
  unfold evalValue
  simp [hdb, hrec]

/-- **A recorded Jacobian is served without calling the original Jacobian.** -/
theorem memoized_jacobian (st : St) (hdb : cfg.useDb = true) (n : String) (x : List Rat) (ju : Mat)
    (hrec : lookupOut st.db (keyOf ds cfg x) (n, .jacobian) = some ju) :
    (evalJac ds cfg jac st n x).1 = st := by
  unfold evalJac
  simp [hdb, hrec]

/-! ### The invariant holds along every history -/

private theorem nodup_append_singleton {α : Type} (l : List α) (a : α) (h : l.Nodup)
    (ha : a ∉ l) : (l ++ [a]).Nodup := by
  rw [List.nodup_append]
  refine ⟨h, by simp, ?_⟩
  intro x hx y hy
  simp only [List.mem_singleton] at hy
  subst hy
  exact fun e => ha (e ▸ hx)

private theorem nodup_store (db : List Entry) (k : List Rat) (n : OutName) (v : Mat)
    (h : (db.map (·.key)).Nodup) : ((store db k n v).map (·.key)).Nodup := by
  rw [store_keys]
  split
  · exact h
  · rename_i hany
    apply nodup_append_singleton _ _ h
    intro ha
    obtain ⟨e, he, hek⟩ := List.mem_map.mp ha
    exact hany (List.any_eq_true.mpr ⟨e, he, by simpa using hek⟩)

theorem inv_evalValue (st : St) (h : Inv ds cfg val jac st) (n : String) (x : List Rat) :
    Inv ds cfg val jac (evalValue ds cfg val st n x).1 := by
  unfold evalValue
  by_cases hdb : cfg.useDb = true
  · simp only [hdb, Bool.not_true, Bool.false_eq_true, if_false]
    cases hl : lookupOut st.db (keyOf ds cfg x) (n, .value) with
    | some v =>
      have hv := h.values _ _ _ hl
      subst hv
      exact h
    | none =>
      -- miss: store and log the call
      have hstore_same := lookupOut_store_same st.db (keyOf ds cfg x) (n, .value) [val n (phys ds cfg x)]
      have hother : ∀ k' n', (k' ≠ keyOf ds cfg x ∨ n' ≠ (n, Kind.value)) →
          lookupOut (store st.db (keyOf ds cfg x) (n, .value) [val n (phys ds cfg x)]) k' n'
            = lookupOut st.db k' n' :=
        fun k' n' hne => lookupOut_store_other st.db _ k' _ n' _ hne
      refine ⟨?_, ?_, nodup_store _ _ _ _ h.keys, ?_, ?_, ?_, ?_, ?_⟩
      · intro k m v hv
        by_cases hk : k = keyOf ds cfg x ∧ m = n
        · obtain ⟨rfl, rfl⟩ := hk
          rw [hstore_same] at hv
          rw [physOfKey_keyOf]
          exact (Option.some.inj hv).symm
        · have hne : k ≠ keyOf ds cfg x ∨ (m, Kind.value) ≠ (n, Kind.value) := by
            by_contra hc
            push Not at hc
            exact hk ⟨hc.1, by simpa using hc.2⟩
          rw [hother k (m, .value) hne] at hv
          exact h.values k m v hv
      · intro k m v hv
        rw [hother k (m, .jacobian) (Or.inr (by simp))] at hv
        exact h.jacs k m v hv
      · intro c hc
        rcases List.mem_append.mp hc with hc | hc
        · exact h.call_points c hc
        · simp only [List.mem_singleton] at hc
          subst hc
          simp [physOfKey_keyOf]
      · intro _ c hc hk
        rcases List.mem_append.mp hc with hc | hc
        · have hrec := h.value_calls_recorded hdb c hc hk
          by_cases hsame : c.key = keyOf ds cfg x ∧ c.name = n
          · rw [hsame.1, hsame.2, hstore_same]; rfl
          · have hne : c.key ≠ keyOf ds cfg x ∨ (c.name, Kind.value) ≠ (n, Kind.value) := by
              by_contra hcon
              push Not at hcon
              exact hsame ⟨hcon.1, by simpa using hcon.2⟩
            rw [hother c.key (c.name, .value) hne]; exact hrec
        · simp only [List.mem_singleton] at hc
          subst hc
          simp [hstore_same]
      · intro _ hsj c hc hk
        rcases List.mem_append.mp hc with hc | hc
        · rw [hother c.key (c.name, .jacobian) (Or.inr (by simp))]
          exact h.jac_calls_recorded hdb hsj c hc hk
        · simp only [List.mem_singleton] at hc
          subst hc
          simp at hk
      · intro _
        have hf : List.filter (fun c => c.kind == Kind.value)
            [({ name := n, kind := .value, key := keyOf ds cfg x, point := phys ds cfg x } : Call)]
            = [{ name := n, kind := .value, key := keyOf ds cfg x, point := phys ds cfg x }] := by
          simp [List.filter_cons]
        simp only [List.filter_append, List.map_append, hf, List.map_cons, List.map_nil]
        apply nodup_append_singleton _ _ (h.value_calls_unique hdb)
        intro hid
        obtain ⟨c, hcf, hcid⟩ := List.mem_map.mp hid
        have hc := (List.mem_filter.mp hcf)
        have hrec := h.value_calls_recorded hdb c hc.1 (by simpa using hc.2)
        simp only [callId, Prod.mk.injEq] at hcid
        rw [hcid.2.2, hcid.1, hl] at hrec
        cases hrec
      · intro _ hsj
        simp only [List.filter_append, List.map_append]
        have : List.filter (fun c => c.kind == Kind.jacobian)
            [({ name := n, kind := .value, key := keyOf ds cfg x, point := phys ds cfg x } : Call)] = [] := by
          simp [List.filter_cons]
        rw [this]
        simpa using h.jac_calls_unique hdb hsj
  · have hdb' : cfg.useDb = false := by simpa using hdb
    simp only [hdb', Bool.not_false, if_true]
    refine ⟨h.values, h.jacs, h.keys, ?_, ?_, ?_, ?_, ?_⟩
    · intro c hc
      rcases List.mem_append.mp hc with hc | hc
      · exact h.call_points c hc
      · simp only [List.mem_singleton] at hc
        subst hc
        simp [physOfKey_keyOf]
    · intro hcon; rw [hdb'] at hcon; cases hcon
    · intro hcon; rw [hdb'] at hcon; cases hcon
    · intro hcon; rw [hdb'] at hcon; cases hcon
    · intro hcon; rw [hdb'] at hcon; cases hcon

theorem inv_evalJac (st : St) (h : Inv ds cfg val jac st) (n : String) (x : List Rat) :
    Inv ds cfg val jac (evalJac ds cfg jac st n x).1 := by
  unfold evalJac
  by_cases hdb : cfg.useDb = true
  · simp only [hdb, Bool.not_true, Bool.false_eq_true, if_false]
    cases hl : lookupOut st.db (keyOf ds cfg x) (n, .jacobian) with
    | some v => exact h
    | none =>
      by_cases hsj : cfg.storeJac = true
      · simp only [hsj, if_true]
        have hstore_same := lookupOut_store_same st.db (keyOf ds cfg x) (n, .jacobian)
          (jacRecorded ds cfg jac n x)
        have hother : ∀ k' n', (k' ≠ keyOf ds cfg x ∨ n' ≠ (n, Kind.jacobian)) →
            lookupOut (store st.db (keyOf ds cfg x) (n, .jacobian) (jacRecorded ds cfg jac n x)) k' n'
              = lookupOut st.db k' n' :=
          fun k' n' hne => lookupOut_store_other st.db _ k' _ n' _ hne
        refine ⟨?_, ?_, nodup_store _ _ _ _ h.keys, ?_, ?_, ?_, ?_, ?_⟩
        · intro k m v hv
          rw [hother k (m, .value) (Or.inr (by simp))] at hv
          exact h.values k m v hv
        · intro k m v hv
          by_cases hk : k = keyOf ds cfg x ∧ m = n
          · obtain ⟨rfl, rfl⟩ := hk
            rw [hstore_same] at hv
            rw [← jacRecorded_eq]
            exact (Option.some.inj hv).symm
          · have hne : k ≠ keyOf ds cfg x ∨ (m, Kind.jacobian) ≠ (n, Kind.jacobian) := by
              by_contra hc
              push Not at hc
              exact hk ⟨hc.1, by simpa using hc.2⟩
            rw [hother k (m, .jacobian) hne] at hv
            exact h.jacs k m v hv
        · intro c hc
          rcases List.mem_append.mp hc with hc | hc
          · exact h.call_points c hc
          · simp only [List.mem_singleton] at hc
            subst hc
            simp [physOfKey_keyOf]
        · intro _ c hc hk
          rcases List.mem_append.mp hc with hc | hc
          · rw [hother c.key (c.name, .value) (Or.inr (by simp))]
            exact h.value_calls_recorded hdb c hc hk
          · simp only [List.mem_singleton] at hc
            subst hc
            simp at hk
        · intro _ _ c hc hk
          rcases List.mem_append.mp hc with hc | hc
          · have hrec := h.jac_calls_recorded hdb hsj c hc hk
            by_cases hsame : c.key = keyOf ds cfg x ∧ c.name = n
            · rw [hsame.1, hsame.2, hstore_same]; rfl
            · have hne : c.key ≠ keyOf ds cfg x ∨ (c.name, Kind.jacobian) ≠ (n, Kind.jacobian) := by
                by_contra hcon
                push Not at hcon
                exact hsame ⟨hcon.1, by simpa using hcon.2⟩
              rw [hother c.key (c.name, .jacobian) hne]; exact hrec
          · simp only [List.mem_singleton] at hc
            subst hc
            simp [hstore_same]
        · intro _
          simp only [List.filter_append, List.map_append]
          have : List.filter (fun c => c.kind == Kind.value)
              [({ name := n, kind := .jacobian, key := keyOf ds cfg x, point := phys ds cfg x } : Call)] = [] := by
            simp [List.filter_cons]
          rw [this]
          simpa using h.value_calls_unique hdb
        · intro _ _
          have hf : List.filter (fun c => c.kind == Kind.jacobian)
              [({ name := n, kind := .jacobian, key := keyOf ds cfg x, point := phys ds cfg x } : Call)]
              = [{ name := n, kind := .jacobian, key := keyOf ds cfg x, point := phys ds cfg x }] := by
            simp [List.filter_cons]
          simp only [List.filter_append, List.map_append, hf, List.map_cons, List.map_nil]
          apply nodup_append_singleton _ _ (h.jac_calls_unique hdb hsj)
          intro hid
          obtain ⟨c, hcf, hcid⟩ := List.mem_map.mp hid
          have hc := (List.mem_filter.mp hcf)
          have hrec := h.jac_calls_recorded hdb hsj c hc.1 (by simpa using hc.2)
          simp only [callId, Prod.mk.injEq] at hcid
          rw [hcid.2.2, hcid.1, hl] at hrec
          cases hrec
      · have hsj' : cfg.storeJac = false := by simpa using hsj
        simp only [hsj', Bool.false_eq_true, if_false]
        refine ⟨h.values, h.jacs, h.keys, ?_, ?_, ?_, ?_, ?_⟩
        · intro c hc
          rcases List.mem_append.mp hc with hc | hc
          · exact h.call_points c hc
          · simp only [List.mem_singleton] at hc
            subst hc
            simp [physOfKey_keyOf]
        · intro _ c hc hk
          rcases List.mem_append.mp hc with hc | hc
          · exact h.value_calls_recorded hdb c hc hk
          · simp only [List.mem_singleton] at hc
            subst hc
            simp at hk
        · intro _ hcon; rw [hsj'] at hcon; cases hcon
        · intro _
          simp only [List.filter_append, List.map_append]
          have : List.filter (fun c => c.kind == Kind.value)
              [({ name := n, kind := .jacobian, key := keyOf ds cfg x, point := phys ds cfg x } : Call)] = [] := by
            simp [List.filter_cons]
          rw [this]
          simpa using h.value_calls_unique hdb
        · intro _ hcon; rw [hsj'] at hcon; cases hcon
  · have hdb' : cfg.useDb = false := by simpa using hdb
    simp only [hdb', Bool.not_false, if_true]
    refine ⟨h.values, h.jacs, h.keys, ?_, ?_, ?_, ?_, ?_⟩
    · intro c hc
      rcases List.mem_append.mp hc with hc | hc
      · exact h.call_points c hc
      · simp only [List.mem_singleton] at hc
        subst hc
        simp [physOfKey_keyOf]
    · intro hcon; rw [hdb'] at hcon; cases hcon
    · intro hcon; rw [hdb'] at hcon; cases hcon
    · intro hcon; rw [hdb'] at hcon; cases hcon
    · intro hcon; rw [hdb'] at hcon; cases hcon

/-- **Every reachable state satisfies the invariant**: for every request history (any
    interleaving of value/Jacobian requests, repeated points, Jacobian before value). -/
theorem inv_reachable (rs : List Req) : Inv ds cfg val jac (run ds cfg val jac St.init rs) := by
  have gen : ∀ (rs : List Req) (st : St), Inv ds cfg val jac st → Inv ds cfg val jac (run ds cfg val jac st rs) := by
    intro rs
    induction rs with
    | nil => intro st h; exact h
    | cons r rs ih =>
      intro st h
      simp only [run, List.foldl_cons]
      apply ih
      unfold step
      cases r.kind
      · exact inv_evalValue ds cfg val jac st h r.name r.x
      · exact inv_evalJac ds cfg val jac st h r.name r.x
  exact gen rs St.init (inv_init ds cfg val jac)

/-- **No original value function is ever called twice for the same database point**, along any
    history (database on); the same for Jacobians when they are stored; and every call happens at
    the physical point of its key. Database keys are unique. -/
theorem calls_unique_along_history (rs : List Req) (hdb : cfg.useDb = true) :
    let st := run ds cfg val jac St.init rs
    ((st.calls.filter (fun c => c.kind == .value)).map callId).Nodup ∧
    (cfg.storeJac = true → ((st.calls.filter (fun c => c.kind == .jacobian)).map callId).Nodup) ∧
    (∀ c ∈ st.calls, c.point = physOfKey ds cfg c.key) ∧
    (st.db.map (·.key)).Nodup := by
  have h := inv_reachable ds cfg val jac rs
  exact ⟨h.value_calls_unique hdb, h.jac_calls_unique hdb, h.call_points, h.keys⟩

/-- **Same result as the first time**: two value requests mapping to the same database key return
    the same vector, whatever happened in between. -/
theorem same_result_as_first_time (rs1 rs2 : List Req) (n : String) (x y : List Rat)
    (hxy : keyOf ds cfg x = keyOf ds cfg y) :
    (evalValue ds cfg val (run ds cfg val jac St.init rs1) n x).2
      = (evalValue ds cfg val (run ds cfg val jac St.init (rs1 ++ rs2)) n y).2 := by
  rw [eval_value_faithful ds cfg val jac _ (inv_reachable ds cfg val jac rs1),
    eval_value_faithful ds cfg val jac _ (inv_reachable ds cfg val jac (rs1 ++ rs2)),
    ← physOfKey_keyOf, ← physOfKey_keyOf ds cfg y, hxy]

end

/-! ### Normalisation of linear functions is exact -/

/-- `MDOLinearFunction.normalize` on one coefficient: `a·(l + s·t) = (a·s)·t + a·l`. -/
theorem linear_normalize_component (a l s t : Rat) : a * (l + s * t) = (a * s) * t + a * l := by
  ring

/-! ### Non-vacuity -/

def exDs : DS := { vars := [⟨"x", false, [some 0, some 1], [some 2, some 1], none⟩] }
def exCfg : Cfg := ⟨true, true, true, false⟩
def exVal (_ : String) (x : List Rat) : List Rat := [x.sum]
def exJac (_ : String) (x : List Rat) : Mat := [x.map (fun _ => 1)]

example : (run exDs exCfg exVal exJac St.init
    [⟨"f", .jacobian, [1/2, 0]⟩, ⟨"f", .value, [1/2, 0]⟩, ⟨"f", .value, [1/2, 7]⟩]).calls.length = 2 := by
  decide +kernel
example : (evalJac exDs exCfg exJac St.init "f" [1/2, 0]).2 = [[2, 0]] := by decide +kernel
example : (evalJac exDs exCfg exJac St.init "f" [1/2, 0]).1.db.map (·.outs)
    = [[(("f", .jacobian), [[1, 0]])]] := by decide +kernel

end GV.C01
