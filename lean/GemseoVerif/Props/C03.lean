/-
C03 — property theorems: whatever requests an algorithm issues (any sequence, any NaN results, any
firing of the time limit or of the tolerance testers), a run with budget `N` creates at most `N` new
non-empty database entries, never evaluates an unseen point once the counter is full, calls the
original value functions only at recorded points, and `execute` can always build a result from the
recorded history.
-/
import GemseoVerif.Model.C03
import GemseoVerif.Lemmas.C03Doe
import GemseoVerif.Lemmas.C03Term
import GemseoVerif.Props.C04
import Mathlib.Data.List.Basic
import Mathlib.Data.List.Perm.Subperm
import Mathlib.Tactic.Linarith

namespace GV.C03

/-! ### Database bookkeeping lemmas -/

def KeysNodup (db : List Entry) : Prop := (db.map (·.key)).Nodup

theorem store_keys (db : List Entry) (k : Key) (n : OutName) :
    (store db k n).map (·.key) =
      if db.any (fun e => e.key == k) then db.map (·.key) else db.map (·.key) ++ [k] := by
  unfold store
  by_cases hany : db.any (fun e => e.key == k) = true
  · simp only [hany, if_true, List.map_map]
    apply List.map_congr_left
    intro e _
    simp only [Function.comp]
    split <;> rfl
  · simp [hany]

theorem store_keysNodup (db : List Entry) (k : Key) (n : OutName) (h : KeysNodup db) :
    KeysNodup (store db k n) := by
  unfold KeysNodup
  rw [store_keys]
  split
  · exact h
  · rename_i hany
    rw [List.nodup_append]
    refine ⟨h, by simp, ?_⟩
    intro a ha b hb
    simp only [List.mem_singleton] at hb
    subst hb
    intro hab
    subst hab
    obtain ⟨e, he, hek⟩ := List.mem_map.mp ha
    exact hany (List.any_eq_true.mpr ⟨e, he, by simpa using hek⟩)

/-- The recorded keys only grow, at the end: earlier keys stay a prefix (recording order). -/
theorem store_keys_prefix (db : List Entry) (k : Key) (n : OutName) :
    db.map (·.key) <+: (store db k n).map (·.key) := by
  rw [store_keys]
  split
  · exact List.prefix_refl _
  · exact List.prefix_append _ _

/-- The update applied by `store` to the entry of the key. -/
private def upd (n : OutName) (e : Entry) : Entry :=
  { e with outs := if e.outs.contains n then e.outs else e.outs ++ [n] }

private theorem upd_nonempty (n : OutName) (e : Entry) : (upd n e).outs.isEmpty = false := by
  unfold upd
  by_cases hc : e.outs.contains n = true
  · simp only [hc, if_true]
    have : e.outs ≠ [] := by
      intro hnil; rw [hnil] at hc; simp at hc
    simpa using this
  · simp only [hc, Bool.false_eq_true, if_false]
    simp

private theorem map_noop (es : List Entry) (k : Key) (n : OutName)
    (h : ∀ e ∈ es, e.key ≠ k) :
    es.map (fun e => if e.key == k then upd n e else e) = es := by
  induction es with
  | nil => rfl
  | cons e es ih =>
    have he : (e.key == k) = false := by
      have := h e (by simp)
      simpa using this
    simp only [List.map_cons, he, Bool.false_eq_true, if_false]
    rw [ih (fun x hx => h x (List.mem_cons_of_mem _ hx))]

private theorem count_map_one (db : List Entry) (k : Key) (n : OutName) (h : KeysNodup db)
    (e0 : Entry) (he0 : e0 ∈ db) (hk0 : e0.key = k) :
    nonEmptyCount (db.map (fun e => if e.key == k then upd n e else e))
      = nonEmptyCount db + (if e0.outs.isEmpty then 1 else 0) := by
  induction db with
  | nil => cases he0
  | cons e es ih =>
    have hnd : (∀ x ∈ es, x.key ≠ e.key) ∧ KeysNodup es := by
      unfold KeysNodup at h ⊢
      simp only [List.map_cons, List.nodup_cons, List.mem_map, not_exists, not_and] at h
      exact ⟨fun x hx => h.1 x hx, h.2⟩
    rcases List.mem_cons.mp he0 with rfl | hmem
    · have hrest := map_noop es k n (fun x hx => by rw [← hk0]; exact hnd.1 x hx)
      have hek : (e0.key == k) = true := by simpa using hk0
      simp only [List.map_cons, hek, if_true, hrest]
      unfold nonEmptyCount
      simp only [List.filter_cons, upd_nonempty, Bool.not_false, if_true, List.length_cons]
      by_cases hemp : e0.outs.isEmpty = true
      · simp [hemp]
      · simp [hemp]
    · have hek : (e.key == k) = false := by
        have : e.key ≠ k := by
          intro hc
          exact hnd.1 e0 hmem (by rw [hk0, hc])
        simpa using this
      have ih' := ih hnd.2 hmem
      simp only [List.map_cons, hek, Bool.false_eq_true, if_false]
      unfold nonEmptyCount at ih' ⊢
      simp only [List.filter_cons]
      by_cases hemp : e.outs.isEmpty = true
      · simp only [hemp, Bool.not_true, Bool.false_eq_true, if_false]
        exact ih'
      · simp only [hemp, Bool.not_false, if_true, List.length_cons]
        omega

/-- A store makes exactly one more entry non-empty iff the point was unseen (absent or empty). -/
theorem nonEmptyCount_store (db : List Entry) (k : Key) (n : OutName) (h : KeysNodup db) :
    nonEmptyCount (store db k n) = nonEmptyCount db + (if unseen db k then 1 else 0) := by
  unfold store unseen lookupEntry
  by_cases hany : db.any (fun e => e.key == k) = true
  · simp only [hany, if_true]
    obtain ⟨e0, he0, hk0⟩ := List.any_eq_true.mp hany
    have hk0' : e0.key = k := by simpa using hk0
    cases hf : db.find? (fun e => e.key == k) with
    | none =>
      exfalso
      exact (List.find?_eq_none.mp hf e0 he0) hk0
    | some e1 =>
      have he1 : e1 ∈ db := List.mem_of_find?_eq_some hf
      have hk1 : e1.key = k := by
        have := List.find?_some (p := fun e : Entry => e.key == k) hf
        simpa using this
      have := count_map_one db k n h e1 he1 hk1
      simpa [upd] using this
  · simp only [hany, Bool.false_eq_true, if_false]
    have hnone : db.find? (fun e => e.key == k) = none := by
      apply List.find?_eq_none.mpr
      intro e he hek
      exact hany (List.any_eq_true.mpr ⟨e, he, hek⟩)
    simp [hnone, nonEmptyCount, List.filter_append]

private theorem store_eq (db : List Entry) (k : Key) (n : OutName) :
    store db k n = if db.any (fun e => e.key == k) then
      db.map (fun e => if e.key == k then upd n e else e) else db ++ [⟨k, [n]⟩] := rfl

private theorem find_map_upd (db : List Entry) (k k' : Key) (n : OutName) :
    (db.map (fun e => if e.key == k then upd n e else e)).find? (fun e => e.key == k')
      = (db.find? (fun e => e.key == k')).map (fun e => if e.key == k then upd n e else e) := by
  induction db with
  | nil => rfl
  | cons e es ih =>
    simp only [List.map_cons, List.find?_cons]
    have hkey : (if (e.key == k) = true then upd n e else e).key = e.key := by
      split <;> rfl
    rw [hkey]
    by_cases hk' : e.key == k'
    · simp [hk']
    · simp only [hk']; exact ih

theorem unseen_store_false (db : List Entry) (k : Key) (n : OutName) :
    unseen (store db k n) k = false := by
  unfold unseen lookupEntry
  rw [store_eq]
  by_cases hany : db.any (fun e => e.key == k) = true
  · simp only [hany, if_true, find_map_upd]
    obtain ⟨e0, he0, hk0⟩ := List.any_eq_true.mp hany
    cases hf : db.find? (fun e => e.key == k) with
    | none => exact absurd hk0 (List.find?_eq_none.mp hf e0 he0)
    | some e1 =>
      have hk1 : (e1.key == k) = true := by
        have := List.find?_some (p := fun e : Entry => e.key == k) hf
        simpa using this
      simp only [Option.map_some, hk1, if_true]
      exact upd_nonempty n e1
  · simp only [hany, Bool.false_eq_true, if_false]
    rw [List.find?_append]
    have hnone : db.find? (fun e => e.key == k) = none := by
      apply List.find?_eq_none.mpr
      intro e he hek
      exact hany (List.any_eq_true.mpr ⟨e, he, hek⟩)
    simp [hnone]

theorem unseen_store_other (db : List Entry) (k k' : Key) (n : OutName) (h : unseen db k' = false) :
    unseen (store db k n) k' = false := by
  by_cases hkk : k' = k
  · subst hkk; exact unseen_store_false db k' n
  · unfold unseen lookupEntry at h ⊢
    rw [store_eq]
    by_cases hany : db.any (fun e => e.key == k) = true
    · simp only [hany, if_true, find_map_upd]
      cases hf : db.find? (fun e => e.key == k') with
      | none => simp [hf] at h
      | some e1 =>
        have hk1 : e1.key = k' := by
          have := List.find?_some (p := fun e : Entry => e.key == k') hf
          simpa using this
        have hne : (e1.key == k) = false := by
          rw [hk1]; simpa using hkk
        simp only [Option.map_some, hne, Bool.false_eq_true, if_false]
        simpa [hf] using h
    · simp only [hany, Bool.false_eq_true, if_false]
      rw [List.find?_append]
      cases hf : db.find? (fun e => e.key == k') with
      | some e => simpa [hf] using h
      | none => simp [hf] at h

/-! ### One request -/

section
variable (cfg : Cfg)

/-- **MaxIter is raised before an unseen point is evaluated once the counter is full**: no call, no
    store, state unchanged. -/
theorem maxiter_before_unseen (st : St) (r : Req)
    (hrec : recorded st.db r.key (r.name, r.kind) = false) (hun : unseen st.db r.key = true)
    (hmax : maximumIsReached st = true) :
    step cfg st r = (st, .stop .maxIter) := by
  simp [step, hrec, hun, hmax]

/-- A recorded output is served: no call, no store. -/
theorem served_when_recorded (st : St) (r : Req)
    (hrec : recorded st.db r.key (r.name, r.kind) = true) :
    step cfg st r = (st, .served) := by
  simp [step, hrec]

/-- The invariant of a run. -/
structure Inv (st0 st : St) : Prop where
  keys : KeysNodup st.db
  maximum_fixed : st.maximum = st0.maximum
  counter_ge : st0.current ≤ st.current
  counter_tracks_entries : nonEmptyCount st.db + st0.current = nonEmptyCount st0.db + st.current
  counter_le_max : st.maximum ≠ 0 → st.current ≤ st.maximum
  prefix_keys : st0.db.map (·.key) <+: st.db.map (·.key)

theorem inv_step (st0 st : St) (r : Req) (h : Inv st0 st) : Inv st0 (step cfg st r).1 := by
  unfold step
  by_cases hrec : recorded st.db r.key (r.name, r.kind) = true
  · simp only [hrec, if_true]; exact h
  · simp only [hrec, Bool.false_eq_true, if_false]
    by_cases hstop : (unseen st.db r.key && maximumIsReached st) = true
    · simp only [hstop, if_true]; exact h
    · simp only [hstop, Bool.false_eq_true, if_false]
      by_cases hraise : r.raises = true
      · simp only [hraise, if_true]
        exact ⟨h.keys, h.maximum_fixed, h.counter_ge, h.counter_tracks_entries, h.counter_le_max, h.prefix_keys⟩
      simp only [hraise, Bool.false_eq_true, if_false]
      by_cases hnan : (r.isNan && cfg.stopIfNan) = true
      · simp only [hnan, if_true]
        exact ⟨h.keys, h.maximum_fixed, h.counter_ge, h.counter_tracks_entries, h.counter_le_max, h.prefix_keys⟩
      · simp only [hnan, Bool.false_eq_true, if_false]
        by_cases hst : (r.kind == Kind.value || cfg.storeJac) = true
        · simp only [hst, Bool.not_true, Bool.false_eq_true, if_false]
          have hcount := nonEmptyCount_store st.db r.key (r.name, r.kind) h.keys
          have hkeys := store_keysNodup st.db r.key (r.name, r.kind) h.keys
          have hpre : st0.db.map (·.key) <+: (store st.db r.key (r.name, r.kind)).map (·.key) :=
            List.IsPrefix.trans h.prefix_keys (store_keys_prefix st.db r.key (r.name, r.kind))
          by_cases hun : unseen st.db r.key = true
          · -- a new iteration: the counter is incremented exactly once
            simp only [hun, Bool.not_true, Bool.false_eq_true, if_false]
            have hnotmax : maximumIsReached st = false := by
              simpa [hun] using hstop
            have hinv : Inv st0 (St.mk (store st.db r.key (r.name, r.kind)) (st.current + 1)
                st.maximum (st.calls ++ [⟨r.name, r.kind, r.key⟩])) := by
              refine ⟨hkeys, h.maximum_fixed, by have := h.counter_ge; simp; omega, ?_, ?_, hpre⟩
              · simp only [hcount, hun, if_true]
                have := h.counter_tracks_entries
                omega
              · intro hm
                simp only [maximumIsReached, Bool.and_eq_false_iff, bne_eq_false_iff_eq,
                  decide_eq_false_iff_not, not_le] at hnotmax
                rcases hnotmax with h0 | hlt
                · exact absurd h0 hm
                · simp; omega
            split
            · exact hinv
            · split <;> exact hinv
          · simp only [hun, Bool.not_false, if_true]
            refine ⟨hkeys, h.maximum_fixed, h.counter_ge, ?_, h.counter_le_max, hpre⟩
            simp only [hcount, hun, Bool.false_eq_true, if_false, Nat.add_zero]
            exact h.counter_tracks_entries
        · simp only [hst, Bool.not_false, if_true]
          exact ⟨h.keys, h.maximum_fixed, h.counter_ge, h.counter_tracks_entries, h.counter_le_max, h.prefix_keys⟩

theorem inv_run (st0 : St) (rs : List Req) (st : St) (h : Inv st0 st) :
    Inv st0 (runUntilStop cfg st rs).1 := by
  induction rs generalizing st with
  | nil => exact h
  | cons r rs ih =>
    have hs := inv_step cfg st0 st r h
    unfold runUntilStop
    cases hstep : step cfg st r with
    | mk st' o =>
      rw [hstep] at hs
      cases o with
      | served => exact ih st' hs
      | computed => exact ih st' hs
      | raised => exact ih st' hs
      | stop t => exact hs

theorem inv_start (db : List Entry) (hk : KeysNodup db) (maxIter previous : Nat) (reset : Bool)
    (hprev : maxIter ≠ 0 → previous ≤ maxIter) :
    Inv (start db maxIter previous reset) (start db maxIter previous reset) := by
  refine ⟨hk, rfl, le_refl _, rfl, ?_, List.prefix_refl _⟩
  intro hm
  simp only [start] at hm ⊢
  split
  · omega
  · exact hprev hm

/-- **Budget theorem.** For every algorithm (any request sequence), every NaN/time/tolerance
    behaviour, any pre-loaded database and with or without counter reset: a run with budget
    `N ≥ 1` makes at most `N` database entries non-empty, the counter never exceeds `N`, exactly
    one counter increment happens per new non-empty entry, and previously recorded points keep
    their place (recording order). -/
theorem budget_entries (db : List Entry) (hk : KeysNodup db) (N previous : Nat) (reset : Bool)
    (hN : 1 ≤ N) (hprev : previous ≤ N) (rs : List Req) :
    let st0 := start db N previous reset
    let st := (runUntilStop cfg st0 rs).1
    nonEmptyCount st.db ≤ nonEmptyCount db + N ∧
    nonEmptyCount st.db - nonEmptyCount db = st.current - st0.current ∧
    st.current ≤ N ∧
    db.map (·.key) <+: st.db.map (·.key) ∧ KeysNodup st.db := by
  intro st0 st
  have h0 := inv_start db hk N previous reset (fun _ => hprev)
  have h : Inv st0 st := inv_run cfg st0 rs st0 h0
  have hmaxeq : st.maximum = N := by rw [h.maximum_fixed]; rfl
  have hle : st.current ≤ N := by
    have := h.counter_le_max (by rw [hmaxeq]; omega)
    rw [hmaxeq] at this; exact this
  have ht : nonEmptyCount st.db + st0.current = nonEmptyCount db + st.current :=
    h.counter_tracks_entries
  have hge : st0.current ≤ st.current := h.counter_ge
  have hdb0 : st0.db = db := rfl
  refine ⟨by omega, by omega, hle, ?_, h.keys⟩
  have := h.prefix_keys
  rw [hdb0] at this
  exact this

/-! ### Calls of the original value functions -/

/-- Every value call so far happened at a point that is recorded (non-empty) in the database. -/
def ValueCallsRecorded (st : St) : Prop :=
  ∀ c ∈ st.calls, c.kind = .value → unseen st.db c.key = false

/-- A request keeps "value calls happen at recorded points", unless it stops on a NaN (the only
    case where an original value function ran at a point that is then not recorded). -/
theorem valueCalls_step (st : St) (r : Req) (h : ValueCallsRecorded st)
    (hnan : (step cfg st r).2 ≠ .stop .functionIsNan) (hraise : r.raises = false) :
    ValueCallsRecorded (step cfg st r).1 := by
  unfold step at hnan ⊢
  simp only [hraise, Bool.false_eq_true, if_false] at hnan ⊢
  by_cases hrec : recorded st.db r.key (r.name, r.kind) = true
  · simp only [hrec, if_true]; exact h
  · simp only [hrec, Bool.false_eq_true, if_false] at hnan ⊢
    by_cases hstop : (unseen st.db r.key && maximumIsReached st) = true
    · simp only [hstop, if_true]; exact h
    · simp only [hstop, Bool.false_eq_true, if_false] at hnan ⊢
      by_cases hn : (r.isNan && cfg.stopIfNan) = true
      · simp [hn] at hnan
      · simp only [hn, Bool.false_eq_true, if_false] at hnan ⊢
        have key_lemma : ∀ (st' : St), st'.db = store st.db r.key (r.name, r.kind) →
            st'.calls = st.calls ++ [⟨r.name, r.kind, r.key⟩] → ValueCallsRecorded st' := by
          intro st' hdb hcalls c hc hk
          rw [hcalls] at hc
          rw [hdb]
          rcases List.mem_append.mp hc with hc | hc
          · exact unseen_store_other st.db r.key c.key _ (h c hc hk)
          · simp only [List.mem_singleton] at hc
            subst hc
            exact unseen_store_false st.db r.key _
        by_cases hst : (r.kind == Kind.value || cfg.storeJac) = true
        · simp only [hst, Bool.not_true, Bool.false_eq_true, if_false]
          by_cases hun : unseen st.db r.key = true
          · simp only [hun, Bool.not_true, Bool.false_eq_true, if_false]
            split
            · exact key_lemma _ rfl rfl
            · split <;> exact key_lemma _ rfl rfl
          · simp only [hun, Bool.not_false, if_true]
            exact key_lemma _ rfl rfl
        · simp only [hst, Bool.not_false, if_true]
          -- a Jacobian that is not stored: the new call is not a value call
          have hkind : r.kind = Kind.jacobian := by
            cases hk : r.kind
            · simp [hk] at hst
            · rfl
          intro c hc hk
          rcases List.mem_append.mp hc with hc | hc
          · exact h c hc hk
          · simp only [List.mem_singleton] at hc
            subst hc
            simp [hkind] at hk

/-- **Along every run that is not stopped by a NaN, the original value functions have only been
    called at points that are recorded in the database** — hence, with the budget theorem, at no
    more than `N` new distinct points (a NaN stop adds the single unrecorded NaN point). -/
theorem valueCalls_run (st : St) (rs : List Req) (h : ValueCallsRecorded st)
    (hnan : (runUntilStop cfg st rs).2 ≠ some .functionIsNan) (hraise : ∀ r ∈ rs, r.raises = false) :
    ValueCallsRecorded (runUntilStop cfg st rs).1 := by
  induction rs generalizing st with
  | nil => exact h
  | cons r rs ih =>
    unfold runUntilStop at hnan ⊢
    cases hstep : step cfg st r with
    | mk st' o =>
      rw [hstep] at hnan
      have hs := fun hne => valueCalls_step cfg st r h hne (hraise r (by simp))
      rw [hstep] at hs
      have hraise' : ∀ r' ∈ rs, r'.raises = false := fun r' hr' => hraise r' (List.mem_cons_of_mem _ hr')
      cases o with
      | served => exact ih st' (hs (by simp)) hnan hraise'
      | computed => exact ih st' (hs (by simp)) hnan hraise'
      | raised => exact ih st' (hs (by simp)) hnan hraise'
      | stop t =>
        apply hs
        intro hc
        simp only [Outcome.stop.injEq] at hc
        subst hc
        exact hnan rfl

end

/-! ### `execute` can always build a result from the recorded history (with C04) -/

/-- **A result can be built from every non-empty recorded history**: the reported point is a
    recorded point (index within the history), whatever stopped the run. With an empty history the
    code returns the default result (C04 `optimum_none_iff_empty`). -/
theorem result_total (cfg4 : GV.C04.Cfg) (h : List GV.C04.Entry) (hne : h ≠ []) :
    ∃ s i, GV.C04.optimum cfg4 h = some s ∧ s.idx = some i ∧ i < h.length := by
  cases hs : GV.C04.optimum cfg4 h with
  | none => exact absurd ((GV.C04.optimum_none_iff_empty cfg4 h).mp hs) hne
  | some s =>
    by_cases hf : ∃ e ∈ h, GV.C04.isFeasible cfg4 e = true
    · obtain ⟨_, i, e, hi, hge, _⟩ := GV.C04.optimum_feasible_point cfg4 h s hs hf
      refine ⟨s, i, rfl, hi, ?_⟩
      by_contra hc
      rw [List.getElem?_eq_none (Nat.le_of_not_lt hc)] at hge; cases hge
    · have hnf : ∀ e ∈ h, GV.C04.isFeasible cfg4 e = false := by
        intro e he
        by_contra hc
        exact hf ⟨e, he, by simpa using hc⟩
      obtain ⟨_, i, e, hi, hge, _⟩ := GV.C04.optimum_least_infeasible cfg4 h s hs hnf
      refine ⟨s, i, rfl, hi, ?_⟩
      by_contra hc
      rw [List.getElem?_eq_none (Nat.le_of_not_lt hc)] at hge; cases hge

/-! ### Whichever termination criterion fires, `execute` returns a result (translator-fed table)

`Gen/C03Term.lean` is regenerated from /repo on every run: the exception classes of `stop_criteria.py`, the
classes raised under `algos/`, the `except` clause of `BaseDriverLibrary.execute`. -/

/-- Every exception class raised under `algos/` to stop a run is a subclass of a class caught by the handler of
    `execute` that builds the early-stopping result. -/
theorem raised_all_caught : Gen.raised.all (caughtBy Gen.classes Gen.caught) = true := by decide

/-- The handler calls `_get_early_stopping_result`, which returns `_get_result(...)` on every path. -/
theorem handler_builds_result : Gen.handlerBuildsResult = true := by decide

/-- Every stop reason of the model is carried by a class of the generated table that is actually raised. -/
theorem term_classes_raised (t : Term) : t.className ∈ Gen.raised := by
  cases t <;> decide

/-- **`execute` never lets a termination exception escape**: for every stop reason of the model (budget, NaN in a
    function or in the design variables, time limit, x/f tolerance, KKT), and for every class raised under
    `algos/` at all, `execute` ends by returning a result; that result is built from the recorded history
    (`result_total`). -/
theorem execute_total (c : String) (hc : c ∈ Gen.raised) :
    executeEnd Gen.classes Gen.caught Gen.handlerBuildsResult (some c) = .result := by
  have h := List.all_eq_true.mp raised_all_caught c hc
  simp [executeEnd, h, handler_builds_result]

theorem execute_total_term (t : Term) :
    executeEnd Gen.classes Gen.caught Gen.handlerBuildsResult (some t.className) = .result :=
  execute_total _ (term_classes_raised t)

/-- Non-vacuity: the family is not empty, and an exception outside it does propagate. -/
example : Gen.raised ≠ [] ∧
    executeEnd Gen.classes Gen.caught Gen.handlerBuildsResult (some "ValueError") = .propagates := by decide

/-! ### Sequential DOE: each distinct sample once, recorded in generation order -/

theorem runUntilStop_append (cfg : Cfg) (st st1 : St) (rs1 rs2 : List Req)
    (h : runUntilStop cfg st rs1 = (st1, none)) :
    runUntilStop cfg st (rs1 ++ rs2) = runUntilStop cfg st1 rs2 := by
  induction rs1 generalizing st with
  | nil =>
    simp only [runUntilStop, Prod.mk.injEq, and_true] at h
    subst h; rfl
  | cons r rs ih =>
    simp only [List.cons_append, runUntilStop] at h ⊢
    cases hstep : step cfg st r with
    | mk st' o =>
      rw [hstep] at h
      cases o with
      | served => exact ih st' h
      | computed => exact ih st' h
      | raised => exact ih st' h
      | stop t => simp at h

theorem doeRequests_cons (fnames : List String) (s : Key) (ss : List Key) :
    doeRequests fnames (s :: ss) = sampleReqs fnames s ++ doeRequests fnames ss := by
  simp [doeRequests, sampleReqs]

/-- Processing one more generated sample. -/
theorem doe_step_sample (fnames : List String) (hne : fnames ≠ []) (hnd : fnames.Nodup) (N : Nat)
    (P : List Key) (s : Key) (st : St) (h : DoeInv fnames N P st) (hlen : P.length < N) :
    ∃ st', runUntilStop doeCfg st (sampleReqs fnames s) = (st', none) ∧
      DoeInv fnames N (P ++ [s]) st' := by
  by_cases hs : (firstOcc P).contains s = true
  · refine ⟨st, sample_seen fnames st (firstOcc P) s h.db hs fnames (fun f hf => hf), ?_⟩
    have : firstOcc (P ++ [s]) = firstOcc P := by rw [firstOcc_snoc, hs]; rfl
    exact ⟨by rw [this]; exact h.db, by rw [this]; exact h.current, h.maximum, by rw [this]; exact h.calls⟩
  · have hs' : (firstOcc P).contains s = false := by simpa using hs
    obtain ⟨f, fs, rfl⟩ := List.exists_cons_of_ne_nil hne
    have hnd' := List.nodup_cons.mp hnd
    have hfo : firstOcc (P ++ [s]) = firstOcc P ++ [s] := by rw [firstOcc_snoc, hs']; rfl
    -- first output function: a new iteration
    have hlk : lookupEntry st.db s = none := by
      rw [h.db, lookup_in_map, hs']; rfl
    have hrec : recorded st.db s (f, Kind.value) = false := by unfold recorded; rw [hlk]
    have hun : unseen st.db s = true := by unfold unseen; rw [hlk]
    have hmax : maximumIsReached st = false := by
      unfold maximumIsReached
      have := firstOcc_length_le P
      rw [h.maximum, h.current]
      simp only [Bool.and_eq_false_iff, bne_eq_false_iff_eq, decide_eq_false_iff_not, not_le]
      right; omega
    have hfresh : st.db.any (fun e => e.key == s) = false := by
      rw [h.db]
      simp only [List.any_map, List.any_eq_false, Function.comp, beq_iff_eq]
      intro k hk hks
      subst hks
      have : (firstOcc P).contains k = true := by simpa using hk
      rw [hs'] at this; cases this
    have hstore : store st.db s (f, Kind.value) = st.db ++ [Entry.mk s [(f, Kind.value)]] := by
      unfold store; simp [hfresh]
    have hstep : step doeCfg st { name := f, kind := .value, key := s }
        = (St.mk (st.db ++ [Entry.mk s (valueOuts [f])]) (st.current + 1) st.maximum
            (st.calls ++ [Call.mk f .value s]), Outcome.computed) := by
      simp only [step, hrec, hun, hmax, Bool.and_false, Bool.false_eq_true, if_false, doeCfg,
        beq_self_eq_true, Bool.true_or, Bool.not_true, if_true, hstore, Bool.not_false]
      simp [valueOuts]
    have hrest := sample_rest st.db s (st.current + 1) st.maximum hfresh fs [f]
      (st.calls ++ [Call.mk f .value s]) (by simp)
      (by
        intro g hg
        have hgf : g ≠ f := fun e => hnd'.1 (e ▸ hg)
        simp [valueOuts, hgf])
      hnd'.2
    refine ⟨St.mk (st.db ++ [Entry.mk s (valueOuts ([f] ++ fs))]) (st.current + 1) st.maximum
      (st.calls ++ [Call.mk f .value s] ++ sampleCalls fs s), ?_, ?_⟩
    · have hunf : runUntilStop doeCfg st (sampleReqs (f :: fs) s)
          = runUntilStop doeCfg (St.mk (st.db ++ [Entry.mk s (valueOuts [f])]) (st.current + 1)
              st.maximum (st.calls ++ [Call.mk f .value s])) (sampleReqs fs s) := by
        simp only [sampleReqs, List.map_cons]
        rw [runUntilStop, hstep]
      rw [hunf]
      exact hrest
    · refine ⟨?_, ?_, h.maximum, ?_⟩
      · simp [hfo, h.db]
      · simp [hfo, h.current]
      · simp [hfo, h.calls, sampleCalls, List.append_assoc]

/-- **Sequential DOE theorem.** With the budget set to the number of generated samples (as
    `BaseDOELibrary._pre_run` does), the run never stops early, every *distinct* sample is
    evaluated exactly once for every output function (duplicates are served from the database),
    and the database holds the distinct samples in generation order. -/
theorem doe_each_distinct_once_in_generation_order (fnames : List String) (hne : fnames ≠ [])
    (hnd : fnames.Nodup) (samples : List Key) :
    ∃ st, runUntilStop doeCfg (start [] samples.length 0 true) (doeRequests fnames samples) = (st, none) ∧
      st.db.map (·.key) = firstOcc samples ∧
      st.calls = (firstOcc samples).flatMap (sampleCalls fnames) ∧
      st.current = (firstOcc samples).length := by
  have gen : ∀ (ss P : List Key) (st : St), DoeInv fnames samples.length P st →
      P.length + ss.length ≤ samples.length →
      ∃ st', runUntilStop doeCfg st (doeRequests fnames ss) = (st', none) ∧
        DoeInv fnames samples.length (P ++ ss) st' := by
    intro ss
    induction ss with
    | nil =>
      intro P st h _
      exact ⟨st, by simp [doeRequests, runUntilStop], by simpa using h⟩
    | cons s ss ih =>
      intro P st h hlen
      simp only [List.length_cons] at hlen
      obtain ⟨st1, hrun1, hinv1⟩ := doe_step_sample fnames hne hnd samples.length P s st h (by omega)
      obtain ⟨st2, hrun2, hinv2⟩ := ih (P ++ [s]) st1 hinv1 (by simp; omega)
      refine ⟨st2, ?_, by simpa using hinv2⟩
      rw [doeRequests_cons, runUntilStop_append doeCfg st st1 _ _ hrun1]
      exact hrun2
  have h0 : DoeInv fnames samples.length [] (start [] samples.length 0 true) :=
    ⟨by simp [start, firstOcc], by simp [start, firstOcc], rfl, by simp [start, firstOcc]⟩
  obtain ⟨st, hrun, hinv⟩ := gen samples [] _ h0 (by simp)
  simp only [List.nil_append] at hinv
  refine ⟨st, hrun, ?_, hinv.calls, hinv.current⟩
  rw [hinv.db]
  simp [List.map_map, Function.comp_def]

/-! ### Non-vacuity -/

example :
    let rs : List Req := [⟨"f", .value, [1], false, false, false, none⟩, ⟨"g", .value, [1], false, false, false, none⟩,
      ⟨"f", .value, [2], false, false, false, none⟩, ⟨"f", .value, [3], false, false, false, none⟩]
    let r := runUntilStop {} (start [] 2 0 true) rs
    r.2 = some Term.maxIter ∧ nonEmptyCount r.1.db = 2 ∧ r.1.current = 2 ∧ r.1.calls.length = 3 := by
  decide +kernel

end GV.C03
